import VncModel.Auth.Model
/-
Helper lemmas for Props/C05.lean: the per-connection invariant of the FIXED handshake
(`fixed = true`), its preservation by one call of rfbProcessClientMessage whatever the global
state is, frame lemmas for events of other connections, and the characterisation of the two
password checkers.
-/
namespace VncModel.Auth

/-- neither "authentication succeeded" nor ServerInit has been written to this connection -/
def Clean (c : Conn) : Prop := Msg.secResult true ∉ c.sent ∧ Msg.serverInit ∉ c.sent

/-- the connection has proved the password: the 16 bytes it sent in state AUTHENTICATION pass the
screen's password check against the challenge that was written to it; `viewOnly` is what the check
returned -/
def Proved (env : Env) (scr : Screen) (c : Conn) : Prop :=
  ∃ r vo, c.resp = some r ∧ Msg.challenge c.challenge ∈ c.sent ∧
    passwordCheck env scr.pw c.challenge r = some vo ∧ c.viewOnly = vo

/-- a connection that has to authenticate: password screen, not a reverse connection -/
def NeedsAuth (scr : Screen) (c : Conn) : Prop := scr.pw ≠ .none ∧ c.reverse = false

/-- still before a successful check -/
def Pre (c : Conn) : Prop :=
  Clean c ∧ c.viewOnly = false ∧ (c.st = .ver ∨ c.st = .sec ∨ c.st = .auth) ∧
  (c.st = .auth → c.isOpen = true → Msg.challenge c.challenge ∈ c.sent)

def Post (env : Env) (scr : Screen) (c : Conn) : Prop :=
  Proved env scr c ∧ (c.isOpen = true → c.st = .init ∨ c.st = .normal)

def Inv (env : Env) (scr : Screen) (c : Conn) : Prop := Post env scr c ∨ Pre c

/-- What the theorems assume of the handler functions of application-registered security handlers
(application code): invoked on a connection in state SECURITY_TYPE that has not been admitted, they
do not admit it by themselves (no SecurityResult-OK, no ServerInit, no state beyond AUTHENTICATION,
viewOnly untouched), and they do not forge the recorded response.  The handler of the harness
(`appClose`: writes a marker, closes) satisfies it (`appOk_appClose`); the TightVNC extension's
handler is NOT covered by this assumption but modelled explicitly (`tightHandler`). -/
def AppOk (env : Env) : Prop :=
  ∀ t c, (Pre c → c.st = .sec → Pre (env.app t c)) ∧ (env.app t c).resp = c.resp

theorem builtinType_needsAuth {scr : Screen} {c : Conn} (h : NeedsAuth scr c) :
    builtinType scr c = secVncAuth := by
  obtain ⟨h1, h2⟩ := h
  simp [builtinType, h1, h2]

theorem secVncAuth_ne_secNone : secVncAuth ≠ secNone := by decide

/-! ### fields no handler touches -/

/-- identity, screen, direction and the peer's half of the socket are never changed by the server -/
def Same (c c' : Conn) : Prop :=
  c'.id = c.id ∧ c'.screen = c.screen ∧ c'.reverse = c.reverse ∧ c'.peerClosed = c.peerClosed ∧
  c'.origin = c.origin

theorem Same.rfl' (c : Conn) : Same c c := ⟨rfl, rfl, rfl, rfl, rfl⟩

theorem Same.trans {a b c : Conn} (h1 : Same a b) (h2 : Same b c) : Same a c := by
  obtain ⟨a1, a2, a3, a4, a5⟩ := h1
  obtain ⟨b1, b2, b3, b4, b5⟩ := h2
  exact ⟨b1.trans a1, b2.trans a2, b3.trans a3, b4.trans a4, b5.trans a5⟩

theorem sendString_same (c : Conn) (s : List UInt8) : Same c (sendString c s) := by
  unfold sendString
  by_cases h : c.peerClosed <;> simp [h, Same, close, wr]

theorem sendChallenge_same (rand : List UInt8) (c : Conn) : Same c (sendChallenge rand c) := by
  unfold sendChallenge
  by_cases h : c.peerClosed <;> simp [h, Same, close, wr]

theorem processClientInit_same (c : Conn) : Same c (processClientInit c) := by
  unfold processClientInit
  by_cases h : c.peerClosed <;> by_cases ht : c.tight <;> simp [h, ht, Same, close, wr]

theorem vncAuthNoneTail_same (c : Conn) : Same c (vncAuthNoneTail c) := by
  unfold vncAuthNoneTail
  by_cases h : c.minor = 889
  · simp only [h, if_true]
    refine Same.trans ?_ (processClientInit_same _)
    simp [Same]
  · simp [h, Same]

theorem vncAuthNone_same (c : Conn) : Same c (vncAuthNone c) := by
  unfold vncAuthNone
  by_cases h1 : c.minor > 7 ∧ c.minor ≠ 889
  · by_cases h : c.peerClosed
    · simp [h1, h, Same, close]
    · rw [if_pos h1, if_neg h]
      refine Same.trans ?_ (vncAuthNoneTail_same _)
      simp [Same, wr]
  · rw [if_neg h1]
    exact vncAuthNoneTail_same c

theorem sendSecurityType_same (rand : List UInt8) (c : Conn) (t : Nat) :
    Same c (sendSecurityType rand c t) := by
  unfold sendSecurityType
  by_cases h : c.peerClosed
  · simp [h, Same, close]
  · by_cases ht : t = secNone
    · simp [h, ht, Same, wr]
    · simp only [h, ht]
      refine Same.trans ?_ (sendChallenge_same _ _)
      simp [Same, wr]

theorem sendSecurityTypeList_same (fixed : Bool) (hs : List Handler) (legacy : List Nat) (c : Conn)
    (t : Nat) : Same c (sendSecurityTypeList fixed hs legacy c t).1 := by
  unfold sendSecurityTypeList
  by_cases h : c.peerClosed
  · simp [h, Same, close]
  · simp only [if_neg h]
    split
    · refine Same.trans ?_ (sendString_same _ _)
      simp [Same, wr]
    · simp [Same, wr]

theorem authFail_same (c : Conn) : Same c (authFail c) := by
  unfold authFail
  by_cases h : c.peerClosed
  · simp [h, Same, close]
  · rw [if_neg h]
    split
    · refine Same.trans ?_ (sendString_same _ _)
      simp [Same, wr]
    · simp [Same, wr, close]

theorem authOk_same (c : Conn) (vo : Bool) : Same c (authOk c vo) := by
  unfold authOk
  by_cases h : c.peerClosed <;> simp [h, Same, wr, close]

theorem processAuth_same (env : Env) (scr : Screen) (c : Conn) (r : List UInt8) :
    Same c (processAuth env scr c r) := by
  unfold processAuth
  split
  · refine Same.trans ?_ (authFail_same _)
    simp [Same]
  · refine Same.trans ?_ (authOk_same _ _)
    simp [Same]

theorem tightNoAuth_same (c : Conn) : Same c (tightNoAuth c) := by
  unfold tightNoAuth
  by_cases h : c.minor > 7 <;> simp [h, Same, wr]

theorem tightAuth_same (env : Env) (scr : Screen) (rand : List UInt8) (c : Conn) :
    Same c (tightAuth env scr rand c) := by
  unfold tightAuth
  simp only
  split
  · simp [Same, close, wr]
  · split
    · simp [Same, close, wr]
    · split
      · simp [Same, close, wr]
      · refine Same.trans ?_ (processAuth_same _ _ _ _)
        simp [Same, wr]

theorem tightHandler_same (env : Env) (scr : Screen) (rand : List UInt8) (c : Conn) :
    Same c (tightHandler env scr rand c) := by
  unfold tightHandler
  simp only
  split
  · simp [Same, close]
  · split
    · refine Same.trans ?_ (tightAuth_same _ _ _ _)
      simp [Same, wr]
    · refine Same.trans ?_ (tightNoAuth_same _)
      simp [Same, wr]

theorem runRegistered_same (env : Env) (scr : Screen) (rand : List UInt8) (c : Conn) (h : Handler) :
    Same c (runRegistered env scr rand c h) := by
  cases h with
  | tight => exact tightHandler_same env scr rand c
  | app t => simp [runRegistered, appRun, Same]

theorem processSecurityType_same (fixed : Bool) (env : Env) (scr : Screen) (hs : List Handler)
    (legacy : List Nat) (rand : List UInt8) (c : Conn) (t : UInt8) :
    Same c (processSecurityType fixed env scr hs legacy rand c t) := by
  have h1 := vncAuthNone_same c
  have h2 := sendChallenge_same rand c
  have h3 : Same c (close c) := by simp [Same, close]
  unfold processSecurityType runHandler
  split
  · split
    · split <;> assumption
    · split
      · exact runRegistered_same _ _ _ _ _
      · exact h3
  · split
    · split <;> assumption
    · exact h3

theorem processVersion_same (fixed : Bool) (env : Env) (scr : Screen) (hs : List Handler)
    (legacy : List Nat) (rand : List UInt8) (c : Conn) (pv : List UInt8) :
    Same c (processVersion fixed env scr hs legacy rand c pv).1 := by
  unfold processVersion
  split
  · simp [close, Same]
  · rename_i major minor _
    by_cases hm : major ≠ 3
    · simp [hm, close, Same]
    · simp only [hm, if_false]
      unfold authNewClient
      simp only
      split
      · refine Same.trans ?_ (sendSecurityType_same _ _ _)
        simp [Same]
      · refine Same.trans ?_ (sendSecurityTypeList_same _ _ _ _ _)
        simp [Same]

theorem dispatch_same (fixed : Bool) (env : Env) (scr : Screen) (hs : List Handler) (legacy : List Nat)
    (rand : List UInt8) (st : St) (c : Conn) (msg : List UInt8) :
    Same c (dispatch fixed env scr hs legacy rand st c msg).1 := by
  cases st <;> simp only [dispatch]
  · exact processVersion_same _ _ _ _ _ _ _ _
  · exact processSecurityType_same _ _ _ _ _ _ _ _
  · exact processAuth_same _ _ _ _
  · exact processClientInit_same _
  · exact processClientInit_same _
  · exact Same.rfl' c

theorem procConn_same (fixed : Bool) (env : Env) (scr : Screen) (hs : List Handler) (legacy : List Nat)
    (rand : List UInt8) (c : Conn) : Same c (procConn fixed env scr hs legacy rand c).1 := by
  unfold procConn
  by_cases h1 : (!c.isOpen) = true
  · simp [h1, Same]
  · rw [if_neg h1]
    by_cases h2 : c.st = .normal
    · simp [h2, Same]
    · rw [if_neg h2]
      by_cases h3 : c.inbuf.length < need c.st
      · simp [h3, close, Same]
      · rw [if_neg h3]
        refine Same.trans ?_ (dispatch_same _ _ _ _ _ _ _ _ _)
        simp [Same]

/-! ### the invariant is preserved by one call of rfbProcessClientMessage (fixed code) -/

theorem pre_close {c : Conn} (h : Pre c) : Pre (close c) := by
  obtain ⟨h1, h2, h3, _⟩ := h
  exact ⟨h1, h2, h3, by simp [close]⟩

theorem sendChallenge_pre (rand : List UInt8) {c : Conn} (hc : Clean c) (hv : c.viewOnly = false)
    (hst : c.st = .ver ∨ c.st = .sec) : Pre (sendChallenge rand c) := by
  unfold sendChallenge
  obtain ⟨hc1, hc2⟩ := hc
  by_cases h : c.peerClosed
  · simp only [h, if_true]
    refine ⟨⟨hc1, hc2⟩, hv, by rcases hst with h | h <;> simp [close, h], ?_⟩
    rcases hst with h' | h' <;> simp [close, h']
  · simp only [h]
    refine ⟨⟨by simp [wr, hc1], by simp [wr, hc2]⟩, by simp [wr, hv], by simp, by simp [wr]⟩

theorem sendString_pre {c : Conn} (s : List UInt8) (h : Pre c) : Pre (sendString c s) := by
  unfold sendString
  obtain ⟨⟨h1, h1'⟩, h2, h3, _⟩ := h
  by_cases hp : c.peerClosed
  · simp only [hp, if_true]
    exact ⟨⟨h1, h1'⟩, h2, h3, by simp [close]⟩
  · simp only [hp]
    exact ⟨⟨by simp [close, wr, h1], by simp [close, wr, h1']⟩, by simp [close, wr, h2],
      by simpa [close, wr] using h3, by simp [close]⟩

theorem appClose_pre {c : Conn} (h : Pre c) : Pre (appClose c) := by
  unfold appClose
  obtain ⟨⟨h1, h1'⟩, h2, h3, _⟩ := h
  by_cases hp : c.peerClosed
  · simp only [hp, if_true]
    exact ⟨⟨h1, h1'⟩, h2, h3, by simp [close]⟩
  · simp only [hp]
    exact ⟨⟨by simp [close, wr, h1], by simp [close, wr, h1']⟩, by simp [close, wr, h2],
      by simpa [close, wr] using h3, by simp [close]⟩

/-- the application handler of the harness meets the assumption -/
theorem appOk_appClose (enc : List UInt8 → List UInt8 → List UInt8) (decFile : List UInt8 → Option (List UInt8))
    (parseVer : List UInt8 → Option (Int × Int)) :
    AppOk { enc := enc, decFile := decFile, parseVer := parseVer, app := fun _ c => appClose c } := by
  intro t c
  refine ⟨fun h _ => appClose_pre h, ?_⟩
  simp only [appClose]
  by_cases hp : c.peerClosed <;> simp [hp, close, wr]

theorem sendSecurityType_pre (rand : List UInt8) {d : Conn} (hc : Clean d) (hv : d.viewOnly = false)
    (hst : d.st = .ver) : Pre (sendSecurityType rand d secVncAuth) := by
  unfold sendSecurityType
  by_cases hp : d.peerClosed
  · rw [if_pos hp]
    exact ⟨hc, hv, by simp [close, hst], by simp [close]⟩
  · rw [if_neg hp, if_neg secVncAuth_ne_secNone]
    exact sendChallenge_pre rand ⟨by simp [wr, hc.1], by simp [wr, hc.2]⟩ (by simp [wr, hv])
      (by simp [wr, hst])

theorem sendSecurityTypeList_pre (fixed : Bool) (hs : List Handler) (legacy : List Nat) (t : Nat)
    {d : Conn} (hc : Clean d) (hv : d.viewOnly = false) (hst : d.st = .ver) :
    Pre (sendSecurityTypeList fixed hs legacy d t).1 := by
  unfold sendSecurityTypeList
  by_cases hp : d.peerClosed
  · simp only [if_pos hp]
    exact ⟨hc, hv, by simp [close, hst], by simp [close]⟩
  · simp only [if_neg hp]
    by_cases hl : offered fixed hs legacy t = []
    · rw [if_pos hl]
      exact sendString_pre _ ⟨⟨by simp [wr, hc.1], by simp [wr, hc.2]⟩, by simp [wr, hv],
        by simp [wr, hst], by simp [wr, hst]⟩
    · rw [if_neg hl]
      exact ⟨⟨by simp [wr, hc.1], by simp [wr, hc.2]⟩, by simp [wr, hv], by simp, by simp⟩

theorem processVersion_pre (fixed : Bool) (env : Env) (scr : Screen) (hs : List Handler)
    (legacy : List Nat) (rand : List UInt8) {c : Conn}
    (pv : List UInt8) (hn : NeedsAuth scr c) (h : Pre c) (hst : c.st = .ver) :
    Pre (processVersion fixed env scr hs legacy rand c pv).1 := by
  unfold processVersion
  split
  · exact pre_close h
  · rename_i major minor _
    by_cases hm : major ≠ 3
    · rw [if_pos hm]; exact pre_close h
    · rw [if_neg hm]
      have hb : builtinType scr { c with minor := minor } = secVncAuth :=
        builtinType_needsAuth ⟨hn.1, hn.2⟩
      obtain ⟨hc, hv, _, _⟩ := h
      unfold authNewClient
      simp only [hb]
      split
      · exact sendSecurityType_pre rand (d := { c with minor := minor }) hc hv hst
      · exact sendSecurityTypeList_pre fixed hs legacy _ (d := { c with minor := minor }) hc hv hst

theorem authFail_pre {d : Conn} (hc : Clean d) (hv : d.viewOnly = false)
    (hst : d.st = .ver ∨ d.st = .sec ∨ d.st = .auth)
    (hch : Msg.challenge d.challenge ∈ d.sent) : Pre (authFail d) := by
  unfold authFail
  by_cases hp : d.peerClosed
  · rw [if_pos hp]
    exact ⟨hc, hv, by simpa [close] using hst, by simp [close]⟩
  · rw [if_neg hp]
    by_cases hm : d.minor > 7
    · rw [if_pos hm]
      exact sendString_pre _ ⟨⟨by simp [wr, hc.1], by simp [wr, hc.2]⟩, by simp [wr, hv],
        by simpa [wr] using hst, by simp [wr, hch]⟩
    · rw [if_neg hm]
      exact ⟨⟨by simp [wr, close, hc.1], by simp [wr, close, hc.2]⟩, by simp [wr, close, hv],
        by simpa [wr, close] using hst, by simp [close]⟩

theorem authOk_post (env : Env) (scr : Screen) {d : Conn} (r : List UInt8) (vo : Bool)
    (hr : d.resp = some r) (hv : d.viewOnly = false) (hch : Msg.challenge d.challenge ∈ d.sent)
    (hchk : passwordCheck env scr.pw d.challenge r = some vo) : Post env scr (authOk d vo) := by
  unfold authOk
  by_cases hp : d.peerClosed
  · rw [if_pos hp]
    exact ⟨⟨r, vo, by simpa [close] using hr, by simpa [close] using hch, by simpa [close] using hchk,
      by simp [close, hv]⟩, by simp [close]⟩
  · rw [if_neg hp]
    exact ⟨⟨r, vo, by simpa [wr] using hr, by simp [wr, hch], by simpa [wr] using hchk, by simp [wr, hv]⟩,
      by simp⟩

/-- rfbAuthProcessClientMessage on a connection that has not been admitted and whose current challenge
was written to it: either the check passes (proved) or the connection is closed, not admitted -/
theorem processAuth_inv' (env : Env) (scr : Screen) {c : Conn} (r : List UInt8) (hc : Clean c)
    (hv : c.viewOnly = false) (hst : c.st = .ver ∨ c.st = .sec ∨ c.st = .auth)
    (hch : Msg.challenge c.challenge ∈ c.sent) : Inv env scr (processAuth env scr c r) := by
  unfold processAuth
  split
  · right
    exact authFail_pre (d := { c with resp := some r }) hc hv hst hch
  · rename_i vo hchk
    left
    exact authOk_post env scr (d := { c with resp := some r }) r vo rfl hv hch hchk

theorem processAuth_inv (env : Env) (scr : Screen) {c : Conn} (r : List UInt8) (h : Pre c)
    (hst : c.st = .auth) (ho : c.isOpen = true) : Inv env scr (processAuth env scr c r) := by
  obtain ⟨hc, hv, hst', hch⟩ := h
  exact processAuth_inv' env scr r hc hv hst' (hch hst ho)

/-- the TightVNC negotiation on a connection that has to authenticate -/
theorem tightAuth_inv (env : Env) (scr : Screen) (rand : List UInt8) {d : Conn} (hc : Clean d)
    (hv : d.viewOnly = false) (hst : d.st = .sec) : Inv env scr (tightAuth env scr rand d) := by
  unfold tightAuth
  simp only
  have hc1 : Clean (wr d (.tightAuthCaps 1)) := ⟨by simp [wr, hc.1], by simp [wr, hc.2]⟩
  split
  · right
    exact ⟨hc1, by simp [close, wr, hv], by simp [close, wr, hst], by simp [close]⟩
  · split
    · right
      exact ⟨hc1, by simp [close, wr, hv], by simp [close, wr, hst], by simp [close]⟩
    · split
      · right
        exact ⟨⟨by simp [close, wr, hc.1], by simp [close, wr, hc.2]⟩, by simp [close, wr, hv],
          by simp [close, wr, hst], by simp [close]⟩
      · apply processAuth_inv'
        · exact ⟨by simp [wr, hc.1], by simp [wr, hc.2]⟩
        · simp [wr, hv]
        · simp [wr, hst]
        · simp [wr]

theorem tightHandler_inv (env : Env) (scr : Screen) (rand : List UInt8) {c : Conn}
    (hn : NeedsAuth scr c) (h : Pre c) (hst : c.st = .sec) :
    Inv env scr (tightHandler env scr rand c) := by
  obtain ⟨hc, hv, _, _⟩ := h
  unfold tightHandler
  simp only
  split
  · right
    exact ⟨hc, by simp [close, hv], by simp [close, hst], by simp [close]⟩
  · rw [if_pos ⟨hn.1, hn.2⟩]
    exact tightAuth_inv env scr rand (d := wr { c with tight := true } .tightTunnelCaps)
      ⟨by simp [wr, hc.1], by simp [wr, hc.2]⟩ (by simp [wr, hv]) (by simp [wr, hst])

theorem processSecurityType_inv (env : Env) (happ : AppOk env) (scr : Screen) (hs : List Handler)
    (legacy : List Nat) (rand : List UInt8) {c : Conn}
    (t : UInt8) (hn : NeedsAuth scr c) (h : Pre c) (hst : c.st = .sec) :
    Inv env scr (processSecurityType true env scr hs legacy rand c t) := by
  unfold processSecurityType
  simp only [if_true, builtinType_needsAuth hn]
  split
  · rename_i ht
    right
    unfold runHandler
    rw [ht]
    simp only [secVncAuth_ne_secNone, if_false]
    exact sendChallenge_pre rand h.1 h.2.1 (Or.inr hst)
  · split
    · rename_i hd _
      cases hd with
      | tight => exact tightHandler_inv env scr rand hn h hst
      | app k =>
        right
        have := (happ k c).1 h hst
        obtain ⟨p1, p2, p3, p4⟩ := this
        exact ⟨p1, p2, p3, p4⟩
    · right; exact pre_close h

theorem processClientInit_post (env : Env) (scr : Screen) {c : Conn} (h : Proved env scr c) :
    Post env scr (processClientInit c) := by
  obtain ⟨r, vo, h1, h2, h3, h4⟩ := h
  unfold processClientInit
  by_cases hp : c.peerClosed
  · have hp' : ({ c with st := St.init } : Conn).peerClosed = true := hp
    rw [if_pos hp']
    exact ⟨⟨r, vo, by simpa [close] using h1, by simpa [close] using h2, by simpa [close] using h3,
      by simpa [close] using h4⟩, by simp [close]⟩
  · have hp' : ¬ ({ c with st := St.init } : Conn).peerClosed = true := hp
    rw [if_neg hp']
    split
    · exact ⟨⟨r, vo, by simpa [wr] using h1, by simp [wr, h2], by simpa [wr] using h3,
        by simpa [wr] using h4⟩, by simp⟩
    · exact ⟨⟨r, vo, by simpa [wr] using h1, by simp [wr, h2], by simpa [wr] using h3,
        by simpa [wr] using h4⟩, by simp⟩

theorem dispatch_inv (env : Env) (happ : AppOk env) (scr : Screen) (hs : List Handler)
    (legacy : List Nat) (rand : List UInt8) {d : Conn}
    (msg : List UInt8) (hn : NeedsAuth scr d) (h : Inv env scr d) (ho : d.isOpen = true)
    (h2 : d.st ≠ .normal) : Inv env scr (dispatch true env scr hs legacy rand d.st d msg).1 := by
  rcases h with ⟨hp, hst⟩ | hp
  · rcases hst ho with hst | hst
    · rw [hst]; simp only [dispatch]
      left; exact processClientInit_post env scr hp
    · exact absurd hst h2
  · have hp' := hp
    obtain ⟨_, _, hst, _⟩ := hp
    rcases hst with hst | hst | hst
    · rw [hst]; simp only [dispatch]
      right; exact processVersion_pre true env scr hs legacy rand _ hn hp' hst
    · rw [hst]; simp only [dispatch]
      exact processSecurityType_inv env happ scr hs legacy rand _ hn hp' hst
    · rw [hst]; simp only [dispatch]
      exact processAuth_inv env scr _ hp' hst ho

/-- **the step lemma**: whatever the registered handlers, the process-global state and the random
source are, one call of rfbProcessClientMessage keeps the invariant of a connection that has to
authenticate -/
theorem procConn_inv (env : Env) (happ : AppOk env) (scr : Screen) (hs : List Handler)
    (legacy : List Nat) (rand : List UInt8) {c : Conn}
    (hn : NeedsAuth scr c) (h : Inv env scr c) :
    Inv env scr (procConn true env scr hs legacy rand c).1 := by
  unfold procConn
  by_cases h1 : (!c.isOpen) = true
  · simpa [h1] using h
  · rw [if_neg h1]
    have ho : c.isOpen = true := by simpa using h1
    by_cases h2 : c.st = .normal
    · simpa [h2] using h
    · rw [if_neg h2]
      by_cases h3 : c.inbuf.length < need c.st
      · rw [if_pos h3]
        rcases h with ⟨hp, _⟩ | hp
        · left; exact ⟨hp, by simp [close]⟩
        · right; exact pre_close hp
      · rw [if_neg h3]
        exact dispatch_inv env happ scr hs legacy rand
          (d := { c with inbuf := c.inbuf.drop (need c.st) }) _ hn h ho h2

/-! ### the recorded response is only ever set from the connection's own input -/

theorem sendString_resp (c : Conn) (s : List UInt8) : (sendString c s).resp = c.resp := by
  unfold sendString
  by_cases h : c.peerClosed <;> simp [h, close, wr]

theorem sendChallenge_resp (rand : List UInt8) (c : Conn) : (sendChallenge rand c).resp = c.resp := by
  unfold sendChallenge
  by_cases h : c.peerClosed <;> simp [h, close, wr]

theorem processClientInit_resp (c : Conn) : (processClientInit c).resp = c.resp := by
  unfold processClientInit
  by_cases h : c.peerClosed <;> by_cases ht : c.tight <;> simp [h, ht, close, wr]

theorem vncAuthNoneTail_resp (c : Conn) : (vncAuthNoneTail c).resp = c.resp := by
  unfold vncAuthNoneTail
  by_cases h : c.minor = 889
  · rw [if_pos h, processClientInit_resp]
  · rw [if_neg h]

theorem vncAuthNone_resp (c : Conn) : (vncAuthNone c).resp = c.resp := by
  unfold vncAuthNone
  by_cases h1 : c.minor > 7 ∧ c.minor ≠ 889
  · by_cases h : c.peerClosed
    · rw [if_pos h1, if_pos h]; rfl
    · rw [if_pos h1, if_neg h, vncAuthNoneTail_resp]; rfl
  · rw [if_neg h1, vncAuthNoneTail_resp]

theorem sendSecurityType_resp (rand : List UInt8) (c : Conn) (t : Nat) :
    (sendSecurityType rand c t).resp = c.resp := by
  unfold sendSecurityType
  by_cases h : c.peerClosed
  · rw [if_pos h]; rfl
  · by_cases ht : t = secNone
    · rw [if_neg h, if_pos ht]; rfl
    · rw [if_neg h, if_neg ht, sendChallenge_resp]; rfl

theorem sendSecurityTypeList_resp (fixed : Bool) (hs : List Handler) (legacy : List Nat) (c : Conn)
    (t : Nat) : (sendSecurityTypeList fixed hs legacy c t).1.resp = c.resp := by
  unfold sendSecurityTypeList
  by_cases h : c.peerClosed
  · simp only [if_pos h]; rfl
  · simp only [if_neg h]
    split
    · simp only [sendString_resp]; rfl
    · rfl

theorem authFail_resp (c : Conn) : (authFail c).resp = c.resp := by
  unfold authFail
  by_cases h : c.peerClosed
  · rw [if_pos h]; rfl
  · rw [if_neg h]
    split
    · rw [sendString_resp]; rfl
    · rfl

theorem authOk_resp (c : Conn) (vo : Bool) : (authOk c vo).resp = c.resp := by
  unfold authOk
  by_cases h : c.peerClosed <;> simp [h, close, wr]

theorem processAuth_resp (env : Env) (scr : Screen) (c : Conn) (r : List UInt8) :
    (processAuth env scr c r).resp = some r := by
  unfold processAuth
  split
  · rw [authFail_resp]
  · rw [authOk_resp]

theorem tightNoAuth_resp (c : Conn) : (tightNoAuth c).resp = c.resp := by
  unfold tightNoAuth
  by_cases h : c.minor > 7 <;> simp [h, wr]

/-- the TightVNC negotiation records as response bytes 4..19 of the input that follows the type byte -/
theorem tightAuth_resp (env : Env) (scr : Screen) (rand : List UInt8) (c : Conn) :
    (tightAuth env scr rand c).resp = c.resp ∨
    (tightAuth env scr rand c).resp = some ((c.inbuf.drop 4).take Gen.C05.CHALLENGESIZE) := by
  unfold tightAuth
  simp only
  split
  · left; rfl
  · split
    · left; rfl
    · split
      · left; rfl
      · right
        rw [processAuth_resp]
        rfl

theorem tightHandler_resp (env : Env) (scr : Screen) (rand : List UInt8) (c : Conn) :
    (tightHandler env scr rand c).resp = c.resp ∨
    (tightHandler env scr rand c).resp = some ((c.inbuf.drop 4).take Gen.C05.CHALLENGESIZE) := by
  unfold tightHandler
  simp only
  split
  · left; rfl
  · split
    · exact tightAuth_resp env scr rand _
    · left; rw [tightNoAuth_resp]; rfl

theorem processSecurityType_resp (fixed : Bool) (env : Env) (happ : AppOk env) (scr : Screen)
    (hs : List Handler) (legacy : List Nat) (rand : List UInt8) (c : Conn) (t : UInt8) :
    (processSecurityType fixed env scr hs legacy rand c t).resp = c.resp ∨
    (processSecurityType fixed env scr hs legacy rand c t).resp =
      some ((c.inbuf.drop 4).take Gen.C05.CHALLENGESIZE) := by
  have h1 := vncAuthNone_resp c
  have h2 := sendChallenge_resp rand c
  have h3 : (close c).resp = c.resp := rfl
  unfold processSecurityType runHandler
  split
  · split
    · split <;> (left; assumption)
    · split
      · rename_i hd _
        cases hd with
        | tight => exact tightHandler_resp env scr rand c
        | app k => left; simp only [runRegistered, appRun]; exact (happ k c).2
      · left; exact h3
  · split
    · split <;> (left; assumption)
    · left; exact h3

theorem processVersion_resp (fixed : Bool) (env : Env) (scr : Screen) (hs : List Handler)
    (legacy : List Nat) (rand : List UInt8) (c : Conn) (pv : List UInt8) :
    (processVersion fixed env scr hs legacy rand c pv).1.resp = c.resp := by
  unfold processVersion
  split
  · rfl
  · rename_i major minor _
    by_cases hm : major ≠ 3
    · rw [if_pos hm]; rfl
    · rw [if_neg hm]
      unfold authNewClient
      simp only
      split
      · rw [sendSecurityType_resp]
      · rw [sendSecurityTypeList_resp]

theorem dispatch_resp (fixed : Bool) (env : Env) (happ : AppOk env) (scr : Screen) (hs : List Handler)
    (legacy : List Nat) (rand : List UInt8) (st : St) (d : Conn) (msg : List UInt8) :
    (dispatch fixed env scr hs legacy rand st d msg).1.resp = d.resp ∨
    (dispatch fixed env scr hs legacy rand st d msg).1.resp =
      some ((d.inbuf.drop 4).take Gen.C05.CHALLENGESIZE) ∨
    (st = .auth ∧ (dispatch fixed env scr hs legacy rand st d msg).1.resp = some msg) := by
  cases st <;> simp only [dispatch]
  · left; rw [processVersion_resp]
  · rcases processSecurityType_resp fixed env happ scr hs legacy rand d (msg.headD 0) with h | h
    · left; exact h
    · right; left; exact h
  · right; right; exact ⟨trivial, processAuth_resp _ _ _ _⟩
  · left; rw [processClientInit_resp]
  · left; rw [processClientInit_resp]
  · left; trivial

/-- one call of rfbProcessClientMessage changes the recorded response only to 16 bytes of this
connection's own pending input (at offset 0 in state AUTHENTICATION, at offset 5 — after the type
byte and the 32-bit auth type — in the TightVNC negotiation) -/
theorem procConn_resp (fixed : Bool) (env : Env) (happ : AppOk env) (scr : Screen) (hs : List Handler)
    (legacy : List Nat) (rand : List UInt8) (c : Conn) :
    (procConn fixed env scr hs legacy rand c).1.resp = c.resp ∨
    (c.isOpen = true ∧ ∃ k, (procConn fixed env scr hs legacy rand c).1.resp =
      some ((c.inbuf.drop k).take Gen.C05.CHALLENGESIZE)) := by
  unfold procConn
  by_cases h1 : (!c.isOpen) = true
  · left; rw [if_pos h1]
  · rw [if_neg h1]
    have ho : c.isOpen = true := by simpa using h1
    by_cases h2 : c.st = .normal
    · left; rw [if_pos h2]
    · rw [if_neg h2]
      by_cases h3 : c.inbuf.length < need c.st
      · left; rw [if_pos h3]; rfl
      · rw [if_neg h3]
        rcases dispatch_resp fixed env happ scr hs legacy rand c.st
          { c with inbuf := c.inbuf.drop (need c.st) } (c.inbuf.take (need c.st)) with h | h | ⟨hst, h⟩
        · left; exact h
        · right
          refine ⟨ho, need c.st + 4, ?_⟩
          rw [h]
          simp only [List.drop_drop]
        · right
          refine ⟨ho, 0, ?_⟩
          rw [h, hst]
          rfl

end VncModel.Auth
