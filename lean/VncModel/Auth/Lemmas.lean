import VncModel.Auth.Model
/-
Helper lemmas for Props/C05.lean: the per-connection invariant of the FIXED handshake
(`fixed = true`), its preservation by one call of rfbProcessClientMessage whatever the global
state is, frame lemmas for events of other connections, and the characterisation of the two
password checkers.
-/
namespace VncModel.Auth

/-- neither "authentication succeeded" nor ServerInit has been written to this connection -/
def Clean (c : Conn) : Prop := Msg.secResult true ∉ c.sent ∧ Msg.serverInit ∉ c.sent

/-- the connection has proved the password: the 16 bytes it sent in state AUTHENTICATION pass the
screen's password check against the challenge that was written to it; `viewOnly` is what the check
returned -/
def Proved (env : Env) (scr : Screen) (c : Conn) : Prop :=
  ∃ r vo, c.resp = some r ∧ Msg.challenge c.challenge ∈ c.sent ∧
    passwordCheck env scr.pw c.challenge r = some vo ∧ c.viewOnly = vo

/-- a connection that has to authenticate: password screen, not a reverse connection -/
def NeedsAuth (scr : Screen) (c : Conn) : Prop := scr.pw ≠ .none ∧ c.reverse = false

/-- still before a successful check -/
def Pre (c : Conn) : Prop :=
  Clean c ∧ c.viewOnly = false ∧ (c.st = .ver ∨ c.st = .sec ∨ c.st = .auth) ∧
  (c.st = .auth → c.isOpen = true → Msg.challenge c.challenge ∈ c.sent)

def Post (env : Env) (scr : Screen) (c : Conn) : Prop :=
  Proved env scr c ∧ (c.isOpen = true → c.st = .init ∨ c.st = .normal)

def Inv (env : Env) (scr : Screen) (c : Conn) : Prop := Post env scr c ∨ Pre c

theorem builtinType_needsAuth {scr : Screen} {c : Conn} (h : NeedsAuth scr c) :
    builtinType scr c = secVncAuth := by
  obtain ⟨h1, h2⟩ := h
  simp [builtinType, h1, h2]

theorem secVncAuth_ne_secNone : secVncAuth ≠ secNone := by decide

/-! ### fields no handler touches -/

/-- identity, screen, direction and the peer's half of the socket are never changed by the server -/
def Same (c c' : Conn) : Prop :=
  c'.id = c.id ∧ c'.screen = c.screen ∧ c'.reverse = c.reverse ∧ c'.peerClosed = c.peerClosed

theorem Same.rfl' (c : Conn) : Same c c := ⟨rfl, rfl, rfl, rfl⟩

theorem Same.trans {a b c : Conn} (h1 : Same a b) (h2 : Same b c) : Same a c := by
  obtain ⟨a1, a2, a3, a4⟩ := h1
  obtain ⟨b1, b2, b3, b4⟩ := h2
  exact ⟨b1.trans a1, b2.trans a2, b3.trans a3, b4.trans a4⟩

theorem sendString_same (c : Conn) (s : List UInt8) : Same c (sendString c s) := by
  unfold sendString
  by_cases h : c.peerClosed <;> simp [h, Same, close, wr]

theorem sendChallenge_same (rand : List UInt8) (c : Conn) : Same c (sendChallenge rand c) := by
  unfold sendChallenge
  by_cases h : c.peerClosed <;> simp [h, Same, close, wr]

theorem processClientInit_same (c : Conn) : Same c (processClientInit c) := by
  unfold processClientInit
  by_cases h : c.peerClosed <;> simp [h, Same, close, wr]

theorem vncAuthNoneTail_same (c : Conn) : Same c (vncAuthNoneTail c) := by
  unfold vncAuthNoneTail
  by_cases h : c.minor = 889
  · simp only [h, if_true]
    refine Same.trans ?_ (processClientInit_same _)
    simp [Same]
  · simp [h, Same]

theorem vncAuthNone_same (c : Conn) : Same c (vncAuthNone c) := by
  unfold vncAuthNone
  by_cases h1 : c.minor > 7 ∧ c.minor ≠ 889
  · by_cases h : c.peerClosed
    · simp [h1, h, Same, close]
    · rw [if_pos h1, if_neg h]
      refine Same.trans ?_ (vncAuthNoneTail_same _)
      simp [Same, wr]
  · rw [if_neg h1]
    exact vncAuthNoneTail_same c

theorem sendSecurityType_same (rand : List UInt8) (c : Conn) (t : Nat) :
    Same c (sendSecurityType rand c t) := by
  unfold sendSecurityType
  by_cases h : c.peerClosed
  · simp [h, Same, close]
  · by_cases ht : t = secNone
    · simp [h, ht, Same, wr]
    · simp only [h, ht]
      refine Same.trans ?_ (sendChallenge_same _ _)
      simp [Same, wr]

theorem sendSecurityTypeList_same (hs : List Nat) (c : Conn) (t : Nat) :
    Same c (sendSecurityTypeList hs c t).1 := by
  unfold sendSecurityTypeList
  by_cases h : c.peerClosed
  · simp [h, Same, close]
  · rw [if_neg h]
    split
    · refine Same.trans ?_ (sendString_same _ _)
      simp [Same, wr]
    · simp [Same, wr]

theorem authFail_same (c : Conn) : Same c (authFail c) := by
  unfold authFail
  by_cases h : c.peerClosed
  · simp [h, Same, close]
  · rw [if_neg h]
    split
    · refine Same.trans ?_ (sendString_same _ _)
      simp [Same, wr]
    · simp [Same, wr, close]

theorem authOk_same (c : Conn) (vo : Bool) : Same c (authOk c vo) := by
  unfold authOk
  by_cases h : c.peerClosed <;> simp [h, Same, wr, close]

theorem processAuth_same (env : Env) (scr : Screen) (c : Conn) (r : List UInt8) :
    Same c (processAuth env scr c r) := by
  unfold processAuth
  split
  · refine Same.trans ?_ (authFail_same _)
    simp [Same]
  · refine Same.trans ?_ (authOk_same _ _)
    simp [Same]

theorem processSecurityType_same (fixed : Bool) (scr : Screen) (hs : List Nat) (rand : List UInt8)
    (c : Conn) (t : UInt8) : Same c (processSecurityType fixed scr hs rand c t) := by
  have h1 := vncAuthNone_same c
  have h2 := sendChallenge_same rand c
  have h3 : Same c (close c) := by simp [Same, close]
  unfold processSecurityType runHandler
  split <;> split <;> (try split) <;> assumption

theorem processVersion_same (env : Env) (scr : Screen) (hs : List Nat) (rand : List UInt8)
    (c : Conn) (pv : List UInt8) : Same c (processVersion env scr hs rand c pv).1 := by
  unfold processVersion
  split
  · simp [close, Same]
  · rename_i major minor _
    by_cases hm : major ≠ 3
    · simp [hm, close, Same]
    · simp only [hm, if_false]
      unfold authNewClient
      simp only
      split
      · refine Same.trans ?_ (sendSecurityType_same _ _ _)
        simp [Same]
      · refine Same.trans ?_ (sendSecurityTypeList_same _ _ _)
        simp [Same]

theorem dispatch_same (fixed : Bool) (env : Env) (scr : Screen) (hs : List Nat) (rand : List UInt8)
    (st : St) (c : Conn) (msg : List UInt8) : Same c (dispatch fixed env scr hs rand st c msg).1 := by
  cases st <;> simp only [dispatch]
  · exact processVersion_same _ _ _ _ _ _
  · exact processSecurityType_same _ _ _ _ _ _
  · exact processAuth_same _ _ _ _
  · exact processClientInit_same _
  · exact processClientInit_same _
  · exact Same.rfl' c

theorem procConn_same (fixed : Bool) (env : Env) (scr : Screen) (hs : List Nat) (rand : List UInt8)
    (c : Conn) : Same c (procConn fixed env scr hs rand c).1 := by
  unfold procConn
  by_cases h1 : (!c.isOpen) = true
  · simp [h1, Same]
  · rw [if_neg h1]
    by_cases h2 : c.st = .normal
    · simp [h2, Same]
    · rw [if_neg h2]
      by_cases h3 : c.inbuf.length < need c.st
      · simp [h3, close, Same]
      · rw [if_neg h3]
        refine Same.trans ?_ (dispatch_same _ _ _ _ _ _ _ _)
        simp [Same]

/-! ### the invariant is preserved by one call of rfbProcessClientMessage (fixed code) -/

theorem pre_close {c : Conn} (h : Pre c) : Pre (close c) := by
  obtain ⟨h1, h2, h3, _⟩ := h
  exact ⟨h1, h2, h3, by simp [close]⟩

theorem sendChallenge_pre (rand : List UInt8) {c : Conn} (hc : Clean c) (hv : c.viewOnly = false)
    (hst : c.st = .ver ∨ c.st = .sec) : Pre (sendChallenge rand c) := by
  unfold sendChallenge
  obtain ⟨hc1, hc2⟩ := hc
  by_cases h : c.peerClosed
  · simp only [h, if_true]
    refine ⟨⟨hc1, hc2⟩, hv, by rcases hst with h | h <;> simp [close, h], ?_⟩
    rcases hst with h' | h' <;> simp [close, h']
  · simp only [h]
    refine ⟨⟨by simp [wr, hc1], by simp [wr, hc2]⟩, by simp [wr, hv], by simp, by simp [wr]⟩

theorem sendString_pre {c : Conn} (s : List UInt8) (h : Pre c) : Pre (sendString c s) := by
  unfold sendString
  obtain ⟨⟨h1, h1'⟩, h2, h3, _⟩ := h
  by_cases hp : c.peerClosed
  · simp only [hp, if_true]
    exact ⟨⟨h1, h1'⟩, h2, h3, by simp [close]⟩
  · simp only [hp]
    exact ⟨⟨by simp [close, wr, h1], by simp [close, wr, h1']⟩, by simp [close, wr, h2],
      by simpa [close, wr] using h3, by simp [close]⟩

theorem sendSecurityType_pre (rand : List UInt8) {d : Conn} (hc : Clean d) (hv : d.viewOnly = false)
    (hst : d.st = .ver) : Pre (sendSecurityType rand d secVncAuth) := by
  unfold sendSecurityType
  by_cases hp : d.peerClosed
  · rw [if_pos hp]
    exact ⟨hc, hv, by simp [close, hst], by simp [close]⟩
  · rw [if_neg hp, if_neg secVncAuth_ne_secNone]
    exact sendChallenge_pre rand ⟨by simp [wr, hc.1], by simp [wr, hc.2]⟩ (by simp [wr, hv])
      (by simp [wr, hst])

theorem sendSecurityTypeList_pre (hs : List Nat) (t : Nat) {d : Conn} (hc : Clean d)
    (hv : d.viewOnly = false) (hst : d.st = .ver) : Pre (sendSecurityTypeList hs d t).1 := by
  unfold sendSecurityTypeList
  by_cases hp : d.peerClosed
  · rw [if_pos hp]
    exact ⟨hc, hv, by simp [close, hst], by simp [close]⟩
  · rw [if_neg hp]
    by_cases hl : offered hs t = []
    · rw [if_pos hl]
      exact sendString_pre _ ⟨⟨by simp [wr, hc.1], by simp [wr, hc.2]⟩, by simp [wr, hv],
        by simp [wr, hst], by simp [wr, hst]⟩
    · rw [if_neg hl]
      exact ⟨⟨by simp [wr, hc.1], by simp [wr, hc.2]⟩, by simp [wr, hv], by simp, by simp⟩

theorem processVersion_pre (env : Env) (scr : Screen) (hs : List Nat) (rand : List UInt8) {c : Conn}
    (pv : List UInt8) (hn : NeedsAuth scr c) (h : Pre c) (hst : c.st = .ver) :
    Pre (processVersion env scr hs rand c pv).1 := by
  unfold processVersion
  split
  · exact pre_close h
  · rename_i major minor _
    by_cases hm : major ≠ 3
    · rw [if_pos hm]; exact pre_close h
    · rw [if_neg hm]
      have hb : builtinType scr { c with minor := minor } = secVncAuth :=
        builtinType_needsAuth ⟨hn.1, hn.2⟩
      obtain ⟨hc, hv, _, _⟩ := h
      unfold authNewClient
      simp only [hb]
      split
      · exact sendSecurityType_pre rand (d := { c with minor := minor }) hc hv hst
      · exact sendSecurityTypeList_pre hs _ (d := { c with minor := minor }) hc hv hst

theorem processSecurityType_pre (scr : Screen) (hs : List Nat) (rand : List UInt8) {c : Conn}
    (t : UInt8) (hn : NeedsAuth scr c) (h : Pre c) (hst : c.st = .sec) :
    Pre (processSecurityType true scr hs rand c t) := by
  unfold processSecurityType
  simp only [if_true, builtinType_needsAuth hn]
  split
  · rename_i ht
    unfold runHandler
    rw [ht]
    simp only [secVncAuth_ne_secNone, if_false]
    exact sendChallenge_pre rand h.1 h.2.1 (Or.inr hst)
  · exact pre_close h

theorem authFail_pre {d : Conn} (hc : Clean d) (hv : d.viewOnly = false) (hst : d.st = .auth)
    (hch : Msg.challenge d.challenge ∈ d.sent) : Pre (authFail d) := by
  unfold authFail
  by_cases hp : d.peerClosed
  · rw [if_pos hp]
    exact ⟨hc, hv, by simp [close, hst], by simp [close]⟩
  · rw [if_neg hp]
    by_cases hm : d.minor > 7
    · rw [if_pos hm]
      exact sendString_pre _ ⟨⟨by simp [wr, hc.1], by simp [wr, hc.2]⟩, by simp [wr, hv],
        by simp [wr, hst], by simp [wr, hch]⟩
    · rw [if_neg hm]
      exact ⟨⟨by simp [wr, close, hc.1], by simp [wr, close, hc.2]⟩, by simp [wr, close, hv],
        by simp [wr, close, hst], by simp [close]⟩

theorem authOk_post (env : Env) (scr : Screen) {d : Conn} (r : List UInt8) (vo : Bool)
    (hr : d.resp = some r) (hv : d.viewOnly = false) (hch : Msg.challenge d.challenge ∈ d.sent)
    (hchk : passwordCheck env scr.pw d.challenge r = some vo) : Post env scr (authOk d vo) := by
  unfold authOk
  by_cases hp : d.peerClosed
  · rw [if_pos hp]
    exact ⟨⟨r, vo, by simpa [close] using hr, by simpa [close] using hch, by simpa [close] using hchk,
      by simp [close, hv]⟩, by simp [close]⟩
  · rw [if_neg hp]
    exact ⟨⟨r, vo, by simpa [wr] using hr, by simp [wr, hch], by simpa [wr] using hchk, by simp [wr, hv]⟩,
      by simp⟩

theorem processAuth_inv (env : Env) (scr : Screen) {c : Conn} (r : List UInt8) (h : Pre c)
    (hst : c.st = .auth) (ho : c.isOpen = true) : Inv env scr (processAuth env scr c r) := by
  obtain ⟨hc, hv, _, hch⟩ := h
  have hch := hch hst ho
  unfold processAuth
  split
  · right
    exact authFail_pre (d := { c with resp := some r }) hc hv hst hch
  · rename_i vo hchk
    left
    exact authOk_post env scr (d := { c with resp := some r }) r vo rfl hv hch hchk

theorem processClientInit_post (env : Env) (scr : Screen) {c : Conn} (h : Proved env scr c) :
    Post env scr (processClientInit c) := by
  obtain ⟨r, vo, h1, h2, h3, h4⟩ := h
  unfold processClientInit
  by_cases hp : c.peerClosed
  · have hp' : ({ c with st := St.init } : Conn).peerClosed = true := hp
    rw [if_pos hp']
    exact ⟨⟨r, vo, by simpa [close] using h1, by simpa [close] using h2, by simpa [close] using h3,
      by simpa [close] using h4⟩, by simp [close]⟩
  · have hp' : ¬ ({ c with st := St.init } : Conn).peerClosed = true := hp
    rw [if_neg hp']
    exact ⟨⟨r, vo, by simpa [wr] using h1, by simp [wr, h2], by simpa [wr] using h3,
      by simpa [wr] using h4⟩, by simp⟩

theorem dispatch_inv (env : Env) (scr : Screen) (hs : List Nat) (rand : List UInt8) {d : Conn}
    (msg : List UInt8) (hn : NeedsAuth scr d) (h : Inv env scr d) (ho : d.isOpen = true)
    (h2 : d.st ≠ .normal) : Inv env scr (dispatch true env scr hs rand d.st d msg).1 := by
  rcases h with ⟨hp, hst⟩ | hp
  · rcases hst ho with hst | hst
    · rw [hst]; simp only [dispatch]
      left; exact processClientInit_post env scr hp
    · exact absurd hst h2
  · have hp' := hp
    obtain ⟨_, _, hst, _⟩ := hp
    rcases hst with hst | hst | hst
    · rw [hst]; simp only [dispatch]
      right; exact processVersion_pre env scr hs rand _ hn hp' hst
    · rw [hst]; simp only [dispatch]
      right; exact processSecurityType_pre scr hs rand _ hn hp' hst
    · rw [hst]; simp only [dispatch]
      exact processAuth_inv env scr _ hp' hst ho

/-- **the step lemma**: whatever the process-global handler list and random source are, one call of
rfbProcessClientMessage keeps the invariant of a connection that has to authenticate -/
theorem procConn_inv (env : Env) (scr : Screen) (hs : List Nat) (rand : List UInt8) {c : Conn}
    (hn : NeedsAuth scr c) (h : Inv env scr c) : Inv env scr (procConn true env scr hs rand c).1 := by
  unfold procConn
  by_cases h1 : (!c.isOpen) = true
  · simpa [h1] using h
  · rw [if_neg h1]
    have ho : c.isOpen = true := by simpa using h1
    by_cases h2 : c.st = .normal
    · simpa [h2] using h
    · rw [if_neg h2]
      by_cases h3 : c.inbuf.length < need c.st
      · rw [if_pos h3]
        rcases h with ⟨hp, _⟩ | hp
        · left; exact ⟨hp, by simp [close]⟩
        · right; exact pre_close hp
      · rw [if_neg h3]
        exact dispatch_inv env scr hs rand (d := { c with inbuf := c.inbuf.drop (need c.st) }) _
          hn h ho h2

/-! ### the recorded response is only ever set from the connection's own input -/

theorem sendString_resp (c : Conn) (s : List UInt8) : (sendString c s).resp = c.resp := by
  unfold sendString
  by_cases h : c.peerClosed <;> simp [h, close, wr]

theorem sendChallenge_resp (rand : List UInt8) (c : Conn) : (sendChallenge rand c).resp = c.resp := by
  unfold sendChallenge
  by_cases h : c.peerClosed <;> simp [h, close, wr]

theorem processClientInit_resp (c : Conn) : (processClientInit c).resp = c.resp := by
  unfold processClientInit
  by_cases h : c.peerClosed <;> simp [h, close, wr]

theorem vncAuthNoneTail_resp (c : Conn) : (vncAuthNoneTail c).resp = c.resp := by
  unfold vncAuthNoneTail
  by_cases h : c.minor = 889
  · rw [if_pos h, processClientInit_resp]
  · rw [if_neg h]

theorem vncAuthNone_resp (c : Conn) : (vncAuthNone c).resp = c.resp := by
  unfold vncAuthNone
  by_cases h1 : c.minor > 7 ∧ c.minor ≠ 889
  · by_cases h : c.peerClosed
    · rw [if_pos h1, if_pos h]; rfl
    · rw [if_pos h1, if_neg h, vncAuthNoneTail_resp]; rfl
  · rw [if_neg h1, vncAuthNoneTail_resp]

theorem sendSecurityType_resp (rand : List UInt8) (c : Conn) (t : Nat) :
    (sendSecurityType rand c t).resp = c.resp := by
  unfold sendSecurityType
  by_cases h : c.peerClosed
  · rw [if_pos h]; rfl
  · by_cases ht : t = secNone
    · rw [if_neg h, if_pos ht]; rfl
    · rw [if_neg h, if_neg ht, sendChallenge_resp]; rfl

theorem sendSecurityTypeList_resp (hs : List Nat) (c : Conn) (t : Nat) :
    (sendSecurityTypeList hs c t).1.resp = c.resp := by
  unfold sendSecurityTypeList
  by_cases h : c.peerClosed
  · rw [if_pos h]; rfl
  · rw [if_neg h]
    split
    · simp only [sendString_resp]; rfl
    · rfl

theorem processSecurityType_resp (fixed : Bool) (scr : Screen) (hs : List Nat) (rand : List UInt8)
    (c : Conn) (t : UInt8) : (processSecurityType fixed scr hs rand c t).resp = c.resp := by
  have h1 := vncAuthNone_resp c
  have h2 := sendChallenge_resp rand c
  have h3 : (close c).resp = c.resp := rfl
  unfold processSecurityType runHandler
  split <;> split <;> (try split) <;> assumption

theorem processVersion_resp (env : Env) (scr : Screen) (hs : List Nat) (rand : List UInt8)
    (c : Conn) (pv : List UInt8) : (processVersion env scr hs rand c pv).1.resp = c.resp := by
  unfold processVersion
  split
  · rfl
  · rename_i major minor _
    by_cases hm : major ≠ 3
    · rw [if_pos hm]; rfl
    · rw [if_neg hm]
      unfold authNewClient
      simp only
      split
      · rw [sendSecurityType_resp]
      · rw [sendSecurityTypeList_resp]

theorem authFail_resp (c : Conn) : (authFail c).resp = c.resp := by
  unfold authFail
  by_cases h : c.peerClosed
  · rw [if_pos h]; rfl
  · rw [if_neg h]
    split
    · rw [sendString_resp]; rfl
    · rfl

theorem authOk_resp (c : Conn) (vo : Bool) : (authOk c vo).resp = c.resp := by
  unfold authOk
  by_cases h : c.peerClosed <;> simp [h, close, wr]

theorem processAuth_resp (env : Env) (scr : Screen) (c : Conn) (r : List UInt8) :
    (processAuth env scr c r).resp = some r := by
  unfold processAuth
  split
  · rw [authFail_resp]
  · rw [authOk_resp]

theorem procConn_resp (fixed : Bool) (env : Env) (scr : Screen) (hs : List Nat) (rand : List UInt8)
    (c : Conn) :
    (procConn fixed env scr hs rand c).1.resp = c.resp ∨
    (c.st = .auth ∧ c.isOpen = true ∧
      (procConn fixed env scr hs rand c).1.resp = some (c.inbuf.take 16)) := by
  unfold procConn
  by_cases h1 : (!c.isOpen) = true
  · left; rw [if_pos h1]
  · rw [if_neg h1]
    have ho : c.isOpen = true := by simpa using h1
    by_cases h2 : c.st = .normal
    · left; rw [if_pos h2]
    · rw [if_neg h2]
      by_cases h3 : c.inbuf.length < need c.st
      · left; rw [if_pos h3]; rfl
      · rw [if_neg h3]
        cases hst : c.st <;> simp only [dispatch]
        · left; rw [processVersion_resp]
        · left; rw [processSecurityType_resp]
        · right
          refine ⟨trivial, ho, ?_⟩
          rw [processAuth_resp]
          rfl
        · left; rw [processClientInit_resp]
        · left; rw [processClientInit_resp]
        · left; trivial

end VncModel.Auth
