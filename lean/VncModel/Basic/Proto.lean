/-
Line protocol shared by all model drivers: one operation per line on stdin, one observation per
line on stdout.  Core Lean only (no Mathlib) so that drivers link as `lean_exe`.
-/
namespace VncModel.Proto

/-- tokens of a line (space separated, empty tokens dropped, trailing newline removed) -/
def tokens (line : String) : List String :=
  (line.trimAscii.toString.splitOn " ").filter (· ≠ "")

/-- decimal integer with optional leading '-' -/
def parseInt? (s : String) : Option Int :=
  if s.startsWith "-" then (s.drop 1).toString.toNat?.map (fun n => - (Int.ofNat n))
  else s.toNat?.map Int.ofNat

def hexDigit? (c : Char) : Option Nat :=
  if '0' ≤ c ∧ c ≤ '9' then some (c.toNat - '0'.toNat)
  else if 'a' ≤ c ∧ c ≤ 'f' then some (c.toNat - 'a'.toNat + 10)
  else if 'A' ≤ c ∧ c ≤ 'F' then some (c.toNat - 'A'.toNat + 10)
  else none

/-- "0a1b" -> bytes; `none` on odd length or bad digit; "-" denotes the empty string -/
def unhex? (s : String) : Option (List UInt8) :=
  if s = "-" then some [] else
  let rec go : List Char → List UInt8 → Option (List UInt8)
    | [], acc => some acc.reverse
    | [_], _ => none
    | a :: b :: rest, acc =>
      match hexDigit? a, hexDigit? b with
      | some x, some y => go rest (UInt8.ofNat (x * 16 + y) :: acc)
      | _, _ => none
  go s.toList []

def hexChar (n : Nat) : Char :=
  if n < 10 then Char.ofNat ('0'.toNat + n) else Char.ofNat ('a'.toNat + (n - 10))

def hex (bs : List UInt8) : String :=
  if bs.isEmpty then "-" else
  String.ofList (bs.flatMap fun b => [hexChar (b.toNat / 16), hexChar (b.toNat % 16)])

/-- generic driver loop: `step` maps (state, tokens) to (state, output lines) -/
partial def loop {σ : Type} (h : IO.FS.Stream) (out : IO.FS.Stream) (s : σ)
    (step : σ → List String → σ × List String) : IO Unit := do
  let line ← h.getLine
  if line.isEmpty then
    out.flush
    return ()
  let toks := tokens line
  match toks with
  | [] => loop h out s step
  | t :: _ =>
    if t.startsWith "#" then loop h out s step
    else
      let (s', outs) := step s toks
      for o in outs do out.putStrLn o
      loop h out s' step

def runDriver {σ : Type} (init : σ) (step : σ → List String → σ × List String) : IO Unit := do
  let stdin ← IO.getStdin
  let stdout ← IO.getStdout
  loop stdin stdout init step

end VncModel.Proto
