import VncModel.Gen.Leaf
import VncModel.Ws.Decoder
/-
T1 proof obligation for `src/libvncserver/ws_decode.c` (consumer: C09).

`VncModel.Gen.Leaf.hybiRemaining` is REGENERATED from the current C source on every run by
tools/c2lean.py (docs/T1.md): `payloadLen - nReadPayload` in uint64_t arithmetic.  The theorem says
it is `Ws.Ctx.remaining` of the hand-written decoder model for every state whose `nReadPayload`
fits the C type (`uint64_t`).
-/
namespace VncModel.Leaf
open VncModel

/-- `hybiRemaining` (C, regenerated) = `Ctx.remaining` (model) -/
theorem hybiRemaining_eq (c : Ws.Ctx) (h : c.nReadPayload ≤ 2 ^ 64) :
    Gen.Leaf.hybiRemaining c.payloadLen c.nReadPayload = (c.remaining : Nat) := by
  unfold Gen.Leaf.hybiRemaining Ws.Ctx.remaining
  omega

example : Gen.Leaf.hybiRemaining 10 3 = 7 := by decide
example : Gen.Leaf.hybiRemaining 3 10 = 18446744073709551609 := by decide

end VncModel.Leaf
