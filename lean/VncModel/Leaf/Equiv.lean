import VncModel.Leaf.EquivRegion
import VncModel.Leaf.EquivUpdate
import VncModel.Leaf.EquivScale
import VncModel.Leaf.EquivWire
import VncModel.Leaf.EquivWs
/-
All T1 proof obligations (docs/T1.md): the Lean definitions REGENERATED from the C sources by
tools/c2lean.py (`VncModel.Gen.Leaf`) equal the hand-written model definitions.

Property checks import only the file of their own subsystem, so that a change in one C function
breaks exactly the properties whose proofs rest on it:

  Leaf/EquivRegion.lean   C11 (C02, C15 indirectly)   sraClipRect, sraClipRect2, sraRgnCreateRect guard
  Leaf/EquivUpdate.lean   C02                          rfbMarkRectAsModified clip, rectSwapIfLEAndClip tail,
                                                       rfbRedrawAfterHideCursor rectangle
  Leaf/EquivScale.lean    C17                          ScaleX, ScaleY, pad4
  Leaf/EquivWire.lean     C03                          rectangle counts (CoRRE/Ultra/Zlib), rfbNumCodedRectsTight
  Leaf/EquivWs.lean       C09                          hybiRemaining

This file only exists so that `lake build VncModel.Leaf.Equiv` checks all of them at once.
-/
