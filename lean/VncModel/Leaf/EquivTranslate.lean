import VncModel.Gen.Leaf
import VncModel.Translate.Model
/-
T1 proof obligation for `src/libvncserver/translate.c` (consumer: C10).

`VncModel.Gen.Leaf.rfbChannelFitsPixel` is REGENERATED from the current C source on every run by
tools/c2lean.py (docs/T1.md); the theorem says it is the hand-written `Translate.channelFits` that
`setTranslate`, `reject_iff` and `accepted_client_shifts_defined` (Props/C10.lean) are about, for
every 16-bit maximum, every 8-bit shift and every bits-per-pixel value up to 32 (the function is
only called after the bpp validation).  Changing the comparison (`<` to `<=`), the direction of a
shift, dropping a conjunct or the 64-bit widening changes the generated text and this file stops
compiling.

Not translatable with the present subset (reported to the integrator): the scaling expression of
`rfbInitOneRGBTableOUT` (an array store inside a loop), the `PF_EQ` macro and the bpp validation of
`rfbSetTranslateFunction` (conditions that guard call statements `rfbErr(...)`/`rfbCloseClient`).
-/
namespace VncModel.Leaf
open VncModel

/-- `rfbChannelFitsPixel` (C, regenerated) = `Translate.channelFits` (model) -/
theorem rfbChannelFitsPixel_eq (max shift bpp : Nat) (hm : max < 65536) (hb : bpp ≤ 32) :
    Gen.Leaf.rfbChannelFitsPixel max shift bpp = Translate.channelFits max shift bpp := by
  unfold Gen.Leaf.rfbChannelFitsPixel Translate.channelFits
  by_cases hs : shift < bpp
  · have h1 : max * 2 ^ shift < 18446744073709551616 := by
      have h31 : 2 ^ shift ≤ 2 ^ 31 := Nat.pow_le_pow_right (by decide) (by omega)
      have e31 : (2 : Nat) ^ 31 = 2147483648 := by decide
      have : max * 2 ^ shift ≤ 65535 * 2147483648 := Nat.mul_le_mul (by omega) (by omega)
      omega
    have hs' : ((shift : Int) < (bpp : Int)) := by omega
    simp only [Int.toNat_natCast, hs, hs', decide_true, Bool.true_and]
    have e : ((max : Int) * 2 ^ shift) % 18446744073709551616 / 2 ^ bpp
        = ((max * 2 ^ shift % 18446744073709551616 / 2 ^ bpp : Nat) : Int) := by
      rw [Int.natCast_ediv, Int.natCast_emod, Int.natCast_mul, Int.natCast_pow, Int.natCast_pow]
      rfl
    rw [Bool.eq_iff_iff]
    simp only [decide_eq_true_eq, beq_iff_eq]
    rw [e, Nat.mod_eq_of_lt h1, Nat.shiftLeft_eq, Nat.shiftRight_eq_div_pow]
    omega
  · have hs' : ¬ ((shift : Int) < (bpp : Int)) := by omega
    simp [hs, hs']

/- non-vacuity -/
example : Gen.Leaf.rfbChannelFitsPixel 255 24 32 = true := by decide
example : Gen.Leaf.rfbChannelFitsPixel 255 25 32 = false := by decide
example : Gen.Leaf.rfbChannelFitsPixel 1 32 32 = false := by decide
example : Gen.Leaf.rfbChannelFitsPixel 31 11 16 = true := by decide

end VncModel.Leaf
