import VncModel.Gen.Leaf
import VncModel.Wire.Plan
/-
T1 proof obligations for the rectangle-count arithmetic of `rfbSendFramebufferUpdate`
(rfbserver.c) and `rfbNumCodedRectsTight` (tight.c)  (consumer: C03).

`VncModel.Gen.Leaf.{rectCount_CoRRE, rectCount_Ultra, rectCount_Zlib, rfbNumCodedRectsTight}` are
REGENERATED from the current C source on every run by tools/c2lean.py (docs/T1.md) - the first
three are the statements after the `rfbScaledCorrection` call in the body of the counting loop of
the respective encoding (clang expands `ZLIB_MAX_SIZE(w)` / `ULTRA_MAX_SIZE(w)`), i.e. the new value
of `nUpdateRegionRects` as a function of its old value and of the rectangle.  The theorems say that
they add exactly the hand-written count of `VncModel/Wire/Plan.lean` (`correCount`, `linesCount`,
`tightCount`), for the arguments those are defined for: `w h : Nat`, `h ≥ 1` (region rectangles are
non-empty; guard documented in Plan.lean).  The numeric limits in the generated text are literals
(macro-expanded); the model uses the T0 constants of `VncModel.Gen.C03`, so a changed constant
breaks these theorems, too.
-/
namespace VncModel.Leaf
open VncModel VncModel.Wire VncModel.Gen.C03

private theorem tdiv_nat (a b : Nat) : Int.tdiv (a : Int) (b : Int) = ((a / b : Nat) : Int) := by
  rw [Int.tdiv_eq_ediv_of_nonneg (Int.natCast_nonneg a), Int.natCast_ediv]

private theorem pred_nat (h : Nat) (h1 : 1 ≤ h) : (h : Int) - 1 = ((h - 1 : Nat) : Int) := by omega

private theorem maxSize_nat (w : Nat) :
    (if (w : Int) * 2 > 128 * 256 then (w : Int) * 2 else 128 * 256) = ((maxSize 32768 w : Nat) : Int) := by
  unfold maxSize
  by_cases c : w * 2 > 32768
  · rw [if_pos (by omega), if_pos c]; omega
  · rw [if_neg (by omega), if_neg c]; omega

/-- Zlib: the loop body adds `linesCount ZLIB_MAX_RECT_SIZE w h` -/
theorem rectCount_Zlib_eq (n w h : Nat) (hh : 1 ≤ h) :
    Gen.Leaf.rectCount_Zlib n w h = ((n + linesCount ZLIB_MAX_RECT_SIZE w h : Nat) : Int) := by
  unfold Gen.Leaf.rectCount_Zlib linesCount maxLines ZLIB_MAX_RECT_SIZE
  simp only [pred_nat h hh, maxSize_nat, tdiv_nat]
  omega

/-- Ultra: the loop body adds `linesCount ULTRA_MAX_RECT_SIZE w h` -/
theorem rectCount_Ultra_eq (n w h : Nat) (hh : 1 ≤ h) :
    Gen.Leaf.rectCount_Ultra n w h = ((n + linesCount ULTRA_MAX_RECT_SIZE w h : Nat) : Int) := by
  unfold Gen.Leaf.rectCount_Ultra linesCount maxLines ULTRA_MAX_RECT_SIZE
  simp only [pred_nat h hh, maxSize_nat, tdiv_nat]
  omega

/-- CoRRE: the loop body adds `correCount correMaxWidth correMaxHeight w h` -/
theorem rectCount_CoRRE_eq (n w h mw mh : Nat) (hw : 1 ≤ w) (hh : 1 ≤ h) :
    Gen.Leaf.rectCount_CoRRE n w h mw mh = ((n + correCount mw mh w h : Nat) : Int) := by
  unfold Gen.Leaf.rectCount_CoRRE correCount
  simp only [pred_nat h hh, pred_nat w hw, tdiv_nat]
  rw [Int.natCast_add, Int.natCast_mul, Int.natCast_add, Int.natCast_add]
  rfl

/-- `rfbNumCodedRectsTight` (C, regenerated) = `tightCount` (model) -/
theorem rfbNumCodedRectsTight_eq (x y : Int) (w h : Nat) (hw : 1 ≤ w) (hh : 1 ≤ h) (lastRect : Bool) :
    Gen.Leaf.rfbNumCodedRectsTight x y w h lastRect = ((tightCount lastRect w h : Nat) : Int) := by
  unfold Gen.Leaf.rfbNumCodedRectsTight tightCount MIN_SPLIT_RECT_SIZE TIGHT_MAX_RECT_WIDTH
    TIGHT_MAX_RECT_SIZE
  have e1 : ((w : Int) * (h : Int) ≥ 4096) ↔ (w * h ≥ 4096) := by
    rw [← Int.natCast_mul]; omega
  have e2 : ((w : Int) * (h : Int) > 65536) ↔ (w * h > 65536) := by
    rw [← Int.natCast_mul]; omega
  have e3 : ((w : Int) > 2048) ↔ (w > 2048) := by omega
  have e4 : (if w > 2048 then (2048 : Int) else (w : Int))
      = ((if w > 2048 then 2048 else w : Nat) : Int) := by
    by_cases c : w > 2048
    · rw [if_pos c, if_pos c]; rfl
    · rw [if_neg c, if_neg c]
  simp only [e1, e2, e3, e4, pred_nat h hh, pred_nat w hw]
  have t1 : Int.tdiv (65536 : Int) ((if w > 2048 then 2048 else w : Nat) : Int)
      = ((65536 / (if w > 2048 then 2048 else w) : Nat) : Int) := tdiv_nat 65536 _
  have t2 : Int.tdiv ((w - 1 : Nat) : Int) (2048 : Int) = (((w - 1) / 2048 : Nat) : Int) :=
    tdiv_nat (w - 1) 2048
  rw [t1, t2, tdiv_nat]
  split
  · rfl
  · split
    · rw [Int.natCast_mul, Int.natCast_add, Int.natCast_add]; rfl
    · rfl

/- non-vacuity -/
example : Gen.Leaf.rectCount_Zlib 3 100 400 = 3 + 2 := by decide
example : Gen.Leaf.rectCount_CoRRE 0 100 50 48 48 = 3 * 2 := by decide
example : Gen.Leaf.rfbNumCodedRectsTight 0 0 3000 100 false = 2 * 4 := by decide
example : Gen.Leaf.rfbNumCodedRectsTight 0 0 64 64 true = 0 := by decide

end VncModel.Leaf
