import VncModel.Gen.Leaf
import VncModel.Scale.Model
/-
T1 proof obligations for `src/libvncserver/scale.c` (consumer: C17).

`VncModel.Gen.Leaf.{ScaleX, ScaleY, pad4}` are REGENERATED from the current C source on every run by
tools/c2lean.py (docs/T1.md); the theorems say they are the hand-written model functions of
`VncModel/Scale/Model.lean` on the arguments the model is defined for:

  ScaleX(from,to,x) / ScaleY, `from != to`, both non-NULL   = Scale.scaleN x from->width to->width
        for x, widths ≥ 0 (the model is over Nat) and a quotient that fits `int`
        (the C code converts the int64_t quotient back to `int`: hypothesis `… < 2^31`)
  ScaleX / ScaleY with `from == to` (or a NULL screen)      = identity
  pad4                                                       = Scale.pad4   for values ≥ 0

The pointer tests `from==to`, `from==NULL`, `to==NULL` are Bool parameters of the generated
definitions (`same`, `fromNull`, `toNull`).  Reverting fix A of C17 (floating point instead of
integer arithmetic) makes the function untranslatable; changing the operand order, the divisor or
the early-exit condition changes the generated text: either way these theorems stop compiling.
-/
namespace VncModel.Leaf
open VncModel

private theorem wrap32_id (q : Int) (h0 : 0 ≤ q) (h1 : q < 2147483648) :
    (q + 2147483648) % 4294967296 - 2147483648 = q := by omega

private theorem tdiv_cast (a b c : Nat) : Int.tdiv ((a : Int) * (b : Int)) (c : Int) = ((a * b / c : Nat) : Int) := by
  rw [Int.tdiv_eq_ediv_of_nonneg (Int.mul_nonneg (Int.natCast_nonneg a) (Int.natCast_nonneg b))]
  rw [← Int.natCast_mul, ← Int.natCast_ediv]

/-- `ScaleX` (C, regenerated), general case = `Scale.scaleN` (model) -/
theorem ScaleX_eq (x fw tw : Nat) (hq : x * tw / fw < 2147483648) :
    Gen.Leaf.ScaleX x false false false tw fw = (Scale.scaleN x fw tw : Nat) := by
  unfold Gen.Leaf.ScaleX Scale.scaleN
  rw [if_neg (by simp), tdiv_cast]
  exact wrap32_id _ (Int.natCast_nonneg _) (by omega)

/-- `ScaleY` (C, regenerated), general case = `Scale.scaleN` (model) -/
theorem ScaleY_eq (y fh th : Nat) (hq : y * th / fh < 2147483648) :
    Gen.Leaf.ScaleY y false false false th fh = (Scale.scaleN y fh th : Nat) := by
  unfold Gen.Leaf.ScaleY Scale.scaleN
  rw [if_neg (by simp), tdiv_cast]
  exact wrap32_id _ (Int.natCast_nonneg _) (by omega)

/-- the shortcut: same screen (or a NULL screen) ⇒ identity, as `Scale.scalePt`/`corr` assume -/
theorem ScaleX_same (x tw fw : Int) (fromNull toNull : Bool) :
    Gen.Leaf.ScaleX x true fromNull toNull tw fw = x := by
  simp [Gen.Leaf.ScaleX]

theorem ScaleY_same (y th fh : Int) (fromNull toNull : Bool) :
    Gen.Leaf.ScaleY y true fromNull toNull th fh = y := by
  simp [Gen.Leaf.ScaleY]

/-- `pad4` (C, regenerated) = `Scale.pad4` (model) on non-negative values -/
theorem pad4_eq (v : Nat) : Gen.Leaf.pad4 v = (Scale.pad4 v : Nat) := by
  simp only [Gen.Leaf.pad4, Scale.pad4]
  split <;> split <;> omega

/- non-vacuity -/
example : Gen.Leaf.ScaleX 98 false false false 1 49 = 2 := by decide
example : Gen.Leaf.ScaleX 7 false false false 800 400 = 14 := by decide
example : Gen.Leaf.pad4 13 = 16 := by decide
example : (98 : Nat) * 1 / 49 < 2147483648 := by decide

end VncModel.Leaf
