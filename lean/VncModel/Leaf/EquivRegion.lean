import VncModel.Gen.Leaf
import VncModel.Region.Model
/-
T1 proof obligations for `src/libvncserver/rfbregion.c` (consumer: C11; also C02, C15 through
`clipRect2`).

`VncModel.Gen.Leaf.*` is REGENERATED from the current C source on every run by tools/c2lean.py
(docs/T1.md).  Each theorem below says that the regenerated definition IS the hand-written model
function the region theorems are about.  If the C function changes (a comparison, a constant, the
order of the clamps, a dropped clamp ...) the generated text changes and the corresponding theorem
stops compiling: a broken proof obligation.  The theorems quantify over all `Int` arguments
(assumption of the translation: no signed overflow in the C arithmetic, see docs/T1.md).
-/
namespace VncModel.Leaf
open VncModel

/-- `sraClipRect` (C, regenerated) = `Rgn.clipRect` (model), for all arguments -/
theorem sraClipRect_eq : Gen.Leaf.sraClipRect = Rgn.clipRect := by
  funext x y w h cx cy cw ch
  simp only [Gen.Leaf.sraClipRect, Rgn.clipRect]

/-- `sraClipRect2` (C, regenerated) = `Rgn.clipRect2` (model), for all arguments -/
theorem sraClipRect2_eq : Gen.Leaf.sraClipRect2 = Rgn.clipRect2 := by
  funext x y x2 y2 cx cy cx2 cy2
  simp only [Gen.Leaf.sraClipRect2, Rgn.clipRect2]

/-- the guard at the head of `sraRgnCreateRect` (C, regenerated): the code goes on to build the
one-rectangle span list for exactly the rectangles for which the model `Region.rect` is non-empty,
and with the unmodified coordinates -/
theorem sraRgnCreateRect_guard_eq (x1 y1 x2 y2 : Int) :
    (match Gen.Leaf.sraRgnCreateRect_guard x1 y1 x2 y2 with
     | none => ([] : Rgn.Region)
     | some (a, b, c, d) => [⟨b, d, [⟨a, c, ()⟩]⟩]) = Rgn.Region.rect x1 y1 x2 y2 := by
  by_cases h : x1 ≥ x2 ∨ y1 ≥ y2 <;> simp [Gen.Leaf.sraRgnCreateRect_guard, Rgn.Region.rect, h]

/- non-vacuity: the generated functions compute what the C code computes on concrete inputs -/
example : Gen.Leaf.sraClipRect (-5) 3 20 10 0 0 10 8 = (0, 3, 10, 5, true) := by decide
example : Gen.Leaf.sraClipRect2 (-5) 3 15 13 0 0 10 8 = (0, 3, 10, 8, true) := by decide
example : Gen.Leaf.sraClipRect2 20 3 25 13 0 0 10 8 = (9, 3, 10, 8, true) := by decide
example : Gen.Leaf.sraRgnCreateRect_guard 3 3 3 9 = none := by decide

end VncModel.Leaf
