import VncModel.Gen.Leaf
import VncModel.Leaf.EquivRegion
import VncModel.Update.Model
/-
T1 proof obligations for the clipping arithmetic of the update scheduler (consumer: C02).

`VncModel.Gen.Leaf.*` is REGENERATED from the current C source on every run by tools/c2lean.py
(docs/T1.md); the theorems say that the regenerated definitions are the hand-written model functions
of `VncModel/Update/Model.lean`.  A change of the C code (`x2>screen->width` -> `>=`, a dropped
clamp, a swapped comparison ...) changes the generated text and breaks the theorem.

  rfbMarkRectAsModified (main.c), statements before the call of rfbScaledScreenUpdate
        = Update.markClip                                   (all Int arguments)
  rectSwapIfLEAndClip (rfbserver.c), statements after the call of rfbScaledCorrection
        = Update.requestClip                                (0 ≤ x,y,w,h < 65536: the values come
          from uint16_t wire fields, and for an unscaled client rfbScaledCorrection is the identity)
  rfbRedrawAfterHideCursor (cursor.c), the rectangle handed to sraRgnCreateRect
        = Update.cursorBox                                  (all Int arguments)
-/
namespace VncModel.Leaf
open VncModel VncModel.Update

/-- the clip prologue of `rfbMarkRectAsModified` (C, regenerated) = `Update.markClip` (model) -/
theorem rfbMarkRectAsModified_clip_eq (s : Screen) (x1 y1 x2 y2 : Int) :
    Gen.Leaf.rfbMarkRectAsModified_clip x1 y1 x2 y2 s.width s.height = markClip s x1 y1 x2 y2 := by
  by_cases h1 : x1 > x2 <;> by_cases h2 : y1 > y2 <;>
    simp [Gen.Leaf.rfbMarkRectAsModified_clip, markClip, h1, h2]

/-- result of the C function as the model presents it: `none` when it returns FALSE -/
def optOfClip (r : Int × Int × Int × Int × Bool) : Option (Int × Int × Int × Int) :=
  if r.2.2.2.2 then some (r.1, r.2.1, r.2.2.1, r.2.2.2.1) else none

/-- the control shape shared by the C code and the model -/
private theorem clip_shape (x y h w1 h1 wx hy : Int) :
    optOfClip (if w1 > wx then (x, y, w1, h, false)
               else if h1 > hy then (x, y, w1, h1, false) else (x, y, w1, h1, true))
      = (if w1 > wx then none else if h1 > hy then none else some (x, y, w1, h1)) := by
  by_cases c1 : w1 > wx <;> by_cases c2 : h1 > hy <;> simp [optOfClip, c1, c2]

/-- the clipping tail of `rectSwapIfLEAndClip` (C, regenerated) = `Update.requestClip` (model)
applied to the 16-bit truncations of the `int` inputs (the stores `*x = x1` … into `uint16_t`) -/
theorem rectSwapIfLEAndClip_tail_eq_u16 (s : Screen) (x y w h : Int) :
    optOfClip (Gen.Leaf.rectSwapIfLEAndClip_tail x y w h s.width s.height)
      = requestClip s (u16 x) (u16 y) (u16 w) (u16 h) :=
  clip_shape ..

/-- … and on the values a `uint16_t` can hold (what the wire fields of an unscaled client are)
the truncations are the identity -/
theorem rectSwapIfLEAndClip_tail_eq (s : Screen) (x y w h : Int)
    (hx : 0 ≤ x ∧ x < 65536) (hy : 0 ≤ y ∧ y < 65536)
    (hw : 0 ≤ w ∧ w < 65536) (hh : 0 ≤ h ∧ h < 65536) :
    optOfClip (Gen.Leaf.rectSwapIfLEAndClip_tail x y w h s.width s.height)
      = requestClip s x y w h := by
  have ex : u16 x = x := Int.emod_eq_of_lt hx.1 hx.2
  have ey : u16 y = y := Int.emod_eq_of_lt hy.1 hy.2
  have ew : u16 w = w := Int.emod_eq_of_lt hw.1 hw.2
  have eh : u16 h = h := Int.emod_eq_of_lt hh.1 hh.2
  rw [rectSwapIfLEAndClip_tail_eq_u16, ex, ey, ew, eh]

/-- the rectangle `rfbRedrawAfterHideCursor` hands to `sraRgnCreateRect` (C, regenerated; it calls
the regenerated `sraClipRect2`) = `Update.cursorBox` (model) -/
theorem rfbRedrawAfterHideCursor_rect_eq (s : Screen) (cx cy : Int) :
    (Gen.Leaf.rfbRedrawAfterHideCursor_rect cx cy s.cursor.xhot s.cursor.yhot s.cursor.w s.cursor.h
        s.width s.height).map (fun r => Rgn.Region.rect r.1 r.2.1 r.2.2.1 r.2.2.2)
      = cursorBox s cx cy := by
  simp only [Gen.Leaf.rfbRedrawAfterHideCursor_rect, cursorBox, sraClipRect2_eq]
  split <;> simp_all

/- non-vacuity -/
example : Gen.Leaf.rfbMarkRectAsModified_clip 30 5 (-4) 9 20 20 = some (0, 5, 20, 9) := by decide
example : Gen.Leaf.rfbMarkRectAsModified_clip 30 5 25 9 20 20 = none := by decide
example : optOfClip (Gen.Leaf.rectSwapIfLEAndClip_tail 10 10 100 5 64 48) = some (10, 10, 54, 5) := by
  decide
example : optOfClip (Gen.Leaf.rectSwapIfLEAndClip_tail 70 10 100 5 64 48) = none := by decide
example : Gen.Leaf.rfbRedrawAfterHideCursor_rect 3 3 5 5 16 16 64 48 = some (0, 0, 14, 14) := by decide

end VncModel.Leaf
