import VncModel.Region.Model
import VncModel.Update.USpec
/-!
CopyRect ordering: the rectangles of a well-formed region, iterated with
`reverseX = dx > 0`, `reverseY = dy > 0` (what `rfbSendCopyRegion` and the fixed
`rfbDoCopyRegion` do), can be copied one after the other: no rectangle reads a source pixel that an
earlier rectangle of the sequence has already overwritten, hence the sequential result is the
simultaneous copy.
-/
namespace VncModel.Update.CopyOrder
open VncModel.Rgn VncModel.USpec
open Classical

variable {V : Type}

def mem (r : Rect) (p : Pix) : Prop := r.x1 ≤ p.1 ∧ p.1 < r.x2 ∧ r.y1 ≤ p.2 ∧ p.2 < r.y2

/-- one CopyRect applied by a client (a single rectangle is copied as with `memmove`) -/
noncomputable def applyCopy (d : Pix) (pic : Pix → V) (r : Rect) : Pix → V :=
  fun p => if mem r p then pic (psub p d) else pic p

/-- CopyRects applied in order -/
noncomputable def applySeq (d : Pix) (pic : Pix → V) (rs : List Rect) : Pix → V :=
  rs.foldl (applyCopy d) pic

/-- the simultaneous copy of the union -/
noncomputable def applySim (d : Pix) (pic : Pix → V) (rs : List Rect) : Pix → V :=
  fun p => if ∃ r ∈ rs, mem r p then pic (psub p d) else pic p

/-- `a` is processed before `b`: no source pixel of `b` lies in (the destination) `a` -/
def Safe (d : Pix) (a b : Rect) : Prop := ∀ p, mem b p → ¬ mem a (psub p d)

theorem seq_eq_sim (d : Pix) (rs : List Rect) (h : rs.Pairwise (Safe d)) (pic : Pix → V) :
    applySeq d pic rs = applySim d pic rs := by
  induction rs generalizing pic with
  | nil => funext p; simp [applySeq, applySim]
  | cons r rs ih =>
    rw [List.pairwise_cons] at h
    have := ih h.2 (applyCopy d pic r)
    simp only [applySeq, List.foldl_cons] at this ⊢
    rw [this]
    funext p
    simp only [applySim, List.mem_cons]
    by_cases hex : ∃ r' ∈ rs, mem r' p
    · obtain ⟨r', hr', hm⟩ := hex
      have h1 : ∃ r'', r'' ∈ rs ∧ mem r'' p := ⟨r', hr', hm⟩
      have h2 : ∃ r'', (r'' = r ∨ r'' ∈ rs) ∧ mem r'' p := ⟨r', Or.inr hr', hm⟩
      rw [if_pos h1, if_pos h2]
      have : ¬ mem r (psub p d) := h.1 r' hr' p hm
      simp [applyCopy, this]
    · have h1 : ¬ ∃ r'', r'' ∈ rs ∧ mem r'' p := hex
      rw [if_neg h1]
      by_cases hr : mem r p
      · have h2 : ∃ r'', (r'' = r ∨ r'' ∈ rs) ∧ mem r'' p := ⟨r, Or.inl rfl, hr⟩
        rw [if_pos h2]; simp [applyCopy, hr]
      · have h2 : ¬ ∃ r'', (r'' = r ∨ r'' ∈ rs) ∧ mem r'' p := by
          rintro ⟨r'', hr'' | hr'', hm⟩
          · exact hr (hr'' ▸ hm)
          · exact hex ⟨r'', hr'', hm⟩
        rw [if_neg h2]; simp [applyCopy, hr]

/-! ### ordering facts extracted from well-formedness -/

theorem sortedFrom_facts {α : Type} (G : α → Prop) (lo : Int) (l : List (Span α))
    (h : SortedFrom G lo l) :
    l.Pairwise (fun a b => a.e ≤ b.s) ∧ (∀ a ∈ l, lo ≤ a.s ∧ a.s < a.e ∧ G a.sub) := by
  induction l generalizing lo with
  | nil => simp
  | cons a l ih =>
    obtain ⟨h1, h2, h3, h4⟩ := h
    obtain ⟨ihp, ihm⟩ := ih a.e h4
    refine ⟨List.pairwise_cons.mpr ⟨fun b hb => (ihm b hb).1, ihp⟩, ?_⟩
    intro b hb
    rcases List.mem_cons.mp hb with rfl | hb
    · exact ⟨h1, h2, h3⟩
    · obtain ⟨q1, q2, q3⟩ := ihm b hb
      exact ⟨by omega, q2, q3⟩

theorem sorted_facts {α : Type} (G : α → Prop) (l : List (Span α)) (h : Sorted G l) :
    l.Pairwise (fun a b => a.e ≤ b.s) ∧ (∀ a ∈ l, a.s < a.e ∧ G a.sub) := by
  cases l with
  | nil => simp
  | cons a l =>
    obtain ⟨h2, h3, h4⟩ := h
    obtain ⟨ihp, ihm⟩ := sortedFrom_facts G a.e l h4
    refine ⟨List.pairwise_cons.mpr ⟨fun b hb => (ihm b hb).1, ihp⟩, ?_⟩
    intro b hb
    rcases List.mem_cons.mp hb with rfl | hb
    · exact ⟨h2, h3⟩
    · exact ⟨(ihm b hb).2.1, (ihm b hb).2.2⟩

end VncModel.Update.CopyOrder

namespace VncModel.Update.CopyOrder
open VncModel.Rgn VncModel.USpec

/-- rectangles of one band in x-iteration order -/
def bandRects (rx : Bool) (b : Span XList) : List Rect :=
  (if rx then b.sub.reverse else b.sub).map fun x => ⟨x.s, b.s, x.e, b.e⟩

theorem rects_eq (r : Region) (rx ry : Bool) :
    r.rects rx ry = (if ry then r.reverse else r).flatMap (bandRects rx) := rfl

theorem mem_bandRects {rx : Bool} {b : Span XList} {q : Rect} (h : q ∈ bandRects rx b) :
    q.y1 = b.s ∧ q.y2 = b.e ∧ ∃ x ∈ b.sub, q.x1 = x.s ∧ q.x2 = x.e := by
  unfold bandRects at h
  obtain ⟨x, hx, rfl⟩ := List.mem_map.mp h
  refine ⟨rfl, rfl, x, ?_, rfl, rfl⟩
  cases rx <;> simpa using hx

theorem band_safe (dx dy : Int) (b : Span XList) (hx : XList.WF b.sub) :
    (bandRects (decide (dx > 0)) b).Pairwise (Safe (dx, dy)) := by
  obtain ⟨hp, _⟩ := sorted_facts _ _ hx
  unfold bandRects
  rw [List.pairwise_map]
  by_cases hdx : dx > 0
  · simp only [hdx, decide_true, if_true]
    rw [List.pairwise_reverse]
    refine hp.imp ?_
    intro a c hac p hp1 hp2
    simp only [mem, psub] at hp1 hp2
    omega
  · simp only [hdx, decide_false]
    refine hp.imp ?_
    intro a c hac p hp1 hp2
    simp only [mem, psub] at hp1 hp2
    omega

/-- **CopyRect order safety**: for every well-formed region and every offset, iterating with
`reverseX = dx > 0`, `reverseY = dy > 0` yields a sequence in which no rectangle's source has been
overwritten by an earlier rectangle. -/
theorem rects_safe (r : Region) (hwf : r.WF) (dx dy : Int) :
    (r.rects (decide (dx > 0)) (decide (dy > 0))).Pairwise (Safe (dx, dy)) := by
  obtain ⟨hp, hm⟩ := sorted_facts _ _ hwf
  rw [rects_eq, List.pairwise_flatMap]
  by_cases hdy : dy > 0
  · simp only [hdy, decide_true, if_true]
    refine ⟨fun b hb => band_safe dx dy b (hm b (List.mem_reverse.mp hb)).2.1, ?_⟩
    rw [List.pairwise_reverse]
    refine hp.imp ?_
    intro a c hac q hq q' hq' p hp1 hp2
    obtain ⟨h1, h2, _⟩ := mem_bandRects hq
    obtain ⟨h3, h4, _⟩ := mem_bandRects hq'
    simp only [mem, psub] at hp1 hp2
    omega
  · simp only [hdy, decide_false]
    refine ⟨fun b hb => band_safe dx dy b (hm b hb).2.1, ?_⟩
    refine hp.imp ?_
    intro a c hac q hq q' hq' p hp1 hp2
    obtain ⟨h1, h2, _⟩ := mem_bandRects hq
    obtain ⟨h3, h4, _⟩ := mem_bandRects hq'
    simp only [mem, psub] at hp1 hp2
    omega

/-- hence: applying the CopyRects of a well-formed region one after the other, in the emitted
order, is the simultaneous copy -/
theorem copy_sequential_eq_simultaneous {V : Type} (r : Region) (hwf : r.WF) (dx dy : Int)
    (pic : Pix → V) :
    applySeq (dx, dy) pic (r.rects (decide (dx > 0)) (decide (dy > 0))) =
    applySim (dx, dy) pic (r.rects (decide (dx > 0)) (decide (dy > 0))) :=
  seq_eq_sim (dx, dy) _ (rects_safe r hwf dx dy) pic

end VncModel.Update.CopyOrder
