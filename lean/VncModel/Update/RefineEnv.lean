import VncModel.Update.Refine
/-!
The all-histories theorem with a changing environment: between the operations of the executable
model the screen's pointer position, cursor shape / hot spot, progressive-slice height and
maxRectsPerUpdate may change arbitrarily (pointer events of any client, rfbSetCursor, the
application tuning the knobs); only the framebuffer size is fixed (a size change is C16's
rfbNewFramebuffer).  The convergence invariant speaks about the cursor-less picture, so an
environment step changes neither side of it, and every model operation is a specification step for
whatever screen it runs against.
-/
namespace VncModel.Update.Refine
open VncModel.Rgn VncModel.USpec VncModel.Update VncModel.Update.CopyOrder
open Classical

variable {V : Type}

theorem S_congr (a b : Screen) (hw : b.width = a.width) (hh : b.height = a.height) : S b = S a := by
  funext p
  simp only [S, hw, hh]

/-- a step of the system "screen + one client": a model operation against the current screen, or
a change of anything in the screen but its size -/
inductive EStep : Screen × MState V → Screen × MState V → Prop
  | op (scr : Screen) (s t : MState V) : MStep scr s t → EStep (scr, s) (scr, t)
  | env (scr scr' : Screen) (s : MState V) (hw : scr'.width = scr.width)
      (hh : scr'.height = scr.height) : EStep (scr, s) (scr', s)

inductive EReach : Screen × MState V → Screen × MState V → Prop
  | refl (x) : EReach x x
  | tail {a b c} : EReach a b → EStep b c → EReach a c

theorem EReach_sound (x y : Screen × MState V) (hw : WFc x.2.c) (h : EReach x y) :
    WFc y.2.c ∧ S y.1 = S x.1 ∧
    Reach (S x.1) (absS x.2.c x.2.fb x.2.pic) (absS y.2.c y.2.fb y.2.pic) := by
  induction h with
  | refl => exact ⟨hw, rfl, Reach.refl _⟩
  | tail _ hstep ih =>
    obtain ⟨w1, e1, r1⟩ := ih
    cases hstep with
    | op scr s t hm =>
      obtain ⟨w2, r2⟩ := MStep_sound scr s t w1 hm
      refine ⟨w2, e1, Reach.trans r1 ?_⟩
      simp only at e1
      rw [← e1]
      exact r2
    | env scr scr' s hw' hh' =>
      exact ⟨w1, (S_congr scr scr' hw' hh').trans e1, r1⟩

/-- **Convergence with a moving pointer and changing knobs**: after any interleaving of model
operations with environment changes, starting from a fresh client, the regions are well-formed
and the convergence invariant holds -/
theorem model_inv_env (scr0 : Screen) (fb0 pic0 : Pix → V) (y : Screen × MState V)
    (h : EReach (scr0, ⟨newClient scr0, fb0, pic0⟩) y) :
    WFc y.2.c ∧ Inv (S y.1) (absS y.2.c y.2.fb y.2.pic) := by
  obtain ⟨w, e, r⟩ := EReach_sound _ y (newClient_wf scr0) h
  refine ⟨w, ?_⟩
  rw [e]
  refine Inv_reach (S scr0) _ _ (Inv_init (S scr0) _ ?_) r
  intro p hp
  exact (newClient_M scr0 p).mpr hp

theorem model_idle_converged_env (scr0 : Screen) (fb0 pic0 : Pix → V) (y : Screen × MState V)
    (h : EReach (scr0, ⟨newClient scr0, fb0, pic0⟩) y)
    (hM : y.2.c.M.isEmpty = true) (hC : y.2.c.C.isEmpty = true) :
    ∀ p, S y.1 p → y.2.pic p = y.2.fb p := by
  obtain ⟨w, hI⟩ := model_inv_env scr0 fb0 pic0 y h
  intro p hp
  have h1 : ¬ dset y.2.c.M p := (isEmpty_dset w.1).mp hM p
  have h2 : ¬ dset y.2.c.C p := (isEmpty_dset w.2.1).mp hC p
  exact ((hI p hp h1).2 h2).symm

end VncModel.Update.Refine
