import VncModel.Update.USpec
/-! Invariant preservation for the set-level update specification. -/
namespace VncModel.USpec
open Classical
variable {V : Type}

theorem Inv_step (S : PSet) (s t : SState V) (hI : Inv S s) (hst : Step S s t) : Inv S t := by
  cases hst with
  | draw r extra fb' hfb =>
    intro p hS hM
    simp only at hM ⊢
    have hM' : ¬ s.M p := fun h => hM (Or.inl h)
    have hr : ¬ r p := fun h => hM (Or.inr (Or.inl h))
    rw [hfb p hS hr]
    exact hI p hS hM'
  | copyNoCR D d' extra =>
    intro p hS hM
    simp only at hM ⊢
    have hM' : ¬ s.M p := fun h => hM (Or.inl h)
    have hD : ¬ D p := fun h => hM (Or.inr (Or.inl h))
    simp only [hD, if_false]
    exact hI p hS hM'
  | copyNew D d' extra hsrc hoff =>
    intro p hS hM
    simp only at hM ⊢
    have hM' : ¬ s.M p := fun h => hM (Or.inl (Or.inl h))
    have hC' : ¬ s.C p := fun h => hM (Or.inl (Or.inr h))
    constructor
    · intro hD
      simp only [hD, if_true]
      have hq : ¬ (s.M (psub p d') ∨ s.C (psub p d')) := fun h => hM (Or.inr (Or.inl ⟨h, hD⟩))
      have hqM : ¬ s.M (psub p d') := fun h => hq (Or.inl h)
      have hqC : ¬ s.C (psub p d') := fun h => hq (Or.inr h)
      exact (hI (psub p d') (hsrc p hD) hqM).2 hqC
    · intro hD
      simp only [hD, if_false]
      exact (hI p hS hM').2 hC'
  | copySame D extra hsrc =>
    intro p hS hM
    simp only at hM ⊢
    have hM1 : ¬ (s.M p ∨ (D (padd p s.d) ∧ s.C p)) := fun h => hM (Or.inl h)
    have hMp : ¬ s.M p := fun h => hM1 (Or.inl h)
    constructor
    · intro hCD
      by_cases hD : D p
      · simp only [hD, if_true]
        have hq : ¬ (s.M (psub p s.d) ∨ (D (padd (psub p s.d) s.d) ∧ s.C (psub p s.d))) :=
          fun h => hM (Or.inr (Or.inl ⟨h, hCD⟩))
        have hqM : ¬ s.M (psub p s.d) := fun h => hq (Or.inl h)
        have hqC : ¬ s.C (psub p s.d) := fun h => hq (Or.inr ⟨by simpa using hD, h⟩)
        exact (hI (psub p s.d) (hsrc p hD) hqM).2 hqC
      · simp only [hD, if_false]
        have hC : s.C p := hCD.resolve_right hD
        exact (hI p hS hMp).1 hC
    · intro hCD
      have hD : ¬ D p := fun h => hCD (Or.inr h)
      have hC : ¬ s.C p := fun h => hCD (Or.inl h)
      simp only [hD, if_false]
      exact (hI p hS hMp).2 hC
  | request incr r =>
    intro p hS hM
    simp only at hM ⊢
    have hM' : ¬ s.M p := fun h => hM (Or.inl h)
    have hr : ¬ (incr = false ∧ r p) := fun h => hM (Or.inr h)
    constructor
    · intro hC; exact (hI p hS hM').1 hC.1
    · intro hC
      have : ¬ s.C p := fun h => hC ⟨h, hr⟩
      exact (hI p hS hM').2 this
  | dropCopy extra =>
    intro p hS hM
    simp only at hM ⊢
    have hMp : ¬ s.M p := fun h => hM (Or.inl h)
    have hCp : ¬ s.C p := fun h => hM (Or.inr (Or.inl h))
    exact ⟨fun h => h.elim, fun _ => (hI p hS hMp).2 hCp⟩
  | sendNothing =>
    intro p hS hM
    simp only at hM ⊢
    constructor
    · intro hC; exact (hI p hS hM).1 hC.1
    · intro hC
      have : ¬ s.C p := fun h => hC ⟨h, hM⟩
      exact (hI p hS hM).2 this
  | send slice extra =>
    intro p hS hM
    simp only at hM ⊢
    refine ⟨fun h => h.elim, fun _ => ?_⟩
    by_cases hU : sendU0 s slice p ∨ extra p
    · simp only [hU, if_true]
    · simp only [hU, if_false]
      have hU0 : ¬ sendU0 s slice p := fun h => hU (Or.inl h)
      by_cases hUC : sendUC s p
      · simp only [hUC, if_true]
        have hC1 : sendC1 s p := hUC.1
        exact (hI p hS hC1.2).1 hC1.1
      · simp only [hUC, if_false]
        have hMC : ¬ (s.M p ∨ sendC1 s p) := fun h => hM ⟨h, hU0, hUC⟩
        have hMp : ¬ s.M p := fun h => hMC (Or.inl h)
        have hCp : ¬ s.C p := fun h => hMC (Or.inr ⟨h, hMp⟩)
        exact (hI p hS hMp).2 hCp

theorem Inv_reach (S : PSet) (s t : SState V) (hI : Inv S s) (h : Reach S s t) : Inv S t := by
  induction h with
  | refl => exact hI
  | tail _ hstep ih => exact Inv_step S _ _ ih hstep

/-- initial state of a connection: everything modified (cl->modifiedRegion = whole screen) -/
theorem Inv_init (S : PSet) (s : SState V) (h : ∀ p, S p → s.M p) : Inv S s :=
  fun p hS hM => absurd (h p hS) hM

end VncModel.USpec
