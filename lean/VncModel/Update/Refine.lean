import VncModel.Update.Model
import VncModel.Update.USpecProofs
import VncModel.Update.CopyOrder
import VncModel.Region.Misc
/-!
# Refinement: the executable region-level model (`Update/Model.lean`) refines the set-level
specification (`Update/USpec.lean`)

Abstraction: a `Client` with well-formed regions is mapped to the `SState` whose `M`, `C`, `R` are
the pixel sets of the three regions and `d = (dx, dy)`; the framebuffer `fb` and the client's
picture `pic` are carried along (the executable model has no pixels; every operation of the model
says which pixels change, the theorems below quantify over all possible contents).

For every operation of the executable model: (i) well-formedness of the three regions is preserved,
(ii) the abstract states are related by one `Step` of the specification (or by `Reach`, for an
operation that can be a no-op).  The `send` step is additionally connected to what a client that
applies the emitted CopyRect and raw rectangles in order really obtains (`client_applies`).
All region facts used are the C11 theorems (`rOr_spec`, `rAnd_spec`, `rSub_spec`, `offset_den`,
`rect_den`, `isEmpty_iff`, `rects_cover`, `bboxY_x/y`) — nothing is assumed about regions.
-/
namespace VncModel.Update.Refine
open VncModel.Rgn VncModel.USpec VncModel.Update VncModel.Update.CopyOrder
open Classical

variable {V : Type}

/-! ## abstraction -/

/-- pixel set of a region -/
def dset (r : Region) : PSet := fun p => r.den p.1 p.2

/-- the three regions of a client are well-formed -/
def WFc (c : Client) : Prop := c.M.WF ∧ c.C.WF ∧ c.R.WF

/-- abstraction function -/
def absS (c : Client) (fb pic : Pix → V) : SState V :=
  ⟨fb, pic, dset c.M, dset c.C, dset c.R, (c.dx, c.dy)⟩

/-- the pixels of the screen -/
def S (scr : Screen) : PSet := fun p => 0 ≤ p.1 ∧ p.1 < scr.width ∧ 0 ≤ p.2 ∧ p.2 < scr.height

theorem SState_ext {s t : SState V} (h1 : s.fb = t.fb) (h2 : s.pic = t.pic)
    (h3 : ∀ p, s.M p ↔ t.M p) (h4 : ∀ p, s.C p ↔ t.C p) (h5 : ∀ p, s.R p ↔ t.R p)
    (h6 : s.d = t.d) : s = t := by
  cases s; cases t
  simp only at h1 h2 h3 h4 h5 h6
  have e3 := funext fun p => propext (h3 p)
  have e4 := funext fun p => propext (h4 p)
  have e5 := funext fun p => propext (h5 p)
  subst h1 h2 e3 e4 e5 h6
  rfl

/-- closes the fields of `SState_ext` that are syntactically unchanged -/
macro "same_field" : tactic => `(tactic| first | rfl | (intro _; exact Iff.rfl))

theorem Reach.trans {S : PSet} {a b c : SState V} (h1 : Reach S a b) (h2 : Reach S b c) :
    Reach S a c := by
  induction h2 with
  | refl => exact h1
  | tail _ hs ih => exact Reach.tail ih hs

theorem Reach.single {S : PSet} {a b : SState V} (h : Step S a b) : Reach S a b :=
  Reach.tail (Reach.refl a) h

/-! ## the region operations on pixel sets (C11) -/

theorem dset_or {a b : Region} (ha : a.WF) (hb : b.WF) (p : Pix) :
    dset (a.or b) p ↔ (dset a p ∨ dset b p) := (rOr_spec a b ha hb).2 p.1 p.2
theorem wf_or {a b : Region} (ha : a.WF) (hb : b.WF) : (a.or b).WF := (rOr_spec a b ha hb).1

theorem dset_and {a b : Region} (ha : a.WF) (hb : b.WF) (p : Pix) :
    dset (a.and b).1 p ↔ (dset a p ∧ dset b p) := (rAnd_spec a b ha hb).2.1 p.1 p.2
theorem wf_and {a b : Region} (ha : a.WF) (hb : b.WF) : (a.and b).1.WF := (rAnd_spec a b ha hb).1

theorem dset_sub {a b : Region} (ha : a.WF) (hb : b.WF) (p : Pix) :
    dset (a.sub b).1 p ↔ (dset a p ∧ ¬ dset b p) := (rSub_spec a b ha hb).2.1 p.1 p.2
theorem wf_sub {a b : Region} (ha : a.WF) (hb : b.WF) : (a.sub b).1.WF := (rSub_spec a b ha hb).1

theorem dset_offset (r : Region) (dx dy : Int) (p : Pix) :
    dset (r.offset dx dy) p ↔ dset r (psub p (dx, dy)) := offset_den r dx dy p.1 p.2

theorem dset_rect (x1 y1 x2 y2 : Int) (p : Pix) :
    dset (Region.rect x1 y1 x2 y2) p ↔ (x1 ≤ p.1 ∧ p.1 < x2 ∧ y1 ≤ p.2 ∧ p.2 < y2) :=
  rect_den x1 y1 x2 y2 p.1 p.2

theorem dset_empty (p : Pix) : ¬ dset Region.empty p := by
  simp [dset, Region.empty, Region.den]

theorem wf_empty : Region.empty.WF := trivial

theorem dset_dup (r : Region) (p : Pix) : dset r.dup p ↔ dset r p := Iff.rfl

theorem isEmpty_dset {r : Region} (h : r.WF) : r.isEmpty = true ↔ ∀ p, ¬ dset r p := by
  rw [isEmpty_iff r h]
  exact ⟨fun hh p => hh p.1 p.2, fun hh x y => hh (x, y)⟩

/-- `if (!sraRgnEmpty(b)) sraRgnOr(a, b)` is the union whether or not the test fires -/
theorem orIfNonEmpty {a b : Region} (ha : a.WF) (hb : b.WF) :
    (if !b.isEmpty then a.or b else a).WF ∧
    ∀ p, dset (if !b.isEmpty then a.or b else a) p ↔ (dset a p ∨ dset b p) := by
  by_cases he : b.isEmpty = true
  · simp only [he, Bool.not_true, Bool.false_eq_true, if_false]
    have := (isEmpty_dset hb).mp he
    exact ⟨ha, fun p => ⟨Or.inl, fun h => h.resolve_right (this p)⟩⟩
  · have he' : b.isEmpty = false := by simpa using he
    simp only [he', Bool.not_false, if_true]
    exact ⟨wf_or ha hb, dset_or ha hb⟩

/-- `sraRgnBBox` covers the region (for EVERY region: the `INT_MAX` seeds only matter for
tightness) -/
theorem dset_bbox (r : Region) (p : Pix) (h : dset r p) : dset r.bbox p := by
  obtain ⟨v, hv, h1, h2, sp, hsp, h3, h4⟩ := h
  obtain ⟨_, X2, _, _, X5, _⟩ := bboxY_x r intMax intMax (-intMax - 1) (-intMax - 1)
  obtain ⟨_, Y2, _, _, Y5, _⟩ := bboxY_y r intMax intMax (-intMax - 1) (-intMax - 1)
  have a1 := X2 v hv sp hsp
  have a2 := X5 v hv sp hsp
  have a3 := Y2 v hv
  have a4 := Y5 v hv
  unfold Region.bbox
  simp only
  rw [if_neg (by omega)]
  exact (dset_rect _ _ _ _ p).mpr ⟨by omega, by omega, by omega, by omega⟩

theorem wf_bbox (r : Region) : r.bbox.WF := by
  unfold Region.bbox
  simp only
  split
  · exact wf_empty
  · exact rect_wf _ _ _ _

/-! ## 0. a fresh client -/

theorem newClient_wf (scr : Screen) : WFc (newClient scr) :=
  ⟨rect_wf _ _ _ _, wf_empty, wf_empty⟩

theorem newClient_M (scr : Screen) (p : Pix) : dset (newClient scr).M p ↔ S scr p := by
  simp only [newClient, dset_rect, S]

/-! ## 1. rfbMarkRectAsModified / rfbMarkRegionAsModified -/

/-- the clipped rectangle of `rfbMarkRectAsModified` is the (normalised) argument rectangle
intersected with the screen, and non-empty -/
theorem markClip_some (scr : Screen) (x1 y1 x2 y2 a b c d : Int)
    (h : markClip scr x1 y1 x2 y2 = some (a, b, c, d)) :
    a = max (min x1 x2) 0 ∧ c = min (max x1 x2) scr.width ∧ a < c ∧
    b = max (min y1 y2) 0 ∧ d = min (max y1 y2) scr.height ∧ b < d := by
  have key : ∀ (A B C D : Int),
      (if A ≥ C then none else if B ≥ D then none else some (A, B, C, D)) = some (a, b, c, d) →
      a = A ∧ b = B ∧ c = C ∧ d = D ∧ A < C ∧ B < D := by
    intro A B C D hh
    by_cases h1 : A ≥ C
    · rw [if_pos h1] at hh; exact absurd hh (by simp)
    · rw [if_neg h1] at hh
      by_cases h2 : B ≥ D
      · rw [if_pos h2] at hh; exact absurd hh (by simp)
      · rw [if_neg h2] at hh
        simp only [Option.some.injEq, Prod.mk.injEq] at hh
        obtain ⟨rfl, rfl, rfl, rfl⟩ := hh
        exact ⟨rfl, rfl, rfl, rfl, by omega, by omega⟩
  unfold markClip at h
  by_cases hx : x1 > x2 <;> by_cases hy : y1 > y2 <;> simp only [hx, hy, if_true, if_false] at h <;>
    (obtain ⟨rfl, rfl, rfl, rfl, k1, k2⟩ := key _ _ _ _ h
     refine ⟨?_, ?_, k1, ?_, ?_, k2⟩ <;> (repeat' split) <;> omega)

/-- hence it lies inside the screen -/
theorem markClip_inside (scr : Screen) (x1 y1 x2 y2 a b c d : Int)
    (h : markClip scr x1 y1 x2 y2 = some (a, b, c, d)) :
    ∀ p, dset (Region.rect a b c d) p → S scr p := by
  obtain ⟨h1, h2, _, h4, h5, _⟩ := markClip_some scr x1 y1 x2 y2 a b c d h
  intro p hp
  rw [dset_rect] at hp
  simp only [S]
  omega

theorem markRegion_wf (c : Client) (r : Region) (h : WFc c) (hr : r.WF) : WFc (markRegion c r) :=
  ⟨wf_or h.1 hr, h.2.1, h.2.2⟩

/-- marking a region as modified after the application drew inside it is `Step.draw` -/
theorem markRegion_step (Sc : PSet) (c : Client) (r : Region) (h : WFc c) (hr : r.WF)
    (fb fb' pic : Pix → V) (hfb : ∀ p, Sc p → ¬ dset r p → fb' p = fb p) :
    Step Sc (absS c fb pic) (absS (markRegion c r) fb' pic) := by
  have e : absS (markRegion c r) fb' pic =
      { absS c fb pic with
          fb := fb',
          M := fun p => (absS c fb pic).M p ∨ dset r p ∨ (fun _ => False) p } := by
    apply SState_ext <;> try same_field
    intro p
    simp only [absS, markRegion, dset_or h.1 hr, or_false]
  rw [e]
  exact Step.draw _ _ _ _ hfb

/-! ## 2. SetEncodings -/

theorem cursorBox_wf (scr : Screen) (cx cy : Int) (b : Region) (h : cursorBox scr cx cy = some b) :
    b.WF := by
  unfold cursorBox at h
  simp only at h
  split at h
  · simp only [Option.some.injEq] at h; subst h; exact rect_wf _ _ _ _
  · exact absurd h (by simp)

/-- `match cursorBox … with | some b => a.or b | none => a` -/
theorem orCursorBox {a : Region} (ha : a.WF) (ob : Option Region) (hb : ∀ b, ob = some b → b.WF) :
    (match ob with | some b => a.or b | none => a).WF ∧
    ∀ p, dset (match ob with | some b => a.or b | none => a) p ↔
      (dset a p ∨ ∃ b, ob = some b ∧ dset b p) := by
  cases ob with
  | none => exact ⟨ha, fun p => by simp⟩
  | some b =>
    have hb' := hb b rfl
    exact ⟨wf_or ha hb', fun p => by simp [dset_or ha hb']⟩

theorem setEncodings0_wf (scr : Screen) (c : Client) (cr cs : Bool) (h : WFc c) :
    WFc (setEncodings0 scr c cr cs) := by
  unfold setEncodings0
  by_cases hb : (cs || c.cursorShape) = true
  · simp only [hb, if_true]
    exact ⟨(orCursorBox h.1 _ (cursorBox_wf scr _ _)).1, h.2.1, h.2.2⟩
  · simp only [hb]
    exact h

/-- the flag part of SetEncodings is a `Step.draw` that draws nothing (`r = ∅`, framebuffer
unchanged) and may add the cursor box to modifiedRegion (`extra`) -/
theorem setEncodings0_step (Sc : PSet) (scr : Screen) (c : Client) (cr cs : Bool) (h : WFc c)
    (fb pic : Pix → V) :
    Step Sc (absS c fb pic) (absS (setEncodings0 scr c cr cs) fb pic) := by
  have e : absS (setEncodings0 scr c cr cs) fb pic =
      { absS c fb pic with
          fb := fb,
          M := fun p => (absS c fb pic).M p ∨ (fun _ => False) p ∨
            (fun p => (cs || c.cursorShape) = true ∧
              ∃ b, cursorBox scr c.cursorX c.cursorY = some b ∧ dset b p) p } := by
    apply SState_ext <;> try same_field
    · intro p
      unfold setEncodings0
      by_cases hb : (cs || c.cursorShape) = true
      · have := (orCursorBox h.1 (cursorBox scr c.cursorX c.cursorY) (cursorBox_wf scr _ _)).2 p
        simp only [absS, hb, if_true, false_or, true_and]
        exact this
      · simp [absS, hb]
  rw [e]
  exact Step.draw _ _ _ _ (fun _ _ _ => rfl)

theorem dropCopy_wf (c : Client) (h : WFc c) : WFc (dropCopy c) := by
  unfold dropCopy
  split
  · exact ⟨wf_or h.1 h.2.1, wf_empty, h.2.2⟩
  · exact h

/-- the tail of the SetEncodings handler is `Step.dropCopy` (or nothing) -/
theorem dropCopy_reach (Sc : PSet) (c : Client) (h : WFc c) (fb pic : Pix → V) :
    Reach Sc (absS c fb pic) (absS (dropCopy c) fb pic) := by
  unfold dropCopy
  split
  · have e : absS { c with M := c.M.or c.C, C := Region.empty, dx := 0, dy := 0 } fb pic =
        { absS c fb pic with
            M := fun p => (absS c fb pic).M p ∨ (absS c fb pic).C p ∨ (fun _ => False) p,
            C := fun _ => False, d := (0, 0) } := by
      apply SState_ext <;> try same_field
      · intro p
        simp only [absS, or_false]
        exact dset_or h.1 h.2.1 p
      · intro p
        simp only [absS]
        exact iff_of_false (dset_empty p) (fun hf => hf)
    rw [e]
    exact Reach.single (Step.dropCopy _ _)
  · exact Reach.refl _

theorem setEncodings_wf (scr : Screen) (c : Client) (cr cs : Bool) (h : WFc c) :
    WFc (setEncodings scr c cr cs) :=
  dropCopy_wf _ (setEncodings0_wf scr c cr cs h)

/-- SetEncodings: a `Step.draw` that draws nothing and may add the cursor box, followed — for a
client that no longer accepts CopyRect — by `Step.dropCopy` -/
theorem setEncodings_reach (Sc : PSet) (scr : Screen) (c : Client) (cr cs : Bool) (h : WFc c)
    (fb pic : Pix → V) :
    Reach Sc (absS c fb pic) (absS (setEncodings scr c cr cs) fb pic) :=
  Reach.trans (Reach.single (setEncodings0_step Sc scr c cr cs h fb pic))
    (dropCopy_reach Sc _ (setEncodings0_wf scr c cr cs h) fb pic)

/-! ## 3. rfbScheduleCopyRegion (with the framebuffer copy of rfbDoCopyRegion) -/

/-- the pending-copy case analysis of `rfbScheduleCopyRegion`: (modifiedRegion, copyRegion) after
the block "a copy region not yet executed" -/
def scPre (c : Client) (D : Region) (dx dy : Int) : Region × Region :=
  if !c.C.isEmpty then
    if c.dx ≠ dx ∨ c.dy ≠ dy then (c.M.or c.C, Region.empty)
    else (c.M.or ((D.dup.offset (-dx) (-dy)).and c.C).1, c.C)
  else (c.M, c.C)

/-- the cursor rectangle used by `rfbScheduleCopyRegion` (not clipped) -/
def scCursorRect (s : Screen) (c : Client) : Region :=
  Region.rect (c.cursorX - s.cursor.xhot) (c.cursorY - s.cursor.yhot)
    (c.cursorX - s.cursor.xhot + s.cursor.w) (c.cursorY - s.cursor.yhot + s.cursor.h)

/-- the soft-cursor block at the end of `rfbScheduleCopyRegion` -/
def scCursor (s : Screen) (c : Client) (m2 c2 : Region) (dx dy : Int) : Region :=
  if !c.cursorShape then
    let cr1 := ((scCursorRect s c).and c2).1
    let ma := if !cr1.isEmpty then m2.or cr1 else m2
    let cr2 := (((scCursorRect s c).offset dx dy).and c2).1
    if !cr2.isEmpty then ma.or cr2 else ma
  else m2

/-- `scheduleCopy` written with the two blocks named (definitional unfolding) -/
theorem scheduleCopy_eq (s : Screen) (c : Client) (D : Region) (dx dy : Int) :
    scheduleCopy s c D dx dy =
      if !c.useCopyRect then { c with M := c.M.or D } else
      let m1 := (scPre c D dx dy).1
      let c2 := (scPre c D dx dy).2.or D
      let m2 := m1.or ((m1.dup.offset dx dy).and c2).1
      { c with M := scCursor s c m2 c2 dx dy, C := c2, dx := dx, dy := dy } := rfl

/-- pixels the soft-cursor block adds to modifiedRegion: `extra` of the copy steps -/
def scExtra (s : Screen) (c : Client) (c2 : Region) (dx dy : Int) : PSet := fun p =>
  c.cursorShape = false ∧
    (dset (scCursorRect s c) p ∨ dset ((scCursorRect s c).offset dx dy) p) ∧ dset c2 p

theorem scCursor_spec (s : Screen) (c : Client) (m2 c2 : Region) (dx dy : Int) (hm : m2.WF)
    (hc : c2.WF) :
    (scCursor s c m2 c2 dx dy).WF ∧
    ∀ p, dset (scCursor s c m2 c2 dx dy) p ↔ (dset m2 p ∨ scExtra s c c2 dx dy p) := by
  unfold scCursor scExtra
  cases hcs : c.cursorShape
  · simp only [Bool.not_false, if_true, true_and]
    have hr : (scCursorRect s c).WF := rect_wf _ _ _ _
    have hro : ((scCursorRect s c).offset dx dy).WF := offset_wf _ _ _ hr
    have w1 := wf_and hr hc
    have w2 := wf_and hro hc
    obtain ⟨a1, a2⟩ := orIfNonEmpty hm w1
    obtain ⟨b1, b2⟩ := orIfNonEmpty a1 w2
    refine ⟨b1, fun p => ?_⟩
    rw [b2 p, a2 p, dset_and hr hc, dset_and hro hc]
    constructor
    · rintro ((h | h) | h)
      · exact Or.inl h
      · exact Or.inr ⟨Or.inl h.1, h.2⟩
      · exact Or.inr ⟨Or.inr h.1, h.2⟩
    · rintro (h | ⟨h | h, h'⟩)
      · exact Or.inl (Or.inl h)
      · exact Or.inl (Or.inr ⟨h, h'⟩)
      · exact Or.inr ⟨h, h'⟩
  · simp only [Bool.not_true, Bool.false_eq_true, if_false]
    exact ⟨hm, fun _ => by simp⟩

theorem scPre_empty (c : Client) (D : Region) (dx dy : Int) (h : c.C.isEmpty = true) :
    scPre c D dx dy = (c.M, c.C) := by simp [scPre, h]

theorem scPre_diff (c : Client) (D : Region) (dx dy : Int) (h : c.C.isEmpty = false)
    (hd : c.dx ≠ dx ∨ c.dy ≠ dy) : scPre c D dx dy = (c.M.or c.C, Region.empty) := by
  simp only [scPre, h, Bool.not_false, if_true, hd]

theorem scPre_same (c : Client) (D : Region) (dx dy : Int) (h : c.C.isEmpty = false)
    (hd : ¬ (c.dx ≠ dx ∨ c.dy ≠ dy)) :
    scPre c D dx dy = (c.M.or ((D.dup.offset (-dx) (-dy)).and c.C).1, c.C) := by
  simp only [scPre, h, Bool.not_false, if_true, hd, if_false]

theorem scPre_wf (c : Client) (D : Region) (dx dy : Int) (h : WFc c) (hD : D.WF) :
    (scPre c D dx dy).1.WF ∧ (scPre c D dx dy).2.WF := by
  cases he : c.C.isEmpty
  · by_cases hd : c.dx ≠ dx ∨ c.dy ≠ dy
    · rw [scPre_diff c D dx dy he hd]; exact ⟨wf_or h.1 h.2.1, wf_empty⟩
    · rw [scPre_same c D dx dy he hd]
      exact ⟨wf_or h.1 (wf_and (offset_wf _ _ _ hD) h.2.1), h.2.1⟩
  · rw [scPre_empty c D dx dy he]; exact ⟨h.1, h.2.1⟩

theorem scheduleCopy_wf (scr : Screen) (c : Client) (D : Region) (dx dy : Int) (h : WFc c)
    (hD : D.WF) : WFc (scheduleCopy scr c D dx dy) := by
  rw [scheduleCopy_eq]
  obtain ⟨p1, p2⟩ := scPre_wf c D dx dy h hD
  cases c.useCopyRect
  · exact ⟨wf_or h.1 hD, h.2.1, h.2.2⟩
  · have hc2 := wf_or p2 hD
    exact ⟨(scCursor_spec scr c _ _ dx dy
      (wf_or p1 (wf_and (offset_wf _ _ _ p1) hc2)) hc2).1, hc2, h.2.2⟩

/-- set-level description of `scheduleCopy` for a CopyRect client in terms of `scPre` -/
theorem scheduleCopy_true_spec (scr : Screen) (c : Client) (D : Region) (dx dy : Int)
    (huse : c.useCopyRect = true) (h1 : (scPre c D dx dy).1.WF) (h2 : (scPre c D dx dy).2.WF)
    (hD : D.WF) :
    (∀ p, dset (scheduleCopy scr c D dx dy).M p ↔
      ((dset (scPre c D dx dy).1 p ∨ (dset (scPre c D dx dy).1 (psub p (dx, dy)) ∧
          (dset (scPre c D dx dy).2 p ∨ dset D p))) ∨
        scExtra scr c ((scPre c D dx dy).2.or D) dx dy p)) ∧
    (∀ p, dset (scheduleCopy scr c D dx dy).C p ↔ (dset (scPre c D dx dy).2 p ∨ dset D p)) ∧
    (scheduleCopy scr c D dx dy).R = c.R ∧ (scheduleCopy scr c D dx dy).dx = dx ∧
    (scheduleCopy scr c D dx dy).dy = dy := by
  rw [scheduleCopy_eq]
  simp only [huse, Bool.not_true, Bool.false_eq_true, if_false]
  have hc2 := wf_or h2 hD
  have hb := wf_and (offset_wf _ dx dy h1) hc2
  refine ⟨fun p => ?_, fun p => dset_or h2 hD p, by first | rfl | trivial,
    by first | rfl | trivial, by first | rfl | trivial⟩
  simp only [Region.dup]
  rw [(scCursor_spec scr c _ _ dx dy (wf_or h1 hb) hc2).2 p]
  rw [dset_or h1 hb, dset_and (offset_wf _ dx dy h1) hc2, dset_offset, dset_or h2 hD]

theorem psub_neg (q : Pix) (dx dy : Int) : psub q (-dx, -dy) = padd q (dx, dy) := by
  simp [psub, padd, Int.sub_neg]

/-- **rfbDoCopyRegion + rfbScheduleCopyRegion refine the copy steps** of the specification:
`copyNoCR` for a client without CopyRect, `copyNew` when no copy is pending or the pending one has
another offset, `copySame` when the offsets agree.  `extra` = the soft-cursor additions. -/
theorem scheduleCopy_step (scr : Screen) (c : Client) (D : Region) (dx dy : Int) (h : WFc c)
    (hD : D.WF) (hsrc : ∀ p, dset D p → S scr (psub p (dx, dy))) (fb pic : Pix → V) :
    Step (S scr) (absS c fb pic)
      (absS (scheduleCopy scr c D dx dy)
        (fun p => if dset D p then fb (psub p (dx, dy)) else fb p) pic) := by
  cases huse : c.useCopyRect
  · -- no CopyRect: destination is marked modified
    have e : absS (scheduleCopy scr c D dx dy)
          (fun p => if dset D p then fb (psub p (dx, dy)) else fb p) pic =
        { absS c fb pic with
            fb := fun p => if dset D p then (absS c fb pic).fb (psub p (dx, dy))
                           else (absS c fb pic).fb p,
            M := fun p => (absS c fb pic).M p ∨ dset D p ∨ (fun _ => False) p } := by
      rw [scheduleCopy_eq]
      simp only [huse, Bool.not_false, if_true]
      apply SState_ext <;> try same_field
      intro p
      simp only [absS, dset_or h.1 hD, or_false]
    rw [e]
    exact Step.copyNoCR _ (dset D) (dx, dy) _
  · obtain ⟨p1, p2⟩ := scPre_wf c D dx dy h hD
    obtain ⟨sM, sC, sR, sdx, sdy⟩ := scheduleCopy_true_spec scr c D dx dy huse p1 p2 hD
    cases he : c.C.isEmpty
    · by_cases hd : c.dx ≠ dx ∨ c.dy ≠ dy
      · -- pending copy with another offset
        rw [scPre_diff c D dx dy he hd] at sM sC
        have e : absS (scheduleCopy scr c D dx dy)
              (fun p => if dset D p then fb (psub p (dx, dy)) else fb p) pic =
            { absS c fb pic with
                fb := fun p => if dset D p then (absS c fb pic).fb (psub p (dx, dy))
                               else (absS c fb pic).fb p,
                M := fun p => ((absS c fb pic).M p ∨ (absS c fb pic).C p) ∨
                  (((absS c fb pic).M (psub p (dx, dy)) ∨ (absS c fb pic).C (psub p (dx, dy))) ∧
                    dset D p) ∨ scExtra scr c (Region.empty.or D) dx dy p,
                C := dset D, d := (dx, dy) } := by
          apply SState_ext <;> try same_field
          · intro p
            simp only [absS]
            rw [sM p, dset_or h.1 h.2.1, dset_or h.1 h.2.1]
            simp only [dset_empty, false_or, or_assoc]
          · intro p
            simp only [absS]
            rw [sC p]
            simp only [dset_empty, false_or]
          · intro p; simp only [absS, sR]
          · simp only [absS, sdx, sdy]
        rw [e]
        refine Step.copyNew _ (dset D) (dx, dy) _ hsrc (Or.inl ?_)
        intro hh
        simp only [absS, Prod.mk.injEq] at hh
        rcases hd with hd | hd
        · exact hd hh.1
        · exact hd hh.2
      · -- pending copy with the same offset: merge
        rw [scPre_same c D dx dy he hd] at sM sC
        have hdx : c.dx = dx := Classical.byContradiction fun k => hd (Or.inl k)
        have hdy : c.dy = dy := Classical.byContradiction fun k => hd (Or.inr k)
        have hbk := wf_and (offset_wf D (-dx) (-dy) hD) h.2.1
        have hsrc' : ∀ p, dset D p → S scr (psub p (absS c fb pic).d) := by
          intro p hp; simp only [absS, hdx, hdy]; exact hsrc p hp
        have e : absS (scheduleCopy scr c D dx dy)
              (fun p => if dset D p then fb (psub p (dx, dy)) else fb p) pic =
            { absS c fb pic with
                fb := fun p => if dset D p then (absS c fb pic).fb (psub p (absS c fb pic).d)
                               else (absS c fb pic).fb p,
                M := fun p =>
                  let M1 : PSet := fun q => (absS c fb pic).M q ∨
                    (dset D (padd q (absS c fb pic).d) ∧ (absS c fb pic).C q)
                  M1 p ∨ (M1 (psub p (absS c fb pic).d) ∧ ((absS c fb pic).C p ∨ dset D p)) ∨
                    scExtra scr c (c.C.or D) dx dy p,
                C := fun p => (absS c fb pic).C p ∨ dset D p } := by
          apply SState_ext <;> try same_field
          · simp only [absS, hdx, hdy]
          · intro p
            simp only [absS, hdx, hdy]
            rw [sM p]
            simp only [Region.dup]
            rw [dset_or h.1 hbk, dset_or h.1 hbk, dset_and (offset_wf D (-dx) (-dy) hD) h.2.1,
              dset_and (offset_wf D (-dx) (-dy) hD) h.2.1, dset_offset, dset_offset, psub_neg,
              psub_neg]
            simp only [or_assoc]
          · intro p
            simp only [absS]
            exact sC p
          · intro p; simp only [absS, sR]
          · simp only [absS, sdx, sdy, hdx, hdy]
        rw [e]
        exact Step.copySame _ (dset D) _ hsrc'
    · -- no copy pending
      rw [scPre_empty c D dx dy he] at sM sC
      have hCe := (isEmpty_dset h.2.1).mp he
      have e : absS (scheduleCopy scr c D dx dy)
            (fun p => if dset D p then fb (psub p (dx, dy)) else fb p) pic =
          { absS c fb pic with
              fb := fun p => if dset D p then (absS c fb pic).fb (psub p (dx, dy))
                             else (absS c fb pic).fb p,
              M := fun p => ((absS c fb pic).M p ∨ (absS c fb pic).C p) ∨
                (((absS c fb pic).M (psub p (dx, dy)) ∨ (absS c fb pic).C (psub p (dx, dy))) ∧
                  dset D p) ∨ scExtra scr c (c.C.or D) dx dy p,
              C := dset D, d := (dx, dy) } := by
        apply SState_ext <;> try same_field
        · intro p
          simp only [absS]
          rw [sM p]
          simp only [hCe, false_or, or_false, or_assoc]
        · intro p
          simp only [absS]
          rw [sC p]
          simp only [hCe, false_or]
        · intro p; simp only [absS, sR]
        · simp only [absS, sdx, sdy]
      rw [e]
      exact Step.copyNew _ (dset D) (dx, dy) _ hsrc (Or.inr hCe)

/-! ## 4. FramebufferUpdateRequest -/

/-- `rectSwapIfLEAndClip`: an accepted request rectangle lies inside the screen (for all
`x, y ≥ 0`, in particular all uint16 values; any `w`, `h`) -/
theorem requestClip_inside (scr : Screen) (x y w h x' y' w' h' : Int) (hx : 0 ≤ x) (hy : 0 ≤ y)
    (hc : requestClip scr x y w h = some (x', y', w', h')) :
    x' = x ∧ y' = y ∧ x + w' ≤ scr.width ∧ y + h' ≤ scr.height ∧
    ∀ p, dset (Region.rect x' y' (x' + w') (y' + h')) p → S scr p := by
  have key : ∀ (A B : Int),
      (if A > scr.width - x then none else if B > scr.height - y then none
        else some (x, y, A, B)) = some (x', y', w', h') →
      x' = x ∧ y' = y ∧ w' = A ∧ h' = B ∧ A ≤ scr.width - x ∧ B ≤ scr.height - y := by
    intro A B hh
    by_cases h1 : A > scr.width - x
    · rw [if_pos h1] at hh; exact absurd hh (by simp)
    · rw [if_neg h1] at hh
      by_cases h2 : B > scr.height - y
      · rw [if_pos h2] at hh; exact absurd hh (by simp)
      · rw [if_neg h2] at hh
        simp only [Option.some.injEq, Prod.mk.injEq] at hh
        obtain ⟨rfl, rfl, rfl, rfl⟩ := hh
        exact ⟨rfl, rfl, rfl, rfl, by omega, by omega⟩
  unfold requestClip at hc
  obtain ⟨rfl, rfl, rfl, rfl, k1, k2⟩ := key _ _ hc
  refine ⟨rfl, rfl, by omega, by omega, ?_⟩
  intro p hp
  rw [dset_rect] at hp
  simp only [S]
  omega

theorem request_wf (scr : Screen) (c : Client) (incr : Bool) (x y w h : Int) (hc : WFc c) :
    WFc (request scr c incr x y w h) := by
  unfold request
  split
  · exact hc
  · cases incr
    · exact ⟨wf_or hc.1 (rect_wf _ _ _ _), wf_sub hc.2.1 (rect_wf _ _ _ _),
        wf_or hc.2.2 (rect_wf _ _ _ _)⟩
    · exact ⟨hc.1, hc.2.1, wf_or hc.2.2 (rect_wf _ _ _ _)⟩

/-- an accepted request is `Step.request` with the clipped rectangle -/
theorem request_step_some (Sc : PSet) (scr : Screen) (c : Client) (incr : Bool)
    (x y w h x' y' w' h' : Int) (hc : WFc c) (fb pic : Pix → V)
    (hq : requestClip scr x y w h = some (x', y', w', h')) :
    Step Sc (absS c fb pic) (absS (request scr c incr x y w h) fb pic) := by
  have hr := rect_wf x' y' (x' + w') (y' + h')
  have e : absS (request scr c incr x y w h) fb pic =
      { absS c fb pic with
          R := fun p => (absS c fb pic).R p ∨ dset (Region.rect x' y' (x' + w') (y' + h')) p,
          M := fun p => (absS c fb pic).M p ∨
            (incr = false ∧ dset (Region.rect x' y' (x' + w') (y' + h')) p),
          C := fun p => (absS c fb pic).C p ∧
            ¬ (incr = false ∧ dset (Region.rect x' y' (x' + w') (y' + h')) p) } := by
    unfold request
    rw [hq]
    apply SState_ext <;> try same_field
    · intro p
      cases incr
      · simp [absS, dset_or hc.1 hr]
      · simp [absS]
    · intro p
      cases incr
      · simp [absS, dset_sub hc.2.1 hr]
      · simp [absS]
    · intro p
      cases incr <;> simp [absS, dset_or hc.2.2 hr]
    · cases incr <;> rfl
  rw [e]
  exact Step.request _ incr _

/-- the request handler refines `Reach` (no step when the rectangle is rejected) -/
theorem request_reach (Sc : PSet) (scr : Screen) (c : Client) (incr : Bool) (x y w h : Int)
    (hc : WFc c) (fb pic : Pix → V) :
    Reach Sc (absS c fb pic) (absS (request scr c incr x y w h) fb pic) := by
  cases hq : requestClip scr x y w h with
  | none =>
    have : request scr c incr x y w h = c := by unfold request; rw [hq]
    rw [this]; exact Reach.refl _
  | some q =>
    obtain ⟨x', y', w', h'⟩ := q
    exact Reach.single (request_step_some Sc scr c incr x y w h x' y' w' h' hc fb pic hq)

/-! ## 5. rfbSendFramebufferUpdate -/

/-- progressive-slice block: (updateRegion after slicing, new progressiveSliceY) -/
def suSlice (s : Screen) (c : Client) : Region × Int :=
  if s.progSlice > 0 then
    let height := s.progSlice
    let y := c.sliceY
    let bb := c.M.dup.bbox
    let (u, y) := match (bb.popRect 0).2 with
      | some rect =>
        let y := if y < rect.y1 ∨ y ≥ rect.y2 then rect.y1 else y
        ((c.M.dup.and (Region.rect 0 y s.width (y + height))).1, y)
      | none => (c.M.dup, y)
    let y := y + height
    (u, if y ≥ s.height then 0 else y)
  else (c.M.dup, c.sliceY)

/-- copyRegion after `sraRgnSubtract(cl->copyRegion, cl->modifiedRegion)` -/
def suC1 (c : Client) : Region := (c.C.sub c.M).1
/-- updateRegion after `sraRgnOr(updateRegion, copyRegion)`, `sraRgnAnd(.., requestedRegion)` -/
def suUpd3 (s : Screen) (c : Client) : Region × Bool := ((suSlice s c).1.or (suC1 c)).and c.R
def suCursorShape (c : Client) : Bool := c.cursorShape && c.cursorChanged && c.ready
/-- the "nothing to send" test -/
def suEarly (s : Screen) (c : Client) : Bool :=
  !(suUpd3 s c).2 && (suUpd3 s c).1.isEmpty &&
    (c.cursorShape || (c.cursorX == s.cursorX && c.cursorY == s.cursorY)) && !suCursorShape c
/-- updateCopyRegion -/
def suUC (c : Client) : Region :=
  ((((suC1 c).dup.and c.R).1).and (c.R.dup.offset c.dx c.dy)).1
/-- updateRegion after subtracting updateCopyRegion -/
def suUpd4 (s : Screen) (c : Client) : Region := ((suUpd3 s c).1.sub (suUC c)).1
/-- the new modifiedRegion -/
def suM3 (s : Screen) (c : Client) : Region :=
  ((((c.M.or (suC1 c)).sub (suUpd4 s c)).1).sub (suUC c)).1
/-- soft-cursor bookkeeping: (updateRegion, cl->cursorX, cl->cursorY) -/
def suCur (s : Screen) (c : Client) : Region × Int × Int :=
  if !c.cursorShape then
    if c.cursorX ≠ s.cursorX ∨ c.cursorY ≠ s.cursorY then
      let u := match cursorBox s c.cursorX c.cursorY with
        | some b => (suUpd4 s c).or b
        | none => suUpd4 s c
      let u := match cursorBox s s.cursorX s.cursorY with
        | some b => u.or b
        | none => u
      (u, s.cursorX, s.cursorY)
    else (suUpd4 s c, c.cursorX, c.cursorY)
  else (suUpd4 s c, c.cursorX, c.cursorY)
/-- the region whose rectangles are finally sent as pixel data (maxRectsPerUpdate rule) -/
def suUpd6 (s : Screen) (c : Client) : Region :=
  if s.maxRects > 0 ∧ ((suCur s c).1.countRects : Int) > s.maxRects then (suCur s c).1.bbox
  else (suCur s c).1
/-- the CopyRect messages -/
def suCopies (c : Client) : List CopyRectMsg :=
  ((suUC c).rects (decide (c.dx > 0)) (decide (c.dy > 0))).map fun r =>
    { x := r.x1, y := r.y1, w := r.x2 - r.x1, h := r.y2 - r.y1,
      srcX := r.x1 - c.dx, srcY := r.y1 - c.dy : CopyRectMsg }

/-- `sendUpdate` written with its blocks named (definitional unfolding) -/
theorem sendUpdate_eq (s : Screen) (c : Client) :
    sendUpdate s c =
      if suEarly s c then ({ c with C := suC1 c, sliceY := (suSlice s c).2 }, none)
      else
        ({ c with M := suM3 s c, C := Region.empty, R := Region.empty, dx := 0, dy := 0,
                  sliceY := (suSlice s c).2, cursorX := (suCur s c).2.1,
                  cursorY := (suCur s c).2.2,
                  cursorChanged := if suCursorShape c then false else c.cursorChanged },
         some { cursorShape := suCursorShape c, copies := suCopies c,
                raws := (suUpd6 s c).rects false false }) := rfl

/-- the progressive slice actually used: a horizontal band of the screen, or everything when
slicing is off (`progressiveSliceHeight ≤ 0`) or modifiedRegion's bounding box is empty -/
def slicePred (s : Screen) (c : Client) : PSet :=
  if s.progSlice > 0 then
    match (c.M.dup.bbox.popRect 0).2 with
    | some rect => fun p =>
        0 ≤ p.1 ∧ p.1 < s.width ∧
        (if c.sliceY < rect.y1 ∨ c.sliceY ≥ rect.y2 then rect.y1 else c.sliceY) ≤ p.2 ∧
        p.2 < (if c.sliceY < rect.y1 ∨ c.sliceY ≥ rect.y2 then rect.y1 else c.sliceY) + s.progSlice
    | none => fun _ => True
  else fun _ => True

theorem suSlice_spec (s : Screen) (c : Client) (hM : c.M.WF) :
    (suSlice s c).1.WF ∧ ∀ p, dset (suSlice s c).1 p ↔ (dset c.M p ∧ slicePred s c p) := by
  unfold suSlice slicePred
  by_cases hp : s.progSlice > 0
  · simp only [hp, if_true]
    generalize (c.M.dup.bbox.popRect 0).2 = o
    cases o with
    | none => exact ⟨hM, fun p => by simp [Region.dup]⟩
    | some rect =>
      simp only [Region.dup]
      exact ⟨wf_and hM (rect_wf _ _ _ _), fun p => by rw [dset_and hM (rect_wf _ _ _ _), dset_rect]⟩
  · simp only [hp, if_false]
    exact ⟨hM, fun p => by simp [Region.dup]⟩

theorem suC1_spec (c : Client) (h : WFc c) :
    (suC1 c).WF ∧ ∀ p, dset (suC1 c) p ↔ (dset c.C p ∧ ¬ dset c.M p) :=
  ⟨wf_sub h.2.1 h.1, dset_sub h.2.1 h.1⟩

theorem suUC_spec (c : Client) (h : WFc c) (fb pic : Pix → V) :
    (suUC c).WF ∧ ∀ p, dset (suUC c) p ↔ sendUC (absS c fb pic) p := by
  obtain ⟨w1, d1⟩ := suC1_spec c h
  have w2 := wf_and w1 h.2.2
  have w3 := offset_wf c.R c.dx c.dy h.2.2
  refine ⟨wf_and w2 w3, fun p => ?_⟩
  unfold suUC
  simp only [Region.dup]
  rw [dset_and w2 w3, dset_and w1 h.2.2, d1, dset_offset]
  simp only [sendUC, sendC1, absS, and_assoc]

theorem suUpd3_spec (s : Screen) (c : Client) (h : WFc c) :
    (suUpd3 s c).1.WF ∧
    ∀ p, dset (suUpd3 s c).1 p ↔
      (((dset c.M p ∧ slicePred s c p) ∨ (dset c.C p ∧ ¬ dset c.M p)) ∧ dset c.R p) := by
  obtain ⟨w1, d1⟩ := suC1_spec c h
  obtain ⟨w0, d0⟩ := suSlice_spec s c h.1
  have w2 := wf_or w0 w1
  refine ⟨wf_and w2 h.2.2, fun p => ?_⟩
  unfold suUpd3
  rw [dset_and w2 h.2.2, dset_or w0 w1, d0, d1]

theorem suUpd4_spec (s : Screen) (c : Client) (h : WFc c) (fb pic : Pix → V) :
    (suUpd4 s c).WF ∧ ∀ p, dset (suUpd4 s c) p ↔ sendU0 (absS c fb pic) (slicePred s c) p := by
  obtain ⟨w3, d3⟩ := suUpd3_spec s c h
  obtain ⟨wu, du⟩ := suUC_spec c h fb pic
  refine ⟨wf_sub w3 wu, fun p => ?_⟩
  unfold suUpd4
  rw [dset_sub w3 wu, d3, du]
  simp only [sendU0, sendC1, absS, and_assoc]

theorem suM3_spec (s : Screen) (c : Client) (h : WFc c) (fb pic : Pix → V) :
    (suM3 s c).WF ∧
    ∀ p, dset (suM3 s c) p ↔
      ((dset c.M p ∨ sendC1 (absS c fb pic) p) ∧ ¬ sendU0 (absS c fb pic) (slicePred s c) p ∧
        ¬ sendUC (absS c fb pic) p) := by
  obtain ⟨w1, d1⟩ := suC1_spec c h
  obtain ⟨w4, d4⟩ := suUpd4_spec s c h fb pic
  obtain ⟨wu, du⟩ := suUC_spec c h fb pic
  have wm := wf_or h.1 w1
  have wm2 := wf_sub wm w4
  refine ⟨wf_sub wm2 wu, fun p => ?_⟩
  unfold suM3
  rw [dset_sub wm2 wu, dset_sub wm w4, dset_or h.1 w1, d1, d4, du]
  simp only [sendC1, absS, and_assoc]

/-- the soft-cursor block only adds pixels -/
theorem suCur_spec (s : Screen) (c : Client) (h : WFc c) (fb pic : Pix → V) :
    (suCur s c).1.WF ∧ ∀ p, dset (suUpd4 s c) p → dset (suCur s c).1 p := by
  obtain ⟨w4, _⟩ := suUpd4_spec s c h fb pic
  unfold suCur
  cases c.cursorShape
  · simp only [Bool.not_false, if_true]
    by_cases hm : c.cursorX ≠ s.cursorX ∨ c.cursorY ≠ s.cursorY
    · simp only [hm, if_true]
      obtain ⟨a1, a2⟩ := orCursorBox w4 (cursorBox s c.cursorX c.cursorY) (cursorBox_wf s _ _)
      obtain ⟨b1, b2⟩ := orCursorBox a1 (cursorBox s s.cursorX s.cursorY) (cursorBox_wf s _ _)
      exact ⟨b1, fun p hp => (b2 p).mpr (Or.inl ((a2 p).mpr (Or.inl hp)))⟩
    · simp only [hm, if_false]
      exact ⟨w4, fun _ hp => hp⟩
  · simp only [Bool.not_true, Bool.false_eq_true, if_false]
    exact ⟨w4, fun _ hp => hp⟩

/-- the maxRectsPerUpdate rule only adds pixels -/
theorem suUpd6_spec (s : Screen) (c : Client) (p : Pix) (hp : dset (suCur s c).1 p) :
    dset (suUpd6 s c) p := by
  unfold suUpd6
  split
  · exact dset_bbox _ p hp
  · exact hp

/-- hence everything of the specification's `sendU0` is sent as pixel data -/
theorem sendU0_sub_raw (s : Screen) (c : Client) (h : WFc c) (fb pic : Pix → V) (p : Pix)
    (hp : sendU0 (absS c fb pic) (slicePred s c) p) : dset (suUpd6 s c) p :=
  suUpd6_spec s c p ((suCur_spec s c h fb pic).2 p (((suUpd4_spec s c h fb pic).2 p).mpr hp))

theorem sendUpdate_early (s : Screen) (c : Client) (h : suEarly s c = true) :
    sendUpdate s c = ({ c with C := suC1 c, sliceY := (suSlice s c).2 }, none) := by
  rw [sendUpdate_eq, if_pos h]

theorem sendUpdate_late (s : Screen) (c : Client) (h : suEarly s c = false) :
    sendUpdate s c =
      ({ c with M := suM3 s c, C := Region.empty, R := Region.empty, dx := 0, dy := 0,
                sliceY := (suSlice s c).2, cursorX := (suCur s c).2.1,
                cursorY := (suCur s c).2.2,
                cursorChanged := if suCursorShape c then false else c.cursorChanged },
       some { cursorShape := suCursorShape c, copies := suCopies c,
              raws := (suUpd6 s c).rects false false }) := by
  rw [sendUpdate_eq, if_neg (by simp [h])]

theorem sendUpdate_none_iff (s : Screen) (c : Client) :
    (sendUpdate s c).2 = none ↔ suEarly s c = true := by
  cases he : suEarly s c
  · rw [sendUpdate_late s c he]; simp
  · rw [sendUpdate_early s c he]; simp

theorem sendUpdate_wf (scr : Screen) (c : Client) (h : WFc c) : WFc (sendUpdate scr c).1 := by
  cases he : suEarly scr c
  · rw [sendUpdate_late scr c he]
    exact ⟨(suM3_spec scr c h (fun _ => ()) (fun _ => ())).1, wf_empty, wf_empty⟩
  · rw [sendUpdate_early scr c he]
    exact ⟨h.1, (suC1_spec c h).1, h.2.2⟩

/-- `rfbSendFramebufferUpdate` returning early is `Step.sendNothing` -/
theorem sendUpdate_step_none (Sc : PSet) (scr : Screen) (c : Client) (h : WFc c)
    (fb pic : Pix → V) (hn : (sendUpdate scr c).2 = none) :
    Step Sc (absS c fb pic) (absS (sendUpdate scr c).1 fb pic) := by
  have he := (sendUpdate_none_iff scr c).mp hn
  have e : absS (sendUpdate scr c).1 fb pic =
      { absS c fb pic with C := fun p => (absS c fb pic).C p ∧ ¬ (absS c fb pic).M p } := by
    rw [sendUpdate_early scr c he]
    apply SState_ext <;> try same_field
    intro p
    exact (suC1_spec c h).2 p
  rw [e]
  exact Step.sendNothing _

/-- the client's picture after the update, as `Step.send` prescribes it for the slice and the raw
region of the executable model -/
noncomputable def sendPic (scr : Screen) (c : Client) (fb pic : Pix → V) : Pix → V :=
  fun p => if sendU0 (absS c fb pic) (slicePred scr c) p ∨ dset (suUpd6 scr c) p then fb p
           else if sendUC (absS c fb pic) p then pic (psub p (c.dx, c.dy)) else pic p

theorem suEarly_of_some (scr : Screen) (c : Client) (sent : Sent)
    (hs : (sendUpdate scr c).2 = some sent) : suEarly scr c = false := by
  cases hh : suEarly scr c
  · rfl
  · rw [(sendUpdate_none_iff scr c).mpr hh] at hs; exact absurd hs (by simp)

/-- the abstract state after a sent update is literally the target of `Step.send` with
`slice := slicePred scr c` and `extra := dset (suUpd6 scr c)` -/
theorem sendUpdate_abs_some (scr : Screen) (c : Client) (h : WFc c)
    (fb pic : Pix → V) (sent : Sent) (hs : (sendUpdate scr c).2 = some sent) :
    absS (sendUpdate scr c).1 fb (sendPic scr c fb pic) =
      { absS c fb pic with
          pic := fun p =>
            if sendU0 (absS c fb pic) (slicePred scr c) p ∨ dset (suUpd6 scr c) p
            then (absS c fb pic).fb p
            else if sendUC (absS c fb pic) p then (absS c fb pic).pic (psub p (absS c fb pic).d)
            else (absS c fb pic).pic p,
          M := fun p => ((absS c fb pic).M p ∨ sendC1 (absS c fb pic) p) ∧
            ¬ sendU0 (absS c fb pic) (slicePred scr c) p ∧ ¬ sendUC (absS c fb pic) p,
          C := fun _ => False, R := fun _ => False, d := (0, 0) } := by
  rw [sendUpdate_late scr c (suEarly_of_some scr c sent hs)]
  apply SState_ext <;> try same_field
  · intro p
    exact (suM3_spec scr c h fb pic).2 p
  · intro p
    simp only [absS]
    exact ⟨fun hh => dset_empty p hh, False.elim⟩
  · intro p
    simp only [absS]
    exact ⟨fun hh => dset_empty p hh, False.elim⟩

/-- `rfbSendFramebufferUpdate` sending an update is `Step.send` with `slice` = the progressive
slice actually used and `extra` = the pixel set of the region finally emitted as pixel data -/
theorem sendUpdate_step_some (Sc : PSet) (scr : Screen) (c : Client) (h : WFc c)
    (fb pic : Pix → V) (sent : Sent) (hs : (sendUpdate scr c).2 = some sent) :
    Step Sc (absS c fb pic) (absS (sendUpdate scr c).1 fb (sendPic scr c fb pic)) := by
  rw [sendUpdate_abs_some scr c h fb pic sent hs]
  exact Step.send _ (slicePred scr c) (dset (suUpd6 scr c))

/-- what was emitted -/
theorem sendUpdate_sent (scr : Screen) (c : Client) (sent : Sent)
    (hs : (sendUpdate scr c).2 = some sent) :
    sent.copies = suCopies c ∧ sent.raws = (suUpd6 scr c).rects false false := by
  rw [sendUpdate_late scr c (suEarly_of_some scr c sent hs)] at hs
  simp only [Option.some.injEq] at hs
  subst hs
  exact ⟨rfl, rfl⟩

/-! ### what the client does with the update -/

/-- destination rectangle of a CopyRect message -/
def msgRect (m : CopyRectMsg) : Rect := ⟨m.x, m.y, m.x + m.w, m.y + m.h⟩

/-- a client applies one CopyRect message: destination pixel `(x+i, y+j)` := picture at
`(srcX+i, srcY+j)` (one rectangle is copied as with `memmove`) -/
noncomputable def applyMsg (pic : Pix → V) (m : CopyRectMsg) : Pix → V :=
  fun p => if mem (msgRect m) p then pic (p.1 - m.x + m.srcX, p.2 - m.y + m.srcY) else pic p

/-- a client applies one rectangle of pixel data (the server read it from the framebuffer) -/
noncomputable def applyRaw (fb : Pix → V) (pic : Pix → V) (r : Rect) : Pix → V :=
  fun p => if mem r p then fb p else pic p

/-- a client applies a whole update, in the order of emission: CopyRects first, then pixel data -/
noncomputable def clientApply (fb pic : Pix → V) (sent : Sent) : Pix → V :=
  sent.raws.foldl (applyRaw fb) (sent.copies.foldl applyMsg pic)

theorem applyRaws_eq (fb : Pix → V) (rs : List Rect) (pic : Pix → V) :
    rs.foldl (applyRaw fb) pic = fun p => if ∃ r ∈ rs, mem r p then fb p else pic p := by
  induction rs generalizing pic with
  | nil => funext p; simp
  | cons r rs ih =>
    rw [List.foldl_cons, ih]
    funext p
    by_cases h1 : ∃ r' ∈ rs, mem r' p
    · have h2 : ∃ r' ∈ r :: rs, mem r' p := by
        obtain ⟨r', hr', hm⟩ := h1; exact ⟨r', List.mem_cons_of_mem _ hr', hm⟩
      rw [if_pos h1, if_pos h2]
    · rw [if_neg h1]
      by_cases h3 : mem r p
      · have h2 : ∃ r' ∈ r :: rs, mem r' p := ⟨r, List.mem_cons_self, h3⟩
        rw [if_pos h2]; simp [applyRaw, h3]
      · have h2 : ¬ ∃ r' ∈ r :: rs, mem r' p := by
          rintro ⟨r', hr', hm⟩
          rcases List.mem_cons.mp hr' with rfl | hr'
          · exact h3 hm
          · exact h1 ⟨r', hr', hm⟩
        rw [if_neg h2]; simp [applyRaw, h3]

/-- the messages of the model, applied in order, are the sequential copy with offset (dx, dy) -/
theorem copies_fold (dx dy : Int) (rs : List Rect) (pic : Pix → V) :
    (rs.map fun r => (⟨r.x1, r.y1, r.x2 - r.x1, r.y2 - r.y1, r.x1 - dx, r.y1 - dy⟩ :
        CopyRectMsg)).foldl applyMsg pic =
      applySeq (dx, dy) pic rs := by
  rw [List.foldl_map]
  unfold applySeq
  congr 1
  funext pc r
  funext p
  have e3 : p.1 - r.x1 + (r.x1 - dx) = p.1 - dx := by omega
  have e4 : p.2 - r.y1 + (r.y1 - dy) = p.2 - dy := by omega
  have em : msgRect (⟨r.x1, r.y1, r.x2 - r.x1, r.y2 - r.y1, r.x1 - dx, r.y1 - dy⟩ :
      CopyRectMsg) = r := by
    cases r
    simp only [msgRect, Rect.mk.injEq]
    exact ⟨trivial, trivial, by omega, by omega⟩
  simp only [applyMsg, applyCopy, em, psub, e3, e4]

theorem exists_mem_rects (r : Region) (rx ry : Bool) (p : Pix) :
    (∃ rc ∈ r.rects rx ry, mem rc p) ↔ dset r p := (rects_cover r rx ry p.1 p.2).symm

/-- **The client obtains exactly the picture the specification prescribes**: applying the emitted
CopyRect messages one after the other (in the emitted order) and then the pixel rectangles gives
the `pic` of `Step.send`. -/
theorem client_applies (scr : Screen) (c : Client) (h : WFc c) (fb pic : Pix → V) (sent : Sent)
    (hs : (sendUpdate scr c).2 = some sent) :
    clientApply fb pic sent = sendPic scr c fb pic := by
  obtain ⟨hc, hr⟩ := sendUpdate_sent scr c sent hs
  obtain ⟨wu, du⟩ := suUC_spec c h fb pic
  unfold clientApply
  rw [hc, hr, applyRaws_eq]
  unfold suCopies
  rw [copies_fold, copy_sequential_eq_simultaneous (suUC c) wu c.dx c.dy pic]
  funext p
  unfold sendPic applySim
  by_cases h6 : dset (suUpd6 scr c) p
  · rw [if_pos ((exists_mem_rects _ _ _ p).mpr h6), if_pos (Or.inr h6)]
  · have h0 : ¬ (sendU0 (absS c fb pic) (slicePred scr c) p ∨ dset (suUpd6 scr c) p) := by
      rintro (k | k)
      · exact h6 (sendU0_sub_raw scr c h fb pic p k)
      · exact h6 k
    rw [if_neg (fun k => h6 ((exists_mem_rects _ _ _ p).mp k)), if_neg h0]
    by_cases hu : dset (suUC c) p
    · rw [if_pos ((exists_mem_rects _ _ _ p).mpr hu), if_pos ((du p).mp hu)]
    · rw [if_neg (fun k => hu ((exists_mem_rects _ _ _ p).mp k)),
        if_neg (fun k => hu ((du p).mpr k))]

/-! ## 6. all histories of the executable model -/

/-- a state of the world as far as one client is concerned: the model's client record, the
server framebuffer and the picture the client holds -/
structure MState (V : Type) where
  c : Client
  fb : Pix → V
  pic : Pix → V

/-- the client's picture after an (optional) update -/
noncomputable def afterSend (fb pic : Pix → V) : Option Sent → (Pix → V)
  | none => pic
  | some sent => clientApply fb pic sent

/-- One operation of the executable model together with what happens to the pixels.  The premises
of the constructors are the side conditions of the API (the application marks what it draws;
a copy's source lies on the screen; regions handed in are well-formed). -/
inductive MStep (scr : Screen) : MState V → MState V → Prop
  /-- the application draws (any new content `fb'` that differs from `fb` on the screen only
  inside `r`) and calls rfbMarkRectAsModified / rfbMarkRegionAsModified -/
  | mark (c : Client) (fb pic : Pix → V) (r : Region) (fb' : Pix → V) (hr : r.WF)
      (hfb : ∀ p, S scr p → ¬ dset r p → fb' p = fb p) :
      MStep scr ⟨c, fb, pic⟩ ⟨markRegion c r, fb', pic⟩
  | setEncodings (c : Client) (fb pic : Pix → V) (cr cs : Bool) :
      MStep scr ⟨c, fb, pic⟩ ⟨setEncodings scr c cr cs, fb, pic⟩
  /-- rfbDoCopyRegion (framebuffer copy) + rfbScheduleCopyRegion -/
  | copy (c : Client) (fb pic : Pix → V) (D : Region) (dx dy : Int) (hD : D.WF)
      (hsrc : ∀ p, dset D p → S scr (psub p (dx, dy))) :
      MStep scr ⟨c, fb, pic⟩
        ⟨scheduleCopy scr c D dx dy, fun p => if dset D p then fb (psub p (dx, dy)) else fb p, pic⟩
  /-- FramebufferUpdateRequest with ANY field values -/
  | request (c : Client) (fb pic : Pix → V) (incr : Bool) (x y w h : Int) :
      MStep scr ⟨c, fb, pic⟩ ⟨request scr c incr x y w h, fb, pic⟩
  /-- rfbSendFramebufferUpdate; the client applies what was emitted -/
  | send (c : Client) (fb pic : Pix → V) :
      MStep scr ⟨c, fb, pic⟩ ⟨(sendUpdate scr c).1, fb, afterSend fb pic (sendUpdate scr c).2⟩
  /-- rfbUpdateClient (sends only when an update is pending) -/
  | update (c : Client) (fb pic : Pix → V) :
      MStep scr ⟨c, fb, pic⟩ ⟨(updateClient scr c).1, fb, afterSend fb pic (updateClient scr c).2⟩

/-- any finite sequence of operations -/
inductive MReach (scr : Screen) : MState V → MState V → Prop
  | refl (s) : MReach scr s s
  | tail {a b c} : MReach scr a b → MStep scr b c → MReach scr a c

theorem send_sound (scr : Screen) (c : Client) (fb pic : Pix → V) (hw : WFc c) :
    Reach (S scr) (absS c fb pic)
      (absS (sendUpdate scr c).1 fb (afterSend fb pic (sendUpdate scr c).2)) := by
  cases hs : (sendUpdate scr c).2 with
  | none => exact Reach.single (sendUpdate_step_none (S scr) scr c hw fb pic hs)
  | some sent =>
    simp only [afterSend]
    rw [client_applies scr c hw fb pic sent hs]
    exact Reach.single (sendUpdate_step_some (S scr) scr c hw fb pic sent hs)

/-- every operation of the executable model preserves well-formedness and is simulated by the
specification -/
theorem MStep_sound (scr : Screen) (s t : MState V) (hw : WFc s.c) (h : MStep scr s t) :
    WFc t.c ∧ Reach (S scr) (absS s.c s.fb s.pic) (absS t.c t.fb t.pic) := by
  cases h with
  | mark c fb pic r fb' hr hfb =>
    exact ⟨markRegion_wf c r hw hr, Reach.single (markRegion_step (S scr) c r hw hr fb fb' pic hfb)⟩
  | setEncodings c fb pic cr cs =>
    exact ⟨setEncodings_wf scr c cr cs hw, setEncodings_reach (S scr) scr c cr cs hw fb pic⟩
  | copy c fb pic D dx dy hD hsrc =>
    exact ⟨scheduleCopy_wf scr c D dx dy hw hD,
      Reach.single (scheduleCopy_step scr c D dx dy hw hD hsrc fb pic)⟩
  | request c fb pic incr x y w h =>
    exact ⟨request_wf scr c incr x y w h hw, request_reach (S scr) scr c incr x y w h hw fb pic⟩
  | send c fb pic =>
    exact ⟨sendUpdate_wf scr c hw, send_sound scr c fb pic hw⟩
  | update c fb pic =>
    simp only at hw ⊢
    unfold updateClient
    by_cases hp : updatePending scr c = true
    · simp only [hp, if_true]
      exact ⟨sendUpdate_wf scr c hw, send_sound scr c fb pic hw⟩
    · simp only [hp, Bool.false_eq_true, if_false, afterSend]
      exact ⟨hw, Reach.refl _⟩

theorem MReach_sound (scr : Screen) (s t : MState V) (hw : WFc s.c) (h : MReach scr s t) :
    WFc t.c ∧ Reach (S scr) (absS s.c s.fb s.pic) (absS t.c t.fb t.pic) := by
  induction h with
  | refl => exact ⟨hw, Reach.refl _⟩
  | tail _ hstep ih =>
    obtain ⟨w1, r1⟩ := ih
    obtain ⟨w2, r2⟩ := MStep_sound scr _ _ w1 hstep
    exact ⟨w2, Reach.trans r1 r2⟩

/-- **Convergence invariant for the executable model**: after ANY sequence of model operations on
a fresh client (any initial framebuffer and client picture), the regions are well-formed and the
convergence invariant of the specification holds for the pixel sets of the model's regions. -/
theorem model_inv (scr : Screen) (fb0 pic0 : Pix → V) (t : MState V)
    (h : MReach scr ⟨newClient scr, fb0, pic0⟩ t) :
    WFc t.c ∧ Inv (S scr) (absS t.c t.fb t.pic) := by
  obtain ⟨w, r⟩ := MReach_sound scr _ t (newClient_wf scr) h
  refine ⟨w, Inv_reach (S scr) _ _ (Inv_init (S scr) _ ?_) r⟩
  intro p hp
  exact (newClient_M scr p).mpr hp

/-- **When the model's client has nothing pending (`modifiedRegion` and `copyRegion` empty), the
client's picture equals the framebuffer on the whole screen.** -/
theorem model_idle_converged (scr : Screen) (fb0 pic0 : Pix → V) (t : MState V)
    (h : MReach scr ⟨newClient scr, fb0, pic0⟩ t)
    (hM : t.c.M.isEmpty = true) (hC : t.c.C.isEmpty = true) :
    ∀ p, S scr p → t.pic p = t.fb p := by
  obtain ⟨w, hI⟩ := model_inv scr fb0 pic0 t h
  intro p hp
  have h1 : ¬ dset t.c.M p := (isEmpty_dset w.1).mp hM p
  have h2 : ¬ dset t.c.C p := (isEmpty_dset w.2.1).mp hC p
  exact ((hI p hp h1).2 h2).symm

/-- more generally, at any time a screen pixel outside `modifiedRegion` and `copyRegion` is
already correct in the client's picture -/
theorem model_unmodified_current (scr : Screen) (fb0 pic0 : Pix → V) (t : MState V)
    (h : MReach scr ⟨newClient scr, fb0, pic0⟩ t) (p : Pix) (hp : S scr p)
    (hM : ¬ dset t.c.M p) (hC : ¬ dset t.c.C p) : t.pic p = t.fb p :=
  (((model_inv scr fb0 pic0 t h).2 p hp hM).2 hC).symm

end VncModel.Update.Refine
