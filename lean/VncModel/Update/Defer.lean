import VncModel.Update.Model
/-
`rfbUpdateClient` with `deferUpdateTime > 0` (main.c): an update that becomes due is not sent at
once; the first call only records the time (`cl->startDeferring`), later calls send once more than
`deferUpdateTime` milliseconds have passed.  Time is the value `gettimeofday` returns,
(seconds, microseconds); `tv_usec == 0` doubles as the "not deferring" flag in the C code (a clock
reading with `tv_usec == 0` is bumped to 1), the model keeps that encoding.
-/
namespace VncModel.Update

structure Timed where
  c : Client
  /-- cl->startDeferring (tv_sec, tv_usec); usec = 0 ⇔ not deferring -/
  startSec : Int
  startUsec : Int
  deriving Repr

def Timed.fresh (c : Client) : Timed := { c := c, startSec := 0, startUsec := 0 }

/-- the update part of `rfbUpdateClient`; `now` = (tv_sec, tv_usec) of the clock at the call -/
def updateClientTimed (s : Screen) (defer : Int) (now : Int × Int) (t : Timed) : Timed × Option Sent :=
  if !updatePending s t.c then (t, none) else
  if defer = 0 then
    let r := sendUpdate s t.c
    ({ t with c := r.1 }, r.2)
  else if t.startUsec = 0 then
    ({ t with startSec := now.1, startUsec := if now.2 = 0 then 1 else now.2 }, none)
  else if now.1 < t.startSec ∨
      (now.1 - t.startSec) * 1000 + Int.tdiv (now.2 - t.startUsec) 1000 > defer then
    let r := sendUpdate s t.c
    ({ t with c := r.1, startUsec := 0 }, r.2)
  else (t, none)

/-- deferral never changes what is sent, only when: a call either leaves the client's regions
untouched and sends nothing, or behaves exactly like the undeferred `updateClient` -/
theorem updateClientTimed_cases (s : Screen) (defer : Int) (now : Int × Int) (t : Timed) :
    ((updateClientTimed s defer now t).1.c = t.c ∧ (updateClientTimed s defer now t).2 = none) ∨
    ((updateClientTimed s defer now t).1.c = (updateClient s t.c).1 ∧
     (updateClientTimed s defer now t).2 = (updateClient s t.c).2) := by
  unfold updateClientTimed updateClient
  by_cases hp : updatePending s t.c = true
  · simp only [hp, Bool.not_true, Bool.false_eq_true, if_false, if_true]
    by_cases hd : defer = 0
    · simp [hd]
    · simp only [hd, if_false]
      by_cases hs : t.startUsec = 0
      · simp [hs]
      · simp only [hs, if_false]
        split
        · right; simp
        · left; simp
  · simp [hp]

/-- with `deferUpdateTime = 0` it is `updateClient` -/
theorem updateClientTimed_zero (s : Screen) (now : Int × Int) (t : Timed) :
    (updateClientTimed s 0 now t).1.c = (updateClient s t.c).1 ∧
    (updateClientTimed s 0 now t).2 = (updateClient s t.c).2 := by
  unfold updateClientTimed updateClient
  by_cases hp : updatePending s t.c = true <;> simp [hp]

/-- liveness under a fair clock: once deferring, a call made more than `defer` ms later sends -/
theorem updateClientTimed_fires (s : Screen) (defer : Int) (now : Int × Int) (t : Timed)
    (hp : updatePending s t.c = true) (hd : defer ≠ 0) (hs : t.startUsec ≠ 0)
    (hlate : (now.1 - t.startSec) * 1000 + Int.tdiv (now.2 - t.startUsec) 1000 > defer) :
    (updateClientTimed s defer now t).2 = (sendUpdate s t.c).2 := by
  unfold updateClientTimed
  simp [hp, hd, hs, hlate]

end VncModel.Update
