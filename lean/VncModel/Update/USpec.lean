/-
Set-level specification of the server's update scheduling (rfbMarkRectAsModified,
rfbScheduleCopyRegion / rfbDoCopyRegion, the FramebufferUpdateRequest handler and the region
arithmetic at the head of rfbSendFramebufferUpdate), for ONE client.

Pixels are `Int × Int`; regions are predicates on pixels.  `fb` is the server framebuffer, `pic`
the client's picture (what it has after applying everything it received, in order).  `M`, `C`, `R`
are cl->modifiedRegion, cl->copyRegion, cl->requestedRegion as pixel sets, `d` = (copyDX, copyDY).
The executable region-level model (`VncModel/Update/Model.lean`) refines this one.
-/
namespace VncModel.USpec

abbrev Pix := Int × Int
abbrev PSet := Pix → Prop

def psub (p d : Pix) : Pix := (p.1 - d.1, p.2 - d.2)
def padd (p d : Pix) : Pix := (p.1 + d.1, p.2 + d.2)

@[simp] theorem psub_padd (p d : Pix) : psub (padd p d) d = p := by
  simp [psub, padd, Int.add_sub_cancel]
@[simp] theorem padd_psub (p d : Pix) : padd (psub p d) d = p := by
  simp [psub, padd, Int.sub_add_cancel]
@[simp] theorem psub_zero (p : Pix) : psub p (0, 0) = p := by simp [psub]

/-- region translated by `d` (sraRgnOffset): `p ∈ A + d ↔ p − d ∈ A` -/
def shift (A : PSet) (d : Pix) : PSet := fun p => A (psub p d)

structure SState (V : Type) where
  fb : Pix → V
  pic : Pix → V
  M : PSet
  C : PSet
  R : PSet
  d : Pix

variable {V : Type}
open Classical

/-- The convergence invariant: on the screen `S`, every pixel that is not scheduled as modified is
either up to date in the client's picture, or (if a copy is pending for it) equals the client's
picture at the copy source. -/
def Inv (S : PSet) (s : SState V) : Prop :=
  ∀ p, S p → ¬ s.M p →
    (s.C p → s.fb p = s.pic (psub p s.d)) ∧ (¬ s.C p → s.fb p = s.pic p)

/-- copyRegion after `sraRgnSubtract(cl->copyRegion, cl->modifiedRegion)` -/
def sendC1 (s : SState V) : PSet := fun p => s.C p ∧ ¬ s.M p
/-- updateCopyRegion: copyRegion ∩ requested ∩ (requested + d) -/
def sendUC (s : SState V) : PSet := fun p => sendC1 s p ∧ s.R p ∧ s.R (psub p s.d)
/-- updateRegion: ((modified ∩ slice) ∪ copyRegion) ∩ requested, minus updateCopyRegion -/
def sendU0 (s : SState V) (slice : PSet) : PSet :=
  fun p => ((s.M p ∧ slice p) ∨ sendC1 s p) ∧ s.R p ∧ ¬ sendUC s p

/-- Transitions. Every parameter the code leaves to the application / the client / timing is a
universally quantified argument of the constructor, so `Reach` covers all interleavings. -/
inductive Step (S : PSet) : SState V → SState V → Prop
  /-- application draws inside `r` (any new content) and calls rfbMarkRectAsModified; the library
  may add any further pixels `extra` to modifiedRegion (cursor boxes, scaled screens …) -/
  | draw (s : SState V) (r extra : PSet) (fb' : Pix → V)
      (hfb : ∀ p, S p → ¬ r p → fb' p = s.fb p) :
      Step S s { s with fb := fb', M := fun p => s.M p ∨ r p ∨ extra p }
  /-- rfbDoCopyRegion + rfbScheduleCopyRegion for a client WITHOUT CopyRect: the destination is
  simply marked modified -/
  | copyNoCR (s : SState V) (D : PSet) (d' : Pix) (extra : PSet) :
      Step S s { s with fb := fun p => if D p then s.fb (psub p d') else s.fb p,
                        M := fun p => s.M p ∨ D p ∨ extra p }
  /-- rfbDoCopyRegion + rfbScheduleCopyRegion, client with CopyRect, pending copy with another
  offset (or none pending): pending copy becomes modified, new copy is scheduled.
  `D` destination, source `D − d'` inside the screen. -/
  | copyNew (s : SState V) (D : PSet) (d' : Pix) (extra : PSet)
      (hsrc : ∀ p, D p → S (psub p d')) (hoff : s.d ≠ d' ∨ ∀ p, ¬ s.C p) :
      Step S s { s with
        fb := fun p => if D p then s.fb (psub p d') else s.fb p,
        M := fun p => (s.M p ∨ s.C p) ∨ ((s.M (psub p d') ∨ s.C (psub p d')) ∧ D p) ∨ extra p,
        C := D, d := d' }
  /-- same offset as the pending copy: regions are merged; sources of the new copy that are
  destinations of the pending one become modified -/
  | copySame (s : SState V) (D : PSet) (extra : PSet)
      (hsrc : ∀ p, D p → S (psub p s.d)) :
      Step S s { s with
        fb := fun p => if D p then s.fb (psub p s.d) else s.fb p,
        M := fun p =>
          let M1 : PSet := fun q => s.M q ∨ (D (padd q s.d) ∧ s.C q)
          M1 p ∨ (M1 (psub p s.d) ∧ (s.C p ∨ D p)) ∨ extra p,
        C := fun p => s.C p ∨ D p }
  /-- FramebufferUpdateRequest for rectangle `r` (already clipped to the screen) -/
  | request (s : SState V) (incr : Bool) (r : PSet) :
      Step S s { s with
        R := fun p => s.R p ∨ r p,
        M := fun p => s.M p ∨ (incr = false ∧ r p),
        C := fun p => s.C p ∧ ¬ (incr = false ∧ r p) }
  /-- SetEncodings without CopyRect while a copy is pending: the pending copy is turned into
  modified pixels (it will be sent as pixel data) -/
  | dropCopy (s : SState V) (extra : PSet) :
      Step S s { s with M := fun p => s.M p ∨ s.C p ∨ extra p, C := fun _ => False, d := (0, 0) }
  /-- rfbSendFramebufferUpdate that returns early (nothing to send): only copyRegion −= modified -/
  | sendNothing (s : SState V) :
      Step S s { s with C := fun p => s.C p ∧ ¬ s.M p }
  /-- rfbSendFramebufferUpdate sending: `slice` is the progressive slice (everything when
  slicing is off), `extra` pixels added to the raw part (cursor redraw, bounding-box coalescing
  of maxRectsPerUpdate).  CopyRects (applied first, sequentially = simultaneously, see
  `copyrect_order_safe`) then raw pixel data read from the framebuffer. -/
  | send (s : SState V) (slice extra : PSet) :
      Step S s { s with
        pic := fun p => if sendU0 s slice p ∨ extra p then s.fb p
                        else if sendUC s p then s.pic (psub p s.d) else s.pic p,
        M := fun p => (s.M p ∨ sendC1 s p) ∧ ¬ sendU0 s slice p ∧ ¬ sendUC s p,
        C := fun _ => False, R := fun _ => False, d := (0, 0) }

inductive Reach (S : PSet) : SState V → SState V → Prop
  | refl (s) : Reach S s s
  | tail {a b c} : Reach S a b → Step S b c → Reach S a c

end VncModel.USpec
