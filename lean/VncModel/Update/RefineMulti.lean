import VncModel.Update.RefineEnv
/-!
N simultaneous clients of one screen.  The application's operations (draw + mark, copy) reach every
client's bookkeeping at once and change the one shared framebuffer; requests, SetEncodings and
updates are per client; clients come and go; the pointer and the knobs change in between.  Every
client's regions stay well-formed and every client satisfies the convergence invariant — the
clients do not disturb each other because all they share is the framebuffer, which only the
application's operations change, and those are steps of every client's specification.
-/
namespace VncModel.Update.Refine
open VncModel.Rgn VncModel.USpec VncModel.Update VncModel.Update.CopyOrder
open Classical

variable {V : Type}

structure NState (V : Type) where
  scr : Screen
  fb : Pix → V
  cls : List (Client × (Pix → V))      -- each client's bookkeeping and its picture

inductive NStep : NState V → NState V → Prop
  /-- the application draws and reports it: every client's modifiedRegion grows -/
  | mark (st : NState V) (r : Region) (fb' : Pix → V) (hr : r.WF)
      (hfb : ∀ p, S st.scr p → ¬ dset r p → fb' p = st.fb p) :
      NStep st ⟨st.scr, fb', st.cls.map (fun cp => (markRegion cp.1 r, cp.2))⟩
  /-- rfbDoCopyRegion + rfbScheduleCopyRegion for every client -/
  | copy (st : NState V) (D : Region) (dx dy : Int) (hD : D.WF)
      (hsrc : ∀ p, dset D p → S st.scr (psub p (dx, dy))) :
      NStep st ⟨st.scr, fun p => if dset D p then st.fb (psub p (dx, dy)) else st.fb p,
                st.cls.map (fun cp => (scheduleCopy st.scr cp.1 D dx dy, cp.2))⟩
  /-- one client's own step (request, SetEncodings, update, send): the framebuffer stays -/
  | client (scr : Screen) (fb : Pix → V) (pre post : List (Client × (Pix → V)))
      (c : Client) (pic : Pix → V) (c' : Client) (pic' : Pix → V)
      (h : MStep scr ⟨c, fb, pic⟩ ⟨c', fb, pic'⟩) :
      NStep ⟨scr, fb, pre ++ (c, pic) :: post⟩ ⟨scr, fb, pre ++ (c', pic') :: post⟩
  /-- a new client (any initial picture) -/
  | connect (st : NState V) (pic0 : Pix → V) :
      NStep st ⟨st.scr, st.fb, st.cls ++ [(newClient st.scr, pic0)]⟩
  /-- a client leaves -/
  | leave (scr : Screen) (fb : Pix → V) (pre post : List (Client × (Pix → V)))
      (cp : Client × (Pix → V)) :
      NStep ⟨scr, fb, pre ++ cp :: post⟩ ⟨scr, fb, pre ++ post⟩
  /-- pointer moves, cursor and knob changes: anything in the screen but its size -/
  | env (st : NState V) (scr' : Screen) (hw : scr'.width = st.scr.width)
      (hh : scr'.height = st.scr.height) : NStep st ⟨scr', st.fb, st.cls⟩

inductive NReach : NState V → NState V → Prop
  | refl (x) : NReach x x
  | tail {a b c} : NReach a b → NStep b c → NReach a c

/-- what holds for every client at every time -/
def NInv (st : NState V) : Prop :=
  ∀ cp ∈ st.cls, WFc cp.1 ∧ Inv (S st.scr) (absS cp.1 st.fb cp.2)

theorem MStep_inv (scr : Screen) (s t : MState V) (hw : WFc s.c)
    (hI : Inv (S scr) (absS s.c s.fb s.pic)) (h : MStep scr s t) :
    WFc t.c ∧ Inv (S scr) (absS t.c t.fb t.pic) := by
  obtain ⟨w, r⟩ := MStep_sound scr s t hw h
  exact ⟨w, Inv_reach (S scr) _ _ hI r⟩

theorem NStep_inv {a b : NState V} (h : NStep a b) : NInv a → NInv b := by
  cases h with
  | mark st r fb' hr hfb =>
    intro hI cp hcp
    obtain ⟨cp0, h0, rfl⟩ := List.mem_map.mp hcp
    obtain ⟨w, i⟩ := hI cp0 h0
    exact MStep_inv a.scr ⟨cp0.1, a.fb, cp0.2⟩ ⟨markRegion cp0.1 r, fb', cp0.2⟩ w i
      (MStep.mark cp0.1 a.fb cp0.2 r fb' hr hfb)
  | copy st D dx dy hD hsrc =>
    intro hI cp hcp
    obtain ⟨cp0, h0, rfl⟩ := List.mem_map.mp hcp
    obtain ⟨w, i⟩ := hI cp0 h0
    exact MStep_inv a.scr ⟨cp0.1, a.fb, cp0.2⟩ _ w i
      (MStep.copy cp0.1 a.fb cp0.2 D dx dy hD hsrc)
  | client scr fb pre post c pic c' pic' hm =>
    intro hI cp hcp
    rcases List.mem_append.mp hcp with hp | hp
    · exact hI cp (List.mem_append.mpr (Or.inl hp))
    · rcases List.mem_cons.mp hp with rfl | hp
      · obtain ⟨w, i⟩ := hI (c, pic) (List.mem_append.mpr (Or.inr (List.mem_cons_self ..)))
        exact MStep_inv scr ⟨c, fb, pic⟩ ⟨c', fb, pic'⟩ w i hm
      · exact hI cp (List.mem_append.mpr (Or.inr (List.mem_cons_of_mem _ hp)))
  | connect st pic0 =>
    intro hI cp hcp
    rcases List.mem_append.mp hcp with hp | hp
    · exact hI cp hp
    · have : cp = (newClient a.scr, pic0) := by simpa using hp
      subst this
      refine ⟨newClient_wf a.scr, Inv_init (S a.scr) _ ?_⟩
      intro p hp
      exact (newClient_M a.scr p).mpr hp
  | leave scr fb pre post cp0 =>
    intro hI cp hcp
    rcases List.mem_append.mp hcp with hp | hp
    · exact hI cp (List.mem_append.mpr (Or.inl hp))
    · exact hI cp (List.mem_append.mpr (Or.inr (List.mem_cons_of_mem _ hp)))
  | env st scr' hw hh =>
    intro hI cp hcp
    obtain ⟨w, i⟩ := hI cp hcp
    refine ⟨w, ?_⟩
    show Inv (S scr') _
    rw [S_congr a.scr scr' hw hh]
    exact i

/-- **N clients converge**: in every state reachable from a screen without clients, every
connected client's regions are well-formed and its convergence invariant holds -/
theorem multi_inv (scr0 : Screen) (fb0 : Pix → V) (st : NState V)
    (h : NReach ⟨scr0, fb0, []⟩ st) : NInv st := by
  induction h with
  | refl => intro cp hcp; cases hcp
  | tail _ hstep ih => exact NStep_inv hstep ih

theorem multi_idle_converged (scr0 : Screen) (fb0 : Pix → V) (st : NState V)
    (h : NReach ⟨scr0, fb0, []⟩ st) (cp : Client × (Pix → V)) (hcp : cp ∈ st.cls)
    (hM : cp.1.M.isEmpty = true) (hC : cp.1.C.isEmpty = true) :
    ∀ p, S st.scr p → cp.2 p = st.fb p := by
  obtain ⟨w, hI⟩ := multi_inv scr0 fb0 st h cp hcp
  intro p hp
  have h1 : ¬ dset cp.1.M p := (isEmpty_dset w.1).mp hM p
  have h2 : ¬ dset cp.1.C p := (isEmpty_dset w.2.1).mp hC p
  exact ((hI p hp h1).2 h2).symm

end VncModel.Update.Refine
