import VncModel.Region.Model
/-
Executable region-level model of the server's update scheduling for the clients of one screen:

  rfbMarkRectAsModified / rfbMarkRegionAsModified          (main.c)
  rfbScheduleCopyRegion / rfbDoCopyRegion (scheduling half) (main.c)
  rectSwapIfLEAndClip + the rfbFramebufferUpdateRequest case (rfbserver.c, unscaled clients)
  the rfbSetEncodings effects that matter here (useCopyRect, cursor-shape enabling)
  rfbUpdateClient's send condition (FB_UPDATE_PENDING, deferUpdateTime = 0)
  the region arithmetic of rfbSendFramebufferUpdate, the maxRectsPerUpdate rule, the order in
  which rfbSendCopyRegion and the pixel rectangles are emitted.

All region operations are the transliterated ones of `VncModel.Rgn` (C11), so the state after
every operation can be compared *exactly* (rectangle lists) with the implementation.
-/
namespace VncModel.Update
open VncModel.Rgn

structure Cursor where
  w : Int
  h : Int
  xhot : Int
  yhot : Int
  deriving Repr

structure Screen where
  width : Int
  height : Int
  cursor : Cursor          -- screen->cursor geometry
  cursorX : Int            -- screen->cursorX / cursorY (pointer position)
  cursorY : Int
  progSlice : Int          -- progressiveSliceHeight
  maxRects : Int           -- maxRectsPerUpdate
  deriving Repr

structure Client where
  M : Region               -- modifiedRegion
  C : Region               -- copyRegion
  R : Region               -- requestedRegion
  dx : Int
  dy : Int
  useCopyRect : Bool
  cursorShape : Bool       -- enableCursorShapeUpdates
  cursorChanged : Bool     -- cursorWasChanged
  ready : Bool             -- readyForSetColourMapEntries
  cursorX : Int            -- cl->cursorX / cursorY (where the soft cursor was last drawn)
  cursorY : Int
  sliceY : Int             -- progressiveSliceY
  isOpen : Bool
  deriving Repr

/-- rfbNewClient: everything is modified, nothing requested -/
def newClient (s : Screen) : Client :=
  { M := Region.rect 0 0 s.width s.height, C := Region.empty, R := Region.empty, dx := 0, dy := 0,
    useCopyRect := false, cursorShape := false, cursorChanged := false, ready := false,
    cursorX := s.cursorX, cursorY := s.cursorY, sliceY := 0, isOpen := true }

/-- the swap / clip / empty-return prologue of `rfbMarkRectAsModified` -/
def markClip (s : Screen) (x1 y1 x2 y2 : Int) : Option (Int × Int × Int × Int) :=
  let (x1, x2) := if x1 > x2 then (x2, x1) else (x1, x2)
  let x1 := if x1 < 0 then 0 else x1
  let x2 := if x2 > s.width then s.width else x2
  if x1 ≥ x2 then none else
  let (y1, y2) := if y1 > y2 then (y2, y1) else (y1, y2)
  let y1 := if y1 < 0 then 0 else y1
  let y2 := if y2 > s.height then s.height else y2
  if y1 ≥ y2 then none else
  some (x1, y1, x2, y2)

/-- `rfbMarkRegionAsModified` for one client -/
def markRegion (c : Client) (r : Region) : Client := { c with M := c.M.or r }

/-- the cursor rectangle `rfbRedrawAfterHideCursor` adds (to `updateRegion` or modifiedRegion) -/
def cursorBox (s : Screen) (cx cy : Int) : Option Region :=
  let x := cx - s.cursor.xhot
  let y := cy - s.cursor.yhot
  let r := clipRect2 x y (x + s.cursor.w) (y + s.cursor.h) 0 0 s.width s.height
  if r.2.2.2.2 then some (Region.rect r.1 r.2.1 r.2.2.1 r.2.2.2.1) else none

/-- `rfbScheduleCopyRegion` for one client -/
def scheduleCopy (s : Screen) (c : Client) (copyRegion : Region) (dx dy : Int) : Client :=
  if !c.useCopyRect then { c with M := c.M.or copyRegion } else
  -- a copy region not yet executed
  let (m1, c1) :=
    if !c.C.isEmpty then
      if c.dx ≠ dx ∨ c.dy ≠ dy then (c.M.or c.C, Region.empty)
      else
        let bk := ((copyRegion.dup.offset (-dx) (-dy)).and c.C).1
        (c.M.or bk, c.C)
    else (c.M, c.C)
  let c2 := c1.or copyRegion
  -- modified regions which are now copied
  let bk2 := ((m1.dup.offset dx dy).and c2).1
  let m2 := m1.or bk2
  let m3 :=
    if !c.cursorShape then
      let x := c.cursorX - s.cursor.xhot
      let y := c.cursorY - s.cursor.yhot
      let cr1 := ((Region.rect x y (x + s.cursor.w) (y + s.cursor.h)).and c2).1
      let ma := if !cr1.isEmpty then m2.or cr1 else m2
      let cr2 := (((Region.rect x y (x + s.cursor.w) (y + s.cursor.h)).offset dx dy).and c2).1
      if !cr2.isEmpty then ma.or cr2 else ma
    else m2
  { c with M := m3, C := c2, dx := dx, dy := dy }

/-- `rfbSetCursor` for one client: a client without cursor-shape updates gets the rectangle of the
OLD cursor and then of the NEW cursor (both where the cursor is painted for it) marked modified
(`rfbRedrawAfterHideCursor(cl, NULL)` before and after the switch); every client's
`cursorWasChanged` is raised -/
def setCursor (sOld sNew : Screen) (c : Client) : Client :=
  let c1 := if !c.cursorShape then
      (match cursorBox sOld c.cursorX c.cursorY with
       | some r => markRegion c r
       | none => c)
    else c
  let c2 := { c1 with cursorChanged := true }
  if !c.cursorShape then
    (match cursorBox sNew c2.cursorX c2.cursorY with
     | some r => markRegion c2 r
     | none => c2)
  else c2

def u16 (x : Int) : Int := x % 65536

/-- `rectSwapIfLEAndClip` for an unscaled client: fields are uint16_t, comparisons are done in
`int`; returns the clipped (x, y, w, h) or `none` when the function returns FALSE -/
def requestClip (s : Screen) (x y w h : Int) : Option (Int × Int × Int × Int) :=
  let w1 := if w > s.width - x then u16 (s.width - x) else w
  if w1 > s.width - x then none else
  let h1 := if h > s.height - y then u16 (s.height - y) else h
  if h1 > s.height - y then none else
  some (x, y, w1, h1)

/-- the `rfbFramebufferUpdateRequest` case -/
def request (s : Screen) (c : Client) (incr : Bool) (x y w h : Int) : Client :=
  match requestClip s x y w h with
  | none => c
  | some (x, y, w, h) =>
    let tmp := Region.rect x y (x + w) (y + h)
    let c := { c with R := c.R.or tmp, ready := true }
    if !incr then { c with M := c.M.or tmp, C := (c.C.sub tmp).1 } else c

/-- SetEncodings as far as update scheduling is concerned: the flag handling in the loop over
the encodings -/
def setEncodings0 (s : Screen) (c : Client) (copyRect cursorShape : Bool) : Client :=
  -- the cursor box is marked when cursor-shape updates are (re-)enabled
  -- (`if(!cl->enableCursorShapeUpdates) rfbRedrawAfterHideCursor(cl,NULL)` after the flag reset)
  -- and when a client that had them drops them (`hadCursorShapeUpdates && !enable…`)
  let addBox := cursorShape || c.cursorShape
  let m := if addBox then
      (match cursorBox s c.cursorX c.cursorY with
       | some b => c.M.or b
       | none => c.M)
    else c.M
  { c with useCopyRect := copyRect, cursorShape := cursorShape, cursorChanged := cursorShape, M := m }

/-- the tail of the SetEncodings handler: a client that no longer accepts CopyRect gets what is
still scheduled as a copy as pixel data -/
def dropCopy (c : Client) : Client :=
  if !c.useCopyRect && !c.C.isEmpty then
    { c with M := c.M.or c.C, C := Region.empty, dx := 0, dy := 0 }
  else c

/-- the whole `rfbSetEncodings` case as far as update scheduling is concerned -/
def setEncodings (s : Screen) (c : Client) (copyRect cursorShape : Bool) : Client :=
  dropCopy (setEncodings0 s c copyRect cursorShape)

/-- FB_UPDATE_PENDING && !sraRgnEmpty(requestedRegion) (rfbUpdateClient, deferUpdateTime = 0;
NewFBSize and cursor-position updates are not part of this model) -/
def updatePending (s : Screen) (c : Client) : Bool :=
  c.isOpen &&
  ((c.cursorShape && c.cursorChanged) ||
   (!c.cursorShape && (c.cursorX != s.cursorX || c.cursorY != s.cursorY)) ||
   !c.C.isEmpty || !c.M.isEmpty) && !c.R.isEmpty

structure CopyRectMsg where
  x : Int
  y : Int
  w : Int
  h : Int
  srcX : Int
  srcY : Int
  deriving Repr, DecidableEq

structure Sent where
  cursorShape : Bool
  copies : List CopyRectMsg
  raws : List Rect
  deriving Repr

/-- `rfbSendFramebufferUpdate(cl, cl->modifiedRegion)`; `none` = returned before sending anything -/
def sendUpdate (s : Screen) (c : Client) : Client × Option Sent :=
  let sendCursorShape := c.cursorShape && c.cursorChanged && c.ready
  let c1 := (c.C.sub c.M).1
  let upd0 := c.M.dup
  let (upd1, sliceY) :=
    if s.progSlice > 0 then
      let height := s.progSlice
      let y := c.sliceY
      let bb := upd0.bbox
      let (u, y) := match (bb.popRect 0).2 with
        | some rect =>
          let y := if y < rect.y1 ∨ y ≥ rect.y2 then rect.y1 else y
          ((upd0.and (Region.rect 0 y s.width (y + height))).1, y)
        | none => (upd0, y)
      let y := y + height
      (u, if y ≥ s.height then 0 else y)
    else (upd0, c.sliceY)
  let upd2 := upd1.or c1
  let (upd3, nonEmpty) := upd2.and c.R
  if !nonEmpty && upd3.isEmpty &&
     (c.cursorShape || (c.cursorX == s.cursorX && c.cursorY == s.cursorY)) &&
     !sendCursorShape then
    ({ c with C := c1, sliceY := sliceY }, none)
  else
  let uc0 := (c1.dup.and c.R).1
  let uc := (uc0.and (c.R.dup.offset c.dx c.dy)).1
  let upd4 := (upd3.sub uc).1
  let m1 := c.M.or c1
  let m2 := (m1.sub upd4).1
  let m3 := (m2.sub uc).1
  -- soft cursor bookkeeping
  let (upd5, cx, cy) :=
    if !c.cursorShape then
      if c.cursorX ≠ s.cursorX ∨ c.cursorY ≠ s.cursorY then
        let u := match cursorBox s c.cursorX c.cursorY with
          | some b => upd4.or b
          | none => upd4
        let u := match cursorBox s s.cursorX s.cursorY with
          | some b => u.or b
          | none => u
        (u, s.cursorX, s.cursorY)
      else (upd4, c.cursorX, c.cursorY)
    else (upd4, c.cursorX, c.cursorY)
  -- maxRectsPerUpdate (Raw / RRE / Hextile / ZRLE: plain rectangle count)
  let upd6 :=
    if s.maxRects > 0 ∧ (upd5.countRects : Int) > s.maxRects then upd5.bbox else upd5
  let copies := (uc.rects (decide (c.dx > 0)) (decide (c.dy > 0))).map fun r =>
    { x := r.x1, y := r.y1, w := r.x2 - r.x1, h := r.y2 - r.y1,
      srcX := r.x1 - c.dx, srcY := r.y1 - c.dy : CopyRectMsg }
  let raws := upd6.rects false false
  ({ c with M := m3, C := Region.empty, R := Region.empty, dx := 0, dy := 0, sliceY := sliceY,
            cursorX := cx, cursorY := cy,
            cursorChanged := if sendCursorShape then false else c.cursorChanged },
   some { cursorShape := sendCursorShape, copies := copies, raws := raws })

/-- `rfbUpdateClient` -/
def updateClient (s : Screen) (c : Client) : Client × Option Sent :=
  if updatePending s c then sendUpdate s c else (c, none)

end VncModel.Update
