import VncModel.Scale.Model
/-
Session level of the scaling model: the chain of scaled screens with their reference counts and
the clients using them (`rfbNewClient`, `rfbScalingSetup/Find/Allocate`, `rfbClientConnectionGone`,
`rfbScaledScreenUpdate`).  A scaled screen is identified by its dimensions: `rfbScalingFind`
searches by (width,height) starting with the screen itself, and `rfbScaledScreenAllocate` is only
called when the search fails, so dimensions are unique along the chain (`Inv.distinct`).
-/
namespace VncModel.Scale

structure SScreen where
  w : Nat
  h : Nat
  ref : Int          -- scaledScreenRefCount
  img : Img
  deriving Inhabited

structure Client where
  id : Nat
  sw : Nat           -- cl->scaledScreen->width
  sh : Nat           -- cl->scaledScreen->height
  palm : Bool := false     -- cl->PalmVNC
  nfs : Bool := false      -- cl->useNewFBSize
  pending : Bool := false  -- cl->newFBSizePending
  deriving Inhabited

structure Srv where
  fmt : Fmt
  main : SScreen                 -- the screen itself; `img` is the framebuffer
  chain : List SScreen           -- screen->scaledScreenNext, ->scaledScreenNext, ...
  clients : List Client
  deriving Inhabited

inductive Op where
  | join (id : Nat) (nfs : Bool)
  | setScale (id : Nat) (palm : Bool) (n : Nat)     -- n = 0: the connection is closed
  | leave (id : Nat)
  | modify (r : Rect)                               -- rfbMarkRectAsModified on a clipped, non-empty rect
  deriving Inhabited

def isMain (s : Srv) (w h : Nat) : Bool := s.main.w == w && s.main.h == h

/-- rfbScalingFind: the screen itself first, then the chain -/
def findChain (c : List SScreen) (w h : Nat) : Option SScreen :=
  c.find? fun p => p.w == w && p.h == h

/-- add `d` to the reference count of the screen with dimensions `(w,h)` -/
def bumpChain (c : List SScreen) (w h : Nat) (d : Int) : List SScreen :=
  c.map fun p => if p.w == w && p.h == h then { p with ref := p.ref + d } else p

def bump (s : Srv) (w h : Nat) (d : Int) : Srv :=
  if isMain s w h then { s with main := { s.main with ref := s.main.ref + d } }
  else { s with chain := bumpChain s.chain w h d }

def fullRect (s : Srv) : Rect := ⟨0, 0, s.main.w, s.main.h⟩

/-- refresh the whole scaled copy `(w,h)` from the framebuffer -/
def refreshChain (s : Srv) (w h : Nat) : List SScreen :=
  s.chain.map fun p =>
    if p.w == w && p.h == h then { p with img := updateRect s.fmt s.main.img p.img (fullRect s) } else p

/-- rfbScaledScreenAllocate: `none` = allocation refused (a dimension is 0) -/
def allocate (s : Srv) (w h : Nat) : Option Srv :=
  if w = 0 ∨ h = 0 then none else
  let blank : Img := Img.tabulate w h fun _ _ => 0
  let p : SScreen := ⟨w, h, 0, updateRect s.fmt s.main.img blank (fullRect s)⟩
  some { s with chain := p :: s.chain }

def refOf (s : Srv) (w h : Nat) : Int :=
  if isMain s w h then s.main.ref else
  match findChain s.chain w h with
  | some p => p.ref
  | none => 0

def setClient (cs : List Client) (id : Nat) (f : Client → Client) : List Client :=
  cs.map fun c => if c.id == id then f c else c

/-- rfbScalingSetup(cl, w, h) for an existing client `c` -/
def scalingSetup (s : Srv) (c : Client) (w h : Nat) : Srv :=
  let found := isMain s w h || (findChain s.chain w h).isSome
  match (if found then some s else allocate s w h) with
  | none => s                                   -- "Scaling to %dx%d failed, leaving things alone"
  | some s1 =>
    -- if (ptr->scaledScreenRefCount<1) refresh it (it was not kept up to date while unused)
    let s2 := if !isMain s1 w h && refOf s1 w h < 1 then { s1 with chain := refreshChain s1 w h } else s1
    let s3 := bump s2 c.sw c.sh (-1)
    let s4 := bump s3 w h 1
    { s4 with clients := setClient s4.clients c.id fun c => { c with sw := w, sh := h, pending := true } }

/-- rfbClientConnectionGone for client `c` (id `id`): its screen loses a reference -/
def removeClient (s : Srv) (c : Client) (id : Nat) : Srv :=
  let s1 := bump s c.sw c.sh (-1)
  { s1 with clients := s1.clients.filter (·.id != id) }

/-- rfbNewClient: `cl->scaledScreen = screen; screen->scaledScreenRefCount++` -/
def addClient (s : Srv) (id : Nat) (nfs : Bool) : Srv :=
  let s1 := bump s s.main.w s.main.h 1
  { s1 with clients := s1.clients ++ [{ id := id, sw := s.main.w, sh := s.main.h, nfs := nfs }] }

/-- `cl->PalmVNC = TRUE` is set before the message is even read -/
def setPalm (s : Srv) (id : Nat) (palm : Bool) : Srv :=
  if palm then { s with clients := setClient s.clients id fun c => { c with palm := true } } else s

/-- the rfbSetScale / rfbPalmVNCSetScaleFactor case after the variant flag has been set -/
def setScaleCore (s0 : Srv) (id n : Nat) : Srv :=
  match s0.clients.find? (·.id == id) with
  | none => s0
  | some c =>
    if n = 0 then removeClient s0 c id      -- refused: rfbCloseClient, the client is reaped
    else scalingSetup s0 c (s0.main.w / n) (s0.main.h / n)

def step (s : Srv) : Op → Srv
  | .join id nfs => if s.clients.any (·.id == id) then s else addClient s id nfs
  | .setScale id palm n => setScaleCore (setPalm s id palm) id n
  | .leave id =>
    match s.clients.find? (·.id == id) with
    | none => s
    | some c => removeClient s c id
  | .modify r =>
    -- rfbScaledScreenUpdate: every scaled copy with active clients is refreshed on the rectangle
    { s with chain := s.chain.map fun p =>
        if p.ref > 0 then { p with img := updateRect s.fmt s.main.img p.img r } else p }

def run (s : Srv) (ops : List Op) : Srv := ops.foldl step s

def init (f : Fmt) (fb : Img) : Srv := ⟨f, ⟨fb.w, fb.h, 0, fb⟩, [], []⟩

/-- rfbScaledScreensNewFramebuffer (called by rfbNewFramebuffer, property C16): one dimension of a
scaled screen is recomputed with the same reduction, `ptr->width * screen->width / oldWidth`, but
never below 1 -/
def resizeDim (t oldW newW : Nat) : Nat := max 1 (t * newW / oldW)

/-- number of clients using the screen of dimensions `(w,h)` -/
def users (cs : List Client) (w h : Nat) : Nat := cs.countP fun c => c.sw == w && c.sh == h

end VncModel.Scale
