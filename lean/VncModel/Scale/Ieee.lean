import Mathlib.Tactic.Linarith
import Mathlib.Tactic.Positivity
import Mathlib.Tactic.FieldSimp
import Mathlib.Tactic.Ring
import Mathlib.Tactic.NormNum
import Mathlib.Algebra.Order.Field.Basic
import Mathlib.Algebra.Order.Field.Rat
import VncModel.Scale.Converge
/-
The IEEE half of the C17 assumption that IS provable: the software-float model `corrRaw` of the
double arithmetic in rfbScaledCorrection satisfies the relational bounds `CorrRel` for all 16-bit
operands (`corrRaw_sound : CorrRawSound`).  Proof file: uses ℚ, linarith/nlinarith/field_simp from
Mathlib (single modules).  The model files and the driver do not depend on this file.

Structure: `rne_err` (one rounding has relative error ≤ 2⁻⁵³ for values < 2⁵¹), `f*_err` (each
operation = exact result rounded once), `ffloor_spec`/`fceil_spec`, `abstract_corr` (error
analysis over ℚ: total absolute error < 2⁻³⁰ < 1/fw, so FLOOR/CEIL can only be off by one when the
exact value is an integer), `corrRaw_sound`.
-/
namespace VncModel.Scale

/-- exact value of a software double -/
def Dy.val (a : Dy) : ℚ := (a.frac.1 : ℚ) / (a.frac.2 : ℚ)

theorem frac2_pos (a : Dy) : 0 < a.frac.2 := by
  unfold Dy.frac
  split
  · exact Nat.one_pos
  · rw [Nat.shiftLeft_eq, Nat.one_mul]; exact Nat.two_pow_pos _

theorem val_nonneg (a : Dy) : 0 ≤ a.val := by
  unfold Dy.val; positivity

theorem val_ofNat (n : Nat) : (Dy.ofNat n).val = n := by
  simp [Dy.val, Dy.ofNat, Dy.frac]

theorem frac_ofNat (n : Nat) : (Dy.ofNat n).frac = (n, 1) := by
  simp [Dy.ofNat, Dy.frac]

/-- value of `⟨q, -s⟩` for a natural `s` -/
theorem val_mk_neg (q s : Nat) : (Dy.val ⟨q, -(s : Int)⟩) = (q : ℚ) / 2 ^ s := by
  unfold Dy.val Dy.frac
  by_cases hs : s = 0
  · subst hs; simp
  · have : ¬ (-(s : Int) ≥ 0) := by omega
    simp only [this, if_false]
    simp [Nat.shiftLeft_eq]

/-- the rounding step: `q' = q` or `q+1` chosen by the remainder is within 1/2 of `n/d` -/
theorem round_step (n d : Nat) (hd : 0 < d) :
    let q := n / d
    let r := n % d
    let q' := if 2 * r > d ∨ (2 * r = d ∧ q % 2 = 1) then q + 1 else q
    |(q' : ℚ) - (n : ℚ) / d| ≤ 1 / 2 ∧ ((n / d : Nat) : ℚ) ≤ (n : ℚ) / d := by
  intro q r q'
  have hdq : (0 : ℚ) < d := by exact_mod_cast hd
  have hn : (n : ℚ) = (q : ℚ) * d + r := by
    have h2 : n = q * d + r := by
      have := Nat.div_add_mod n d
      show n = n / d * d + n % d
      rw [Nat.mul_comm]; omega
    exact_mod_cast h2
  have hr : (r : ℚ) < d := by exact_mod_cast Nat.mod_lt n hd
  have hr0 : (0 : ℚ) ≤ r := by positivity
  have e : (n : ℚ) / d = q + (r : ℚ) / d := by
    rw [hn]; field_simp
  have hfrac0 : 0 ≤ (r : ℚ) / d := by positivity
  have hfrac1 : (r : ℚ) / d < 1 := by rw [div_lt_one hdq]; exact hr
  refine ⟨?_, by rw [e]; linarith⟩
  rw [e, abs_le]
  by_cases hc : 2 * r > d ∨ (2 * r = d ∧ q % 2 = 1)
  · have hq' : q' = q + 1 := by simp [q', hc]
    rw [hq']
    have h2 : (d : ℚ) ≤ 2 * r := by
      rcases hc with h | ⟨h, _⟩
      · exact_mod_cast Nat.le_of_lt h
      · exact_mod_cast (Nat.le_of_eq h.symm)
    have : (1 : ℚ) / 2 ≤ (r : ℚ) / d := by
      rw [div_le_div_iff₀ (by norm_num) hdq]; linarith
    push_cast
    constructor <;> linarith
  · have hq' : q' = q := by simp [q', hc]
    rw [hq']
    have h2 : (2 : ℚ) * r ≤ d := by
      have : 2 * r ≤ d := by
        by_contra hcon
        apply hc; left; omega
      exact_mod_cast this
    have : (r : ℚ) / d ≤ 1 / 2 := by
      rw [div_le_div_iff₀ hdq (by norm_num)]; linarith
    constructor <;> linarith

theorem scaledDivRem_nat (n d s : Nat) :
    scaledDivRem n d (s : Int) = (n * 2 ^ s / d, n * 2 ^ s % d, d) := by
  unfold scaledDivRem
  have : ((s : Int) ≥ 0) := by omega
  simp [this, Nat.shiftLeft_eq]

theorem rne_spec (num den : Nat) (hn : 0 < num) (hd : 0 < den) (hlt : num < den * 2 ^ 51) :
    ∃ (s q' : Nat), rne num den = ⟨q', -(s : Int)⟩ ∧
      |(q' : ℚ) - (num : ℚ) * 2 ^ s / den| ≤ 1 / 2 ∧ (2 : ℚ) ^ 52 ≤ (num : ℚ) * 2 ^ s / den := by
  have h1 : 2 ^ num.log2 ≤ num := Nat.log2_self_le (by omega)
  have h2 : den < 2 ^ (den.log2 + 1) := Nat.lt_log2_self
  have hl : num.log2 ≤ den.log2 + 51 := by
    have : 2 ^ num.log2 < 2 ^ (den.log2 + 52) := by
      calc 2 ^ num.log2 ≤ num := h1
        _ < den * 2 ^ 51 := hlt
        _ < 2 ^ (den.log2 + 1) * 2 ^ 51 := Nat.mul_lt_mul_of_pos_right h2 (Nat.two_pow_pos _)
        _ = 2 ^ (den.log2 + 52) := by rw [← Nat.pow_add]
    have := (Nat.pow_lt_pow_iff_right (by norm_num : 1 < 2)).mp this
    omega
  obtain ⟨s0, hs0⟩ : ∃ s0 : Nat, s0 + num.log2 = 52 + den.log2 := ⟨52 + den.log2 - num.log2, by omega⟩
  have hs0i : (52 : Int) - ((num.log2 : Int) - (den.log2 : Int)) = (s0 : Int) := by omega
  -- lower bound for the doubled scale
  have hlow : 2 ^ 52 * den ≤ num * 2 ^ (s0 + 1) := by
    have : 2 ^ 52 * den ≤ 2 ^ 52 * 2 ^ (den.log2 + 1) := Nat.mul_le_mul_left _ (Nat.le_of_lt h2)
    have e : 2 ^ 52 * 2 ^ (den.log2 + 1) = 2 ^ num.log2 * 2 ^ (s0 + 1) := by
      rw [← Nat.pow_add, ← Nat.pow_add]; congr 1; omega
    calc 2 ^ 52 * den ≤ 2 ^ num.log2 * 2 ^ (s0 + 1) := by rw [← e]; exact this
      _ ≤ num * 2 ^ (s0 + 1) := Nat.mul_le_mul_right _ h1
  have key : ∀ s : Nat, 2 ^ 52 * den ≤ num * 2 ^ s →
      ∃ q' : Nat, (let (q, r, d) := scaledDivRem num den (s : Int)
        let q' := if 2 * r > d ∨ (2 * r = d ∧ q % 2 = 1) then q + 1 else q
        (⟨q', -(s : Int)⟩ : Dy)) = ⟨q', -(s : Int)⟩ ∧
      |(q' : ℚ) - (num : ℚ) * 2 ^ s / den| ≤ 1 / 2 ∧ (2 : ℚ) ^ 52 ≤ (num : ℚ) * 2 ^ s / den := by
    intro s hs
    rw [scaledDivRem_nat]
    have rs := round_step (num * 2 ^ s) den hd
    simp only at rs
    refine ⟨_, rfl, ?_, ?_⟩
    · have := rs.1
      rw [Nat.cast_mul, Nat.cast_pow, Nat.cast_ofNat] at this
      exact this
    · have hdq : (0 : ℚ) < den := by exact_mod_cast hd
      rw [le_div_iff₀ hdq]
      exact_mod_cast hs
  unfold rne
  rw [if_neg (by omega)]
  simp only [hs0i]
  by_cases hq : (scaledDivRem num den (s0 : Int)).1 < 2 ^ 52
  · simp only [hq, if_true]
    obtain ⟨q', e, b1, b2⟩ := key (s0 + 1) hlow
    refine ⟨s0 + 1, q', ?_, b1, b2⟩
    have : ((s0 : Int) + 1) = ((s0 + 1 : Nat) : Int) := by push_cast; rfl
    rw [this]; exact e
  · simp only [hq, if_false]
    have hge : 2 ^ 52 * den ≤ num * 2 ^ s0 := by
      rw [scaledDivRem_nat] at hq
      simp only at hq
      have : 2 ^ 52 ≤ num * 2 ^ s0 / den := by omega
      exact (Nat.le_div_iff_mul_le hd).mp this
    obtain ⟨q', e, b1, b2⟩ := key s0 hge
    exact ⟨s0, q', e, b1, b2⟩

/-- relative error of one rounding: `ε = 2⁻⁵³` -/
theorem rne_err (num den : Nat) (hd : 0 < den) (hlt : num < den * 2 ^ 51) :
    |(rne num den).val - (num : ℚ) / den| ≤ ((num : ℚ) / den) / 2 ^ 53 := by
  rcases Nat.eq_zero_or_pos num with h0 | hn
  · subst h0; simp [rne, Dy.val, Dy.frac]
  · obtain ⟨s, q', e, b1, b2⟩ := rne_spec num den hn hd hlt
    rw [e, val_mk_neg]
    have hdq : (0 : ℚ) < den := by exact_mod_cast hd
    have hp : (0 : ℚ) < 2 ^ s := by positivity
    have e1 : (q' : ℚ) / 2 ^ s - (num : ℚ) / den = ((q' : ℚ) - (num : ℚ) * 2 ^ s / den) / 2 ^ s := by
      field_simp
    rw [e1, abs_div, abs_of_pos hp, div_le_iff₀ hp]
    have e2 : (num : ℚ) / den / 2 ^ 53 * 2 ^ s = ((num : ℚ) * 2 ^ s / den) / 2 ^ 53 := by
      field_simp
    rw [e2]
    have : (1 : ℚ) / 2 ≤ ((num : ℚ) * 2 ^ s / den) / 2 ^ 53 := by
      rw [le_div_iff₀ (by positivity)]
      have : (1 : ℚ) / 2 * 2 ^ 53 = 2 ^ 52 := by norm_num
      rw [this]; exact b2
    linarith

theorem op_err (N D : Nat) (hD : 0 < D) (v : ℚ) (hv : (N : ℚ) / D = v) (hb : v < 2 ^ 51) :
    |(rne N D).val - v| ≤ v / 2 ^ 53 := by
  have hDq : (0 : ℚ) < D := by exact_mod_cast hD
  have hlt : N < D * 2 ^ 51 := by
    rw [← hv, div_lt_iff₀ hDq] at hb
    have : (N : ℚ) < ((D * 2 ^ 51 : Nat) : ℚ) := by push_cast; linarith
    exact_mod_cast this
  have := rne_err N D hD hlt
  rw [hv] at this; exact this

theorem fdiv_err (a b : Dy) (hb : 0 < b.frac.1) (hlt : a.val / b.val < 2 ^ 51) :
    |(fdiv a b).val - a.val / b.val| ≤ (a.val / b.val) / 2 ^ 53 := by
  unfold fdiv
  apply op_err _ _ (Nat.mul_pos (frac2_pos a) hb) _ _ hlt
  have h1 : (0 : ℚ) < a.frac.2 := by exact_mod_cast frac2_pos a
  have h2 : (0 : ℚ) < b.frac.2 := by exact_mod_cast frac2_pos b
  have h3 : (0 : ℚ) < b.frac.1 := by exact_mod_cast hb
  unfold Dy.val; push_cast; field_simp

theorem fmul_err (a b : Dy) (hlt : a.val * b.val < 2 ^ 51) :
    |(fmul a b).val - a.val * b.val| ≤ (a.val * b.val) / 2 ^ 53 := by
  unfold fmul
  apply op_err _ _ (Nat.mul_pos (frac2_pos a) (frac2_pos b)) _ _ hlt
  have h1 : (0 : ℚ) < a.frac.2 := by exact_mod_cast frac2_pos a
  have h2 : (0 : ℚ) < b.frac.2 := by exact_mod_cast frac2_pos b
  unfold Dy.val; push_cast; field_simp

theorem fadd_err (a b : Dy) (hlt : a.val + b.val < 2 ^ 51) :
    |(fadd a b).val - (a.val + b.val)| ≤ (a.val + b.val) / 2 ^ 53 := by
  unfold fadd
  apply op_err _ _ (Nat.mul_pos (frac2_pos a) (frac2_pos b)) _ _ hlt
  have h1 : (0 : ℚ) < a.frac.2 := by exact_mod_cast frac2_pos a
  have h2 : (0 : ℚ) < b.frac.2 := by exact_mod_cast frac2_pos b
  unfold Dy.val; push_cast; field_simp

theorem fsub_err (a b : Dy) (hle : b.val ≤ a.val) (hlt : a.val - b.val < 2 ^ 51) :
    |(fsub a b).val - (a.val - b.val)| ≤ (a.val - b.val) / 2 ^ 53 := by
  unfold fsub
  have h1 : (0 : ℚ) < a.frac.2 := by exact_mod_cast frac2_pos a
  have h2 : (0 : ℚ) < b.frac.2 := by exact_mod_cast frac2_pos b
  have hnat : b.frac.1 * a.frac.2 ≤ a.frac.1 * b.frac.2 := by
    unfold Dy.val at hle
    rw [div_le_div_iff₀ h2 h1] at hle
    exact_mod_cast hle
  apply op_err _ _ (Nat.mul_pos (frac2_pos a) (frac2_pos b)) _ _ hlt
  unfold Dy.val
  rw [Nat.cast_sub hnat]; push_cast; field_simp

theorem ffloor_spec (a : Dy) : (ffloor a : ℚ) ≤ a.val ∧ a.val < ffloor a + 1 := by
  unfold ffloor Dy.val
  have h2 : (0 : ℚ) < a.frac.2 := by exact_mod_cast frac2_pos a
  have hp := frac2_pos a
  constructor
  · rw [le_div_iff₀ h2]
    exact_mod_cast Nat.div_mul_le_self a.frac.1 a.frac.2
  · rw [div_lt_iff₀ h2]
    have := Nat.lt_mul_div_succ a.frac.1 hp
    have h : a.frac.1 < (a.frac.1 / a.frac.2 + 1) * a.frac.2 := by rw [Nat.mul_comm]; exact this
    exact_mod_cast h

theorem fceil_spec (a : Dy) : a.val ≤ fceil a ∧ (fceil a : ℚ) < a.val + 1 := by
  have hf := ffloor_spec a
  unfold ffloor at hf
  unfold fceil
  have h2 : (0 : ℚ) < a.frac.2 := by exact_mod_cast frac2_pos a
  split
  · rename_i hz
    have : a.val = (a.frac.1 / a.frac.2 : Nat) := by
      unfold Dy.val
      rw [div_eq_iff (ne_of_gt h2)]
      have := Nat.div_add_mod a.frac.1 a.frac.2
      rw [hz, Nat.add_zero, Nat.mul_comm] at this
      exact_mod_cast this.symm
    rw [this]; constructor <;> linarith
  · rename_i hz
    push_cast
    constructor
    · linarith [hf.2]
    · -- strict: the value is not an integer
      have hlt : (a.frac.1 / a.frac.2 : Nat) * a.frac.2 < a.frac.1 := by
        have := Nat.div_add_mod a.frac.1 a.frac.2
        have hpos : 0 < a.frac.1 % a.frac.2 := Nat.pos_of_ne_zero hz
        rw [Nat.mul_comm] at this; omega
      have : ((a.frac.1 / a.frac.2 : Nat) : ℚ) < a.val := by
        unfold Dy.val
        rw [lt_div_iff₀ h2]
        exact_mod_cast hlt
      linarith

theorem prod_bounds (x : Nat) (r sc : ℚ) (hx : x ≤ 65535) (hr0 : 0 < r) (hr1 : r ≤ 1)
    (hsc : |sc - r| ≤ r / 2 ^ 53) :
    0 ≤ (x : ℚ) * r ∧ (x : ℚ) * r ≤ 65535 ∧ (x : ℚ) * sc ≤ x * r + x * r / 2 ^ 53 ∧
    (x : ℚ) * r - x * r / 2 ^ 53 ≤ x * sc := by
  have hx0 : (0 : ℚ) ≤ x := by positivity
  have hxb : (x : ℚ) ≤ 65535 := by exact_mod_cast hx
  obtain ⟨lo, hi⟩ := abs_le.mp hsc
  refine ⟨by positivity, by nlinarith, ?_, ?_⟩
  · have := mul_le_mul_of_nonneg_left (show sc ≤ r + r / 2 ^ 53 by linarith only [hi]) hx0
    linarith only [this, show (x : ℚ) * (r + r / 2 ^ 53) = x * r + x * r / 2 ^ 53 by ring]
  · have := mul_le_mul_of_nonneg_left (show r - r / 2 ^ 53 ≤ sc by linarith only [lo]) hx0
    linarith only [this, show (x : ℚ) * (r - r / 2 ^ 53) = x * r - x * r / 2 ^ 53 by ring]

theorem rel2 (a P Q : ℚ) (_hQ0 : 0 ≤ Q) (hQ1 : Q ≤ 65535)
    (h : |a - P| ≤ P / 2 ^ 53)
    (hPhi : P ≤ Q + Q / 2 ^ 53) (hPlo : Q - Q / 2 ^ 53 ≤ P) :
    a ≤ Q + 1 / 2 ^ 35 ∧ Q - 1 / 2 ^ 35 ≤ a := by
  obtain ⟨lo, hi⟩ := abs_le.mp h
  constructor
  · linarith only [hi, hPhi, hQ1, _hQ0]
  · linarith only [lo, hPlo, hPhi, hQ1, _hQ0]

theorem tbound (t w1 d x1 q Q' Q : ℚ)
    (hw1 : w1 ≤ Q' + 1 / 2 ^ 35 ∧ Q' - 1 / 2 ^ 35 ≤ w1)
    (hx1 : x1 ≤ Q + 1 / 2 ^ 35 ∧ Q - 1 / 2 ^ 35 ≤ x1)
    (hQ'0 : 0 ≤ Q') (hQ'1 : Q' ≤ 65535)
    (hfr0 : 0 ≤ x1 - q) (hfr1 : x1 - q < 1)
    (hd : |d - (x1 - q)| ≤ (x1 - q) / 2 ^ 53)
    (ht : |t - (w1 + d)| ≤ (w1 + d) / 2 ^ 53) :
    t ≤ Q' + Q - q + 1 / 2 ^ 30 ∧ Q' + Q - q - 1 / 2 ^ 30 ≤ t := by
  obtain ⟨d_lo, d_hi⟩ := abs_le.mp hd
  obtain ⟨t_lo, t_hi⟩ := abs_le.mp ht
  have hd_hi : d ≤ (x1 - q) + 1 / 2 ^ 53 := by linarith only [d_hi, hfr1]
  have hd_lo : (x1 - q) - 1 / 2 ^ 53 ≤ d := by linarith only [d_lo, hfr1]
  have hsum_hi : w1 + d ≤ 65537 := by linarith only [hw1.1, hd_hi, hfr1, hQ'1]
  have hsum_lo : -1 ≤ w1 + d := by linarith only [hw1.2, hd_lo, hfr0, hQ'0]
  constructor
  · linarith only [t_hi, hsum_hi, hw1.1, hd_hi, hx1.1]
  · linarith only [t_lo, hsum_hi, hsum_lo, hw1.2, hd_lo, hx1.2]

/-- from a rational bound with slack < 1/fw to the integer inequality -/
theorem int_le_of_slack (A B fw : Nat) (a b : ℚ) (hfw : 0 < fw) (hfwb : fw ≤ 65535)
    (ha : a * fw = A) (hb : b * fw = B) (h : a ≤ b + 1 / 2 ^ 30) : A ≤ B := by
  have hfwq : (0 : ℚ) < fw := by exact_mod_cast hfw
  have hfwb' : (fw : ℚ) ≤ 65535 := by exact_mod_cast hfwb
  have h1 : a * fw ≤ (b + 1 / 2 ^ 30) * fw := mul_le_mul_of_nonneg_right h (le_of_lt hfwq)
  have h2 : (A : ℚ) < B + 1 := by
    rw [add_mul, ha, hb] at h1
    have : (1 : ℚ) / 2 ^ 30 * fw ≤ 1 / 2 ^ 30 * 65535 :=
      mul_le_mul_of_nonneg_left hfwb' (by positivity)
    have h3 : (1 : ℚ) / 2 ^ 30 * 65535 < 1 := by norm_num
    linarith only [h1, this, h3]
  have : A < B + 1 := by exact_mod_cast h2
  omega

/-- the error analysis: whatever the roundings do within relative error 2⁻⁵³, FLOOR / CEIL land
within the relational bounds -/
theorem abstract_corr (fw tw x w x2 w2 : Nat) (sc x1 w1 d t : ℚ)
    (htw : 0 < tw) (hle : tw ≤ fw) (hfw : fw < 65536) (hw : 1 ≤ w) (hxw : x + w ≤ fw)
    (hsc : |sc - (tw : ℚ) / fw| ≤ ((tw : ℚ) / fw) / 2 ^ 53)
    (hx1 : |x1 - x * sc| ≤ (x * sc) / 2 ^ 53)
    (hw1 : |w1 - w * sc| ≤ (w * sc) / 2 ^ 53)
    (hfl : (x2 : ℚ) ≤ x1 ∧ x1 < x2 + 1)
    (hd : |d - (x1 - x2)| ≤ (x1 - x2) / 2 ^ 53)
    (ht : |t - (w1 + d)| ≤ (w1 + d) / 2 ^ 53)
    (hce : t ≤ w2 ∧ (w2 : ℚ) < t + 1) :
    CorrRel fw tw x w (x2, w2) := by
  have hfw0 : 0 < fw := by omega
  have hfwq : (0 : ℚ) < fw := by exact_mod_cast hfw0
  have hfwb : fw ≤ 65535 := by omega
  have htwq : (0 : ℚ) < tw := by exact_mod_cast htw
  have hr0 : 0 < (tw : ℚ) / fw := by positivity
  have hr1 : (tw : ℚ) / fw ≤ 1 := by
    rw [div_le_one hfwq]; exact_mod_cast hle
  obtain ⟨hQ0, hQ1, hP_hi, hP_lo⟩ := prod_bounds x _ sc (by omega) hr0 hr1 hsc
  obtain ⟨hQ'0, hQ'1, hP'_hi, hP'_lo⟩ := prod_bounds w _ sc (by omega) hr0 hr1 hsc
  have bx1 := rel2 x1 _ _ hQ0 hQ1 hx1 hP_hi hP_lo
  have bw1 := rel2 w1 _ _ hQ'0 hQ'1 hw1 hP'_hi hP'_lo
  have hfr0 : 0 ≤ x1 - x2 := by linarith only [hfl.1]
  have hfr1 : x1 - x2 < 1 := by linarith only [hfl.2]
  have bt := tbound t w1 d x1 x2 _ _ bw1 bx1 hQ'0 hQ'1 hfr0 hfr1 hd ht
  have eQ : (x : ℚ) * ((tw : ℚ) / fw) * fw = ((x * tw : Nat) : ℚ) := by push_cast; field_simp
  have eQ' : (w : ℚ) * ((tw : ℚ) / fw) * fw = ((w * tw : Nat) : ℚ) := by push_cast; field_simp
  refine ⟨?_, ?_, ?_, ?_⟩
  · -- x2 * fw ≤ x * tw
    exact int_le_of_slack (x2 * fw) (x * tw) fw x2 _ hfw0 hfwb (by push_cast; ring) eQ
      (by linarith only [hfl.1, bx1.1])
  · -- x * tw ≤ (x2 + 1) * fw
    exact int_le_of_slack (x * tw) ((x2 + 1) * fw) fw _ ((x2 : ℚ) + 1) hfw0 hfwb eQ (by push_cast; ring)
      (by linarith only [hfl.2, bx1.2])
  · -- (x + w) * tw ≤ (x2 + w2) * fw
    exact int_le_of_slack ((x + w) * tw) ((x2 + w2) * fw) fw
      ((x : ℚ) * ((tw : ℚ) / fw) + (w : ℚ) * ((tw : ℚ) / fw)) ((x2 : ℚ) + w2) hfw0 hfwb
      (by rw [add_mul, eQ, eQ']; push_cast; ring) (by push_cast; ring)
      (by linarith only [hce.1, bt.2])
  · -- (x2 + w2) * fw < (x + w) * tw + 2 * fw
    have := int_le_of_slack ((x2 + w2) * fw) ((x + w) * tw + fw) fw ((x2 : ℚ) + w2)
      ((x : ℚ) * ((tw : ℚ) / fw) + (w : ℚ) * ((tw : ℚ) / fw) + 1) hfw0 hfwb
      (by push_cast; ring) (by rw [add_mul, add_mul, eQ, eQ']; push_cast; ring)
      (by linarith only [hce.2, bt.1])
    show (x2 + w2) * fw < (x + w) * tw + 2 * fw
    omega

/-- crude magnitude bound from a relative error bound -/
theorem le_two_mul_of_rel (a v : ℚ) (hv : 0 ≤ v) (h : |a - v| ≤ v / 2 ^ 53) : a ≤ 2 * v ∧ 0 ≤ a := by
  obtain ⟨lo, hi⟩ := abs_le.mp h
  constructor
  · linarith only [hi, hv]
  · linarith only [lo, hv]

/-- **corrRaw_sound**: the software-float evaluation of rfbScaledCorrection's double arithmetic
satisfies the relational bounds for all 16-bit sizes (down-scaling, non-empty rectangle inside the
source screen) -/
theorem corrRaw_sound : CorrRawSound := by
  intro fw tw x w htw hle hfw hw hxw
  have hfw0 : 0 < fw := by omega
  have hfwq : (0 : ℚ) < fw := by exact_mod_cast hfw0
  have htwq : (0 : ℚ) < tw := by exact_mod_cast htw
  have hr0 : 0 < (tw : ℚ) / fw := by positivity
  have hr1 : (tw : ℚ) / fw ≤ 1 := by
    rw [div_le_one hfwq]; exact_mod_cast hle
  have hxb : (x : ℚ) ≤ 65535 := by exact_mod_cast (by omega : x ≤ 65535)
  have hwb : (w : ℚ) ≤ 65535 := by exact_mod_cast (by omega : w ≤ 65535)
  have hx0 : (0 : ℚ) ≤ x := by positivity
  have hw0 : (0 : ℚ) ≤ w := by positivity
  -- scale
  have hsc := fdiv_err (Dy.ofNat tw) (Dy.ofNat fw) (by rw [frac_ofNat]; exact hfw0)
    (by rw [val_ofNat, val_ofNat]; linarith only [hr1, show (1 : ℚ) < 2 ^ 51 by norm_num])
  rw [val_ofNat, val_ofNat] at hsc
  obtain ⟨sc2, sc0⟩ := le_two_mul_of_rel _ _ (le_of_lt hr0) hsc
  have scb : (fdiv (Dy.ofNat tw) (Dy.ofNat fw)).val ≤ 2 := by linarith only [sc2, hr1]
  -- x1, w1
  have hxs : (x : ℚ) * (fdiv (Dy.ofNat tw) (Dy.ofNat fw)).val ≤ 131070 := by nlinarith
  have hws : (w : ℚ) * (fdiv (Dy.ofNat tw) (Dy.ofNat fw)).val ≤ 131070 := by nlinarith
  have hxs0 : 0 ≤ (x : ℚ) * (fdiv (Dy.ofNat tw) (Dy.ofNat fw)).val := mul_nonneg hx0 sc0
  have hws0 : 0 ≤ (w : ℚ) * (fdiv (Dy.ofNat tw) (Dy.ofNat fw)).val := mul_nonneg hw0 sc0
  have hx1 := fmul_err (Dy.ofNat x) (fdiv (Dy.ofNat tw) (Dy.ofNat fw))
    (by rw [val_ofNat]; linarith only [hxs, show (131070 : ℚ) < 2 ^ 51 by norm_num])
  have hw1 := fmul_err (Dy.ofNat w) (fdiv (Dy.ofNat tw) (Dy.ofNat fw))
    (by rw [val_ofNat]; linarith only [hws, show (131070 : ℚ) < 2 ^ 51 by norm_num])
  rw [val_ofNat] at hx1 hw1
  obtain ⟨w1b, w10⟩ := le_two_mul_of_rel _ _ hws0 hw1
  -- floor
  have hfl := ffloor_spec (fmul (Dy.ofNat x) (fdiv (Dy.ofNat tw) (Dy.ofNat fw)))
  -- d = x1 - x2
  have hd := fsub_err (fmul (Dy.ofNat x) (fdiv (Dy.ofNat tw) (Dy.ofNat fw)))
    (Dy.ofNat (ffloor (fmul (Dy.ofNat x) (fdiv (Dy.ofNat tw) (Dy.ofNat fw)))))
    (by rw [val_ofNat]; exact hfl.1)
    (by rw [val_ofNat]; linarith only [hfl.2, show (1 : ℚ) < 2 ^ 51 by norm_num])
  rw [val_ofNat] at hd
  obtain ⟨db, d0⟩ := le_two_mul_of_rel _ _ (by linarith only [hfl.1]) hd
  -- t = w1 + d
  have ht := fadd_err (fmul (Dy.ofNat w) (fdiv (Dy.ofNat tw) (Dy.ofNat fw)))
    (fsub (fmul (Dy.ofNat x) (fdiv (Dy.ofNat tw) (Dy.ofNat fw)))
      (Dy.ofNat (ffloor (fmul (Dy.ofNat x) (fdiv (Dy.ofNat tw) (Dy.ofNat fw))))))
    (by linarith only [w1b, hws, db, hfl.2, show (262144 : ℚ) < 2 ^ 51 by norm_num])
  have hce := fceil_spec (fadd (fmul (Dy.ofNat w) (fdiv (Dy.ofNat tw) (Dy.ofNat fw)))
    (fsub (fmul (Dy.ofNat x) (fdiv (Dy.ofNat tw) (Dy.ofNat fw)))
      (Dy.ofNat (ffloor (fmul (Dy.ofNat x) (fdiv (Dy.ofNat tw) (Dy.ofNat fw)))))))
  exact abstract_corr fw tw x w _ _ _ _ _ _ _ htw hle hfw hw hxw hsc hx1 hw1 hfl hd ht hce

end VncModel.Scale
