import VncModel.Scale.Lemmas
import VncModel.Scale.StateLemmas
/-
Convergence of the scaled copies over whole histories: every scaled screen that has users equals
the reference image of the current framebuffer, whatever sequence of joins, factor changes, leaves
and framebuffer modifications led to the state.  Core Lean only.
-/
namespace VncModel.Scale

/-- the assumption about the double arithmetic of rfbScaledCorrection (see Props/C17.lean): for
16-bit sizes, down-scaling, and a non-empty rectangle inside the source screen the software-float
evaluation stays within the relational bounds -/
def CorrRawSound : Prop :=
  ∀ fw tw x w : Nat, 0 < tw → tw ≤ fw → fw < 65536 → 1 ≤ w → x + w ≤ fw →
    CorrRel fw tw x w (corrRaw fw tw x w)

/-- the scaled copy `img` (of nominal size `w × h`) is the reference image of `fb` -/
def Good (f : Fmt) (fb : Img) (w h : Nat) (img : Img) : Prop :=
  ∀ X Y, X < w → Y < h → img.get X Y = scaledPixel f fb w h X Y

structure Synced (s : Srv) : Prop where
  fb : s.main.img.w = s.main.w ∧ s.main.img.h = s.main.h
  le : ∀ p ∈ s.chain, p.w ≤ s.main.w ∧ p.h ≤ s.main.h
  dims : ∀ p ∈ s.chain, p.img.w = p.w ∧ p.img.h = p.h
  ok : ∀ p ∈ s.chain, 0 < p.ref → Good s.fmt s.main.img p.w p.h p.img

theorem bumpChain_mem {c : List SScreen} {w h : Nat} {d : Int} {p' : SScreen}
    (hp : p' ∈ bumpChain c w h d) :
    ∃ p ∈ c, p'.w = p.w ∧ p'.h = p.h ∧ p'.img = p.img ∧
      p'.ref = p.ref + (if p.w = w ∧ p.h = h then d else 0) := by
  unfold bumpChain at hp
  obtain ⟨p, hpc, rfl⟩ := List.mem_map.mp hp
  refine ⟨p, hpc, ?_⟩
  by_cases hk : (p.w == w && p.h == h) = true
  · have hk' : p.w = w ∧ p.h = h := by simpa using hk
    simp [hk'.1, hk'.2]
  · have hkf : (p.w == w && p.h == h) = false := by simpa using hk
    have hk' : ¬ (p.w = w ∧ p.h = h) := by
      intro ⟨a, b⟩; apply hk; simp [a, b]
    simp [hkf, hk']

theorem bump_chain_mem {s : Srv} {w h : Nat} {d : Int} {p' : SScreen}
    (hp : p' ∈ (bump s w h d).chain) :
    ∃ p ∈ s.chain, p'.w = p.w ∧ p'.h = p.h ∧ p'.img = p.img ∧
      (p'.ref = p.ref ∨ (p.w = w ∧ p.h = h ∧ p'.ref = p.ref + d)) := by
  unfold bump at hp
  split at hp
  · exact ⟨p', hp, rfl, rfl, rfl, Or.inl rfl⟩
  · obtain ⟨p, hpc, e1, e2, e3, e4⟩ := bumpChain_mem hp
    refine ⟨p, hpc, e1, e2, e3, ?_⟩
    by_cases hk : p.w = w ∧ p.h = h
    · right; rw [if_pos hk] at e4; exact ⟨hk.1, hk.2, e4⟩
    · left; rw [if_neg hk] at e4; omega

/-- a reference-count change keeps `Synced` if it is a decrement, or if the screen gaining a
reference is up to date -/
theorem synced_bump {s : Srv} (hs : Synced s) (w h : Nat) (d : Int)
    (hd : d ≤ 0 ∨ ∀ p ∈ s.chain, p.w = w → p.h = h → Good s.fmt s.main.img p.w p.h p.img) :
    Synced (bump s w h d) := by
  have m := bump_main_dims s w h d
  refine ⟨by rw [m.2.2.1, m.1, m.2.1]; exact hs.fb, ?_, ?_, ?_⟩
  · intro p' hp'
    obtain ⟨p, hp, e1, e2, _, _⟩ := bump_chain_mem hp'
    rw [e1, e2, m.1, m.2.1]; exact hs.le p hp
  · intro p' hp'
    obtain ⟨p, hp, e1, e2, e3, _⟩ := bump_chain_mem hp'
    rw [e1, e2, e3]; exact hs.dims p hp
  · intro p' hp' hpos
    obtain ⟨p, hp, e1, e2, e3, e4⟩ := bump_chain_mem hp'
    rw [e1, e2, e3, m.2.2.1, m.2.2.2.1]
    rcases e4 with e4 | ⟨k1, k2, e4⟩
    · exact hs.ok p hp (by omega)
    · rcases hd with hd | hd
      · exact hs.ok p hp (by omega)
      · exact hd p hp k1 k2

theorem synced_clients {s : Srv} (hs : Synced s) (cs : List Client) :
    Synced { s with clients := cs } := ⟨hs.fb, hs.le, hs.dims, hs.ok⟩

theorem findChain_unique {c : List SScreen} {w h : Nat} {p : SScreen} (hn : (dimsOf c).Nodup)
    (hp : p ∈ c) (hw : p.w = w) (hh : p.h = h) : findChain c w h = some p := by
  induction c with
  | nil => simp at hp
  | cons q qs ih =>
    unfold findChain
    rw [List.find?_cons]
    simp only [dimsOf, List.map_cons, List.nodup_cons] at hn
    rcases List.mem_cons.mp hp with e | e
    · subst e; simp [hw, hh]
    · have hne : ¬ (q.w = w ∧ q.h = h) := by
        intro ⟨a, b⟩
        apply hn.1
        exact List.mem_map.mpr ⟨p, e, by rw [hw, hh, a, b]⟩
      have : (q.w == w && q.h == h) = false := by
        cases hq : (q.w == w && q.h == h)
        · rfl
        · exfalso; apply hne; simpa using hq
      rw [this]
      exact ih hn.2 e

/-- a full refresh makes a copy good -/
theorem good_full {s : Srv} (hs : Synced s) (hsound : CorrRawSound)
    (hW : s.main.w < 65536) (hH : s.main.h < 65536) (hPw : 0 < s.main.w) (hPh : 0 < s.main.h)
    (w h : Nat) (img : Img) (hiw : img.w = w) (hih : img.h = h) (hw : 0 < w) (hh : 0 < h)
    (hlw : w ≤ s.main.w) (hlh : h ≤ s.main.h) :
    Good s.fmt s.main.img w h (updateRect s.fmt s.main.img img (fullRect s)) := by
  intro X Y hX hY
  have e : fullRect s = ⟨(0 : Nat), (0 : Nat), s.main.img.w, s.main.img.h⟩ := by
    unfold fullRect; rw [hs.fb.1, hs.fb.2]; rfl
  rw [e, ← hiw, ← hih]
  apply updateRect_full
  · omega
  · omega
  · rw [hs.fb.1]; omega
  · rw [hs.fb.2]; omega
  · rw [hs.fb.1, hiw]; exact hsound _ _ _ _ hw hlw hW hPw (by omega)
  · rw [hs.fb.2, hih]; exact hsound _ _ _ _ hh hlh hH hPh (by omega)
  · omega
  · omega

/-- the refresh of the whole `(w,h)` copy makes it good, leaves everything else alone -/
theorem synced_refresh {s : Srv} (hs : Synced s) (hsound : CorrRawSound) (hpos : ∀ d ∈ dimsOf s.chain, 0 < d.1 ∧ 0 < d.2)
    (w h : Nat) (hW : s.main.w < 65536) (hH : s.main.h < 65536) (hPw : 0 < s.main.w) (hPh : 0 < s.main.h) :
    Synced { s with chain := refreshChain s w h } ∧
    ∀ p ∈ refreshChain s w h, p.w = w → p.h = h → Good s.fmt s.main.img p.w p.h p.img := by
  have key : ∀ p' ∈ refreshChain s w h, ∃ p ∈ s.chain, p'.w = p.w ∧ p'.h = p.h ∧ p'.ref = p.ref ∧
      ((p'.img = p.img ∧ ¬ (p.w = w ∧ p.h = h)) ∨
       (p'.img = updateRect s.fmt s.main.img p.img (fullRect s) ∧ p.w = w ∧ p.h = h)) := by
    intro p' hp'
    unfold refreshChain at hp'
    obtain ⟨p, hp, rfl⟩ := List.mem_map.mp hp'
    refine ⟨p, hp, ?_⟩
    by_cases hk : (p.w == w && p.h == h) = true
    · have hk' : p.w = w ∧ p.h = h := by simpa using hk
      simp [hk'.1, hk'.2]
    · have hkf : (p.w == w && p.h == h) = false := by simpa using hk
      have hk' : ¬ (p.w = w ∧ p.h = h) := by
        intro ⟨a, b⟩; apply hk; simp [a, b]
      simp [hkf, hk']
  have gfull : ∀ p ∈ s.chain, Good s.fmt s.main.img p.w p.h (updateRect s.fmt s.main.img p.img (fullRect s)) := by
    intro p hp
    have hd := hs.dims p hp
    have hl := hs.le p hp
    have hp0 := hpos (p.w, p.h) (List.mem_map.mpr ⟨p, hp, rfl⟩)
    exact good_full hs hsound hW hH hPw hPh p.w p.h p.img hd.1 hd.2 hp0.1 hp0.2 hl.1 hl.2
  constructor
  · refine ⟨hs.fb, ?_, ?_, ?_⟩
    · intro p' hp'
      obtain ⟨p, hp, e1, e2, _, _⟩ := key p' hp'
      show p'.w ≤ s.main.w ∧ p'.h ≤ s.main.h
      rw [e1, e2]; exact hs.le p hp
    · intro p' hp'
      obtain ⟨p, hp, e1, e2, _, e4⟩ := key p' hp'
      rcases e4 with ⟨e4, _⟩ | ⟨e4, _⟩
      · rw [e1, e2, e4]; exact hs.dims p hp
      · rw [e1, e2, e4]; exact hs.dims p hp
    · intro p' hp' hr
      obtain ⟨p, hp, e1, e2, e3, e4⟩ := key p' hp'
      show Good s.fmt s.main.img p'.w p'.h p'.img
      rcases e4 with ⟨e4, _⟩ | ⟨e4, _⟩
      · rw [e1, e2, e4]; exact hs.ok p hp (by omega)
      · rw [e1, e2, e4]; exact gfull p hp
  · intro p' hp' k1 k2
    obtain ⟨p, hp, e1, e2, _, e4⟩ := key p' hp'
    rcases e4 with ⟨_, hne⟩ | ⟨e4, _⟩
    · exfalso; apply hne; rw [← e1, ← e2]; exact ⟨k1, k2⟩
    · rw [e1, e2, e4]; exact gfull p hp

/-- the screens of size `(w,h)` in the chain are up to date -/
def TargetGood (s : Srv) (w h : Nat) : Prop :=
  ∀ p ∈ s.chain, p.w = w → p.h = h → Good s.fmt s.main.img p.w p.h p.img

theorem targetGood_bump {s : Srv} {w h : Nat} (ht : TargetGood s w h) (w' h' : Nat) (d : Int) :
    TargetGood (bump s w' h' d) w h := by
  have m := bump_main_dims s w' h' d
  intro p' hp' k1 k2
  obtain ⟨p, hp, e1, e2, e3, _⟩ := bump_chain_mem hp'
  rw [e1, e2, e3, m.2.2.1, m.2.2.2.1]
  exact ht p hp (by rw [← e1]; exact k1) (by rw [← e2]; exact k2)

/-- hand-over of the reference: old screen loses one, the (up to date) target gains one -/
theorem synced_tail {s2 : Srv} (hs2 : Synced s2) (c : Client) (w h : Nat) (ht : TargetGood s2 w h)
    (i : Nat) (g : Client → Client) :
    Synced { bump (bump s2 c.sw c.sh (-1)) w h 1 with
             clients := setClient (bump (bump s2 c.sw c.sh (-1)) w h 1).clients i g } := by
  apply synced_clients
  apply synced_bump
  · exact synced_bump hs2 _ _ _ (Or.inl (by omega))
  · right; exact targetGood_bump ht _ _ _

/-- the conditional refresh in rfbScalingSetup -/
theorem synced_mid {s1 : Srv} (hs1 : Synced s1) (hsound : CorrRawSound)
    (hpos : ∀ d ∈ dimsOf s1.chain, 0 < d.1 ∧ 0 < d.2) (w h : Nat)
    (hW : s1.main.w < 65536) (hH : s1.main.h < 65536) (hPw : 0 < s1.main.w) (hPh : 0 < s1.main.h)
    (ht : (!isMain s1 w h && decide (refOf s1 w h < 1)) = false → TargetGood s1 w h) :
    Synced (if (!isMain s1 w h && decide (refOf s1 w h < 1)) = true
            then { s1 with chain := refreshChain s1 w h } else s1) ∧
    TargetGood (if (!isMain s1 w h && decide (refOf s1 w h < 1)) = true
            then { s1 with chain := refreshChain s1 w h } else s1) w h := by
  by_cases hc : (!isMain s1 w h && decide (refOf s1 w h < 1)) = true
  · simp only [hc, if_true]
    have r := synced_refresh hs1 hsound hpos w h hW hH hPw hPh
    exact ⟨r.1, r.2⟩
  · have hcf : (!isMain s1 w h && decide (refOf s1 w h < 1)) = false := by simpa using hc
    simp only [hcf]
    exact ⟨hs1, ht hcf⟩

theorem synced_scalingSetup {s : Srv} (hi : Inv s) (hs : Synced s) (hsound : CorrRawSound)
    (hW : s.main.w < 65536) (hH : s.main.h < 65536) (hPw : 0 < s.main.w) (hPh : 0 < s.main.h)
    (c : Client) (w h : Nat) (hlw : w ≤ s.main.w) (hlh : h ≤ s.main.h) :
    Synced (scalingSetup s c w h) := by
  unfold scalingSetup
  by_cases hfound : (isMain s w h || (findChain s.chain w h).isSome) = true
  · simp only [hfound, if_true]
    have ht : (!isMain s w h && decide (refOf s w h < 1)) = false → TargetGood s w h := by
      intro hcond p hp k1 k2
      by_cases hm : isMain s w h = true
      · exfalso
        have hm' := (isMain_iff s w h).mp hm
        apply hi.shape.notMain
        exact List.mem_map.mpr ⟨p, hp, by rw [k1, k2, hm'.1, hm'.2]⟩
      · have hmf : isMain s w h = false := by simpa using hm
        have hfc := findChain_unique hi.shape.distinct hp k1 k2
        have hr : refOf s w h = p.ref := by simp [refOf, hmf, hfc]
        have : ¬ (refOf s w h < 1) := by
          intro hlt
          rw [hmf] at hcond
          simp [hlt] at hcond
        exact hs.ok p hp (by omega)
    have mid := synced_mid hs hsound hi.shape.pos w h hW hH hPw hPh ht
    exact synced_tail mid.1 c w h mid.2 _ _
  · have hnf : (isMain s w h || (findChain s.chain w h).isSome) = false := by simpa using hfound
    have hm : isMain s w h = false := by
      cases e : isMain s w h
      · rfl
      · rw [e] at hnf; simp at hnf
    have hfc : (findChain s.chain w h).isSome = false := by
      cases e : (findChain s.chain w h).isSome
      · rfl
      · rw [e] at hnf; simp at hnf
    by_cases hz : w = 0 ∨ h = 0
    · simp only [hnf, allocate, hz, if_true, Bool.false_eq_true, if_false]; exact hs
    · simp only [hnf, allocate, hz, if_false, Bool.false_eq_true]
      have hw : 0 < w := by omega
      have hh : 0 < h := by omega
      let img0 := updateRect s.fmt s.main.img (Img.tabulate w h fun _ _ => 0) (fullRect s)
      have g0 : Good s.fmt s.main.img w h img0 :=
        good_full hs hsound hW hH hPw hPh w h _ rfl rfl hw hh hlw hlh
      have hs1 : Synced { s with chain := ⟨w, h, 0, img0⟩ :: s.chain } := by
        refine ⟨hs.fb, ?_, ?_, ?_⟩
        · intro p hp
          rcases List.mem_cons.mp hp with e | e
          · subst e; exact ⟨hlw, hlh⟩
          · exact hs.le p e
        · intro p hp
          rcases List.mem_cons.mp hp with e | e
          · subst e; exact ⟨rfl, rfl⟩
          · exact hs.dims p e
        · intro p hp hr
          rcases List.mem_cons.mp hp with e | e
          · subst e; simp at hr
          · exact hs.ok p e hr
      have hpos1 : ∀ d ∈ dimsOf ({ s with chain := ⟨w, h, 0, img0⟩ :: s.chain } : Srv).chain, 0 < d.1 ∧ 0 < d.2 := by
        intro d hd
        have hd' : d ∈ (w, h) :: dimsOf s.chain := hd
        rcases List.mem_cons.mp hd' with e | e
        · subst e; exact ⟨hw, hh⟩
        · exact hi.shape.pos d e
      have ht1 : TargetGood { s with chain := ⟨w, h, 0, img0⟩ :: s.chain } w h := by
        intro p hp k1 k2
        rcases List.mem_cons.mp hp with e | e
        · subst e; exact g0
        · exfalso
          exact findChain_none hfc (List.mem_map.mpr ⟨p, e, by rw [k1, k2]⟩)
      have mid := synced_mid hs1 hsound hpos1 w h hW hH hPw hPh (fun _ => ht1)
      exact synced_tail mid.1 c w h mid.2 _ _

/-- a modification of the framebuffer inside a rectangle followed by rfbMarkRectAsModified -/
theorem synced_modify {s : Srv} (hi : Inv s) (hs : Synced s) (hsound : CorrRawSound)
    (hW : s.main.w < 65536) (hH : s.main.h < 65536)
    (x y w h : Nat) (fb' : Img) (hfw : fb'.w = s.main.w) (hfh : fb'.h = s.main.h)
    (hw : 1 ≤ w) (hh : 1 ≤ h) (hxw : x + w ≤ s.main.w) (hyh : y + h ≤ s.main.h)
    (hsame : ∀ px py, px < s.main.w → py < s.main.h →
      ¬ (x ≤ px ∧ px < x + w ∧ y ≤ py ∧ py < y + h) → fb'.get px py = s.main.img.get px py) :
    Synced (step { s with main := { s.main with img := fb' } } (.modify ⟨x, y, w, h⟩)) := by
  show Synced { ({ s with main := { s.main with img := fb' } } : Srv) with
    chain := s.chain.map fun p =>
      if p.ref > 0 then { p with img := updateRect s.fmt fb' p.img ⟨x, y, w, h⟩ } else p }
  have key : ∀ p' ∈ (s.chain.map fun p =>
      if p.ref > 0 then { p with img := updateRect s.fmt fb' p.img ⟨x, y, w, h⟩ } else p),
      ∃ p ∈ s.chain, p'.w = p.w ∧ p'.h = p.h ∧ p'.ref = p.ref ∧
        ((p.ref > 0 ∧ p'.img = updateRect s.fmt fb' p.img ⟨x, y, w, h⟩) ∨ (¬ p.ref > 0 ∧ p'.img = p.img)) := by
    intro p' hp'
    obtain ⟨p, hp, rfl⟩ := List.mem_map.mp hp'
    refine ⟨p, hp, ?_⟩
    by_cases hr : p.ref > 0
    · simp [hr]
    · simp [hr]
  refine ⟨⟨hfw, hfh⟩, ?_, ?_, ?_⟩
  · intro p' hp'
    obtain ⟨p, hp, e1, e2, _, _⟩ := key p' hp'
    show p'.w ≤ s.main.w ∧ p'.h ≤ s.main.h
    rw [e1, e2]; exact hs.le p hp
  · intro p' hp'
    obtain ⟨p, hp, e1, e2, _, e4⟩ := key p' hp'
    rcases e4 with ⟨_, e4⟩ | ⟨_, e4⟩
    · rw [e1, e2, e4]; exact hs.dims p hp
    · rw [e1, e2, e4]; exact hs.dims p hp
  · intro p' hp' hr
    obtain ⟨p, hp, e1, e2, e3, e4⟩ := key p' hp'
    show Good s.fmt fb' p'.w p'.h p'.img
    rcases e4 with ⟨hpr, e4⟩ | ⟨hpr, _⟩
    · rw [e1, e2, e4]
      have hd := hs.dims p hp
      have hl := hs.le p hp
      have hp0 := hi.shape.pos (p.w, p.h) (List.mem_map.mpr ⟨p, hp, rfl⟩)
      have hgood := hs.ok p hp hpr
      intro X Y hX hY
      have := updateRect_tracks s.fmt s.main.img fb' p.img x y w h
        (by rw [hfw, hs.fb.1]) (by rw [hfh, hs.fb.2])
        (by rw [hd.1]; exact hp0.1) (by rw [hd.2]; exact hp0.2)
        (by rw [hd.1, hs.fb.1]; exact hl.1) (by rw [hd.2, hs.fb.2]; exact hl.2)
        (by rw [hs.fb.1, hs.fb.2]; exact hsame)
        (by rw [hd.1, hd.2]; exact hgood)
        (by rw [hs.fb.1, hd.1]; exact hsound _ _ _ _ hp0.1 hl.1 hW hw hxw)
        (by rw [hs.fb.2, hd.2]; exact hsound _ _ _ _ hp0.2 hl.2 hH hh hyh)
        X Y (by rw [hd.1]; exact hX) (by rw [hd.2]; exact hY)
      rw [hd.1, hd.2] at this
      exact this
    · exfalso; omega

/-! ## whole histories -/

/-- an event of a session: a protocol-level operation, or the application painting inside a
rectangle (new framebuffer contents `fb'`) and calling rfbMarkRectAsModified on it -/
inductive Ev where
  | op (o : Op)
  | draw (x y w h : Nat) (fb' : Img)

def applyEv (s : Srv) : Ev → Srv
  | .op o => step s o
  | .draw x y w h fb' => step { s with main := { s.main with img := fb' } } (.modify ⟨x, y, w, h⟩)

def ValidEv (s : Srv) : Ev → Prop
  | .op (.modify _) => False          -- modifications enter through `draw`
  | .op _ => True
  | .draw x y w h fb' =>
    fb'.w = s.main.w ∧ fb'.h = s.main.h ∧ 1 ≤ w ∧ 1 ≤ h ∧ x + w ≤ s.main.w ∧ y + h ≤ s.main.h ∧
    ∀ px py, px < s.main.w → py < s.main.h →
      ¬ (x ≤ px ∧ px < x + w ∧ y ≤ py ∧ py < y + h) → fb'.get px py = s.main.img.get px py

def ValidRun (s : Srv) : List Ev → Prop
  | [] => True
  | e :: es => ValidEv s e ∧ ValidRun (applyEv s e) es

def runEv (s : Srv) (es : List Ev) : Srv := es.foldl applyEv s

theorem inv_setPalm {s : Srv} (hi : Inv s) (id : Nat) (palm : Bool) : Inv (setPalm s id palm) := by
  unfold setPalm
  split
  · exact inv_setFlags hi id _ (fun c => ⟨rfl, rfl, rfl⟩)
  · exact hi

theorem inv_setImg {s : Srv} (hi : Inv s) (fb' : Img) :
    Inv { s with main := { s.main with img := fb' } } :=
  ⟨⟨hi.shape.notMain, hi.shape.distinct, hi.shape.pos⟩, ⟨hi.refs.main, hi.refs.chain⟩, hi.ids, hi.known⟩

theorem scalingSetup_main (s : Srv) (c : Client) (w h : Nat) :
    (scalingSetup s c w h).main.w = s.main.w ∧ (scalingSetup s c w h).main.h = s.main.h := by
  unfold scalingSetup
  by_cases hfound : (isMain s w h || (findChain s.chain w h).isSome) = true
  · simp only [hfound, if_true]
    split <;> simp [bump_main_dims]
  · have hnf : (isMain s w h || (findChain s.chain w h).isSome) = false := by simpa using hfound
    by_cases hz : w = 0 ∨ h = 0
    · simp [hnf, allocate, hz]
    · simp only [hnf, allocate, hz, if_false, Bool.false_eq_true]
      split <;> simp [bump_main_dims]

theorem addClient_main (s : Srv) (id : Nat) (nfs : Bool) :
    (addClient s id nfs).main.w = s.main.w ∧ (addClient s id nfs).main.h = s.main.h := by
  simp [addClient, bump_main_dims]

theorem removeClient_main (s : Srv) (c : Client) (id : Nat) :
    (removeClient s c id).main.w = s.main.w ∧ (removeClient s c id).main.h = s.main.h := by
  simp [removeClient, bump_main_dims]

theorem setScaleCore_main (s : Srv) (id n : Nat) :
    (setScaleCore s id n).main.w = s.main.w ∧ (setScaleCore s id n).main.h = s.main.h := by
  unfold setScaleCore
  split
  · exact ⟨rfl, rfl⟩
  · split
    · exact removeClient_main _ _ _
    · exact scalingSetup_main _ _ _ _

theorem step_main (s : Srv) (op : Op) :
    (step s op).main.w = s.main.w ∧ (step s op).main.h = s.main.h := by
  cases op with
  | join id nfs =>
    rw [show step s (.join id nfs) = (if s.clients.any (·.id == id) then s else addClient s id nfs) from rfl]
    split
    · exact ⟨rfl, rfl⟩
    · exact addClient_main _ _ _
  | setScale id palm n =>
    rw [show step s (.setScale id palm n) = setScaleCore (setPalm s id palm) id n from rfl]
    have hm : (setPalm s id palm).main = s.main := by unfold setPalm; split <;> rfl
    have := setScaleCore_main (setPalm s id palm) id n
    rw [hm] at this; exact this
  | leave id =>
    rw [show step s (.leave id) = (match s.clients.find? (·.id == id) with
      | none => s
      | some c => removeClient s c id) from rfl]
    split
    · exact ⟨rfl, rfl⟩
    · exact removeClient_main _ _ _
  | modify r => exact ⟨rfl, rfl⟩

theorem synced_remove {s : Srv} (hs : Synced s) (c : Client) (id : Nat) : Synced (removeClient s c id) := by
  show Synced { bump s c.sw c.sh (-1) with clients := (bump s c.sw c.sh (-1)).clients.filter (·.id != id) }
  exact synced_clients (synced_bump hs _ _ _ (Or.inl (by omega))) _

theorem synced_ev {s : Srv} (hi : Inv s) (hs : Synced s) (hsound : CorrRawSound)
    (hW : s.main.w < 65536) (hH : s.main.h < 65536) (hPw : 0 < s.main.w) (hPh : 0 < s.main.h)
    (e : Ev) (hv : ValidEv s e) :
    Inv (applyEv s e) ∧ Synced (applyEv s e) ∧
    (applyEv s e).main.w = s.main.w ∧ (applyEv s e).main.h = s.main.h := by
  cases e with
  | op o =>
    refine ⟨inv_step hi o, ?_, (step_main s o).1, (step_main s o).2⟩
    cases o with
    | join id nfs =>
      show Synced (if s.clients.any (·.id == id) then s else addClient s id nfs)
      split
      · exact hs
      · show Synced { bump s s.main.w s.main.h 1 with clients := _ }
        apply synced_clients
        apply synced_bump hs
        right
        intro p hp k1 k2
        exfalso; apply hi.shape.notMain
        exact List.mem_map.mpr ⟨p, hp, by rw [k1, k2]⟩
    | setScale id palm n =>
      show Synced (setScaleCore (setPalm s id palm) id n)
      have hi0 := inv_setPalm hi id palm
      have hs0 : Synced (setPalm s id palm) := by
        unfold setPalm; split
        · exact synced_clients hs _
        · exact hs
      have hm : (setPalm s id palm).main = s.main := by unfold setPalm; split <;> rfl
      unfold setScaleCore
      split
      · exact hs0
      · split
        · exact synced_remove hs0 _ _
        · apply synced_scalingSetup hi0 hs0 hsound
          · rw [hm]; exact hW
          · rw [hm]; exact hH
          · rw [hm]; exact hPw
          · rw [hm]; exact hPh
          · exact Nat.div_le_self _ _
          · exact Nat.div_le_self _ _
    | leave id =>
      show Synced (match s.clients.find? (·.id == id) with
        | none => s
        | some c => removeClient s c id)
      split
      · exact hs
      · exact synced_remove hs _ _
    | modify r => exact absurd hv (by simp [ValidEv])
  | draw x y w h fb' =>
    obtain ⟨h1, h2, h3, h4, h5, h6, h7⟩ := hv
    refine ⟨?_, ?_, rfl, rfl⟩
    · show Inv (step { s with main := { s.main with img := fb' } } (.modify ⟨x, y, w, h⟩))
      exact inv_step (inv_setImg hi fb') _
    · exact synced_modify hi hs hsound hW hH x y w h fb' h1 h2 h3 h4 h5 h6 h7

theorem synced_run {s : Srv} (hi : Inv s) (hs : Synced s) (hsound : CorrRawSound)
    (hW : s.main.w < 65536) (hH : s.main.h < 65536) (hPw : 0 < s.main.w) (hPh : 0 < s.main.h)
    (es : List Ev) (hv : ValidRun s es) : Inv (runEv s es) ∧ Synced (runEv s es) := by
  unfold runEv
  induction es generalizing s with
  | nil => exact ⟨hi, hs⟩
  | cons e es ih =>
    obtain ⟨hv1, hv2⟩ := hv
    obtain ⟨a, b, c, d⟩ := synced_ev hi hs hsound hW hH hPw hPh e hv1
    exact ih a b (by rw [c]; exact hW) (by rw [d]; exact hH) (by rw [c]; exact hPw) (by rw [d]; exact hPh) hv2

theorem synced_init (f : Fmt) (fb : Img) : Synced (init f fb) :=
  ⟨⟨rfl, rfl⟩, by simp [init], by simp [init], by simp [init]⟩

end VncModel.Scale
