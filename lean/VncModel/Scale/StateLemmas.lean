import VncModel.Scale.State
/-
Invariant of the scaled-screen chain / refcount state machine and its preservation by every
operation (`step`).  Core Lean only.
-/
namespace VncModel.Scale

def dimsOf (c : List SScreen) : List (Nat × Nat) := c.map fun p => (p.w, p.h)

/-- refcounts of `s` agree with the client list `cs` -/
structure Refs (s : Srv) (cs : List Client) : Prop where
  main : s.main.ref = users cs s.main.w s.main.h
  chain : ∀ p ∈ s.chain, p.ref = users cs p.w p.h

/-- shape of the chain -/
structure Shape (s : Srv) : Prop where
  notMain : (s.main.w, s.main.h) ∉ dimsOf s.chain
  distinct : (dimsOf s.chain).Nodup
  pos : ∀ d ∈ dimsOf s.chain, 0 < d.1 ∧ 0 < d.2

structure Inv (s : Srv) : Prop where
  shape : Shape s
  refs : Refs s s.clients
  ids : (s.clients.map (·.id)).Nodup
  known : ∀ c ∈ s.clients, (c.sw, c.sh) = (s.main.w, s.main.h) ∨ (c.sw, c.sh) ∈ dimsOf s.chain

/-! ### counting clients -/

theorem users_filter_ne {cs : List Client} {i : Nat} {c : Client}
    (hn : (cs.map (·.id)).Nodup) (hf : cs.find? (·.id == i) = some c) (w h : Nat) :
    (users (cs.filter (·.id != i)) w h : Int)
      = users cs w h - (if c.sw = w ∧ c.sh = h then 1 else 0) := by
  induction cs with
  | nil => simp at hf
  | cons d ds ih =>
    rw [List.find?_cons] at hf
    simp only [List.map_cons, List.nodup_cons] at hn
    by_cases hd : d.id = i
    · have e : (d.id == i) = true := by simp [hd]
      rw [e] at hf
      simp only [Option.some.injEq] at hf
      subst hf
      have hall : ds.filter (·.id != i) = ds := by
        apply List.filter_eq_self.mpr
        intro a ha
        simp only [bne_iff_ne, ne_eq]
        intro e2
        apply hn.1
        exact List.mem_map.mpr ⟨a, ha, by rw [e2, hd]⟩
      have hne : (d.id != i) = false := by simp [hd]
      simp only [users, List.filter_cons, hne, hall, List.countP_cons, Bool.and_eq_true, beq_iff_eq]
      simp only [Bool.false_eq_true, if_false]
      split <;> omega
    · have e : (d.id == i) = false := by simp [hd]
      rw [e] at hf
      have hne : (d.id != i) = true := by simp [hd]
      have := ih hn.2 hf
      simp only [users, List.filter_cons, hne, List.countP_cons, if_true] at this ⊢
      omega

theorem users_setClient {cs : List Client} {i : Nat} {c : Client} (f : Client → Client)
    (hn : (cs.map (·.id)).Nodup) (hf : cs.find? (·.id == i) = some c) (w h : Nat) :
    (users (setClient cs i f) w h : Int)
      = users (cs.filter (·.id != i)) w h + (if (f c).sw = w ∧ (f c).sh = h then 1 else 0) := by
  induction cs with
  | nil => simp at hf
  | cons d ds ih =>
    rw [List.find?_cons] at hf
    simp only [List.map_cons, List.nodup_cons] at hn
    by_cases hd : d.id = i
    · have e : (d.id == i) = true := by simp [hd]
      rw [e] at hf
      simp only [Option.some.injEq] at hf
      subst hf
      have hall : ds.filter (·.id != i) = ds := by
        apply List.filter_eq_self.mpr
        intro a ha
        simp only [bne_iff_ne, ne_eq]
        intro e2
        apply hn.1
        exact List.mem_map.mpr ⟨a, ha, by rw [e2, hd]⟩
      have hsame : setClient ds i f = ds := by
        unfold setClient
        have hm : ∀ a ∈ ds, (if (a.id == i) = true then f a else a) = a := by
          intro a ha
          have : a.id ≠ i := by
            intro e2
            apply hn.1
            exact List.mem_map.mpr ⟨a, ha, by rw [e2, hd]⟩
          simp [this]
        rw [List.map_congr_left hm, List.map_id']
      have hne : (d.id != i) = false := by simp [hd]
      have hs : setClient (d :: ds) i f = f d :: setClient ds i f := by
        simp [setClient, hd]
      rw [hs, hsame]
      simp only [users, List.filter_cons, hne, hall, List.countP_cons, Bool.and_eq_true, beq_iff_eq]
      simp only [Bool.false_eq_true, if_false]
      split <;> omega
    · have e : (d.id == i) = false := by simp [hd]
      rw [e] at hf
      have hne : (d.id != i) = true := by simp [hd]
      have hs : setClient (d :: ds) i f = d :: setClient ds i f := by
        simp [setClient, hd]
      have := ih hn.2 hf
      rw [hs]
      simp only [users, List.filter_cons, hne, List.countP_cons, if_true] at this ⊢
      omega

theorem users_append_one (cs : List Client) (c : Client) (w h : Nat) :
    (users (cs ++ [c]) w h : Int) = users cs w h + (if c.sw = w ∧ c.sh = h then 1 else 0) := by
  simp only [users, List.countP_append, List.countP_singleton, Bool.and_eq_true, beq_iff_eq]
  split <;> omega

/-! ### bump -/

theorem dimsOf_bumpChain (c : List SScreen) (w h : Nat) (d : Int) :
    dimsOf (bumpChain c w h d) = dimsOf c := by
  unfold dimsOf bumpChain
  rw [List.map_map]
  apply List.map_congr_left
  intro p _
  simp only [Function.comp]
  split <;> rfl

theorem bump_main_dims (s : Srv) (w h : Nat) (d : Int) :
    (bump s w h d).main.w = s.main.w ∧ (bump s w h d).main.h = s.main.h ∧
    (bump s w h d).main.img = s.main.img ∧ (bump s w h d).fmt = s.fmt ∧
    (bump s w h d).clients = s.clients := by
  unfold bump; split <;> simp

theorem bump_dims (s : Srv) (w h : Nat) (d : Int) :
    dimsOf (bump s w h d).chain = dimsOf s.chain := by
  unfold bump; split
  · rfl
  · exact dimsOf_bumpChain _ _ _ _

theorem shape_bump {s : Srv} (hs : Shape s) (w h : Nat) (d : Int) : Shape (bump s w h d) := by
  have m := bump_main_dims s w h d
  have c := bump_dims s w h d
  exact ⟨by rw [m.1, m.2.1, c]; exact hs.notMain, by rw [c]; exact hs.distinct,
         by rw [c]; exact hs.pos⟩

theorem isMain_iff (s : Srv) (w h : Nat) : isMain s w h = true ↔ s.main.w = w ∧ s.main.h = h := by
  simp [isMain]

/-- one increment / decrement keeps the refcounts in step with a client list whose user counts
change by the same amount at the same size -/
theorem refs_bump {s : Srv} {cs cs' : List Client} (hs : Shape s) (hr : Refs s cs) (w h : Nat) (d : Int)
    (hc : ∀ kw kh, (users cs' kw kh : Int) = users cs kw kh + (if w = kw ∧ h = kh then d else 0)) :
    Refs (bump s w h d) cs' := by
  by_cases hm : isMain s w h = true
  · have hm' := (isMain_iff s w h).mp hm
    constructor
    · simp only [bump, hm, if_true]
      rw [hc, hr.main]; simp [hm'.1, hm'.2]
    · intro p hp
      simp only [bump, hm, if_true] at hp ⊢
      rw [hc, hr.chain p hp]
      have : ¬ (w = p.w ∧ h = p.h) := by
        intro ⟨e1, e2⟩
        apply hs.notMain
        unfold dimsOf
        exact List.mem_map.mpr ⟨p, hp, by rw [← e1, ← e2, hm'.1, hm'.2]⟩
      simp [this]
  · have hm' : ¬ (s.main.w = w ∧ s.main.h = h) := fun e => hm ((isMain_iff s w h).mpr e)
    have hmf : isMain s w h = false := by simpa using hm
    constructor
    · have : ¬ (w = s.main.w ∧ h = s.main.h) := fun ⟨a, b⟩ => hm' ⟨a.symm, b.symm⟩
      simp only [bump, hmf]
      rw [hc]
      simp [this, hr.main]
    · intro p hp
      simp only [bump, hmf] at hp
      simp only [Bool.false_eq_true, if_false] at hp
      unfold bumpChain at hp
      obtain ⟨q, hq, rfl⟩ := List.mem_map.mp hp
      by_cases hk : (q.w == w && q.h == h) = true
      · simp only [hk, if_true]
        have hk' : q.w = w ∧ q.h = h := by simpa using hk
        rw [hc, hr.chain q hq]; simp [hk'.1, hk'.2]
      · have hkf : (q.w == w && q.h == h) = false := by simpa using hk
        simp only [hkf]
        simp only [Bool.false_eq_true, if_false]
        rw [hc, hr.chain q hq]
        have : ¬ (w = q.w ∧ h = q.h) := by
          intro ⟨a, b⟩; apply hk; simp [a, b]
        simp [this]

/-! ### shape / refs are insensitive to images and client flags -/

theorem dimsOf_map_img (c : List SScreen) (g : SScreen → Img) (sel : SScreen → Prop) [DecidablePred sel] :
    dimsOf (c.map fun p => if sel p then { p with img := g p } else p) = dimsOf c := by
  unfold dimsOf
  rw [List.map_map]
  apply List.map_congr_left
  intro p _
  simp only [Function.comp]
  split <;> rfl

theorem refs_map_img {s : Srv} {cs : List Client} (hr : Refs s cs) (g : SScreen → Img) (sel : SScreen → Prop) [DecidablePred sel] :
    Refs { s with chain := s.chain.map fun p => if sel p then { p with img := g p } else p } cs := by
  constructor
  · exact hr.main
  · intro p hp
    obtain ⟨q, hq, rfl⟩ := List.mem_map.mp hp
    split <;> exact hr.chain q hq

theorem shape_map_img {s : Srv} (hs : Shape s) (g : SScreen → Img) (sel : SScreen → Prop) [DecidablePred sel] :
    Shape { s with chain := s.chain.map fun p => if sel p then { p with img := g p } else p } := by
  have c := dimsOf_map_img s.chain g sel
  exact ⟨by show _ ∉ dimsOf _; rw [c]; exact hs.notMain, by show (dimsOf _).Nodup; rw [c]; exact hs.distinct,
         by show ∀ d ∈ dimsOf _, _; rw [c]; exact hs.pos⟩

end VncModel.Scale

namespace VncModel.Scale

/-! ### client-list facts -/

theorem setClient_ids (cs : List Client) (i : Nat) (f : Client → Client) (hf : ∀ c, (f c).id = c.id) :
    (setClient cs i f).map (·.id) = cs.map (·.id) := by
  unfold setClient
  rw [List.map_map]
  apply List.map_congr_left
  intro c _
  simp only [Function.comp]
  split
  · exact hf c
  · rfl

theorem mem_setClient {cs : List Client} {i : Nat} {f : Client → Client} {c : Client}
    (h : c ∈ setClient cs i f) : c ∈ cs ∨ ∃ d ∈ cs, d.id = i ∧ c = f d := by
  unfold setClient at h
  obtain ⟨d, hd, rfl⟩ := List.mem_map.mp h
  by_cases e : d.id = i
  · right; exact ⟨d, hd, e, by simp [e]⟩
  · left; simpa [e] using hd

theorem find_unique {cs : List Client} {i : Nat} {c d : Client} (hn : (cs.map (·.id)).Nodup)
    (hf : cs.find? (·.id == i) = some c) (hd : d ∈ cs) (hi : d.id = i) : d = c := by
  induction cs with
  | nil => simp at hd
  | cons x xs ih =>
    rw [List.find?_cons] at hf
    simp only [List.map_cons, List.nodup_cons] at hn
    by_cases hx : x.id = i
    · have e : (x.id == i) = true := by simp [hx]
      rw [e] at hf
      simp only [Option.some.injEq] at hf
      subst hf
      rcases List.mem_cons.mp hd with h | h
      · exact h
      · exfalso; apply hn.1
        exact List.mem_map.mpr ⟨d, h, by rw [hi, hx]⟩
    · have e : (x.id == i) = false := by simp [hx]
      rw [e] at hf
      rcases List.mem_cons.mp hd with h | h
      · subst h; exact absurd hi hx
      · exact ih hn.2 hf h

theorem users_setClient_flags (cs : List Client) (i : Nat) (f : Client → Client)
    (hf : ∀ c, (f c).sw = c.sw ∧ (f c).sh = c.sh) (w h : Nat) :
    users (setClient cs i f) w h = users cs w h := by
  unfold users setClient
  rw [List.countP_map]
  apply List.countP_congr
  intro c _
  simp only [Function.comp]
  split
  · rw [(hf c).1, (hf c).2]
  · rfl

theorem users_zero_of_unknown {s : Srv} (hk : ∀ c ∈ s.clients, (c.sw, c.sh) = (s.main.w, s.main.h) ∨ (c.sw, c.sh) ∈ dimsOf s.chain)
    {w h : Nat} (hm : ¬ (s.main.w = w ∧ s.main.h = h)) (hc : (w, h) ∉ dimsOf s.chain) :
    users s.clients w h = 0 := by
  unfold users
  apply List.countP_eq_zero.mpr
  intro c hcm hp
  have hp' : c.sw = w ∧ c.sh = h := by simpa using hp
  rcases hk c hcm with e | e
  · apply hm
    have := Prod.mk.inj e
    exact ⟨by rw [← this.1, hp'.1], by rw [← this.2, hp'.2]⟩
  · apply hc; rw [← hp'.1, ← hp'.2]; exact e

theorem findChain_none {c : List SScreen} {w h : Nat} (hn : (findChain c w h).isSome = false) :
    (w, h) ∉ dimsOf c := by
  intro hm
  unfold dimsOf at hm
  obtain ⟨p, hp, e⟩ := List.mem_map.mp hm
  have e' := Prod.mk.inj e
  have : (findChain c w h).isSome = true := by
    unfold findChain
    rw [List.find?_isSome]
    exact ⟨p, hp, by simp [e'.1, e'.2]⟩
  rw [this] at hn; cases hn

theorem findChain_some {c : List SScreen} {w h : Nat} (hn : (findChain c w h).isSome = true) :
    (w, h) ∈ dimsOf c := by
  unfold findChain at hn
  rw [List.find?_isSome] at hn
  obtain ⟨p, hp, e⟩ := hn
  have e' : p.w = w ∧ p.h = h := by simpa using e
  unfold dimsOf
  exact List.mem_map.mpr ⟨p, hp, by rw [e'.1, e'.2]⟩

/-! ### preservation -/

theorem inv_setFlags {s : Srv} (hi : Inv s) (i : Nat) (f : Client → Client)
    (hf : ∀ c, (f c).id = c.id ∧ (f c).sw = c.sw ∧ (f c).sh = c.sh) :
    Inv { s with clients := setClient s.clients i f } := by
  refine ⟨⟨hi.shape.notMain, hi.shape.distinct, hi.shape.pos⟩, ⟨?_, ?_⟩, ?_, ?_⟩
  · show s.main.ref = _
    rw [users_setClient_flags _ _ _ (fun c => (hf c).2)]; exact hi.refs.main
  · intro p hp
    show p.ref = _
    rw [users_setClient_flags _ _ _ (fun c => (hf c).2)]; exact hi.refs.chain p hp
  · show ((setClient s.clients i f).map (·.id)).Nodup
    rw [setClient_ids _ _ _ (fun c => (hf c).1)]; exact hi.ids
  · intro c hc
    rcases mem_setClient hc with h | ⟨d, hd, _, rfl⟩
    · exact hi.known c h
    · rw [(hf d).2.1, (hf d).2.2]; exact hi.known d hd

/-- a client leaves (also: scale factor 0) -/
theorem inv_remove {s : Srv} (hi : Inv s) {i : Nat} {c : Client}
    (hf : s.clients.find? (·.id == i) = some c) :
    Inv (removeClient s c i) := by
  show Inv { bump s c.sw c.sh (-1) with clients := (bump s c.sw c.sh (-1)).clients.filter (·.id != i) }
  have m := bump_main_dims s c.sw c.sh (-1)
  have cd := bump_dims s c.sw c.sh (-1)
  have hr : Refs (bump s c.sw c.sh (-1)) (s.clients.filter (·.id != i)) := by
    apply refs_bump hi.shape hi.refs
    intro kw kh
    rw [users_filter_ne hi.ids hf]
    split <;> omega
  have hsh := shape_bump hi.shape c.sw c.sh (-1)
  refine ⟨⟨hsh.notMain, hsh.distinct, hsh.pos⟩, ⟨?_, ?_⟩, ?_, ?_⟩
  · show (bump s c.sw c.sh (-1)).main.ref = _
    rw [m.2.2.2.2]; exact hr.main
  · intro p hp
    show p.ref = _
    rw [m.2.2.2.2]; exact hr.chain p hp
  · show (((bump s c.sw c.sh (-1)).clients.filter (·.id != i)).map (·.id)).Nodup
    rw [m.2.2.2.2]
    exact List.Nodup.sublist (List.Sublist.map _ (List.filter_sublist)) hi.ids
  · intro d hd
    have hd' : d ∈ s.clients := by
      have : d ∈ (bump s c.sw c.sh (-1)).clients.filter (·.id != i) := hd
      rw [m.2.2.2.2] at this
      exact (List.mem_filter.mp this).1
    show (d.sw, d.sh) = ((bump s c.sw c.sh (-1)).main.w, (bump s c.sw c.sh (-1)).main.h) ∨
         (d.sw, d.sh) ∈ dimsOf (bump s c.sw c.sh (-1)).chain
    rw [m.1, m.2.1, cd]; exact hi.known d hd'

theorem inv_join {s : Srv} (hi : Inv s) (id : Nat) (nfs : Bool)
    (hnew : s.clients.any (·.id == id) = false) :
    Inv (addClient s id nfs) := by
  show Inv { bump s s.main.w s.main.h 1 with
          clients := (bump s s.main.w s.main.h 1).clients ++
            [{ id := id, sw := s.main.w, sh := s.main.h, nfs := nfs }] }
  have m := bump_main_dims s s.main.w s.main.h 1
  have cd := bump_dims s s.main.w s.main.h 1
  have hr : Refs (bump s s.main.w s.main.h 1)
      (s.clients ++ [{ id := id, sw := s.main.w, sh := s.main.h, nfs := nfs }]) := by
    apply refs_bump hi.shape hi.refs
    intro kw kh
    rw [users_append_one]
  have hsh := shape_bump hi.shape s.main.w s.main.h 1
  refine ⟨⟨hsh.notMain, hsh.distinct, hsh.pos⟩, ⟨?_, ?_⟩, ?_, ?_⟩
  · show (bump s s.main.w s.main.h 1).main.ref = _
    rw [m.2.2.2.2]; exact hr.main
  · intro p hp
    show p.ref = _
    rw [m.2.2.2.2]; exact hr.chain p hp
  · show (((bump s s.main.w s.main.h 1).clients ++ _).map (·.id)).Nodup
    rw [m.2.2.2.2, List.map_append]
    apply List.nodup_append.mpr
    refine ⟨hi.ids, by simp, ?_⟩
    intro a ha b hb
    have hb' : b = id := by simpa using hb
    intro e
    obtain ⟨c, hc, hce⟩ := List.mem_map.mp ha
    have hcid : c.id = id := hce.trans (e.trans hb')
    have : s.clients.any (·.id == id) = true := List.any_eq_true.mpr ⟨c, hc, by simp [hcid]⟩
    rw [this] at hnew; cases hnew
  · intro d hd
    have hd' : d ∈ (bump s s.main.w s.main.h 1).clients ++
        [{ id := id, sw := s.main.w, sh := s.main.h, nfs := nfs }] := hd
    rw [m.2.2.2.2] at hd'
    show (d.sw, d.sh) = ((bump s s.main.w s.main.h 1).main.w, (bump s s.main.w s.main.h 1).main.h) ∨
         (d.sw, d.sh) ∈ dimsOf (bump s s.main.w s.main.h 1).chain
    rw [m.1, m.2.1, cd]
    rcases List.mem_append.mp hd' with h | h
    · exact hi.known d h
    · simp only [List.mem_singleton] at h
      subst h; left; rfl

end VncModel.Scale

namespace VncModel.Scale

theorem inv_mk (s' : Srv) (cs' : List Client) (h1 : Shape s') (h2 : Refs s' cs')
    (h3 : (cs'.map (·.id)).Nodup)
    (h4 : ∀ c ∈ cs', (c.sw, c.sh) = (s'.main.w, s'.main.h) ∨ (c.sw, c.sh) ∈ dimsOf s'.chain) :
    Inv { s' with clients := cs' } :=
  ⟨⟨h1.notMain, h1.distinct, h1.pos⟩, ⟨h2.main, h2.chain⟩, h3, h4⟩

/-- rfbScaledScreenAllocate succeeded: a fresh, unreferenced screen is put in front of the chain -/
theorem inv_alloc {s : Srv} (hi : Inv s) {w h : Nat} (img : Img)
    (hm : isMain s w h = false) (hf : (findChain s.chain w h).isSome = false)
    (hw : 0 < w) (hh : 0 < h) :
    Inv { s with chain := ⟨w, h, 0, img⟩ :: s.chain } := by
  have hm' : ¬ (s.main.w = w ∧ s.main.h = h) := by
    intro e; have := (isMain_iff s w h).mpr e; rw [this] at hm; cases hm
  have hnc := findChain_none hf
  refine ⟨⟨?_, ?_, ?_⟩, ⟨hi.refs.main, ?_⟩, hi.ids, ?_⟩
  · show (s.main.w, s.main.h) ∉ (w, h) :: dimsOf s.chain
    intro hmem
    rcases List.mem_cons.mp hmem with e | e
    · have := Prod.mk.inj e; exact hm' ⟨this.1, this.2⟩
    · exact hi.shape.notMain e
  · show ((w, h) :: dimsOf s.chain).Nodup
    exact List.nodup_cons.mpr ⟨hnc, hi.shape.distinct⟩
  · intro d hd
    have hd' : d ∈ (w, h) :: dimsOf s.chain := hd
    rcases List.mem_cons.mp hd' with e | e
    · subst e; exact ⟨hw, hh⟩
    · exact hi.shape.pos d e
  · intro p hp
    have hp' : p ∈ (⟨w, h, 0, img⟩ : SScreen) :: s.chain := hp
    rcases List.mem_cons.mp hp' with e | e
    · subst e
      show (0 : Int) = _
      rw [users_zero_of_unknown hi.known hm' hnc]; rfl
    · exact hi.refs.chain p e
  · intro c hc
    rcases hi.known c hc with e | e
    · left; exact e
    · right; show _ ∈ (w, h) :: dimsOf s.chain; exact List.mem_cons_of_mem _ e

theorem inv_map_img {s : Srv} (hi : Inv s) (g : SScreen → Img) (sel : SScreen → Prop) [DecidablePred sel] :
    Inv { s with chain := s.chain.map fun p => if sel p then { p with img := g p } else p } := by
  have c := dimsOf_map_img s.chain g sel
  refine ⟨shape_map_img hi.shape g sel, refs_map_img hi.refs g sel, hi.ids, ?_⟩
  intro d hd
  show _ ∨ (d.sw, d.sh) ∈ dimsOf _
  rw [c]; exact hi.known d hd

/-- the refcount hand-over of rfbScalingSetup: `cl->scaledScreen->ref--, ptr->ref++, cl->scaledScreen = ptr` -/
theorem inv_move {s : Srv} (hi : Inv s) {i : Nat} {c : Client} (hf : s.clients.find? (·.id == i) = some c)
    {w h : Nat} (ht : (w, h) = (s.main.w, s.main.h) ∨ (w, h) ∈ dimsOf s.chain) (g : Client → Client)
    (hg : ∀ c, (g c).id = c.id ∧ (g c).sw = w ∧ (g c).sh = h) :
    Inv { bump (bump s c.sw c.sh (-1)) w h 1 with
          clients := setClient (bump (bump s c.sw c.sh (-1)) w h 1).clients i g } := by
  have m3 := bump_main_dims s c.sw c.sh (-1)
  have c3 := bump_dims s c.sw c.sh (-1)
  have m4 := bump_main_dims (bump s c.sw c.sh (-1)) w h 1
  have c4 := bump_dims (bump s c.sw c.sh (-1)) w h 1
  have sh3 := shape_bump hi.shape c.sw c.sh (-1)
  have sh4 := shape_bump sh3 w h 1
  have r3 : Refs (bump s c.sw c.sh (-1)) (s.clients.filter (·.id != i)) := by
    apply refs_bump hi.shape hi.refs
    intro kw kh
    rw [users_filter_ne hi.ids hf]
    split <;> omega
  have r4 : Refs (bump (bump s c.sw c.sh (-1)) w h 1) (setClient s.clients i g) := by
    apply refs_bump sh3 r3
    intro kw kh
    rw [users_setClient g hi.ids hf, (hg c).2.1, (hg c).2.2]
  have hcl : (bump (bump s c.sw c.sh (-1)) w h 1).clients = s.clients := by rw [m4.2.2.2.2, m3.2.2.2.2]
  rw [hcl]
  apply inv_mk _ _ sh4 r4
  · rw [setClient_ids _ _ _ (fun c => (hg c).1)]; exact hi.ids
  · intro d hd
    rw [m4.1, m4.2.1, m3.1, m3.2.1, c4, c3]
    rcases mem_setClient hd with e | ⟨x, _, _, rfl⟩
    · exact hi.known d e
    · rw [(hg x).2.1, (hg x).2.2]; exact ht

theorem inv_scalingSetup {s : Srv} (hi : Inv s) {i : Nat} {c : Client}
    (hf : s.clients.find? (·.id == i) = some c) (w h : Nat) :
    Inv (scalingSetup s c w h) := by
  have hid : c.id = i := by simpa using List.find?_some hf
  unfold scalingSetup
  by_cases hfound : (isMain s w h || (findChain s.chain w h).isSome) = true
  · simp only [hfound, if_true]
    have ht : (w, h) = (s.main.w, s.main.h) ∨ (w, h) ∈ dimsOf s.chain := by
      rcases Bool.or_eq_true _ _ ▸ hfound with e | e
      · left; have := (isMain_iff s w h).mp e; rw [this.1, this.2]
      · right; exact findChain_some e
    split
    · -- refresh branch
      rw [hid]
      have hi2 := inv_map_img hi (fun p => updateRect s.fmt s.main.img p.img (fullRect s))
        (fun p => (p.w == w && p.h == h) = true)
      have hf2 : ({ s with chain := refreshChain s w h } : Srv).clients.find? (·.id == i) = some c := hf
      have ht2 : (w, h) = (({ s with chain := refreshChain s w h } : Srv).main.w, ({ s with chain := refreshChain s w h } : Srv).main.h)
          ∨ (w, h) ∈ dimsOf ({ s with chain := refreshChain s w h } : Srv).chain := by
        rcases ht with e | e
        · left; exact e
        · right
          show (w, h) ∈ dimsOf (refreshChain s w h)
          unfold refreshChain
          rw [dimsOf_map_img s.chain (fun p => updateRect s.fmt s.main.img p.img (fullRect s))
            (fun p => (p.w == w && p.h == h) = true)]
          exact e
      exact inv_move (s := { s with chain := refreshChain s w h }) hi2 hf2 ht2 _
        (fun c => ⟨rfl, rfl, rfl⟩)
    · rw [hid]
      exact inv_move hi hf ht _ (fun c => ⟨rfl, rfl, rfl⟩)
  · have hnf : (isMain s w h || (findChain s.chain w h).isSome) = false := by simpa using hfound
    simp only [hnf]
    have hm : isMain s w h = false := by
      cases e : isMain s w h
      · rfl
      · rw [e] at hnf; simp at hnf
    have hfc : (findChain s.chain w h).isSome = false := by
      cases e : (findChain s.chain w h).isSome
      · rfl
      · rw [e] at hnf; simp at hnf
    unfold allocate
    by_cases hz : w = 0 ∨ h = 0
    · simp only [hz, if_true, Bool.false_eq_true, if_false]; exact hi
    · simp only [hz, if_false, Bool.false_eq_true]
      have hw : 0 < w := by omega
      have hh : 0 < h := by omega
      let img0 := updateRect s.fmt s.main.img (Img.tabulate w h fun _ _ => 0) (fullRect s)
      have hi1 := inv_alloc hi img0 hm hfc hw hh
      have hf1 : ({ s with chain := ⟨w, h, 0, img0⟩ :: s.chain } : Srv).clients.find? (·.id == i) = some c := hf
      have ht1 : (w, h) = (({ s with chain := ⟨w, h, 0, img0⟩ :: s.chain } : Srv).main.w,
                          ({ s with chain := ⟨w, h, 0, img0⟩ :: s.chain } : Srv).main.h)
          ∨ (w, h) ∈ dimsOf ({ s with chain := ⟨w, h, 0, img0⟩ :: s.chain } : Srv).chain := by
        right; show (w, h) ∈ (w, h) :: dimsOf s.chain; exact List.mem_cons_self
      split
      · rw [hid]
        have hi2 := inv_map_img hi1
          (fun p => updateRect s.fmt s.main.img p.img (fullRect { s with chain := ⟨w, h, 0, img0⟩ :: s.chain }))
          (fun p => (p.w == w && p.h == h) = true)
        have ht2 : (w, h) = (s.main.w, s.main.h) ∨
            (w, h) ∈ dimsOf (refreshChain { s with chain := ⟨w, h, 0, img0⟩ :: s.chain } w h) := by
          right
          unfold refreshChain
          rw [dimsOf_map_img]
          exact List.mem_cons_self
        exact inv_move (s := { s with chain := refreshChain { s with chain := ⟨w, h, 0, img0⟩ :: s.chain } w h })
          hi2 hf ht2 _ (fun c => ⟨rfl, rfl, rfl⟩)
      · rw [hid]
        exact inv_move hi1 hf1 ht1 _ (fun c => ⟨rfl, rfl, rfl⟩)

theorem find_setClient {cs : List Client} {i : Nat} (f : Client → Client) (hf : ∀ c, (f c).id = c.id) :
    (setClient cs i f).find? (·.id == i) = (cs.find? (·.id == i)).map f := by
  induction cs with
  | nil => rfl
  | cons d ds ih =>
    by_cases hd : d.id = i
    · simp [setClient, List.find?_cons, hd, hf]
    · have : setClient (d :: ds) i f = d :: setClient ds i f := by simp [setClient, hd]
      rw [this, List.find?_cons, List.find?_cons]
      have e : (d.id == i) = false := by simp [hd]
      rw [e]; exact ih

theorem inv_step {s : Srv} (hi : Inv s) (op : Op) : Inv (step s op) := by
  cases op with
  | join id nfs =>
    show Inv (if s.clients.any (·.id == id) then s else addClient s id nfs)
    by_cases ha : s.clients.any (·.id == id) = true
    · simp only [ha, if_true]; exact hi
    · have ha' : s.clients.any (·.id == id) = false := by simpa using ha
      simp only [ha']
      exact inv_join hi id nfs ha'
  | setScale id palm n =>
    show Inv (setScaleCore (setPalm s id palm) id n)
    have hi0 : Inv (setPalm s id palm) := by
      unfold setPalm
      split
      · exact inv_setFlags hi id _ (fun c => ⟨rfl, rfl, rfl⟩)
      · exact hi
    generalize setPalm s id palm = s0 at hi0
    unfold setScaleCore
    split
    · exact hi0
    · rename_i c hf
      split
      · exact inv_remove hi0 hf
      · exact inv_scalingSetup hi0 hf _ _
  | leave id =>
    show Inv (match s.clients.find? (·.id == id) with
      | none => s
      | some c => removeClient s c id)
    split
    · exact hi
    · rename_i c hf
      exact inv_remove hi hf
  | modify r =>
    exact inv_map_img hi (fun p => updateRect s.fmt s.main.img p.img r) (fun p => p.ref > 0)

theorem inv_init (f : Fmt) (fb : Img) : Inv (init f fb) := by
  refine ⟨⟨by simp [init, dimsOf], by simp [init, dimsOf], by simp [init, dimsOf]⟩,
          ⟨by simp [init, users], by simp [init]⟩, by simp [init], by simp [init]⟩

theorem inv_run {s : Srv} (hi : Inv s) (ops : List Op) : Inv (run s ops) := by
  unfold run
  induction ops generalizing s with
  | nil => exact hi
  | cons op ops ih => exact ih (inv_step hi op)

end VncModel.Scale
