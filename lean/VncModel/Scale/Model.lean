/-
Executable model of server-side scaling (`src/libvncserver/scale.c` and its users in
`rfbserver.c` / `main.c`).  Core Lean only.

The model follows the code WITH the three C17 fixes applied (fixes/C17-*.diff):
  A  `ScaleX/ScaleY` use exact integer arithmetic `x*to/from` (the unfixed code divides first in
     floating point, which truncates exact quotients downwards: (1.0/49)*98 -> 1);
  B  `rfbScaledScreenAllocate` rejects width 0 as well as height 0;
  C  `rfbScaledScreenUpdateRect` takes the source block of destination pixel (X,Y) at
     (ScaleX(X), ScaleY(Y)) for every pixel (the unfixed code does so only for the first pixel of
     the rectangle being refreshed and steps by the block size from there, so that full and
     partial refreshes disagree when the factor does not divide the screen size).

C ↔ model
  ScaleX(from,to,x) / ScaleY                 ↔ `scaleN x from to`   (the `from==to` shortcut is the
                                                `same` branch of `scalePt` / `corr`)
  double (IEEE-754 binary64, RNE)            ↔ `Dy` = non-negative dyadic `m·2^e`; `rne` rounds a
                                                non-negative rational to 53 significant bits
  rfbScaledCorrection (1 dimension)          ↔ `corr1 fw tw x w`
  rfbScaledCorrection                        ↔ `corr`
  rectSwapIfLEAndClip                        ↔ `clipReq`
  rfbScaledScreenUpdateRect                  ↔ `updateRect` (functional: every destination pixel of
                                                the corrected rectangle := `filterPixel`)
  byte offsets of the filter loops           ↔ `srcByteIndex`, `dstByteIndex`
  rfbScalingFind/Allocate/Setup, refcounts   ↔ `Model` state machine in `State.lean`
-/
namespace VncModel.Scale

/-! ## ScaleX / ScaleY (fixed code: integer arithmetic, truncating division, operands ≥ 0) -/

/-- `ScaleX(from,to,x)` for `from != to`: `(int)(((int64_t)x * to->width) / from->width)` -/
def scaleN (x fw tw : Nat) : Nat := x * tw / fw

/-! ## software model of the double arithmetic in rfbScaledCorrection -/

/-- a non-negative finite double: value `m · 2^e` -/
structure Dy where
  m : Nat
  e : Int
  deriving Repr, DecidableEq

/-- `(⌊n·2^s / d⌋, remainder, effective denominator)` -/
def scaledDivRem (n d : Nat) (s : Int) : Nat × Nat × Nat :=
  if s ≥ 0 then
    let n' := n <<< s.toNat
    (n' / d, n' % d, d)
  else
    let d' := d <<< (-s).toNat
    (n / d', n % d', d')

/-- round the non-negative rational `num/den` (`den > 0`) to the nearest double, ties to even.
No overflow / subnormal handling: every value in rfbScaledCorrection with 16-bit operands lies in
[2^-32, 2^33]. -/
def rne (num den : Nat) : Dy :=
  if num = 0 then ⟨0, 0⟩ else
  let ln : Int := Nat.log2 num
  let ld : Int := Nat.log2 den
  let s0 : Int := 52 - (ln - ld)
  let q0 := (scaledDivRem num den s0).1
  let s := if q0 < 2 ^ 52 then s0 + 1 else s0
  let (q, r, d) := scaledDivRem num den s
  let q' := if 2 * r > d ∨ (2 * r = d ∧ q % 2 = 1) then q + 1 else q
  ⟨q', -s⟩

def Dy.ofNat (n : Nat) : Dy := ⟨n, 0⟩

/-- exact value as a fraction -/
def Dy.frac (a : Dy) : Nat × Nat :=
  if a.e ≥ 0 then (a.m <<< a.e.toNat, 1) else (a.m, 1 <<< (-a.e).toNat)

def fdiv (a b : Dy) : Dy := rne (a.frac.1 * b.frac.2) (a.frac.2 * b.frac.1)
def fmul (a b : Dy) : Dy := rne (a.frac.1 * b.frac.1) (a.frac.2 * b.frac.2)
def fadd (a b : Dy) : Dy := rne (a.frac.1 * b.frac.2 + b.frac.1 * a.frac.2) (a.frac.2 * b.frac.2)
/-- `a - b` for `a ≥ b` (the only use is `x1 - FLOOR(x1)`) -/
def fsub (a b : Dy) : Dy := rne (a.frac.1 * b.frac.2 - b.frac.1 * a.frac.2) (a.frac.2 * b.frac.2)
/-- `(int) x` -/
def ffloor (a : Dy) : Nat := a.frac.1 / a.frac.2
/-- the `CEIL` macro -/
def fceil (a : Dy) : Nat := if a.frac.1 % a.frac.2 = 0 then a.frac.1 / a.frac.2 else a.frac.1 / a.frac.2 + 1

/-- the double part of rfbScaledCorrection in one dimension: `(x2, w2)` before the
`w==0` / overstep adjustments -/
def corrRaw (fw tw x w : Nat) : Nat × Nat :=
  let sc := fdiv (Dy.ofNat tw) (Dy.ofNat fw)
  let x1 := fmul (Dy.ofNat x) sc
  let w1 := fmul (Dy.ofNat w) sc
  let x2 := ffloor x1
  let w2 := fceil (fadd w1 (fsub x1 (Dy.ofNat x2)))
  (x2, w2)

/-- the integer tail of rfbScaledCorrection: `if (w==0) w++; if (x+w > to) w = to - x` -/
def corrFix (tw : Nat) (r : Nat × Nat) : Nat × Int :=
  let w3 := if r.2 = 0 then 1 else r.2
  (r.1, if r.1 + w3 > tw then (tw : Int) - r.1 else w3)

/-- rfbScaledCorrection in one dimension (from `fw` to `tw`, `from != to`) -/
def corr1 (fw tw x w : Nat) : Nat × Int := corrFix tw (corrRaw fw tw x w)

structure Rect where
  x : Int
  y : Int
  w : Int
  h : Int
  deriving Repr, DecidableEq, Inhabited

/-- rfbScaledCorrection(from, to, &x,&y,&w,&h); `same` is the `from==to` early return.
Coordinates are non-negative in every caller (wire values are unsigned, region rectangles are
clipped to the screen); `toNat` never truncates on those. -/
def corr (same : Bool) (fw fh tw th : Nat) (r : Rect) : Rect :=
  if same then r else
  let cx := corr1 fw tw r.x.toNat r.w.toNat
  let cy := corr1 fh th r.y.toNat r.h.toNat
  ⟨cx.1, cy.1, cx.2, cy.2⟩

def u16 (i : Int) : Int := i % 65536

/-- rectSwapIfLEAndClip: wire rectangle (client = scaled coordinates, 16-bit) to a screen
rectangle; `none` = the request is ignored.  `W H` screen, `tw th` the client's scaled screen. -/
def clipReq (same : Bool) (W H tw th : Nat) (r : Rect) : Option Rect :=
  let c := corr same tw th W H r
  let x := u16 c.x; let y := u16 c.y; let w := u16 c.w; let h := u16 c.h
  let w := if w > (W : Int) - x then u16 ((W : Int) - x) else w
  if w > (W : Int) - x then none else
  let h := if h > (H : Int) - y then u16 ((H : Int) - y) else h
  if h > (H : Int) - y then none else
  some ⟨x, y, w, h⟩

/-! ## images and the box filter -/

structure Img where
  w : Nat
  h : Nat
  px : Array Nat
  deriving Inhabited

/-- pixel read.  Out-of-range reads yield 0 here; `Props.C17.filter_reads_inside_source` shows that
the filter never performs one (and the byte-level statement is about `srcByteIndex`). -/
def Img.get (i : Img) (x y : Nat) : Nat := i.px.getD (y * i.w + x) 0

def Img.tabulate (w h : Nat) (f : Nat → Nat → Nat) : Img :=
  ⟨w, h, Array.ofFn (n := w * h) fun k => f (k.val % w) (k.val / w)⟩

structure Fmt where
  bpp : Nat            -- bytes per pixel
  trueColour : Bool
  rMax : Nat
  gMax : Nat
  bMax : Nat
  rSh : Nat
  gSh : Nat
  bSh : Nat
  deriving Repr, Inhabited

/-- sum of one channel over the `a × b` block at `(ox, oy)` -/
def blockSum (src : Img) (sh mx : Nat) (a b ox oy : Nat) : Nat :=
  (List.range a).foldl (fun acc i =>
    (List.range b).foldl (fun acc j => acc + ((src.get (ox + i) (oy + j) >>> sh) &&& mx)) acc) 0

/-- one destination pixel of rfbScaledScreenUpdateRect: per-channel `sum / area2`, recomposed;
colour-mapped screens take the top-left pixel of the block -/
def filterPixel (f : Fmt) (src : Img) (a b ox oy : Nat) : Nat :=
  if f.trueColour then
    let r := blockSum src f.rSh f.rMax a b ox oy / (a * b)
    let g := blockSum src f.gSh f.gMax a b ox oy / (a * b)
    let bl := blockSum src f.bSh f.bMax a b ox oy / (a * b)
    (((r &&& f.rMax) <<< f.rSh) ||| ((g &&& f.gMax) <<< f.gSh) ||| ((bl &&& f.bMax) <<< f.bSh))
      % 2 ^ (8 * f.bpp)
  else src.get ox oy

/-- the value the scaled copy (`tw × th`) of `src` holds at `(X,Y)` once refreshed:
block size `areaX × areaY = ScaleX(ptr,screen,1) × ScaleY(ptr,screen,1)`, block origin
`(ScaleX(ptr,screen,X), ScaleY(ptr,screen,Y))` -/
def scaledPixel (f : Fmt) (src : Img) (tw th X Y : Nat) : Nat :=
  filterPixel f src (scaleN 1 tw src.w) (scaleN 1 th src.h) (scaleN X tw src.w) (scaleN Y th src.h)

/-- is `(X,Y)` inside the (possibly degenerate) rectangle -/
def Rect.has (r : Rect) (X Y : Nat) : Bool :=
  decide (r.x ≤ X ∧ (X : Int) < r.x + r.w ∧ r.y ≤ Y ∧ (Y : Int) < r.y + r.h)

/-- rfbScaledScreenUpdateRect(screen, ptr, x0,y0,w0,h0) for `ptr != screen`: the corrected
rectangle of the scaled copy is recomputed, everything else is left alone. -/
def updateRect (f : Fmt) (src dst : Img) (r : Rect) : Img :=
  let c := corr false src.w src.h dst.w dst.h r
  Img.tabulate dst.w dst.h fun X Y =>
    if c.has X Y then scaledPixel f src dst.w dst.h X Y else dst.get X Y

/-- the reduced image the property speaks about -/
def reference (f : Fmt) (src : Img) (tw th : Nat) : Img :=
  Img.tabulate tw th fun X Y => scaledPixel f src tw th X Y

/-! ## byte offsets used by the C loops (for the memory-safety statements) -/

/-- offset (into `screen->frameBuffer`) of the first byte of the source pixel read for
destination pixel `(X,Y)`, block position `(i,j)`; `stride = screen->paddedWidthInBytes` -/
def srcByteIndex (W H tw th stride bpp X Y i j : Nat) : Nat :=
  (scaleN Y th H + j) * stride + (scaleN X tw W + i) * bpp

/-- offset (into `ptr->frameBuffer`) of the first byte written for destination pixel `(X,Y)` -/
def dstByteIndex (pstride bpp X Y : Nat) : Nat := Y * pstride + X * bpp

/-- `pad4` -/
def pad4 (v : Nat) : Nat := if v % 4 = 0 then v else v + 4 - v % 4

end VncModel.Scale
