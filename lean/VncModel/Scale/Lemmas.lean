import VncModel.Scale.State
/-
Helper lemmas for Props/C17.lean: integer facts about `scaleN`, the relational bounds `CorrRel`
on the double part of rfbScaledCorrection, images, the box filter.  Core Lean only.
-/
namespace VncModel.Scale

/-! ## the relational over-approximation of the double arithmetic -/

/-- What the theorems use about the double evaluation in rfbScaledCorrection (one dimension, from
`fw` to `tw`, input `x`,`w`): with `X = x·tw/fw` and `V = (x+w)·tw/fw` (exact rationals)
`x2 ≤ X ≤ x2+1` and `V ≤ x2+w2 < V+2`.
IEEE reasoning (docs/C17.md): every intermediate has relative error ≤ 2⁻⁵³ per operation, the
operands are < 2¹⁶, so the absolute error of `x1`, `w1+(x1-x2)` is < 2⁻³⁰, while a non-integer
multiple of `1/fw` is at distance ≥ 2⁻¹⁶ from the next integer: FLOOR/CEIL can only be off by one,
and only in the direction allowed here, when the exact value is an integer. -/
structure CorrRel (fw tw x w : Nat) (r : Nat × Nat) : Prop where
  lo  : r.1 * fw ≤ x * tw
  lo' : x * tw ≤ (r.1 + 1) * fw
  hi  : (x + w) * tw ≤ (r.1 + r.2) * fw
  hi' : (r.1 + r.2) * fw < (x + w) * tw + 2 * fw

instance (fw tw x w : Nat) (r : Nat × Nat) : Decidable (CorrRel fw tw x w r) :=
  if h : r.1 * fw ≤ x * tw ∧ x * tw ≤ (r.1 + 1) * fw ∧ (x + w) * tw ≤ (r.1 + r.2) * fw ∧
      (r.1 + r.2) * fw < (x + w) * tw + 2 * fw
  then isTrue ⟨h.1, h.2.1, h.2.2.1, h.2.2.2⟩
  else isFalse fun c => h ⟨c.lo, c.lo', c.hi, c.hi'⟩

/-! ## integer facts -/

theorem lt_of_mul_le_mul_lt {r1 fw x tw : Nat} (h : r1 * fw ≤ x * tw) (hx : x < fw) (htw : 0 < tw) :
    r1 < tw := by
  have h1 : x * tw < fw * tw := Nat.mul_lt_mul_of_pos_right hx htw
  have h2 : r1 * fw < tw * fw := by rw [Nat.mul_comm tw fw]; omega
  exact Nat.lt_of_mul_lt_mul_right h2

theorem scaleN_mul_le (x fw tw : Nat) : scaleN x fw tw * fw ≤ x * tw := by
  unfold scaleN; exact Nat.div_mul_le_self _ _

theorem lt_scaleN_succ_mul (x fw tw : Nat) (hfw : 0 < fw) : x * tw < (scaleN x fw tw + 1) * fw := by
  unfold scaleN
  have := Nat.lt_mul_div_succ (x * tw) hfw
  rw [Nat.mul_comm fw] at this; exact this

/-- block origin + block size stays inside the source: `ScaleX(X) + areaX ≤ W` for `X < tw` -/
theorem block_inside {W tw X : Nat} (htw : 0 < tw) (hX : X < tw) :
    scaleN X tw W + scaleN 1 tw W ≤ W := by
  have h1 := scaleN_mul_le X tw W
  have h2 := scaleN_mul_le 1 tw W
  have h3 : (X + 1) * W ≤ tw * W := Nat.mul_le_mul_right W hX
  have h4 : (scaleN X tw W + scaleN 1 tw W) * tw ≤ W * tw := by
    rw [Nat.add_mul, Nat.mul_comm W tw]
    rw [Nat.add_mul] at h3
    omega
  exact Nat.le_of_mul_le_mul_right h4 htw

theorem area_pos {W tw : Nat} (htw : 0 < tw) (h : tw ≤ W) : 0 < scaleN 1 tw W := by
  unfold scaleN
  rw [Nat.one_mul]
  exact Nat.div_pos h htw

/-- for a factor dividing the size the block of reduced pixel `X` is `[n·X, n·X+n)` -/
theorem block_dividing {W n X : Nat} (hn : 0 < n) (hd : n ∣ W) (hW : 0 < W) :
    scaleN 1 (W / n) W = n ∧ scaleN X (W / n) W = n * X := by
  obtain ⟨k, rfl⟩ := hd
  have hk : 0 < k := by
    rcases Nat.eq_zero_or_pos k with h | h
    · subst h; simp at hW
    · exact h
  have e : n * k / n = k := Nat.mul_div_cancel_left k hn
  unfold scaleN
  rw [e]
  constructor
  · rw [Nat.one_mul]; exact Nat.mul_div_cancel n hk
  · have : X * (n * k) = (n * X) * k := by
      rw [Nat.mul_comm X, Nat.mul_assoc, Nat.mul_comm k X, ← Nat.mul_assoc]
    rw [this]; exact Nat.mul_div_cancel _ hk

/-! ## corrFix -/

theorem corrFix_inside {fw tw x w : Nat} {r : Nat × Nat} (hrel : CorrRel fw tw x w r)
    (htw : 0 < tw) (hw : 1 ≤ w) (hxw : x + w ≤ fw) :
    r.1 < tw ∧ 1 ≤ (corrFix tw r).2 ∧ ((corrFix tw r).1 : Int) + (corrFix tw r).2 ≤ tw := by
  have hlt : r.1 < tw := lt_of_mul_le_mul_lt hrel.lo (by omega) htw
  refine ⟨hlt, ?_, ?_⟩ <;> (unfold corrFix; simp only; split <;> split <;> omega)

/-- coverage in one dimension: a source coordinate `sx` of the modified range `[x, x+w)` that lies
in the block `[ScaleX(X), ScaleX(X)+area)` of reduced coordinate `X < tw` forces `X` into the
corrected range -/
theorem corrFix_covers {fw tw x w X sx : Nat} {r : Nat × Nat} (hrel : CorrRel fw tw x w r)
    (htw : 0 < tw) (hX : X < tw)
    (h1 : x ≤ sx) (h2 : sx < x + w)
    (h3 : scaleN X tw fw ≤ sx) (h4 : sx < scaleN X tw fw + scaleN 1 tw fw) :
    (corrFix tw r).1 ≤ X ∧ (X : Int) < (corrFix tw r).1 + (corrFix tw r).2 := by
  have o1 := scaleN_mul_le X tw fw            -- o*tw ≤ X*fw
  have o2 := lt_scaleN_succ_mul X tw fw htw   -- X*fw < (o+1)*tw
  have a1 := scaleN_mul_le 1 tw fw            -- a*tw ≤ 1*fw
  rw [Nat.one_mul] at a1
  rw [Nat.add_mul, Nat.one_mul] at o2
  -- left end
  have hl : r.1 ≤ X := by
    apply Nat.le_of_not_lt
    intro hc
    have m1 : (X + 1) * fw ≤ r.1 * fw := Nat.mul_le_mul_right fw hc
    have m2 : x * tw ≤ sx * tw := Nat.mul_le_mul_right tw h1
    have m3 : (sx + 1) * tw ≤ (scaleN X tw fw + scaleN 1 tw fw) * tw := Nat.mul_le_mul_right tw h4
    rw [Nat.add_mul] at m1 m3
    rw [Nat.add_mul, Nat.one_mul] at m3
    rw [Nat.one_mul] at m1
    have := hrel.lo
    omega
  refine ⟨by simpa [corrFix] using hl, ?_⟩
  -- right end
  have hr : X < r.1 + r.2 := by
    apply Nat.lt_of_not_le
    intro hc
    have m1 : (r.1 + r.2) * fw ≤ X * fw := Nat.mul_le_mul_right fw hc
    have m2 : (sx + 1) * tw ≤ (x + w) * tw := Nat.mul_le_mul_right tw h2
    have m3 : scaleN X tw fw * tw ≤ sx * tw := Nat.mul_le_mul_right tw h3
    rw [Nat.add_mul, Nat.one_mul] at m2
    have := hrel.hi
    omega
  unfold corrFix; simp only
  split <;> split <;> omega

/-! ## images -/

theorem Img.get_tabulate (w h : Nat) (f : Nat → Nat → Nat) {x y : Nat} (hx : x < w) (hy : y < h) :
    (Img.tabulate w h f).get x y = f x y := by
  have hk : y * w + x < w * h := by
    have : (y + 1) * w ≤ h * w := Nat.mul_le_mul_right w hy
    rw [Nat.add_mul, Nat.one_mul, Nat.mul_comm h w] at this
    omega
  have hw : 0 < w := by omega
  have e1 : (y * w + x) % w = x := by
    rw [Nat.add_comm, Nat.add_mul_mod_self_right]; exact Nat.mod_eq_of_lt hx
  have e2 : (y * w + x) / w = y := by
    rw [Nat.add_comm, Nat.add_mul_div_right _ _ hw, Nat.div_eq_of_lt hx]; omega
  unfold Img.get Img.tabulate
  simp [Array.getD, hk, e1, e2]

theorem foldl_range_congr {α : Type} (f g : α → Nat → α) (n : Nat) (a : α)
    (h : ∀ acc i, i < n → f acc i = g acc i) :
    (List.range n).foldl f a = (List.range n).foldl g a := by
  have : ∀ (l : List Nat) (a : α), (∀ i ∈ l, i < n) → l.foldl f a = l.foldl g a := by
    intro l
    induction l with
    | nil => intro a _; rfl
    | cons x xs ih =>
      intro a hm
      simp only [List.foldl_cons]
      rw [h a x (hm x (by simp))]
      exact ih _ (fun i hi => hm i (by simp [hi]))
  exact this _ a (fun i hi => List.mem_range.mp hi)

/-- the channel sum only depends on the pixels of the block -/
theorem blockSum_congr (s s' : Img) (sh mx a b ox oy : Nat)
    (h : ∀ i j, i < a → j < b → s'.get (ox + i) (oy + j) = s.get (ox + i) (oy + j)) :
    blockSum s' sh mx a b ox oy = blockSum s sh mx a b ox oy := by
  unfold blockSum
  apply foldl_range_congr
  intro acc i hi
  apply foldl_range_congr
  intro acc2 j hj
  rw [h i j hi hj]

theorem filterPixel_congr (f : Fmt) (s s' : Img) (a b ox oy : Nat) (ha : 0 < a) (hb : 0 < b)
    (h : ∀ i j, i < a → j < b → s'.get (ox + i) (oy + j) = s.get (ox + i) (oy + j)) :
    filterPixel f s' a b ox oy = filterPixel f s a b ox oy := by
  unfold filterPixel
  split
  · rw [blockSum_congr s s' _ _ a b ox oy h, blockSum_congr s s' _ _ a b ox oy h,
        blockSum_congr s s' _ _ a b ox oy h]
  · have := h 0 0 ha hb
    simpa using this

end VncModel.Scale

namespace VncModel.Scale

/-! ## updateRect -/

theorem updateRect_dims (f : Fmt) (src dst : Img) (r : Rect) :
    (updateRect f src dst r).w = dst.w ∧ (updateRect f src dst r).h = dst.h := ⟨rfl, rfl⟩

theorem updateRect_get (f : Fmt) (src dst : Img) (r : Rect) {X Y : Nat} (hX : X < dst.w) (hY : Y < dst.h) :
    (updateRect f src dst r).get X Y =
      if (corr false src.w src.h dst.w dst.h r).has X Y then scaledPixel f src dst.w dst.h X Y
      else dst.get X Y := by
  unfold updateRect
  rw [Img.get_tabulate _ _ _ hX hY]

theorem corr_nat (fw fh tw th x y w h : Nat) :
    corr false fw fh tw th ⟨x, y, w, h⟩ =
      ⟨(corr1 fw tw x w).1, (corr1 fh th y h).1, (corr1 fw tw x w).2, (corr1 fh th y h).2⟩ := by
  simp [corr]

theorem has_iff (r : Rect) (X Y : Nat) :
    r.has X Y = true ↔ (r.x ≤ X ∧ (X : Int) < r.x + r.w ∧ r.y ≤ Y ∧ (Y : Int) < r.y + r.h) := by
  simp [Rect.has]

/-- The refresh of a modified rectangle re-establishes "scaled copy = reference image": if the
copy was the reference image of `src`, and `src'` differs from `src` only inside the rectangle
`(x,y,w,h)`, then after rfbScaledScreenUpdateRect the copy is the reference image of `src'`.
`hrx/hry`: the double part of rfbScaledCorrection satisfies the relational bounds. -/
theorem updateRect_tracks (f : Fmt) (src src' dst : Img) (x y w h : Nat)
    (hdw : src'.w = src.w) (hdh : src'.h = src.h)
    (htw : 0 < dst.w) (hth : 0 < dst.h) (hlw : dst.w ≤ src.w) (hlh : dst.h ≤ src.h)
    (hsame : ∀ px py, px < src.w → py < src.h →
      ¬ (x ≤ px ∧ px < x + w ∧ y ≤ py ∧ py < y + h) → src'.get px py = src.get px py)
    (hinv : ∀ X Y, X < dst.w → Y < dst.h → dst.get X Y = scaledPixel f src dst.w dst.h X Y)
    (hrx : CorrRel src.w dst.w x w (corrRaw src.w dst.w x w))
    (hry : CorrRel src.h dst.h y h (corrRaw src.h dst.h y h)) :
    ∀ X Y, X < dst.w → Y < dst.h →
      (updateRect f src' dst ⟨x, y, w, h⟩).get X Y = scaledPixel f src' dst.w dst.h X Y := by
  intro X Y hX hY
  rw [updateRect_get f src' dst _ hX hY]
  split
  · rfl
  · rename_i hn
    rw [hinv X Y hX hY]
    unfold scaledPixel
    rw [hdw, hdh]
    symm
    apply filterPixel_congr f src src' _ _ _ _ (area_pos htw hlw) (area_pos hth hlh)
    intro i j hi hj
    have bx := block_inside (W := src.w) htw hX
    have by' := block_inside (W := src.h) hth hY
    apply hsame _ _ (by omega) (by omega)
    intro ⟨b1, b2, b3, b4⟩
    apply hn
    rw [hdw, hdh, corr_nat, has_iff]
    have cx := corrFix_covers (X := X) (sx := scaleN X dst.w src.w + i) hrx htw hX b1 b2
      (by omega) (by omega)
    have cy := corrFix_covers (X := Y) (sx := scaleN Y dst.h src.h + j) hry hth hY b3 b4
      (by omega) (by omega)
    unfold corr1
    simp only
    exact ⟨by exact_mod_cast cx.1, cx.2, by exact_mod_cast cy.1, cy.2⟩

/-- the refresh of the whole screen produces the reference image whatever the copy held before -/
theorem updateRect_full (f : Fmt) (src dst : Img)
    (htw : 0 < dst.w) (hth : 0 < dst.h) (hlw : dst.w ≤ src.w) (hlh : dst.h ≤ src.h)
    (hrx : CorrRel src.w dst.w 0 src.w (corrRaw src.w dst.w 0 src.w))
    (hry : CorrRel src.h dst.h 0 src.h (corrRaw src.h dst.h 0 src.h)) :
    ∀ X Y, X < dst.w → Y < dst.h →
      (updateRect f src dst ⟨(0 : Nat), (0 : Nat), src.w, src.h⟩).get X Y = scaledPixel f src dst.w dst.h X Y := by
  intro X Y hX hY
  have hc : (corr false src.w src.h dst.w dst.h ⟨(0 : Nat), (0 : Nat), src.w, src.h⟩).has X Y = true := by
    rw [corr_nat, has_iff]
    have ax := area_pos htw hlw
    have ay := area_pos hth hlh
    have bx := block_inside (W := src.w) htw hX
    have by' := block_inside (W := src.h) hth hY
    have cx := corrFix_covers (X := X) (sx := scaleN X dst.w src.w) hrx htw hX
      (by omega) (by omega) (by omega) (by omega)
    have cy := corrFix_covers (X := Y) (sx := scaleN Y dst.h src.h) hry hth hY
      (by omega) (by omega) (by omega) (by omega)
    unfold corr1
    simp only
    exact ⟨by exact_mod_cast cx.1, cx.2, by exact_mod_cast cy.1, cy.2⟩
  rw [updateRect_get f src dst _ hX hY, hc]; rfl

end VncModel.Scale
