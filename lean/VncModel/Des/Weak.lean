import VncModel.Des.Des
import VncModel.Gen.C05
/-
The DES keys a crypto back-end may refuse ("weak keys"), and the behaviour of the code BEFORE
fixes/C05-weak-des-key.diff: libgcrypt's `gcry_cipher_setkey` returns GPG_ERR_WEAK_KEY for the keys
in `Gen.C05.gcryRefusedKeys` (asked from the installed library by the T0 extractor; parity bits are
ignored), `encrypt_rfbdes` then returns 0 without touching the output and `rfbEncryptBytes` ignores
that: the "encrypted" challenge is the challenge.
-/
namespace VncModel.Des
open VncModel.Gen

/-- libgcrypt's `is_weak_key`: compare with the parity bit of every byte cleared -/
def gcryRefuses (desKey : List UInt8) : Bool :=
  C05.gcryRefusedKeys.contains (desKey.map (fun b => b &&& 0xfe))

/-- `rfbEncryptBytes` before the fix (libgcrypt back-end) -/
def rfbEncryptBytesUnfixed (pw challenge : List UInt8) : List UInt8 :=
  if gcryRefuses (vncKey pw) then challenge else rfbEncryptBytes pw challenge

/-- the password bytes (first 8, zero padded) whose VNC key is the given DES key -/
def passwordOfKey (desKey : List UInt8) : List UInt8 := desKey.map reverseByte

end VncModel.Des
