/-
Executable DES (FIPS 46-3) and the VNC use of it, as an *independent reference* for the crypto
back-end compiled into libvncserver (`src/common/crypto_libgcrypt.c` in this build).

Bits are `List Bool`, most significant first, numbered from 1 as in FIPS 46-3, so the tables below are
the ones printed in the standard.  Core Lean only; structural recursion only (kernel-reducible).

C ↔ model
  encrypt_rfbdes(out,_,key,in,len)    ↔ `encryptRfbDes key data`   (key bytes bit-reversed, ECB)
  decrypt_rfbdes                       ↔ `decryptRfbDes`
  rfbEncryptBytes(bytes, passwd)       ↔ `rfbEncryptBytes passwd bytes`   (key = first 8 bytes of the
                                          C string, zero padded)
  rfbEncryptAndStorePasswd             ↔ `storePasswd`  (file content)
  rfbDecryptPasswdFromFile             ↔ `decryptPasswdFile` (file content ↦ C string / NULL)
-/
namespace VncModel.Des

/-! ## bits -/

def bitsOfByte (b : UInt8) : List Bool :=
  [7, 6, 5, 4, 3, 2, 1, 0].map (fun i => b.toNat.testBit i)

def bitsOfBytes (bs : List UInt8) : List Bool := bs.flatMap bitsOfByte

def natOfBits (bs : List Bool) : Nat := bs.foldl (fun a b => 2 * a + b.toNat) 0

def byteOfBits (bs : List Bool) : UInt8 := UInt8.ofNat (natOfBits bs)

/-- groups of eight bits to bytes (a trailing incomplete group is dropped; never happens for the
64-bit blocks used here) -/
def bytesOfBits : List Bool → List UInt8
  | a :: b :: c :: d :: e :: f :: g :: h :: rest => byteOfBits [a, b, c, d, e, f, g, h] :: bytesOfBits rest
  | _ => []

/-- `permute tbl bits`: output bit `k` is input bit `tbl[k]` (1-based).  All tables below only
contain positions inside their input width. -/
def permute (tbl : List Nat) (bits : List Bool) : List Bool :=
  tbl.map (fun i => bits.getD (i - 1) false)

def xorBits (a b : List Bool) : List Bool := List.zipWith (fun x y => x != y) a b

def rotl (n : Nat) (l : List Bool) : List Bool := l.drop n ++ l.take n

/-! ## tables (FIPS 46-3) -/

def IP : List Nat :=
  [58, 50, 42, 34, 26, 18, 10, 2, 60, 52, 44, 36, 28, 20, 12, 4,
   62, 54, 46, 38, 30, 22, 14, 6, 64, 56, 48, 40, 32, 24, 16, 8,
   57, 49, 41, 33, 25, 17, 9, 1, 59, 51, 43, 35, 27, 19, 11, 3,
   61, 53, 45, 37, 29, 21, 13, 5, 63, 55, 47, 39, 31, 23, 15, 7]

def FP : List Nat :=
  [40, 8, 48, 16, 56, 24, 64, 32, 39, 7, 47, 15, 55, 23, 63, 31,
   38, 6, 46, 14, 54, 22, 62, 30, 37, 5, 45, 13, 53, 21, 61, 29,
   36, 4, 44, 12, 52, 20, 60, 28, 35, 3, 43, 11, 51, 19, 59, 27,
   34, 2, 42, 10, 50, 18, 58, 26, 33, 1, 41, 9, 49, 17, 57, 25]

def E : List Nat :=
  [32, 1, 2, 3, 4, 5, 4, 5, 6, 7, 8, 9, 8, 9, 10, 11, 12, 13, 12, 13, 14, 15, 16, 17,
   16, 17, 18, 19, 20, 21, 20, 21, 22, 23, 24, 25, 24, 25, 26, 27, 28, 29, 28, 29, 30, 31, 32, 1]

def P : List Nat :=
  [16, 7, 20, 21, 29, 12, 28, 17, 1, 15, 23, 26, 5, 18, 31, 10,
   2, 8, 24, 14, 32, 27, 3, 9, 19, 13, 30, 6, 22, 11, 4, 25]

def PC1 : List Nat :=
  [57, 49, 41, 33, 25, 17, 9, 1, 58, 50, 42, 34, 26, 18, 10, 2, 59, 51, 43, 35, 27, 19, 11, 3,
   60, 52, 44, 36,
   63, 55, 47, 39, 31, 23, 15, 7, 62, 54, 46, 38, 30, 22, 14, 6, 61, 53, 45, 37, 29, 21, 13, 5,
   28, 20, 12, 4]

def PC2 : List Nat :=
  [14, 17, 11, 24, 1, 5, 3, 28, 15, 6, 21, 10, 23, 19, 12, 4, 26, 8, 16, 7, 27, 20, 13, 2,
   41, 52, 31, 37, 47, 55, 30, 40, 51, 45, 33, 48, 44, 49, 39, 56, 34, 53, 46, 42, 50, 36, 29, 32]

def shifts : List Nat := [1, 1, 2, 2, 2, 2, 2, 2, 1, 2, 2, 2, 2, 2, 2, 1]

def sboxes : List (List Nat) :=
  [[14, 4, 13, 1, 2, 15, 11, 8, 3, 10, 6, 12, 5, 9, 0, 7,
    0, 15, 7, 4, 14, 2, 13, 1, 10, 6, 12, 11, 9, 5, 3, 8,
    4, 1, 14, 8, 13, 6, 2, 11, 15, 12, 9, 7, 3, 10, 5, 0,
    15, 12, 8, 2, 4, 9, 1, 7, 5, 11, 3, 14, 10, 0, 6, 13],
   [15, 1, 8, 14, 6, 11, 3, 4, 9, 7, 2, 13, 12, 0, 5, 10,
    3, 13, 4, 7, 15, 2, 8, 14, 12, 0, 1, 10, 6, 9, 11, 5,
    0, 14, 7, 11, 10, 4, 13, 1, 5, 8, 12, 6, 9, 3, 2, 15,
    13, 8, 10, 1, 3, 15, 4, 2, 11, 6, 7, 12, 0, 5, 14, 9],
   [10, 0, 9, 14, 6, 3, 15, 5, 1, 13, 12, 7, 11, 4, 2, 8,
    13, 7, 0, 9, 3, 4, 6, 10, 2, 8, 5, 14, 12, 11, 15, 1,
    13, 6, 4, 9, 8, 15, 3, 0, 11, 1, 2, 12, 5, 10, 14, 7,
    1, 10, 13, 0, 6, 9, 8, 7, 4, 15, 14, 3, 11, 5, 2, 12],
   [7, 13, 14, 3, 0, 6, 9, 10, 1, 2, 8, 5, 11, 12, 4, 15,
    13, 8, 11, 5, 6, 15, 0, 3, 4, 7, 2, 12, 1, 10, 14, 9,
    10, 6, 9, 0, 12, 11, 7, 13, 15, 1, 3, 14, 5, 2, 8, 4,
    3, 15, 0, 6, 10, 1, 13, 8, 9, 4, 5, 11, 12, 7, 2, 14],
   [2, 12, 4, 1, 7, 10, 11, 6, 8, 5, 3, 15, 13, 0, 14, 9,
    14, 11, 2, 12, 4, 7, 13, 1, 5, 0, 15, 10, 3, 9, 8, 6,
    4, 2, 1, 11, 10, 13, 7, 8, 15, 9, 12, 5, 6, 3, 0, 14,
    11, 8, 12, 7, 1, 14, 2, 13, 6, 15, 0, 9, 10, 4, 5, 3],
   [12, 1, 10, 15, 9, 2, 6, 8, 0, 13, 3, 4, 14, 7, 5, 11,
    10, 15, 4, 2, 7, 12, 9, 5, 6, 1, 13, 14, 0, 11, 3, 8,
    9, 14, 15, 5, 2, 8, 12, 3, 7, 0, 4, 10, 1, 13, 11, 6,
    4, 3, 2, 12, 9, 5, 15, 10, 11, 14, 1, 7, 6, 0, 8, 13],
   [4, 11, 2, 14, 15, 0, 8, 13, 3, 12, 9, 7, 5, 10, 6, 1,
    13, 0, 11, 7, 4, 9, 1, 10, 14, 3, 5, 12, 2, 15, 8, 6,
    1, 4, 11, 13, 12, 3, 7, 14, 10, 15, 6, 8, 0, 5, 9, 2,
    6, 11, 13, 8, 1, 4, 10, 7, 9, 5, 0, 15, 14, 2, 3, 12],
   [13, 2, 8, 4, 6, 15, 11, 1, 10, 9, 3, 14, 5, 0, 12, 7,
    1, 15, 13, 8, 10, 3, 7, 4, 12, 5, 6, 11, 0, 14, 9, 2,
    7, 11, 4, 1, 9, 12, 14, 2, 0, 6, 10, 13, 15, 3, 5, 8,
    2, 1, 14, 7, 4, 10, 8, 13, 15, 12, 9, 0, 3, 5, 6, 11]]

/-! ## key schedule -/

/-- the sixteen 48-bit round keys of a 64-bit key (parity bits 8,16,…,64 are not used by PC1) -/
def subkeysAux : List Nat → List Bool → List Bool → List (List Bool)
  | [], _, _ => []
  | s :: ss, c, d =>
    let c' := rotl s c
    let d' := rotl s d
    permute PC2 (c' ++ d') :: subkeysAux ss c' d'

def subkeys (key : List Bool) : List (List Bool) :=
  let cd := permute PC1 key
  subkeysAux shifts (cd.take 28) (cd.drop 28)

/-! ## round function -/

def fourBits (n : Nat) : List Bool := [n.testBit 3, n.testBit 2, n.testBit 1, n.testBit 0]

/-- one S-box: six bits b1..b6, row = b1 b6, column = b2 b3 b4 b5 -/
def sbox (tbl : List Nat) : List Bool → List Bool
  | [b1, b2, b3, b4, b5, b6] =>
    fourBits (tbl.getD (natOfBits [b1, b6] * 16 + natOfBits [b2, b3, b4, b5]) 0)
  | _ => []

def sboxLayer : List (List Nat) → List Bool → List Bool
  | t :: ts, b1 :: b2 :: b3 :: b4 :: b5 :: b6 :: rest => sbox t [b1, b2, b3, b4, b5, b6] ++ sboxLayer ts rest
  | _, _ => []

def feistel (r k : List Bool) : List Bool :=
  permute P (sboxLayer sboxes (xorBits (permute E r) k))

def round (lr : List Bool × List Bool) (k : List Bool) : List Bool × List Bool :=
  (lr.2, xorBits lr.1 (feistel lr.2 k))

/-- the block cipher with a given list of round keys (encryption: `subkeys key`, decryption: reversed) -/
def cryptBlock (ks : List (List Bool)) (block : List Bool) : List Bool :=
  let ip := permute IP block
  let lr := ks.foldl round (ip.take 32, ip.drop 32)
  permute FP (lr.2 ++ lr.1)

def encryptBlockBits (key block : List Bool) : List Bool := cryptBlock (subkeys key) block
def decryptBlockBits (key block : List Bool) : List Bool := cryptBlock (subkeys key).reverse block

/-! ## bytes -/

/-- DES on one 8-byte block with an 8-byte key (plain DES key, no VNC munging) -/
def encryptBlock (key block : List UInt8) : List UInt8 :=
  bytesOfBits (encryptBlockBits (bitsOfBytes key) (bitsOfBytes block))

def decryptBlock (key block : List UInt8) : List UInt8 :=
  bytesOfBits (decryptBlockBits (bitsOfBytes key) (bitsOfBytes block))

/-- ECB over complete 8-byte blocks (a trailing partial block is dropped: callers pass multiples of 8) -/
def ecb (f : List UInt8 → List UInt8) : List UInt8 → List UInt8
  | a :: b :: c :: d :: e :: f' :: g :: h :: rest => f [a, b, c, d, e, f', g, h] ++ ecb f rest
  | _ => []

/-! ## the VNC use of DES -/

/-- `reverseByte` of the crypto back-ends: bit 0 ↔ bit 7, … -/
def reverseByte (b : UInt8) : UInt8 := byteOfBits (bitsOfByte b).reverse

/-- the loop of `rfbEncryptBytes` / `rfbEncryptAndStorePasswd`: first 8 bytes of the C string,
padded with zero bytes -/
def padKey (pw : List UInt8) : List UInt8 := (pw ++ List.replicate 8 0).take 8

/-- the DES key actually used for a VNC password -/
def vncKey (pw : List UInt8) : List UInt8 := (padKey pw).map reverseByte

/-- `encrypt_rfbdes(out, _, key, in, len)`: key bytes bit-reversed, DES-ECB -/
def encryptRfbDes (key data : List UInt8) : List UInt8 := ecb (encryptBlock (key.map reverseByte)) data

def decryptRfbDes (key data : List UInt8) : List UInt8 := ecb (decryptBlock (key.map reverseByte)) data

/-- `rfbEncryptBytes(bytes, passwd)` on CHALLENGESIZE = 16 bytes -/
def rfbEncryptBytes (pw : List UInt8) (challenge : List UInt8) : List UInt8 :=
  encryptRfbDes (padKey pw) challenge

/-- C-string view of a buffer: bytes before the first NUL -/
def cstr (bs : List UInt8) : List UInt8 := bs.takeWhile (· ≠ 0)

/-- `rfbEncryptAndStorePasswd`: the 8 bytes written to the password file -/
def storePasswd (fixedKey pw : List UInt8) : List UInt8 := encryptRfbDes fixedKey (padKey pw)

/-- `rfbDecryptPasswdFromFile` on the file content: `none` = NULL (fewer than 8 bytes readable),
otherwise the C string in the returned 9-byte buffer (`passwd[8] = 0`) -/
def decryptPasswdFile (fixedKey file : List UInt8) : Option (List UInt8) :=
  if file.length < 8 then none else some (cstr (decryptRfbDes fixedKey (file.take 8)))

end VncModel.Des
