import VncModel.Des.Weak
/-
DES decryption inverts DES encryption (for the model in Des.lean): the initial and final permutation
are inverse to each other on 64-bit blocks and the Feistel rounds with the reversed key schedule undo
the rounds.  Consequence used by Props/C05.lean: what rfbEncryptAndStorePasswd writes,
rfbDecryptPasswdFromFile reads back.
-/
namespace VncModel.Des

theorem getD_map_lt {α β} (l : List α) (g : α → β) (n : Nat) (d : β) (d' : α) (h : n < l.length) :
    (l.map g).getD n d = g (l.getD n d') := by
  simp [List.getD, List.getElem?_map, List.getElem?_eq_getElem h]

theorem permute_permute (t1 t2 : List Nat) (x : List Bool) (h : ∀ i ∈ t1, i - 1 < t2.length) :
    permute t1 (permute t2 x) = (t1.map (fun i => t2.getD (i - 1) 0 - 1)).map (fun k => x.getD k false) := by
  unfold permute
  rw [List.map_map]
  apply List.map_congr_left
  intro i hi
  simp only [Function.comp]
  rw [getD_map_lt t2 _ (i - 1) false 0 (h i hi)]

theorem map_getD_range (x : List Bool) : (List.range x.length).map (fun k => x.getD k false) = x := by
  apply List.ext_getElem
  · simp
  · intro i h1 h2
    simp [List.getD, List.getElem?_eq_getElem h2]

theorem ip_fp (x : List Bool) (h : x.length = 64) : permute IP (permute FP x) = x := by
  rw [permute_permute IP FP x (by decide)]
  have : IP.map (fun i => FP.getD (i - 1) 0 - 1) = List.range 64 := by decide
  rw [this, ← h]
  exact map_getD_range x

theorem fp_ip (x : List Bool) (h : x.length = 64) : permute FP (permute IP x) = x := by
  rw [permute_permute FP IP x (by decide)]
  have : FP.map (fun i => IP.getD (i - 1) 0 - 1) = List.range 64 := by decide
  rw [this, ← h]
  exact map_getD_range x

theorem permute_length (t : List Nat) (x : List Bool) : (permute t x).length = t.length := by
  simp [permute]

theorem xor_cancel (a b : List Bool) (h : a.length = b.length) : xorBits (xorBits a b) b = a := by
  induction a generalizing b with
  | nil => simp [xorBits]
  | cons x xs ih =>
    cases b with
    | nil => simp at h
    | cons y ys =>
      simp only [xorBits, List.zipWith_cons_cons] at *
      rw [ih ys (by simpa using h)]
      cases x <;> cases y <;> rfl

theorem feistel_length (r k : List Bool) : (feistel r k).length = 32 := by
  unfold feistel
  rw [permute_length]
  decide

/-- both halves are 32 bits -/
def Good (s : List Bool × List Bool) : Prop := s.1.length = 32 ∧ s.2.length = 32

theorem round_good (s : List Bool × List Bool) (k : List Bool) (h : Good s) : Good (round s k) := by
  obtain ⟨h1, h2⟩ := h
  refine ⟨h2, ?_⟩
  simp [round, xorBits, List.length_zipWith, h1, feistel_length]

/-- one round, swap, the same round, swap: identity -/
theorem round_swap_round (s : List Bool × List Bool) (k : List Bool) (h : Good s) :
    round (Prod.swap (round s k)) k = Prod.swap s := by
  obtain ⟨h1, _⟩ := h
  simp only [round, Prod.swap]
  rw [xor_cancel s.1 (feistel s.2 k) (by rw [h1, feistel_length])]

theorem rounds_good (ks : List (List Bool)) (s : List Bool × List Bool) (h : Good s) :
    Good (ks.foldl round s) := by
  induction ks generalizing s with
  | nil => exact h
  | cons k ks ih => exact ih _ (round_good s k h)

theorem unrounds (ks : List (List Bool)) (s : List Bool × List Bool) (h : Good s) :
    ks.reverse.foldl round (Prod.swap (ks.foldl round s)) = Prod.swap s := by
  induction ks generalizing s with
  | nil => rfl
  | cons k ks ih =>
    simp only [List.foldl_cons, List.reverse_cons, List.foldl_append, List.foldl_nil]
    rw [ih (round s k) (round_good s k h)]
    exact round_swap_round s k h

theorem take_drop_append32 (a b : List Bool) (h : a.length = 32) :
    (a ++ b).take 32 = a ∧ (a ++ b).drop 32 = b := by
  constructor
  · rw [← h]; exact List.take_left
  · rw [← h]; exact List.drop_left

/-- the block cipher run with the reversed key schedule undoes the block cipher -/
theorem cryptBlock_inverse (ks : List (List Bool)) (b : List Bool) (h : b.length = 64) :
    cryptBlock ks.reverse (cryptBlock ks b) = b := by
  unfold cryptBlock
  simp only
  have hip : (permute IP b).length = 64 := by rw [permute_length]; decide
  have hg0 : Good ((permute IP b).take 32, (permute IP b).drop 32) := by
    constructor
    · simp [List.length_take, hip]
    · simp [List.length_drop, hip]
  have hg := rounds_good ks _ hg0
  obtain ⟨hg1, hg2⟩ := hg
  rw [ip_fp _ (by simp [hg1, hg2])]
  obtain ⟨ht, hd⟩ := take_drop_append32 (ks.foldl round ((permute IP b).take 32, (permute IP b).drop 32)).2
    (ks.foldl round ((permute IP b).take 32, (permute IP b).drop 32)).1 hg2
  rw [ht, hd]
  have := unrounds ks _ hg0
  simp only [Prod.swap] at this
  rw [this]
  simp only [List.take_append_drop]
  exact fp_ip b h

theorem decrypt_encrypt_bits (key b : List Bool) (h : b.length = 64) :
    decryptBlockBits key (encryptBlockBits key b) = b :=
  cryptBlock_inverse (subkeys key) b h

end VncModel.Des

namespace VncModel.Des

/-! ### bytes ↔ bits -/

theorem byte_bits_roundtrip_nat : ∀ n, n < 256 → byteOfBits (bitsOfByte (UInt8.ofNat n)) = UInt8.ofNat n := by
  decide +kernel

theorem byte_bits_roundtrip (b : UInt8) : byteOfBits (bitsOfByte b) = b := by
  have h := byte_bits_roundtrip_nat b.toNat (UInt8.toNat_lt b)
  simpa using h

theorem bits_byte_roundtrip : ∀ a b c d e f g h : Bool,
    bitsOfByte (byteOfBits [a, b, c, d, e, f, g, h]) = [a, b, c, d, e, f, g, h] := by
  decide

theorem bytesOfBits_bitsOfBytes (bs : List UInt8) : bytesOfBits (bitsOfBytes bs) = bs := by
  induction bs with
  | nil => rfl
  | cons b bs ih =>
    have : bitsOfBytes (b :: bs) = bitsOfByte b ++ bitsOfBytes bs := by simp [bitsOfBytes]
    rw [this]
    have hb : bitsOfByte b = [b.toNat.testBit 7, b.toNat.testBit 6, b.toNat.testBit 5, b.toNat.testBit 4,
        b.toNat.testBit 3, b.toNat.testBit 2, b.toNat.testBit 1, b.toNat.testBit 0] := rfl
    rw [hb]
    simp only [List.cons_append, List.nil_append, bytesOfBits]
    rw [ih, ← hb, byte_bits_roundtrip]

theorem bitsOfBytes_bytesOfBits (n : Nat) (x : List Bool) (h : x.length = 8 * n) :
    bitsOfBytes (bytesOfBits x) = x ∧ (bytesOfBits x).length = n := by
  induction n generalizing x with
  | zero =>
    have : x = [] := List.eq_nil_of_length_eq_zero (by simpa using h)
    subst this
    exact ⟨rfl, rfl⟩
  | succ n ih =>
    match x, h with
    | a :: b :: c :: d :: e :: f :: g :: hh :: rest, h =>
      have hr : rest.length = 8 * n := by simp at h; omega
      obtain ⟨ih1, ih2⟩ := ih rest hr
      simp only [bytesOfBits]
      constructor
      · have : bitsOfBytes (byteOfBits [a, b, c, d, e, f, g, hh] :: bytesOfBits rest) =
            bitsOfByte (byteOfBits [a, b, c, d, e, f, g, hh]) ++ bitsOfBytes (bytesOfBits rest) := by
          simp [bitsOfBytes]
        rw [this, bits_byte_roundtrip, ih1]
        rfl
      · simp [ih2]
    | [], h | [_], h | [_, _], h | [_, _, _], h | [_, _, _, _], h | [_, _, _, _, _], h
    | [_, _, _, _, _, _], h | [_, _, _, _, _, _, _], h => exfalso; simp only [List.length] at h; omega

theorem bitsOfBytes_length (bs : List UInt8) : (bitsOfBytes bs).length = 8 * bs.length := by
  induction bs with
  | nil => rfl
  | cons b bs ih =>
    have : bitsOfBytes (b :: bs) = bitsOfByte b ++ bitsOfBytes bs := by simp [bitsOfBytes]
    rw [this, List.length_append, ih]
    simp [bitsOfByte]
    omega

theorem cryptBlock_length (ks : List (List Bool)) (b : List Bool) : (cryptBlock ks b).length = 64 := by
  unfold cryptBlock
  simp only
  rw [permute_length]
  decide

theorem encryptBlock_length (key block : List UInt8) : (encryptBlock key block).length = 8 := by
  unfold encryptBlock encryptBlockBits
  exact (bitsOfBytes_bytesOfBits 8 _ (cryptBlock_length _ _)).2

/-- DES decryption undoes DES encryption on an 8-byte block -/
theorem decryptBlock_encryptBlock (key block : List UInt8) (h : block.length = 8) :
    decryptBlock key (encryptBlock key block) = block := by
  unfold decryptBlock encryptBlock
  rw [(bitsOfBytes_bytesOfBits 8 _ (by unfold encryptBlockBits; exact cryptBlock_length _ _)).1]
  rw [decrypt_encrypt_bits _ _ (by rw [bitsOfBytes_length, h])]
  exact bytesOfBits_bitsOfBytes block

theorem ecb_eight (f : List UInt8 → List UInt8) (l : List UInt8) (h : l.length = 8) : ecb f l = f l := by
  match l, h with
  | [a, b, c, d, e, f', g, hh], _ => simp [ecb]

/-- what `rfbEncryptAndStorePasswd` writes, `rfbDecryptPasswdFromFile` reads back (as a C string) -/
theorem decryptPasswdFile_storePasswd (fixedKey pw : List UInt8) :
    decryptPasswdFile fixedKey (storePasswd fixedKey pw) = some (cstr (padKey pw)) := by
  have hp : (padKey pw).length = 8 := by unfold padKey; simp [List.length_take]
  unfold decryptPasswdFile storePasswd encryptRfbDes decryptRfbDes
  rw [ecb_eight _ _ hp]
  have hl := encryptBlock_length (fixedKey.map reverseByte) (padKey pw)
  have ht : (encryptBlock (fixedKey.map reverseByte) (padKey pw)).take 8 =
      encryptBlock (fixedKey.map reverseByte) (padKey pw) := by rw [← hl]; exact List.take_length
  rw [if_neg (by omega), ht, ecb_eight _ _ hl, decryptBlock_encryptBlock _ _ hp]

theorem takeWhile_nz_self (pw : List UInt8) (h : (0 : UInt8) ∉ pw) : pw.takeWhile (· ≠ 0) = pw := by
  induction pw with
  | nil => rfl
  | cons x xs ih =>
    have hx : x ≠ 0 := fun h0 => h (h0 ▸ List.mem_cons_self)
    have hxs : (0 : UInt8) ∉ xs := fun h0 => h (List.mem_cons_of_mem _ h0)
    rw [List.takeWhile_cons_of_pos (by simpa using hx), ih hxs]

theorem takeWhile_nz_append_zeros (pw : List UInt8) (h : (0 : UInt8) ∉ pw) (k : Nat) :
    (pw ++ List.replicate (k + 1) 0).takeWhile (· ≠ 0) = pw := by
  induction pw with
  | nil => simp [List.replicate_succ]
  | cons x xs ih =>
    have hx : x ≠ 0 := fun h0 => h (h0 ▸ List.mem_cons_self)
    have hxs : (0 : UInt8) ∉ xs := fun h0 => h (List.mem_cons_of_mem _ h0)
    rw [List.cons_append, List.takeWhile_cons_of_pos (by simpa using hx), ih hxs]

/-- a C string (no NUL byte) and what comes back from the password file give the same key -/
theorem padKey_cstr_padKey (pw : List UInt8) (h : (0 : UInt8) ∉ pw) : padKey (cstr (padKey pw)) = padKey pw := by
  unfold padKey cstr
  by_cases hl : 8 ≤ pw.length
  · rw [List.take_append_of_le_length hl]
    have hnz : (0 : UInt8) ∉ pw.take 8 := fun h0 => h (List.mem_of_mem_take h0)
    rw [takeWhile_nz_self _ hnz]
    rw [List.take_append_of_le_length (by simp [List.length_take]; omega)]
    simp [List.take_take]
  · have hlt : pw.length < 8 := by omega
    have e1 : (pw ++ List.replicate 8 (0 : UInt8)).take 8 = pw ++ List.replicate (7 - pw.length + 1) 0 := by
      rw [List.take_append]
      rw [List.take_of_length_le (Nat.le_of_lt hlt), List.take_replicate]
      congr 2
      omega
    rw [e1, takeWhile_nz_append_zeros pw h, e1]

theorem rfbEncryptBytes_cstr_padKey (pw chal : List UInt8) (h : (0 : UInt8) ∉ pw) :
    rfbEncryptBytes (cstr (padKey pw)) chal = rfbEncryptBytes pw chal := by
  unfold rfbEncryptBytes
  rw [padKey_cstr_padKey pw h]

end VncModel.Des
