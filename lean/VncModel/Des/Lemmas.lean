import VncModel.Des.Weak
/-
Cheap facts about the VNC use of DES and about the keys libgcrypt refuses.  The DES model itself
(tables, round structure) is validated against the compiled C back-end and OpenSSL on every run.
-/
namespace VncModel.Des
open VncModel.Gen

theorem padKey_append (pw ext : List UInt8) (h : 8 ≤ pw.length) : padKey (pw ++ ext) = padKey pw := by
  unfold padKey
  rw [List.append_assoc, List.take_append_of_le_length h, List.take_append_of_le_length h]

theorem vncKey_append (pw ext : List UInt8) (h : 8 ≤ pw.length) : vncKey (pw ++ ext) = vncKey pw := by
  unfold vncKey
  rw [padKey_append pw ext h]

theorem rfbEncryptBytes_append (pw ext chal : List UInt8) (h : 8 ≤ pw.length) :
    rfbEncryptBytes (pw ++ ext) chal = rfbEncryptBytes pw chal := by
  unfold rfbEncryptBytes
  rw [padKey_append pw ext h]

/-- the key used is always 8 bytes -/
theorem padKey_length (pw : List UInt8) : (padKey pw).length = 8 := by
  unfold padKey
  simp [List.length_take]

/-- number of different round keys -/
def distinctCount (l : List (List Bool)) : Nat := l.eraseDups.length

set_option maxRecDepth 100000 in
theorem refused_keys_few_subkeys :
    ∀ k ∈ C05.gcryRefusedKeys, distinctCount (subkeys (bitsOfBytes k)) ≤ 4 := by
  decide +kernel

end VncModel.Des
