import VncModel.Des.Weak
/-
Cheap facts about the VNC use of DES and about the keys libgcrypt refuses.  The DES model itself
(tables, round structure) is validated against the compiled C back-end and OpenSSL on every run.
-/
namespace VncModel.Des
open VncModel.Gen

theorem padKey_append (pw ext : List UInt8) (h : 8 ≤ pw.length) : padKey (pw ++ ext) = padKey pw := by
  unfold padKey
  rw [List.append_assoc, List.take_append_of_le_length h, List.take_append_of_le_length h]

theorem vncKey_append (pw ext : List UInt8) (h : 8 ≤ pw.length) : vncKey (pw ++ ext) = vncKey pw := by
  unfold vncKey
  rw [padKey_append pw ext h]

theorem rfbEncryptBytes_append (pw ext chal : List UInt8) (h : 8 ≤ pw.length) :
    rfbEncryptBytes (pw ++ ext) chal = rfbEncryptBytes pw chal := by
  unfold rfbEncryptBytes
  rw [padKey_append pw ext h]

/-- the key used is always 8 bytes -/
theorem padKey_length (pw : List UInt8) : (padKey pw).length = 8 := by
  unfold padKey
  simp [List.length_take]

/-- number of different round keys -/
def distinctCount (l : List (List Bool)) : Nat := l.eraseDups.length

/-- the two 28-bit halves C0, D0 of the key schedule (after PC-1) -/
def keyHalves (key : List UInt8) : List Bool × List Bool :=
  let cd := permute PC1 (bitsOfBytes key)
  (cd.take 28, cd.drop 28)

/-- Every key libgcrypt refuses has key-schedule halves that are invariant under rotation by 4 (the
weak keys: by 1, the semi-weak ones: by 2).  The round keys are PC-2 of the halves rotated by the
accumulated shift, so such a key has at most four different round keys. -/
theorem refused_keys_halves_period4 :
    ∀ k ∈ C05.gcryRefusedKeys,
      rotl 4 (keyHalves k).1 = (keyHalves k).1 ∧ rotl 4 (keyHalves k).2 = (keyHalves k).2 := by
  decide +kernel

/-- the key of the empty password (all zero) is a weak key proper: one single round key -/
theorem empty_password_one_subkey : distinctCount (subkeys (bitsOfBytes (vncKey []))) = 1 := by
  decide +kernel

end VncModel.Des
