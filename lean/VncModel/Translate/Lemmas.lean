import VncModel.Translate.Model
/-!
# Helper lemmas for the C10 theorems (bit fields, byte order, area loops).  Core Lean only.
-/
namespace VncModel.Translate

/-! ## bits -/

theorem testBit_false_of_lt_of_le {x k j : Nat} (hx : x < 2 ^ k) (h : k ≤ j) : x.testBit j = false :=
  Nat.testBit_lt_two_pow (Nat.lt_of_lt_of_le hx (Nat.pow_le_pow_right (by decide) h))

/-- a field `x <<< s` with `x < 2^k` has its bits inside `[s, s+k)` -/
theorem shl_testBit_true {x s k j : Nat} (hx : x < 2 ^ k) (h : (x <<< s).testBit j = true) :
    s ≤ j ∧ j < s + k := by
  rw [Nat.testBit_shiftLeft] at h
  simp only [ge_iff_le, Bool.and_eq_true, decide_eq_true_eq] at h
  refine ⟨h.1, ?_⟩
  apply Classical.byContradiction
  intro hn
  have : x.testBit (j - s) = false := testBit_false_of_lt_of_le hx (by omega)
  simp [this] at h

theorem shl_testBit_false {x s k j : Nat} (hx : x < 2 ^ k) (h : j < s ∨ s + k ≤ j) :
    (x <<< s).testBit j = false := by
  cases hb : (x <<< s).testBit j with
  | false => rfl
  | true => have := shl_testBit_true hx hb; omega

/-- extracting a field: the other part has no bit inside `[s, s+k)` -/
theorem field_get {x rest s k : Nat} (hx : x < 2 ^ k)
    (hrest : ∀ j, s ≤ j → j < s + k → rest.testBit j = false) :
    ((x <<< s ||| rest) >>> s) &&& (2 ^ k - 1) = x := by
  apply Nat.eq_of_testBit_eq
  intro j
  rw [Nat.testBit_and, Nat.testBit_shiftRight, Nat.testBit_or, Nat.testBit_shiftLeft,
    Nat.testBit_two_pow_sub_one]
  by_cases hj : j < k
  · have h1 : rest.testBit (s + j) = false := hrest _ (by omega) (by omega)
    have h2 : s + j - s = j := by omega
    simp [h1, h2, hj]
  · have : x.testBit j = false := testBit_false_of_lt_of_le hx (by omega)
    simp [hj, this]

theorem or_testBit_false {a b j : Nat} (ha : a.testBit j = false) (hb : b.testBit j = false) :
    (a ||| b).testBit j = false := by
  rw [Nat.testBit_or, ha, hb]; rfl

theorem shl_lt {x s k n : Nat} (hx : x < 2 ^ k) (h : s + k ≤ n) : x <<< s < 2 ^ n := by
  apply Nat.lt_pow_two_of_testBit
  intro j hj
  exact shl_testBit_false hx (by omega)

theorem or3_lt {a b c n : Nat} (ha : a < 2 ^ n) (hb : b < 2 ^ n) (hc : c < 2 ^ n) :
    a ||| b ||| c < 2 ^ n := Nat.or_lt_two_pow (Nat.or_lt_two_pow ha hb) hc

theorem comp_le (p s k : Nat) : comp p s (2 ^ k - 1) ≤ 2 ^ k - 1 := by
  unfold comp
  rw [Nat.and_two_pow_sub_one_eq_mod]
  have := Nat.mod_lt (p >>> s) (Nat.two_pow_pos k)
  omega

/-! ## the scaling expression -/

theorem scale_le {c inMax outMax : Nat} (h : 0 < inMax) (hc : c ≤ inMax) :
    scale c inMax outMax ≤ outMax := by
  unfold scale
  have h1 : c * outMax ≤ inMax * outMax := Nat.mul_le_mul_right _ hc
  have h2 : c * outMax + inMax / 2 < inMax * (outMax + 1) := by
    rw [Nat.mul_add, Nat.mul_one]; omega
  have := Nat.div_lt_of_lt_mul h2
  omega

theorem scale_bounds {c inMax outMax : Nat} (h : 0 < inMax) :
    2 * (scale c inMax outMax * inMax) ≤ 2 * (c * outMax) + inMax ∧
    2 * (c * outMax) ≤ 2 * (scale c inMax outMax * inMax) + inMax := by
  unfold scale
  have h1 := Nat.div_add_mod (c * outMax + inMax / 2) inMax
  have h2 := Nat.mod_lt (c * outMax + inMax / 2) h
  rw [Nat.mul_comm] at h1
  constructor <;> omega

theorem scale_lt_two_pow {c inMax k : Nat} (h : 0 < inMax) (hc : c ≤ inMax) :
    scale c inMax (2 ^ k - 1) < 2 ^ k := by
  have := scale_le (outMax := 2 ^ k - 1) h hc
  have := Nat.two_pow_pos k
  omega

/-! ## well-formed formats and the placed pixel -/

/-- well-formed true-colour format: maxima `2^k − 1` with `k ≥ 1` bits, every field inside the
pixel, fields pairwise disjoint -/
structure WF (f : PixelFormat) (kr kg kb : Nat) : Prop where
  kr_pos : 1 ≤ kr
  kg_pos : 1 ≤ kg
  kb_pos : 1 ≤ kb
  rmax : f.redMax = 2 ^ kr - 1
  gmax : f.greenMax = 2 ^ kg - 1
  bmax : f.blueMax = 2 ^ kb - 1
  rfit : f.redShift + kr ≤ f.bpp
  gfit : f.greenShift + kg ≤ f.bpp
  bfit : f.blueShift + kb ≤ f.bpp
  rg : f.redShift + kr ≤ f.greenShift ∨ f.greenShift + kg ≤ f.redShift
  rb : f.redShift + kr ≤ f.blueShift ∨ f.blueShift + kb ≤ f.redShift
  gb : f.greenShift + kg ≤ f.blueShift ∨ f.blueShift + kb ≤ f.greenShift

/-- three components placed at the shifts of format `o` -/
def place (o : PixelFormat) (r g b : Nat) : Nat :=
  (r <<< o.redShift) ||| (g <<< o.greenShift) ||| (b <<< o.blueShift)

section placed
variable {o : PixelFormat} {kr kg kb r g b : Nat}

theorem WF.max_pos (w : WF o kr kg kb) : 0 < o.redMax ∧ 0 < o.greenMax ∧ 0 < o.blueMax := by
  have h1 : 2 ^ 1 ≤ 2 ^ kr := Nat.pow_le_pow_right (by decide) w.kr_pos
  have h2 : 2 ^ 1 ≤ 2 ^ kg := Nat.pow_le_pow_right (by decide) w.kg_pos
  have h3 : 2 ^ 1 ≤ 2 ^ kb := Nat.pow_le_pow_right (by decide) w.kb_pos
  rw [w.rmax, w.gmax, w.bmax]
  omega

theorem place_lt (w : WF o kr kg kb) (hr : r < 2 ^ kr) (hg : g < 2 ^ kg) (hb : b < 2 ^ kb) :
    place o r g b < 2 ^ o.bpp :=
  or3_lt (shl_lt hr w.rfit) (shl_lt hg w.gfit) (shl_lt hb w.bfit)

theorem place_red (w : WF o kr kg kb) (hr : r < 2 ^ kr) (hg : g < 2 ^ kg) (hb : b < 2 ^ kb) :
    comp (place o r g b) o.redShift o.redMax = r := by
  unfold comp place
  rw [w.rmax, Nat.or_assoc]
  apply field_get hr
  intro j h1 h2
  apply or_testBit_false
  · exact shl_testBit_false hg (by have := w.rg; omega)
  · exact shl_testBit_false hb (by have := w.rb; omega)

theorem place_green (w : WF o kr kg kb) (hr : r < 2 ^ kr) (hg : g < 2 ^ kg) (hb : b < 2 ^ kb) :
    comp (place o r g b) o.greenShift o.greenMax = g := by
  unfold comp place
  have e : r <<< o.redShift ||| g <<< o.greenShift ||| b <<< o.blueShift =
      g <<< o.greenShift ||| (r <<< o.redShift ||| b <<< o.blueShift) := by
    rw [Nat.or_comm (r <<< o.redShift), Nat.or_assoc]
  rw [w.gmax, e]
  apply field_get hg
  intro j h1 h2
  apply or_testBit_false
  · exact shl_testBit_false hr (by have := w.rg; omega)
  · exact shl_testBit_false hb (by have := w.gb; omega)

theorem place_blue (w : WF o kr kg kb) (hr : r < 2 ^ kr) (hg : g < 2 ^ kg) (hb : b < 2 ^ kb) :
    comp (place o r g b) o.blueShift o.blueMax = b := by
  unfold comp place
  rw [w.bmax, Nat.or_comm]
  apply field_get hb
  intro j h1 h2
  apply or_testBit_false
  · exact shl_testBit_false hr (by have := w.rb; omega)
  · exact shl_testBit_false hg (by have := w.gb; omega)

/-- every set bit of the placed pixel lies in one of the three fields -/
theorem place_bits (hr : r < 2 ^ kr) (hg : g < 2 ^ kg) (hb : b < 2 ^ kb) {j : Nat}
    (h : (place o r g b).testBit j = true) :
    (o.redShift ≤ j ∧ j < o.redShift + kr) ∨ (o.greenShift ≤ j ∧ j < o.greenShift + kg) ∨
    (o.blueShift ≤ j ∧ j < o.blueShift + kb) := by
  unfold place at h
  rw [Nat.testBit_or, Nat.testBit_or] at h
  simp only [Bool.or_eq_true] at h
  rcases h with (h | h) | h
  · exact Or.inl (shl_testBit_true hr h)
  · exact Or.inr (Or.inl (shl_testBit_true hg h))
  · exact Or.inr (Or.inr (shl_testBit_true hb h))

end placed

/-! ## byte order -/

theorem and_ff (v : Nat) : v &&& 0xff = v % 256 := Nat.and_two_pow_sub_one_eq_mod v 8

theorem or_shl_eq_add {x k : Nat} (a : Nat) (hx : x < 2 ^ k) : x ||| a <<< k = x + a * 2 ^ k := by
  rw [Nat.or_comm, ← Nat.shiftLeft_add_eq_or_of_lt hx, Nat.shiftLeft_eq, Nat.add_comm]

theorem swap16_arith (v : Nat) : swap16 v = (v % 256) * 256 + (v / 256) % 256 := by
  unfold swap16
  rw [and_ff, and_ff, Nat.shiftRight_eq_div_pow, Nat.or_comm,
    or_shl_eq_add (k := 8) _ (Nat.mod_lt _ (by decide))]
  omega

theorem swap24_arith (v : Nat) :
    swap24 v = (v / 65536) % 256 + ((v / 256) % 256) * 256 + (v % 256) * 65536 := by
  unfold swap24
  simp only [and_ff, Nat.shiftRight_eq_div_pow]
  have h0 := Nat.mod_lt (v / 2 ^ 16) (show 0 < 256 by decide)
  have h1 := Nat.mod_lt (v / 2 ^ 8) (show 0 < 256 by decide)
  rw [or_shl_eq_add (k := 8) _ (by omega), or_shl_eq_add (k := 16) _ (by omega)]

theorem swap32_arith (v : Nat) :
    swap32 v = (v / 16777216) % 256 + ((v / 65536) % 256) * 256 + ((v / 256) % 256) * 65536 +
      (v % 256) * 16777216 := by
  unfold swap32
  simp only [and_ff, Nat.shiftRight_eq_div_pow]
  have h0 := Nat.mod_lt (v / 2 ^ 24) (show 0 < 256 by decide)
  have h1 := Nat.mod_lt (v / 2 ^ 16) (show 0 < 256 by decide)
  have h2 := Nat.mod_lt (v / 2 ^ 8) (show 0 < 256 by decide)
  rw [or_shl_eq_add (k := 8) _ (by omega), or_shl_eq_add (k := 16) _ (by omega),
    or_shl_eq_add (k := 24) _ (by omega)]

theorem bytesLE_length (n v : Nat) : (bytesLE n v).length = n := by
  induction n generalizing v with
  | zero => rfl
  | succ n ih => simp [bytesLE, ih]

theorem bytesLE_lt (n v : Nat) : ∀ b ∈ bytesLE n v, b < 256 := by
  induction n generalizing v with
  | zero => intro b hb; simp [bytesLE] at hb
  | succ n ih =>
    intro b hb
    simp only [bytesLE, List.mem_cons] at hb
    rcases hb with rfl | hb
    · exact Nat.mod_lt _ (by decide)
    · exact ih _ b hb

theorem bytesLE_valLE (bs : List Nat) (h : ∀ b ∈ bs, b < 256) :
    bytesLE bs.length (valLE bs) = bs := by
  induction bs with
  | nil => rfl
  | cons b bs ih =>
    have hb : b < 256 := h b (by simp)
    have ih' := ih (fun x hx => h x (by simp [hx]))
    simp only [List.length_cons, bytesLE, valLE]
    have e1 : (b + 256 * valLE bs) % 256 = b := by omega
    have e2 : (b + 256 * valLE bs) / 256 = valLE bs := by omega
    rw [e1, e2, ih']

theorem valLE_bytesLE (n v : Nat) (h : v < 256 ^ n) : valLE (bytesLE n v) = v := by
  induction n generalizing v with
  | zero => simp at h; simp [bytesLE, valLE, h]
  | succ n ih =>
    have : v / 256 < 256 ^ n := by
      apply Nat.div_lt_of_lt_mul
      rw [Nat.pow_succ, Nat.mul_comm] at h
      exact h
    simp only [bytesLE, valLE, ih _ this]
    omega

/-- the swap macros reverse the bytes of the value -/
theorem swapOut_eq_reverse (n : Nat) (hn : n = 1 ∨ n = 2 ∨ n = 3 ∨ n = 4) (v : Nat)
    (hv : v < 2 ^ (8 * n)) : swapOut (8 * n) v = valLE (bytesLE n v).reverse := by
  rcases hn with rfl | rfl | rfl | rfl
  · simp [swapOut, bytesLE, valLE] at hv ⊢; omega
  · simp [swapOut, bytesLE, valLE, swap16_arith] at hv ⊢; omega
  · simp [swapOut, bytesLE, valLE, swap24_arith, Nat.div_div_eq_div_mul] at hv ⊢; omega
  · simp [swapOut, bytesLE, valLE, swap32_arith, Nat.div_div_eq_div_mul] at hv ⊢; omega

theorem decode_encode (be : Bool) (n v : Nat) (h : v < 256 ^ n) : decode be (encode be n v) = v := by
  cases be <;> simp [decode, encode, valLE_bytesLE n v h]

/-- **byte order**: a pixel value `v` that the table holds byte-swapped exactly when the client's
order differs from the machine's, stored by a typed store in machine order `h`, reads back as `v`
in the client's order `c` (pixel sizes 1, 2, 3, 4 bytes). -/
theorem decode_encode_swap (h c : Bool) (n : Nat) (hn : n = 1 ∨ n = 2 ∨ n = 3 ∨ n = 4) (v : Nat)
    (hv : v < 2 ^ (8 * n)) :
    decode c (encode h n (if c != h then swapOut (8 * n) v else v)) = v := by
  have hv' : v < 256 ^ n := by
    rw [show (256 : Nat) = 2 ^ 8 by decide, ← Nat.pow_mul]; exact hv
  by_cases e : c = h
  · subst e; simp [decode_encode c n v hv']
  · have hne : (c != h) = true := by cases c <;> cases h <;> simp_all
    rw [hne, if_pos rfl, swapOut_eq_reverse n hn v hv]
    have hl : (bytesLE n v).reverse.length = n := by simp [bytesLE_length]
    have hb : ∀ b ∈ (bytesLE n v).reverse, b < 256 := by
      intro b hb; exact bytesLE_lt n v b (by simpa using hb)
    have key := bytesLE_valLE _ hb
    rw [hl] at key
    cases h <;> cases c <;> simp_all [decode, encode, valLE_bytesLE n v hv']

theorem swap16_or (a b : Nat) : swap16 (a ||| b) = swap16 a ||| swap16 b := by
  simp only [swap16, Nat.and_or_distrib_right, Nat.shiftLeft_or_distrib, Nat.shiftRight_or_distrib]
  ac_rfl

theorem swap24_or (a b : Nat) : swap24 (a ||| b) = swap24 a ||| swap24 b := by
  simp only [swap24, Nat.and_or_distrib_right, Nat.shiftLeft_or_distrib, Nat.shiftRight_or_distrib]
  ac_rfl

/-- byte `s/8` of `v` moved to bit position `t` -/
def byteTo (v s t : Nat) : Nat := ((v >>> s) &&& 0xff) <<< t

theorem byteTo_or (a b s t : Nat) : byteTo (a ||| b) s t = byteTo a s t ||| byteTo b s t := by
  unfold byteTo
  rw [Nat.shiftRight_or_distrib, Nat.and_or_distrib_right, Nat.shiftLeft_or_distrib]

theorem swap32_as_byteTo (v : Nat) :
    swap32 v = byteTo v 24 0 ||| byteTo v 16 8 ||| byteTo v 8 16 ||| byteTo v 0 24 := by
  unfold swap32 byteTo
  rw [Nat.shiftLeft_zero, Nat.shiftRight_zero]

theorem swap32_or (a b : Nat) : swap32 (a ||| b) = swap32 a ||| swap32 b := by
  rw [swap32_as_byteTo, swap32_as_byteTo, swap32_as_byteTo, byteTo_or, byteTo_or, byteTo_or, byteTo_or]
  generalize byteTo a 24 0 = a0
  generalize byteTo a 16 8 = a1
  generalize byteTo a 8 16 = a2
  generalize byteTo a 0 24 = a3
  generalize byteTo b 24 0 = b0
  generalize byteTo b 16 8 = b1
  generalize byteTo b 8 16 = b2
  generalize byteTo b 0 24 = b3
  ac_rfl

theorem swapOut_or (bpp a b : Nat) : swapOut bpp (a ||| b) = swapOut bpp a ||| swapOut bpp b := by
  unfold swapOut
  split
  · exact swap16_or a b
  · split
    · exact swap32_or a b
    · split
      · exact swap24_or a b
      · rfl

/-! ## table entries of well-formed formats -/

/-- the pixel the property demands: the three source components rescaled with rounding to
nearest, placed at the client's shifts -/
def specPixel (i o : PixelFormat) (p : Nat) : Nat :=
  place o (scale (comp p i.redShift i.redMax) i.redMax o.redMax)
          (scale (comp p i.greenShift i.greenMax) i.greenMax o.greenMax)
          (scale (comp p i.blueShift i.blueMax) i.blueMax o.blueMax)

section entries
variable {i o : PixelFormat} {ir ig ib kr kg kb : Nat}

theorem spec_red_lt (wi : WF i ir ig ib) (wo : WF o kr kg kb) (p : Nat) :
    scale (comp p i.redShift i.redMax) i.redMax o.redMax < 2 ^ kr := by
  rw [wo.rmax]
  apply scale_lt_two_pow wi.max_pos.1
  rw [wi.rmax]; exact comp_le _ _ _

theorem spec_green_lt (wi : WF i ir ig ib) (wo : WF o kr kg kb) (p : Nat) :
    scale (comp p i.greenShift i.greenMax) i.greenMax o.greenMax < 2 ^ kg := by
  rw [wo.gmax]
  apply scale_lt_two_pow wi.max_pos.2.1
  rw [wi.gmax]; exact comp_le _ _ _

theorem spec_blue_lt (wi : WF i ir ig ib) (wo : WF o kr kg kb) (p : Nat) :
    scale (comp p i.blueShift i.blueMax) i.blueMax o.blueMax < 2 ^ kb := by
  rw [wo.bmax]
  apply scale_lt_two_pow wi.max_pos.2.2
  rw [wi.bmax]; exact comp_le _ _ _

theorem specPixel_lt (wi : WF i ir ig ib) (wo : WF o kr kg kb) (p : Nat) :
    specPixel i o p < 2 ^ o.bpp :=
  place_lt wo (spec_red_lt wi wo p) (spec_green_lt wi wo p) (spec_blue_lt wi wo p)

/-- single table: the entry is the demanded pixel, byte-swapped iff the two byte orders differ
(no truncation happens) -/
theorem singleEntryTC_eq (wi : WF i ir ig ib) (wo : WF o kr kg kb) (p : Nat) :
    singleEntryTC i o p =
      if o.bigEndian != i.bigEndian then swapOut o.bpp (specPixel i o p) else specPixel i o p := by
  have h := specPixel_lt wi wo p
  unfold specPixel place at h
  simp only [singleEntryTC, specPixel, place, Nat.mod_eq_of_lt h]

theorem rgbEntry_eq {bpp inMax outMax s k c : Nat} (sw : Bool) (hk : 1 ≤ k)
    (hs : scale c inMax outMax < 2 ^ k) (hfit : s + k ≤ bpp) (hb : bpp ≤ 32) :
    rgbEntry bpp inMax outMax s sw c =
      if sw then swapOut bpp (scale c inMax outMax <<< s) else scale c inMax outMax <<< s := by
  have h1 : scale c inMax outMax < 2 ^ bpp :=
    Nat.lt_of_lt_of_le hs (Nat.pow_le_pow_right (by decide) (by omega))
  have h2 : scale c inMax outMax <<< s < 2 ^ bpp := shl_lt hs hfit
  have h3 : s < 32 := by omega
  simp only [rgbEntry, h3, if_true, Nat.mod_eq_of_lt h1, Nat.mod_eq_of_lt h2]

/-- three tables: the OR of the three entries is the same pixel as the single table's -/
theorem rgbLookup_eq (wi : WF i ir ig ib) (wo : WF o kr kg kb) (hb : o.bpp ≤ 32) (p : Nat) :
    rgbLookup i o p =
      if o.bigEndian != i.bigEndian then swapOut o.bpp (specPixel i o p) else specPixel i o p := by
  unfold rgbLookup
  simp only []
  rw [rgbEntry_eq _ wo.kr_pos (spec_red_lt wi wo p) wo.rfit hb,
    rgbEntry_eq _ wo.kg_pos (spec_green_lt wi wo p) wo.gfit hb,
    rgbEntry_eq _ wo.kb_pos (spec_blue_lt wi wo p) wo.bfit hb]
  cases (o.bigEndian != i.bigEndian)
  · simp [specPixel, place]
  · simp [specPixel, place, swapOut_or]

end entries

/-! ## the area walk -/

theorem flatMap_congr' {α β : Type} {l : List α} {f g : α → List β} (h : ∀ a ∈ l, f a = g a) :
    l.flatMap f = l.flatMap g := by
  induction l with
  | nil => rfl
  | cons a l ih =>
    rw [List.flatMap_cons, List.flatMap_cons, h a (by simp), ih (fun x hx => h x (by simp [hx]))]

theorem pixLoop_eq (f : Nat → Nat) (inSize ip n : Nat) :
    pixLoop f inSize ip n = (List.range n).map fun c => f (ip + c * inSize) := by
  induction n generalizing ip with
  | zero => rfl
  | succ n ih =>
    rw [pixLoop, ih, List.range_succ_eq_map, List.map_cons, List.map_map]
    congr 1
    · simp
    · apply List.map_congr_left
      intro c _
      simp only [Function.comp, Nat.succ_eq_add_one, Nat.add_mul, Nat.one_mul]
      congr 1; omega

theorem rowLoop_eq (f : Nat → Nat) (inSize w step ip h : Nat) :
    rowLoop f inSize w step ip h =
      (List.range h).flatMap fun r => (List.range w).map fun c => f (ip + r * step + c * inSize) := by
  induction h generalizing ip with
  | zero => rfl
  | succ h ih =>
    rw [rowLoop, ih, pixLoop_eq, List.range_succ_eq_map, List.flatMap_cons, List.flatMap_map]
    congr 1
    · simp
    · apply flatMap_congr'
      intro r _
      apply List.map_congr_left
      intro c _
      simp only [Nat.succ_eq_add_one, Nat.add_mul, Nat.one_mul]
      congr 1; omega

theorem copyRows_eq (mem : Nat → Nat) (lineBytes stride ip h : Nat) :
    copyRows mem lineBytes stride ip h =
      (List.range h).flatMap fun r => memBytes mem (ip + r * stride) lineBytes := by
  induction h generalizing ip with
  | zero => rfl
  | succ h ih =>
    rw [copyRows, ih, List.range_succ_eq_map, List.flatMap_cons, List.flatMap_map]
    congr 1
    · simp
    · apply flatMap_congr'
      intro r _
      simp only [Nat.succ_eq_add_one, Nat.add_mul, Nat.one_mul]
      congr 1; omega

theorem pixLoop_length (f : Nat → Nat) (inSize ip n : Nat) : (pixLoop f inSize ip n).length = n := by
  rw [pixLoop_eq]; simp

theorem rowLoop_length (f : Nat → Nat) (inSize w step ip h : Nat) :
    (rowLoop f inSize w step ip h).length = h * w := by
  induction h generalizing ip with
  | zero => simp [rowLoop]
  | succ h ih => rw [rowLoop, List.length_append, pixLoop_length, ih, Nat.succ_mul]; omega

theorem flatMap_encode_length (be : Bool) (n : Nat) (l : List Nat) :
    (l.flatMap (encode be n)).length = l.length * n := by
  induction l with
  | nil => simp
  | cons a l ih =>
    rw [List.flatMap_cons, List.length_append, ih, List.length_cons, Nat.succ_mul]
    have : (encode be n a).length = n := by
      unfold encode; split <;> simp [bytesLE_length]
    omega

theorem memBytes_congr {mem mem' : Nat → Nat} {off n : Nat}
    (h : ∀ j, j < n → mem (off + j) = mem' (off + j)) : memBytes mem off n = memBytes mem' off n := by
  unfold memBytes
  apply List.map_congr_left
  intro j hj
  exact h j (List.mem_range.mp hj)

theorem encode_length (be : Bool) (n v : Nat) : (encode be n v).length = n := by
  unfold encode; split <;> simp [bytesLE_length]

end VncModel.Translate
