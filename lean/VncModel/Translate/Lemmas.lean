import VncModel.Translate.Model
/-!
# Helper lemmas for the C10 theorems (bit fields, byte order, area loops).  Core Lean only.
-/
namespace VncModel.Translate

/-! ## bits -/

theorem testBit_false_of_lt_of_le {x k j : Nat} (hx : x < 2 ^ k) (h : k ≤ j) : x.testBit j = false :=
  Nat.testBit_lt_two_pow (Nat.lt_of_lt_of_le hx (Nat.pow_le_pow_right (by decide) h))

/-- a field `x <<< s` with `x < 2^k` has its bits inside `[s, s+k)` -/
theorem shl_testBit_true {x s k j : Nat} (hx : x < 2 ^ k) (h : (x <<< s).testBit j = true) :
    s ≤ j ∧ j < s + k := by
  rw [Nat.testBit_shiftLeft] at h
  simp only [ge_iff_le, Bool.and_eq_true, decide_eq_true_eq] at h
  refine ⟨h.1, ?_⟩
  apply Classical.byContradiction
  intro hn
  have : x.testBit (j - s) = false := testBit_false_of_lt_of_le hx (by omega)
  simp [this] at h

theorem shl_testBit_false {x s k j : Nat} (hx : x < 2 ^ k) (h : j < s ∨ s + k ≤ j) :
    (x <<< s).testBit j = false := by
  cases hb : (x <<< s).testBit j with
  | false => rfl
  | true => have := shl_testBit_true hx hb; omega

/-- extracting a field: the other part has no bit inside `[s, s+k)` -/
theorem field_get {x rest s k : Nat} (hx : x < 2 ^ k)
    (hrest : ∀ j, s ≤ j → j < s + k → rest.testBit j = false) :
    ((x <<< s ||| rest) >>> s) &&& (2 ^ k - 1) = x := by
  apply Nat.eq_of_testBit_eq
  intro j
  rw [Nat.testBit_and, Nat.testBit_shiftRight, Nat.testBit_or, Nat.testBit_shiftLeft,
    Nat.testBit_two_pow_sub_one]
  by_cases hj : j < k
  · have h1 : rest.testBit (s + j) = false := hrest _ (by omega) (by omega)
    have h2 : s + j - s = j := by omega
    simp [h1, h2, hj]
  · have : x.testBit j = false := testBit_false_of_lt_of_le hx (by omega)
    simp [hj, this]

theorem or_testBit_false {a b j : Nat} (ha : a.testBit j = false) (hb : b.testBit j = false) :
    (a ||| b).testBit j = false := by
  rw [Nat.testBit_or, ha, hb]; rfl

theorem shl_lt {x s k n : Nat} (hx : x < 2 ^ k) (h : s + k ≤ n) : x <<< s < 2 ^ n := by
  apply Nat.lt_pow_two_of_testBit
  intro j hj
  exact shl_testBit_false hx (by omega)

theorem or3_lt {a b c n : Nat} (ha : a < 2 ^ n) (hb : b < 2 ^ n) (hc : c < 2 ^ n) :
    a ||| b ||| c < 2 ^ n := Nat.or_lt_two_pow (Nat.or_lt_two_pow ha hb) hc

theorem comp_le (p s k : Nat) : comp p s (2 ^ k - 1) ≤ 2 ^ k - 1 := by
  unfold comp
  rw [Nat.and_two_pow_sub_one_eq_mod]
  have := Nat.mod_lt (p >>> s) (Nat.two_pow_pos k)
  omega

/-! ## the scaling expression -/

theorem scale_le {c inMax outMax : Nat} (h : 0 < inMax) (hc : c ≤ inMax) :
    scale c inMax outMax ≤ outMax := by
  unfold scale
  have h1 : c * outMax ≤ inMax * outMax := Nat.mul_le_mul_right _ hc
  have h2 : c * outMax + inMax / 2 < inMax * (outMax + 1) := by
    rw [Nat.mul_add, Nat.mul_one]; omega
  have := Nat.div_lt_of_lt_mul h2
  omega

theorem scale_bounds {c inMax outMax : Nat} (h : 0 < inMax) :
    2 * (scale c inMax outMax * inMax) ≤ 2 * (c * outMax) + inMax ∧
    2 * (c * outMax) ≤ 2 * (scale c inMax outMax * inMax) + inMax := by
  unfold scale
  have h1 := Nat.div_add_mod (c * outMax + inMax / 2) inMax
  have h2 := Nat.mod_lt (c * outMax + inMax / 2) h
  rw [Nat.mul_comm] at h1
  constructor <;> omega

theorem scale_lt_two_pow {c inMax k : Nat} (h : 0 < inMax) (hc : c ≤ inMax) :
    scale c inMax (2 ^ k - 1) < 2 ^ k := by
  have := scale_le (outMax := 2 ^ k - 1) h hc
  have := Nat.two_pow_pos k
  omega

/-! ## well-formed formats and the placed pixel -/

/-- well-formed true-colour format: maxima `2^k − 1` with `k ≥ 1` bits, every field inside the
pixel, fields pairwise disjoint -/
structure WF (f : PixelFormat) (kr kg kb : Nat) : Prop where
  kr_pos : 1 ≤ kr
  kg_pos : 1 ≤ kg
  kb_pos : 1 ≤ kb
  rmax : f.redMax = 2 ^ kr - 1
  gmax : f.greenMax = 2 ^ kg - 1
  bmax : f.blueMax = 2 ^ kb - 1
  rfit : f.redShift + kr ≤ f.bpp
  gfit : f.greenShift + kg ≤ f.bpp
  bfit : f.blueShift + kb ≤ f.bpp
  rg : f.redShift + kr ≤ f.greenShift ∨ f.greenShift + kg ≤ f.redShift
  rb : f.redShift + kr ≤ f.blueShift ∨ f.blueShift + kb ≤ f.redShift
  gb : f.greenShift + kg ≤ f.blueShift ∨ f.blueShift + kb ≤ f.greenShift

/-- three components placed at the shifts of format `o` -/
def place (o : PixelFormat) (r g b : Nat) : Nat :=
  (r <<< o.redShift) ||| (g <<< o.greenShift) ||| (b <<< o.blueShift)

section placed
variable {o : PixelFormat} {kr kg kb r g b : Nat}

theorem WF.max_pos (w : WF o kr kg kb) : 0 < o.redMax ∧ 0 < o.greenMax ∧ 0 < o.blueMax := by
  have h1 : 2 ^ 1 ≤ 2 ^ kr := Nat.pow_le_pow_right (by decide) w.kr_pos
  have h2 : 2 ^ 1 ≤ 2 ^ kg := Nat.pow_le_pow_right (by decide) w.kg_pos
  have h3 : 2 ^ 1 ≤ 2 ^ kb := Nat.pow_le_pow_right (by decide) w.kb_pos
  rw [w.rmax, w.gmax, w.bmax]
  omega

theorem place_lt (w : WF o kr kg kb) (hr : r < 2 ^ kr) (hg : g < 2 ^ kg) (hb : b < 2 ^ kb) :
    place o r g b < 2 ^ o.bpp :=
  or3_lt (shl_lt hr w.rfit) (shl_lt hg w.gfit) (shl_lt hb w.bfit)

theorem place_red (w : WF o kr kg kb) (hr : r < 2 ^ kr) (hg : g < 2 ^ kg) (hb : b < 2 ^ kb) :
    comp (place o r g b) o.redShift o.redMax = r := by
  unfold comp place
  rw [w.rmax, Nat.or_assoc]
  apply field_get hr
  intro j h1 h2
  apply or_testBit_false
  · exact shl_testBit_false hg (by have := w.rg; omega)
  · exact shl_testBit_false hb (by have := w.rb; omega)

theorem place_green (w : WF o kr kg kb) (hr : r < 2 ^ kr) (hg : g < 2 ^ kg) (hb : b < 2 ^ kb) :
    comp (place o r g b) o.greenShift o.greenMax = g := by
  unfold comp place
  have e : r <<< o.redShift ||| g <<< o.greenShift ||| b <<< o.blueShift =
      g <<< o.greenShift ||| (r <<< o.redShift ||| b <<< o.blueShift) := by
    rw [Nat.or_comm (r <<< o.redShift), Nat.or_assoc]
  rw [w.gmax, e]
  apply field_get hg
  intro j h1 h2
  apply or_testBit_false
  · exact shl_testBit_false hr (by have := w.rg; omega)
  · exact shl_testBit_false hb (by have := w.gb; omega)

theorem place_blue (w : WF o kr kg kb) (hr : r < 2 ^ kr) (hg : g < 2 ^ kg) (hb : b < 2 ^ kb) :
    comp (place o r g b) o.blueShift o.blueMax = b := by
  unfold comp place
  rw [w.bmax, Nat.or_comm]
  apply field_get hb
  intro j h1 h2
  apply or_testBit_false
  · exact shl_testBit_false hr (by have := w.rb; omega)
  · exact shl_testBit_false hg (by have := w.gb; omega)

/-- every set bit of the placed pixel lies in one of the three fields -/
theorem place_bits (hr : r < 2 ^ kr) (hg : g < 2 ^ kg) (hb : b < 2 ^ kb) {j : Nat}
    (h : (place o r g b).testBit j = true) :
    (o.redShift ≤ j ∧ j < o.redShift + kr) ∨ (o.greenShift ≤ j ∧ j < o.greenShift + kg) ∨
    (o.blueShift ≤ j ∧ j < o.blueShift + kb) := by
  unfold place at h
  rw [Nat.testBit_or, Nat.testBit_or] at h
  simp only [Bool.or_eq_true] at h
  rcases h with (h | h) | h
  · exact Or.inl (shl_testBit_true hr h)
  · exact Or.inr (Or.inl (shl_testBit_true hg h))
  · exact Or.inr (Or.inr (shl_testBit_true hb h))

end placed

/-! ## byte order -/

theorem and_ff (v : Nat) : v &&& 0xff = v % 256 := Nat.and_two_pow_sub_one_eq_mod v 8

theorem or_shl_eq_add {x k : Nat} (a : Nat) (hx : x < 2 ^ k) : x ||| a <<< k = x + a * 2 ^ k := by
  rw [Nat.or_comm, ← Nat.shiftLeft_add_eq_or_of_lt hx, Nat.shiftLeft_eq, Nat.add_comm]

theorem swap16_arith (v : Nat) : swap16 v = (v % 256) * 256 + (v / 256) % 256 := by
  unfold swap16
  rw [and_ff, and_ff, Nat.shiftRight_eq_div_pow, Nat.or_comm,
    or_shl_eq_add (k := 8) _ (Nat.mod_lt _ (by decide))]
  omega

theorem swap24_arith (v : Nat) :
    swap24 v = (v / 65536) % 256 + ((v / 256) % 256) * 256 + (v % 256) * 65536 := by
  unfold swap24
  simp only [and_ff, Nat.shiftRight_eq_div_pow]
  have h0 := Nat.mod_lt (v / 2 ^ 16) (show 0 < 256 by decide)
  have h1 := Nat.mod_lt (v / 2 ^ 8) (show 0 < 256 by decide)
  rw [or_shl_eq_add (k := 8) _ (by omega), or_shl_eq_add (k := 16) _ (by omega)]

theorem swap32_arith (v : Nat) :
    swap32 v = (v / 16777216) % 256 + ((v / 65536) % 256) * 256 + ((v / 256) % 256) * 65536 +
      (v % 256) * 16777216 := by
  unfold swap32
  simp only [and_ff, Nat.shiftRight_eq_div_pow]
  have h0 := Nat.mod_lt (v / 2 ^ 24) (show 0 < 256 by decide)
  have h1 := Nat.mod_lt (v / 2 ^ 16) (show 0 < 256 by decide)
  have h2 := Nat.mod_lt (v / 2 ^ 8) (show 0 < 256 by decide)
  rw [or_shl_eq_add (k := 8) _ (by omega), or_shl_eq_add (k := 16) _ (by omega),
    or_shl_eq_add (k := 24) _ (by omega)]

/-- **byte order**: a pixel value `v` that the table holds byte-swapped exactly when the client's
order differs from the machine's, stored by a typed store in machine order `h`, reads back as `v`
in the client's order `c` (pixel sizes 1, 2, 3, 4 bytes). -/
theorem decode_encode_swap (h c : Bool) (n : Nat) (hn : n = 1 ∨ n = 2 ∨ n = 3 ∨ n = 4) (v : Nat)
    (hv : v < 2 ^ (8 * n)) :
    decode c (encode h n (if c != h then swapOut (8 * n) v else v)) = v := by
  rcases hn with rfl | rfl | rfl | rfl <;> cases h <;> cases c <;>
    simp [decode, encode, bytesLE, valLE, swapOut, swap16_arith, swap24_arith, swap32_arith] at hv ⊢ <;>
    omega

theorem encode_length (be : Bool) (n v : Nat) : (encode be n v).length = n := by
  have : ∀ n v, (bytesLE n v).length = n := by
    intro n; induction n with
    | zero => intro v; rfl
    | succ n ih => intro v; simp [bytesLE, ih]
  unfold encode; split <;> simp [this]

end VncModel.Translate
