import VncModel.Gen.C10
/-!
# Model of the pixel-format translation layer (translate.c and its templates)

Mirrors, bug for bug,

* `rfbSetTranslateFunction` (validation of the bits-per-pixel values, BGR233 colour-map clients,
  `PF_EQ` → `rfbTranslateNone`, single table for an 8 bpp server or a 16 bpp server that is
  colour-mapped or not "economic", three per-channel tables otherwise) — `setTranslate`;
* `rfbInitTrueColourSingleTableOUT`, `rfbInitTrueColourRGBTablesOUT`/`rfbInitOneRGBTableOUT`,
  `rfbInitColourMapSingleTableOUT` (OUT = 8, 16, 32 and the 24-bit variants of tableinit24.c for
  the single tables) — `singleEntryTC`, `rgbEntry`/`rgbLookup`, `singleEntryCM`;
* `rfbTranslateWithSingleTableINtoOUT`, `rfbTranslateWithRGBTablesINtoOUT`, the 24-bit-source
  variants and `rfbTranslateNone`, including the pointer walk with `bytesBetweenInputLines`
  — `pixLoop`, `rowLoop`, `copyRows`, `translateArea`.

Numbers are `Nat`.  C `int` arithmetic that the code performs without any guard is modelled by the
unbounded operation; every theorem that needs "no overflow", "shift < 32" or "max ≠ 0" states it
(`Props/C10.lean`), and the excluded points are run on the real code in a separate stream.
Assignments to `OUT_T` are modelled by `% 2^bpp`.  A table is modelled by the function
`index ↦ entry`; the theorem `lookup_in_table` shows every index used is below the number of
entries the C code allocates (`tableBytes`).

Memory is a function `Nat → Nat` from byte offsets (relative to `iptr`) to byte values; pixels are
read and written in the byte order of the machine (`hostBE`), exactly as the C code's typed loads
and stores do.  Core Lean only.
-/
namespace VncModel.Translate

structure PixelFormat where
  bpp : Nat
  depth : Nat
  bigEndian : Bool
  trueColour : Bool
  redMax : Nat
  greenMax : Nat
  blueMax : Nat
  redShift : Nat
  greenShift : Nat
  blueShift : Nat
deriving Repr, DecidableEq, Inhabited

/-- the machine's byte order (T0: regenerated from the tree; `rfbEndianTest` is its negation) -/
def hostBE : Bool := !Gen.C10.hostLittleEndian

/-- `BGR233Format` of translate.c, from the T0 probe -/
def bgr233Format : PixelFormat :=
  { bpp := Gen.C10.bgr233_bpp, depth := Gen.C10.bgr233_depth,
    bigEndian := Gen.C10.bgr233_bigEndian != 0, trueColour := Gen.C10.bgr233_trueColour != 0,
    redMax := Gen.C10.bgr233_redMax, greenMax := Gen.C10.bgr233_greenMax,
    blueMax := Gen.C10.bgr233_blueMax, redShift := Gen.C10.bgr233_redShift,
    greenShift := Gen.C10.bgr233_greenShift, blueShift := Gen.C10.bgr233_blueShift }

/-! ## colour scaling and byte swapping -/

/-- the RFB colour-scaling expression of tableinittctemplate.c, verbatim:
`(i * outMax + inMax / 2) / inMax` -/
def scale (c inMax outMax : Nat) : Nat := (c * outMax + inMax / 2) / inMax

/-- `Swap16` of rfb.h -/
def swap16 (v : Nat) : Nat := ((v &&& 0xff) <<< 8) ||| ((v >>> 8) &&& 0xff)

/-- `Swap32` of rfb.h (each byte is isolated by shift-then-mask instead of mask-then-shift) -/
def swap32 (v : Nat) : Nat :=
  ((v >>> 24) &&& 0xff) ||| (((v >>> 16) &&& 0xff) <<< 8) ||| (((v >>> 8) &&& 0xff) <<< 16) |||
    ((v &&& 0xff) <<< 24)

/-- tableinit24.c: `c = t[3*i]; t[3*i] = t[3*i+2]; t[3*i+2] = c` on a 3-byte entry -/
def swap24 (v : Nat) : Nat :=
  ((v >>> 16) &&& 0xff) ||| (((v >>> 8) &&& 0xff) <<< 8) ||| ((v &&& 0xff) <<< 16)

/-- `SwapOUT`; for OUT = 8 the template compiles no swap at all (`#if (OUT != 8)`) -/
def swapOut (bpp v : Nat) : Nat :=
  if bpp = 16 then swap16 v else if bpp = 32 then swap32 v else if bpp = 24 then swap24 v else v

/-! ## table initialisation -/

/-- colour component `(pixel >> shift) & max` -/
def comp (p shift max : Nat) : Nat := (p >>> shift) &&& max

/-- `rfbInitTrueColourSingleTableOUT` (and `…SingleTable24`): entry `p` of the single table -/
def singleEntryTC (i o : PixelFormat) (p : Nat) : Nat :=
  let outRed := scale (comp p i.redShift i.redMax) i.redMax o.redMax
  let outGreen := scale (comp p i.greenShift i.greenMax) i.greenMax o.greenMax
  let outBlue := scale (comp p i.blueShift i.blueMax) i.blueMax o.blueMax
  let v := ((outRed <<< o.redShift) ||| (outGreen <<< o.greenShift) ||| (outBlue <<< o.blueShift))
            % 2 ^ o.bpp
  if o.bigEndian != i.bigEndian then swapOut o.bpp v else v

/-- `rfbInitOneRGBTableOUT` (OUT = 8, 16, 32): entry `c` of one channel table.  The guard
`outShift < 32` is the code's own. -/
def rgbEntry (bpp inMax outMax outShift : Nat) (swap : Bool) (c : Nat) : Nat :=
  let v := if outShift < 32 then ((scale c inMax outMax % 2 ^ bpp) <<< outShift) % 2 ^ bpp else 0
  if swap then swapOut bpp v else v

/-- `rfbTranslateWithRGBTablesINtoOUT`: the pixel computed from the three tables -/
def rgbLookup (i o : PixelFormat) (p : Nat) : Nat :=
  let sw := o.bigEndian != i.bigEndian
  rgbEntry o.bpp i.redMax o.redMax o.redShift sw (comp p i.redShift i.redMax) |||
  rgbEntry o.bpp i.greenMax o.greenMax o.greenShift sw (comp p i.greenShift i.greenMax) |||
  rgbEntry o.bpp i.blueMax o.blueMax o.blueShift sw (comp p i.blueShift i.blueMax)

/-- `rfbColourMap`: `data` is the memory behind `data.bytes` / `data.shorts` (index ↦ value);
the C precondition "there have to be count*3 entries" is the caller's. -/
structure ColourMap where
  is16 : Bool
  count : Nat
  data : Nat → Nat

/-- component `j` (0,1,2) of colour `p`, `0` beyond `count` (the code's own guard) -/
def cmComp (cm : ColourMap) (p j : Nat) : Nat := if p < cm.count then cm.data (3 * p + j) else 0

/-- the colour-map scaling `(c * (1 + outMax)) >> shift`, `shift` = 16 or 8 -/
def cmScale (cm : ColourMap) (c outMax : Nat) : Nat :=
  (c * (1 + outMax)) >>> (if cm.is16 then 16 else 8)

/-- `rfbInitColourMapSingleTableOUT`: entry `p` -/
def singleEntryCM (i o : PixelFormat) (cm : ColourMap) (p : Nat) : Nat :=
  let v := ((cmScale cm (cmComp cm p 0) o.redMax <<< o.redShift) |||
            (cmScale cm (cmComp cm p 1) o.greenMax <<< o.greenShift) |||
            (cmScale cm (cmComp cm p 2) o.blueMax <<< o.blueShift)) % 2 ^ o.bpp
  if o.bigEndian != i.bigEndian then swapOut o.bpp v else v

/-- `rfbSetClientColourMap(cl, …)` for a client whose format is true colour (always so after a
successful `rfbSetTranslateFunction`): the lookup table is rebuilt from the screen's CURRENT colour
map iff the server is colour-mapped and the client has sent SetPixelFormat
(`cl->readyForSetColourMapEntries`); otherwise nothing happens.  `tableCm` is the colour map the
table was last built from; the result is the one it is built from afterwards. -/
def setClientColourMap (ready : Bool) (srv : PixelFormat) (tableCm screenCm : ColourMap) : ColourMap :=
  if srv.trueColour || !ready then tableCm else screenCm

/-! ## choice of the translation function -/

inductive Strategy where
  | reject     -- rfbCloseClient, FALSE
  | none       -- rfbTranslateNone
  | singleTC   -- single table, true-colour server
  | singleCM   -- single table, colour-mapped server
  | rgb        -- three tables
deriving Repr, DecidableEq, Inhabited

def validBpp (b : Nat) : Bool :=
  b == 8 || b == 16 || (Gen.C10.allow24bpp && b == 24) || b == 32

/-- the macro `PF_EQ(x, y)` -/
def pfEq (x y : PixelFormat) : Bool :=
  x.bpp == y.bpp && x.depth == y.depth && (x.bigEndian == y.bigEndian || x.bpp == 8) &&
  (x.trueColour == y.trueColour) &&
  (!x.trueColour || (x.redMax == y.redMax && x.greenMax == y.greenMax && x.blueMax == y.blueMax &&
                     x.redShift == y.redShift && x.greenShift == y.greenShift &&
                     x.blueShift == y.blueShift))

/-- a colour channel fits into the pixel: `shift < bpp` and `(max << shift) >> bpp == 0`
(`rfbChannelFitsPixel`, present only in trees that validate — see `channelCheck`) -/
def channelFits (max shift bpp : Nat) : Bool := shift < bpp && (max <<< shift) >>> bpp == 0

/-- the validation of the client's channels.  Whether the tree performs it is observed by the T0
probe (`Gen.C10.validatesChannelFit`: the tree as received does not; `fixes/C04-pixfmt-validate.diff`
adds it).  Colour-map clients are not checked. -/
def channelCheck (cli : PixelFormat) : Bool :=
  !Gen.C10.validatesChannelFit || !cli.trueColour ||
  (channelFits cli.redMax cli.redShift cli.bpp && channelFits cli.greenMax cli.greenShift cli.bpp &&
   channelFits cli.blueMax cli.blueShift cli.bpp)

structure SetResult where
  strat : Strategy
  /-- `cl->format` after the call (BGR233 for colour-map clients) -/
  fmt : PixelFormat
  /-- a SetColourMapEntries message (`bgr233Message`) was written to the client -/
  sentCMap : Bool
deriving Repr, DecidableEq

/-- `rfbSetTranslateFunction(cl)` with `srv = cl->screen->serverFormat`, `cli = cl->format`,
`econ = rfbEconomicTranslate` -/
def setTranslate (econ : Bool) (srv cli : PixelFormat) : SetResult :=
  if !validBpp srv.bpp then ⟨.reject, cli, false⟩
  else if !validBpp cli.bpp then ⟨.reject, cli, false⟩
  else if !cli.trueColour && cli.bpp != 8 then ⟨.reject, cli, false⟩
  else if !channelCheck cli then ⟨.reject, cli, false⟩
  else
    let sent := !cli.trueColour
    let c := if cli.trueColour then cli else bgr233Format
    if pfEq c srv then ⟨.none, c, sent⟩
    else if srv.bpp < 16 || ((!srv.trueColour || !econ) && srv.bpp == 16) then
      ⟨if srv.trueColour then .singleTC else .singleCM, c, sent⟩
    else ⟨.rgb, c, sent⟩

/-- big-endian 16-bit value as two bytes -/
def be16 (v : Nat) : List Nat := [(v / 256) % 256, v % 256]

/-- the SetColourMapEntries message of `rfbSetClientColourMapBGR233` (pad byte shown as 0: the
code leaves it uninitialised): entry index `(b*8+g)*8+r` ↦ `(r*65535/7, g*65535/7, b*65535/3)` -/
def bgr233Message : List Nat :=
  [Gen.C10.msgSetColourMapEntries, 0] ++ be16 0 ++ be16 256 ++
  (List.range 4).flatMap fun b => (List.range 8).flatMap fun g => (List.range 8).flatMap fun r =>
    be16 (r * 65535 / 7) ++ be16 (g * 65535 / 7) ++ be16 (b * 65535 / 3)

/-- number of bytes `malloc`ed for `cl->translateLookupTable` -/
def tableBytes (s : Strategy) (i o : PixelFormat) : Nat :=
  let n := match s with
    | .rgb => i.redMax + i.greenMax + i.blueMax + 3
    | _ => 2 ^ i.bpp
  if o.bpp = 24 then n * 3 + 1 else n * (o.bpp / 8)

/-- the pixel the chosen function produces for source pixel value `p` -/
def lookup (s : Strategy) (i o : PixelFormat) (cm : ColourMap) (p : Nat) : Nat :=
  match s with
  | .singleTC => singleEntryTC i o p
  | .singleCM => singleEntryCM i o cm p
  | .rgb => rgbLookup i o p
  | _ => p

/-! ## memory codecs -/

/-- `n` bytes of `v`, least significant first -/
def bytesLE : Nat → Nat → List Nat
  | 0, _ => []
  | n + 1, v => v % 256 :: bytesLE n (v / 256)

def valLE : List Nat → Nat
  | [] => 0
  | b :: bs => b + 256 * valLE bs

/-- a typed store of `v` into `n` bytes in byte order `be` -/
def encode (be : Bool) (n v : Nat) : List Nat := if be then (bytesLE n v).reverse else bytesLE n v

/-- a typed load from bytes in byte order `be` -/
def decode (be : Bool) (bs : List Nat) : Nat := if be then valLE bs.reverse else valLE bs

/-- the `n` bytes at offset `off` -/
def memBytes (mem : Nat → Nat) (off n : Nat) : List Nat := (List.range n).map fun j => mem (off + j)

/-- `*(IN_T *)ip` (8/16/32) resp. the 3 pixel bytes of a 24-bit source, in machine byte order -/
def readPix (be : Bool) (mem : Nat → Nat) (off n : Nat) : Nat := decode be (memBytes mem off n)

/-! ## translating an area -/

/-- inner `while (op < opLineEnd)`: `n` pixels, the source pointer advances by `inSize` bytes,
`f ip` is the output pixel for the source pixel at byte offset `ip` -/
def pixLoop (f : Nat → Nat) (inSize : Nat) (ip : Nat) : Nat → List Nat
  | 0 => []
  | n + 1 => f ip :: pixLoop f inSize (ip + inSize) n

/-- outer `while (height > 0)`: after a row the pointer, which has advanced by `w` pixels, is moved
by `ipextra`; `step` is `w*inSize + ipextra*inSize` computed below (`rowStep`) -/
def rowLoop (f : Nat → Nat) (inSize w step : Nat) (ip : Nat) : Nat → List Nat
  | 0 => []
  | h + 1 => pixLoop f inSize ip w ++ rowLoop f inSize w step (ip + w * inSize + step - w * inSize) h

/-- distance in bytes between the starts of consecutive source rows as the code computes it:
`ipextra = bytesBetweenInputLines / sizeof(IN_T) - width` pixels for typed pointers (so a stride
that is not a multiple of the pixel size is rounded DOWN), `bytesBetweenInputLines - width*3` bytes
for a 24-bit source -/
def rowStep (inSize stride : Nat) : Nat := if inSize = 3 then stride else (stride / inSize) * inSize

/-- `rfbTranslateNone`: `h` times `memcpy(optr, iptr, w * (out->bitsPerPixel / 8))`,
`iptr += bytesBetweenInputLines` -/
def copyRows (mem : Nat → Nat) (lineBytes stride : Nat) (ip : Nat) : Nat → List Nat
  | 0 => []
  | h + 1 => memBytes mem ip lineBytes ++ copyRows mem lineBytes stride (ip + stride) h

/-- the output pixels (values, in writing order) of the table-driven functions -/
def translatePixels (be : Bool) (s : Strategy) (i o : PixelFormat) (cm : ColourMap)
    (mem : Nat → Nat) (stride w h : Nat) : List Nat :=
  let inSize := i.bpp / 8
  rowLoop (fun ip => lookup s i o cm (readPix be mem ip inSize)) inSize w (rowStep inSize stride) 0 h

/-- `cl->translateFn(table, &serverFormat, &clientFormat, iptr, optr, stride, w, h)`:
the bytes written, consecutively from `optr` -/
def translateArea (be : Bool) (s : Strategy) (i o : PixelFormat) (cm : ColourMap)
    (mem : Nat → Nat) (stride w h : Nat) : List Nat :=
  match s with
  | .none => copyRows mem (w * (o.bpp / 8)) stride 0 h
  | _ => (translatePixels be s i o cm mem stride w h).flatMap (encode be (o.bpp / 8))

/-- number of source bytes, counted from `iptr`, that must be readable -/
def srcNeeded (s : Strategy) (i o : PixelFormat) (stride w h : Nat) : Nat :=
  if w = 0 ∨ h = 0 then 0 else
  match s with
  | .none => (h - 1) * stride + w * (o.bpp / 8)
  | _ => (h - 1) * rowStep (i.bpp / 8) stride + w * (i.bpp / 8)

end VncModel.Translate
