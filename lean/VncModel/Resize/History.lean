import VncModel.Resize.Admin
/-!
History-level reasoning about the messages one client receives: a generic "first relevant message"
induction, and its instances for the size short-circuit and the ExtendedDesktopSize bookkeeping.
-/
namespace VncModel.Resize
open VncModel.Rgn VncModel.Update

/-- messages sent to client `id` by one step -/
def Obs.to (o : Obs) (id : Nat) : List Msg :=
  o.msgs.filterMap fun m => if m.1 == id then some m.2 else none

/-- all messages sent to client `id` during a history, oldest first -/
def msgsTo (id : Nat) : List Obs → List Msg
  | [] => []
  | o :: os => o.to id ++ msgsTo id os

def Msg.isSize : Msg → Bool
  | .size .. | .ext .. => true
  | _ => false

theorem mem_to {o : Obs} {id : Nat} {m : Msg} : m ∈ o.to id ↔ (id, m) ∈ o.msgs := by
  simp only [Obs.to, List.mem_filterMap]
  constructor
  · rintro ⟨⟨i, m'⟩, hm, h⟩
    by_cases hi : i = id
    · simp [hi] at h; subst hi; subst h; exact hm
    · simp [hi] at h
  · intro h
    exact ⟨(id, m), h, by simp⟩

/-- **first relevant message**: if a state predicate `P` is kept by every admissible operation that
sends client `id` no relevant message, and every relevant message sent to `id` from a `P`-state
satisfies `Q`, then the first relevant message `id` receives in any admissible history from a
`P`-state satisfies `Q`. -/
theorem first_relevant (id : Nat) (Rel : Msg → Bool) (P : State → Prop) (Q : Msg → Prop)
    (A : Op → Prop)
    (hstep : ∀ st op, P st → A op →
      (∀ m, (id, m) ∈ (step st op).2.msgs → Rel m = true → Q m) ∧
      ((∀ m, (id, m) ∈ (step st op).2.msgs → Rel m = false) → P (step st op).1)) :
    ∀ (ops : List Op) (st : State), P st → (∀ op ∈ ops, A op) →
      ∀ m, (msgsTo id (run st ops).2).find? Rel = some m → Q m := by
  intro ops
  induction ops with
  | nil => intro st _ _ m h; simp [run, msgsTo] at h
  | cons op ops ih =>
    intro st hP hA m hm
    have hA1 := hA op (by simp)
    obtain ⟨h1, h2⟩ := hstep st op hP hA1
    simp only [run, msgsTo, List.find?_append] at hm
    cases hf : ((step st op).2.to id).find? Rel with
    | some m' =>
      rw [hf] at hm
      simp at hm
      subst hm
      exact h1 m' (mem_to.mp (List.mem_of_find?_eq_some hf)) (List.find?_some hf)
    | none =>
      rw [hf] at hm
      simp only [Option.none_or] at hm
      refine ih (step st op).1 (h2 ?_) (fun o ho => hA o (by simp [ho])) m hm
      intro m' hm'
      have := List.find?_eq_none.mp hf m' (mem_to.mpr hm')
      simpa using this

/-! ### per-client function facts -/

theorem sizeMessage_msg (c : Client) :
    (sizeMessage c).2 =
      if c.useExt then Msg.ext c.reqChange c.lastErr c.sw c.sh [(1, 0, 0, c.sw, c.sh, 0)]
      else Msg.size c.sw c.sh := by
  unfold sizeMessage; split <;> rfl

theorem sizeMessage_state (c : Client) :
    (sizeMessage c).1.pending = false ∧ (sizeMessage c).1.base = c.base ∧
    (sizeMessage c).1.useNewFBSize = c.useNewFBSize ∧ (sizeMessage c).1.useExt = c.useExt ∧
    (c.useExt = true → (sizeMessage c).1.reqChange = 0 ∧ (sizeMessage c).1.lastErr = 0) ∧
    (c.useExt = false → (sizeMessage c).1.reqChange = c.reqChange ∧ (sizeMessage c).1.lastErr = c.lastErr) := by
  unfold sizeMessage
  split <;> simp_all

/-- the flags / bookkeeping fields an operation on the regions leaves alone -/
structure Flags where
  id : Nat
  useNewFBSize : Bool
  useExt : Bool
  pending : Bool
  reqChange : Int
  lastErr : Int
  sw : Int
  sh : Int
  deriving DecidableEq

def flags (c : Client) : Flags := ⟨c.id, c.useNewFBSize, c.useExt, c.pending, c.reqChange, c.lastErr, c.sw, c.sh⟩

/-- messages of `updateClient`: either nothing, or exactly the size message (when one is pending),
or exactly one ordinary update (no size message), in which case the flags are unchanged -/
theorem updateClient_msgs (s : Screen) (c : Client) :
    ((updateClient s c).2.msgs = [] ∧ flags (updateClient s c).1 = flags c) ∨
    (c.useNewFBSize = true ∧ c.pending = true ∧
      (updateClient s c).2.msgs = [(c.id, (sizeMessage c).2)] ∧ (updateClient s c).1 = (sizeMessage c).1) ∨
    (¬ (c.useNewFBSize = true ∧ c.pending = true) ∧ flags (updateClient s c).1 = flags c ∧
      ∃ cs cp rs, (updateClient s c).2.msgs = [(c.id, Msg.fbu cs cp rs)]) := by
  unfold updateClient
  split
  · unfold sendUpdate
    split
    · rename_i h
      simp only [Bool.and_eq_true] at h
      exact Or.inr (Or.inl ⟨h.1, h.2, rfl, rfl⟩)
    · rename_i h
      simp only [Bool.and_eq_true] at h
      split
      · exact Or.inl ⟨rfl, rfl⟩
      · exact Or.inr (Or.inr ⟨h, rfl, _, _, _, rfl⟩)
  · exact Or.inl ⟨rfl, rfl⟩

theorem setScale_flags (s : Screen) (c : Client) (k : Int) :
    (setScale s c k).1.id = c.id ∧ (setScale s c k).1.useNewFBSize = c.useNewFBSize ∧
    (setScale s c k).1.useExt = c.useExt ∧ (setScale s c k).1.reqChange = c.reqChange ∧
    (setScale s c k).1.lastErr = c.lastErr ∧
    (c.useNewFBSize = true → c.pending = true →
      (setScale s c k).2 = none ∧ (setScale s c k).1.pending = true) ∧
    (∀ m, (setScale s c k).2 = some m → m.isSize = false) := by
  unfold setScale
  simp only
  split <;> split <;> (try split) <;> simp_all [Msg.isSize]

theorem request_flags (s : Screen) (c : Client) (incr : Bool) (x y w h : Int) :
    (request s c incr x y w h).id = c.id ∧
    (request s c incr x y w h).useNewFBSize = c.useNewFBSize ∧
    (request s c incr x y w h).useExt = c.useExt ∧
    (request s c incr x y w h).reqChange = c.reqChange ∧
    (request s c incr x y w h).lastErr = c.lastErr ∧
    (request s c incr x y w h).sw = c.sw ∧ (request s c incr x y w h).sh = c.sh ∧
    (c.pending = true → (request s c incr x y w h).pending = true) := by
  unfold request
  split
  · simp
  · split
    · refine ⟨rfl, rfl, rfl, rfl, rfl, rfl, rfl, ?_⟩
      intro hp
      show (if c.useExt = true then true else c.pending) = true
      split <;> simp [hp]
    · simp

theorem afterHook_fields (id : Nat) (code : Int) (d : Client) :
    (afterHook id code d).id = d.id ∧ (afterHook id code d).useNewFBSize = d.useNewFBSize ∧
    (afterHook id code d).useExt = d.useExt ∧ (afterHook id code d).sw = d.sw ∧
    (afterHook id code d).sh = d.sh ∧ (afterHook id code d).base = d.base ∧
    (d.pending = true → (afterHook id code d).pending = true) ∧
    (d.id = id → (afterHook id code d).lastErr = code ∧ (afterHook id code d).reqChange = d.reqChange ∧
                  (code ≠ 0 → (afterHook id code d).pending = true) ∧
                  (code = 0 → (afterHook id code d).pending = d.pending)) ∧
    (d.id ≠ id → (afterHook id code d).lastErr = d.lastErr ∧ (afterHook id code d).pending = d.pending ∧
       (code = 0 → d.base.isOpen = true → (afterHook id code d).reqChange = reasonOther) ∧
       (code ≠ 0 → (afterHook id code d).reqChange = d.reqChange)) := by
  unfold afterHook
  by_cases h : d.id = id
  · have hb : (d.id == id) = true := by simp [h]
    rw [if_pos hb]
    by_cases hc : code = 0 <;> simp [hc, h]
  · have hb : (d.id == id) = false := by simpa using h
    simp only [hb]
    by_cases hc : code = 0
    · cases ho : d.base.isOpen <;> simp [hc, ho, h]
    · simp [hc, h]

end VncModel.Resize
