import VncModel.Resize.Runs
import VncModel.Update.Refine
/-!
The convergence invariant of C02 (`USpec.Inv`) for EVERY state of EVERY history of the C16 model,
across any number of framebuffer replacements.

C02's `Update/Refine.lean` shows that each region-level operation of the update model is simulated
by the set-level specification (`absS`, `Reach`).  Here the operations of the C16 model are mapped
onto that: the per-client effect `stepClient st op c` of every operation is, on the client's base
record, either one of C02's operations, or leaves the abstraction unchanged, or is a replacement —
which re-establishes the invariant from scratch (`Inv_init`: M = whole new screen) for ANY new
framebuffer contents and ANY client picture.

Pixels are ghost state: `fb` (server framebuffer contents) and `pic` (the picture client `id`
holds).  `FbOk` says how the APPLICATION may change `fb` during an operation (it draws only inside
what it marks, a copy copies, a replacement installs anything); `PicOk` says what the CLIENT does
with what it receives (applies an update; keeps its picture otherwise; anything at a replacement).
-/
namespace VncModel.Resize
open VncModel.Rgn VncModel.Update VncModel.USpec VncModel.Update.Refine

variable {V : Type}
open Classical

theorem S_congr (a b : Update.Screen) (hw : a.width = b.width) (hh : a.height = b.height) :
    Refine.S a = Refine.S b := by
  funext p; simp [Refine.S, hw, hh]

/-- any record whose regions relate to `b`'s like the request handler's result refines
`Step.request` with the pixel set of `tmp` -/
theorem request_shape (Sc : PSet) (b b' : Update.Client) (tmp : Region) (incr : Bool)
    (hc : WFc b) (ht : tmp.WF) (hR : b'.R = b.R.or tmp)
    (hM : b'.M = if incr then b.M else b.M.or tmp)
    (hC : b'.C = if incr then b.C else (b.C.sub tmp).1)
    (hdx : b'.dx = b.dx) (hdy : b'.dy = b.dy) (fb pic : Pix → V) :
    WFc b' ∧ Reach Sc (absS b fb pic) (absS b' fb pic) := by
  have e : absS b' fb pic =
      { absS b fb pic with
        R := fun p => (absS b fb pic).R p ∨ dset tmp p,
        M := fun p => (absS b fb pic).M p ∨ (incr = false ∧ dset tmp p),
        C := fun p => (absS b fb pic).C p ∧ ¬ (incr = false ∧ dset tmp p) } := by
    apply SState_ext
    · rfl
    · rfl
    · intro p
      cases incr <;> simp [absS, hM, dset_or hc.1 ht]
    · intro p
      cases incr <;> simp [absS, hC, dset_sub hc.2.1 ht]
    · intro p
      simp [absS, hR, dset_or hc.2.2 ht]
    · simp [absS, hdx, hdy]
  refine ⟨?_, by rw [e]; exact Reach.single (Step.request _ incr _)⟩
  refine ⟨?_, ?_, by rw [hR]; exact wf_or hc.2.2 ht⟩
  · rw [hM]; cases incr
    · exact wf_or hc.1 ht
    · exact hc.1
  · rw [hC]; cases incr
    · exact wf_sub hc.2.1 ht
    · exact hc.2.1

/-- the FramebufferUpdateRequest handler of the C16 model (unscaled and scaled clients) refines
`Step.request` with the clipped rectangle -/
theorem request_refines (Sc : PSet) (s : Screen) (c : Client) (incr : Bool) (x y w h : Int)
    (hc : WFc c.base) (fb pic : Pix → V) :
    WFc (request s c incr x y w h).base ∧
    Reach Sc (absS c.base fb pic) (absS (request s c incr x y w h).base fb pic) := by
  unfold request
  split
  · exact ⟨hc, Reach.refl _⟩
  · rename_i r _
    cases incr
    · apply request_shape (tmp := Region.rect r.x r.y (r.x + r.w) (r.y + r.h)) (incr := false) <;>
        first | rfl | exact hc | exact rect_wf _ _ _ _
    · apply request_shape (tmp := Region.rect r.x r.y (r.x + r.w) (r.y + r.h)) (incr := true) <;>
        first | rfl | exact hc | exact rect_wf _ _ _ _

/-- the client's picture after `updateClient`: it applies the rectangles of an ordinary update; a
size message carries no pixels -/
noncomputable def picAfterUpdate (s : Screen) (c : Client) (fb pic : Pix → V) : Pix → V :=
  if updatePending s c = true ∧ ¬ (c.useNewFBSize = true ∧ c.pending = true) then
    afterSend fb pic (Update.sendUpdate s.base c.base).2
  else pic

theorem updateClient_refines (s : Screen) (c : Client) (hc : WFc c.base) (fb pic : Pix → V) :
    WFc (updateClient s c).1.base ∧
    Reach (Refine.S s.base) (absS c.base fb pic)
      (absS (updateClient s c).1.base fb (picAfterUpdate s c fb pic)) := by
  unfold updateClient picAfterUpdate
  by_cases hp : updatePending s c = true
  · simp only [hp, if_true, true_and]
    unfold sendUpdate
    by_cases hs : c.useNewFBSize = true ∧ c.pending = true
    · simp only [hs, Bool.and_self, if_true, not_true_eq_false, if_false]
      rw [(sizeMessage_state c).2.1]
      exact ⟨hc, Reach.refl _⟩
    · have hs' : (c.useNewFBSize && c.pending) = false := by
        cases h1 : c.useNewFBSize <;> cases h2 : c.pending <;> simp_all
      simp only [hs', Bool.false_eq_true, if_false, hs, not_false_eq_true, if_true]
      split <;> exact ⟨sendUpdate_wf s.base c.base hc, send_sound s.base c.base fb pic hc⟩
  · simp only [hp, Bool.false_eq_true, if_false, false_and]
    exact ⟨hc, Reach.refl _⟩

/-! ### the world: model state + ghost pixels -/

/-- how the application may change the framebuffer CONTENTS during one operation -/
def FbOk (st : State) (op : Op) (fb fb' : Pix → V) : Prop :=
  match op with
  | .mark x1 y1 x2 y2 =>
    match markClip st.scr.base x1 y1 x2 y2 with
    | some (a, b, c, d) =>
      ∀ p, Refine.S st.scr.base p → ¬ dset (Region.rect a b c d) p → fb' p = fb p
    | none => fb' = fb
  | .copy rgn dx dy =>
    rgn.WF ∧ (∀ p, dset rgn p → Refine.S st.scr.base (psub p (dx, dy))) ∧
    fb' = fun p => if dset rgn p then fb (psub p (dx, dy)) else fb p
  | .newFramebuffer .. => True
  | .setDesktopSize id _ _ ns (some (_, some _)) =>
    -- the hook (and with it the application's replacement) runs only for an existing client
    -- and a request that names at least one screen
    if (getClient st id).isSome && ns != 0 then True else fb' = fb
  | _ => fb' = fb

/-- what client `id` does to its picture during one operation -/
def PicOk (id : Nat) (st : State) (op : Op) (fb pic pic' : Pix → V) : Prop :=
  match op with
  | .update id' | .updateExtFail id' =>
    -- (a dropped extended size message carried no pixels anyway)
    if id' = id then ∀ c0, Uniq id st c0 → pic' = picAfterUpdate st.scr c0 fb pic else pic' = pic
  | .newFramebuffer .. => True
  | .setDesktopSize id' _ _ ns (some (_, some _)) =>
    if (getClient st id').isSome && ns != 0 then True else pic' = pic
  | _ => pic' = pic

/-- the convergence invariant for client `id` (while its connection is open) -/
def CInv (id : Nat) (st : State) (fb pic : Pix → V) : Prop :=
  ∃ c0, Uniq id st c0 ∧
    (c0.base.isOpen = true → WFc c0.base ∧ Inv (Refine.S st.scr.base) (absS c0.base fb pic))

theorem setScale_base (s : Screen) (c : Client) (k : Int) : (setScale s c k).1.base = c.base := by
  unfold setScale; simp only; split <;> split <;> (try split) <;> rfl

theorem newFbClient_base (s : Screen) (w h bpp : Int) (tok : Nat) (c : Client)
    (ho : c.base.isOpen = true) :
    (newFbClient s w h bpp tok c).base =
      { c.base with M := Region.rect 0 0 w h, C := Region.empty, dx := 0, dy := 0 } := by
  unfold newFbClient
  simp [ho]

/-- a replacement re-establishes the invariant for ANY new contents and ANY client picture -/
theorem cinv_newFb (s : Screen) (w h bpp : Int) (tok : Nat) (c : Client) (ho : c.base.isOpen = true)
    (hr : c.base.R.WF) (scr' : Update.Screen) (hw : scr'.width = w) (hh : scr'.height = h)
    (fb pic : Pix → V) :
    WFc (newFbClient s w h bpp tok c).base ∧
    Inv (Refine.S scr') (absS (newFbClient s w h bpp tok c).base fb pic) := by
  rw [newFbClient_base s w h bpp tok c ho]
  refine ⟨⟨rect_wf _ _ _ _, wf_empty, hr⟩, Inv_init _ _ ?_⟩
  intro p hp
  show dset (Region.rect 0 0 w h) p
  rw [dset_rect]
  simp only [Refine.S, hw, hh] at hp
  exact hp

theorem stepClient_isOpen (st : State) (op : Op) (c : Client) :
    (stepClient st op c).base.isOpen = c.base.isOpen ∨ (stepClient st op c).base.isOpen = false := by
  cases op with
  | drop id => simp only [stepClient]; split <;> simp [closeClient]
  | updateFail id =>
    simp only [stepClient]
    split
    · unfold updateClientFail
      split
      · left
        have := updateClient_admin st.scr c
        simp only [admin, Admin.mk.injEq] at this
        exact this.2.2.2.1
      · right; rfl
    · left; rfl
  | updateExtFail id =>
    left
    simp only [stepClient]
    split
    · have := updateClient_admin st.scr c
      simp only [admin, Admin.mk.injEq] at this
      exact this.2.2.2.1
    · rfl
  | newClient | pointer => left; rfl
  | setEncodings id cr cs nf ext => left; simp only [stepClient]; split <;> simp
  | setPixelFormat => left; simp only [stepClient]; split <;> rfl
  | setScale id k => left; simp only [stepClient]; split <;> simp [setScale_base]
  | mark x1 y1 x2 y2 =>
    left
    simp only [stepClient]
    cases hm : markClip st.scr.base x1 y1 x2 y2 with
    | none => rfl
    | some r => obtain ⟨a, b, c', d⟩ := r; simp only; split <;> rfl
  | copy => left; simp only [stepClient]; split <;> simp [scheduleCopy_isOpen]
  | request id incr x y w h =>
    left
    simp only [stepClient]
    split
    · have := request_admin st.scr c incr x y w h
      simp only [admin, Admin.mk.injEq] at this
      exact this.2.2.2.1
    · rfl
  | newFramebuffer w h bpp tok => left; exact newFbClient_isOpen _ _ _ _ _ c
  | update id =>
    left
    simp only [stepClient]
    split
    · have := updateClient_admin st.scr c
      simp only [admin, Admin.mk.injEq] at this
      exact this.2.2.2.1
    · rfl
  | setDesktopSize id w h ns hook =>
    left
    simp only [stepClient]
    split
    · rw [(afterHook_fields _ _ _).2.2.2.2.2.1, (hookClient_flags _ _ _).2.2.2.1]
      split <;> rfl
    · rfl

theorem picAfterUpdate_of_no_msgs (s : Screen) (c : Client) (fb pic : Pix → V)
    (h : (updateClient s c).2.msgs = []) : picAfterUpdate s c fb pic = pic := by
  unfold picAfterUpdate
  split
  · rename_i hc
    unfold updateClient at h
    rw [if_pos hc.1] at h
    unfold sendUpdate at h
    have hs' : (c.useNewFBSize && c.pending) = false := by
      cases h1 : c.useNewFBSize <;> cases h2 : c.pending <;> simp_all
    rw [hs'] at h
    simp only [Bool.false_eq_true, if_false] at h
    cases hso : (Update.sendUpdate s.base c.base).2 with
    | none => rfl
    | some m => rw [hso] at h; simp at h
  · rfl

/-- **one step keeps the convergence invariant** -/
theorem cinv_step (id : Nat) (st : State) (op : Op) (fb pic fb' pic' : Pix → V)
    (hI : CInv id st fb pic) (hfb : FbOk st op fb fb') (hpic : PicOk id st op fb pic pic') :
    CInv id (step st op).1 fb' pic' := by
  obtain ⟨c0, hu, hinv⟩ := hI
  refine ⟨stepClient st op c0, uniq_step op hu, ?_⟩
  intro ho'
  have ho : c0.base.isOpen = true := by
    rcases stepClient_isOpen st op c0 with h | h
    · rw [← h]; exact ho'
    · rw [h] at ho'; exact absurd ho' (by decide)
  obtain ⟨hw, hi⟩ := hinv ho
  have hid := hu.2.1
  -- operations that change neither the screen size nor the pixels: it suffices to simulate
  have viaReach : ∀ (b' : Update.Client) (scr' : Update.Screen) (f q : Pix → V),
      scr'.width = st.scr.base.width → scr'.height = st.scr.base.height →
      WFc b' → Reach (Refine.S st.scr.base) (absS c0.base fb pic) (absS b' f q) →
      WFc b' ∧ Inv (Refine.S scr') (absS b' f q) := by
    intro b' scr' f q h1 h2 hwf hr
    rw [S_congr scr' st.scr.base h1 h2]
    exact ⟨hwf, Inv_reach _ _ _ hi hr⟩
  cases op with
  | newClient id' =>
    simp only [FbOk, PicOk] at hfb hpic; rw [hfb, hpic]
    simp only [step]
    split <;> exact viaReach _ _ _ _ rfl rfl hw (Reach.refl _)
  | pointer id' x y =>
    simp only [FbOk, PicOk] at hfb hpic; rw [hfb, hpic]
    simp only [step]
    split <;> exact viaReach _ _ _ _ rfl rfl hw (Reach.refl _)
  | setEncodings id' cr cs nf ext =>
    simp only [FbOk, PicOk] at hfb hpic; rw [hfb, hpic]
    simp only [step, stepClient, modClient_scr]
    split
    · exact viaReach _ _ _ _ rfl rfl (setEncodings_wf _ _ cr cs hw)
        (setEncodings_reach _ st.scr.base c0.base cr cs hw fb pic)
    · exact viaReach _ _ _ _ rfl rfl hw (Reach.refl _)
  | setPixelFormat id' f =>
    simp only [FbOk, PicOk] at hfb hpic; rw [hfb, hpic]
    simp only [step, stepClient, modClient_scr]
    split
    · exact viaReach _ _ _ _ rfl rfl hw (Reach.refl _)
    · exact viaReach _ _ _ _ rfl rfl hw (Reach.refl _)
  | setScale id' k =>
    simp only [FbOk, PicOk] at hfb hpic; rw [hfb, hpic]
    simp only [step, stepClient, modClient_scr]
    split
    · rw [setScale_base]; exact viaReach _ _ _ _ rfl rfl hw (Reach.refl _)
    · exact viaReach _ _ _ _ rfl rfl hw (Reach.refl _)
  | mark x1 y1 x2 y2 =>
    simp only [PicOk] at hpic; rw [hpic]
    simp only [FbOk] at hfb
    simp only [step, stepClient]
    cases hm : markClip st.scr.base x1 y1 x2 y2 with
    | none =>
      rw [hm] at hfb; simp only at hfb; rw [hfb]
      exact viaReach _ _ _ _ rfl rfl hw (Reach.refl _)
    | some r =>
      obtain ⟨a, b, c', d⟩ := r
      rw [hm] at hfb
      simp only [ho, if_true, mapOpen_scr]
      exact viaReach _ _ _ _ rfl rfl (markRegion_wf _ _ hw (rect_wf _ _ _ _))
        (Reach.single (markRegion_step _ c0.base _ hw (rect_wf _ _ _ _) fb fb' pic hfb))
  | copy rgn dx dy =>
    simp only [PicOk] at hpic; rw [hpic]
    obtain ⟨hD, hsrc, hfb⟩ := hfb
    rw [hfb]
    simp only [step, stepClient, ho, if_true, mapOpen_scr]
    exact viaReach _ _ _ _ rfl rfl (scheduleCopy_wf _ _ rgn dx dy hw hD)
      (Reach.single (scheduleCopy_step st.scr.base c0.base rgn dx dy hw hD hsrc fb pic))
  | request id' incr x y w h =>
    simp only [FbOk, PicOk] at hfb hpic; rw [hfb, hpic]
    simp only [step, stepClient, modClient_scr]
    split
    · obtain ⟨h1, h2⟩ := request_refines (Refine.S st.scr.base) st.scr c0 incr x y w h hw fb pic
      exact viaReach _ _ _ _ rfl rfl h1 h2
    · exact viaReach _ _ _ _ rfl rfl hw (Reach.refl _)
  | update id' =>
    simp only [FbOk] at hfb; rw [hfb]
    simp only [PicOk] at hpic
    simp only [step, stepClient, modClient_scr]
    split
    · rename_i he
      have : id' = id := by rw [← hid]; exact (by simpa using he : c0.id = id').symm
      rw [if_pos this] at hpic
      rw [hpic c0 hu]
      obtain ⟨h1, h2⟩ := updateClient_refines st.scr c0 hw fb pic
      exact viaReach _ _ _ _ rfl rfl h1 h2
    · rename_i he
      have : ¬ id' = id := by
        intro h; apply he; rw [h, ← hid]; simp
      rw [if_neg this] at hpic; rw [hpic]
      exact viaReach _ _ _ _ rfl rfl hw (Reach.refl _)
  | updateExtFail id' =>
    simp only [FbOk] at hfb; rw [hfb]
    simp only [PicOk] at hpic
    simp only [step, stepClient, modClient_scr]
    split
    · rename_i he
      have : id' = id := by rw [← hid]; exact (by simpa using he : c0.id = id').symm
      rw [if_pos this] at hpic
      rw [hpic c0 hu]
      obtain ⟨h1, h2⟩ := updateClient_refines st.scr c0 hw fb pic
      exact viaReach _ _ _ _ rfl rfl h1 h2
    · rename_i he
      have : ¬ id' = id := by
        intro h; apply he; rw [h, ← hid]; simp
      rw [if_neg this] at hpic; rw [hpic]
      exact viaReach _ _ _ _ rfl rfl hw (Reach.refl _)
  | updateFail id' =>
    simp only [FbOk, PicOk] at hfb hpic; rw [hfb, hpic]
    simp only [step, stepClient, modClient_scr]
    split
    · rename_i he
      simp only [stepClient, he, if_true] at ho'
      unfold updateClientFail at ho' ⊢
      by_cases hm : (updateClient st.scr c0).2.msgs.isEmpty = true
      · rw [if_pos hm]
        obtain ⟨h1, h2⟩ := updateClient_refines st.scr c0 hw fb pic
        rw [picAfterUpdate_of_no_msgs st.scr c0 fb pic (by simpa using hm)] at h2
        exact viaReach _ _ _ _ rfl rfl h1 h2
      · rw [if_neg hm] at ho'
        simp [closeClient] at ho'
    · exact viaReach _ _ _ _ rfl rfl hw (Reach.refl _)
  | drop id' =>
    simp only [FbOk, PicOk] at hfb hpic; rw [hfb, hpic]
    simp only [step, stepClient, modClient_scr]
    split
    · rename_i he
      simp only [stepClient, he, if_true, closeClient] at ho'
      exact absurd ho' (by decide)
    · exact viaReach _ _ _ _ rfl rfl hw (Reach.refl _)
  | newFramebuffer w h bpp tok =>
    simp only [step, stepClient]
    exact cinv_newFb st.scr w h bpp tok c0 ho hw.2.2 _ rfl rfl fb' pic'
  | setDesktopSize id' w h ns hook =>
    by_cases hcond : ((getClient st id').isSome && ns != 0) = true
    · -- the hook runs
      have hg : (getClient st id').isSome = true := by
        simp only [Bool.and_eq_true] at hcond; exact hcond.1
      have hns : ¬ (ns == 0) = true := by
        simp only [Bool.and_eq_true, bne_iff_ne, ne_eq] at hcond
        simpa using hcond.2
      have hne : (ns != 0) = true := by
        simp only [Bool.and_eq_true] at hcond; exact hcond.2
      have hbase : ∀ c : Client, (if (c.id == id') = true then { c with reqChange := reasonClient } else c).base = c.base := by
        intro c; split <;> rfl
      have hopen : (if (c0.id == id') = true then { c0 with reqChange := reasonClient } else c0).base.isOpen = true := by
        rw [hbase]; exact ho
      match hook, hfb, hpic with
      | some (code, some (w', h', bpp, tok)), _, _ =>
        simp only [step, hg, if_true, setDesktopSize, hns, if_false, stepClient, hne, Bool.true_and,
          Bool.false_eq_true, runHook, hookClient]
        rw [(afterHook_fields _ _ _).2.2.2.2.2.1]
        exact cinv_newFb st.scr w' h' bpp tok _ hopen (by rw [hbase]; exact hw.2.2) _ rfl rfl fb' pic'
      | none, hfb, hpic =>
        simp only [FbOk, PicOk] at hfb hpic; rw [hfb, hpic]
        simp only [step, hg, if_true, setDesktopSize, hns, if_false, stepClient, hne, Bool.true_and,
          Bool.false_eq_true, runHook, hookClient]
        rw [(afterHook_fields _ _ _).2.2.2.2.2.1, hbase]
        exact viaReach _ _ _ _ rfl rfl hw (Reach.refl _)
      | some (code, none), hfb, hpic =>
        simp only [FbOk, PicOk] at hfb hpic; rw [hfb, hpic]
        simp only [step, hg, if_true, setDesktopSize, hns, if_false, stepClient, hne, Bool.true_and,
          Bool.false_eq_true, runHook, hookClient]
        rw [(afterHook_fields _ _ _).2.2.2.2.2.1, hbase]
        exact viaReach _ _ _ _ rfl rfl hw (Reach.refl _)
    · -- nothing happens: unknown client or a request without screens
      have hfb' : fb' = fb := by
        match hook, hfb with
        | none, h => exact h
        | some (_, none), h => exact h
        | some (_, some _), h => simp only [FbOk, hcond, if_false] at h; exact h
      have hpic' : pic' = pic := by
        match hook, hpic with
        | none, h => exact h
        | some (_, none), h => exact h
        | some (_, some _), h => simp only [PicOk, hcond, if_false] at h; exact h
      rw [hfb', hpic']
      have hst : (step st (.setDesktopSize id' w h ns hook)).1 = st := by
        simp only [step]
        split
        · rename_i hg
          have : (ns == 0) = true := by
            simp only [hg, Bool.true_and, bne_iff_ne, ne_eq, Bool.not_eq_true, decide_eq_false_iff_not,
              not_not] at hcond
            simpa using hcond
          simp [setDesktopSize, this]
        · rfl
      rw [hst]
      simp only [stepClient, hcond, if_false]
      exact viaReach _ _ _ _ rfl rfl hw (Reach.refl _)

/-- a history of the model together with the ghost pixels: the application changes the framebuffer
contents as `FbOk` allows, client `id` treats its picture as `PicOk` says -/
inductive GRun (id : Nat) : State → (Pix → V) → (Pix → V) → List Op → State → (Pix → V) → (Pix → V) → Prop
  | nil (st : State) (fb pic : Pix → V) : GRun id st fb pic [] st fb pic
  | cons {st : State} {fb pic fb1 pic1 : Pix → V} {op : Op} {ops : List Op} {st' : State}
      {fb' pic' : Pix → V} :
      FbOk st op fb fb1 → PicOk id st op fb pic pic1 →
      GRun id (step st op).1 fb1 pic1 ops st' fb' pic' → GRun id st fb pic (op :: ops) st' fb' pic'

theorem GRun.state {id : Nat} {st st' : State} {fb pic fb' pic' : Pix → V} {ops : List Op}
    (h : GRun id st fb pic ops st' fb' pic') : st' = (run st ops).1 := by
  induction h with
  | nil => rfl
  | cons _ _ _ ih => simp only [run]; exact ih

/-- **the convergence invariant holds in every state of every history**, replacements included -/
theorem cinv_run {id : Nat} {st st' : State} {fb pic fb' pic' : Pix → V} {ops : List Op}
    (h : GRun id st fb pic ops st' fb' pic') (hI : CInv id st fb pic) : CInv id st' fb' pic' := by
  induction h with
  | nil => exact hI
  | cons hf hp _ ih => exact ih (cinv_step id _ _ _ _ _ _ hI hf hp)

/-- the invariant holds as soon as everything on the screen is scheduled (a fresh connection; the
state right after a replacement) -/
theorem cinv_of_full (id : Nat) (st : State) (c0 : Client) (hu : Uniq id st c0) (hw : WFc c0.base)
    (hM : ∀ p, Refine.S st.scr.base p → dset c0.base.M p) (fb pic : Pix → V) : CInv id st fb pic :=
  ⟨c0, hu, fun _ => ⟨hw, Inv_init _ _ hM⟩⟩

/-- consequence of the invariant: a pixel of the current screen outside the modified and copy
regions is already correct in the client's picture; an idle client has the whole framebuffer -/
theorem cinv_current {id : Nat} {st : State} {fb pic : Pix → V} (h : CInv id st fb pic) :
    ∃ c0, Uniq id st c0 ∧ (c0.base.isOpen = true →
      (∀ p, Refine.S st.scr.base p → ¬ dset c0.base.M p → ¬ dset c0.base.C p → pic p = fb p) ∧
      (c0.base.M.isEmpty = true → c0.base.C.isEmpty = true →
        ∀ p, Refine.S st.scr.base p → pic p = fb p)) := by
  obtain ⟨c0, hu, hinv⟩ := h
  refine ⟨c0, hu, fun ho => ?_⟩
  obtain ⟨hw, hi⟩ := hinv ho
  refine ⟨fun p hp hm hc => ((hi p hp hm).2 hc).symm, fun hM hC p hp => ?_⟩
  have h1 : ¬ dset c0.base.M p := (isEmpty_dset hw.1).mp hM p
  have h2 : ¬ dset c0.base.C p := (isEmpty_dset hw.2.1).mp hC p
  exact ((hi p hp h1).2 h2).symm

end VncModel.Resize
