import VncModel.Resize.Flow
import VncModel.Region.Misc
/-!
Region-level invariant: for every open client, modifiedRegion and copyRegion are well-formed and lie
inside the CURRENT screen; requestedRegion is well-formed (but may be stale: it is NOT clipped when
the framebuffer shrinks).  Consequence: every rectangle of every update lies inside the current
screen, whatever the requested region is.

Uses the set-algebra theorems of C11 (`rOr_spec`, `rAnd_spec`, `rSub_spec`, `offset_*`, `rect_*`).
-/
namespace VncModel.Resize
open VncModel.Rgn VncModel.Update

/-- all pixels of the region lie in `[0,w) × [0,h)` -/
def Inside (w h : Int) (r : Region) : Prop := ∀ x y, r.den x y → 0 ≤ x ∧ x < w ∧ 0 ≤ y ∧ y < h

theorem inside_empty (w h : Int) : Inside w h Region.empty := by
  intro x y hd; simp [Region.den, Region.empty] at hd

theorem wf_empty : Region.WF Region.empty := trivial

theorem inside_or {w h : Int} {a b : Region} (ha : a.WF) (hb : b.WF) (ia : Inside w h a)
    (ib : Inside w h b) : (a.or b).WF ∧ Inside w h (a.or b) := by
  obtain ⟨h1, h2⟩ := rOr_spec a b ha hb
  exact ⟨h1, fun x y hd => ((h2 x y).mp hd).elim (ia x y) (ib x y)⟩

theorem inside_and_left {w h : Int} {a b : Region} (ha : a.WF) (hb : b.WF) (ia : Inside w h a) :
    (a.and b).1.WF ∧ Inside w h (a.and b).1 := by
  obtain ⟨h1, h2, _⟩ := rAnd_spec a b ha hb
  exact ⟨h1, fun x y hd => ia x y ((h2 x y).mp hd).1⟩

theorem inside_and_right {w h : Int} {a b : Region} (ha : a.WF) (hb : b.WF) (ib : Inside w h b) :
    (a.and b).1.WF ∧ Inside w h (a.and b).1 := by
  obtain ⟨h1, h2, _⟩ := rAnd_spec a b ha hb
  exact ⟨h1, fun x y hd => ib x y ((h2 x y).mp hd).2⟩

theorem inside_sub {w h : Int} {a b : Region} (ha : a.WF) (hb : b.WF) (ia : Inside w h a) :
    (a.sub b).1.WF ∧ Inside w h (a.sub b).1 := by
  obtain ⟨h1, h2, _⟩ := rSub_spec a b ha hb
  exact ⟨h1, fun x y hd => ia x y ((h2 x y).mp hd).1⟩

theorem inside_rect {w h x1 y1 x2 y2 : Int} (hx1 : 0 ≤ x1) (hx2 : x2 ≤ w) (hy1 : 0 ≤ y1)
    (hy2 : y2 ≤ h) : Inside w h (Region.rect x1 y1 x2 y2) := by
  intro x y hd
  have := (rect_den x1 y1 x2 y2 x y).mp hd
  omega

/-- every rectangle the iterator yields for a well-formed region inside the screen is a non-empty
rectangle inside the screen -/
theorem rects_inside {w h : Int} {r : Region} (hw : r.WF) (hi : Inside w h r) (fx fy : Bool) :
    ∀ q ∈ r.rects fx fy, 0 ≤ q.x1 ∧ q.x1 < q.x2 ∧ q.x2 ≤ w ∧ 0 ≤ q.y1 ∧ q.y1 < q.y2 ∧ q.y2 ≤ h := by
  intro q hq
  simp only [Region.rects, List.mem_flatMap, List.mem_map] at hq
  obtain ⟨b, hb, x, hx, rfl⟩ := hq
  have hb' : b ∈ r := by
    cases fy <;> simp at hb <;> exact hb
  have hx' : x ∈ b.sub := by
    cases fx <;> simp at hx <;> exact hx
  obtain ⟨hbs, hbwf, _⟩ := Sorted.all hw b hb'
  obtain ⟨hxs, _⟩ := Sorted.all hbwf x hx'
  have p1 : r.den x.s b.s := ⟨b, hb', Int.le_refl _, hbs, x, hx', Int.le_refl _, hxs⟩
  have p2 : r.den (x.e - 1) (b.e - 1) :=
    ⟨b, hb', by omega, by omega, x, hx', by omega, by omega⟩
  have i1 := hi _ _ p1
  have i2 := hi _ _ p2
  simp only
  omega

/-! ### clipping helpers -/

theorem markClip_inside {s : Update.Screen} {x1 y1 x2 y2 a b c d : Int}
    (h : markClip s x1 y1 x2 y2 = some (a, b, c, d)) :
    0 ≤ a ∧ c ≤ s.width ∧ 0 ≤ b ∧ d ≤ s.height := by
  unfold markClip at h
  simp only at h
  repeat' split at h
  all_goals (simp only [Option.some.injEq, Prod.mk.injEq, reduceCtorEq] at h)
  all_goals omega

theorem cursorBox_inside {s : Update.Screen} {cx cy : Int} {b : Region}
    (hw : 1 ≤ s.width) (hh : 1 ≤ s.height) (h : cursorBox s cx cy = some b) :
    b.WF ∧ Inside s.width s.height b := by
  unfold cursorBox at h
  simp only at h
  split at h
  · simp only [Option.some.injEq] at h
    subst h
    refine ⟨rect_wf _ _ _ _, ?_⟩
    intro x y hd
    have hd' := (rect_den _ _ _ _ x y).mp hd
    simp only [clipRect2] at hd'
    revert hd'
    (repeat' split) <;> intro hd' <;> omega
  · simp at h

theorem clipReq_inside {same : Bool} {W H tw th : Nat} {r q : VncModel.Scale.Rect}
    (h : VncModel.Scale.clipReq same W H tw th r = some q) :
    0 ≤ q.x ∧ q.x + q.w ≤ W ∧ 0 ≤ q.y ∧ q.y + q.h ≤ H := by
  unfold VncModel.Scale.clipReq at h
  simp only [VncModel.Scale.u16] at h
  generalize VncModel.Scale.corr same tw th W H r = cc at h
  simp at h
  obtain ⟨h1, h2, rfl⟩ := h
  simp only
  refine ⟨by omega, by omega, by omega, by omega⟩

/-! ### the invariant -/

structure Good (w h : Int) (b : Update.Client) : Prop where
  mwf : b.M.WF
  cwf : b.C.WF
  rwf : b.R.WF
  min : Inside w h b.M
  cin : Inside w h b.C

theorem good_newClient (s : Update.Screen) : Good s.width s.height (Update.newClient s) :=
  ⟨rect_wf _ _ _ _, wf_empty, wf_empty,
   inside_rect (Int.le_refl _) (Int.le_refl _) (Int.le_refl _) (Int.le_refl _), inside_empty _ _⟩

theorem good_markRegion {w h : Int} {b : Update.Client} {r : Region} (hg : Good w h b)
    (hr : r.WF) (hi : Inside w h r) : Good w h (markRegion b r) := by
  obtain ⟨h1, h2⟩ := inside_or hg.mwf hr hg.min hi
  exact ⟨h1, hg.cwf, hg.rwf, h2, hg.cin⟩

theorem good_setEncodings0 {s : Update.Screen} {b : Update.Client} (cr cs : Bool)
    (hw : 1 ≤ s.width) (hh : 1 ≤ s.height) (hg : Good s.width s.height b) :
    Good s.width s.height (Update.setEncodings0 s b cr cs) := by
  unfold Update.setEncodings0
  simp only
  split
  · cases hc : cursorBox s b.cursorX b.cursorY with
    | none => exact ⟨hg.mwf, hg.cwf, hg.rwf, hg.min, hg.cin⟩
    | some bx =>
      obtain ⟨h1, h2⟩ := cursorBox_inside hw hh hc
      obtain ⟨h3, h4⟩ := inside_or hg.mwf h1 hg.min h2
      exact ⟨h3, hg.cwf, hg.rwf, h4, hg.cin⟩
  · exact ⟨hg.mwf, hg.cwf, hg.rwf, hg.min, hg.cin⟩

/-- the tail of the SetEncodings handler (a client dropping CopyRect): the pending copy becomes
modified region — still inside the screen -/
theorem good_dropCopy {w h : Int} {b : Update.Client} (hg : Good w h b) :
    Good w h (Update.dropCopy b) := by
  unfold Update.dropCopy
  split
  · obtain ⟨h1, h2⟩ := inside_or hg.mwf hg.cwf hg.min hg.cin
    exact ⟨h1, wf_empty, hg.rwf, h2, inside_empty _ _⟩
  · exact hg

theorem good_setEncodings {s : Update.Screen} {b : Update.Client} (cr cs : Bool)
    (hw : 1 ≤ s.width) (hh : 1 ≤ s.height) (hg : Good s.width s.height b) :
    Good s.width s.height (Update.setEncodings s b cr cs) :=
  good_dropCopy (good_setEncodings0 cr cs hw hh hg)

theorem good_scheduleCopy {s : Update.Screen} {b : Update.Client} {rg : Region} (dx dy : Int)
    (hg : Good s.width s.height b) (hr : rg.WF) (hi : Inside s.width s.height rg) :
    Good s.width s.height (scheduleCopy s b rg dx dy) := by
  unfold scheduleCopy
  split
  · obtain ⟨h1, h2⟩ := inside_or hg.mwf hr hg.min hi
    exact ⟨h1, hg.cwf, hg.rwf, h2, hg.cin⟩
  · -- (m1, c1): the pending copy
    split
    rename_i m1 c1 heq
    have hmc : m1.WF ∧ Inside s.width s.height m1 ∧ c1.WF ∧ Inside s.width s.height c1 := by
      split at heq
      · split at heq
        · simp only [Prod.mk.injEq] at heq
          obtain ⟨rfl, rfl⟩ := heq
          obtain ⟨h1, h2⟩ := inside_or hg.mwf hg.cwf hg.min hg.cin
          exact ⟨h1, h2, wf_empty, inside_empty _ _⟩
        · simp only [Prod.mk.injEq, Region.dup] at heq
          obtain ⟨rfl, rfl⟩ := heq
          obtain ⟨h1, h2⟩ := inside_and_right (offset_wf rg (-dx) (-dy) hr) hg.cwf hg.cin
          obtain ⟨h3, h4⟩ := inside_or hg.mwf h1 hg.min h2
          exact ⟨h3, h4, hg.cwf, hg.cin⟩
      · simp only [Prod.mk.injEq] at heq
        obtain ⟨rfl, rfl⟩ := heq
        exact ⟨hg.mwf, hg.min, hg.cwf, hg.cin⟩
    obtain ⟨hm1, im1, hc1, ic1⟩ := hmc
    simp only [Region.dup]
    obtain ⟨hc2, ic2⟩ := inside_or hc1 hr ic1 hi
    obtain ⟨hbk, ibk⟩ := inside_and_right (offset_wf m1 dx dy hm1) hc2 ic2
    obtain ⟨hm2, im2⟩ := inside_or hm1 hbk im1 ibk
    refine ⟨?_, hc2, hg.rwf, ?_, ic2⟩
    · split
      · obtain ⟨ha1, ia1⟩ := inside_and_right (rect_wf _ _ _ _) hc2 ic2
        obtain ⟨ha2, ia2⟩ := inside_and_right (offset_wf _ dx dy (rect_wf _ _ _ _)) hc2 ic2
        split <;> split
        · exact (inside_or (inside_or hm2 ha1 im2 ia1).1 ha2 (inside_or hm2 ha1 im2 ia1).2 ia2).1
        · exact (inside_or hm2 ha2 im2 ia2).1
        · exact (inside_or hm2 ha1 im2 ia1).1
        · exact hm2
      · exact hm2
    · split
      · obtain ⟨ha1, ia1⟩ := inside_and_right (rect_wf _ _ _ _) hc2 ic2
        obtain ⟨ha2, ia2⟩ := inside_and_right (offset_wf _ dx dy (rect_wf _ _ _ _)) hc2 ic2
        split <;> split
        · exact (inside_or (inside_or hm2 ha1 im2 ia1).1 ha2 (inside_or hm2 ha1 im2 ia1).2 ia2).2
        · exact (inside_or hm2 ha2 im2 ia2).2
        · exact (inside_or hm2 ha1 im2 ia1).2
        · exact im2
      · exact im2

end VncModel.Resize
