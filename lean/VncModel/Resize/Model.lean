import VncModel.Update.Model
import VncModel.Scale.Model
import VncModel.Gen.C16
/-
Executable model of framebuffer replacement and desktop-size negotiation, on top of the
update-scheduling model of C02 (`VncModel.Update`) and the region model of C11:

  rfbNewFramebuffer                                    (main.c)
  the size short-circuit at the head of rfbSendFramebufferUpdate, rfbSendNewFBSize,
  rfbSendExtDesktopSize (reason / status and their reset)           (rfbserver.c)
  SetEncodings: NewFBSize / ExtDesktopSize flags; the `useExtDesktopSize => newFBSizePending`
  rule of a non-incremental FramebufferUpdateRequest; FB_UPDATE_PENDING
  the rfbSetDesktopSize message (hook result, other clients' reason)
  SetPixelFormat / rfbSetTranslateFunction as far as WHICH formats the installed function maps
  rfbSetScale / rfbScalingSetup / rfbSendNewScaleSize as far as geometry and the pending flag go
  PointerEvent -> rfbDefaultPtrAddEvent (screen cursor position)

rfbNewFramebuffer as of /repo 97571f8 / 3cc7e2f first collects (and references) exactly the clients the
iterator yields — the open ones — locks them, and later updates and unlocks that same set; in the
model that is the `isOpen` test of `newFbClient` (records that are closed but not yet reaped are
skipped, see `corpus/C16/teardown-after-resize.ops`).  Failure / teardown arms: `updateFail`
(write of the size message or update fails: rfbCloseClient), `updateExtFail` (the application's
getExtDesktopScreenHook fails: the size message is dropped), `drop` (read of a client message fails).

The model follows the code WITH the two C16 fixes applied:
  fixes/C16-newfb-scaled-screens.diff  rfbNewFramebuffer resizes / reformats / re-renders every
      scaled version of the framebuffer (the unfixed code leaves them untouched: old size, old
      pixel format, contents of the old framebuffer, heap overflow on the next modification);
  fixes/C16-sds-iterator-leak.diff     (no state effect: a client iterator was never released).

Framebuffers are abstract TOKENS (`Nat`): `Screen.fb` is `screen->frameBuffer`; a scaled client's
scaled buffer is a separate allocation whose contents were rendered from the token `ssrc`.
Every modelled access of the library to framebuffer memory is reported in `Obs.acc` with the token
of the buffer it touches (for a scaled buffer: the token it was rendered from).

Pixel formats are tokens too: the number of bytes per pixel (1, 2, 4) of the canonical true-colour
format rfbInitServerFormat produces for it; `xlate = (s, c)` says the installed translation
function and tables were built by rfbSetTranslateFunction for server format `s` and client
format `c`.
-/
namespace VncModel.Resize
open VncModel.Rgn VncModel.Update

structure Screen where
  base : Update.Screen        -- width, height, cursor, cursorX/Y (progSlice = maxRects = 0 here)
  bpp : Int                   -- serverFormat token (bytes per pixel)
  fb : Nat                    -- frameBuffer token
  deriving Repr

structure Client where
  id : Nat
  base : Update.Client
  useNewFBSize : Bool
  useExt : Bool               -- useExtDesktopSize
  pending : Bool              -- newFBSizePending
  reqChange : Int             -- requestedDesktopSizeChange
  lastErr : Int               -- lastDesktopSizeChangeError
  fmt : Int                   -- cl->format token
  xlate : Int × Int           -- formats the installed translateFn maps (server, client)
  scaled : Bool               -- cl->scaledScreen != cl->screen
  sw : Int                    -- cl->scaledScreen->width / height
  sh : Int
  ssrc : Nat                  -- token the scaled buffer was rendered from (= screen fb if !scaled)
  deriving Repr

structure State where
  scr : Screen
  clients : List Client
  deriving Repr

/-- what the application's setDesktopSizeHook does: `none` = the library's default hook
(rfbDefaultSetDesktopSize: ResizeProhibited); `some (code, r)` = returns `code`, and if
`r = some (w, h, bpp, tok)` it calls rfbNewFramebuffer with those arguments before returning. -/
abbrev Hook := Option (Int × Option (Int × Int × Int × Nat))

inductive Op where
  | newClient (id : Nat)
  | setEncodings (id : Nat) (copyRect cursorShape newFB ext : Bool)
  | setPixelFormat (id : Nat) (fmt : Int)
  | setScale (id : Nat) (k : Int)
  | pointer (id : Nat) (x y : Int)
  | mark (x1 y1 x2 y2 : Int)
  | copy (rgn : Region) (dx dy : Int)
  | request (id : Nat) (incr : Bool) (x y w h : Int)
  | setDesktopSize (id : Nat) (w h nscreens : Int) (hook : Hook)
  | newFramebuffer (w h bpp : Int) (tok : Nat)
  | update (id : Nat)
  /-- rfbUpdateClient while the peer is gone: the write of whatever would be sent fails,
  rfbSendUpdateBuf / rfbWriteExact call rfbCloseClient -/
  | updateFail (id : Nat)
  /-- rfbUpdateClient while the application's getExtDesktopScreenHook fails: rfbSendExtDesktopSize
  returns FALSE after it has reset reason / status, nothing is sent, the client stays connected -/
  | updateExtFail (id : Nat)
  /-- the connection is lost while a message of the client is being read (rfbReadExact <= 0 ->
  rfbCloseClient), e.g. a truncated SetDesktopSize -/
  | drop (id : Nat)
  deriving Repr

/-- one server-to-client message -/
inductive Msg where
  | size (w h : Int)                                          -- FramebufferUpdate{NewFBSize}
  | ext (reason status w h : Int) (screens : List (Int × Int × Int × Int × Int × Int))
  | resize (w h : Int)                                        -- rfbResizeFrameBuffer (UltraVNC)
  | fbu (cursorShape : Bool) (copies : List CopyRectMsg) (raws : List Rect)
  deriving Repr

structure Obs where
  msgs : List (Nat × Msg) := []     -- (client, message) in the order sent
  acc : List Nat := []              -- tokens of the framebuffer memory the library touched
  deriving Repr

/-- protocol constants, regenerated from /repo on every run (tools/consts/c16.{c,py}) -/
abbrev reasonClient : Int := VncModel.Gen.C16.reasonClient
abbrev reasonOther : Int := VncModel.Gen.C16.reasonOther
abbrev defaultHookResult : Int := VncModel.Gen.C16.defaultHookResult

def getClient (st : State) (id : Nat) : Option Client := st.clients.find? (fun c => c.id == id)

/-- apply `f` to the client(s) called `id` (ids are unique in every state the driver builds; the
definition does not depend on that) -/
def modClient (st : State) (id : Nat) (f : Client → Client) : State :=
  { st with clients := st.clients.map (fun d => if d.id == id then f d else d) }

def anyScaled (st : State) : Bool := st.clients.any (fun c => c.scaled)

/-- rfbNewClient + handshake: format = the server's, translation "none" -/
def newClient (s : Screen) (id : Nat) : Client :=
  { id := id, base := Update.newClient s.base, useNewFBSize := false, useExt := false,
    pending := false, reqChange := 0, lastErr := 0, fmt := s.bpp, xlate := (s.bpp, s.bpp),
    scaled := false, sw := s.base.width, sh := s.base.height, ssrc := s.fb }

/-- SetEncodings -/
def setEncodings (s : Screen) (c : Client) (cr cs nf ext : Bool) : Client :=
  { c with base := Update.setEncodings s.base c.base cr cs,
           useNewFBSize := nf || ext, useExt := ext }

/-- SetPixelFormat: `readyForSetColourMapEntries = TRUE; setTranslateFunction(cl)` -/
def setPixelFormat (s : Screen) (c : Client) (fmt : Int) : Client :=
  { c with fmt := fmt, xlate := (s.bpp, fmt), base := { c.base with ready := true } }

/-- rfbScalingSetup(cl, W/k, H/k) followed by rfbSendNewScaleSize.  Returns the message sent. -/
def setScale (s : Screen) (c : Client) (k : Int) : Client × Option Msg :=
  let tw := s.base.width / k
  let th := s.base.height / k
  -- rfbScalingFind starts with the unscaled screen; rfbScaledScreenAllocate refuses 0
  let c1 : Client :=
    if tw == s.base.width && th == s.base.height then
      { c with scaled := false, sw := tw, sh := th, ssrc := s.fb, pending := true }
    else if tw == 0 || th == 0 then c
    else { c with scaled := true, sw := tw, sh := th, ssrc := s.fb, pending := true }
  if c1.useNewFBSize && c1.pending then (c1, none)
  else ({ c1 with pending := false }, some (.resize c1.sw c1.sh))

/-- ScaleX(cl->scaledScreen, cl->screen, x) -/
def unscale (same : Bool) (fromW toW x : Int) : Int := if same then x else x * toW / fromW

/-- PointerEvent without buttons -> rfbDefaultPtrAddEvent -/
def pointer (s : Screen) (c : Client) (x y : Int) : Screen :=
  let px := unscale (!c.scaled) c.sw s.base.width x
  let py := unscale (!c.scaled) c.sh s.base.height y
  { s with base := { s.base with cursorX := px, cursorY := py } }

/-- the FramebufferUpdateRequest case (scaled clients: the rectangle is first mapped back) -/
def request (s : Screen) (c : Client) (incr : Bool) (x y w h : Int) : Client :=
  match VncModel.Scale.clipReq (!c.scaled) s.base.width.toNat s.base.height.toNat
          c.sw.toNat c.sh.toNat ⟨x, y, w, h⟩ with
  | none => c
  | some r =>
    let tmp := Region.rect r.x r.y (r.x + r.w) (r.y + r.h)
    let b := { c.base with R := c.base.R.or tmp, ready := true }
    if !incr then
      { c with base := { b with M := b.M.or tmp, C := (b.C.sub tmp).1 },
               pending := if c.useExt then true else c.pending }
    else { c with base := b }

/-- FB_UPDATE_PENDING(cl) && !sraRgnEmpty(cl->requestedRegion)  (rfbUpdateClient) -/
def updatePending (s : Screen) (c : Client) : Bool :=
  let b := c.base
  b.isOpen &&
  ((b.cursorShape && b.cursorChanged) ||
   (!b.cursorShape && (b.cursorX != s.base.cursorX || b.cursorY != s.base.cursorY)) ||
   (c.useNewFBSize && c.pending) ||
   !b.C.isEmpty || !b.M.isEmpty) && !b.R.isEmpty

/-- the size message of the short-circuit; rfbSendExtDesktopSize resets reason and status -/
def sizeMessage (c : Client) : Client × Msg :=
  if c.useExt then
    ({ c with pending := false, reqChange := 0, lastErr := 0 },
     .ext c.reqChange c.lastErr c.sw c.sh [(1, 0, 0, c.sw, c.sh, 0)])
  else ({ c with pending := false }, .size c.sw c.sh)

/-- the rectangle a pixel rectangle of the update region becomes on the wire -/
def wireRect (s : Screen) (c : Client) (r : Rect) : Rect :=
  let q := VncModel.Scale.corr (!c.scaled) s.base.width.toNat s.base.height.toNat
             c.sw.toNat c.sh.toNat ⟨r.x1, r.y1, r.x2 - r.x1, r.y2 - r.y1⟩
  ⟨q.x, q.y, q.x + q.w, q.y + q.h⟩

/-- token of the memory the encoders read for this client -/
def readToken (s : Screen) (c : Client) : Nat := if c.scaled then c.ssrc else s.fb

/-- rfbSendFramebufferUpdate(cl, cl->modifiedRegion) -/
def sendUpdate (s : Screen) (c : Client) : Client × Obs :=
  if c.useNewFBSize && c.pending then
    ((sizeMessage c).1, { msgs := [(c.id, (sizeMessage c).2)] })
  else
    match (Update.sendUpdate s.base c.base).2 with
    | none => ({ c with base := (Update.sendUpdate s.base c.base).1 }, {})
    | some m =>
      -- soft cursor: rfbShowCursor / rfbHideCursor work on screen->frameBuffer; the encoders
      -- read the client's (scaled) screen
      ({ c with base := (Update.sendUpdate s.base c.base).1 },
       { msgs := [(c.id, .fbu m.cursorShape m.copies (m.raws.map (wireRect s c)))],
         acc := (if c.base.cursorShape then [] else [s.fb]) ++
                (if m.raws.isEmpty then [] else [readToken s c]) })

def updateClient (s : Screen) (c : Client) : Client × Obs :=
  if updatePending s c then sendUpdate s c else (c, {})

/-- rfbCloseClient: the socket is invalidated; the record stays in the list until it is reaped -/
def closeClient (c : Client) : Client := { c with base := { c.base with isOpen := false } }

/-- a failing write closes the client exactly when something was to be written -/
def updateClientFail (s : Screen) (c : Client) : Client :=
  if (updateClient s c).2.msgs.isEmpty then (updateClient s c).1 else closeClient (updateClient s c).1

/-- the extended size message whose screen list the application fails to supply is dropped -/
def extFails (c : Client) : Bool := c.useNewFBSize && c.pending && c.useExt

/-- new size of a scaled version (fixes/C16-newfb-scaled-screens.diff): same reduction, at least 1 -/
def rescale (oldFull newFull scaledDim : Int) : Int :=
  let v := scaledDim * newFull / oldFull
  if v < 1 then 1 else v

/-- what rfbNewFramebuffer does to one client record (`s` = the screen BEFORE the call) -/
def newFbClient (s : Screen) (w h bpp : Int) (tok : Nat) (c : Client) : Client :=
  -- the scaled versions belong to the screen: all of them are resized / re-rendered
  let c1 : Client :=
    { c with sw := if c.scaled then rescale s.base.width w c.sw else w,
             sh := if c.scaled then rescale s.base.height h c.sh else h,
             ssrc := tok }
  -- the client iterator yields the open clients
  if !c.base.isOpen then c1 else
  { c1 with
    xlate := if bpp != s.bpp then (bpp, c.fmt) else c.xlate,
    base := { c.base with M := Region.rect 0 0 w h, C := Region.empty, dx := 0, dy := 0 },
    -- `pendingForAll` is regenerated from main.c (T0): with fixes/C16-late-setencodings-size.diff the flag is
    -- raised for every client, so that a viewer announcing resize support only later is still told
    pending := if c.useNewFBSize || VncModel.Gen.C16.pendingForAll then true else c.pending }

/-- rfbNewFramebuffer -/
def newFramebuffer (st : State) (w h bpp : Int) (tok : Nat) : State :=
  let s := st.scr
  let cx := if s.base.cursorX ≥ w then w - 1 else s.base.cursorX
  let cy := if s.base.cursorY ≥ h then h - 1 else s.base.cursorY
  { scr := { base := { s.base with width := w, height := h, cursorX := cx, cursorY := cy },
             bpp := bpp, fb := tok },
    clients := st.clients.map (newFbClient s w h bpp tok) }

/-- the application's hook: its return code and the state after it ran -/
def runHook (st : State) : Hook → Int × State
  | none => (defaultHookResult, st)
  | some (code, none) => (code, st)
  | some (code, some (w, h, bpp, tok)) => (code, newFramebuffer st w h bpp tok)

/-- bookkeeping after the hook returned `code` to the request of client `id` -/
def afterHook (id : Nat) (code : Int) (d : Client) : Client :=
  if d.id == id then
    -- failure: "force ExtendedDesktopSize message to be sent with result code"
    { d with lastErr := code, pending := if code == 0 then d.pending else true }
  else if code == 0 && d.base.isOpen then { d with reqChange := reasonOther }
  else d

/-- the rfbSetDesktopSize message of client `id` -/
def setDesktopSize (st : State) (id : Nat) (nscreens : Int) (hook : Hook) : State :=
  if nscreens == 0 then st else
  -- the reason is recorded before the hook runs
  let st1 := modClient st id (fun c => { c with reqChange := reasonClient })
  let r := runHook st1 hook
  { r.2 with clients := r.2.clients.map (afterHook id r.1) }

def mapOpen (st : State) (f : Update.Client → Update.Client) : State :=
  { st with clients := st.clients.map fun c =>
      if c.base.isOpen then { c with base := f c.base } else c }

def step (st : State) : Op → State × Obs
  | .newClient id =>
    if (getClient st id).isSome then (st, {})
    else ({ st with clients := st.clients ++ [newClient st.scr id] }, {})
  | .setEncodings id cr cs nf ext =>
    (modClient st id (fun c => setEncodings st.scr c cr cs nf ext), {})
  | .setPixelFormat id fmt => (modClient st id (fun c => setPixelFormat st.scr c fmt), {})
  | .setScale id k =>
    (modClient st id (fun c => (setScale st.scr c k).1),
     match getClient st id with
     | some c =>
       -- rfbScalingSetup renders the scaled version from screen->frameBuffer
       { msgs := ((setScale st.scr c k).2.map fun m => (id, m)).toList,
         acc := if (setScale st.scr c k).1.scaled then [st.scr.fb] else [] }
     | none => {})
  | .pointer id x y =>
    match getClient st id with
    | some c => ({ st with scr := pointer st.scr c x y }, {})
    | none => (st, {})
  | .mark x1 y1 x2 y2 =>
    match markClip st.scr.base x1 y1 x2 y2 with
    | some (a, b, c, d) =>
      -- rfbScaledScreenUpdate re-renders the rectangle in every scaled version in use
      (mapOpen st (fun cl => markRegion cl (Region.rect a b c d)),
       { acc := if anyScaled st then [st.scr.fb] else [] })
    | none => (st, {})
  | .copy rgn dx dy =>
    -- rfbDoCopyRegion moves pixels inside screen->frameBuffer
    (mapOpen st (fun cl => scheduleCopy st.scr.base cl rgn dx dy), { acc := [st.scr.fb] })
  | .request id incr x y w h => (modClient st id (fun c => request st.scr c incr x y w h), {})
  | .setDesktopSize id _w _h ns hook =>
    if (getClient st id).isSome then (setDesktopSize st id ns hook, {}) else (st, {})
  | .newFramebuffer w h bpp tok => (newFramebuffer st w h bpp tok, {})
  | .update id =>
    (modClient st id (fun c => (updateClient st.scr c).1),
     match getClient st id with
     | some c => (updateClient st.scr c).2
     | none => {})
  | .updateFail id =>
    (modClient st id (fun c => updateClientFail st.scr c),
     match getClient st id with
     | some c => { acc := (updateClient st.scr c).2.acc }
     | none => {})
  | .updateExtFail id =>
    (modClient st id (fun c => (updateClient st.scr c).1),
     match getClient st id with
     | some c => if extFails c then {} else (updateClient st.scr c).2
     | none => {})
  | .drop id => (modClient st id closeClient, {})

/-- run a history, collecting the observations (oldest first) -/
def run (st : State) : List Op → State × List Obs
  | [] => (st, [])
  | op :: ops =>
    let (st1, o) := step st op
    let (st2, os) := run st1 ops
    (st2, o :: os)

def initState (w h bpp : Int) (tok : Nat) : State :=
  { scr := { base := { width := w, height := h, cursor := ⟨0, 0, 0, 0⟩, cursorX := 0, cursorY := 0,
                       progSlice := 0, maxRects := 0 },
             bpp := bpp, fb := tok },
    clients := [] }

end VncModel.Resize
