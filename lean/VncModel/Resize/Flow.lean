import VncModel.Resize.History
/-!
`step` as a pointwise map on the client list (`stepClient`), the messages one step can send to a
given client, and the instances of `first_relevant` used by the property theorems.
-/
namespace VncModel.Resize
open VncModel.Rgn VncModel.Update

/-- the application's hook as a per-client function (`s` = screen before the hook) -/
def hookClient (s : Screen) : Hook → Client → Client
  | some (_, some (w, h, bpp, tok)) => newFbClient s w h bpp tok
  | _ => fun c => c

/-- what one operation does to one (existing) client record -/
def stepClient (st : State) : Op → Client → Client
  | .newClient _ => fun c => c
  | .setEncodings id cr cs nf ext => fun c => if c.id == id then setEncodings st.scr c cr cs nf ext else c
  | .setPixelFormat id f => fun c => if c.id == id then setPixelFormat st.scr c f else c
  | .setScale id k => fun c => if c.id == id then (setScale st.scr c k).1 else c
  | .pointer .. => fun c => c
  | .mark x1 y1 x2 y2 => fun cl =>
    match markClip st.scr.base x1 y1 x2 y2 with
    | some (a, b, c, d) =>
      if cl.base.isOpen then { cl with base := markRegion cl.base (Region.rect a b c d) } else cl
    | none => cl
  | .copy rgn dx dy => fun cl =>
    if cl.base.isOpen then { cl with base := scheduleCopy st.scr.base cl.base rgn dx dy } else cl
  | .request id incr x y w h => fun c => if c.id == id then request st.scr c incr x y w h else c
  | .setDesktopSize id _ _ ns hook => fun c =>
    if (getClient st id).isSome && ns != 0 then
      afterHook id (runHook (modClient st id fun c => { c with reqChange := reasonClient }) hook).1
        (hookClient st.scr hook (if c.id == id then { c with reqChange := reasonClient } else c))
    else c
  | .newFramebuffer w h bpp tok => newFbClient st.scr w h bpp tok
  | .update id => fun c => if c.id == id then (updateClient st.scr c).1 else c
  | .updateFail id => fun c => if c.id == id then updateClientFail st.scr c else c
  | .updateExtFail id => fun c => if c.id == id then (updateClient st.scr c).1 else c
  | .drop id => fun c => if c.id == id then closeClient c else c

/-- the connection an operation adds -/
def stepNew (st : State) : Op → List Client
  | .newClient id => if (getClient st id).isSome then [] else [newClient st.scr id]
  | _ => []

theorem runHook_clients (st : State) (hook : Hook) :
    (runHook st hook).2.clients = st.clients.map (hookClient st.scr hook) := by
  match hook with
  | none => simp [runHook, hookClient]
  | some (code, none) => simp [runHook, hookClient]
  | some (code, some (w, h, bpp, tok)) => simp [runHook, hookClient, newFramebuffer]

theorem step_clients (st : State) (op : Op) :
    (step st op).1.clients = st.clients.map (stepClient st op) ++ stepNew st op := by
  cases op with
  | newClient id =>
    simp only [step, stepClient, stepNew]
    split <;> simp
  | setEncodings | setPixelFormat | setScale | request | update | updateFail | updateExtFail | drop =>
    simp [step, stepClient, stepNew, modClient]
  | pointer id x y =>
    simp only [step, stepClient, stepNew]
    split <;> simp
  | mark x1 y1 x2 y2 =>
    simp only [step, stepClient, stepNew]
    cases hm : markClip st.scr.base x1 y1 x2 y2 with
    | none => simp
    | some r => obtain ⟨a, b, c, d⟩ := r; simp [mapOpen]
  | copy => simp [step, stepClient, stepNew, mapOpen]
  | newFramebuffer => simp [step, stepClient, stepNew, newFramebuffer]
  | setDesktopSize id w h ns hook =>
    simp only [step, stepClient, stepNew, List.append_nil]
    cases hg : (getClient st id).isSome
    · simp
    · by_cases hns : ns = 0
      · simp [setDesktopSize, hns]
      · simp only [setDesktopSize, beq_iff_eq, hns, if_false, Bool.true_and, bne_iff_ne, ne_eq,
          not_false_eq_true, decide_true, if_true]
        rw [runHook_clients]
        simp [modClient, List.map_map, Function.comp_def]

theorem sizeMessage_id (c : Client) : (sizeMessage c).1.id = c.id := by
  have := sizeMessage_admin c
  simp only [admin, Admin.mk.injEq] at this
  exact this.1

theorem updateClient_id (s : Screen) (c : Client) : (updateClient s c).1.id = c.id := by
  have := updateClient_admin s c
  simp only [admin, Admin.mk.injEq] at this
  exact this.1

theorem newFbClient_id (s : Screen) (w h bpp : Int) (tok : Nat) (c : Client) :
    (newFbClient s w h bpp tok c).id = c.id := by
  unfold newFbClient
  simp only
  split <;> rfl

theorem hookClient_id (s : Screen) (hook : Hook) (c : Client) : (hookClient s hook c).id = c.id := by
  match hook with
  | none => rfl
  | some (code, none) => rfl
  | some (code, some (w, h, bpp, tok)) => exact newFbClient_id s w h bpp tok c

theorem stepClient_id (st : State) (op : Op) (c : Client) : (stepClient st op c).id = c.id := by
  cases op with
  | newClient | pointer => rfl
  | setEncodings id cr cs nf ext => simp only [stepClient]; split <;> simp [setEncodings]
  | setPixelFormat => simp only [stepClient]; split <;> rfl
  | setScale id k => simp only [stepClient]; split <;> simp [(setScale_flags st.scr c k).1]
  | mark x1 y1 x2 y2 =>
    simp only [stepClient]
    cases hm : markClip st.scr.base x1 y1 x2 y2 with
    | none => rfl
    | some r => obtain ⟨a, b, c', d⟩ := r; simp only; split <;> rfl
  | copy => simp only [stepClient]; split <;> rfl
  | request id incr x y w h =>
    simp only [stepClient]; split <;> simp [(request_flags st.scr c incr x y w h).1]
  | newFramebuffer w h bpp tok => exact newFbClient_id _ _ _ _ _ c
  | update id => simp only [stepClient]; split <;> simp [updateClient_id]
  | updateExtFail id => simp only [stepClient]; split <;> simp [updateClient_id]
  | updateFail id =>
    simp only [stepClient]
    split
    · unfold updateClientFail
      split <;> simp [closeClient, updateClient_id]
    · rfl
  | drop id => simp only [stepClient]; split <;> rfl
  | setDesktopSize id w h ns hook =>
    simp only [stepClient]
    split
    · rw [(afterHook_fields _ _ _).1, hookClient_id]
      split <;> rfl
    · rfl

theorem getClient_isSome_of_mem {st : State} {id : Nat} (h : ∃ c ∈ st.clients, c.id = id) :
    (getClient st id).isSome = true := by
  obtain ⟨c, hc, hid⟩ := h
  unfold getClient
  rw [List.find?_isSome]
  exact ⟨c, hc, by simp [hid]⟩

/-- a predicate on the records of client `id` that the per-client effect of `op` preserves holds
after the step -/
theorem pred_step (id : Nat) (F : Client → Prop) (st : State) (op : Op)
    (hex : ∃ c ∈ st.clients, c.id = id) (hall : ∀ c ∈ st.clients, c.id = id → F c)
    (hF : ∀ c ∈ st.clients, c.id = id → F c → F (stepClient st op c)) :
    (∃ d ∈ (step st op).1.clients, d.id = id) ∧ ∀ d ∈ (step st op).1.clients, d.id = id → F d := by
  rw [step_clients]
  constructor
  · obtain ⟨c, hc, hid⟩ := hex
    exact ⟨stepClient st op c, List.mem_append_left _ (List.mem_map.mpr ⟨c, hc, rfl⟩),
      by rw [stepClient_id]; exact hid⟩
  · intro d hd hid
    rcases List.mem_append.mp hd with hd | hd
    · obtain ⟨c, hc, rfl⟩ := List.mem_map.mp hd
      rw [stepClient_id] at hid
      exact hF c hc hid (hall c hc hid)
    · -- a new connection never takes an id in use
      cases op with
      | newClient id' =>
        simp only [stepNew] at hd
        split at hd
        · simp at hd
        · rename_i hn
          simp only [List.mem_singleton] at hd
          subst hd
          simp only [newClient] at hid
          subst hid
          exact absurd (getClient_isSome_of_mem hex) hn
      | _ => simp [stepNew] at hd

/-- the messages a step sends to client `id`: only its own update (possibly the variant in which the
screen hook would fail but no extended size message is due) or its own SetScale produce any -/
theorem step_msgs {st : State} {op : Op} {id : Nat} {m : Msg} (h : (id, m) ∈ (step st op).2.msgs) :
    (∃ c, getClient st id = some c ∧ (op = .update id ∨ (op = .updateExtFail id ∧ extFails c = false)) ∧
      (id, m) ∈ (updateClient st.scr c).2.msgs) ∨
    (∃ c k, getClient st id = some c ∧ op = .setScale id k ∧ (setScale st.scr c k).2 = some m) := by
  have own : ∀ (id' : Nat) (c : Client), getClient st id' = some c →
      (id, m) ∈ (updateClient st.scr c).2.msgs → id = id' := by
    intro id' c hc hm
    have hid : c.id = id' := (getClient_some hc).2
    rcases updateClient_msgs st.scr c with ⟨h0, _⟩ | ⟨_, _, h1, _⟩ | ⟨_, _, cs, cp, rs, h1⟩
    · rw [h0] at hm; simp at hm
    · rw [h1] at hm
      simp only [List.mem_singleton, Prod.mk.injEq] at hm
      rw [hm.1, hid]
    · rw [h1] at hm
      simp only [List.mem_singleton, Prod.mk.injEq] at hm
      rw [hm.1, hid]
  cases op with
  | newClient id' => simp only [step] at h; split at h <;> simp at h
  | setEncodings | setPixelFormat | request | newFramebuffer | copy | drop => simp [step] at h
  | setDesktopSize => simp only [step] at h; split at h <;> simp at h
  | pointer => simp only [step] at h; split at h <;> simp at h
  | mark => simp only [step] at h; split at h <;> simp at h
  | updateFail => simp only [step] at h; split at h <;> simp at h
  | setScale id' k =>
    simp only [step] at h
    split at h
    · rename_i c hc
      simp only [Option.mem_toList, Option.map_eq_some_iff, Prod.mk.injEq] at h
      obtain ⟨m', hm', rfl, rfl⟩ := h
      exact Or.inr ⟨c, k, hc, rfl, hm'⟩
    · simp at h
  | update id' =>
    simp only [step] at h
    split at h
    · rename_i c hc
      have := own id' c hc h
      subst this
      exact Or.inl ⟨c, hc, Or.inl rfl, h⟩
    · simp at h
  | updateExtFail id' =>
    simp only [step] at h
    split at h
    · rename_i c hc
      split at h
      · simp at h
      · rename_i hx
        have := own id' c hc h
        subst this
        exact Or.inl ⟨c, hc, Or.inr ⟨rfl, by simpa using hx⟩, h⟩
    · simp at h

end VncModel.Resize
