import VncModel.Resize.Model
/-!
Structural lemmas about `VncModel.Resize.step`: every operation changes the client list pointwise
(`List.map`, plus one append for a new connection), so invariants of the form
`∀ c ∈ st.clients, P st.scr c` are proved client by client.
-/
namespace VncModel.Resize
open VncModel.Rgn VncModel.Update

theorem getClient_some {st : State} {id : Nat} {c : Client} (h : getClient st id = some c) :
    c ∈ st.clients ∧ c.id = id := by
  unfold getClient at h
  exact ⟨List.mem_of_find?_eq_some h, by simpa using List.find?_some h⟩

theorem mem_modClient {st : State} {id : Nat} {f : Client → Client} {d : Client}
    (h : d ∈ (modClient st id f).clients) :
    ∃ c ∈ st.clients, (c.id = id ∧ d = f c) ∨ (c.id ≠ id ∧ d = c) := by
  simp only [modClient, List.mem_map] at h
  obtain ⟨c, hc, rfl⟩ := h
  refine ⟨c, hc, ?_⟩
  by_cases hid : c.id = id <;> simp [hid]

theorem modClient_scr (st : State) (id : Nat) (f : Client → Client) :
    (modClient st id f).scr = st.scr := rfl

theorem mapOpen_scr (st : State) (f : Update.Client → Update.Client) :
    (mapOpen st f).scr = st.scr := rfl

theorem mem_mapOpen {st : State} {f : Update.Client → Update.Client} {d : Client}
    (h : d ∈ (mapOpen st f).clients) :
    ∃ c ∈ st.clients, (c.base.isOpen = true ∧ d = { c with base := f c.base }) ∨
      (c.base.isOpen = false ∧ d = c) := by
  simp only [mapOpen, List.mem_map] at h
  obtain ⟨c, hc, rfl⟩ := h
  refine ⟨c, hc, ?_⟩
  cases ho : c.base.isOpen <;> simp

/-- a generic way to push a client-wise invariant through `modClient` -/
theorem modClient_inv {P : Client → Prop} {st : State} {id : Nat} {f : Client → Client}
    (h : ∀ c ∈ st.clients, P c) (hf : ∀ c ∈ st.clients, c.id = id → P (f c)) :
    ∀ d ∈ (modClient st id f).clients, P d := by
  intro d hd
  obtain ⟨c, hc, ⟨hid, rfl⟩ | ⟨_, rfl⟩⟩ := mem_modClient hd
  · exact hf c hc hid
  · exact h _ hc

theorem mapOpen_inv {P : Client → Prop} {st : State} {f : Update.Client → Update.Client}
    (h : ∀ c ∈ st.clients, P c)
    (hf : ∀ c ∈ st.clients, c.base.isOpen = true → P { c with base := f c.base }) :
    ∀ d ∈ (mapOpen st f).clients, P d := by
  intro d hd
  obtain ⟨c, hc, ⟨ho, rfl⟩ | ⟨_, rfl⟩⟩ := mem_mapOpen hd
  · exact hf c hc ho
  · exact h _ hc

/-! ### field-preservation facts of the per-client functions -/

theorem dropCopy_isOpen (b : Update.Client) : (Update.dropCopy b).isOpen = b.isOpen := by
  unfold Update.dropCopy
  split <;> rfl

theorem setEncodings0_isOpen (s : Update.Screen) (b : Update.Client) (cr cs : Bool) :
    (Update.setEncodings0 s b cr cs).isOpen = b.isOpen := by
  unfold Update.setEncodings0
  rfl

@[simp] theorem setEncodings_isOpen (s : Screen) (c : Client) (cr cs nf ext : Bool) :
    (setEncodings s c cr cs nf ext).base.isOpen = c.base.isOpen := by
  show (Update.dropCopy (Update.setEncodings0 s.base c.base cr cs)).isOpen = c.base.isOpen
  rw [dropCopy_isOpen, setEncodings0_isOpen]

theorem markRegion_isOpen (b : Update.Client) (r : Region) : (markRegion b r).isOpen = b.isOpen := rfl

theorem scheduleCopy_isOpen (s : Update.Screen) (b : Update.Client) (r : Region) (dx dy : Int) :
    (scheduleCopy s b r dx dy).isOpen = b.isOpen := by
  unfold scheduleCopy
  split <;> rfl

theorem Update_sendUpdate_isOpen (s : Update.Screen) (b : Update.Client) :
    (Update.sendUpdate s b).1.isOpen = b.isOpen := by
  unfold Update.sendUpdate
  extract_lets sc c1 upd0
  split
  extract_lets upd2
  split
  split <;> rfl

/-- the projection of a client the "administrative" invariants talk about; operations that only
touch regions / flags leave it alone -/
structure Admin where
  id : Nat
  fmt : Int
  xlate : Int × Int
  isOpen : Bool
  scaled : Bool
  sw : Int
  sh : Int
  ssrc : Nat
  deriving DecidableEq

def admin (c : Client) : Admin :=
  ⟨c.id, c.fmt, c.xlate, c.base.isOpen, c.scaled, c.sw, c.sh, c.ssrc⟩

theorem setEncodings_admin (s : Screen) (c : Client) (cr cs nf ext : Bool) :
    admin (setEncodings s c cr cs nf ext) = admin c := by
  simp [admin, setEncodings_isOpen]
  simp [setEncodings]

theorem request_admin (s : Screen) (c : Client) (incr : Bool) (x y w h : Int) :
    admin (request s c incr x y w h) = admin c := by
  unfold request
  split
  · rfl
  · split <;> rfl

theorem sizeMessage_admin (c : Client) : admin (sizeMessage c).1 = admin c := by
  unfold sizeMessage
  split <;> rfl

theorem sendUpdate_admin (s : Screen) (c : Client) : admin (sendUpdate s c).1 = admin c := by
  unfold sendUpdate
  split
  · exact sizeMessage_admin c
  · split <;> simp [admin, Update_sendUpdate_isOpen]

theorem updateClient_admin (s : Screen) (c : Client) : admin (updateClient s c).1 = admin c := by
  unfold updateClient
  split
  · exact sendUpdate_admin s c
  · rfl

theorem afterHook_admin (id : Nat) (code : Int) (d : Client) : admin (afterHook id code d) = admin d := by
  unfold afterHook
  split
  · rfl
  · split <;> rfl

theorem mark_admin (c : Client) (r : Region) :
    admin { c with base := markRegion c.base r } = admin c := rfl

theorem copy_admin (s : Update.Screen) (c : Client) (r : Region) (dx dy : Int) :
    admin { c with base := scheduleCopy s c.base r dx dy } = admin c := by
  simp [admin, scheduleCopy_isOpen]

/-- closing a connection changes nothing but `isOpen` -/
theorem closeClient_admin (c : Client) : admin (closeClient c) = { admin c with isOpen := false } := rfl

theorem updateClientFail_admin (s : Screen) (c : Client) :
    admin (updateClientFail s c) = admin c ∨
    admin (updateClientFail s c) = { admin c with isOpen := false } := by
  unfold updateClientFail
  split
  · exact Or.inl (updateClient_admin s c)
  · right; rw [closeClient_admin, updateClient_admin]

end VncModel.Resize
