import VncModel.Resize.Lemmas
/-!
Invariants over the "administrative" part of the state (buffer tokens, pixel-format tokens,
geometry): which operations can change them and how.
-/
namespace VncModel.Resize
open VncModel.Rgn VncModel.Update

def admins (st : State) : List Admin := st.clients.map admin

/-- operations that neither touch the screen record nor any client's administrative fields -/
def Op.plain : Op → Bool
  | .setEncodings .. | .mark .. | .copy .. | .request .. | .update .. | .updateExtFail .. => true
  | _ => false

theorem map_admin_modClient (st : State) (id : Nat) (f : Client → Client)
    (hf : ∀ c, admin (f c) = admin c) : admins (modClient st id f) = admins st := by
  simp only [admins, modClient, List.map_map]
  apply List.map_congr_left
  intro c _
  by_cases h : c.id = id <;> simp [h, hf]

theorem map_admin_mapOpen (st : State) (f : Update.Client → Update.Client)
    (hf : ∀ c : Client, admin { c with base := f c.base } = admin c) :
    admins (mapOpen st f) = admins st := by
  simp only [admins, mapOpen, List.map_map]
  apply List.map_congr_left
  intro c _
  show admin (if c.base.isOpen = true then { c with base := f c.base } else c) = admin c
  split
  · exact hf c
  · rfl

theorem plain_step (st : State) (op : Op) (hp : op.plain = true) :
    (step st op).1.scr = st.scr ∧ admins (step st op).1 = admins st := by
  cases op <;> simp [Op.plain] at hp
  case setEncodings id cr cs nf ext =>
    exact ⟨rfl, map_admin_modClient _ _ _ (fun c => setEncodings_admin _ c _ _ _ _)⟩
  case mark x1 y1 x2 y2 =>
    simp only [step]
    split
    · exact ⟨rfl, map_admin_mapOpen _ _ (fun c => mark_admin c _)⟩
    · exact ⟨rfl, rfl⟩
  case copy rgn dx dy =>
    exact ⟨rfl, map_admin_mapOpen _ _ (fun c => copy_admin _ c _ _ _)⟩
  case request id incr x y w h =>
    exact ⟨rfl, map_admin_modClient _ _ _ (fun c => request_admin _ c _ _ _ _ _)⟩
  case update id =>
    exact ⟨rfl, map_admin_modClient _ _ _ (fun c => updateClient_admin _ c)⟩
  case updateExtFail id =>
    exact ⟨rfl, map_admin_modClient _ _ _ (fun c => updateClient_admin _ c)⟩

/-! ### what the remaining operations do -/

theorem newFramebuffer_scr (st : State) (w h bpp : Int) (tok : Nat) :
    (newFramebuffer st w h bpp tok).scr.fb = tok ∧
    (newFramebuffer st w h bpp tok).scr.bpp = bpp ∧
    (newFramebuffer st w h bpp tok).scr.base.width = w ∧
    (newFramebuffer st w h bpp tok).scr.base.height = h ∧
    (newFramebuffer st w h bpp tok).scr.base.progSlice = st.scr.base.progSlice ∧
    (newFramebuffer st w h bpp tok).scr.base.maxRects = st.scr.base.maxRects ∧
    (newFramebuffer st w h bpp tok).scr.base.cursor = st.scr.base.cursor :=
  ⟨rfl, rfl, rfl, rfl, rfl, rfl, rfl⟩

/-- every client of the state after rfbNewFramebuffer comes from a client before it, with these
administrative fields -/
theorem mem_newFramebuffer {st : State} {w h bpp : Int} {tok : Nat} {d : Client}
    (hd : d ∈ (newFramebuffer st w h bpp tok).clients) :
    ∃ c ∈ st.clients, d.id = c.id ∧ d.fmt = c.fmt ∧ d.base.isOpen = c.base.isOpen ∧
      d.scaled = c.scaled ∧ d.ssrc = tok ∧ d.useNewFBSize = c.useNewFBSize ∧ d.useExt = c.useExt ∧
      d.reqChange = c.reqChange ∧ d.lastErr = c.lastErr ∧
      d.sw = (if c.scaled then rescale st.scr.base.width w c.sw else w) ∧
      d.sh = (if c.scaled then rescale st.scr.base.height h c.sh else h) ∧
      (c.base.isOpen = true →
        d.xlate = (if bpp != st.scr.bpp then (bpp, c.fmt) else c.xlate) ∧
        d.base.M = Region.rect 0 0 w h ∧ d.base.C = Region.empty ∧ d.base.dx = 0 ∧ d.base.dy = 0 ∧
        d.base.R = c.base.R ∧
        d.pending = (if c.useNewFBSize || VncModel.Gen.C16.pendingForAll then true else c.pending)) ∧
      (c.base.isOpen = false → d.xlate = c.xlate ∧ d.base = c.base ∧ d.pending = c.pending) := by
  simp only [newFramebuffer, List.mem_map] at hd
  obtain ⟨c, hc, rfl⟩ := hd
  refine ⟨c, hc, ?_⟩
  cases ho : c.base.isOpen <;> simp [newFbClient, ho]

theorem runHook_cases (st : State) (hook : Hook) :
    ((runHook st hook).2 = st ∧ ((hook = none ∧ (runHook st hook).1 = defaultHookResult) ∨
        ∃ code, hook = some (code, none) ∧ (runHook st hook).1 = code)) ∨
    (∃ code w h bpp tok, hook = some (code, some (w, h, bpp, tok)) ∧
      (runHook st hook).1 = code ∧ (runHook st hook).2 = newFramebuffer st w h bpp tok) := by
  match hook with
  | none => exact Or.inl ⟨rfl, Or.inl ⟨rfl, rfl⟩⟩
  | some (code, none) => exact Or.inl ⟨rfl, Or.inr ⟨code, rfl, rfl⟩⟩
  | some (code, some (w, h, bpp, tok)) => exact Or.inr ⟨code, w, h, bpp, tok, rfl, rfl, rfl⟩

/-! ### T6: geometry, depth and buffer change only by the application's call -/

/-- the operation performs (or contains) the application's rfbNewFramebuffer call -/
def Op.appResize : Op → Bool
  | .newFramebuffer .. => true
  | .setDesktopSize _ _ _ _ (some (_, some _)) => true
  | _ => false

structure Geometry where
  width : Int
  height : Int
  bpp : Int
  fb : Nat
  deriving DecidableEq

def geometry (st : State) : Geometry := ⟨st.scr.base.width, st.scr.base.height, st.scr.bpp, st.scr.fb⟩

theorem step_geometry (st : State) (op : Op) (h : op.appResize = false) :
    geometry (step st op).1 = geometry st := by
  cases op with
  | newFramebuffer => simp [Op.appResize] at h
  | setDesktopSize id w hh ns hook =>
    simp only [step]
    split
    · simp only [setDesktopSize]
      split
      · rfl
      · match hook, h with
        | none, _ => rfl
        | some (code, none), _ => rfl
        | some (code, some r), h => simp [Op.appResize] at h
    · rfl
  | newClient id => simp only [step]; split <;> rfl
  | pointer id x y => simp only [step]; split <;> rfl
  | mark => simp only [step]; split <;> rfl
  | _ => rfl

/-! ### T1: buffer tokens -/

/-- no part of the state refers to the buffer `old` -/
def NoTok (old : Nat) (st : State) : Prop :=
  st.scr.fb ≠ old ∧ ∀ a ∈ admins st, a.ssrc ≠ old

/-- the operation installs no buffer called `old` -/
def Op.avoids (old : Nat) : Op → Prop
  | .newFramebuffer _ _ _ tok => tok ≠ old
  | .setDesktopSize _ _ _ _ (some (_, some (_, _, _, tok))) => tok ≠ old
  | _ => True

theorem noTok_newFramebuffer (old : Nat) (st : State) (w h bpp : Int) (tok : Nat) (ht : tok ≠ old) :
    NoTok old (newFramebuffer st w h bpp tok) := by
  refine ⟨ht, ?_⟩
  intro a ha
  simp only [admins, List.mem_map] at ha
  obtain ⟨d, hd, rfl⟩ := ha
  obtain ⟨c, _, h⟩ := mem_newFramebuffer hd
  simp only [admin]
  rw [h.2.2.2.2.1]
  exact ht

theorem noTok_of_admins {old : Nat} {st st' : State} (h : NoTok old st)
    (hs : st'.scr.fb = st.scr.fb) (ha : admins st' = admins st) : NoTok old st' := by
  refine ⟨by rw [hs]; exact h.1, ?_⟩
  rw [ha]; exact h.2

theorem setScale_ssrc (s : Screen) (c : Client) (k : Int) :
    (setScale s c k).1.ssrc = c.ssrc ∨ (setScale s c k).1.ssrc = s.fb := by
  unfold setScale
  simp only
  split <;> split <;> (try split) <;> simp

theorem setPixelFormat_ssrc (s : Screen) (c : Client) (f : Int) : (setPixelFormat s c f).ssrc = c.ssrc := rfl

theorem noTok_step (old : Nat) (st : State) (op : Op) (h : NoTok old st) (ho : op.avoids old) :
    NoTok old (step st op).1 := by
  by_cases hp : op.plain = true
  · obtain ⟨h1, h2⟩ := plain_step st op hp
    exact noTok_of_admins h (by rw [h1]) h2
  · cases op with
    | setEncodings | mark | copy | request | update | updateExtFail => simp [Op.plain] at hp
    | newClient id =>
      simp only [step]
      split
      · exact h
      · refine ⟨h.1, ?_⟩
        intro a ha
        simp only [admins, List.map_append, List.mem_append, List.mem_map, List.mem_singleton] at ha
        rcases ha with ⟨c, hc, rfl⟩ | ⟨c, rfl, rfl⟩
        · exact h.2 _ (List.mem_map.mpr ⟨c, hc, rfl⟩)
        · exact h.1
    | setPixelFormat id fmt =>
      refine ⟨h.1, ?_⟩
      intro a ha
      simp only [admins, List.mem_map] at ha
      obtain ⟨d, hd, rfl⟩ := ha
      obtain ⟨c, hc, ⟨_, rfl⟩ | ⟨_, rfl⟩⟩ := mem_modClient hd
      · exact h.2 (admin c) (List.mem_map.mpr ⟨c, hc, rfl⟩)
      · exact h.2 _ (List.mem_map.mpr ⟨_, hc, rfl⟩)
    | setScale id k =>
      refine ⟨h.1, ?_⟩
      intro a ha
      simp only [admins, List.mem_map] at ha
      obtain ⟨d, hd, rfl⟩ := ha
      obtain ⟨c, hc, ⟨_, rfl⟩ | ⟨_, rfl⟩⟩ := mem_modClient hd
      · have hc' := h.2 _ (List.mem_map.mpr ⟨c, hc, rfl⟩)
        rcases setScale_ssrc st.scr c k with he | he
        · simp only [admin] at hc' ⊢; rw [he]; exact hc'
        · simp only [admin]; rw [he]; exact h.1
      · exact h.2 _ (List.mem_map.mpr ⟨_, hc, rfl⟩)
    | pointer id x y =>
      simp only [step]
      split
      · exact ⟨h.1, h.2⟩
      · exact h
    | updateFail id =>
      refine ⟨h.1, ?_⟩
      intro a ha
      simp only [admins, List.mem_map] at ha
      obtain ⟨d, hd, rfl⟩ := ha
      obtain ⟨c, hc, ⟨_, rfl⟩ | ⟨_, rfl⟩⟩ := mem_modClient hd
      · have hc' := h.2 (admin c) (List.mem_map.mpr ⟨c, hc, rfl⟩)
        rcases updateClientFail_admin st.scr c with he | he <;> rw [he] <;> exact hc'
      · exact h.2 _ (List.mem_map.mpr ⟨_, hc, rfl⟩)
    | drop id =>
      refine ⟨h.1, ?_⟩
      intro a ha
      simp only [admins, List.mem_map] at ha
      obtain ⟨d, hd, rfl⟩ := ha
      obtain ⟨c, hc, ⟨_, rfl⟩ | ⟨_, rfl⟩⟩ := mem_modClient hd
      · exact h.2 (admin c) (List.mem_map.mpr ⟨c, hc, rfl⟩)
      · exact h.2 _ (List.mem_map.mpr ⟨_, hc, rfl⟩)
    | newFramebuffer w hh bpp tok => exact noTok_newFramebuffer old st w hh bpp tok ho
    | setDesktopSize id w hh ns hook =>
      simp only [step]
      split
      · simp only [setDesktopSize]
        split
        · exact h
        · -- reason recorded, hook, bookkeeping: only the hook's resize touches tokens
          have h1 : NoTok old (modClient st id fun c => { c with reqChange := reasonClient }) :=
            noTok_of_admins h rfl (map_admin_modClient _ _ _ (fun _ => rfl))
          have h2 : NoTok old (runHook (modClient st id fun c => { c with reqChange := reasonClient }) hook).2 := by
            rcases runHook_cases (modClient st id fun c => { c with reqChange := reasonClient }) hook with
              ⟨he, _⟩ | ⟨code, w', h', bpp, tok, hk, _, he⟩
            · rw [he]; exact h1
            · rw [he]
              subst hk
              exact noTok_newFramebuffer old _ w' h' bpp tok ho
          refine noTok_of_admins h2 rfl ?_
          simp only [admins, List.map_map]
          apply List.map_congr_left
          intro c _
          exact afterHook_admin _ _ c
      · exact h

/-- what an update touches: the framebuffer (soft cursor, encoders of an unscaled client) or the
client's scaled version -/
theorem updateClient_acc (st : State) (c : Client) (hmem : c ∈ st.clients) :
    ∀ t ∈ (updateClient st.scr c).2.acc, t = st.scr.fb ∨ ∃ a ∈ admins st, t = a.ssrc := by
  intro t ht
  unfold updateClient at ht
  split at ht
  · unfold sendUpdate at ht
    split at ht
    · simp at ht
    · split at ht
      · simp at ht
      · simp only [List.mem_append] at ht
        rcases ht with ht | ht
        · split at ht
          · simp at ht
          · left; simpa using ht
        · split at ht
          · simp at ht
          · simp only [List.mem_singleton] at ht
            subst ht
            unfold readToken
            split
            · exact Or.inr ⟨admin c, List.mem_map.mpr ⟨c, hmem, rfl⟩, rfl⟩
            · exact Or.inl rfl
  · simp at ht

/-- every token in the access log of one step is the current framebuffer or the rendering source of
some client's scaled version -/
theorem step_acc (st : State) (op : Op) :
    ∀ t ∈ (step st op).2.acc, t = st.scr.fb ∨ ∃ a ∈ admins st, t = a.ssrc := by
  intro t ht
  cases op with
  | newClient id => simp only [step] at ht; split at ht <;> simp at ht
  | setEncodings | setPixelFormat | request | newFramebuffer => simp [step] at ht
  | setDesktopSize => simp only [step] at ht; split at ht <;> simp at ht
  | pointer => simp only [step] at ht; split at ht <;> simp at ht
  | setScale id k =>
    simp only [step] at ht
    split at ht
    · simp only at ht
      split at ht
      · left; simpa using ht
      · simp at ht
    · simp at ht
  | mark =>
    simp only [step] at ht
    split at ht
    · simp only at ht
      split at ht
      · left; simpa using ht
      · simp at ht
    · simp at ht
  | copy => left; simpa [step] using ht
  | update id =>
    simp only [step] at ht
    split at ht
    · rename_i c hc
      exact updateClient_acc st c (getClient_some hc).1 t ht
    · simp at ht
  | updateFail id =>
    simp only [step] at ht
    split at ht
    · rename_i c hc
      exact updateClient_acc st c (getClient_some hc).1 t ht
    · simp at ht
  | updateExtFail id =>
    simp only [step] at ht
    split at ht
    · rename_i c hc
      split at ht
      · simp at ht
      · exact updateClient_acc st c (getClient_some hc).1 t ht
    · simp at ht
  | drop => simp [step] at ht

/-! ### T4: the installed translation maps (current server format → client format) -/

def XlateOk (st : State) : Prop :=
  ∀ a ∈ admins st, a.isOpen = true → a.xlate = (st.scr.bpp, a.fmt)

theorem xlateOk_newFramebuffer (st : State) (w h bpp : Int) (tok : Nat) (hx : XlateOk st) :
    XlateOk (newFramebuffer st w h bpp tok) := by
  intro a ha hopen
  simp only [admins, List.mem_map] at ha
  obtain ⟨d, hd, rfl⟩ := ha
  obtain ⟨c, hc, h⟩ := mem_newFramebuffer hd
  simp only [admin] at hopen ⊢
  have hco : c.base.isOpen = true := by rw [← h.2.2.1]; exact hopen
  have hx' := hx (admin c) (List.mem_map.mpr ⟨c, hc, rfl⟩) hco
  simp only [admin] at hx'
  rw [(h.2.2.2.2.2.2.2.2.2.2.2.1 hco).1, h.2.1]
  show _ = (bpp, c.fmt)
  by_cases hb : bpp = st.scr.bpp
  · simp [hb, hx']
  · simp [hb]

theorem xlateOk_of_admins {st st' : State} (h : XlateOk st)
    (hs : st'.scr.bpp = st.scr.bpp) (ha : admins st' = admins st) : XlateOk st' := by
  intro a hm ho
  rw [ha] at hm
  rw [hs]
  exact h a hm ho

theorem setScale_fmt (s : Screen) (c : Client) (k : Int) :
    (setScale s c k).1.fmt = c.fmt ∧ (setScale s c k).1.xlate = c.xlate ∧
    (setScale s c k).1.base.isOpen = c.base.isOpen ∧ (setScale s c k).1.id = c.id := by
  unfold setScale
  simp only
  split <;> split <;> (try split) <;> simp

theorem xlateOk_step (st : State) (op : Op) (h : XlateOk st) : XlateOk (step st op).1 := by
  by_cases hp : op.plain = true
  · obtain ⟨h1, h2⟩ := plain_step st op hp
    exact xlateOk_of_admins h (by rw [h1]) h2
  · cases op with
    | setEncodings | mark | copy | request | update | updateExtFail => simp [Op.plain] at hp
    | newClient id =>
      simp only [step]
      split
      · exact h
      · intro a ha ho
        simp only [admins, List.map_append, List.mem_append, List.mem_map, List.mem_singleton] at ha
        rcases ha with ⟨c, hc, rfl⟩ | ⟨c, rfl, rfl⟩
        · exact h _ (List.mem_map.mpr ⟨c, hc, rfl⟩) ho
        · rfl
    | setPixelFormat id fmt =>
      intro a ha ho
      simp only [admins, List.mem_map] at ha
      obtain ⟨d, hd, rfl⟩ := ha
      obtain ⟨c, hc, ⟨_, rfl⟩ | ⟨_, rfl⟩⟩ := mem_modClient hd
      · rfl
      · exact h _ (List.mem_map.mpr ⟨_, hc, rfl⟩) ho
    | setScale id k =>
      intro a ha ho
      simp only [admins, List.mem_map] at ha
      obtain ⟨d, hd, rfl⟩ := ha
      obtain ⟨c, hc, ⟨_, rfl⟩ | ⟨_, rfl⟩⟩ := mem_modClient hd
      · obtain ⟨h1, h2, h3, _⟩ := setScale_fmt st.scr c k
        simp only [admin] at ho ⊢
        rw [h1, h2]
        rw [h3] at ho
        exact h _ (List.mem_map.mpr ⟨c, hc, rfl⟩) ho
      · exact h _ (List.mem_map.mpr ⟨_, hc, rfl⟩) ho
    | pointer id x y =>
      simp only [step]
      split
      · exact h
      · exact h
    | updateFail id =>
      intro a ha ho
      simp only [admins, List.mem_map] at ha
      obtain ⟨d, hd, rfl⟩ := ha
      obtain ⟨c, hc, ⟨_, rfl⟩ | ⟨_, rfl⟩⟩ := mem_modClient hd
      · rcases updateClientFail_admin st.scr c with he | he
        · rw [he] at ho ⊢; exact h _ (List.mem_map.mpr ⟨c, hc, rfl⟩) ho
        · rw [he] at ho; simp at ho
      · exact h _ (List.mem_map.mpr ⟨_, hc, rfl⟩) ho
    | drop id =>
      intro a ha ho
      simp only [admins, List.mem_map] at ha
      obtain ⟨d, hd, rfl⟩ := ha
      obtain ⟨c, hc, ⟨_, rfl⟩ | ⟨_, rfl⟩⟩ := mem_modClient hd
      · rw [closeClient_admin] at ho; simp at ho
      · exact h _ (List.mem_map.mpr ⟨_, hc, rfl⟩) ho
    | newFramebuffer w hh bpp tok => exact xlateOk_newFramebuffer st w hh bpp tok h
    | setDesktopSize id w hh ns hook =>
      simp only [step]
      split
      · simp only [setDesktopSize]
        split
        · exact h
        · have h1 : XlateOk (modClient st id fun c => { c with reqChange := reasonClient }) :=
            xlateOk_of_admins h rfl (map_admin_modClient _ _ _ (fun _ => rfl))
          have h2 : XlateOk (runHook (modClient st id fun c => { c with reqChange := reasonClient }) hook).2 := by
            rcases runHook_cases (modClient st id fun c => { c with reqChange := reasonClient }) hook with
              ⟨he, _⟩ | ⟨code, w', h', bpp, tok, _, _, he⟩
            · rw [he]; exact h1
            · rw [he]; exact xlateOk_newFramebuffer _ w' h' bpp tok h1
          refine xlateOk_of_admins h2 rfl ?_
          simp only [admins, List.map_map]
          apply List.map_congr_left
          intro c _
          exact afterHook_admin _ _ c
      · exact h

end VncModel.Resize
