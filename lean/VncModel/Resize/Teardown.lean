import VncModel.Resize.Refine
/-!
Teardown after a replacement, and the buffer discipline of the size-message emitters.

* A client whose connection was closed (failed write of the pending size message or update, failed
  read of one of its messages) is never served again: no message, in any later history.
* `emit`: the flush rule at the head of rfbSendNewFBSize / rfbSendExtDesktopSize
  (`if (cl->ublen + need > UPDATE_BUF_SIZE) rfbSendUpdateBuf(cl)`), over the regenerated constants.
-/
namespace VncModel.Resize
open VncModel.Rgn VncModel.Update

theorem updateClient_closed (s : Screen) (c : Client) (h : c.base.isOpen = false) :
    (updateClient s c).2.msgs = [] ∧ (updateClient s c).2.acc = [] ∧ (updateClient s c).1 = c := by
  unfold updateClient updatePending
  simp [h]

/-- a closed connection stays closed -/
theorem stepClient_stays_closed (st : State) (op : Op) (c : Client) (h : c.base.isOpen = false) :
    (stepClient st op c).base.isOpen = false := by
  rcases stepClient_isOpen st op c with h1 | h1
  · rw [h1]; exact h
  · exact h1

/-- a client cannot speak after its connection is gone -/
def Op.notFrom (id : Nat) : Op → Prop
  | .setScale id' _ => id' ≠ id
  | _ => True

/-- **a torn-down client is silent**: once the record of client `id` is closed, no later history
sends it anything, and it stays closed -/
theorem closed_client_never_served (id : Nat) (ops : List Op) (st : State) (c0 : Client)
    (hu : Uniq id st c0) (hc : c0.base.isOpen = false) (hA : ∀ op ∈ ops, op.notFrom id) :
    msgsTo id (run st ops).2 = [] ∧
    ∃ c1, Uniq id (run st ops).1 c1 ∧ c1.base.isOpen = false := by
  induction ops generalizing st c0 with
  | nil => exact ⟨rfl, c0, hu, hc⟩
  | cons op ops ih =>
    simp only [run, msgsTo]
    have hnone : (step st op).2.to id = [] := by
      apply List.eq_nil_iff_forall_not_mem.mpr
      intro m hm
      rcases uniq_msgs hu (mem_to.mp hm) with ⟨_, hmm⟩ | ⟨k, ho, _⟩
      · rw [(updateClient_closed st.scr c0 hc).1] at hmm; simp at hmm
      · subst ho
        have : (Op.setScale id k).notFrom id := hA _ (by simp)
        exact absurd rfl this
    obtain ⟨h1, h2⟩ := ih (step st op).1 (stepClient st op c0) (uniq_step op hu)
      (stepClient_stays_closed st op c0 hc) (fun o ho => hA o (by simp [ho]))
    exact ⟨by rw [hnone, h1]; rfl, h2⟩

/-- the failing write closes the connection exactly when there was something to write -/
theorem updateFail_closes (s : Screen) (c : Client) (h : (updateClient s c).2.msgs ≠ []) :
    (updateClientFail s c).base.isOpen = false := by
  unfold updateClientFail
  rw [if_neg (by simpa using h)]
  rfl

/-- a size message that is pending is "something to write" -/
theorem pending_size_is_written (s : Screen) (c : Client) (hp : updatePending s c = true)
    (hnf : c.useNewFBSize = true) (hpe : c.pending = true) : (updateClient s c).2.msgs ≠ [] := by
  unfold updateClient
  rw [if_pos hp]
  rw [(show (sendUpdate s c).2.msgs = [(c.id, (sizeMessage c).2)] by
    unfold sendUpdate; simp [hnf, hpe])]
  simp

/-! ### the emitters' buffer discipline -/

open VncModel.Gen.C16 in
/-- bytes the NewFBSize pseudo-rectangle needs -/
def needNewFB : Nat := sz_rfbFramebufferUpdateRectHeader

open VncModel.Gen.C16 in
/-- bytes the ExtendedDesktopSize pseudo-rectangle with `n` screens needs -/
def needExt (n : Nat) : Nat :=
  sz_rfbFramebufferUpdateRectHeader + sz_rfbExtDesktopSizeMsg + sz_rfbExtDesktopScreen * n

open VncModel.Gen.C16 in
/-- the flush rule: (bytes flushed first, `ublen` after the rectangle was appended) -/
def emit (ublen need : Nat) : Nat × Nat :=
  if ublen + need > UPDATE_BUF_SIZE then (ublen, need) else (0, ublen + need)

open VncModel.Gen.C16 in
/-- the rule keeps `ublen` inside the buffer whenever the rectangle itself fits a buffer -/
theorem emit_inside (ublen need : Nat) (hn : need ≤ UPDATE_BUF_SIZE) :
    (emit ublen need).2 ≤ UPDATE_BUF_SIZE := by
  unfold emit
  split
  · exact hn
  · simp only; omega

open VncModel.Gen.C16 in
/-- in the only place the emitters are called from (the size short-circuit, `ublen` = the 4-byte
FramebufferUpdate header) no flush is ever needed for a screen count the wire format can carry -/
theorem shortcircuit_never_flushes (n : Nat) (h : n ≤ maxScreensInRequest) :
    (emit sz_rfbFramebufferUpdateMsg (needExt n)).1 = 0 ∧
    (emit sz_rfbFramebufferUpdateMsg needNewFB).1 = 0 := by
  have h1 : maxScreensInRequest = 255 := by decide
  have h2 : sz_rfbExtDesktopScreen = 16 := by decide
  have h3 : sz_rfbFramebufferUpdateRectHeader = 12 := by decide
  have h4 : sz_rfbExtDesktopSizeMsg = 4 := by decide
  have h5 : sz_rfbFramebufferUpdateMsg = 4 := by decide
  have h6 : UPDATE_BUF_SIZE = 32768 := by decide
  rw [h1] at h
  unfold emit needExt needNewFB
  rw [h2, h3, h4, h5, h6]
  constructor <;> (rw [if_neg (by omega)])

open VncModel.Gen.C16 in
/-- the extended rectangle fits the buffer exactly up to 2047 screens: an application hook that
reports more overruns `updateBuf` (the rule flushes but never splits) — far beyond the 255 the
one-byte count of the wire format can express -/
theorem ext_fits_iff (n : Nat) : needExt n ≤ UPDATE_BUF_SIZE ↔ n ≤ 2047 := by
  have h2 : sz_rfbExtDesktopScreen = 16 := by decide
  have h3 : sz_rfbFramebufferUpdateRectHeader = 12 := by decide
  have h4 : sz_rfbExtDesktopSizeMsg = 4 := by decide
  have h6 : UPDATE_BUF_SIZE = 32768 := by decide
  unfold needExt
  rw [h2, h3, h4, h6]
  omega

end VncModel.Resize
