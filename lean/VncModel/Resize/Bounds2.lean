import VncModel.Resize.Bounds
/-!
Second half of the region-level invariant: requests, the update itself, the replacement, and the
preservation of `GoodSt` by every operation; then the bound on every emitted rectangle.
-/
namespace VncModel.Resize
open VncModel.Rgn VncModel.Update

/-- `Update.sendUpdate` with progressive slicing off, written with projections -/
def sendUpdate0 (s : Update.Screen) (c : Update.Client) : Update.Client × Option Sent :=
  let sendCursorShape := c.cursorShape && c.cursorChanged && c.ready
  let c1 := (c.C.sub c.M).1
  let a := ((c.M.dup).or c1).and c.R
  if !a.2 && a.1.isEmpty &&
     (c.cursorShape || (c.cursorX == s.cursorX && c.cursorY == s.cursorY)) &&
     !sendCursorShape then
    ({ c with C := c1, sliceY := c.sliceY }, none)
  else
  let uc := ((c1.dup.and c.R).1.and (c.R.dup.offset c.dx c.dy)).1
  let upd4 := (a.1.sub uc).1
  let m3 := ((((c.M.or c1).sub upd4).1).sub uc).1
  let u5 : Region × Int × Int :=
    if !c.cursorShape then
      if c.cursorX ≠ s.cursorX ∨ c.cursorY ≠ s.cursorY then
        let u := match cursorBox s c.cursorX c.cursorY with
          | some b => upd4.or b
          | none => upd4
        let u := match cursorBox s s.cursorX s.cursorY with
          | some b => u.or b
          | none => u
        (u, s.cursorX, s.cursorY)
      else (upd4, c.cursorX, c.cursorY)
    else (upd4, c.cursorX, c.cursorY)
  let upd6 :=
    if s.maxRects > 0 ∧ (u5.1.countRects : Int) > s.maxRects then u5.1.bbox else u5.1
  let copies := (uc.rects (decide (c.dx > 0)) (decide (c.dy > 0))).map fun r =>
    { x := r.x1, y := r.y1, w := r.x2 - r.x1, h := r.y2 - r.y1,
      srcX := r.x1 - c.dx, srcY := r.y1 - c.dy : CopyRectMsg }
  ({ c with M := m3, C := Region.empty, R := Region.empty, dx := 0, dy := 0, sliceY := c.sliceY,
            cursorX := u5.2.1, cursorY := u5.2.2,
            cursorChanged := if sendCursorShape then false else c.cursorChanged },
   some { cursorShape := sendCursorShape, copies := copies, raws := upd6.rects false false })

theorem sendUpdate_eq (s : Update.Screen) (c : Update.Client) (h : s.progSlice = 0) :
    Update.sendUpdate s c = sendUpdate0 s c := by
  unfold Update.sendUpdate sendUpdate0
  simp only [h, Int.lt_irrefl, gt_iff_lt, if_false]
  rfl

/-- a pixel rectangle / CopyRect destination inside `[0,w) × [0,h)`, non-empty -/
def RectIn (w h : Int) (q : Rect) : Prop :=
  0 ≤ q.x1 ∧ q.x1 < q.x2 ∧ q.x2 ≤ w ∧ 0 ≤ q.y1 ∧ q.y1 < q.y2 ∧ q.y2 ≤ h

def CopyIn (w h : Int) (k : CopyRectMsg) : Prop :=
  0 ≤ k.x ∧ 0 < k.w ∧ k.x + k.w ≤ w ∧ 0 ≤ k.y ∧ 0 < k.h ∧ k.y + k.h ≤ h

/-- the update keeps the invariant, and everything it sends lies inside the screen — whatever the
requested region is (it is only ever intersected with) -/
theorem good_sendUpdate {s : Update.Screen} {b : Update.Client}
    (hp : s.progSlice = 0) (hm : s.maxRects = 0) (hw : 1 ≤ s.width) (hh : 1 ≤ s.height)
    (hg : Good s.width s.height b) :
    Good s.width s.height (Update.sendUpdate s b).1 ∧
    ∀ m, (Update.sendUpdate s b).2 = some m →
      (∀ q ∈ m.raws, RectIn s.width s.height q) ∧ (∀ k ∈ m.copies, CopyIn s.width s.height k) := by
  rw [sendUpdate_eq s b hp]
  unfold sendUpdate0
  extract_lets scs c1 a uc upd4 m3 u1 u2 u5 upd6 copies
  have hc1 : (c1.WF ∧ Inside s.width s.height c1) := inside_sub hg.cwf hg.mwf hg.cin
  obtain ⟨wc1, ic1⟩ := hc1
  have hmc : ((b.M.or c1).WF ∧ Inside s.width s.height (b.M.or c1)) := inside_or hg.mwf wc1 hg.min ic1
  obtain ⟨wmc, imc⟩ := hmc
  have ha : (a.1.WF ∧ Inside s.width s.height a.1) := inside_and_left wmc hg.rwf imc
  obtain ⟨wa, ia⟩ := ha
  split
  · exact ⟨⟨hg.mwf, wc1, hg.rwf, hg.min, ic1⟩, fun m hm => by simp at hm⟩
  · have huc0 : ((c1.and b.R).1.WF ∧ Inside s.width s.height (c1.and b.R).1) :=
      inside_and_left wc1 hg.rwf ic1
    have huc : (uc.WF ∧ Inside s.width s.height uc) :=
      inside_and_left huc0.1 (offset_wf b.R b.dx b.dy hg.rwf) huc0.2
    obtain ⟨wuc, iuc⟩ := huc
    have hu4 : (upd4.WF ∧ Inside s.width s.height upd4) := inside_sub wa wuc ia
    obtain ⟨wu4, iu4⟩ := hu4
    have hm2 : (((b.M.or c1).sub upd4).1.WF ∧ Inside s.width s.height ((b.M.or c1).sub upd4).1) :=
      inside_sub wmc wu4 imc
    have hm3 : (m3.WF ∧ Inside s.width s.height m3) := inside_sub hm2.1 wuc hm2.2
    refine ⟨⟨hm3.1, wf_empty, wf_empty, hm3.2, inside_empty _ _⟩, ?_⟩
    intro m hm'
    simp only [Option.some.injEq] at hm'
    subst hm'
    have hbox : ∀ (u : Region) (cx cy : Int), u.WF → Inside s.width s.height u →
        (match cursorBox s cx cy with | some bx => u.or bx | none => u).WF ∧
        Inside s.width s.height (match cursorBox s cx cy with | some bx => u.or bx | none => u) := by
      intro u cx cy hu iu
      cases hc : cursorBox s cx cy with
      | none => exact ⟨hu, iu⟩
      | some bx =>
        obtain ⟨h1, h2⟩ := cursorBox_inside hw hh hc
        exact inside_or hu h1 iu h2
    have hu1 : u1.WF ∧ Inside s.width s.height u1 := hbox upd4 b.cursorX b.cursorY wu4 iu4
    have hu2 : u2.WF ∧ Inside s.width s.height u2 := hbox u1 s.cursorX s.cursorY hu1.1 hu1.2
    have hu5 : u5.1.WF ∧ Inside s.width s.height u5.1 := by
      simp only [u5]
      split
      · split
        · exact hu2
        · exact ⟨wu4, iu4⟩
      · exact ⟨wu4, iu4⟩
    have h6 : upd6 = u5.1 := by
      simp only [upd6]
      rw [if_neg]
      rw [hm]; intro hc; exact absurd hc.1 (by decide)
    constructor
    · intro q hq
      simp only at hq
      rw [h6] at hq
      exact rects_inside hu5.1 hu5.2 false false q hq
    · intro k hk
      simp only [copies, List.mem_map] at hk
      obtain ⟨q, hq, rfl⟩ := hk
      have := rects_inside wuc iuc _ _ q hq
      simp only [CopyIn]
      omega

theorem good_request {s : Screen} {c : Client} (incr : Bool) (x y w h : Int)
    (hg : Good s.base.width s.base.height c.base) :
    Good s.base.width s.base.height (request s c incr x y w h).base := by
  unfold request
  split
  · exact hg
  · rename_i r hr
    have hb := clipReq_inside hr
    have itmp : Inside s.base.width s.base.height (Region.rect r.x r.y (r.x + r.w) (r.y + r.h)) := by
      intro px py hd
      have := (rect_den _ _ _ _ px py).mp hd
      omega
    have wtmp := rect_wf r.x r.y (r.x + r.w) (r.y + r.h)
    obtain ⟨wr, _⟩ := rOr_spec _ _ hg.rwf wtmp
    split
    · obtain ⟨w1, i1⟩ := inside_or hg.mwf wtmp hg.min itmp
      obtain ⟨w2, i2⟩ := inside_sub hg.cwf wtmp hg.cin
      exact ⟨w1, w2, wr, i1, i2⟩
    · exact ⟨hg.mwf, hg.cwf, wr, hg.min, hg.cin⟩

theorem good_newFbClient (s : Screen) (w h bpp : Int) (tok : Nat) (c : Client)
    (ho : c.base.isOpen = true) (hr : c.base.R.WF) :
    Good w h (newFbClient s w h bpp tok c).base := by
  unfold newFbClient
  simp only [ho, Bool.not_true, Bool.false_eq_true, if_false]
  exact ⟨rect_wf _ _ _ _, wf_empty, hr,
    inside_rect (Int.le_refl _) (Int.le_refl _) (Int.le_refl _) (Int.le_refl _), inside_empty _ _⟩

/-! ### the state invariant -/

def ScrOk (s : Screen) : Prop :=
  s.base.progSlice = 0 ∧ s.base.maxRects = 0 ∧ 1 ≤ s.base.width ∧ 1 ≤ s.base.height

def GoodSt (st : State) : Prop :=
  ScrOk st.scr ∧
  ∀ c ∈ st.clients, c.base.isOpen = true → Good st.scr.base.width st.scr.base.height c.base

/-- what the application must respect: a replacement has at least one pixel; a copy region is a
well-formed region inside the current framebuffer -/
def Op.sane (st : State) : Op → Prop
  | .newFramebuffer w h _ _ => 1 ≤ w ∧ 1 ≤ h
  | .setDesktopSize _ _ _ _ (some (_, some (w, h, _, _))) => 1 ≤ w ∧ 1 ≤ h
  | .copy rgn _ _ => rgn.WF ∧ Inside st.scr.base.width st.scr.base.height rgn
  | _ => True

theorem newFbClient_isOpen (s : Screen) (w h bpp : Int) (tok : Nat) (c : Client) :
    (newFbClient s w h bpp tok c).base.isOpen = c.base.isOpen := by
  unfold newFbClient
  cases ho : c.base.isOpen <;> simp [ho]

theorem updateClient_good {s : Screen} {c : Client} (hs : ScrOk s)
    (hg : Good s.base.width s.base.height c.base) :
    Good s.base.width s.base.height (updateClient s c).1.base := by
  unfold updateClient
  split
  · unfold sendUpdate
    split
    · rw [(sizeMessage_state c).2.1]; exact hg
    · have := (good_sendUpdate hs.1 hs.2.1 hs.2.2.1 hs.2.2.2 hg).1
      split <;> exact this
  · exact hg

theorem goodSt_newFramebuffer (st : State) (w h bpp : Int) (tok : Nat) (hg : GoodSt st)
    (hw : 1 ≤ w) (hh : 1 ≤ h) : GoodSt (newFramebuffer st w h bpp tok) := by
  refine ⟨⟨hg.1.1, hg.1.2.1, hw, hh⟩, ?_⟩
  intro d hd ho
  simp only [newFramebuffer, List.mem_map] at hd
  obtain ⟨c, hc, rfl⟩ := hd
  rw [newFbClient_isOpen] at ho
  exact good_newFbClient st.scr w h bpp tok c ho (hg.2 c hc ho).rwf

theorem goodSt_of_bases {st st' : State} (hg : GoodSt st) (hs : st'.scr.base.progSlice = st.scr.base.progSlice ∧
      st'.scr.base.maxRects = st.scr.base.maxRects ∧ st'.scr.base.width = st.scr.base.width ∧
      st'.scr.base.height = st.scr.base.height)
    (hc : ∀ d ∈ st'.clients, d.base.isOpen = true →
      Good st.scr.base.width st.scr.base.height d.base) : GoodSt st' := by
  obtain ⟨h1, h2, h3, h4⟩ := hs
  refine ⟨⟨by rw [h1]; exact hg.1.1, by rw [h2]; exact hg.1.2.1, by rw [h3]; exact hg.1.2.2.1,
    by rw [h4]; exact hg.1.2.2.2⟩, ?_⟩
  intro d hd ho
  rw [h3, h4]
  exact hc d hd ho

theorem goodSt_step (st : State) (op : Op) (hg : GoodSt st) (hs : op.sane st) :
    GoodSt (step st op).1 := by
  have W := hg.1.2.2.1
  have H := hg.1.2.2.2
  cases op with
  | newClient id =>
    simp only [step]
    split
    · exact hg
    · refine goodSt_of_bases hg ⟨rfl, rfl, rfl, rfl⟩ ?_
      intro d hd ho
      rcases List.mem_append.mp hd with hd | hd
      · exact hg.2 d hd ho
      · simp only [List.mem_singleton] at hd
        subst hd
        exact good_newClient st.scr.base
  | setEncodings id cr cs nf ext =>
    refine goodSt_of_bases hg ⟨rfl, rfl, rfl, rfl⟩ ?_
    intro d hd ho
    obtain ⟨c, hc, ⟨_, rfl⟩ | ⟨_, rfl⟩⟩ := mem_modClient hd
    · rw [setEncodings_isOpen] at ho
      exact good_setEncodings cr cs W H (hg.2 c hc ho)
    · exact hg.2 _ hc ho
  | setPixelFormat id f =>
    refine goodSt_of_bases hg ⟨rfl, rfl, rfl, rfl⟩ ?_
    intro d hd ho
    obtain ⟨c, hc, ⟨_, rfl⟩ | ⟨_, rfl⟩⟩ := mem_modClient hd
    · have := hg.2 c hc ho
      exact ⟨this.mwf, this.cwf, this.rwf, this.min, this.cin⟩
    · exact hg.2 _ hc ho
  | setScale id k =>
    refine goodSt_of_bases hg ⟨rfl, rfl, rfl, rfl⟩ ?_
    intro d hd ho
    obtain ⟨c, hc, ⟨_, rfl⟩ | ⟨_, rfl⟩⟩ := mem_modClient hd
    · have hb : (setScale st.scr c k).1.base = c.base := by
        unfold setScale; simp only; split <;> split <;> (try split) <;> rfl
      rw [hb] at ho ⊢
      exact hg.2 c hc ho
    · exact hg.2 _ hc ho
  | pointer id x y =>
    simp only [step]
    split
    · exact goodSt_of_bases hg ⟨rfl, rfl, rfl, rfl⟩ (fun d hd ho => hg.2 d hd ho)
    · exact hg
  | mark x1 y1 x2 y2 =>
    simp only [step]
    cases hm : markClip st.scr.base x1 y1 x2 y2 with
    | none => exact hg
    | some r =>
      obtain ⟨a, b, c', d'⟩ := r
      simp only
      obtain ⟨ha, hc', hb, hd'⟩ := markClip_inside hm
      refine goodSt_of_bases hg ⟨rfl, rfl, rfl, rfl⟩ ?_
      intro d hd ho
      obtain ⟨c, hc, ⟨hco, rfl⟩ | ⟨_, rfl⟩⟩ := mem_mapOpen hd
      · exact good_markRegion (hg.2 c hc hco) (rect_wf _ _ _ _) (inside_rect ha hc' hb hd')
      · exact hg.2 _ hc ho
  | copy rgn dx dy =>
    refine goodSt_of_bases hg ⟨rfl, rfl, rfl, rfl⟩ ?_
    intro d hd ho
    obtain ⟨c, hc, ⟨hco, rfl⟩ | ⟨_, rfl⟩⟩ := mem_mapOpen hd
    · exact good_scheduleCopy dx dy (hg.2 c hc hco) hs.1 hs.2
    · exact hg.2 _ hc ho
  | request id incr x y w h =>
    refine goodSt_of_bases hg ⟨rfl, rfl, rfl, rfl⟩ ?_
    intro d hd ho
    obtain ⟨c, hc, ⟨_, rfl⟩ | ⟨_, rfl⟩⟩ := mem_modClient hd
    · have hop : c.base.isOpen = true := by
        have := request_admin st.scr c incr x y w h
        simp only [admin, Admin.mk.injEq] at this
        rw [← this.2.2.2.1]; exact ho
      exact good_request incr x y w h (hg.2 c hc hop)
    · exact hg.2 _ hc ho
  | update id =>
    refine goodSt_of_bases hg ⟨rfl, rfl, rfl, rfl⟩ ?_
    intro d hd ho
    obtain ⟨c, hc, ⟨_, rfl⟩ | ⟨_, rfl⟩⟩ := mem_modClient hd
    · have hop : c.base.isOpen = true := by
        have := updateClient_admin st.scr c
        simp only [admin, Admin.mk.injEq] at this
        rw [← this.2.2.2.1]; exact ho
      exact updateClient_good hg.1 (hg.2 c hc hop)
    · exact hg.2 _ hc ho
  | updateExtFail id =>
    refine goodSt_of_bases hg ⟨rfl, rfl, rfl, rfl⟩ ?_
    intro d hd ho
    obtain ⟨c, hc, ⟨_, rfl⟩ | ⟨_, rfl⟩⟩ := mem_modClient hd
    · have hop : c.base.isOpen = true := by
        have := updateClient_admin st.scr c
        simp only [admin, Admin.mk.injEq] at this
        rw [← this.2.2.2.1]; exact ho
      exact updateClient_good hg.1 (hg.2 c hc hop)
    · exact hg.2 _ hc ho
  | updateFail id =>
    refine goodSt_of_bases hg ⟨rfl, rfl, rfl, rfl⟩ ?_
    intro d hd ho
    obtain ⟨c, hc, ⟨_, rfl⟩ | ⟨_, rfl⟩⟩ := mem_modClient hd
    · unfold updateClientFail at ho ⊢
      split at ho
      · rename_i hm
        rw [if_pos hm]
        have hop : c.base.isOpen = true := by
          have := updateClient_admin st.scr c
          simp only [admin, Admin.mk.injEq] at this
          rw [← this.2.2.2.1]; exact ho
        exact updateClient_good hg.1 (hg.2 c hc hop)
      · simp [closeClient] at ho
    · exact hg.2 _ hc ho
  | drop id =>
    refine goodSt_of_bases hg ⟨rfl, rfl, rfl, rfl⟩ ?_
    intro d hd ho
    obtain ⟨c, hc, ⟨_, rfl⟩ | ⟨_, rfl⟩⟩ := mem_modClient hd
    · simp [closeClient] at ho
    · exact hg.2 _ hc ho
  | newFramebuffer w h bpp tok => exact goodSt_newFramebuffer st w h bpp tok hg hs.1 hs.2
  | setDesktopSize id w h ns hook =>
    simp only [step]
    split
    · simp only [setDesktopSize]
      split
      · exact hg
      · have h1 : GoodSt (modClient st id fun c => { c with reqChange := reasonClient }) := by
          refine goodSt_of_bases hg ⟨rfl, rfl, rfl, rfl⟩ ?_
          intro d hd ho
          obtain ⟨c, hc, ⟨_, rfl⟩ | ⟨_, rfl⟩⟩ := mem_modClient hd
          · have := hg.2 c hc ho
            exact ⟨this.mwf, this.cwf, this.rwf, this.min, this.cin⟩
          · exact hg.2 _ hc ho
        have h2 : GoodSt (runHook (modClient st id fun c => { c with reqChange := reasonClient }) hook).2 := by
          rcases runHook_cases (modClient st id fun c => { c with reqChange := reasonClient }) hook with
            ⟨he, _⟩ | ⟨code, w', h', bpp, tok, hk, _, he⟩
          · rw [he]; exact h1
          · rw [he]
            subst hk
            exact goodSt_newFramebuffer _ w' h' bpp tok h1 hs.1 hs.2
        refine goodSt_of_bases h2 ⟨rfl, rfl, rfl, rfl⟩ ?_
        intro d hd ho
        simp only [List.mem_map] at hd
        obtain ⟨c, hc, rfl⟩ := hd
        obtain ⟨_, _, _, _, _, hb, _⟩ := afterHook_fields id
          (runHook (modClient st id fun c => { c with reqChange := reasonClient }) hook).1 c
        rw [hb] at ho ⊢
        exact h2.2 c hc ho
    · exact hg

/-- the invariant holds in every state of every sane history -/
theorem goodSt_run (ops : List Op) (st : State) (hg : GoodSt st)
    (hs : ∀ (pre : List Op) (op : Op) (post : List Op), ops = pre ++ op :: post →
      op.sane (run st pre).1) : GoodSt (run st ops).1 := by
  induction ops generalizing st with
  | nil => exact hg
  | cons op ops ih =>
    simp only [run]
    have h0 := hs [] op ops rfl
    apply ih _ (goodSt_step st op hg h0)
    intro pre o post he
    have := hs (op :: pre) o post (by rw [he]; rfl)
    simpa [run] using this

end VncModel.Resize
