import VncModel.Resize.Flow
/-!
Instances of `first_relevant`:
* a client with resize support and a pending size change receives the size message (with its
  current geometry) before anything else;
* the ExtendedDesktopSize reason / status fields reach the client unaltered with the next size
  message and are reset afterwards.
-/
namespace VncModel.Resize
open VncModel.Rgn VncModel.Update

/-- `c0` is THE record of client `id` -/
def Uniq (id : Nat) (st : State) (c0 : Client) : Prop :=
  c0 ∈ st.clients ∧ c0.id = id ∧ ∀ c ∈ st.clients, c.id = id → c = c0

theorem uniq_step {id : Nat} {st : State} {c0 : Client} (op : Op) (h : Uniq id st c0) :
    Uniq id (step st op).1 (stepClient st op c0) := by
  obtain ⟨hm, hid, hu⟩ := h
  rw [Uniq, step_clients]
  refine ⟨List.mem_append_left _ (List.mem_map.mpr ⟨c0, hm, rfl⟩), by rw [stepClient_id]; exact hid, ?_⟩
  intro d hd hdid
  rcases List.mem_append.mp hd with hd | hd
  · obtain ⟨c, hc, rfl⟩ := List.mem_map.mp hd
    rw [stepClient_id] at hdid
    rw [hu c hc hdid]
  · cases op with
    | newClient id' =>
      simp only [stepNew] at hd
      split at hd
      · simp at hd
      · rename_i hn
        simp only [List.mem_singleton] at hd
        subst hd
        simp only [newClient] at hdid
        subst hdid
        exact absurd (getClient_isSome_of_mem ⟨c0, hm, hid⟩) hn
    | _ => simp [stepNew] at hd

/-- messages to `id` come from the unique record -/
theorem uniq_msgs {id : Nat} {st : State} {c0 : Client} {op : Op} {m : Msg} (h : Uniq id st c0)
    (hm : (id, m) ∈ (step st op).2.msgs) :
    ((op = .update id ∨ (op = .updateExtFail id ∧ extFails c0 = false)) ∧
      (id, m) ∈ (updateClient st.scr c0).2.msgs) ∨
    (∃ k, op = .setScale id k ∧ (setScale st.scr c0 k).2 = some m) := by
  rcases step_msgs hm with ⟨c, hc, ho, hmm⟩ | ⟨c, k, hc, ho, hmm⟩
  · obtain ⟨h1, h2⟩ := getClient_some hc
    rw [h.2.2 c h1 h2] at hmm ho
    exact Or.inl ⟨ho, hmm⟩
  · obtain ⟨h1, h2⟩ := getClient_some hc
    rw [h.2.2 c h1 h2] at hmm
    exact Or.inr ⟨k, ho, hmm⟩

/-! ### size message first -/

/-- SetEncodings of client `id` keeps resize support -/
def Op.keepsCap (id : Nat) : Op → Prop
  | .setEncodings id' _ _ nf ext => id' = id → (nf || ext) = true
  | _ => True

/-- SetEncodings of client `id` keeps ExtendedDesktopSize -/
def Op.keepsExt (id : Nat) : Op → Prop
  | .setEncodings id' _ _ _ ext => id' = id → ext = true
  | _ => True

def Op.noRescale (id : Nat) : Op → Prop
  | .setScale id' _ => id' ≠ id
  | _ => True

/-- the connection of client `id` is not lost and the application's screen hook does not fail for it -/
def Op.noFailure (id : Nat) : Op → Prop
  | .updateFail id' | .updateExtFail id' | .drop id' => id' ≠ id
  | _ => True

def Op.noSds : Op → Prop
  | .setDesktopSize .. => False
  | _ => True

/-- resize-capable, size change pending, scaled geometry `tw × th` -/
def PendF (tw th : Int) (c : Client) : Prop :=
  c.useNewFBSize = true ∧ c.pending = true ∧ c.sw = tw ∧ c.sh = th

def IsSizeOf (tw th : Int) (m : Msg) : Prop :=
  m = .size tw th ∨ ∃ r s, m = .ext r s tw th [(1, 0, 0, tw, th, 0)]

theorem newFbClient_flags (s : Screen) (w h bpp : Int) (tok : Nat) (c : Client) :
    (newFbClient s w h bpp tok c).useNewFBSize = c.useNewFBSize ∧
    (newFbClient s w h bpp tok c).useExt = c.useExt ∧
    (newFbClient s w h bpp tok c).reqChange = c.reqChange ∧
    (newFbClient s w h bpp tok c).lastErr = c.lastErr ∧
    (c.pending = true → (newFbClient s w h bpp tok c).pending = true) ∧
    (c.base.isOpen = true → c.useNewFBSize = true → (newFbClient s w h bpp tok c).pending = true) := by
  unfold newFbClient
  cases ho : c.base.isOpen <;> simp [ho]
  exact ⟨fun h => Or.inr h, fun h => Or.inl (Or.inl h)⟩

theorem pendF_stepClient (id : Nat) (tw th : Int) (st : State) (op : Op) (c : Client)
    (hid : c.id = id) (hF : PendF tw th c)
    (hr : op.appResize = false) (hk : op.keepsCap id) (hs : op.noRescale id) (hl : op.noFailure id)
    (hno : ∀ m, (id, m) ∈ (step st op).2.msgs → False) (hu : Uniq id st c) :
    PendF tw th (stepClient st op c) := by
  obtain ⟨hnf, hp, hw, hh⟩ := hF
  have other : ∀ id' : Nat, id' ≠ id → (c.id == id') = false := by
    intro id' hne; rw [hid]; simpa using fun h => hne h.symm
  cases op with
  | newClient | pointer => exact ⟨hnf, hp, hw, hh⟩
  | updateFail id' => simp only [stepClient, other id' hl]; exact ⟨hnf, hp, hw, hh⟩
  | updateExtFail id' => simp only [stepClient, other id' hl]; exact ⟨hnf, hp, hw, hh⟩
  | drop id' => simp only [stepClient, other id' hl]; exact ⟨hnf, hp, hw, hh⟩
  | newFramebuffer => simp [Op.appResize] at hr
  | setEncodings id' cr cs nf ext =>
    simp only [stepClient]
    split
    · rename_i he
      have : id' = id := by rw [← hid]; exact (by simpa using he : c.id = id').symm
      exact ⟨hk this, hp, hw, hh⟩
    · exact ⟨hnf, hp, hw, hh⟩
  | setPixelFormat => simp only [stepClient]; split <;> exact ⟨hnf, hp, hw, hh⟩
  | setScale id' k =>
    simp only [stepClient]
    split
    · rename_i he
      exact absurd (by rw [← hid]; exact (by simpa using he : c.id = id').symm) hs
    · exact ⟨hnf, hp, hw, hh⟩
  | mark x1 y1 x2 y2 =>
    simp only [stepClient]
    cases hm : markClip st.scr.base x1 y1 x2 y2 with
    | none => exact ⟨hnf, hp, hw, hh⟩
    | some r => obtain ⟨a, b, c', d⟩ := r; simp only; split <;> exact ⟨hnf, hp, hw, hh⟩
  | copy => simp only [stepClient]; split <;> exact ⟨hnf, hp, hw, hh⟩
  | request id' incr x y w h =>
    simp only [stepClient]
    split
    · obtain ⟨_, h2, _, _, _, h6, h7, h8⟩ := request_flags st.scr c incr x y w h
      exact ⟨by rw [h2]; exact hnf, h8 hp, by rw [h6]; exact hw, by rw [h7]; exact hh⟩
    · exact ⟨hnf, hp, hw, hh⟩
  | update id' =>
    simp only [stepClient]
    split
    · rename_i he
      have hid' : id' = id := by rw [← hid]; exact (by simpa using he : c.id = id').symm
      subst hid'
      rcases updateClient_msgs st.scr c with ⟨_, hfl⟩ | ⟨_, _, h1, _⟩ | ⟨hn, _⟩
      · simp only [flags, Flags.mk.injEq] at hfl
        exact ⟨by rw [hfl.2.1]; exact hnf, by rw [hfl.2.2.2.1]; exact hp,
          by rw [hfl.2.2.2.2.2.2.1]; exact hw, by rw [hfl.2.2.2.2.2.2.2]; exact hh⟩
      · -- a size message is sent: excluded by `hno`
        exfalso
        refine hno (sizeMessage c).2 ?_
        simp only [step]
        have hg : getClient st c.id = some c := by
          have := getClient_isSome_of_mem ⟨c, hu.1, rfl⟩
          obtain ⟨c1, hc1⟩ := Option.isSome_iff_exists.mp this
          obtain ⟨hm1, hi1⟩ := getClient_some hc1
          rw [hc1, hu.2.2 c1 hm1 (by rw [hi1]; exact hid.symm ▸ rfl)]
        rw [← hid, hg]
        simp only
        rw [h1]
        simp
      · exact absurd ⟨hnf, hp⟩ hn
    · exact ⟨hnf, hp, hw, hh⟩
  | setDesktopSize id' w h ns hook =>
    simp only [stepClient]
    split
    · -- no application resize: the hook leaves the records alone
      have hh' : ∀ c : Client, hookClient st.scr hook c = c := by
        intro c
        match hook, hr with
        | none, _ => rfl
        | some (code, none), _ => rfl
        | some (code, some r), hr => simp [Op.appResize] at hr
      rw [hh']
      obtain ⟨_, h2, _, h4, h5, _, h7, _, _⟩ := afterHook_fields id'
        (runHook (modClient st id' fun c => { c with reqChange := reasonClient }) hook).1
        (if c.id == id' then { c with reqChange := reasonClient } else c)
      refine ⟨?_, ?_, ?_, ?_⟩
      · rw [h2]; split <;> exact hnf
      · apply h7; split <;> exact hp
      · rw [h4]; split <;> exact hw
      · rw [h5]; split <;> exact hh
    · exact ⟨hnf, hp, hw, hh⟩

theorem sizeMessage_isSizeOf (c : Client) : IsSizeOf c.sw c.sh (sizeMessage c).2 := by
  rw [sizeMessage_msg]
  split
  · exact Or.inr ⟨_, _, rfl⟩
  · exact Or.inl rfl

theorem sizeMessage_isSize (c : Client) : (sizeMessage c).2.isSize = true := by
  rw [sizeMessage_msg]; split <;> rfl

/-- **size message first** (history level): while client `id` keeps its resize support and its
scale, and the application does not resize again, the first message it receives after a size
change became pending is the size message carrying its current geometry `tw × th`. -/
theorem size_first (id : Nat) (tw th : Int) (ops : List Op) (st : State) (c0 : Client)
    (hu : Uniq id st c0) (hF : PendF tw th c0)
    (hA : ∀ op ∈ ops, op.appResize = false ∧ op.keepsCap id ∧ op.noRescale id ∧ op.noFailure id) :
    ∀ m, (msgsTo id (run st ops).2).head? = some m → IsSizeOf tw th m := by
  intro m hm
  refine first_relevant id (fun _ => true) (fun st => ∃ c0, Uniq id st c0 ∧ PendF tw th c0)
    (IsSizeOf tw th) (fun op => op.appResize = false ∧ op.keepsCap id ∧ op.noRescale id ∧ op.noFailure id)
    ?_ ops st ⟨c0, hu, hF⟩ hA m ?_
  · intro st op ⟨c, hu, hF⟩ ⟨ha1, ha2, ha3, ha4⟩
    constructor
    · intro m hm _
      rcases uniq_msgs hu hm with ⟨_, hmm⟩ | ⟨k, ho, _⟩
      · rcases updateClient_msgs st.scr c with ⟨h0, _⟩ | ⟨_, _, h1, _⟩ | ⟨hn, _⟩
        · rw [h0] at hmm; simp at hmm
        · rw [h1] at hmm
          simp only [List.mem_singleton, Prod.mk.injEq] at hmm
          rw [hmm.2, ← hF.2.2.1, ← hF.2.2.2]
          exact sizeMessage_isSizeOf c
        · exact absurd ⟨hF.1, hF.2.1⟩ hn
      · subst ho; exact absurd rfl ha3
    · intro hno
      exact ⟨stepClient st op c, uniq_step op hu,
        pendF_stepClient id tw th st op c hu.2.1 hF ha1 ha2 ha3 ha4
          (fun m hm => by simpa using hno m hm) hu⟩
  · cases hl : msgsTo id (run st ops).2 with
    | nil => rw [hl] at hm; simp at hm
    | cons a l => rw [hl] at hm; simp at hm; subst hm; simp

/-! ### the ExtendedDesktopSize reason / status fields -/

/-- ExtendedDesktopSize client whose reason / status fields hold `r` / `s` -/
def ExtF (r s : Int) (c : Client) : Prop := c.useExt = true ∧ c.reqChange = r ∧ c.lastErr = s

theorem extF_stepClient (id : Nat) (r s : Int) (st : State) (op : Op) (c : Client)
    (hid : c.id = id) (hF : ExtF r s c) (hk : op.keepsExt id) (hs : op.noSds) (hlv : op.noFailure id)
    (hno : ∀ m, (id, m) ∈ (step st op).2.msgs → m.isSize = false) (hu : Uniq id st c) :
    ExtF r s (stepClient st op c) := by
  obtain ⟨he, hr, hl⟩ := hF
  have other : ∀ id' : Nat, id' ≠ id → (c.id == id') = false := by
    intro id' hne; rw [hid]; simpa using fun h => hne h.symm
  cases op with
  | newClient | pointer => exact ⟨he, hr, hl⟩
  | updateFail id' => simp only [stepClient, other id' hlv]; exact ⟨he, hr, hl⟩
  | updateExtFail id' => simp only [stepClient, other id' hlv]; exact ⟨he, hr, hl⟩
  | drop id' => simp only [stepClient, other id' hlv]; exact ⟨he, hr, hl⟩
  | setDesktopSize => exact False.elim hs
  | newFramebuffer w h bpp tok =>
    obtain ⟨_, h2, h3, h4, _⟩ := newFbClient_flags st.scr w h bpp tok c
    exact ⟨by simp only [stepClient]; rw [h2]; exact he, by simp only [stepClient]; rw [h3]; exact hr,
      by simp only [stepClient]; rw [h4]; exact hl⟩
  | setEncodings id' cr cs nf ext =>
    simp only [stepClient]
    split
    · rename_i hc
      have : id' = id := by rw [← hid]; exact (by simpa using hc : c.id = id').symm
      exact ⟨hk this, hr, hl⟩
    · exact ⟨he, hr, hl⟩
  | setPixelFormat => simp only [stepClient]; split <;> exact ⟨he, hr, hl⟩
  | setScale id' k =>
    simp only [stepClient]
    split
    · obtain ⟨_, _, h3, h4, h5, _⟩ := setScale_flags st.scr c k
      exact ⟨by rw [h3]; exact he, by rw [h4]; exact hr, by rw [h5]; exact hl⟩
    · exact ⟨he, hr, hl⟩
  | mark x1 y1 x2 y2 =>
    simp only [stepClient]
    cases hm : markClip st.scr.base x1 y1 x2 y2 with
    | none => exact ⟨he, hr, hl⟩
    | some q => obtain ⟨a, b, c', d⟩ := q; simp only; split <;> exact ⟨he, hr, hl⟩
  | copy => simp only [stepClient]; split <;> exact ⟨he, hr, hl⟩
  | request id' incr x y w h =>
    simp only [stepClient]
    split
    · obtain ⟨_, _, h3, h4, h5, _⟩ := request_flags st.scr c incr x y w h
      exact ⟨by rw [h3]; exact he, by rw [h4]; exact hr, by rw [h5]; exact hl⟩
    · exact ⟨he, hr, hl⟩
  | update id' =>
    simp only [stepClient]
    split
    · rename_i hc
      have hid' : id' = id := by rw [← hid]; exact (by simpa using hc : c.id = id').symm
      subst hid'
      have keep : flags (updateClient st.scr c).1 = flags c → ExtF r s (updateClient st.scr c).1 := by
        intro hfl
        simp only [flags, Flags.mk.injEq] at hfl
        exact ⟨by rw [hfl.2.2.1]; exact he, by rw [hfl.2.2.2.2.1]; exact hr,
          by rw [hfl.2.2.2.2.2.1]; exact hl⟩
      rcases updateClient_msgs st.scr c with ⟨_, hfl⟩ | ⟨_, _, h1, _⟩ | ⟨_, hfl, _⟩
      · exact keep hfl
      · exfalso
        have hg : getClient st c.id = some c := by
          have := getClient_isSome_of_mem ⟨c, hu.1, rfl⟩
          obtain ⟨c1, hc1⟩ := Option.isSome_iff_exists.mp this
          obtain ⟨hm1, hi1⟩ := getClient_some hc1
          rw [hc1, hu.2.2 c1 hm1 (by rw [hi1]; exact hid.symm ▸ rfl)]
        have := hno (sizeMessage c).2 (by
          simp only [step]
          rw [← hid, hg]
          simp only
          rw [h1]
          simp)
        rw [sizeMessage_isSize] at this
        exact Bool.noConfusion this
      · exact keep hfl
    · exact ⟨he, hr, hl⟩

/-- **reason and status reach the client unaltered**: if client `id` uses ExtendedDesktopSize and its
fields hold reason `r` and status `s`, then — as long as nobody sends a SetDesktopSize and the client
keeps the extension — the first size message it receives is the extended one carrying exactly
`r` and `s`. -/
theorem ext_fields_delivered (id : Nat) (r s : Int) (ops : List Op) (st : State) (c0 : Client)
    (hu : Uniq id st c0) (hF : ExtF r s c0)
    (hA : ∀ op ∈ ops, op.keepsExt id ∧ op.noSds ∧ op.noFailure id) :
    ∀ m, (msgsTo id (run st ops).2).find? Msg.isSize = some m → ∃ w h l, m = .ext r s w h l := by
  refine first_relevant id Msg.isSize (fun st => ∃ c0, Uniq id st c0 ∧ ExtF r s c0)
    (fun m => ∃ w h l, m = .ext r s w h l) (fun op => op.keepsExt id ∧ op.noSds ∧ op.noFailure id)
    ?_ ops st ⟨c0, hu, hF⟩ hA
  intro st op ⟨c, hu, hF⟩ ⟨ha1, ha2, ha3⟩
  constructor
  · intro m hm hrel
    rcases uniq_msgs hu hm with ⟨_, hmm⟩ | ⟨k, _, hmm⟩
    · rcases updateClient_msgs st.scr c with ⟨h0, _⟩ | ⟨_, _, h1, _⟩ | ⟨_, _, cs, cp, rs, h1⟩
      · rw [h0] at hmm; simp at hmm
      · rw [h1] at hmm
        simp only [List.mem_singleton, Prod.mk.injEq] at hmm
        rw [hmm.2, sizeMessage_msg, if_pos hF.1, hF.2.1, hF.2.2]
        exact ⟨_, _, _, rfl⟩
      · rw [h1] at hmm
        simp only [List.mem_singleton, Prod.mk.injEq] at hmm
        rw [hmm.2] at hrel
        simp [Msg.isSize] at hrel
    · have := (setScale_flags st.scr c k).2.2.2.2.2.2 m hmm
      rw [this] at hrel
      exact Bool.noConfusion hrel
  · intro hno
    exact ⟨stepClient st op c, uniq_step op hu,
      extF_stepClient id r s st op c hu.2.1 hF ha1 ha2 ha3 hno hu⟩

end VncModel.Resize
