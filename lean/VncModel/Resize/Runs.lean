import VncModel.Resize.Answers
import VncModel.Resize.Bounds2
import VncModel.Update.USpecProofs
/-!
History-level corollaries (`run`) of the step lemmas, the SetDesktopSize bookkeeping facts, the
link to the set-level convergence specification of C02, and the model of the UNFIXED
rfbNewFramebuffer used for the counter-example.
-/
namespace VncModel.Resize
open VncModel.Rgn VncModel.Update

theorem run_append (st : State) (a b : List Op) :
    (run st (a ++ b)).1 = (run (run st a).1 b).1 ∧
    (run st (a ++ b)).2 = (run st a).2 ++ (run (run st a).1 b).2 := by
  induction a generalizing st with
  | nil => simp [run]
  | cons op a ih =>
    simp only [List.cons_append, run]
    exact ⟨(ih _).1, by rw [(ih _).2]⟩

/-! ### tokens -/

theorem noTok_run (old : Nat) (ops : List Op) (st : State) (h : NoTok old st)
    (ha : ∀ op ∈ ops, op.avoids old) :
    NoTok old (run st ops).1 ∧ ∀ o ∈ (run st ops).2, old ∉ o.acc := by
  induction ops generalizing st with
  | nil => exact ⟨h, by simp [run]⟩
  | cons op ops ih =>
    simp only [run]
    have h1 := noTok_step old st op h (ha op (by simp))
    obtain ⟨h2, h3⟩ := ih (step st op).1 h1 (fun o ho => ha o (by simp [ho]))
    refine ⟨h2, ?_⟩
    intro o ho
    rcases List.mem_cons.mp ho with rfl | ho
    · intro hm
      rcases step_acc st op old hm with he | ⟨a, ha', he⟩
      · exact h.1 he.symm
      · exact h.2 a ha' he.symm
    · exact h3 o ho

/-! ### translation -/

theorem xlateOk_run (ops : List Op) (st : State) (h : XlateOk st) : XlateOk (run st ops).1 := by
  induction ops generalizing st with
  | nil => exact h
  | cons op ops ih => exact ih _ (xlateOk_step st op h)

/-! ### geometry -/

theorem geometry_run (ops : List Op) (st : State) (h : ∀ op ∈ ops, op.appResize = false) :
    geometry (run st ops).1 = geometry st := by
  induction ops generalizing st with
  | nil => rfl
  | cons op ops ih =>
    simp only [run]
    rw [ih _ (fun o ho => h o (by simp [ho])), step_geometry st op (h op (by simp))]

/-- unscaled clients are served at the screen's own size -/
def GeomOk (st : State) : Prop :=
  ∀ a ∈ admins st, a.scaled = false → a.sw = st.scr.base.width ∧ a.sh = st.scr.base.height

theorem newFbClient_geom (s : Screen) (w h bpp : Int) (tok : Nat) (c : Client) :
    (newFbClient s w h bpp tok c).scaled = c.scaled ∧
    (newFbClient s w h bpp tok c).sw = (if c.scaled then rescale s.base.width w c.sw else w) ∧
    (newFbClient s w h bpp tok c).sh = (if c.scaled then rescale s.base.height h c.sh else h) := by
  unfold newFbClient
  cases ho : c.base.isOpen <;> simp [ho]

/-! ### SetDesktopSize -/

/-- what the hook answers -/
def hookCode : Hook → Int
  | none => defaultHookResult
  | some (code, _) => code

theorem runHook_fst (st : State) (hook : Hook) : (runHook st hook).1 = hookCode hook := by
  match hook with
  | none => rfl
  | some (code, none) => rfl
  | some (code, some (w, h, bpp, tok)) => rfl

theorem hookClient_flags (s : Screen) (hook : Hook) (c : Client) :
    (hookClient s hook c).useExt = c.useExt ∧ (hookClient s hook c).reqChange = c.reqChange ∧
    (hookClient s hook c).lastErr = c.lastErr ∧
    (hookClient s hook c).base.isOpen = c.base.isOpen ∧
    (c.pending = true → (hookClient s hook c).pending = true) := by
  match hook with
  | none => exact ⟨rfl, rfl, rfl, rfl, id⟩
  | some (code, none) => exact ⟨rfl, rfl, rfl, rfl, id⟩
  | some (code, some (w, h, bpp, tok)) =>
    obtain ⟨_, h2, h3, h4, h5, _⟩ := newFbClient_flags s w h bpp tok c
    exact ⟨h2, h3, h4, newFbClient_isOpen s w h bpp tok c, h5⟩

/-- the record of the requesting client after its SetDesktopSize (with at least one screen) -/
theorem sds_requester (st : State) (id : Nat) (w h ns : Int) (hook : Hook) (c : Client)
    (hc : c ∈ st.clients) (hid : c.id = id) (hns : ns ≠ 0) :
    let d := stepClient st (.setDesktopSize id w h ns hook) c
    d.reqChange = reasonClient ∧ d.lastErr = hookCode hook ∧ d.useExt = c.useExt ∧
    (hookCode hook ≠ 0 → d.pending = true) := by
  subst hid
  have hg : (getClient st c.id).isSome = true := getClient_isSome_of_mem ⟨c, hc, rfl⟩
  simp only [stepClient, hg, Bool.true_and, bne_iff_ne, ne_eq, hns, not_false_eq_true, decide_true, if_true,
    beq_self_eq_true, runHook_fst]
  obtain ⟨h1, h2, _, _, _⟩ := hookClient_flags st.scr hook { c with reqChange := reasonClient }
  have hdi : (hookClient st.scr hook { c with reqChange := reasonClient }).id = c.id := by
    rw [hookClient_id]
  obtain ⟨_, _, h3, _, _, _, _, h8, _⟩ := afterHook_fields c.id (hookCode hook)
    (hookClient st.scr hook { c with reqChange := reasonClient })
  obtain ⟨h9, h10, h11, _⟩ := h8 hdi
  exact ⟨by rw [h10, h2], h9, by rw [h3, h1], h11⟩

/-- the records of the OTHER (open) clients after a successful SetDesktopSize of client `id` -/
theorem sds_others (st : State) (id : Nat) (w h ns : Int) (hook : Hook) (c : Client)
    (hg : (getClient st id).isSome = true) (hid : c.id ≠ id) (hns : ns ≠ 0) (ho : c.base.isOpen = true)
    (hcode : hookCode hook = 0) :
    let d := stepClient st (.setDesktopSize id w h ns hook) c
    d.reqChange = reasonOther ∧ d.lastErr = c.lastErr ∧ d.useExt = c.useExt := by
  have hb : (c.id == id) = false := by simpa using hid
  simp only [stepClient, hg, Bool.true_and, bne_iff_ne, ne_eq, hns, not_false_eq_true, decide_true, if_true,
    hb, runHook_fst, hcode, Bool.false_eq_true, if_false]
  obtain ⟨h1, _, h3, h4, _⟩ := hookClient_flags st.scr hook c
  have hdi : (hookClient st.scr hook c).id ≠ id := by rw [hookClient_id]; exact hid
  obtain ⟨_, _, h5, _, _, _, _, _, h9⟩ := afterHook_fields id 0 (hookClient st.scr hook c)
  obtain ⟨h10, _, h12, _⟩ := h9 hdi
  exact ⟨h12 rfl (by rw [h4]; exact ho), by rw [h10, h3], by rw [h5, h1]⟩

/-! ### link to the set-level convergence specification of C02 -/

open VncModel.USpec in
/-- the set-level state a client record denotes (any server framebuffer, any client picture) -/
def toSpec {V : Type} (fb pic : Pix → V) (b : Update.Client) : SState V :=
  { fb := fb, pic := pic, M := fun p => b.M.den p.1 p.2, C := fun p => b.C.den p.1 p.2,
    R := fun p => b.R.den p.1 p.2, d := (b.dx, b.dy) }

/-- the pixels of a `w × h` screen -/
def screenSet (w h : Int) : VncModel.USpec.PSet := fun p => 0 ≤ p.1 ∧ p.1 < w ∧ 0 ≤ p.2 ∧ p.2 < h

open VncModel.USpec Classical in
/-- a non-incremental request covering the screen followed by an (unsliced) update leaves nothing
scheduled on the screen, so — by the invariant — the client's picture is the framebuffer -/
theorem full_request_completes {V : Type} (S : PSet) (s : SState V) (hI : Inv S s) (r : PSet)
    (hr : ∀ p, S p → r p) :
    ∃ t, Reach S s t ∧ (∀ p, S p → t.pic p = t.fb p) ∧ t.fb = s.fb := by
  let s1 : SState V := { s with R := fun p => s.R p ∨ r p, M := fun p => s.M p ∨ (false = false ∧ r p),
                                C := fun p => s.C p ∧ ¬ (false = false ∧ r p) }
  have h1 : Step S s s1 := Step.request s false r
  have h2 := Step.send (S := S) s1 (fun _ => True) (fun _ => False)
  have hI2 := Inv_step S _ _ (Inv_step S s s1 hI h1) h2
  refine ⟨_, Reach.tail (Reach.tail (Reach.refl s) h1) h2, ?_, rfl⟩
  intro p hS
  have hrp : r p := hr p hS
  have hR : s1.R p := Or.inr hrp
  have hM1 : s1.M p := Or.inr ⟨rfl, hrp⟩
  have hM : ¬ ((s1.M p ∨ sendC1 s1 p) ∧ ¬ sendU0 s1 (fun _ => True) p ∧ ¬ sendUC s1 p) := by
    intro hm
    exact hm.2.1 ⟨Or.inl ⟨hM1, trivial⟩, hR, hm.2.2⟩
  exact ((hI2 p hS hM).2 (fun hc => hc)).symm

/-! ### the UNFIXED rfbNewFramebuffer (for the counter-example) -/

/-- rfbNewFramebuffer as in the tree before fixes/C16-newfb-scaled-screens.diff: the scaled versions
(size, format, contents) are not touched -/
def newFbClientUnfixed (s : Screen) (w h bpp : Int) (tok : Nat) (c : Client) : Client :=
  let c1 : Client := if c.scaled then c else { c with sw := w, sh := h, ssrc := tok }
  if !c.base.isOpen then c1 else
  { c1 with
    xlate := if bpp != s.bpp then (bpp, c.fmt) else c.xlate,
    base := { c.base with M := Region.rect 0 0 w h, C := Region.empty, dx := 0, dy := 0 },
    pending := if c.useNewFBSize then true else c.pending }

end VncModel.Resize
