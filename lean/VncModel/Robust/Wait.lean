import VncModel.Robust.Stream
/-!
# Robust/Wait — the loops of `rfbReadExactTimeout` and `rfbWriteExact` with virtual time

`readExact`: `while (len > 0) { n = read(); if (n > 0) {len -= n} else if (n == 0) return 0;
else (EAGAIN) { n = select(timeout); if (n == 0) return -1 /* ETIMEDOUT */ } }`.
The peer is a list of events; the END of the list is a peer that does nothing any more.
Every `select` starts a fresh timeout: a peer that trickles bytes keeps the call busy for one wait
per arrival (stated in `readExact_elapsed_le`), a peer that stops costs exactly one wait
(`readExact_silence`).

`writeStuck`: the retry loop of `rfbWriteExact` against a peer that never drains:
`select(writeRetryMs)`, `totalTimeWaited += writeRetryMs`, give up when `>= timeout`.
-/
namespace VncModel.Robust
open VncModel.Gen.C04

/-- what the peer does next, `delay` ms after the server started to wait -/
inductive PeerEv where
  | data (delay bytes : Nat)     -- `bytes + 1` bytes arrive
  | hangup (delay : Nat)         -- the peer closes or resets the connection
  deriving Repr

inductive RdOutcome where
  | done       -- returns 1
  | gone       -- returns 0 (peer closed)
  | timedOut   -- returns -1, errno = ETIMEDOUT
  deriving DecidableEq, Repr

/-- `rfbReadExactTimeout(cl, buf, len, timeout)`; result and the virtual time it took -/
def readExact (timeout : Nat) : Nat → List PeerEv → Nat → RdOutcome × Nat
  | 0, _, el => (.done, el)
  | _ + 1, [], el => (.timedOut, el + timeout)
  | len + 1, .data d k :: evs, el =>
    if d ≥ timeout then (.timedOut, el + timeout)
    else readExact timeout (len + 1 - min (k + 1) (len + 1)) evs (el + d)
  | _ + 1, .hangup d :: _, el =>
    if d ≥ timeout then (.timedOut, el + timeout) else (.gone, el + d)

/-- once the peer is silent, the call returns after exactly one timeout, with failure -/
theorem readExact_silence (timeout len el : Nat) (h : len > 0) :
    readExact timeout len [] el = (.timedOut, el + timeout) := by
  cases len with
  | zero => omega
  | succ n => rfl

/-- a peer that trickles keeps the call busy for at most one wait per arrival plus one -/
theorem readExact_elapsed_le (timeout len : Nat) (evs : List PeerEv) (el : Nat) :
    (readExact timeout len evs el).2 ≤ el + (evs.length + 1) * timeout := by
  induction evs generalizing len el with
  | nil =>
    cases len with
    | zero => simp [readExact]
    | succ n => simp [readExact]
  | cons e tl ih =>
    cases len with
    | zero => simp only [readExact]; exact Nat.le_add_right _ _
    | succ n =>
      cases e with
      | data d k =>
        simp only [readExact]
        split
        · simp only [List.length_cons]
          have : timeout ≤ (tl.length + 1 + 1) * timeout := Nat.le_mul_of_pos_left _ (by omega)
          omega
        · rename_i hd
          have := ih (n + 1 - min (k + 1) (n + 1)) (el + d)
          simp only [List.length_cons]
          have h2 : (tl.length + 1 + 1) * timeout = (tl.length + 1) * timeout + timeout := by
            rw [Nat.add_mul, Nat.one_mul]
          omega
      | hangup d =>
        simp only [readExact]
        have : timeout ≤ (tl.length + 1 + 1) * timeout := Nat.le_mul_of_pos_left _ (by omega)
        split <;> (simp only [List.length_cons]; omega)

/-- the call never reports success without the requested bytes: `done` needs enough arrivals -/
theorem readExact_done_of_zero (timeout : Nat) (evs : List PeerEv) (el : Nat) :
    readExact timeout 0 evs el = (.done, el) := by
  cases evs <;> rfl

/-- number of `select(retry)` rounds `rfbWriteExact` spends on a peer that never drains,
starting with `totalTimeWaited = waited` -/
def writeStuck (timeout retry : Nat) : Nat → Nat → Nat
  | 0, _ => 0
  | fuel + 1, waited =>
    if waited + retry ≥ timeout then 1 else 1 + writeStuck timeout retry fuel (waited + retry)

theorem writeStuck_eq (timeout retry : Nat) (hr : retry > 0) (fuel waited : Nat)
    (hw : waited < timeout) (hf : timeout - waited ≤ fuel) :
    writeStuck timeout retry fuel waited = (timeout - waited + retry - 1) / retry := by
  induction fuel generalizing waited with
  | zero => omega
  | succ k ih =>
    simp only [writeStuck]
    split
    · rename_i h
      have h1 : timeout - waited + retry - 1 < 2 * retry := by omega
      have h2 : retry ≤ timeout - waited + retry - 1 := by omega
      have : (timeout - waited + retry - 1) / retry = 1 := by
        apply Nat.div_eq_of_lt_le <;> omega
      omega
    · rename_i h
      have h' : waited + retry < timeout := by omega
      rw [ih (waited + retry) h' (by omega)]
      have : timeout - waited + retry - 1 = (timeout - (waited + retry) + retry - 1) + retry := by omega
      rw [this, Nat.add_div_right _ hr]
      omega

/-- against a stuck peer `rfbWriteExact` gives up after `writeRounds` rounds of `writeRetryMs`:
the blocked time is at least the client wait and less than one retry interval more -/
theorem writeRounds_bounds (cfg : Cfg) :
    clientWait cfg ≤ writeRounds cfg * writeRetryMs ∧
    writeRounds cfg * writeRetryMs < clientWait cfg + writeRetryMs := by
  unfold writeRounds
  have hr : writeRetryMs > 0 := by decide
  have h1 := Nat.div_add_mod (clientWait cfg + writeRetryMs - 1) writeRetryMs
  have h2 := Nat.mod_lt (clientWait cfg + writeRetryMs - 1) hr
  have h3 : (clientWait cfg + writeRetryMs - 1) / writeRetryMs * writeRetryMs =
            writeRetryMs * ((clientWait cfg + writeRetryMs - 1) / writeRetryMs) := Nat.mul_comm _ _
  omega

theorem clientWait_pos (cfg : Cfg) : clientWait cfg > 0 := by
  unfold clientWait
  split
  · decide
  · omega

/-- the model's `writeRounds` is the number of rounds of the retry loop -/
theorem writeStuck_is_writeRounds (cfg : Cfg) :
    writeStuck (clientWait cfg) writeRetryMs (clientWait cfg) 0 = writeRounds cfg := by
  have := writeStuck_eq (clientWait cfg) writeRetryMs (by decide) (clientWait cfg) 0 (clientWait_pos cfg) (by omega)
  simpa [writeRounds] using this

end VncModel.Robust
