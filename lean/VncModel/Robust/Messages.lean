import VncModel.Gen.C04
/-!
# Robust/Messages — length / size handling of every client→server message

Model of what `rfbProcessClientMessage` (src/libvncserver/rfbserver.c), the authentication phases
(auth.c, tightvnc-filetransfer/rfbtightserver.c) and the TightVNC file-transfer handlers
(tightvnc-filetransfer/handlefiletransferrequest.c) do with the *sizes* in client input:

* which fixed header is read, which length/count fields are taken from it,
* the guard applied to each field (and the guards that are absent),
* the `malloc`/`calloc`/`realloc` request the field leads to (`Res.alloc`, `Res.allocAlt`),
* whether the handler goes on (`cont`), closes the client (`closed`) or runs out of input in the
  middle of a read (`starved`: `rfbReadExact` fails → the handler closes the client and returns —
  every read in the model returns at the FIRST failed read because running out of input ends the
  pattern match),
* whether the handler writes to the client (needed for peers that stopped reading).

C ↔ model
  one call of rfbProcessClientMessage(cl)         ↔ `handle cfg c input` (one *round*)
  the unread part of the socket buffer            ↔ `Res.rest` (a suffix of the input)
  rfbReadExact(cl, buf, n) on a silent peer       ↔ input shorter than the pattern ⇒ `starved`
  malloc(n)/calloc(n,1)                           ↔ `alloc := n`
  cl->state                                       ↔ `Conn.phase`
  cl->enableExtendedClipboard, tight extension    ↔ `Conn.extClip`, `Conn.tightExt`

The pixel-format channel check models the FIXED code (fixes/C04-pixfmt-validate.diff); the
zero-width scale check is in the tree since 916387d.  `Gen.C04.pixfmtChannelsChecked` and
`Gen.C04.scaleRejectsZeroWidth` (regenerated from the tree on every run) say whether the tree has
them; Props/C04.lean has one `tree_*` theorem per flag, which breaks on a tree without the check.
Core Lean only.
-/
namespace VncModel.Robust
open VncModel.Gen.C04

/-! ## configuration and connection state -/

structure Cfg where
  w : Nat
  h : Nat
  bytespp : Nat          -- 1, 2 or 4 (server pixel size)
  pw : Bool              -- screen has a password
  ft : Bool              -- screen->permitFileTransfer
  tight : Bool           -- TightVNC file-transfer extension registered
  xvp : Bool             -- xvpHook installed
  utf8 : Bool            -- setXCutTextUTF8 installed (extended clipboard available)
  view : Bool            -- clients are view-only
  wait : Nat             -- screen->maxClientWait in ms (0 = use rfbMaxClientWait)
  sdh : Bool := false    -- the application installed a setDesktopSizeHook that is counted
  deriving Repr

inductive Phase where
  | version | secType | auth | init | normal
  deriving DecidableEq, Repr

structure Conn where
  phase : Phase := .version
  minor : Int := 0
  extClip : Bool := false     -- cl->enableExtendedClipboard
  tightExt : Bool := false    -- TightVNC extension enabled for this client (chose security type 16)
  useNewFB : Bool := false    -- cl->useNewFBSize
  scaled : Bool := false      -- client has sent a (successful or not) scale request
  deriving Repr

inductive Outcome where
  | cont      -- handler returned, connection stays open
  | closed    -- handler called rfbCloseClient
  | starved   -- a read ran out of input: the peer is silent (or gone) in the middle of a message
  | unknown   -- outcome depends on something the model does not contain (zlib stream, TLS, WebSocket)
  deriving DecidableEq, Repr

structure Res where
  rest : List UInt8          -- unread input (meaningful when `out = cont`)
  out : Outcome
  alloc : Nat := 0           -- largest allocation request made on behalf of this message
  allocAlt : Nat := 0        -- upper variant when the size also depends on the file system (≥ alloc)
  wrote : Bool := false      -- the handler wrote to the client
  wroteMaybe : Bool := false -- whether it wrote depends on the file system / path translation
  updWrite : Bool := false   -- the message makes the next update non-empty (non-incremental request)
  updReq : Bool := false     -- the message is a FramebufferUpdateRequest
  cbLate : Nat := 0          -- those of `cb` that come after the handler's first write (they do not
                             -- happen when that write fails: the client is closed, the next read fails)
  cb : Nat := 0              -- application callbacks invoked (keyboard, cut text, text chat, single
                             -- window, server input, xvp, desktop size; pointer events are C06's)
  conn : Conn
  deriving Repr

def be16 (a b : UInt8) : Nat := a.toNat * 256 + b.toNat
def be32 (a b c d : UInt8) : Nat := ((a.toNat * 256 + b.toNat) * 256 + c.toNat) * 256 + d.toNat

theorem be16_lt (a b : UInt8) : be16 a b < 65536 := by
  have := a.toNat_lt; have := b.toNat_lt; simp only [be16]; omega
theorem be32_lt (a b c d : UInt8) : be32 a b c d < 4294967296 := by
  have := a.toNat_lt; have := b.toNat_lt; have := c.toNat_lt; have := d.toNat_lt
  simp only [be32]; omega

/-- `rfbReadExact(cl, buf, n)`: the next `n` bytes, or `none` when the peer went silent first -/
def readN (n : Nat) (inp : List UInt8) : Option (List UInt8 × List UInt8) :=
  if n ≤ inp.length then some (inp.take n, inp.drop n) else none

theorem readN_rest {n : Nat} {inp a b : List UInt8} (h : readN n inp = some (a, b)) :
    b = inp.drop n ∧ a.length = n := by
  unfold readN at h
  split at h
  · simp only [Option.some.injEq, Prod.mk.injEq] at h
    obtain ⟨h1, h2⟩ := h
    subst h1 h2
    exact ⟨rfl, by simp; omega⟩
  · cases h

def mkCont (c : Conn) (rest : List UInt8) (alloc : Nat := 0) (wrote : Bool := false) : Res :=
  { rest, out := .cont, alloc, allocAlt := alloc, wrote, conn := c }
def mkClosed (c : Conn) (alloc : Nat := 0) (wrote : Bool := false) : Res :=
  { rest := [], out := .closed, alloc, allocAlt := alloc, wrote, conn := c }
def mkStarved (c : Conn) (alloc : Nat := 0) (wrote : Bool := false) : Res :=
  { rest := [], out := .starved, alloc, allocAlt := alloc, wrote, conn := c }
def mkUnknown (c : Conn) (alloc : Nat := 0) : Res :=
  { rest := [], out := .unknown, alloc, allocAlt := alloc, conn := c }

/-! ## pixel formats (translate.c) -/

structure PixFmt where
  bpp : Nat
  depth : Nat
  be : Bool
  tc : Bool
  rmax : Nat
  gmax : Nat
  bmax : Nat
  rs : Nat
  gs : Nat
  bs : Nat
  deriving DecidableEq, Repr

/-- `rfbInitServerFormat` for the three screens the harness creates (little-endian host) -/
def serverFormat (bytespp : Nat) : PixFmt :=
  if bytespp = 1 then ⟨8, 8, false, true, 7, 7, 3, 0, 3, 6⟩
  else if bytespp = 2 then ⟨16, 16, false, true, 31, 31, 31, 0, 5, 10⟩
  else ⟨32, 32, false, true, 255, 255, 255, 0, 8, 16⟩

def bgr233Format : PixFmt := ⟨8, 8, false, true, 7, 7, 3, 0, 3, 6⟩

/-- `PF_EQ` -/
def pfEq (x y : PixFmt) : Bool :=
  x.bpp == y.bpp && x.depth == y.depth && (x.be == y.be || x.bpp == 8) && (x.tc == y.tc) &&
  (!x.tc || (x.rmax == y.rmax && x.gmax == y.gmax && x.bmax == y.bmax &&
             x.rs == y.rs && x.gs == y.gs && x.bs == y.bs))

/-- `rfbChannelFitsPixel` (fix): the shifted channel maximum fits into the pixel -/
def channelFits (max shift bpp : Nat) : Bool :=
  decide (shift < bpp) && decide (max * 2 ^ shift < 2 ^ bpp)

def validBpp (b : Nat) : Bool := b == 8 || b == 16 || b == 24 || b == 32

inductive XlateResult where
  | rejected                                   -- rfbCloseClient
  | accepted (fmt : PixFmt) (table : Nat) (wroteColourMap : Bool)
  deriving DecidableEq, Repr

def tableBytes (entries outBpp : Nat) : Nat :=
  if outBpp = 24 then entries * 3 + 1 else entries * (outBpp / 8)

/-- the checks of `rfbSetTranslateFunction` that end in `rfbCloseClient` (fixed code):
bits per pixel 8/16/24/32; a colour-map client must be 8 bpp; every true-colour channel fits -/
def formatOk (f : PixFmt) : Bool :=
  validBpp f.bpp && (f.tc || f.bpp == 8) &&
  (!f.tc || (channelFits f.rmax f.rs f.bpp && channelFits f.gmax f.gs f.bpp && channelFits f.bmax f.bs f.bpp))

/-- a colour-map client is switched to BGR233 (`rfbSetClientColourMapBGR233`) -/
def effFormat (f : PixFmt) : PixFmt := if f.tc then f else bgr233Format

/-- size of the lookup table(s) `rfbSetTranslateFunction` allocates -/
def tableSize (srv f' : PixFmt) : Nat :=
  if pfEq f' srv then 0
  else if srv.bpp ≤ 16 then tableBytes (2 ^ srv.bpp) f'.bpp
  else tableBytes (srv.rmax + srv.gmax + srv.bmax + 3) f'.bpp

/-- `rfbSetTranslateFunction` for a client format `f` on a screen with format `srv` (fixed code) -/
def setTranslate (srv f : PixFmt) : XlateResult :=
  if formatOk f then .accepted (effFormat f) (tableSize srv (effFormat f)) (!f.tc) else .rejected

/-! ## rectangle of a FramebufferUpdateRequest: `rectSwapIfLEAndClip` for an unscaled client

`x y w h` are the 16-bit wire values, `W H` the screen size (C `int`).  The C code compares in
`int` and assigns the difference back into a `uint16_t` (wrap-around), then re-checks. -/

def wrap16 (v : Int) : Int := v % 65536

def clipAxis (size : Int) (pos len : Int) : Option Int :=
  let len1 := if len > size - pos then wrap16 (size - pos) else len
  if len1 > size - pos then none else some len1

/-- `some (x, y, w, h)` = rectangle accepted, `none` = request ignored -/
def clipRequest (W H : Int) (x y w h : Int) : Option (Int × Int × Int × Int) :=
  match clipAxis W x w with
  | none => none
  | some w1 =>
    match clipAxis H y h with
    | none => none
    | some h1 => some (x, y, w1, h1)

/-! ## extended clipboard helpers -/

def popcount16 (flags : Nat) : Nat := ((List.range 16).filter (fun i => flags.testBit i)).length

/-! ## message handlers in state RFB_NORMAL (`rfbProcessClientNormalMessage`)

`t` is the message type byte (already read), `inp` what follows. -/

def hSetPixelFormat (cfg : Cfg) (c : Conn) (inp : List UInt8) : Res :=
  match inp with
  | _ :: _ :: _ :: bpp :: depth :: be :: tc :: r1 :: r0 :: g1 :: g0 :: b1 :: b0 :: rs :: gs :: bs ::
      _ :: _ :: _ :: rest =>
    let f : PixFmt := ⟨bpp.toNat, depth.toNat, be != 0, tc != 0, be16 r1 r0, be16 g1 g0, be16 b1 b0,
                       rs.toNat, gs.toNat, bs.toNat⟩
    match setTranslate (serverFormat cfg.bytespp) f with
    | .rejected => mkClosed c
    | .accepted _ table wroteCM => mkCont c rest table wroteCM
  | _ => mkStarved c

def hFixColourMap (c : Conn) (inp : List UInt8) : Res :=
  match inp with
  | _ :: _ :: _ :: _ :: _ :: _ => mkClosed c
  | _ => mkStarved c

/-- pseudo-encoding of the harness application's protocol extension (its enable callback is counted) -/
def appPseudoEncoding : Nat := 0x43303400

/-- the loop `for (i = 0; i < nEncodings; i++) rfbReadExact(cl, &enc, 4)`: stops at the first
failed read.  Returns the remaining input (`none` if the input ran out), the connection flags the
encodings switched on, whether the server answered on the way and the extension callbacks made. -/
def encLoop (cfg : Cfg) : Nat → List UInt8 → Conn → Bool → Nat → Nat → (Option (List UInt8) × Conn × Bool × Nat × Nat)
  | 0, inp, c, w, k, kl => (some inp, c, w, k, kl)
  | n + 1, a :: b :: cc :: d :: rest, c, w, k, kl =>
    let enc := be32 a b cc d
    let c1 := if enc = rfbEncodingExtendedClipboard ∧ cfg.utf8 then { c with extClip := true } else c
    let c2 := if enc = rfbEncodingNewFBSize ∨ enc = rfbEncodingExtDesktopSize then { c1 with useNewFB := true } else c1
    let w1 := w || (enc = rfbEncodingXvp ∧ cfg.xvp) || (enc = rfbEncodingExtendedClipboard ∧ cfg.utf8)
    let hit := if enc = appPseudoEncoding then 1 else 0
    encLoop cfg n rest c2 w1 (k + hit) (if w then kl + hit else kl)
  | _ + 1, _, c, w, k, kl => (none, c, w, k, kl)

def hSetEncodings (cfg : Cfg) (c : Conn) (inp : List UInt8) : Res :=
  match inp with
  | _ :: n1 :: n0 :: rest =>
    -- SetEncodings resets useNewFBSize (not enableExtendedClipboard)
    match encLoop cfg (be16 n1 n0) rest { c with useNewFB := false } false 0 0 with
    | (some rest', c', w, k, kl) => { mkCont c' rest' 0 w with cb := k, cbLate := kl }
    | (none, _, w, k, kl) => { mkStarved c 0 w with cb := k, cbLate := kl }
  | _ => mkStarved c

def hUpdateRequest (cfg : Cfg) (c : Conn) (inp : List UInt8) : Res :=
  match inp with
  | incr :: x1 :: x0 :: y1 :: y0 :: w1 :: w0 :: h1 :: h0 :: rest =>
    let r := clipRequest cfg.w cfg.h (be16 x1 x0) (be16 y1 y0) (be16 w1 w0) (be16 h1 h0)
    let nonEmpty := match r with
      | some (_, _, w, h) => decide (w > 0 ∧ h > 0)
      | none => false
    { mkCont c rest with updWrite := incr == 0 && nonEmpty, updReq := true }
  | _ => mkStarved c

def hFixed (n : Nat) (c : Conn) (inp : List UInt8) (cb : Nat := 0) : Res :=
  match readN n inp with
  | some (_, rest) => { mkCont c rest with cb := cb }
  | none => mkStarved c

/-- `rfbProcessFileTransferReadBuffer`: the guard, the allocation and the read -/
inductive FtBuf where
  | closed                     -- length > INT_MAX
  | empty                      -- length = 0: no buffer, the caller returns FALSE without closing
  | starved (alloc : Nat)      -- malloc(length+1) done, peer silent
  | got (alloc : Nat) (rest : List UInt8)

def ftReadBuffer (length : Nat) (inp : List UInt8) : FtBuf :=
  if length > intMax then .closed
  else if length = 0 then .empty
  else match readN length inp with
    | some (_, rest) => .got (length + 1) rest
    | none => .starved (length + 1)

/-- `strlen(timespec) + 2` of the realloc in the rfbFileTransferRequest branch ("%m/%d/%Y %H:%M") -/
def ftTimespecExtra : Nat := 18

/-- `rfbProcessFileTransfer` (file transfer permitted) -/
def ftBody (c : Conn) (ct param size length : Nat) (rest : List UInt8) : Res :=
  let needsBuf := (ct = rfbDirContentRequest ∧ param = rfbRDirContent) ∨
    ct = rfbFileTransferRequest ∨ ct = rfbFileTransferOffer ∨ ct = rfbFilePacket ∨ ct = rfbCommand
  if needsBuf then
    match ftReadBuffer length rest with
    | .closed => mkClosed c
    | .empty => mkCont c rest
    | .starved a => mkStarved c a
    | .got a rest' =>
      -- whether a reply is written depends on rfbFilenameTranslate2UNIX / the file system
      if ct = rfbFileTransferOffer then
        match readN 4 rest' with      -- sizeHtmp
        | some (_, rest'') => { mkCont c rest'' a with wroteMaybe := true }
        | none => mkStarved c a
      else if ct = rfbFileTransferRequest then
        { mkCont c rest' a with allocAlt := length + ftTimespecExtra, wroteMaybe := true }
      else if ct = rfbFilePacket then mkCont c rest' a false
      else { mkCont c rest' a with wroteMaybe := true }
  else if ct = rfbDirContentRequest ∧ param = rfbRDrivesList then mkCont c rest 0 true
  else if ct = rfbAbortFileTransfer then mkCont c rest 0 true
  else if ct = rfbFileHeader then
    if size = 4294967295 then mkCont c rest else { mkCont c rest with wroteMaybe := true }
  else mkCont c rest

def hFileTransfer (cfg : Cfg) (c : Conn) (inp : List UInt8) : Res :=
  match inp with
  | ctype :: param :: _ :: s3 :: s2 :: s1 :: s0 :: l3 :: l2 :: l1 :: l0 :: rest =>
    if !cfg.ft then mkClosed c           -- FILEXFER_ALLOWED_OR_CLOSE_AND_RETURN
    else ftBody c ctype.toNat param.toNat (be32 s3 s2 s1 s0) (be32 l3 l2 l1 l0) rest
  | _ => mkStarved c

def hSetScale (cfg : Cfg) (c : Conn) (inp : List UInt8) : Res :=
  match inp with
  | scale :: _ :: _ :: rest =>
    if scale.toNat = 0 then mkClosed c
    else
      let w' := cfg.w / scale.toNat
      let h' := cfg.h / scale.toNat
      -- rfbScaledScreenAllocate: rejected when a dimension is 0 (width check = fix)
      let ok := decide (w' ≠ 0 ∧ h' ≠ 0)
      let fb := if ok then ((w' * cfg.bytespp + 3) / 4 * 4) * h' else 0
      let a := if ok then max fb sizeofScreenInfo else sizeofScreenInfo
      -- rfbSendNewScaleSize writes unless the size change is left to a NewFBSize pseudo-rectangle
      let wrote := !(c.useNewFB && ok)
      mkCont { c with scaled := true } rest a wrote
  | _ => mkStarved c

def hTextChat (c : Conn) (inp : List UInt8) : Res :=
  match inp with
  | _ :: _ :: _ :: l3 :: l2 :: l1 :: l0 :: rest =>
    let length := be32 l3 l2 l1 l0
    if length = rfbTextChatOpen ∨ length = rfbTextChatClose ∨ length = rfbTextChatFinished then
      { mkCont c rest with cb := 1 }
    else if 0 < length ∧ length < rfbTextMaxSize then
      match readN length rest with
      | some (_, rest') => { mkCont c rest' length with cb := 1 }
      | none => mkStarved c length
    else mkClosed c
  | _ => mkStarved c

/-- the first four bytes of an extended clipboard message -/
def flagsOf : List UInt8 → Option Nat
  | a :: b :: c :: d :: _ => some (be32 a b c d)
  | _ => none

/-- `calloc(length ? length : 1, 1)` -/
def cutAlloc (length : Nat) : Nat := if length = 0 then 1 else length

/-- the extended-clipboard branch once the `length` bytes (starting with the flags word) are read -/
def extClipAction (c : Conn) (flags length a : Nat) (rest' : List UInt8) : Res :=
  if flags.testBit 24 then                           -- Caps
    let formats := popcount16 flags
    if formats = 0 then mkCont { c with extClip := false } rest' a
    else if length ≠ 4 + formats * 4 then mkClosed c a
    else if flags.testBit 0 then mkCont c rest' a
    else mkCont { c with extClip := false } rest' a
  -- Request / Peek: answered when the application has published clipboard data
  else if flags.testBit 25 then { mkCont c rest' a with wroteMaybe := true }
  else if flags.testBit 26 then { mkCont c rest' a with wroteMaybe := true }
  else if flags.testBit 28 then                       -- Provide: depends on the zlib stream
    if flags % 65536 = 0 then mkCont c rest' a        -- no format bit: the loop body never runs
    else mkUnknown c (max a extClipMax)
  else mkCont c rest' a

/-- ClientCutText after the 8-byte header: `ext` = extended format (negative length), `length` =
the (negated) length field -/
def cutBody (c : Conn) (ext : Bool) (length : Nat) (rest : List UInt8) (view : Bool := false) : Res :=
  if length > cutTextMax then mkClosed c
  else match readN length rest with
    | none => mkStarved c (cutAlloc length)
    | some (str, rest') =>
      if !ext then { mkCont c rest' (cutAlloc length) with cb := if view then 0 else 1 }
      else match flagsOf str with
        | none => mkClosed c (cutAlloc length)           -- length < 4
        | some flags => extClipAction c flags length (cutAlloc length) rest'

def hCutText (c : Conn) (inp : List UInt8) (view : Bool := false) : Res :=
  match inp with
  | _ :: _ :: _ :: l3 :: l2 :: l1 :: l0 :: rest =>
    let raw := be32 l3 l2 l1 l0
    -- a length with the top bit set means "extended format, -length bytes" once the extension is on
    if c.extClip && decide (raw ≥ 2147483648) then cutBody c true ((4294967296 - raw) % 4294967296) rest view
    else cutBody c false raw rest view
  | _ => mkStarved c

def hXvp (cfg : Cfg) (c : Conn) (inp : List UInt8) : Res :=
  match inp with
  | _ :: version :: code :: rest =>
    let wrote := version.toNat != 1 || (cfg.xvp && code.toNat % 2 == 0)
    { mkCont c rest 0 wrote with cb := if version.toNat = 1 ∧ cfg.xvp then 1 else 0 }
  | _ => mkStarved c

def hSetDesktopSize (c : Conn) (inp : List UInt8) (hook : Bool := false) : Res :=
  match inp with
  | _ :: _ :: _ :: _ :: _ :: n :: _ :: rest =>
    if n.toNat = 0 then mkCont c rest
    else
      let a := n.toNat * sz_rfbExtDesktopScreen
      match readN a rest with
      | some (_, rest') => { mkCont c rest' a with cb := if hook then 1 else 0 }
      | none => mkStarved c a
  | _ => mkStarved c

/-! ### TightVNC file-transfer extension (handlefiletransferrequest.c) -/

/-- `HandleFileDownloadLengthError` / `HandleFileUploadLengthError` (size is an `unsigned short`
since 241d6b1): `calloc(size)`, the over-long name is read and dropped, an error reply is sent -/
def tLengthError (c : Conn) (size : Nat) (rest : List UInt8) : Res :=
  match readN size rest with
  | some (_, rest') => { mkCont c rest' size with wroteMaybe := true }
  | none => mkStarved c size

def hTight (cfg : Cfg) (c : Conn) (t : Nat) (inp : List UInt8) : Res :=
  if cfg.view then mkClosed c       -- handleMessage: file transfer disabled or view-only client
  else if t = rfbFileListRequest then
    match inp with
    | _ :: n1 :: n0 :: rest =>
      let size := be16 n1 n0
      if size = 0 ∨ size > pathMax - 1 then mkCont c rest
      else match readN size rest with
        | some (_, rest') => { mkCont c rest' with wroteMaybe := true }
        | none => mkStarved c
    | _ => mkStarved c
  else if t = rfbFileDownloadRequest ∨ t = rfbFileUploadRequest then
    match inp with
    | _ :: n1 :: n0 :: _ :: _ :: _ :: _ :: rest =>
      let size := be16 n1 n0
      if size = 0 ∨ size > pathMax - 1 then tLengthError c size rest
      else match readN size rest with
        | some (_, rest') => { mkCont c rest' with wroteMaybe := true }
        | none => mkStarved c
    | _ => mkStarved c
  else if t = rfbFileUploadData then
    match inp with
    | _ :: r1 :: r0 :: c1 :: c0 :: rest =>
      let real := be16 r1 r0
      let comp := be16 c1 c0
      if real = 0 ∧ comp = 0 then
        match readN 4 rest with
        | some (_, rest') => { mkCont c rest' with wroteMaybe := true }
        | none => mkStarved c
      else match readN comp rest with
        | some (_, rest') => { mkCont c rest' comp with wroteMaybe := true }
        | none => mkStarved c comp
    | _ => mkStarved c
  else if t = rfbFileDownloadCancel ∨ t = rfbFileUploadFailed then
    match inp with
    | _ :: n1 :: n0 :: rest =>
      let len := be16 n1 n0
      if len = 0 then mkCont c rest
      else match readN len rest with
        | some (_, rest') => mkCont c rest' (len + 1)
        | none => mkStarved c (len + 1)
    | _ => mkStarved c
  else if t = rfbFileCreateDirRequest then
    match inp with
    | _ :: n1 :: n0 :: rest =>
      let len := be16 n1 n0
      if len ≥ pathMax - 1 then mkClosed c
      else match readN len rest with
        | some (_, rest') => { mkCont c rest' with wroteMaybe := true }
        | none => mkStarved c
    | _ => mkStarved c
  else mkClosed c

def isTightType (t : Nat) : Bool :=
  t == rfbFileListRequest || t == rfbFileDownloadRequest || t == rfbFileUploadRequest ||
  t == rfbFileUploadData || t == rfbFileDownloadCancel || t == rfbFileUploadFailed ||
  t == rfbFileCreateDirRequest

/-- the `switch (msg.type)` of `rfbProcessClientNormalMessage` (+ the extension dispatch in `default:`) -/
inductive Kind where
  | setPixelFormat | fixColourMap | setEncodings | updateRequest | key | pointer | cutText
  | fileTransfer | scale | serverInput | setSW | textChat | xvp | desktopSize | tight | unknown
  deriving DecidableEq, Repr

def kindOf (c : Conn) (t : Nat) : Kind :=
  if t = rfbSetPixelFormat then .setPixelFormat
  else if t = rfbFixColourMapEntries then .fixColourMap
  else if t = rfbSetEncodings then .setEncodings
  else if t = rfbFramebufferUpdateRequest then .updateRequest
  else if t = rfbKeyEvent then .key
  else if t = rfbPointerEvent then .pointer
  else if t = rfbClientCutText then .cutText
  else if t = rfbFileTransfer then .fileTransfer
  else if t = rfbSetScale ∨ t = rfbPalmVNCSetScaleFactor then .scale
  else if t = rfbSetServerInput then .serverInput
  else if t = rfbSetSW then .setSW
  else if t = rfbTextChat then .textChat
  else if t = rfbXvp then .xvp
  else if t = rfbSetDesktopSize then .desktopSize
  else if c.tightExt && isTightType t then .tight
  else .unknown

/-- `rfbProcessClientNormalMessage` after the type byte -/
def handleNormal (cfg : Cfg) (c : Conn) (t : Nat) (inp : List UInt8) : Res :=
  match kindOf c t with
  | .setPixelFormat => hSetPixelFormat cfg c inp
  | .fixColourMap => hFixColourMap c inp
  | .setEncodings => hSetEncodings cfg c inp
  | .updateRequest => hUpdateRequest cfg c inp
  | .key => hFixed (sz_rfbKeyEventMsg - 1) c inp (if cfg.view then 0 else 1)
  | .pointer => hFixed (sz_rfbPointerEventMsg - 1) c inp
  | .cutText => hCutText c inp cfg.view
  | .fileTransfer => hFileTransfer cfg c inp
  | .scale => hSetScale cfg c inp
  | .serverInput => hFixed (sz_rfbSetServerInputMsg - 1) c inp 1
  | .setSW => hFixed (sz_rfbSetSWMsg - 1) c inp 1
  | .textChat => hTextChat c inp
  | .xvp => hXvp cfg c inp
  | .desktopSize => hSetDesktopSize c inp cfg.sdh
  | .tight => hTight cfg c t inp
  | .unknown => mkClosed c                     -- unknown message type

/-! ## the phases before RFB_NORMAL -/

def isSpace (b : UInt8) : Bool := b == 32 || (9 ≤ b.toNat && b.toNat ≤ 13)
def isDigit (b : UInt8) : Bool := 48 ≤ b.toNat && b.toNat ≤ 57

def skipWs : List UInt8 → List UInt8
  | b :: rest => if isSpace b then skipWs rest else b :: rest
  | [] => []

def scanDigits : Nat → List UInt8 → Nat → Nat → (Nat × Nat × List UInt8)
  | 0, l, acc, cnt => (acc, cnt, l)
  | w + 1, b :: rest, acc, cnt =>
    if isDigit b then scanDigits w rest (acc * 10 + (b.toNat - 48)) (cnt + 1) else (acc, cnt, b :: rest)
  | _ + 1, [], acc, cnt => (acc, cnt, [])

/-- `%03d` of sscanf: skip white space, optional sign (counts towards the width), at least one digit -/
def scanInt3 (l : List UInt8) : Option (Int × List UInt8) :=
  match skipWs l with
  | [] => none
  | b :: rest =>
    let (neg, w, l1) := if b = 45 then (true, 2, rest) else if b = 43 then (false, 2, rest) else (false, 3, b :: rest)
    let (v, cnt, l2) := scanDigits w l1 0 0
    if cnt = 0 then none else some (if neg then -(v : Int) else (v : Int), l2)

/-- the C string in `pv`: stops at the first NUL -/
def cstr : List UInt8 → List UInt8
  | b :: rest => if b = 0 then [] else b :: cstr rest
  | [] => []

/-- `sscanf(pv, "RFB %03d.%03d\n", &major, &minor) == 2` -/
def parseVersion (pv : List UInt8) : Option (Int × Int) :=
  match cstr pv with
  | 82 :: 70 :: 66 :: rest =>
    match scanInt3 rest with         -- the blank in the format skips white space; so does %d
    | none => none
    | some (major, l1) =>
      match l1 with
      | 46 :: l2 =>
        match scanInt3 l2 with
        | none => none
        | some (minor, _) => some (major, minor)
      | _ => none
  | _ => none

/-- the `auth` response op of the harness (abstract: the DES computation is C05's subject) -/
inductive AuthKind where
  | ok | bad | short
  deriving DecidableEq, Repr

/-- state after `rfbProcessClientInitMessage` has written ServerInit (screens are always-shared) -/
def enterNormal (c : Conn) (rest : List UInt8) : Res :=
  mkCont { c with phase := .normal } rest 0 true

/-- one call of `rfbProcessClientMessage(cl)` on the unread input `inp` (non-empty) -/
def handle (cfg : Cfg) (c : Conn) (inp : List UInt8) : Res :=
  match c.phase with
  | .version =>
    match readN sz_rfbProtocolVersionMsg inp with
    | none => mkStarved c
    | some (pv, rest) =>
      match parseVersion pv with
      | none => mkClosed c
      | some (major, minor) =>
        if major ≠ rfbProtocolMajorVersion then mkClosed c
        else
          let c1 := { c with minor := minor }
          if minor < 7 then
            -- rfbSendSecurityType: 3.3 clients are told the type
            if cfg.pw then mkCont { c1 with phase := .auth } rest 0 true
            else mkCont { c1 with phase := .init } rest 0 true
          else mkCont { c1 with phase := .secType } rest 0 true
  | .secType =>
    match inp with
    | [] => mkStarved c
    | b :: rest =>
      let t := b.toNat
      if t = rfbSecTypeNone ∧ !cfg.pw then
        if c.minor = 889 then enterNormal c rest       -- RFB_INITIALISATION_SHARED: no ClientInit read
        else mkCont { c with phase := .init } rest 0 (decide (c.minor > 7))
      else if t = rfbSecTypeVncAuth ∧ cfg.pw then mkCont { c with phase := .auth } rest 0 true
      else if t = rfbSecTypeTight ∧ cfg.tight then
        let c1 := { c with tightExt := true }
        if cfg.pw then
          -- rfbSendAuthCaps → rfbProcessClientAuthType → rfbVncAuthSendChallenge →
          -- rfbAuthProcessClientMessage, all inside this call
          match rest with
          | a3 :: a2 :: a1 :: a0 :: rest1 =>
            if be32 a3 a2 a1 a0 ≠ rfbAuthVNC then mkClosed c1 0 true
            else match readN CHALLENGESIZE rest1 with
              | some _ => mkClosed c1 0 true      -- bytes sent before the challenge exists are wrong
              | none => mkStarved c1 0 true
          | _ => mkStarved c1 0 true
        else mkCont { c1 with phase := .init } rest 0 true
      else mkClosed c
  | .auth =>
    match readN CHALLENGESIZE inp with
    | none => mkStarved c
    | some _ => mkClosed c 0 true                -- a scripted (not computed) response is wrong
  | .init =>
    match inp with
    | [] => mkStarved c
    | _ :: rest => enterNormal c rest
  | .normal =>
    match inp with
    | [] => mkStarved c
    | t :: rest => handleNormal cfg c t.toNat rest

/-- the scripted VNC-auth response (harness op `auth`) -/
def handleAuth (c : Conn) (k : AuthKind) : Res :=
  match k with
  | .ok => mkCont { c with phase := .init } [] 0 true
  | .bad => mkClosed c 0 true
  | .short => mkStarved c

end VncModel.Robust
