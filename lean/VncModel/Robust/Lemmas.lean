import VncModel.Robust.Stream
/-!
# Robust/Lemmas — per-handler facts used by Props/C04.lean

For every handler: the allocation request is bounded by an explicit constant, `alloc ≤ allocAlt`,
and a handler that goes on has consumed input (its `rest` is no longer than what it was given).
-/
namespace VncModel.Robust
open VncModel.Gen.C04

/-- `B` bounds the allocation, `n` bounds the unread rest of a handler that continues -/
def Good (B n : Nat) (r : Res) : Prop :=
  r.alloc ≤ r.allocAlt ∧ r.allocAlt ≤ B ∧ (r.out = .cont → r.rest.length ≤ n)

theorem Good.mono {B B' n n' : Nat} {r : Res} (h : Good B n r) (hB : B ≤ B') (hn : n ≤ n') :
    Good B' n' r := by
  obtain ⟨h1, h2, h3⟩ := h
  exact ⟨h1, Nat.le_trans h2 hB, fun hc => Nat.le_trans (h3 hc) hn⟩

theorem readN_len {n : Nat} {inp a b : List UInt8} (h : readN n inp = some (a, b)) :
    b.length + n = inp.length := by
  unfold readN at h
  split at h
  · simp only [Option.some.injEq, Prod.mk.injEq] at h
    obtain ⟨_, h2⟩ := h
    subst h2
    simp; omega
  · cases h

theorem readN_le {n : Nat} {inp a b : List UInt8} (h : readN n inp = some (a, b)) :
    b.length ≤ inp.length := by
  have := readN_len h; omega

theorem good_hFixed (k : Nat) (c : Conn) (inp : List UInt8) (cb : Nat) : Good 0 inp.length (hFixed k c inp cb) := by
  unfold hFixed
  split
  · rename_i a rest h
    have := readN_le h
    simp [Good, mkCont]; omega
  · simp [Good, mkStarved]

theorem good_hFixColourMap (c : Conn) (inp : List UInt8) : Good 0 inp.length (hFixColourMap c inp) := by
  unfold hFixColourMap
  split <;> simp [Good, mkClosed, mkStarved]


/-! ### SetPixelFormat: the table is sized by the SERVER format -/

theorem tableBytes_le (entries outBpp : Nat) (h : outBpp ≤ 32) :
    tableBytes entries outBpp ≤ entries * 4 + 1 := by
  unfold tableBytes
  split
  · omega
  · have : outBpp / 8 ≤ 4 := by omega
    have := Nat.mul_le_mul_left entries this
    omega

theorem validBpp_le {b : Nat} (h : validBpp b = true) : b ≤ 32 ∧ 8 ≤ b := by
  simp only [validBpp, Bool.or_eq_true, beq_iff_eq] at h
  omega

theorem effFormat_bpp {f : PixFmt} (h : formatOk f = true) : (effFormat f).bpp ≤ 32 := by
  unfold effFormat
  split
  · simp only [formatOk, Bool.and_eq_true] at h
    exact (validBpp_le h.1.1).1
  · simp [bgr233Format]

/-- table size for the three server formats of the harness: at most 2^16 entries of 4 bytes (+1) -/
def tableMax : Nat := 65536 * 4 + 1

theorem serverFormat_cases (bytespp : Nat) :
    serverFormat bytespp = ⟨8, 8, false, true, 7, 7, 3, 0, 3, 6⟩ ∨
    serverFormat bytespp = ⟨16, 16, false, true, 31, 31, 31, 0, 5, 10⟩ ∨
    serverFormat bytespp = ⟨32, 32, false, true, 255, 255, 255, 0, 8, 16⟩ := by
  unfold serverFormat
  split
  · exact Or.inl rfl
  · split
    · exact Or.inr (Or.inl rfl)
    · exact Or.inr (Or.inr rfl)

theorem tableSize_le (bytespp : Nat) (f' : PixFmt) (hb : f'.bpp ≤ 32) :
    tableSize (serverFormat bytespp) f' ≤ tableMax := by
  unfold tableSize
  split
  · simp [tableMax]
  · rcases serverFormat_cases bytespp with h | h | h <;> rw [h] <;> simp only [tableMax]
    · have := tableBytes_le 256 f'.bpp hb
      simp; omega
    · have := tableBytes_le 65536 f'.bpp hb
      simp; omega
    · have := tableBytes_le 768 f'.bpp hb
      simp; omega

theorem setTranslate_table_le (bytespp : Nat) {f f' : PixFmt} {t : Nat} {w : Bool}
    (h : setTranslate (serverFormat bytespp) f = .accepted f' t w) : t ≤ tableMax := by
  unfold setTranslate at h
  split at h
  · rename_i hok
    cases h
    exact tableSize_le bytespp _ (effFormat_bpp hok)
  · cases h

theorem good_hSetPixelFormat (cfg : Cfg) (c : Conn) (inp : List UInt8) :
    Good tableMax inp.length (hSetPixelFormat cfg c inp) := by
  unfold hSetPixelFormat
  split
  · simp only []
    split
    · simp [Good, mkClosed]
    · rename_i h
      have := setTranslate_table_le _ h
      simp [Good, mkCont]; omega
  · simp [Good, mkStarved]


/-! ### SetEncodings: the encodings are read one by one; no allocation depends on the count -/

theorem encLoop_rest (cfg : Cfg) (n : Nat) (inp : List UInt8) (c : Conn) (w : Bool) (k kl : Nat)
    {rest : List UInt8} {c' : Conn} {w' : Bool} {k' kl' : Nat}
    (h : encLoop cfg n inp c w k kl = (some rest, c', w', k', kl')) : rest.length + 4 * n = inp.length := by
  induction n generalizing inp c w k kl with
  | zero => simp only [encLoop, Prod.mk.injEq, Option.some.injEq] at h; simp [h.1]
  | succ m ih =>
    match inp with
    | a :: b :: cc :: d :: tl =>
      simp only [encLoop] at h
      have := ih _ _ _ _ _ h
      simp only [List.length_cons]; omega
    | [] => simp [encLoop] at h
    | [_] => simp [encLoop] at h
    | [_, _] => simp [encLoop] at h
    | [_, _, _] => simp [encLoop] at h

theorem good_hSetEncodings (cfg : Cfg) (c : Conn) (inp : List UInt8) :
    Good 0 inp.length (hSetEncodings cfg c inp) := by
  unfold hSetEncodings
  split
  · split
    · rename_i h
      have := encLoop_rest _ _ _ _ _ _ _ h
      simp [Good, mkCont]; omega
    · simp [Good, mkStarved]
  · simp [Good, mkStarved]

theorem good_hUpdateRequest (cfg : Cfg) (c : Conn) (inp : List UInt8) :
    Good 0 inp.length (hUpdateRequest cfg c inp) := by
  unfold hUpdateRequest
  split
  · simp [Good, mkCont]; omega
  · simp [Good, mkStarved]

/-! ### file transfer -/

/-- the largest request the UltraVNC file-transfer code makes: `realloc(length + 18)`, length ≤ INT_MAX -/
def ftMax : Nat := intMax + ftTimespecExtra

theorem ftReadBuffer_spec (length : Nat) (inp : List UInt8) :
    match ftReadBuffer length inp with
    | .closed => length > intMax
    | .empty => length = 0
    | .starved a => a = length + 1 ∧ length ≤ intMax
    | .got a rest => a = length + 1 ∧ length ≤ intMax ∧ rest.length ≤ inp.length := by
  by_cases h1 : length > intMax
  · simp [ftReadBuffer, h1]
  · by_cases h2 : length = 0
    · simp [ftReadBuffer, h2]
    · cases h3 : readN length inp with
      | none => simp [ftReadBuffer, h1, h2, h3]; omega
      | some p =>
        obtain ⟨a, b⟩ := p
        have := readN_le h3
        simp [ftReadBuffer, h1, h2, h3]; omega

theorem good_ftBody (c : Conn) (ct param size length : Nat) (rest : List UInt8) :
    Good ftMax rest.length (ftBody c ct param size length rest) := by
  unfold ftBody
  simp only []
  split
  · have hs := ftReadBuffer_spec length rest
    split
    · simp [Good, mkClosed]
    · simp [Good, mkCont]
    · rename_i h; rw [h] at hs
      simp [Good, mkStarved, ftMax, ftTimespecExtra]; omega
    · rename_i h; rw [h] at hs
      obtain ⟨ha, hl, hr⟩ := hs
      split
      · split
        · rename_i h4
          have := readN_le h4
          simp [Good, mkCont, ftMax, ftTimespecExtra]; omega
        · simp [Good, mkStarved, ftMax, ftTimespecExtra]; omega
      · split
        · simp [Good, mkCont, ftMax, ftTimespecExtra]; omega
        · split <;> (simp [Good, mkCont, ftMax, ftTimespecExtra]; omega)
  · split
    · simp [Good, mkCont]
    · split
      · simp [Good, mkCont]
      · split
        · split <;> simp [Good, mkCont]
        · simp [Good, mkCont]

theorem good_hFileTransfer (cfg : Cfg) (c : Conn) (inp : List UInt8) :
    Good ftMax inp.length (hFileTransfer cfg c inp) := by
  unfold hFileTransfer
  split
  · split
    · simp [Good, mkClosed]
    · rename_i rest _
      exact (good_ftBody c _ _ _ _ rest).mono (Nat.le_refl _) (by simp only [List.length_cons]; omega)
  · simp [Good, mkStarved]

/-- with file transfer not permitted the header is read and the client is closed: nothing is allocated,
the length field is never used -/
theorem hFileTransfer_denied (cfg : Cfg) (c : Conn) (inp : List UInt8) (h : cfg.ft = false) :
    (hFileTransfer cfg c inp).alloc = 0 ∧ (hFileTransfer cfg c inp).allocAlt = 0 ∧
    (hFileTransfer cfg c inp).out ≠ .cont := by
  unfold hFileTransfer
  split
  · simp [h, mkClosed]
  · simp [mkStarved]


/-! ### SetScale -/

/-- bytes of a `w`×`h` framebuffer with rows padded to 4 bytes -/
def fbBytes (w h bytespp : Nat) : Nat := ((w * bytespp + 3) / 4 * 4) * h

theorem fbBytes_mono {w w' h h' b : Nat} (hw : w' ≤ w) (hh : h' ≤ h) : fbBytes w' h' b ≤ fbBytes w h b := by
  unfold fbBytes
  have h1 : w' * b ≤ w * b := Nat.mul_le_mul_right b hw
  have h2 : (w' * b + 3) / 4 ≤ (w * b + 3) / 4 := Nat.div_le_div_right (by omega)
  have h3 : (w' * b + 3) / 4 * 4 ≤ (w * b + 3) / 4 * 4 := Nat.mul_le_mul_right 4 h2
  exact Nat.mul_le_mul h3 hh

/-- what a scale request may allocate: a scaled copy of the framebuffer (never larger than the
framebuffer itself) or the screen record -/
def scaleMax (cfg : Cfg) : Nat := max (fbBytes cfg.w cfg.h cfg.bytespp) sizeofScreenInfo

theorem good_hSetScale (cfg : Cfg) (c : Conn) (inp : List UInt8) :
    Good (scaleMax cfg) inp.length (hSetScale cfg c inp) := by
  unfold hSetScale
  split
  · split
    · simp [Good, mkClosed]
    · rename_i scale _ _ rest hs
      have hw : cfg.w / scale.toNat ≤ cfg.w := Nat.div_le_self _ _
      have hh : cfg.h / scale.toNat ≤ cfg.h := Nat.div_le_self _ _
      have := fbBytes_mono (b := cfg.bytespp) hw hh
      simp only [Good, mkCont, scaleMax, fbBytes] at *
      refine ⟨Nat.le_refl _, ?_, fun _ => by simp only [List.length_cons]; omega⟩
      split <;> omega
  · simp [Good, mkStarved]

/-- scale factor 0 is refused before anything is computed from it -/
theorem hSetScale_zero (cfg : Cfg) (c : Conn) (p1 p2 : UInt8) (rest : List UInt8) :
    (hSetScale cfg c (0 :: p1 :: p2 :: rest)).out = .closed := by
  simp [hSetScale, mkClosed]

/-! ### TextChat, ClientCutText, xvp, SetDesktopSize -/

theorem good_hTextChat (c : Conn) (inp : List UInt8) :
    Good (rfbTextMaxSize - 1) inp.length (hTextChat c inp) := by
  unfold hTextChat
  split
  · simp only []
    split
    · simp [Good, mkCont]; omega
    · split
      · rename_i hlen
        split
        · rename_i h
          have := readN_le h
          simp [Good, mkCont]; omega
        · simp [Good, mkStarved]; omega
      · simp [Good, mkClosed]
  · simp [Good, mkStarved]

/-- bound for everything a ClientCutText message (classic or extended) can make the server allocate -/
def cutMax : Nat := max cutTextMax extClipMax

theorem cutAlloc_le {length : Nat} (h : length ≤ cutTextMax) : cutAlloc length ≤ cutMax := by
  have h1 : cutTextMax ≤ cutMax := Nat.le_max_left _ _
  have h2 : 1 ≤ cutTextMax := by decide
  unfold cutAlloc
  split <;> omega

theorem good_extClipAction (c : Conn) (flags length a n : Nat) (rest' : List UInt8)
    (ha : a ≤ cutMax) (hn : rest'.length ≤ n) : Good cutMax n (extClipAction c flags length a rest') := by
  have he : extClipMax ≤ cutMax := Nat.le_max_right _ _
  unfold extClipAction
  split
  · simp only []
    split
    · simp [Good, mkCont]; exact ⟨ha, hn⟩
    · split
      · simp [Good, mkClosed]; exact ha
      · split <;> (simp [Good, mkCont]; exact ⟨ha, hn⟩)
  · split
    · simp [Good, mkCont]; exact ⟨ha, hn⟩
    · split
      · simp [Good, mkCont]; exact ⟨ha, hn⟩
      · split
        · split
          · simp [Good, mkCont]; exact ⟨ha, hn⟩
          · simp only [Good, mkUnknown]
            exact ⟨Nat.le_refl _, Nat.max_le.mpr ⟨ha, he⟩, fun h => by cases h⟩
        · simp [Good, mkCont]; exact ⟨ha, hn⟩

theorem good_cutBody (c : Conn) (ext : Bool) (length : Nat) (rest : List UInt8) (view : Bool) :
    Good cutMax rest.length (cutBody c ext length rest view) := by
  unfold cutBody
  split
  · simp [Good, mkClosed]
  · rename_i hle
    have hA := cutAlloc_le (Nat.le_of_not_gt hle)
    split
    · simp [Good, mkStarved]; exact hA
    · rename_i str rest' h
      have hr := readN_le h
      split
      · simp [Good, mkCont]; exact ⟨hA, hr⟩
      · split
        · simp [Good, mkClosed]; exact hA
        · exact good_extClipAction c _ _ _ _ rest' hA hr

theorem good_hCutText (c : Conn) (inp : List UInt8) (view : Bool) : Good cutMax inp.length (hCutText c inp view) := by
  unfold hCutText
  split
  · rename_i rest
    simp only []
    split <;> exact (good_cutBody c _ _ rest view).mono (Nat.le_refl _) (by simp only [List.length_cons]; omega)
  · simp [Good, mkStarved]

theorem good_hXvp (cfg : Cfg) (c : Conn) (inp : List UInt8) : Good 0 inp.length (hXvp cfg c inp) := by
  unfold hXvp
  split
  · simp [Good, mkCont]; omega
  · simp [Good, mkStarved]

/-- `numberOfScreens` is one byte -/
def sdsMax : Nat := 255 * sz_rfbExtDesktopScreen

theorem good_hSetDesktopSize (c : Conn) (inp : List UInt8) (hook : Bool) : Good sdsMax inp.length (hSetDesktopSize c inp hook) := by
  unfold hSetDesktopSize
  split
  · rename_i n _ rest
    have hn : n.toNat * sz_rfbExtDesktopScreen ≤ sdsMax := by
      have := n.toNat_lt
      simp only [sdsMax, sz_rfbExtDesktopScreen]; omega
    split
    · simp [Good, mkCont]; omega
    · simp only []
      split
      · rename_i h
        have := readN_le h
        simp [Good, mkCont]; exact ⟨hn, by omega⟩
      · simp [Good, mkStarved]; exact hn
  · simp [Good, mkStarved]


/-! ### TightVNC file-transfer extension: every size is a 16-bit field -/

def tightMax : Nat := 65536

theorem good_tLengthError (c : Conn) (size : Nat) (rest : List UInt8) (hs : size < 65536) :
    Good tightMax rest.length (tLengthError c size rest) := by
  unfold tLengthError
  split
  · rename_i h
    have := readN_le h
    simp [Good, mkCont, tightMax]; omega
  · simp [Good, mkStarved, tightMax]; omega

theorem good_hTight (cfg : Cfg) (c : Conn) (t : Nat) (inp : List UInt8) :
    Good tightMax inp.length (hTight cfg c t inp) := by
  unfold hTight
  split
  · simp [Good, mkClosed]
  · split
    · split
      · rename_i n1 n0 rest
        simp only []
        split
        · simp [Good, mkCont]; omega
        · split
          · rename_i h
            have := readN_le h
            simp [Good, mkCont]; omega
          · simp [Good, mkStarved]
      · simp [Good, mkStarved]
    · split
      · split
        · rename_i n1 n0 _ _ _ _ rest
          simp only []
          split
          · exact (good_tLengthError c _ rest (be16_lt n1 n0)).mono (Nat.le_refl _)
              (by simp only [List.length_cons]; omega)
          · split
            · rename_i h
              have := readN_le h
              simp [Good, mkCont]; omega
            · simp [Good, mkStarved]
        · simp [Good, mkStarved]
      · split
        · split
          · rename_i r1 r0 c1 c0 rest
            have hc := be16_lt c1 c0
            simp only []
            split
            · split
              · rename_i h
                have := readN_le h
                simp [Good, mkCont]; omega
              · simp [Good, mkStarved]
            · split
              · rename_i h
                have := readN_le h
                simp [Good, mkCont, tightMax]; omega
              · simp [Good, mkStarved, tightMax]; omega
          · simp [Good, mkStarved]
        · split
          · split
            · rename_i n1 n0 rest
              have hc := be16_lt n1 n0
              simp only []
              split
              · simp [Good, mkCont]; omega
              · split
                · rename_i h
                  have := readN_le h
                  simp [Good, mkCont, tightMax]; omega
                · simp [Good, mkStarved, tightMax]; omega
            · simp [Good, mkStarved]
          · split
            · split
              · simp only []
                split
                · simp [Good, mkClosed]
                · split
                  · rename_i h
                    have := readN_le h
                    simp [Good, mkCont]; omega
                  · simp [Good, mkStarved]
              · simp [Good, mkStarved]
            · simp [Good, mkClosed]

/-! ### all messages of state RFB_NORMAL -/

/-- bound for one message when file transfer is NOT permitted -/
def msgMax (cfg : Cfg) : Nat := max (max cutMax tableMax) (max (scaleMax cfg) (max sdsMax (max tightMax rfbTextMaxSize)))

/-- bound for one message when file transfer is permitted -/
def msgMaxFt (cfg : Cfg) : Nat := max (msgMax cfg) ftMax

theorem good_handleNormal (cfg : Cfg) (c : Conn) (t : Nat) (inp : List UInt8) :
    Good (msgMaxFt cfg) inp.length (handleNormal cfg c t inp) := by
  have e1 : (0 : Nat) ≤ msgMaxFt cfg := Nat.zero_le _
  have e2 : tableMax ≤ msgMaxFt cfg := by simp only [msgMaxFt, msgMax]; omega
  have e3 : cutMax ≤ msgMaxFt cfg := by simp only [msgMaxFt, msgMax]; omega
  have e4 : ftMax ≤ msgMaxFt cfg := by simp only [msgMaxFt, msgMax]; omega
  have e5 : scaleMax cfg ≤ msgMaxFt cfg := by simp only [msgMaxFt, msgMax]; omega
  have e6 : rfbTextMaxSize - 1 ≤ msgMaxFt cfg := by simp only [msgMaxFt, msgMax]; omega
  have e7 : sdsMax ≤ msgMaxFt cfg := by simp only [msgMaxFt, msgMax]; omega
  have e8 : tightMax ≤ msgMaxFt cfg := by simp only [msgMaxFt, msgMax]; omega
  unfold handleNormal
  cases kindOf c t <;> simp only []
  · exact (good_hSetPixelFormat cfg c inp).mono e2 (Nat.le_refl _)
  · exact (good_hFixColourMap c inp).mono e1 (Nat.le_refl _)
  · exact (good_hSetEncodings cfg c inp).mono e1 (Nat.le_refl _)
  · exact (good_hUpdateRequest cfg c inp).mono e1 (Nat.le_refl _)
  · exact (good_hFixed _ c inp _).mono e1 (Nat.le_refl _)
  · exact (good_hFixed _ c inp _).mono e1 (Nat.le_refl _)
  · exact (good_hCutText c inp _).mono e3 (Nat.le_refl _)
  · exact (good_hFileTransfer cfg c inp).mono e4 (Nat.le_refl _)
  · exact (good_hSetScale cfg c inp).mono e5 (Nat.le_refl _)
  · exact (good_hFixed _ c inp _).mono e1 (Nat.le_refl _)
  · exact (good_hFixed _ c inp _).mono e1 (Nat.le_refl _)
  · exact (good_hTextChat c inp).mono e6 (Nat.le_refl _)
  · exact (good_hXvp cfg c inp).mono e1 (Nat.le_refl _)
  · exact (good_hSetDesktopSize c inp _).mono e7 (Nat.le_refl _)
  · exact (good_hTight cfg c t inp).mono e8 (Nat.le_refl _)
  · exact ⟨Nat.le_refl _, Nat.zero_le _, fun h => by cases h⟩

/-- without file-transfer permission the bound does not contain the file-transfer term -/
theorem good_handleNormal_noft (cfg : Cfg) (c : Conn) (t : Nat) (inp : List UInt8) (hft : cfg.ft = false) :
    Good (msgMax cfg) inp.length (handleNormal cfg c t inp) := by
  have e1 : (0 : Nat) ≤ msgMax cfg := Nat.zero_le _
  have e2 : tableMax ≤ msgMax cfg := by simp only [msgMax]; omega
  have e3 : cutMax ≤ msgMax cfg := by simp only [msgMax]; omega
  have e5 : scaleMax cfg ≤ msgMax cfg := by simp only [msgMax]; omega
  have e6 : rfbTextMaxSize - 1 ≤ msgMax cfg := by simp only [msgMax]; omega
  have e7 : sdsMax ≤ msgMax cfg := by simp only [msgMax]; omega
  have e8 : tightMax ≤ msgMax cfg := by simp only [msgMax]; omega
  unfold handleNormal
  cases kindOf c t <;> simp only []
  · exact (good_hSetPixelFormat cfg c inp).mono e2 (Nat.le_refl _)
  · exact (good_hFixColourMap c inp).mono e1 (Nat.le_refl _)
  · exact (good_hSetEncodings cfg c inp).mono e1 (Nat.le_refl _)
  · exact (good_hUpdateRequest cfg c inp).mono e1 (Nat.le_refl _)
  · exact (good_hFixed _ c inp _).mono e1 (Nat.le_refl _)
  · exact (good_hFixed _ c inp _).mono e1 (Nat.le_refl _)
  · exact (good_hCutText c inp _).mono e3 (Nat.le_refl _)
  · obtain ⟨h1, h2, h3⟩ := hFileTransfer_denied cfg c inp hft
    exact ⟨by omega, by omega, fun h => absurd h h3⟩
  · exact (good_hSetScale cfg c inp).mono e5 (Nat.le_refl _)
  · exact (good_hFixed _ c inp _).mono e1 (Nat.le_refl _)
  · exact (good_hFixed _ c inp _).mono e1 (Nat.le_refl _)
  · exact (good_hTextChat c inp).mono e6 (Nat.le_refl _)
  · exact (good_hXvp cfg c inp).mono e1 (Nat.le_refl _)
  · exact (good_hSetDesktopSize c inp _).mono e7 (Nat.le_refl _)
  · exact (good_hTight cfg c t inp).mono e8 (Nat.le_refl _)
  · exact ⟨Nat.le_refl _, Nat.zero_le _, fun h => by cases h⟩


/-! ### one round in any phase -/

/-- like `Good`, for a whole round: a round that continues has consumed at least one byte -/
def GoodRound (B : Nat) (inp : List UInt8) (r : Res) : Prop :=
  r.alloc ≤ r.allocAlt ∧ r.allocAlt ≤ B ∧ (r.out = .cont → r.rest.length < inp.length)

theorem goodRound_of_normal {B : Nat} {r : Res} {t : UInt8} {rest : List UInt8}
    (h : Good B rest.length r) : GoodRound B (t :: rest) r := by
  obtain ⟨h1, h2, h3⟩ := h
  exact ⟨h1, h2, fun hc => by have := h3 hc; simp only [List.length_cons]; omega⟩

theorem handle_round (cfg : Cfg) (c : Conn) (inp : List UInt8) :
    GoodRound (msgMaxFt cfg) inp (handle cfg c inp) := by
  unfold handle
  split
  · -- version
    split
    · simp [GoodRound, mkStarved]
    · rename_i pv rest h
      have hl := readN_len h
      have h12 : sz_rfbProtocolVersionMsg = 12 := rfl
      split
      · simp [GoodRound, mkClosed]
      · split
        · simp [GoodRound, mkClosed]
        · simp only []
          split
          · split <;> (simp [GoodRound, mkCont]; omega)
          · simp [GoodRound, mkCont]; omega
  · -- security type
    split
    · simp [GoodRound, mkStarved]
    · simp only []
      split
      · split
        · simp [GoodRound, enterNormal, mkCont]
        · simp [GoodRound, mkCont]
      · split
        · simp [GoodRound, mkCont]
        · split
          · split
            · split
              · split
                · simp [GoodRound, mkClosed]
                · split <;> simp [GoodRound, mkClosed, mkStarved]
              · simp [GoodRound, mkStarved]
            · simp [GoodRound, mkCont]
          · simp [GoodRound, mkClosed]
  · -- authentication
    split <;> simp [GoodRound, mkStarved, mkClosed]
  · -- ClientInit
    split
    · simp [GoodRound, mkStarved]
    · simp [GoodRound, enterNormal, mkCont]
  · -- normal
    split
    · simp [GoodRound, mkStarved]
    · exact goodRound_of_normal (good_handleNormal cfg c _ _)

theorem handle_round_noft (cfg : Cfg) (c : Conn) (inp : List UInt8) (hft : cfg.ft = false) :
    (handle cfg c inp).allocAlt ≤ msgMax cfg := by
  unfold handle
  split
  · split
    · simp [mkStarved]
    · split
      · simp [mkClosed]
      · split
        · simp [mkClosed]
        · simp only []
          split
          · split <;> simp [mkCont]
          · simp [mkCont]
  · split
    · simp [mkStarved]
    · simp only []
      split
      · split
        · simp [enterNormal, mkCont]
        · simp [mkCont]
      · split
        · simp [mkCont]
        · split
          · split
            · split
              · split
                · simp [mkClosed]
                · split <;> simp [mkClosed, mkStarved]
              · simp [mkStarved]
            · simp [mkCont]
          · simp [mkClosed]
  · split <;> simp [mkStarved, mkClosed]
  · split
    · simp [mkStarved]
    · simp [enterNormal, mkCont]
  · split
    · simp [mkStarved]
    · exact (good_handleNormal_noft cfg c _ _ hft).2.1

/-! ### the stream loop -/

/-- the blocking structure of `run`, relative to its accumulator `t`:
at most one read wait is added, a read wait or a write wait ends with the connection closed,
a write wait is exactly `writeRounds` rounds and excludes a read wait -/
theorem run_waits (cfg : Cfg) (m : Mode) (fuel : Nat) (c : Conn) (inp : List UInt8) (t : Tot) :
    let res := run cfg m fuel c inp t
    res.2.rw ≤ t.rw + 1 ∧
    (res.2.rw = t.rw + 1 → res.1.isClosed = true ∧ res.2.ww = t.ww ∧ res.2.vt = t.vt + clientWait cfg) ∧
    (res.2.ww ≠ t.ww → res.1.isClosed = true ∧ res.2.ww = writeRounds cfg ∧ res.2.rw = t.rw ∧
                        res.2.vt = t.vt + writeRounds cfg * writeRetryMs) ∧
    res.2.vt ≤ t.vt + max (clientWait cfg) (writeRounds cfg * writeRetryMs) := by
  induction fuel generalizing c inp t with
  | zero => simp [run]
  | succ k ih =>
    match inp with
    | [] =>
      simp only [run]
      split <;> simp
    | b :: tl =>
      simp only [run]
      split
      · simp
      · split
        · simp
        · split
          · unfold writeFail
            split
            · refine ⟨?_, ?_, ?_, ?_⟩ <;> simp [Status.isClosed] <;> omega
            · refine ⟨?_, ?_, ?_, ?_⟩ <;> simp [writeBlocked, Status.isClosed] <;> omega
          · split
            · have := ih (handle cfg c (b :: tl)).conn (handle cfg c (b :: tl)).rest
                { t with n := t.n + 1, amax := max t.amax (handle cfg c (b :: tl)).alloc,
                         amaxAlt := max t.amaxAlt (handle cfg c (b :: tl)).allocAlt,
                         updWrite := t.updWrite || (handle cfg c (b :: tl)).updWrite,
                         updReq := t.updReq || (handle cfg c (b :: tl)).updReq,
                         cb := t.cb + (handle cfg c (b :: tl)).cb }
              simpa using this
            · simp
            · split
              · simp
              · refine ⟨?_, ?_, ?_, ?_⟩ <;> simp [readBlocked, Status.isClosed]
                exact Nat.le_max_left _ _
            · simp

/-- allocation bound over a whole stream -/
theorem run_alloc (cfg : Cfg) (m : Mode) (B : Nat) (hB : ∀ c inp, (handle cfg c inp).allocAlt ≤ B)
    (fuel : Nat) (c : Conn) (inp : List UInt8) (t : Tot) :
    (run cfg m fuel c inp t).2.amaxAlt ≤ max t.amaxAlt B := by
  induction fuel generalizing c inp t with
  | zero => simp only [run]; omega
  | succ k ih =>
    match inp with
    | [] =>
      simp only [run]
      split <;> (simp only []; omega)
    | b :: tl =>
      have hb := hB c (b :: tl)
      simp only [run]
      split
      · simp only []; omega
      · split
        · simp only []; omega
        · split
          · unfold writeFail
            split <;> (simp only [writeBlocked]; omega)
          · split
            · have := ih (handle cfg c (b :: tl)).conn (handle cfg c (b :: tl)).rest
                { t with n := t.n + 1, amax := max t.amax (handle cfg c (b :: tl)).alloc,
                         amaxAlt := max t.amaxAlt (handle cfg c (b :: tl)).allocAlt,
                         updWrite := t.updWrite || (handle cfg c (b :: tl)).updWrite,
                         updReq := t.updReq || (handle cfg c (b :: tl)).updReq,
                         cb := t.cb + (handle cfg c (b :: tl)).cb }
              simp only [] at this
              omega
            · simp only []; omega
            · split
              · simp only []; omega
              · simp only [readBlocked]; omega
            · simp only []; omega

/-- the fuel `runSend` gives is enough: more fuel does not change the result (every round that
continues consumes at least one byte, the end-of-file round needs one more step) -/
theorem run_fuel (cfg : Cfg) (m : Mode) (fuel : Nat) (c : Conn) (inp : List UInt8) (t : Tot)
    (h : inp.length < fuel) : run cfg m (fuel + 1) c inp t = run cfg m fuel c inp t := by
  induction fuel generalizing c inp t with
  | zero => omega
  | succ k ih =>
    match inp with
    | [] => simp [run]
    | b :: tl =>
      have hr := (handle_round cfg c (b :: tl)).2.2
      conv => lhs; rw [run]
      conv => rhs; rw [run]
      split
      · rfl
      · split
        · rfl
        · split
          · rfl
          · split
            · rename_i hc
              have hlt := hr hc
              simp only [List.length_cons] at hlt h
              exact ih _ _ _ (by omega)
            · rfl
            · rfl
            · rfl

/-- number of rounds: at most one per byte, plus the end-of-file round -/
theorem run_rounds (cfg : Cfg) (m : Mode) (fuel : Nat) (c : Conn) (inp : List UInt8) (t : Tot) :
    (run cfg m fuel c inp t).2.n ≤ t.n + inp.length + 1 := by
  induction fuel generalizing c inp t with
  | zero => simp only [run]; omega
  | succ k ih =>
    match inp with
    | [] =>
      simp only [run]
      split <;> (simp only [List.length_nil]; omega)
    | b :: tl =>
      have hr := (handle_round cfg c (b :: tl)).2.2
      simp only [run]
      split
      · simp only [List.length_cons]; omega
      · split
        · simp only [List.length_cons]; omega
        · split
          · unfold writeFail
            split <;> (simp only [writeBlocked, List.length_cons]; omega)
          · split
            · rename_i hc
              have hlt := hr hc
              have := ih (handle cfg c (b :: tl)).conn (handle cfg c (b :: tl)).rest
                { t with n := t.n + 1, amax := max t.amax (handle cfg c (b :: tl)).alloc,
                         amaxAlt := max t.amaxAlt (handle cfg c (b :: tl)).allocAlt,
                         updWrite := t.updWrite || (handle cfg c (b :: tl)).updWrite,
                         updReq := t.updReq || (handle cfg c (b :: tl)).updReq,
                         cb := t.cb + (handle cfg c (b :: tl)).cb }
              simp only [List.length_cons] at hlt this ⊢
              omega
            · simp only [List.length_cons]; omega
            · split
              · simp only [List.length_cons]; omega
              · simp only [readBlocked, List.length_cons]; omega
            · simp only [List.length_cons]; omega


/-- when `select` fails instead of waiting (or the peer is gone) no read wait is spent at all -/
theorem run_no_wait (cfg : Cfg) (m : Mode) (hm : (m.eof || m.selErr) = true) (fuel : Nat) (c : Conn)
    (inp : List UInt8) (t : Tot) : (run cfg m fuel c inp t).2.rw = t.rw := by
  induction fuel generalizing c inp t with
  | zero => simp [run]
  | succ k ih =>
    match inp with
    | [] =>
      simp only [run]
      split <;> rfl
    | b :: tl =>
      simp only [run]
      split
      · rfl
      · split
        · rfl
        · split
          · unfold writeFail
            split <;> simp [writeBlocked]
          · split
            · rw [ih]
            · rfl
            · simp [hm]
            · rfl

/-! ### several connections -/

theorem AList.get_set_ne {α : Type} (s : AList α) (i j : Nat) (v : α) (h : j ≠ i) :
    (s.set i v).get j = s.get j := by
  unfold AList.set AList.get
  have hij : (i == j) = false := by simp; omega
  simp only [List.find?_cons, hij]
  congr 1
  induction s with
  | nil => rfl
  | cons p tl ih =>
    simp only [List.filter_cons]
    by_cases hp : p.1 = i
    · have h1 : (p.1 != i) = false := by simp [hp]
      have h2 : (p.1 == j) = false := by simp [hp]; omega
      simp only [h1, List.find?_cons, h2]
      exact ih
    · have h1 : (p.1 != i) = true := by simp [hp]
      simp only [h1, if_true, List.find?_cons]
      split
      · rfl
      · exact ih

theorem AList.get_set_eq {α : Type} (s : AList α) (i : Nat) (v : α) : (s.set i v).get i = some v := by
  simp [AList.set, AList.get]

/-! ### rectSwapIfLEAndClip (unscaled client) -/

theorem clipAxis_some {size pos len len1 : Int} (hl : 0 ≤ len)
    (h : clipAxis size pos len = some len1) : 0 ≤ len1 ∧ pos + len1 ≤ size ∧ len1 ≤ len := by
  have hw : 0 ≤ wrap16 (size - pos) := by unfold wrap16; omega
  by_cases h1 : len > size - pos
  · by_cases h2 : wrap16 (size - pos) > size - pos
    · simp [clipAxis, h1, h2] at h
    · simp [clipAxis, h1, h2] at h
      subst h
      omega
  · simp [clipAxis, h1] at h
    subst h
    omega

/-- for 16-bit operands on a 16-bit-sized screen an axis is rejected exactly when the position lies
beyond the edge, and an accepted length is the requested one cut at the edge -/
theorem clipAxis_16 {size pos len : Int} (hs : 0 ≤ size ∧ size < 65536) (hp : 0 ≤ pos ∧ pos < 65536)
    (hl : 0 ≤ len ∧ len < 65536) :
    clipAxis size pos len = if pos > size then none else some (min len (size - pos)) := by
  by_cases h0 : pos > size
  · have hw : wrap16 (size - pos) = size - pos + 65536 := by unfold wrap16; omega
    have h1 : len > size - pos := by omega
    have h2 : wrap16 (size - pos) > size - pos := by omega
    simp [clipAxis, h0, h1, h2]
  · have hw : wrap16 (size - pos) = size - pos := by unfold wrap16; omega
    by_cases h1 : len > size - pos
    · have h2 : ¬ wrap16 (size - pos) > size - pos := by omega
      have hm : min len (size - pos) = size - pos := by omega
      simp [clipAxis, h1, h2, h0, hm]
      exact hw
    · have hm : min len (size - pos) = len := by omega
      simp [clipAxis, h1, h0, hm]

end VncModel.Robust
