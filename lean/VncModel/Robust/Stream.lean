import VncModel.Robust.Messages
/-!
# Robust/Stream — a byte stream against one connection, with the blocking structure

`run` is the loop of the event loop for one client: one `handle` (= one `rfbProcessClientMessage`)
per round while unread input remains.  It accounts

* `n`   rounds,
* `rw`  read waits: a handler that runs out of input waits ONCE for `maxClientWait` (virtual time),
        then `rfbReadExact` fails, the handler closes the client and returns,
* `ww`  write waits: a write to a peer that does not drain its socket is retried every
        `writeRetryMs` until `maxClientWait` is reached, then the client is closed,
* `vt`  the virtual time spent waiting,
* the largest allocation request.

`Mode.eof`: the peer has closed its end (reads at the end of the data return 0, writes fail at once).
`Mode.stopread`: the peer never reads and the pipe is full (every write blocks).
`Mode.selErr`: `select` reports an error instead of waiting (`rfbReadExactTimeout` returns -1 at once).
-/
namespace VncModel.Robust
open VncModel.Gen.C04

structure Mode where
  eof : Bool := false
  stopread : Bool := false
  selErr : Bool := false      -- the `select` of the next wait fails (EBADF/EINTR…): the read fails at once
  wselErr : Bool := false     -- the `select` of `rfbWriteExact` fails (not EINTR): the write fails at once
  deriving Repr

structure Tot where
  n : Nat := 0
  rw : Nat := 0
  ww : Nat := 0
  vt : Nat := 0
  amax : Nat := 0
  amaxAlt : Nat := 0
  updWrite : Bool := false       -- some message guarantees a non-empty update
  updReq : Bool := false         -- some message was a FramebufferUpdateRequest
  cb : Nat := 0                  -- application callbacks
  deriving Repr

inductive Status where
  | isOpen (c : Conn)
  | closed
  | unknown
  deriving Repr

def Status.isClosed : Status → Bool
  | .closed => true
  | _ => false

/-- the timeout `rfbReadExact` / `rfbWriteExact` use -/
def clientWait (cfg : Cfg) : Nat := if cfg.wait = 0 then defaultClientWait else cfg.wait

/-- number of `select` rounds of `writeRetryMs` after which `rfbWriteExact` gives up:
`totalTimeWaited += writeRetryMs` until `totalTimeWaited >= timeout` -/
def writeRounds (cfg : Cfg) : Nat := (clientWait cfg + writeRetryMs - 1) / writeRetryMs

def writeBlocked (cfg : Cfg) (t : Tot) : Tot :=
  { t with ww := writeRounds cfg, vt := t.vt + writeRounds cfg * writeRetryMs }

/-- a write to a peer that does not drain: the retry loop, unless `select` itself fails -/
def writeFail (cfg : Cfg) (m : Mode) (t : Tot) : Tot := if m.wselErr then t else writeBlocked cfg t

def readBlocked (cfg : Cfg) (t : Tot) : Tot :=
  { t with rw := t.rw + 1, vt := t.vt + clientWait cfg }

def run (cfg : Cfg) (m : Mode) : Nat → Conn → List UInt8 → Tot → Status × Tot
  | 0, c, _, t => (.isOpen c, t)
  | fuel + 1, c, inp, t =>
    match inp with
    | [] =>
      if m.eof then (.closed, { t with n := t.n + 1 })       -- read() returns 0: client gone
      else (.isOpen c, t)
    | _ :: _ =>
      let r := handle cfg c inp
      let t1 := { t with n := t.n + 1, amax := max t.amax r.alloc, amaxAlt := max t.amaxAlt r.allocAlt,
                         updWrite := t.updWrite || r.updWrite, updReq := t.updReq || r.updReq, cb := t.cb + r.cb }
      if r.wroteMaybe && (m.eof || m.stopread) then (.unknown, t1)
      else if r.wrote && m.eof then (.closed, { t1 with cb := t1.cb - r.cbLate })   -- EPIPE
      else if r.wrote && m.stopread then
        (.closed, writeFail cfg m { t1 with cb := t1.cb - r.cbLate })
      else match r.out with
        | .cont => run cfg m fuel r.conn r.rest t1
        | .closed => (.closed, t1)
        | .starved => if m.eof || m.selErr then (.closed, t1) else (.closed, readBlocked cfg t1)
        | .unknown => (.unknown, t1)

/-- a whole `send`: enough fuel for every byte to start a round, plus the end-of-file round -/
def runSend (cfg : Cfg) (m : Mode) (c : Conn) (inp : List UInt8) : Status × Tot :=
  run cfg m (inp.length + 1) c inp {}


/-! ## several connections

The screen's clients as an association list.  An operation on client `i` rewrites entry `i` only
(`AList.set`); nothing in `run` reads another client's entry. -/

abbrev AList (α : Type) := List (Nat × α)

def AList.get {α : Type} (s : AList α) (i : Nat) : Option α := (s.find? (fun p => p.1 == i)).map (·.2)

def AList.set {α : Type} (s : AList α) (i : Nat) (v : α) : AList α :=
  (i, v) :: s.filter (fun p => p.1 != i)

/-- deliver `bytes` to connection `i` of a screen -/
def deliver (cfg : Cfg) (m : Mode) (s : AList Status) (i : Nat) (bytes : List UInt8) : AList Status :=
  match s.get i with
  | some (.isOpen c) => s.set i (runSend cfg m c bytes).1
  | _ => s

end VncModel.Robust
