import VncModel.Gen.C04
/-!
# Robust/UpdateBuf — `cl->updateBuf[UPDATE_BUF_SIZE]` / `cl->ublen` bookkeeping of the cheap emitters

Pattern of every pseudo-rectangle sender (rfbSendLastRectMarker, rfbSendNewFBSize,
rfbSendKeyboardLedState, rfbSendCursorPos, …, and rfbSendCopyRegion in the fixed code):

    if (cl->ublen + n > UPDATE_BUF_SIZE) { if (!rfbSendUpdateBuf(cl)) return FALSE; }   // ublen = 0
    memcpy(&cl->updateBuf[cl->ublen], ..., n);  cl->ublen += n;

`appendChecked` is that pattern, `appendUnchecked` is the unfixed `rfbSendCopyRegion` (no flush).
-/
namespace VncModel.Robust
open VncModel.Gen.C04

def appendChecked (ublen n : Nat) : Nat := if ublen + n > UPDATE_BUF_SIZE then n else ublen + n
def appendUnchecked (ublen n : Nat) : Nat := ublen + n

/-- bytes `rfbSendCopyRegion` appends per rectangle: rectangle header + source position -/
def copyRectBytes : Nat := sz_rfbFramebufferUpdateRectHeader + sz_rfbCopyRect

/-- `rfbSendCopyRegion` for `k` rectangles, with the flush check (fixed code) -/
def copyRegionChecked : Nat → Nat → Nat
  | 0, ublen => ublen
  | k + 1, ublen => copyRegionChecked k (appendChecked ublen copyRectBytes)

/-- `rfbSendCopyRegion` for `k` rectangles as in the unfixed code -/
def copyRegionUnchecked : Nat → Nat → Nat
  | 0, ublen => ublen
  | k + 1, ublen => copyRegionUnchecked k (appendUnchecked ublen copyRectBytes)

/-- a sequence of checked appends -/
def appendAll (ublen : Nat) (pieces : List Nat) : Nat := pieces.foldl appendChecked ublen

theorem appendChecked_le {ublen n : Nat} (hn : n ≤ UPDATE_BUF_SIZE) :
    appendChecked ublen n ≤ UPDATE_BUF_SIZE := by
  unfold appendChecked
  split <;> omega

theorem appendAll_le (pieces : List Nat) (ublen : Nat) (hu : ublen ≤ UPDATE_BUF_SIZE)
    (hp : ∀ n ∈ pieces, n ≤ UPDATE_BUF_SIZE) : appendAll ublen pieces ≤ UPDATE_BUF_SIZE := by
  induction pieces generalizing ublen with
  | nil => simpa [appendAll] using hu
  | cons p tl ih =>
    simp only [appendAll, List.foldl_cons]
    exact ih _ (appendChecked_le (hp p (by simp))) (fun n hn => hp n (by simp [hn]))

theorem copyRegionChecked_le (k ublen : Nat) (hu : ublen ≤ UPDATE_BUF_SIZE) :
    copyRegionChecked k ublen ≤ UPDATE_BUF_SIZE := by
  induction k generalizing ublen with
  | zero => simpa [copyRegionChecked] using hu
  | succ n ih =>
    simp only [copyRegionChecked]
    exact ih _ (appendChecked_le (by decide))

theorem copyRegionUnchecked_eq (k ublen : Nat) :
    copyRegionUnchecked k ublen = ublen + k * copyRectBytes := by
  induction k generalizing ublen with
  | zero => simp [copyRegionUnchecked]
  | succ n ih =>
    simp only [copyRegionUnchecked, appendUnchecked, ih, Nat.add_mul, Nat.one_mul]
    omega


/-! ## cursor shape (`rfbSendCursorShape`, cursor.c)

The image is written in the CLIENT's pixel format (`cbpp` bytes per pixel), so the size estimate
that decides between "send the shape" and "send an empty cursor" must use the client's pixel size
(seeded change C04-8 used the server's). -/

def cursorMaskBytes (w h : Nat) : Nat := (w + 7) / 8 * h

/-- the estimate: rectangle header + XCursor colours + mask + data -/
def cursorEstimate (w h cbpp : Nat) (rich : Bool) : Nat :=
  sz_rfbFramebufferUpdateRectHeader + 6 + cursorMaskBytes w h +
    (if rich then w * h * cbpp else cursorMaskBytes w h)

/-- bytes really appended for a shape that is sent -/
def cursorWritten (w h cbpp : Nat) (rich : Bool) : Nat :=
  sz_rfbFramebufferUpdateRectHeader + cursorMaskBytes w h +
    (if rich then w * h * cbpp else 6 + cursorMaskBytes w h)

/-- `ublen` after `rfbSendCursorShape`: too large ⇒ empty cursor (header only, flush-checked);
otherwise flush if the estimate does not fit behind `ublen`, then append -/
def cursorEmit (ublen w h cbpp : Nat) (rich : Bool) : Nat :=
  if cursorEstimate w h cbpp rich > UPDATE_BUF_SIZE then
    appendChecked ublen sz_rfbFramebufferUpdateRectHeader
  else
    let u := if ublen + cursorEstimate w h cbpp rich > UPDATE_BUF_SIZE then 0 else ublen
    u + cursorWritten w h cbpp rich

theorem cursorWritten_le_estimate (w h cbpp : Nat) (rich : Bool) :
    cursorWritten w h cbpp rich ≤ cursorEstimate w h cbpp rich := by
  unfold cursorWritten cursorEstimate
  cases rich <;> simp <;> omega

theorem cursorEmit_le (ublen w h cbpp : Nat) (rich : Bool) (hu : ublen ≤ UPDATE_BUF_SIZE) :
    cursorEmit ublen w h cbpp rich ≤ UPDATE_BUF_SIZE := by
  unfold cursorEmit
  split
  · exact appendChecked_le (by decide)
  · rename_i hfit
    have := cursorWritten_le_estimate w h cbpp rich
    simp only []
    split <;> omega

end VncModel.Robust
