import VncModel.Cursor.Session
/-
Helper lemmas for C15: the generic loop rules (`forM?`, `cell`, `writeBox`), index arithmetic,
the clipping facts.  Property theorems are in Props/C15.lean.
-/
namespace VncModel.Cursor

/-! ### `forM?` -/

theorem forM?_succ {σ : Type} (n : Nat) (f : Nat → σ → Option σ) (s : σ) :
    forM? (n + 1) f s = (forM? n f s).bind (f n) := rfl

theorem forM?_succ_eq_some {σ : Type} {n : Nat} {f : Nat → σ → Option σ} {s s' : σ}
    (h : forM? (n + 1) f s = some s') : ∃ m, forM? n f s = some m ∧ f n m = some s' := by
  rw [forM?_succ] at h
  exact Option.bind_eq_some_iff.mp h

/-- invariant rule: `P k a` holds after `k` iterations -/
theorem forM?_ind {σ : Type} (P : Nat → σ → Prop) {n : Nat} {f : Nat → σ → Option σ} {s s' : σ}
    (h0 : P 0 s) (hs : ∀ k, k < n → ∀ a b, P k a → f k a = some b → P (k + 1) b)
    (h : forM? n f s = some s') : P n s' := by
  induction n generalizing s' with
  | zero => simp [forM?] at h; subst h; exact h0
  | succ n ih =>
    obtain ⟨m, hm, hf⟩ := forM?_succ_eq_some h
    exact hs n (Nat.lt_succ_self n) m s' (ih (fun k hk => hs k (Nat.lt_succ_of_lt hk)) hm) hf

/-- success rule: if every step succeeds on states satisfying the invariant, the loop succeeds -/
theorem forM?_ok {σ : Type} (P : Nat → σ → Prop) {n : Nat} {f : Nat → σ → Option σ} {s : σ}
    (h0 : P 0 s) (hs : ∀ k, k < n → ∀ a, P k a → ∃ b, f k a = some b ∧ P (k + 1) b) :
    ∃ s', forM? n f s = some s' ∧ P n s' := by
  induction n with
  | zero => exact ⟨s, rfl, h0⟩
  | succ n ih =>
    obtain ⟨m, hm, hp⟩ := ih (fun k hk => hs k (Nat.lt_succ_of_lt hk))
    obtain ⟨b, hb, hpb⟩ := hs n (Nat.lt_succ_self n) m hp
    exact ⟨b, by rw [forM?_succ, hm]; exact hb, hpb⟩

/-! ### loops over a pixel buffer: frame and value rules

`T k m` : iteration `k` may write index `m`. -/

/-- what a step is allowed to do: keep the size, change only indices in `T k` -/
def StepFrame (f : Nat → Array Px → Option (Array Px)) (T : Nat → Nat → Prop) (n : Nat) : Prop :=
  ∀ k, k < n → ∀ a b, f k a = some b → b.size = a.size ∧ ∀ m, ¬ T k m → b[m]? = a[m]?

theorem loop_frame {n : Nat} {f : Nat → Array Px → Option (Array Px)} {T : Nat → Nat → Prop}
    {s s' : Array Px} (hf : StepFrame f T n) (h : forM? n f s = some s') :
    s'.size = s.size ∧ ∀ m, (∀ k, k < n → ¬ T k m) → s'[m]? = s[m]? := by
  have := forM?_ind (fun k a => a.size = s.size ∧ ∀ m, (∀ k', k' < k → ¬ T k' m) → a[m]? = s[m]?)
    (n := n) (f := f) (s := s) (s' := s') ⟨rfl, fun _ _ => rfl⟩
    (by
      intro k hk a b ⟨hsz, hfr⟩ hab
      obtain ⟨h1, h2⟩ := hf k hk a b hab
      refine ⟨by rw [h1, hsz], fun m hm => ?_⟩
      rw [h2 m (hm k (Nat.lt_succ_self k))]
      exact hfr m (fun k' hk' => hm k' (Nat.lt_succ_of_lt hk'))) h
  exact this

theorem StepFrame.mono {f : Nat → Array Px → Option (Array Px)} {T : Nat → Nat → Prop} {n n' : Nat}
    (h : StepFrame f T n') (hn : n ≤ n') : StepFrame f T n :=
  fun k hk => h k (Nat.lt_of_lt_of_le hk hn)

/-- with pairwise disjoint write sets, the effect of iteration `k0` on its own indices is what the
loop's result shows there, and iteration `k0` saw the initial values there -/
theorem loop_val {n : Nat} {f : Nat → Array Px → Option (Array Px)} {T : Nat → Nat → Prop}
    {s s' : Array Px} (hf : StepFrame f T n)
    (hdisj : ∀ k, k < n → ∀ k', k' < n → k ≠ k' → ∀ m, T k m → ¬ T k' m)
    (h : forM? n f s = some s') (k0 : Nat) (hk0 : k0 < n) :
    ∃ a b, f k0 a = some b ∧ a.size = s.size ∧ (∀ m, T k0 m → a[m]? = s[m]?) ∧ (∀ m, T k0 m → s'[m]? = b[m]?) := by
  induction n generalizing s' with
  | zero => omega
  | succ n ih =>
    obtain ⟨mid, hm, hlast⟩ := forM?_succ_eq_some h
    have hfn : StepFrame f T n := hf.mono (Nat.le_succ n)
    by_cases hk : k0 = n
    · subst hk
      obtain ⟨hsz, hfr⟩ := loop_frame hfn hm
      refine ⟨mid, s', hlast, hsz, fun m hT => hfr m (fun k hk' hTk => ?_), fun _ _ => rfl⟩
      exact hdisj k (Nat.lt_succ_of_lt hk') k0 (Nat.lt_succ_self _) (Nat.ne_of_lt hk') m hTk hT
    · have hk0' : k0 < n := by omega
      obtain ⟨a, b, hab, hsz, ha, hb⟩ := ih hfn
        (fun k hk k' hk' => hdisj k (Nat.lt_succ_of_lt hk) k' (Nat.lt_succ_of_lt hk')) hm hk0'
      refine ⟨a, b, hab, hsz, ha, fun m hT => ?_⟩
      rw [← hb m hT]
      exact (hf n (Nat.lt_succ_self n) mid s' hlast).2 m
        (hdisj k0 (Nat.lt_succ_of_lt hk0') n (Nat.lt_succ_self n) hk m hT)

/-! ### `cell` and `writeBox` -/

/-- result of applying an action to the old content of a destination pixel -/
def Act.apply (a : Act) (old : Option Px) : Option Px :=
  match a with
  | .skip => old
  | .put v => some v

theorem cell_spec {idx : Nat → Nat → Nat} {g : Nat → Nat → Option Px → Option Act} {j i : Nat}
    {d d' : Array Px} (h : cell idx g j i d = some d') :
    d'.size = d.size ∧ (∀ m, m ≠ idx j i → d'[m]? = d[m]?) ∧
    ∃ act, g j i d[idx j i]? = some act ∧ d'[idx j i]? = act.apply d[idx j i]? := by
  unfold cell at h
  split at h
  · simp at h
  · rename_i hg
    simp at h; subst h
    exact ⟨rfl, fun _ _ => rfl, .skip, hg, rfl⟩
  · rename_i v hg
    split at h
    · rename_i hlt
      simp at h; subst h
      refine ⟨Array.size_set _, fun m hm => Array.getElem?_set_ne _ (Ne.symm hm), .put v, hg, ?_⟩
      simp [Act.apply]
    · simp at h

theorem cell_ok {idx : Nat → Nat → Nat} {g : Nat → Nat → Option Px → Option Act} {j i : Nat}
    {d : Array Px} (hlt : idx j i < d.size) (hg : ∀ v, (g j i (some v)).isSome) :
    ∃ d', cell idx g j i d = some d' := by
  unfold cell
  have h1 : d[idx j i]? = some d[idx j i] := Array.getElem?_eq_getElem hlt
  rw [h1]
  have := hg d[idx j i]
  cases hc : g j i (some d[idx j i]) with
  | none => simp [hc] at this
  | some act =>
    cases act with
    | skip => exact ⟨d, rfl⟩
    | put v => exact ⟨d.set (idx j i) v hlt, by simp [hlt]⟩

/-- the index map is injective on the box -/
def Inj (idx : Nat → Nat → Nat) (rows cols : Nat) : Prop :=
  ∀ j, j < rows → ∀ j', j' < rows → ∀ i, i < cols → ∀ i', i' < cols → idx j i = idx j' i' → j = j' ∧ i = i'

/-- the inner loop (one row) -/
def rowLoop (idx : Nat → Nat → Nat) (g : Nat → Nat → Option Px → Option Act) (cols j : Nat)
    (d : Array Px) : Option (Array Px) :=
  forM? cols (fun i d => cell idx g j i d) d

theorem writeBox_eq (idx : Nat → Nat → Nat) (g : Nat → Nat → Option Px → Option Act) (rows cols : Nat)
    (d : Array Px) : writeBox idx g rows cols d = forM? rows (rowLoop idx g cols) d := rfl

theorem rowLoop_stepFrame (idx : Nat → Nat → Nat) (g : Nat → Nat → Option Px → Option Act) (cols j : Nat) :
    StepFrame (fun i d => cell idx g j i d) (fun i m => m = idx j i) cols := by
  intro i _ a b hab
  obtain ⟨h1, h2, _⟩ := cell_spec hab
  exact ⟨h1, h2⟩

theorem writeBox_stepFrame (idx : Nat → Nat → Nat) (g : Nat → Nat → Option Px → Option Act) (rows cols : Nat) :
    StepFrame (rowLoop idx g cols) (fun j m => ∃ i, i < cols ∧ m = idx j i) rows := by
  intro j _ a b hab
  obtain ⟨h1, h2⟩ := loop_frame (rowLoop_stepFrame idx g cols j) hab
  refine ⟨h1, fun m hm => h2 m (fun i hi heq => hm ⟨i, hi, heq⟩)⟩

/-- frame: `writeBox` keeps the size and every index that is not `idx j i` of the box -/
theorem writeBox_frame {idx : Nat → Nat → Nat} {g : Nat → Nat → Option Px → Option Act} {rows cols : Nat}
    {d d' : Array Px} (h : writeBox idx g rows cols d = some d') :
    d'.size = d.size ∧ ∀ m, (∀ j, j < rows → ∀ i, i < cols → idx j i ≠ m) → d'[m]? = d[m]? := by
  rw [writeBox_eq] at h
  obtain ⟨h1, h2⟩ := loop_frame (writeBox_stepFrame idx g rows cols) h
  refine ⟨h1, fun m hm => h2 m (fun j hj ⟨i, hi, heq⟩ => hm j hj i hi heq.symm)⟩

/-- value: with an injective index map, pixel `idx j i` of the result is `g j i` applied to the
*initial* content of that pixel -/
theorem writeBox_val {idx : Nat → Nat → Nat} {g : Nat → Nat → Option Px → Option Act} {rows cols : Nat}
    {d d' : Array Px} (hinj : Inj idx rows cols) (h : writeBox idx g rows cols d = some d')
    (j : Nat) (hj : j < rows) (i : Nat) (hi : i < cols) :
    ∃ act, g j i d[idx j i]? = some act ∧ d'[idx j i]? = act.apply d[idx j i]? := by
  rw [writeBox_eq] at h
  obtain ⟨a, b, hab, _, ha, hb⟩ := loop_val (writeBox_stepFrame idx g rows cols)
    (by
      intro k hk k' hk' hne m ⟨i1, hi1, e1⟩ ⟨i2, hi2, e2⟩
      exact hne (hinj k hk k' hk' i1 hi1 i2 hi2 (e1.symm.trans e2)).1) h j hj
  obtain ⟨a2, b2, hab2, _, ha2, hb2⟩ := loop_val (rowLoop_stepFrame idx g cols j)
    (by
      intro k hk k' hk' hne m e1 e2
      exact hne (hinj j hj j hj k hk k' hk' (e1.symm.trans e2)).2) hab i hi
  obtain ⟨_, _, act, hg, hval⟩ := cell_spec hab2
  have e1 : a2[idx j i]? = d[idx j i]? := by
    rw [ha2 _ rfl]; exact ha _ ⟨i, hi, rfl⟩
  have e2 : d'[idx j i]? = b2[idx j i]? := by
    rw [hb _ ⟨i, hi, rfl⟩]; exact hb2 _ rfl
  exact ⟨act, by rw [← e1]; exact hg, by rw [e2, hval, e1]⟩

/-- success: all destination indices inside the buffer and `g` defined on every old value -/
theorem writeBox_ok {idx : Nat → Nat → Nat} {g : Nat → Nat → Option Px → Option Act} {rows cols : Nat}
    {d : Array Px} (hidx : ∀ j, j < rows → ∀ i, i < cols → idx j i < d.size)
    (hg : ∀ j, j < rows → ∀ i, i < cols → ∀ v, (g j i (some v)).isSome) :
    ∃ d', writeBox idx g rows cols d = some d' := by
  rw [writeBox_eq]
  obtain ⟨d', h, _⟩ := forM?_ok (fun _ (a : Array Px) => a.size = d.size) (n := rows)
    (f := rowLoop idx g cols) (s := d) rfl
    (by
      intro j hj a ha
      obtain ⟨b, hb, hsz⟩ := forM?_ok (fun _ (x : Array Px) => x.size = d.size) (n := cols)
        (f := fun i d => cell idx g j i d) (s := a) ha
        (by
          intro i hi x hx
          obtain ⟨y, hy⟩ := cell_ok (idx := idx) (g := g) (j := j) (i := i) (d := x)
            (by rw [hx]; exact hidx j hj i hi) (hg j hj i hi)
          exact ⟨y, hy, by rw [(cell_spec hy).1, hx]⟩)
      exact ⟨b, hb, hsz⟩)
  exact ⟨d', h⟩

end VncModel.Cursor
