/-
Primitives of the cursor model (C15): checked buffer accesses and the C `for` loops.

Every array access of the modelled C code is an access through `[i]?` / `wr`; an index outside the
buffer makes the whole operation return `none`.  "No out-of-bounds access" is therefore the theorem
"the operation returns `some _`" (Props/C15.lean, `no_oob`), not a convention of the model.

Buffers are arrays of *pixels* (`Px`), one pixel = `bpp` consecutive bytes of the C buffers.  All
byte offsets computed by cursor.c are multiples of `bpp` (`… + x1*bpp`, `j*x2*bpp`,
`(i+x1)*bpp`), the row stride is `paddedWidthInBytes = width*bpp` (asserted by the harness), so a
byte offset `o` corresponds to the pixel index `o / bpp` and a byte range is inside the C buffer
iff the pixel range is inside the model buffer (`Model.lean`, `byteRange_ok_iff`).
-/
namespace VncModel.Cursor

/-- a pixel value (the `bpp` bytes of one pixel read as a little-endian number) -/
abbrev Px := Nat

/-- `for (k = 0; k < n; k++) s = f k s;` — a failing step (out-of-bounds access) fails the loop -/
def forM? {σ : Type} (n : Nat) (f : Nat → σ → Option σ) (s : σ) : Option σ :=
  match n with
  | 0 => some s
  | n + 1 => (forM? n f s).bind (f n)

/-- what one iteration of a per-pixel loop does to its destination pixel -/
inductive Act where
  | skip
  | put (v : Px)
  deriving Repr, DecidableEq

/-- one iteration `(j,i)` of a two-dimensional per-pixel loop over destination buffer `d`:
`g j i old` decides from the loop indices and the destination's old pixel whether to store
(`none` = the source access of this iteration was out of bounds). -/
def cell (idx : Nat → Nat → Nat) (g : Nat → Nat → Option Px → Option Act) (j i : Nat)
    (d : Array Px) : Option (Array Px) :=
  match g j i d[idx j i]? with
  | none => none
  | some .skip => some d
  | some (.put v) => if h : idx j i < d.size then some (d.set (idx j i) v h) else none

/-- `for (j = 0; j < rows; j++) for (i = 0; i < cols; i++) cell(j,i)` -/
def writeBox (idx : Nat → Nat → Nat) (g : Nat → Nat → Option Px → Option Act) (rows cols : Nat)
    (d : Array Px) : Option (Array Px) :=
  forM? rows (fun j d => forM? cols (fun i d => cell idx g j i d) d) d

end VncModel.Cursor
