import VncModel.Cursor.Lemmas
/-
Lemmas about `showCursor` / `hideCursor`: index arithmetic, clipping facts, well-formedness,
case analysis of the two functions, in-bounds-ness of every access, the overlay characterisation.
-/
namespace VncModel.Cursor

/-! ### index arithmetic -/

theorem lin_div (W p a : Nat) (ha : a < W) : (p * W + a) / W = p := by
  have hW : 0 < W := by omega
  rw [Nat.add_comm, Nat.add_mul_div_right _ _ hW, Nat.div_eq_of_lt ha, Nat.zero_add]

theorem lin_mod (W p a : Nat) (ha : a < W) : (p * W + a) % W = a := by
  rw [Nat.add_comm, Nat.add_mul_mod_self_right, Nat.mod_eq_of_lt ha]

theorem lin_inj {W p q a b : Nat} (ha : a < W) (hb : b < W) (h : p * W + a = q * W + b) :
    p = q ∧ a = b := by
  have h1 := congrArg (· / W) h
  have h2 := congrArg (· % W) h
  simp only [lin_div W p a ha, lin_div W q b hb, lin_mod W p a ha, lin_mod W q b hb] at h1 h2
  exact ⟨h1, h2⟩

theorem lin_lt {j rows n i : Nat} (hj : j < rows) (hi : i < n) : j * n + i < rows * n := by
  have : (j + 1) * n ≤ rows * n := Nat.mul_le_mul_right n hj
  rw [Nat.add_mul] at this
  omega

theorem fbIdx_inj {W x1 y1 rows cols : Nat} (hx : x1 + cols ≤ W) : Inj (fbIdx W x1 y1) rows cols := by
  intro j _ j' _ i hi i' hi' h
  unfold fbIdx at h
  have := lin_inj (W := W) (by omega) (by omega) h
  omega

theorem fbIdx_lt {W H x1 y1 rows cols j i : Nat} (hx : x1 + cols ≤ W) (hy : y1 + rows ≤ H)
    (hj : j < rows) (hi : i < cols) : fbIdx W x1 y1 j i < W * H := by
  unfold fbIdx
  have := lin_lt (j := y1 + j) (rows := H) (n := W) (i := x1 + i) (by omega) (by omega)
  rw [Nat.mul_comm W H]; exact this

/-- pixel `(x,y)` (with `x < W`) is cell `(j,i)` of the box iff its coordinates say so -/
theorem fbIdx_eq_iff {W x1 y1 cols j i x y : Nat} (hx : x1 + cols ≤ W) (hi : i < cols) (hxW : x < W) :
    fbIdx W x1 y1 j i = y * W + x ↔ (y1 + j = y ∧ x1 + i = x) := by
  unfold fbIdx
  constructor
  · intro h; exact lin_inj (by omega) hxW h
  · rintro ⟨rfl, rfl⟩; rfl

theorem ucIdx_inj (n rows : Nat) : Inj (ucIdx n) rows n := by
  intro j _ j' _ i hi i' hi' h
  unfold ucIdx at h
  exact lin_inj hi hi' h

theorem ucIdx_lt {n rows j i : Nat} (hj : j < rows) (hi : i < n) : ucIdx n j i < rows * n :=
  lin_lt hj hi

/-! ### clipping facts -/

/-- nothing is painted on this axis: no screen coordinate below the limit lies in the cursor -/
theorem clipAxis_none {pos hot size : Nat} {lim : Int} (h : clipAxis pos hot size lim = none) (x : Nat) :
    ¬ (0 ≤ (x:Int) - ((pos:Int) - hot) ∧ (x:Int) - ((pos:Int) - hot) < size ∧ (x:Int) < lim) := by
  unfold clipAxis at h
  by_cases h1 : (pos:Int) - hot < 0 <;> by_cases h2 : (pos:Int) - hot + size > lim <;>
    simp only [h1, h2, if_true, if_false] at h <;> split at h <;> first | omega | simp at h

/-- the painted segment: non-empty, below the limit, inside the cursor, aligned with the
hot-spot, and exactly the screen coordinates below the limit that lie in the cursor -/
theorem clipAxis_some {pos hot size : Nat} {lim : Int} {X : Seg} (h : clipAxis pos hot size lim = some X) :
    0 < X.len ∧ (X.start:Int) + X.len ≤ lim ∧ X.off + X.len ≤ size ∧
    (X.start:Int) - X.off = (pos:Int) - hot ∧
    ∀ x : Nat, (X.start ≤ x ∧ x < X.start + X.len) ↔
      (0 ≤ (x:Int) - ((pos:Int) - hot) ∧ (x:Int) - ((pos:Int) - hot) < size ∧ (x:Int) < lim) := by
  unfold clipAxis at h
  by_cases h1 : (pos:Int) - hot < 0 <;> by_cases h2 : (pos:Int) - hot + size > lim <;>
    simp only [h1, h2, if_true, if_false] at h <;> split at h <;>
    first
    | (simp at h; done)
    | (simp only [Option.some.injEq] at h; subst h
       refine ⟨?_, ?_, ?_, ?_, fun x => ?_⟩ <;> simp only [] <;> omega)

theorem effLimit_le (b : Bool) (d : Nat) : effLimit b d ≤ (d : Int) := by
  unfold effLimit; split <;> omega

/-! ### `tabulate?` -/

theorem tabulate?_spec {α : Type} {n : Nat} {f : Nat → Option α} {a : Array α}
    (h : tabulate? n f = some a) : a.size = n ∧ ∀ k, k < n → a[k]? = f k := by
  unfold tabulate? at h
  have := forM?_ind (fun k (acc : Array α) => acc.size = k ∧ ∀ i, i < k → acc[i]? = f i)
    (n := n) (s := #[]) (s' := a) ⟨rfl, fun i hi => by omega⟩
    (by
      intro k _ acc b ⟨hsz, hel⟩ hb
      cases hfk : f k with
      | none => simp [hfk] at hb
      | some x =>
        simp [hfk] at hb; subst hb
        refine ⟨by simp [hsz], fun i hi => ?_⟩
        by_cases hik : i = k
        · subst hik; rw [hfk, ← hsz]; exact Array.getElem?_push_size
        · have : i < k := by omega
          rw [← hel i this, Array.getElem?_push]
          split
          · omega
          · rfl) h
  exact this

theorem tabulate?_ok {α : Type} {n : Nat} {f : Nat → Option α} (hf : ∀ k, k < n → (f k).isSome) :
    ∃ a, tabulate? n f = some a := by
  unfold tabulate?
  obtain ⟨a, h, _⟩ := forM?_ok (fun _ (_ : Array α) => True) (n := n)
    (f := fun k acc => (f k).map acc.push) (s := #[]) trivial
    (by
      intro k hk acc _
      have := hf k hk
      cases hfk : f k with
      | none => simp [hfk] at this
      | some x => exact ⟨acc.push x, by simp, trivial⟩)
  exact ⟨a, h⟩

/-! ### well-formedness -/

structure Cursor.WF (c : Cursor) : Prop where
  maskSz : c.mask.size = rowBytes c.w * c.h
  richSz : ∀ r, c.rich = some r → r.size = c.w * c.h
  srcSz : ∀ sr, c.source = some sr → sr.size = rowBytes c.w * c.h
  alphaSz : ∀ a, c.alpha = some a → a.size = c.w * c.h
  hasPix : c.rich ≠ none ∨ c.source ≠ none

structure Screen.WF (s : Screen) : Prop where
  fbSz : s.fb.size = s.w * s.h
  bppPos : 0 < s.bpp
  cur : ∀ c, s.cursor = some c → c.WF

theorem rowByte_lt {w u : Nat} (hu : u < w) : u / 8 < rowBytes w := by
  unfold rowBytes; omega

theorem maskBit_isSome {bits : Array UInt8} {w h u v : Nat} (hsz : bits.size = rowBytes w * h)
    (hu : u < w) (hv : v < h) : (maskBit bits w u v).isSome := by
  unfold maskBit
  have : v * rowBytes w + u / 8 < bits.size := by
    rw [hsz, Nat.mul_comm (rowBytes w) h]; exact lin_lt hv (rowByte_lt hu)
  simp [Array.getElem?_eq_getElem this]

theorem makeRichPixels_size {v : Variant} {f : Format} {bpp : Nat} {c : Cursor} {r : Array Px}
    (h : makeRichPixels v f bpp c = some r) : r.size = c.w * c.h := by
  unfold makeRichPixels at h
  split at h
  · simp at h
  · exact (tabulate?_spec h).1

theorem makeRichPixels_ok (v : Variant) (f : Format) (bpp : Nat) {c : Cursor} (hc : c.WF)
    (hs : c.source ≠ none) : ∃ r, makeRichPixels v f bpp c = some r := by
  unfold makeRichPixels
  cases hsrc : c.source with
  | none => exact absurd hsrc hs
  | some src =>
    simp only []
    apply tabulate?_ok
    intro t ht
    have hw : 0 < c.w := by
      rcases Nat.eq_zero_or_pos c.w with h0 | h0
      · rw [h0] at ht; simp at ht
      · exact h0
    have h1 : t % c.w < c.w := Nat.mod_lt _ hw
    have h2 : t / c.w < c.h := (Nat.div_lt_iff_lt_mul hw).mpr (by rw [Nat.mul_comm]; exact ht)
    have := maskBit_isSome (hc.srcSz src hsrc) h1 h2
    cases hm : maskBit src c.w (t % c.w) (t / c.w) with
    | none => simp [hm] at this
    | some b => simp

theorem richOf_size {v : Variant} {f : Format} {bpp : Nat} {c : Cursor} {r : Array Px} (hc : c.WF)
    (h : richOf v f bpp c = some r) : r.size = c.w * c.h := by
  unfold richOf at h
  split at h
  · rename_i r' hr; simp at h; subst h; exact hc.richSz _ hr
  · exact makeRichPixels_size h

theorem richOf_ok (v : Variant) (f : Format) (bpp : Nat) {c : Cursor} (hc : c.WF) :
    ∃ r, richOf v f bpp c = some r := by
  unfold richOf
  cases hr : c.rich with
  | some r => exact ⟨r, rfl⟩
  | none =>
    simp only []
    apply makeRichPixels_ok v f bpp hc
    rcases hc.hasPix with h | h
    · exact absurd hr h
    · exact h

/-- the cursor as rfbShowCursor leaves it (richSource filled in) is still well-formed -/
theorem Cursor.WF.withRich {c : Cursor} (hc : c.WF) {r : Array Px} (hr : r.size = c.w * c.h) :
    ({ c with rich := some r } : Cursor).WF :=
  { maskSz := hc.maskSz
    richSz := by intro r' h; simp at h; subst h; exact hr
    srcSz := hc.srcSz
    alphaSz := hc.alphaSz
    hasPix := Or.inl (by simp) }

/-! ### `growUnder` -/

theorem growUnder_fields (s : Screen) (c : Cursor) :
    (growUnder s c).w = s.w ∧ (growUnder s c).h = s.h ∧ (growUnder s c).bpp = s.bpp ∧
    (growUnder s c).fmt = s.fmt ∧ (growUnder s c).fb = s.fb ∧ (growUnder s c).cursor = s.cursor ∧
    (growUnder s c).curX = s.curX ∧ (growUnder s c).curY = s.curY := by
  unfold growUnder; split <;> simp

/-- after the `malloc` step the buffer has room for the whole cursor -/
theorem growUnder_size (s : Screen) (c : Cursor) (hb : 0 < s.bpp) :
    c.w * c.h ≤ (growUnder s c).under.size := by
  unfold growUnder
  split
  · simp
  · rename_i h
    unfold Screen.underLen at h
    have h' : c.w * c.h * s.bpp ≤ s.under.size * s.bpp := Nat.le_of_not_lt h
    exact Nat.le_of_mul_le_mul_right h' hb

/-! ### case analysis of show / hide -/

/-- the three ways rfbShowCursor can go -/
inductive ShowCase (v : Variant) (s : Screen) (cx cy : Nat) (s1 : Screen) : Prop where
  | noCursor (h : s.cursor = none) (e : s1 = s)
  | offScreen (c : Cursor) (h : s.cursor = some c)
      (hclip : clipAxis cx c.xhot c.w (effLimit v.clipFixed s.w) = none ∨
               clipAxis cy c.yhot c.h (effLimit v.clipFixed s.h) = none)
      (e : s1 = growUnder s c)
  | painted (c : Cursor) (X Y : Seg) (under rich fb : Array Px) (h : s.cursor = some c)
      (hX : clipAxis cx c.xhot c.w (effLimit v.clipFixed s.w) = some X)
      (hY : clipAxis cy c.yhot c.h (effLimit v.clipFixed s.h) = some Y)
      (hsave : writeBox (ucIdx X.len)
          (fun j i _ => ((growUnder s c).fb[fbIdx s.w X.start Y.start j i]?).map Act.put)
          Y.len X.len (growUnder s c).under = some under)
      (hrich : richOf v s.fmt s.bpp c = some rich)
      (hpaint : writeBox (fbIdx s.w X.start Y.start)
          (paintAct s.fmt s.bpp { c with rich := some rich } rich X Y) Y.len X.len (growUnder s c).fb = some fb)
      (e : s1 = { growUnder s c with under := under, fb := fb, cursor := some { c with rich := some rich } })

theorem showCursor_cases {v : Variant} {s s1 : Screen} {cx cy : Nat}
    (h : showCursor v s cx cy = some s1) : ShowCase v s cx cy s1 := by
  unfold showCursor at h
  cases hc : s.cursor with
  | none => simp [hc] at h; exact .noCursor hc h.symm
  | some c =>
    simp only [hc] at h
    cases hX : clipAxis cx c.xhot c.w (effLimit v.clipFixed s.w) with
    | none => simp [hX] at h; exact .offScreen c hc (Or.inl hX) h.symm
    | some X =>
      simp only [hX] at h
      cases hY : clipAxis cy c.yhot c.h (effLimit v.clipFixed s.h) with
      | none => simp [hY] at h; exact .offScreen c hc (Or.inr hY) h.symm
      | some Y =>
        simp only [hY] at h
        obtain ⟨under, hsave, h⟩ := Option.bind_eq_some_iff.mp h
        obtain ⟨rich, hrich, h⟩ := Option.bind_eq_some_iff.mp h
        obtain ⟨fb, hpaint, h⟩ := Option.bind_eq_some_iff.mp h
        simp only [Option.some.injEq] at h
        exact .painted c X Y under rich fb hc hX hY hsave hrich hpaint h.symm

/-! ### every access of show is inside its buffer -/

theorem idx2_lt {w h u v n : Nat} (hn : n = w * h) (hu : u < w) (hv : v < h) : v * w + u < n := by
  rw [hn, Nat.mul_comm w h]; exact lin_lt hv hu

theorem paintAct_isSome {f : Format} {bpp : Nat} {c : Cursor} {rich : Array Px} {X Y : Seg} {j i : Nat}
    (hc : c.WF) (hr : rich.size = c.w * c.h) (hx : i + X.off < c.w) (hy : j + Y.off < c.h) (old : Px) :
    (paintAct f bpp c rich X Y j i (some old)).isSome := by
  unfold paintAct
  have hri : (j + Y.off) * c.w + (i + X.off) < rich.size := idx2_lt hr hx hy
  cases hal : c.alpha with
  | some al =>
    have hai : (j + Y.off) * c.w + (i + X.off) < al.size := idx2_lt (hc.alphaSz al hal) hx hy
    simp only [Array.getElem?_eq_getElem hai, Array.getElem?_eq_getElem hri]
    split <;> simp
  | none =>
    have := maskBit_isSome hc.maskSz hx hy
    cases hm : maskBit c.mask c.w (i + X.off) (j + Y.off) with
    | none => simp [hm] at this
    | some b => cases b <;> simp [hm, Array.getElem?_eq_getElem hri]

/-- geometric facts about a painted box used by all the in-bounds arguments -/
structure BoxOK (s : Screen) (c : Cursor) (X Y : Seg) : Prop where
  xW : X.start + X.len ≤ s.w
  yH : Y.start + Y.len ≤ s.h
  xc : X.off + X.len ≤ c.w
  yc : Y.off + Y.len ≤ c.h

theorem boxOK_of_clip {v : Variant} {s : Screen} {c : Cursor} {cx cy : Nat} {X Y : Seg}
    (hX : clipAxis cx c.xhot c.w (effLimit v.clipFixed s.w) = some X)
    (hY : clipAxis cy c.yhot c.h (effLimit v.clipFixed s.h) = some Y) : BoxOK s c X Y := by
  obtain ⟨_, h1, h2, _, _⟩ := clipAxis_some hX
  obtain ⟨_, h3, h4, _, _⟩ := clipAxis_some hY
  have := effLimit_le v.clipFixed s.w
  have := effLimit_le v.clipFixed s.h
  exact ⟨by omega, by omega, h2, h4⟩

theorem save_ok {s : Screen} {c : Cursor} {X Y : Seg} (hs : s.WF) (hb : BoxOK s c X Y) :
    ∃ under, writeBox (ucIdx X.len)
      (fun j i _ => ((growUnder s c).fb[fbIdx s.w X.start Y.start j i]?).map Act.put)
      Y.len X.len (growUnder s c).under = some under := by
  apply writeBox_ok
  · intro j hj i hi
    have h1 := ucIdx_lt (n := X.len) hj hi
    have h2 : Y.len * X.len ≤ c.h * c.w := Nat.mul_le_mul (by have := hb.yc; omega) (by have := hb.xc; omega)
    have h3 := growUnder_size s c hs.bppPos
    rw [Nat.mul_comm c.w c.h] at h3
    omega
  · intro j hj i hi _
    have : fbIdx s.w X.start Y.start j i < (growUnder s c).fb.size := by
      rw [(growUnder_fields s c).2.2.2.2.1, hs.fbSz]; exact fbIdx_lt hb.xW hb.yH hj hi
    simp [Array.getElem?_eq_getElem this]

theorem paint_ok {s : Screen} {c : Cursor} {X Y : Seg} {rich : Array Px} (hc : c.WF)
    (hr : rich.size = c.w * c.h) (hb : BoxOK s c X Y) (fb : Array Px) (hfb : fb.size = s.w * s.h) :
    ∃ fb', writeBox (fbIdx s.w X.start Y.start)
      (paintAct s.fmt s.bpp { c with rich := some rich } rich X Y) Y.len X.len fb = some fb' := by
  apply writeBox_ok
  · intro j hj i hi
    rw [hfb]; exact fbIdx_lt hb.xW hb.yH hj hi
  · intro j hj i hi old
    exact paintAct_isSome (c := { c with rich := some rich }) (hc.withRich hr) hr
      (by have := hb.xc; show i + X.off < c.w; omega) (by have := hb.yc; show j + Y.off < c.h; omega) old

/-- **no out-of-bounds access in rfbShowCursor**: on a well-formed screen the model's show, all of
whose accesses are checked, succeeds — for every variant, cursor, hot-spot and position -/
theorem show_ok (v : Variant) {s : Screen} (hs : s.WF) (cx cy : Nat) :
    ∃ s1, showCursor v s cx cy = some s1 := by
  unfold showCursor
  cases hcur : s.cursor with
  | none => exact ⟨s, rfl⟩
  | some c =>
    have hc := hs.cur c hcur
    simp only []
    cases hX : clipAxis cx c.xhot c.w (effLimit v.clipFixed s.w) with
    | none => exact ⟨_, rfl⟩
    | some X =>
      simp only []
      cases hY : clipAxis cy c.yhot c.h (effLimit v.clipFixed s.h) with
      | none => exact ⟨_, rfl⟩
      | some Y =>
        simp only []
        have hb := boxOK_of_clip hX hY
        obtain ⟨under, hsave⟩ := save_ok (c := c) hs hb
        obtain ⟨rich, hrich⟩ := richOf_ok v s.fmt s.bpp hc
        obtain ⟨fb, hpaint⟩ := paint_ok hc (richOf_size hc hrich) hb (growUnder s c).fb
          (by rw [(growUnder_fields s c).2.2.2.2.1]; exact hs.fbSz)
        rw [hsave]; simp only [Option.bind_some]
        rw [hrich]; simp only [Option.bind_some]
        rw [hpaint]; simp only [Option.bind_some]
        exact ⟨_, rfl⟩

/-- what show leaves behind is a well-formed screen of the same geometry -/
theorem show_wf {v : Variant} {s s1 : Screen} {cx cy : Nat} (hs : s.WF)
    (h : showCursor v s cx cy = some s1) :
    s1.WF ∧ s1.w = s.w ∧ s1.h = s.h ∧ s1.bpp = s.bpp ∧ s1.fmt = s.fmt ∧ s1.curX = s.curX ∧ s1.curY = s.curY := by
  have hg := fun c => growUnder_fields s c
  cases showCursor_cases h with
  | noCursor _ e => subst e; exact ⟨hs, rfl, rfl, rfl, rfl, rfl, rfl⟩
  | offScreen c hc _ e =>
    subst e
    obtain ⟨g1, g2, g3, g4, g5, g6, g7, g8⟩ := hg c
    exact ⟨⟨by rw [g5, g1, g2]; exact hs.fbSz, by rw [g3]; exact hs.bppPos, by rw [g6]; exact hs.cur⟩,
      g1, g2, g3, g4, g7, g8⟩
  | painted c X Y under rich fb hc hX hY hsave hrich hpaint e =>
    subst e
    obtain ⟨g1, g2, g3, g4, g5, g6, g7, g8⟩ := hg c
    have hcw := hs.cur c hc
    refine ⟨⟨?_, by simpa [g3] using hs.bppPos, ?_⟩, g1, g2, g3, g4, g7, g8⟩
    · show fb.size = (growUnder s c).w * (growUnder s c).h
      rw [(writeBox_frame hpaint).1, g5, g1, g2]; exact hs.fbSz
    · intro c' hc'
      simp only [Option.some.injEq] at hc'
      subst hc'
      exact hcw.withRich (richOf_size hcw hrich)

/-! ### save ; paint ; restore is the identity on the framebuffer -/

/-- the array-level core of `hide_show_id`: whatever the paint loop `gp` writes into the box, the
restore loop puts back exactly what the save loop saw — provided save and restore use the same
box and the same index maps -/
theorem save_paint_restore {W x1 y1 rows cols : Nat} {fb under under' fb' fb2 : Array Px}
    {gp : Nat → Nat → Option Px → Option Act} (hx : x1 + cols ≤ W)
    (hsave : writeBox (ucIdx cols) (fun j i _ => (fb[fbIdx W x1 y1 j i]?).map Act.put) rows cols under = some under')
    (hpaint : writeBox (fbIdx W x1 y1) gp rows cols fb = some fb')
    (hrest : writeBox (fbIdx W x1 y1) (fun j i _ => (under'[ucIdx cols j i]?).map Act.put) rows cols fb' = some fb2) :
    fb2 = fb := by
  apply Array.ext_getElem?
  intro m
  by_cases hm : ∃ j, j < rows ∧ ∃ i, i < cols ∧ fbIdx W x1 y1 j i = m
  · obtain ⟨j, hj, i, hi, rfl⟩ := hm
    obtain ⟨act, hg, hval⟩ := writeBox_val (fbIdx_inj hx) hrest j hj i hi
    obtain ⟨act2, hg2, hval2⟩ := writeBox_val (ucIdx_inj cols rows) hsave j hj i hi
    cases hu : under'[ucIdx cols j i]? with
    | none => simp [hu] at hg
    | some vu =>
      cases hf : fb[fbIdx W x1 y1 j i]? with
      | none => simp [hf] at hg2
      | some vf =>
        simp [hu] at hg; subst hg
        simp [hf] at hg2; subst hg2
        simp only [Act.apply] at hval hval2
        rw [hval, ← hu, hval2]
  · have hno : ∀ j, j < rows → ∀ i, i < cols → fbIdx W x1 y1 j i ≠ m :=
      fun j hj i hi e => hm ⟨j, hj, i, hi, e⟩
    rw [(writeBox_frame hrest).2 m hno, (writeBox_frame hpaint).2 m hno]

theorem restore_ok {W H x1 y1 rows cols : Nat} {fb under : Array Px} (hx : x1 + cols ≤ W) (hy : y1 + rows ≤ H)
    (hfb : fb.size = W * H) (hu : rows * cols ≤ under.size) :
    ∃ fb2, writeBox (fbIdx W x1 y1) (fun j i _ => (under[ucIdx cols j i]?).map Act.put) rows cols fb = some fb2 := by
  apply writeBox_ok
  · intro j hj i hi; rw [hfb]; exact fbIdx_lt hx hy hj hi
  · intro j hj i hi _
    have : ucIdx cols j i < under.size := Nat.lt_of_lt_of_le (ucIdx_lt hj hi) hu
    simp [Array.getElem?_eq_getElem this]

/-- rfbHideCursor right after rfbShowCursor (same client position, same cursor): every access is in
bounds and the framebuffer is what it was before the show; nothing else of the screen changes -/
theorem hide_after_show {v : Variant} {s s1 : Screen} {cx cy : Nat} (hs : s.WF)
    (h : showCursor v s cx cy = some s1) :
    ∃ s2, hideCursor v s1 cx cy = some s2 ∧ s2 = { s1 with fb := s.fb } := by
  cases showCursor_cases h with
  | noCursor hc e =>
    subst e
    exact ⟨s1, by simp [hideCursor, hc], rfl⟩
  | offScreen c hc hclip e =>
    subst e
    obtain ⟨g1, g2, g3, g4, g5, g6, g7, g8⟩ := growUnder_fields s c
    refine ⟨growUnder s c, ?_, by rw [← g5]⟩
    unfold hideCursor
    rw [g6, hc]; simp only [g1, g2]
    rcases hclip with hX | hY
    · rw [hX]
    · rw [hY]; split <;> rfl
  | painted c X Y under rich fb hc hX hY hsave hrich hpaint e =>
    subst e
    obtain ⟨g1, g2, g3, g4, g5, g6, g7, g8⟩ := growUnder_fields s c
    have hb := boxOK_of_clip hX hY
    have hcw := hs.cur c hc
    rw [g5] at hsave hpaint
    have hfbsz : fb.size = s.w * s.h := by rw [(writeBox_frame hpaint).1]; exact hs.fbSz
    have husz : Y.len * X.len ≤ under.size := by
      rw [(writeBox_frame hsave).1]
      have h2 : Y.len * X.len ≤ c.h * c.w :=
        Nat.mul_le_mul (by have := hb.yc; omega) (by have := hb.xc; omega)
      have h3 := growUnder_size s c hs.bppPos
      rw [Nat.mul_comm c.w c.h] at h3
      omega
    obtain ⟨fb2, hrest⟩ := restore_ok (W := s.w) (H := s.h) (x1 := X.start) (y1 := Y.start)
      (under := under) hb.xW hb.yH hfbsz husz
    have hid := save_paint_restore hb.xW hsave hpaint hrest
    refine ⟨_, ?_, rfl⟩
    unfold hideCursor
    simp only [g1, g2, hX, hY, hrest, hid, Option.map_some]

/-! ### what show paints: the clipped overlay -/

theorem paintAct_apply {f : Format} {bpp : Nat} {c : Cursor} {rich : Array Px} {X Y : Seg} {j i : Nat}
    {old : Px} {act : Act} (h : paintAct f bpp c rich X Y j i (some old) = some act) :
    act.apply (some old) = cursorPixel f bpp c rich (i + X.off) (j + Y.off) old := by
  unfold paintAct at h
  unfold cursorPixel
  cases hal : c.alpha with
  | some al =>
    simp only [hal] at h ⊢
    cases ha : al[(j + Y.off) * c.w + (i + X.off)]? with
    | none => simp [ha] at h
    | some a =>
      simp only [ha, Option.bind_some] at h ⊢
      by_cases h0 : a.toNat = 0
      · simp only [h0, if_true] at h ⊢
        simp at h; subst h; rfl
      · simp only [h0, if_false] at h ⊢
        cases hr : rich[(j + Y.off) * c.w + (i + X.off)]? with
        | none => simp [hr] at h
        | some sv => simp [hr] at h; subst h; simp [Act.apply]
  | none =>
    simp only [hal] at h ⊢
    cases hm : maskBit c.mask c.w (i + X.off) (j + Y.off) with
    | none => simp [hm] at h
    | some b =>
      cases b
      · simp [hm] at h; subst h; simp [Act.apply]
      · simp only [hm, Option.bind_some, if_true] at h ⊢
        cases hr : rich[(j + Y.off) * c.w + (i + X.off)]? with
        | none => simp [hr] at h
        | some sv => simp [hr] at h; subst h; simp [Act.apply]

/-- **what rfbShowCursor paints**: every framebuffer pixel `(x,y)` afterwards is the overlay of the
cursor (its pixels as `richOf` yields them) onto the old framebuffer, the hot-spot at `(cx,cy)`,
restricted to coordinates below the variant's limits -/
theorem show_overlay {v : Variant} {s s1 : Screen} {cx cy : Nat} {c : Cursor} {rich : Array Px}
    (hs : s.WF) (h : showCursor v s cx cy = some s1) (hcur : s.cursor = some c)
    (hrich : richOf v s.fmt s.bpp c = some rich) {x y : Nat} (hx : x < s.w) (hy : y < s.h) :
    s1.fb[y * s.w + x]? = (s.fb[y * s.w + x]?).bind
      (overlayAt s.fmt s.bpp c rich (effLimit v.clipFixed s.w) (effLimit v.clipFixed s.h) cx cy x y) := by
  have hlt : y * s.w + x < s.fb.size := by rw [hs.fbSz, Nat.mul_comm s.w s.h]; exact lin_lt hy hx
  have hold : s.fb[y * s.w + x]? = some s.fb[y * s.w + x] := Array.getElem?_eq_getElem hlt
  rw [hold, Option.bind_some]
  cases showCursor_cases h with
  | noCursor hc _ => rw [hcur] at hc; simp at hc
  | offScreen c' hc' hclip e =>
    rw [hcur] at hc'; simp only [Option.some.injEq] at hc'; subst hc'
    subst e
    rw [(growUnder_fields s c).2.2.2.2.1, hold]
    unfold overlayAt
    simp only []
    rw [if_neg]
    rintro ⟨h1, h2, h3, h4, h5, h6⟩
    rcases hclip with hX | hY
    · exact clipAxis_none hX x ⟨h1, h2, h3⟩
    · exact clipAxis_none hY y ⟨h4, h5, h6⟩
  | painted c' X Y under rich' fb hc' hX hY hsave hrich' hpaint e =>
    rw [hcur] at hc'; simp only [Option.some.injEq] at hc'; subst hc'
    rw [hrich] at hrich'; simp only [Option.some.injEq] at hrich'; subst hrich'
    subst e
    simp only []
    rw [(growUnder_fields s c).2.2.2.2.1] at hpaint
    have hb := boxOK_of_clip hX hY
    obtain ⟨_, _, _, hXa, hXi⟩ := clipAxis_some hX
    obtain ⟨_, _, _, hYa, hYi⟩ := clipAxis_some hY
    unfold overlayAt
    simp only []
    by_cases hin : (X.start ≤ x ∧ x < X.start + X.len) ∧ (Y.start ≤ y ∧ y < Y.start + Y.len)
    · obtain ⟨hxi, hyi⟩ := hin
      have hi : x - X.start < X.len := by omega
      have hj : y - Y.start < Y.len := by omega
      have hidx : fbIdx s.w X.start Y.start (y - Y.start) (x - X.start) = y * s.w + x :=
        (fbIdx_eq_iff hb.xW hi hx).mpr ⟨by omega, by omega⟩
      obtain ⟨act, hg, hval⟩ := writeBox_val (fbIdx_inj hb.xW) hpaint _ hj _ hi
      rw [hidx, hold] at hg hval
      have hcond := (hXi x).mp hxi
      have hcond2 := (hYi y).mp hyi
      rw [if_pos ⟨hcond.1, hcond.2.1, hcond.2.2, hcond2.1, hcond2.2.1, hcond2.2.2⟩]
      rw [hval, paintAct_apply hg]
      have e1 : ((x : Int) - ((cx : Int) - c.xhot)).toNat = x - X.start + X.off := by omega
      have e2 : ((y : Int) - ((cy : Int) - c.yhot)).toNat = y - Y.start + Y.off := by omega
      rw [e1, e2]
      rfl
    · have hno : ∀ j, j < Y.len → ∀ i, i < X.len → fbIdx s.w X.start Y.start j i ≠ y * s.w + x := by
        intro j hj i hi e
        have := (fbIdx_eq_iff hb.xW hi hx).mp e
        exact hin ⟨by omega, by omega⟩
      rw [(writeBox_frame hpaint).2 _ hno, hold, if_neg]
      rintro ⟨h1, h2, h3, h4, h5, h6⟩
      exact hin ⟨(hXi x).mpr ⟨h1, h2, h3⟩, (hYi y).mpr ⟨h4, h5, h6⟩⟩

/-- without a cursor show paints nothing -/
theorem show_noCursor {v : Variant} {s s1 : Screen} {cx cy : Nat} (h : showCursor v s cx cy = some s1)
    (hcur : s.cursor = none) : s1 = s := by
  unfold showCursor at h; simp [hcur] at h; exact h.symm

end VncModel.Cursor
