import VncModel.Cursor.Model
/-
Session level of the cursor model (C15): the clients of one screen, the pointer, the pending
regions, and the cursor bracket of rfbSendFramebufferUpdate.

C ↔ model
  cl->modifiedRegion / requestedRegion          ↔ `Client.modified` / `requested` as *pixel sets*
       (bitmaps; that the sra* functions implement set algebra is property C11 — the rectangle
        decomposition is not modelled; cl->copyRegion is always empty here: no CopyRect)
  cl->cursorX/Y, cursorWasMoved, cursorWasChanged,
  enableCursorShapeUpdates, useRichCursorEncoding,
  enableCursorPosUpdates                        ↔ the `Client` fields
  what the client has decoded so far            ↔ `Client.pic`
  rfbNewClient + SetEncodings                   ↔ `newClient`
  PointerEvent → rfbDefaultPtrAddEvent          ↔ `ptrEvent`
  FramebufferUpdateRequest                      ↔ `request`
  rfbMarkRectAsModified after the app painted   ↔ `draw`
  rfbSetCursor                                  ↔ `setCursor`
  rfbUpdateClient + rfbSendFramebufferUpdate    ↔ `sendUpdate` (Raw encoding, client uses the
       server's pixel format); a failing write ↔ `failArmed`
  one rfbProcessEvents                          ↔ `pump`
-/
namespace VncModel.Cursor

/-- a set of pixels of the `W×H` screen as a row-major bitmap -/
structure Rgn where
  bits : Array Bool
  deriving Repr

/-- membership of pixel `(x,y)` -/
def Rgn.mem (r : Rgn) (W x y : Nat) : Bool := decide (x < W) && (r.bits[y * W + x]?).getD false

def Rgn.ofFn (W H : Nat) (f : Nat → Nat → Bool) : Rgn :=
  ⟨Array.ofFn (n := W * H) fun k => f (k.val % W) (k.val / W)⟩

def Rgn.empty (W H : Nat) : Rgn := Rgn.ofFn W H fun _ _ => false
def Rgn.full (W H : Nat) : Rgn := Rgn.ofFn W H fun _ _ => true
def Rgn.or (W H : Nat) (a b : Rgn) : Rgn := Rgn.ofFn W H fun x y => a.mem W x y || b.mem W x y
def Rgn.and (W H : Nat) (a b : Rgn) : Rgn := Rgn.ofFn W H fun x y => a.mem W x y && b.mem W x y
def Rgn.sub (W H : Nat) (a b : Rgn) : Rgn := Rgn.ofFn W H fun x y => a.mem W x y && !b.mem W x y
def Rect.has (r : Rect) (x y : Nat) : Bool :=
  decide (r.x1 ≤ x) && decide (x < r.x2) && decide (r.y1 ≤ y) && decide (y < r.y2)
def Rgn.ofRect (W H : Nat) (r : Option Rect) : Rgn :=
  Rgn.ofFn W H fun x y => match r with | none => false | some r => r.has x y
/-- sraRgnEmpty (negated) -/
def Rgn.nonempty (r : Rgn) : Bool := r.bits.any id
/-- sraRgnOffset by `(dx,dy)`, as far as it stays on the screen (every use intersects the result
with an on-screen region) -/
def Rgn.offset (W H : Nat) (r : Rgn) (dx dy : Int) : Rgn :=
  Rgn.ofFn W H fun x y =>
    let sx : Int := (x : Int) - dx
    let sy : Int := (y : Int) - dy
    decide (0 ≤ sx) && decide (0 ≤ sy) && r.mem W sx.toNat sy.toNat

structure Client where
  id : Nat
  shape : Bool              -- enableCursorShapeUpdates
  useRich : Bool            -- useRichCursorEncoding
  posUpd : Bool             -- enableCursorPosUpdates
  curX : Nat                -- cl->cursorX / cursorY
  curY : Nat
  wasMoved : Bool
  wasChanged : Bool
  modified : Rgn
  requested : Rgn
  pic : Array Px            -- the client's picture (pixels in the client's format)
  tfmt : Option (Format × Nat)   -- SetPixelFormat: `none` = the server's format; else (format, bytes/pixel)
  useCopyRect : Bool := false
  copy : Rgn                -- cl->copyRegion (destination of the scheduled copy)
  copyDX : Int := 0
  copyDY : Int := 0
  deriving Repr

structure Sess where
  scr : Screen
  clients : List Client     -- screen->clientHead list (newest first)
  pointerClient : Option Nat
  failArmed : Option Nat    -- the next write to this client fails
  deriving Repr

/-- the encodings of a SetEncodings message that matter here -/
inductive Enc where
  | raw | copyRect | xCursor | richCursor | pointerPos
  deriving Repr, DecidableEq

inductive ClientKind where
  | raw | x | rich
  deriving Repr, DecidableEq

/-- the lists the three standard client kinds send -/
def ClientKind.encs : ClientKind → List Enc
  | .raw => [.raw]
  | .x => [.raw, .xCursor, .pointerPos]
  | .rich => [.raw, .richCursor, .pointerPos]

/-- the cursor-related flags while a SetEncodings list is read; `marked`:
rfbRedrawAfterHideCursor(cl,NULL) has been called -/
structure EncFlags where
  shape : Bool
  useRich : Bool
  posUpd : Bool
  wasMoved : Bool
  wasChanged : Bool
  useCopyRect : Bool
  marked : Bool
  deriving Repr, DecidableEq

/-- one `case` of the SetEncodings loop -/
def encStep (f : EncFlags) : Enc → EncFlags
  | .raw => f
  | .copyRect => { f with useCopyRect := true }
  | .xCursor => { f with marked := f.marked || !f.shape, shape := true, wasChanged := true }
  | .richCursor => { f with marked := f.marked || !f.shape, shape := true, useRich := true, wasChanged := true }
  | .pointerPos => if !f.posUpd then { f with posUpd := true, wasMoved := true } else f

/-- all flags reset ("Reset all flags to defaults"), the list read in order, then "Disabling cursor
position updates" when no cursor-shape encoding was listed -/
def encFlags (wasMoved0 : Bool) (l : List Enc) : EncFlags :=
  let f := l.foldl encStep ⟨false, false, false, wasMoved0, false, false, false⟩
  { f with posUpd := f.posUpd && f.shape }

/-- SetEncodings from client `c` (of a session whose screen is `scr`): the flags from the list; the
box of the (possibly painted) soft cursor is marked when a cursor-shape encoding is enabled, and —
repaired code, `Variant.setencFixed` — when cursor-shape support is taken away; a client that no
longer lists CopyRect gets its scheduled copy as pixel data -/
def clientSetEncodings (v : Variant) (scr : Screen) (c : Client) (l : List Enc) : Client :=
  let W := scr.w
  let H := scr.h
  let f := encFlags c.wasMoved l
  let mark := f.marked || (v.setencFixed && c.shape && !f.shape)
  let m1 := if mark then Rgn.or W H c.modified (Rgn.ofRect W H (cursorBox scr c.curX c.curY)) else c.modified
  let drop := !f.useCopyRect && c.copy.nonempty
  { c with shape := f.shape, useRich := f.useRich, posUpd := f.posUpd, wasChanged := f.wasChanged,
           wasMoved := f.wasMoved, useCopyRect := f.useCopyRect,
           modified := if drop then Rgn.or W H m1 c.copy else m1,
           copy := if drop then Rgn.empty W H else c.copy,
           copyDX := if drop then 0 else c.copyDX, copyDY := if drop then 0 else c.copyDY }

def setEncodings (v : Variant) (s : Sess) (id : Nat) (l : List Enc) : Sess :=
  { s with clients := s.clients.map fun c => if c.id == id then clientSetEncodings v s.scr c l else c }

/-- rfbNewClient, handshake, then SetEncodings with the list `l` (and SetPixelFormat `tfmt`) -/
def newClient (v : Variant) (s : Sess) (id : Nat) (l : List Enc) (tfmt : Option (Format × Nat) := none) : Sess :=
  let W := s.scr.w
  let H := s.scr.h
  let c : Client :=
    { id := id, shape := false, useRich := false, posUpd := false,
      curX := s.scr.curX, curY := s.scr.curY, wasMoved := false, wasChanged := false,
      modified := Rgn.full W H, requested := Rgn.empty W H, pic := Array.replicate (W * H) 0,
      tfmt := tfmt, copy := Rgn.empty W H }
  { s with clients := clientSetEncodings v s.scr c l :: s.clients }

/-- PointerEvent from client `id` (deferPtrUpdateTime = 0, not view-only) -/
def ptrEvent (s : Sess) (id x y buttons : Nat) : Sess :=
  match s.pointerClient with
  | some p => if p != id then s else go
  | none => go
where
  go : Sess :=
    let s1 := { s with pointerClient := if buttons = 0 then none else some id }
    -- rfbDefaultPtrAddEvent
    if x != s.scr.curX || y != s.scr.curY then
      { s1 with
        scr := { s.scr with curX := x, curY := y },
        clients := s.clients.map fun c =>
          if c.id == id then (if c.posUpd then { c with wasMoved := false } else c)
          else (if c.posUpd then { c with wasMoved := true } else c) }
    else s1

/-- FramebufferUpdateRequest with a rectangle inside the screen -/
def request (s : Sess) (id : Nat) (incr : Bool) (r : Rect) : Sess :=
  let W := s.scr.w
  let H := s.scr.h
  let rr := Rgn.ofRect W H (some r)
  { s with clients := s.clients.map fun c =>
      if c.id == id then
        { c with requested := Rgn.or W H c.requested rr,
                 modified := if incr then c.modified else Rgn.or W H c.modified rr,
                 copy := if incr then c.copy else Rgn.sub W H c.copy rr }
      else c }

/-- all clients: `modifiedRegion |= r` -/
def markModified (s : Sess) (r : Rgn) : Sess :=
  { s with clients := s.clients.map fun c => { c with modified := Rgn.or s.scr.w s.scr.h c.modified r } }

/-- the application paints `val x y` into a rectangle and calls rfbMarkRectAsModified -/
def draw (s : Sess) (r : Rect) (val : Nat → Nat → Px) : Option Sess :=
  (writeBox (fbIdx s.scr.w r.x1 r.y1) (fun j i _ => some (.put (val (r.x1 + i) (r.y1 + j))))
      (r.y2 - r.y1) (r.x2 - r.x1) s.scr.fb).map fun fb =>
    markModified { s with scr := { s.scr with fb := fb } } (Rgn.ofRect s.scr.w s.scr.h (some r))

/-- the cursor bitmap placed with its hot-spot at `(cx,cy)`, NOT clipped to the screen
(`sraRgnCreateRect(x, y, x+w, y+h)` in rfbScheduleCopyRegion), as a predicate on coordinates -/
def rawBox (c : Cursor) (cx cy : Nat) (x y : Int) : Bool :=
  decide ((cx : Int) - c.xhot ≤ x) && decide (x < (cx : Int) - c.xhot + c.w) &&
  decide ((cy : Int) - c.yhot ≤ y) && decide (y < (cy : Int) - c.yhot + c.h)

/-- rfbScheduleCopyRegion for one client; `dst` is the copy's destination, `(dx,dy)` the
displacement.  For a soft-cursor client the painted cursor must neither be overwritten by the copy
(cursor box ∩ destination → modified) nor be dragged along (the displaced cursor box ∩ destination
→ modified).  `Variant.copyNullFixed = false`: the original code dereferences `screen->cursor`
without a test — with no cursor installed it crashes (modelled as `none`). -/
def clientScheduleCopy (scr : Screen) (c : Client) (dst : Rgn) (dx dy : Int) : Client :=
  let W := scr.w
  let H := scr.h
  if !c.useCopyRect then { c with modified := Rgn.or W H c.modified dst } else
  -- an earlier copy not yet sent
  let (m1, cp1) :=
    if c.copy.nonempty then
      if c.copyDX != dx || c.copyDY != dy then (Rgn.or W H c.modified c.copy, Rgn.empty W H)
      else (Rgn.or W H c.modified (Rgn.and W H (Rgn.offset W H dst (-dx) (-dy)) c.copy), c.copy)
    else (c.modified, c.copy)
  let cp2 := Rgn.or W H cp1 dst
  -- modified pixels that are now copied somewhere: the copies are modified too
  let m2 := Rgn.or W H m1 (Rgn.and W H (Rgn.offset W H m1 dx dy) cp2)
  let m3 :=
    if c.shape then m2 else
    match scr.cursor with
    | none => m2
    | some cur =>
      let inDst := Rgn.ofFn W H fun x y => rawBox cur c.curX c.curY x y && cp2.mem W x y
      let dragged := Rgn.ofFn W H fun x y => rawBox cur c.curX c.curY ((x : Int) - dx) ((y : Int) - dy) && cp2.mem W x y
      Rgn.or W H (Rgn.or W H m2 inDst) dragged
  { c with modified := m3, copy := cp2, copyDX := dx, copyDY := dy }

/-- rfbDoCopyRect(screen, x1,y1,x2,y2, dx,dy): the rectangle is the destination; every pixel gets
the value of the pixel `(dx,dy)` before it (the row order of the memmoves makes the copy behave
like a simultaneous one); then rfbScheduleCopyRegion -/
def doCopy (s : Sess) (r : Rect) (dx dy : Int) : Option Sess :=
  let W := s.scr.w
  (writeBox (fbIdx W r.x1 r.y1)
      (fun j i _ =>
        (s.scr.fb[(((r.y1 + j : Nat) : Int) - dy).toNat * W + (((r.x1 + i : Nat) : Int) - dx).toNat]?).map .put)
      (r.y2 - r.y1) (r.x2 - r.x1) s.scr.fb).map fun fb =>
    let scr' := { s.scr with fb := fb }
    let dst := Rgn.ofRect s.scr.w s.scr.h (some r)
    { s with scr := scr', clients := s.clients.map fun c => clientScheduleCopy scr' c dst dx dy }

/-- rfbRedrawAfterHideCursor(cl, NULL) for every client without cursor-shape support -/
def redrawSoft (s : Sess) : Sess :=
  { s with clients := s.clients.map fun c =>
      if c.shape then c
      else { c with modified := Rgn.or s.scr.w s.scr.h c.modified
                      (Rgn.ofRect s.scr.w s.scr.h (cursorBox s.scr c.curX c.curY)) } }

/-- rfbSetCursor -/
def setCursor (s : Sess) (c : Option Cursor) : Sess :=
  let s1 := redrawSoft s                        -- old cursor (no-op when there is none)
  let s2 := { s1 with scr := { s1.scr with cursor := c } }
  let s3 := { s2 with clients := s2.clients.map fun cl => { cl with wasChanged := true } }
  redrawSoft s3

/-- FB_UPDATE_PENDING(cl) -/
def pending (s : Sess) (c : Client) : Bool :=
  (c.shape && c.wasChanged) ||
  (!c.shape && (c.curX != s.scr.curX || c.curY != s.scr.curY)) ||
  (c.posUpd && c.wasMoved) || c.copy.nonempty || c.modified.nonempty

/-- how pixels go to client `c` of a screen -/
def Client.wire (scr : Screen) (c : Client) : Wire :=
  { tr := transPx scr.fmt c.tfmt, bpp := match c.tfmt with | none => scr.bpp | some (_, b) => b }

/-- what the client makes of the CopyRect rectangles covering `rc` (sent in an order that makes
them behave like one simultaneous copy: property C02): pixel `p` gets the old picture's `p - (dx,dy)` -/
def picCopy (W H : Nat) (rc : Rgn) (dx dy : Int) (pic : Array Px) : Array Px :=
  Array.ofFn (n := W * H) fun k =>
    if rc.mem W (k.val % W) (k.val / W) then
      (pic[(((k.val / W : Nat) : Int) - dy).toNat * W + (((k.val % W : Nat) : Int) - dx).toNat]?).getD 0
    else (pic[k.val]?).getD 0

/-- what the client decodes from the Raw rectangles covering `upd` (pixels translated by `tr`) -/
def picUpdate (W H : Nat) (upd : Rgn) (tr : Px → Px) (fb pic : Array Px) : Array Px :=
  Array.ofFn (n := W * H) fun k =>
    if upd.mem W (k.val % W) (k.val / W) then tr ((fb[k.val]?).getD 0) else (pic[k.val]?).getD 0

/-- observations of one rfbSendFramebufferUpdate -/
structure UpdObs where
  id : Nat
  res : Bool
  before : Array Px         -- the framebuffer when rfbSendFramebufferUpdate starts (displayHook)
  painted : Array Px        -- the framebuffer at rfbVerifPreEncodeHook
  after : Array Px          -- the framebuffer when it returns (displayFinishedHook)
  curX : Nat
  curY : Nat
  ucl : Nat
  shape : Option (List UInt8)
  pos : Option (List UInt8)
  upd : Rgn
  copyRgn : Rgn             -- the region sent as CopyRect rectangles
  pic : Array Px
  cbpp : Nat                -- the client's bytes per pixel

def removeClient (s : Sess) (id : Nat) : Sess :=
  { s with clients := s.clients.filter (fun c => c.id != id),
           pointerClient := if s.pointerClient == some id then none else s.pointerClient }

/-- `sraRgnSubtract(cl->copyRegion, cl->modifiedRegion)`, the first thing rfbSendFramebufferUpdate
does to the regions -/
def copyLeft (s : Sess) (c : Client) : Rgn := Rgn.sub s.scr.w s.scr.h c.copy c.modified

/-- `(modified ∪ copyRegion) ∩ requested` -/
def upd0 (s : Sess) (c : Client) : Rgn :=
  Rgn.and s.scr.w s.scr.h (Rgn.or s.scr.w s.scr.h c.modified (copyLeft s c)) c.requested

/-- updateCopyRegion: the part of the copy whose destination and source were both requested -/
def updCopyRegion (s : Sess) (c : Client) : Rgn :=
  Rgn.and s.scr.w s.scr.h (Rgn.and s.scr.w s.scr.h (copyLeft s c) c.requested)
    (Rgn.offset s.scr.w s.scr.h c.requested c.copyDX c.copyDY)

/-- does rfbUpdateClient call rfbSendFramebufferUpdate? (`FB_UPDATE_PENDING && !sraRgnEmpty(requestedRegion)`) -/
def updCalled (s : Sess) (c : Client) : Bool := pending s c && c.requested.nonempty

/-- does rfbSendFramebufferUpdate get past its "nothing to send" `return TRUE`? -/
def updProceeds (s : Sess) (c : Client) : Bool :=
  !(!(upd0 s c).nonempty &&
    (c.shape || (c.curX == s.scr.curX && c.curY == s.scr.curY)) &&
    !(c.shape && c.wasChanged) && !(c.posUpd && c.wasMoved))

def willSend (s : Sess) (c : Client) : Bool := updCalled s c && updProceeds s c

/-- a client without cursor-shape support whose `cursorX/Y` lags behind the screen's -/
def softMoved (s : Sess) (c : Client) : Bool :=
  !c.shape && !(c.curX == s.scr.curX && c.curY == s.scr.curY)

/-- `cl->cursorX/Y` as used by show/hide in this update -/
def updCurX (s : Sess) (c : Client) : Nat := if softMoved s c then s.scr.curX else c.curX
def updCurY (s : Sess) (c : Client) : Nat := if softMoved s c then s.scr.curY else c.curY

/-- updateRegion: `(modified ∪ copy) ∩ requested` without what goes as CopyRect, plus the old and
the new cursor box when the pointer moved -/
def updRegion (s : Sess) (c : Client) : Rgn :=
  let W := s.scr.w
  let H := s.scr.h
  let upd0 := Rgn.sub W H (upd0 s c) (updCopyRegion s c)
  if softMoved s c then
    Rgn.or W H (Rgn.or W H upd0 (Rgn.ofRect W H (cursorBox s.scr c.curX c.curY)))
      (Rgn.ofRect W H (cursorBox s.scr s.scr.curX s.scr.curY))
  else upd0

/-- the cursor bracket of rfbSendFramebufferUpdate: rfbShowCursor (soft-cursor clients) — encode
(cursor-shape rectangle if due) — rfbHideCursor, the last also on the `updateFailed` path.
Result: the screen while the update is encoded, the screen afterwards, the shape rectangle. -/
def bracket (v : Variant) (s : Sess) (c : Client) : Option (Screen × Screen × Option (List UInt8)) :=
  (if c.shape then some s.scr else showCursor v s.scr (updCurX s c) (updCurY s c)).bind fun scr1 =>
  (if c.shape && c.wasChanged then (cursorShapeRect v scr1 (c.wire s.scr) c.useRich).map fun (sc, m) => (sc, some m)
   else some (scr1, none)).bind fun (scr2, shapeMsg) =>
  (if c.shape then some scr2 else hideCursor v scr2 (updCurX s c) (updCurY s c)).map fun scr3 =>
    (scr2, scr3, shapeMsg)

/-- the client record after an update was sent -/
def clientAfter (s : Sess) (c : Client) (fbSent : Array Px) : Client :=
  { c with curX := updCurX s c, curY := updCurY s c,
           wasChanged := if c.shape && c.wasChanged then false else c.wasChanged,
           wasMoved := if c.posUpd && c.wasMoved then false else c.wasMoved,
           modified := Rgn.sub s.scr.w s.scr.h
             (Rgn.sub s.scr.w s.scr.h (Rgn.or s.scr.w s.scr.h c.modified (copyLeft s c))
               (Rgn.sub s.scr.w s.scr.h (upd0 s c) (updCopyRegion s c)))
             (updCopyRegion s c),
           requested := Rgn.empty s.scr.w s.scr.h,
           copy := Rgn.empty s.scr.w s.scr.h, copyDX := 0, copyDY := 0,
           pic := picUpdate s.scr.w s.scr.h (updRegion s c) (c.wire s.scr).tr fbSent
             (picCopy s.scr.w s.scr.h (updCopyRegion s c) c.copyDX c.copyDY c.pic) }

/-- rfbUpdateClient → rfbSendFramebufferUpdate(cl, cl->modifiedRegion) for client `c` of `s`.
`none` = an out-of-bounds access in show/hide or a failed cursor conversion.
A failing write (`failArmed`) makes the update fail after the cursor was painted: the client is
closed and removed, the rest of the bracket is the same. -/
def sendUpdate (v : Variant) (s : Sess) (c : Client) : Option (Sess × Option UpdObs) :=
  if !updCalled s c then some (s, none) else
  if !updProceeds s c then
    -- rfbSendFramebufferUpdate returned early; it had already reduced copyRegion
    some ({ s with clients := s.clients.map fun d => if d.id == c.id then { c with copy := copyLeft s c } else d }, none)
  else
  (bracket v s c).map fun (scr2, scr3, shapeMsg) =>
    let c' := clientAfter s c scr2.fb
    let fails := s.failArmed == some c.id
    let obs : UpdObs :=
      { id := c.id, res := !fails, before := s.scr.fb, painted := scr2.fb, after := scr3.fb,
        curX := c'.curX, curY := c'.curY, ucl := scr2.underLen,
        shape := shapeMsg, pos := if c.posUpd && c.wasMoved then some (cursorPosRect scr2) else none,
        upd := updRegion s c, copyRgn := updCopyRegion s c, pic := c'.pic, cbpp := (c.wire s.scr).bpp }
    if fails then
      ({ removeClient { s with scr := scr3 } c.id with failArmed := none }, some obs)
    else
      ({ s with scr := scr3, clients := s.clients.map fun d => if d.id == c.id then c' else d }, some obs)

/-- one rfbProcessEvents: every client of the list (as it was at the start) is given the chance
to send an update -/
def pump (v : Variant) (s : Sess) : Option (Sess × List UpdObs) :=
  s.clients.foldl (fun acc c0 =>
    acc.bind fun (s, obs) =>
      match s.clients.find? (fun d => d.id == c0.id) with
      | none => some (s, obs)
      | some c => (sendUpdate v s c).map fun (s', o) => (s', match o with | some o => obs ++ [o] | none => obs))
    (some (s, []))

/-! ### histories -/

/-- executable well-formedness of an application-supplied cursor: bitmap sizes match the
declared size, and there are pixels to paint from -/
def Cursor.wfb (c : Cursor) : Bool :=
  c.mask.size == rowBytes c.w * c.h &&
  (match c.rich with | some r => r.size == c.w * c.h | none => true) &&
  (match c.source with | some r => r.size == rowBytes c.w * c.h | none => true) &&
  (match c.alpha with | some a => a.size == c.w * c.h | none => true) &&
  (c.rich.isSome || c.source.isSome)

/-- the operations of a session; ill-formed ones (duplicate client id, rectangle outside the
screen, ill-formed cursor) are ignored, as the harness answers `bad-op` -/
inductive Op where
  | client (id : Nat) (l : List Enc) (tfmt : Option (Format × Nat))
  | ptr (id x y buttons : Nat)
  | setenc (id : Nat) (l : List Enc)
  | req (id : Nat) (incr : Bool) (r : Rect)
  | draw (r : Rect) (val : Nat → Nat → Px)
  | cursor (c : Option Cursor)
  | failnext (id : Nat)
  | pump

def Rect.inside (r : Rect) (W H : Nat) : Bool :=
  decide (r.x1 < r.x2) && decide (r.y1 < r.y2) && decide (r.x2 ≤ W) && decide (r.y2 ≤ H)

def applyOp (v : Variant) (s : Sess) : Op → Option Sess
  | .client id l t => if s.clients.any (fun c => c.id == id) then some s else some (newClient v s id l t)
  | .setenc id l => some (setEncodings v s id l)
  | .ptr id x y b => if s.clients.any (fun c => c.id == id) then some (ptrEvent s id x y b) else some s
  | .req id incr r => if r.inside s.scr.w s.scr.h then some (request s id incr r) else some s
  | .draw r val => if r.inside s.scr.w s.scr.h then draw s r val else some s
  | .cursor c =>
    match c with
    | none => some (setCursor s none)
    | some c => if c.wfb then some (setCursor s (some c)) else some s
  | .failnext id => some { s with failArmed := some id }
  | .pump => (pump v s).map (·.1)

def runOps (v : Variant) (s : Sess) : List Op → Option Sess
  | [] => some s
  | op :: ops => (applyOp v s op).bind fun s' => runOps v s' ops

end VncModel.Cursor
