import VncModel.Cursor.Basic
import VncModel.Gen.C15
/-
Model of src/libvncserver/cursor.c (C15).

C ↔ model
  rfbCursor                                   ↔ `Cursor` (`source`/`rich`/`alpha` = NULL ↔ `none`)
  rfbScreenInfo.{width,height,frameBuffer,
     underCursorBuffer(Len),cursor,cursorX/Y} ↔ `Screen` (`underLen = under.size * bpp`)
  the clipping arithmetic of rfbShowCursor /
     rfbHideCursor, per axis                  ↔ `clipAxis` (limit: `effLimit`)
  rfbShowCursor / rfbHideCursor               ↔ `showCursor` / `hideCursor`
  sraClipRect2                                ↔ `clipRect2`
  the rectangle rfbRedrawAfterHideCursor adds ↔ `cursorBox`
  rfbMakeRichCursorFromXCursor                ↔ `makeRichPixels`
  rfbMakeXCursorFromRichCursor                ↔ `makeXFromRich`
  rfbMakeMaskForXCursor / …FromAlphaSource    ↔ `makeMaskForXCursor` / `makeMaskFromAlpha`
  rfbMakeXCursor (from strings)               ↔ `makeXCursor`
  rfbSendCursorShape / rfbSendCursorPos       ↔ `cursorShapeRect` / `cursorPosRect`

The model has two switches (`Variant`) because the unchanged code violates the property in two
places (docs/C15.md): `clipFixed = false` is the original clipping `if(x2>=width) x2=width-1`
(= clipping against `width-1`), `true` the repaired `if(x2>width) x2=width`;
`colourFixed = false` is the original unscaled `colour << shift` of rfbMakeRichCursorFromXCursor,
`true` the repaired `(max*colour/0xffff) << shift`.  The property theorems are about
`Variant.fixed`; the original variants are kept executable so that the check can tell "the code
behaves exactly like the known-defective original" from any other disagreement.
-/
namespace VncModel.Cursor
open VncModel.Gen.C15

structure Variant where
  clipFixed : Bool
  colourFixed : Bool
  /-- SetEncodings that takes cursor-shape support away marks the cursor box for redraw
  (fixes/C15-setenc-soft-cursor.diff); the original code does not -/
  setencFixed : Bool := true
  deriving Repr, DecidableEq

def Variant.fixed : Variant := ⟨true, true, true⟩
def Variant.orig : Variant := ⟨false, false, false⟩

/-- rfbPixelFormat of the server (true colour) -/
structure Format where
  redMax : Nat
  greenMax : Nat
  blueMax : Nat
  redShift : Nat
  greenShift : Nat
  blueShift : Nat
  deriving Repr, DecidableEq

structure Cursor where
  w : Nat
  h : Nat
  xhot : Nat
  yhot : Nat
  mask : Array UInt8
  source : Option (Array UInt8)
  rich : Option (Array Px)
  alpha : Option (Array UInt8)
  premult : Bool
  foreR : Nat
  foreG : Nat
  foreB : Nat
  backR : Nat
  backG : Nat
  backB : Nat
  deriving Repr

structure Screen where
  w : Nat
  h : Nat
  bpp : Nat                 -- bytes per pixel: 1, 2 or 4
  fmt : Format
  fb : Array Px             -- frameBuffer, w*h pixels, row stride w
  under : Array Px          -- underCursorBuffer (underCursorBufferLen = under.size * bpp)
  cursor : Option Cursor
  curX : Nat                -- screen->cursorX / cursorY
  curY : Nat
  deriving Repr

def Screen.underLen (s : Screen) : Nat := s.under.size * s.bpp

/-- `(width+7)/8` -/
def rowBytes (w : Nat) : Nat := (w + 7) / 8

/-- `(bits[v*rowBytes + u/8] << (u&7)) & 0x80`, `none` = index outside the bitmap -/
def maskBit (bits : Array UInt8) (w u v : Nat) : Option Bool :=
  (bits[v * rowBytes w + u / 8]?).map fun b => ((b.toNat <<< (u % 8)) &&& 0x80) != 0

/-! ### clipping -/

/-- the part of one axis that is painted: first screen coordinate, count, offset into the cursor -/
structure Seg where
  start : Nat
  len : Nat
  off : Nat
  deriving Repr, DecidableEq

/-- one axis of the clipping in rfbShowCursor/rfbHideCursor against `[0, lim)`:
```
x1 = cursorX - xhot; x2 = x1 + width;
if (x1 < 0) { i1 = -x1; x1 = 0; }
if (x2 > lim) x2 = lim;
x2 -= x1; if (x2 <= 0) return;
``` -/
def clipAxis (pos hot size : Nat) (lim : Int) : Option Seg :=
  let a : Int := (pos : Int) - (hot : Int)
  let b : Int := a + (size : Int)
  let off : Int := if a < 0 then -a else 0
  let a' : Int := if a < 0 then 0 else a
  let b' : Int := if b > lim then lim else b
  let n : Int := b' - a'
  if n ≤ 0 then none else some ⟨a'.toNat, n.toNat, off.toNat⟩

/-- the limit the code clips against: the repaired code clips against `dim`; the original
`if (x2 >= dim) x2 = dim-1` is clipping against `dim-1` -/
def effLimit (clipFixed : Bool) (dim : Nat) : Int :=
  if clipFixed then (dim : Int) else (dim : Int) - 1

/-- index of pixel `(x1+i, y1+j)` in the framebuffer: `(y1+j)*rowstride + (x1+i)*bpp`, in pixels -/
def fbIdx (W x1 y1 j i : Nat) : Nat := (y1 + j) * W + (x1 + i)

/-- index in underCursorBuffer: `j*x2*bpp + i*bpp`, in pixels -/
def ucIdx (n j i : Nat) : Nat := j * n + i

/-! ### colours and conversions -/

def scale16 (fixed : Bool) (max c : Nat) : Nat := if fixed then max * c / 0xffff else c

/-- `background`/`foreground` of rfbMakeRichCursorFromXCursor, as the `bpp` bytes that are copied -/
def xColour (v : Variant) (f : Format) (bpp r g b : Nat) : Px :=
  (((scale16 v.colourFixed f.redMax r <<< f.redShift) ||| (scale16 v.colourFixed f.greenMax g <<< f.greenShift)
    ||| (scale16 v.colourFixed f.blueMax b <<< f.blueShift)) % 2 ^ 32) % 2 ^ (8 * bpp)

/-- build an array from a partial function, failing if any element fails -/
def tabulate? {α : Type} (n : Nat) (f : Nat → Option α) : Option (Array α) :=
  forM? n (fun k acc => (f k).map acc.push) #[]

/-- rfbMakeRichCursorFromXCursor: pixel `(i,j)` is the foreground colour where the source bit is
set, else the background colour -/
def makeRichPixels (v : Variant) (f : Format) (bpp : Nat) (c : Cursor) : Option (Array Px) :=
  match c.source with
  | none => none
  | some src =>
    tabulate? (c.w * c.h) fun t =>
      (maskBit src c.w (t % c.w) (t / c.w)).map fun b =>
        if b then xColour v f bpp c.foreR c.foreG c.foreB else xColour v f bpp c.backR c.backG c.backB

/-- the pixels show paints from: `richSource`, created on demand -/
def richOf (v : Variant) (f : Format) (bpp : Nat) (c : Cursor) : Option (Array Px) :=
  match c.rich with
  | some r => some r
  | none => makeRichPixels v f bpp c

def orByte (a : Array UInt8) (i : Nat) (b : UInt8) : Option (Array UInt8) :=
  if h : i < a.size then some (a.set i (a[i] ||| b) h) else none

/-- one iteration of rfbMakeMaskForXCursor's inner loop: byte column `i = w-1-k` of row `j` -/
def maskForXStep (w height : Nat) (src : Array UInt8) (j k : Nat) (m : Array UInt8) : Option (Array UInt8) :=
  let i := w - 1 - k
  (src[j * w + i]?).bind fun c0 =>
  (if j > 0 then src[(j - 1) * w + i]? else some 0).bind fun c1 =>
  (if j + 1 < height then src[(j + 1) * w + i]? else some 0).bind fun c2 =>
  let c : UInt8 := c0 ||| c1 ||| c2
  (if i > 0 && (c &&& 0x80) != 0 then orByte m (j * w + i - 1) 0x01 else some m).bind fun m1 =>
  (if i + 1 < w && (c &&& 0x01) != 0 then orByte m1 (j * w + i + 1) 0x80 else some m1).bind fun m2 =>
  orByte m2 (j * w + i) ((c <<< 1) ||| c ||| (c >>> 1))

/-- rfbMakeMaskForXCursor -/
def makeMaskForXCursor (width height : Nat) (src : Array UInt8) : Option (Array UInt8) :=
  let w := rowBytes width
  forM? height (fun j m => forM? w (fun k m => maskForXStep w height src j k m) m)
    (Array.replicate (w * height) 0)

/-- clear the padding bits of every bitmap row (what building a bitmap from a string yields) -/
def clearPadding (width height : Nat) (bits : Array UInt8) : Array UInt8 :=
  let w := rowBytes width
  Array.ofFn (n := w * height) fun k =>
    let col := k.val % w
    let b := (bits[k.val]?).getD 0
    if (col + 1) * 8 ≤ width then b
    else b &&& UInt8.ofNat (0xff - (0xff >>> (width - col * 8)))

/-- rfbMakeXCursor(width,height,cursorString,maskString): the strings are given as bitmaps -/
def makeXCursor (width height : Nat) (src : Array UInt8) (mask : Option (Array UInt8)) : Option Cursor :=
  let s := clearPadding width height src
  let m := match mask with
    | some m => some (clearPadding width height m)
    | none => makeMaskForXCursor width height s
  m.map fun m =>
    { w := width, h := height, xhot := 0, yhot := 0, mask := m, source := some s, rich := none,
      alpha := none, premult := false, foreR := 0xffff, foreG := 0xffff, foreB := 0xffff,
      backR := 0, backG := 0, backB := 0 }

/-- state of the Floyd–Steinberg loop of rfbMakeMaskFromAlphaSource -/
structure FsState where
  err : Array Int
  cur : Int
  res : Array UInt8

/-- checked store into the error row -/
def setErr (e : Array Int) (i : Nat) (x : Int) : Option (Array Int) :=
  if h : i < e.size then some (e.set i x h) else none

/-- one pixel `(i,j)` of rfbMakeMaskFromAlphaSource's Floyd–Steinberg loop -/
def fsStep (width stride : Nat) (alpha : Array UInt8) (j i : Nat) (st : FsState) : Option FsState :=
  (alpha[i + width * j]?).bind fun a =>
  (st.err[i]?).bind fun e =>
  let cur0 : Int := st.cur + (a.toNat : Int) + e
  (if cur0 < 0x80 then some (cur0, st.res)
   else (orByte st.res (i / 8 + j * stride) (UInt8.ofNat (0x100 >>> ((i % 8) + 1)))).map fun r => (cur0 - 0xff, r)).bind
  fun (cur1, res) =>
  let right := Int.tdiv cur1 16
  let middle := Int.tdiv (cur1 * 5) 16
  let left := Int.tdiv (cur1 * 3) 16
  let cur2 := cur1 - (right + middle + left)
  (setErr st.err i right).bind fun err1 =>
  (if i > 0 then setErr err1 (i - 1) middle else some err1).bind fun err2 =>
  (if i > 1 then setErr err2 (i - 2) left else some err2).bind fun err3 =>
  some ⟨err3, cur2, res⟩

/-- rfbMakeMaskFromAlphaSource (C `/` on `int` truncates towards zero: `Int.tdiv`) -/
def makeMaskFromAlpha (width height : Nat) (alpha : Array UInt8) : Option (Array UInt8) :=
  let stride := rowBytes width
  let init : FsState := ⟨Array.replicate width 0, 0, Array.replicate (stride * height) 0⟩
  (forM? height (fun j st => forM? width (fun i st => fsStep width stride alpha j i st) st) init).map (·.res)

/-- channel value of a pixel: `((max << shift) & px) >> shift` -/
def chan (max shift px : Nat) : Nat := ((max <<< shift) &&& px) >>> shift

/-- "all zeros means we should interpolate to black+white ourselves" -/
def xInterp (bpp : Nat) (c : Cursor) : Bool :=
  c.backR == 0 && c.backG == 0 && c.backB == 0 && c.foreR == 0 && c.foreG == 0 && c.foreB == 0
    && (bpp == 1 || bpp == 2 || bpp == 4)

/-- `background` of rfbMakeXCursorFromRichCursor as the `bpp` bytes that are compared -/
def xBackground (f : Format) (bpp : Nat) (c : Cursor) : Px :=
  ((((f.redMax * c.backR / 0xffff) <<< f.redShift) ||| ((f.greenMax * c.backG / 0xffff) <<< f.greenShift)
    ||| ((f.blueMax * c.backB / 0xffff) <<< f.blueShift)) % 2 ^ 32) % 2 ^ (8 * bpp)

/-- does rich pixel `p` become a set bit of the X bitmap?  interpolating: grey level ≥ 128;
otherwise: the pixel differs from the background colour -/
def xBitSet (f : Format) (bpp : Nat) (c : Cursor) (p : Px) : Bool :=
  if xInterp bpp c then
    let r := 255 * chan f.redMax f.redShift p / f.redMax
    let g := 255 * chan f.greenMax f.greenShift p / f.greenMax
    let b := 255 * chan f.blueMax f.blueShift p / f.blueMax
    (r + g + b) / 3 ≥ 128
  else p != xBackground f bpp c

/-- one pixel `(i,j)` of rfbMakeXCursorFromRichCursor's loop -/
def xFromRichStep (f : Format) (bpp : Nat) (c : Cursor) (rich : Array Px) (j i : Nat) (src : Array UInt8) :
    Option (Array UInt8) :=
  (rich[j * c.w + i]?).bind fun p =>
    if xBitSet f bpp c p then orByte src (j * rowBytes c.w + i / 8) (UInt8.ofNat (0x80 >>> (i % 8))) else some src

/-- rfbMakeXCursorFromRichCursor: new `source` bitmap, and the (possibly rewritten) foreground -/
def makeXFromRich (f : Format) (bpp : Nat) (c : Cursor) : Option Cursor :=
  match c.rich with
  | none => none
  | some rich =>
    let c1 := if xInterp bpp c then { c with foreR := 0xffff, foreG := 0xffff, foreB := 0xffff } else c
    (forM? c.h (fun j src => forM? c.w (fun i src => xFromRichStep f bpp c rich j i src) src)
      (Array.replicate (rowBytes c.w * c.h) 0)).map fun src => { c1 with source := some src }

/-- the alpha-blending arithmetic of rfbShowCursor for one pixel (`amax = 255`) -/
def blend (f : Format) (bpp : Nat) (premult : Bool) (dval sval asrc : Nat) : Px :=
  let rmask := f.redMax <<< f.redShift
  let gmask := f.greenMax <<< f.greenShift
  let bmask := f.blueMax <<< f.blueShift
  let rdst := (dval &&& rmask) >>> f.redShift
  let gdst := (dval &&& gmask) >>> f.greenShift
  let bdst := (dval &&& bmask) >>> f.blueShift
  let rsrc := (sval &&& rmask) >>> f.redShift
  let gsrc := (sval &&& gmask) >>> f.greenShift
  let bsrc := (sval &&& bmask) >>> f.blueShift
  let rsrc := if premult then rsrc else asrc * rsrc / 255
  let gsrc := if premult then gsrc else asrc * gsrc / 255
  let bsrc := if premult then bsrc else asrc * bsrc / 255
  let rdst := rsrc + (255 - asrc) * rdst / 255
  let gdst := gsrc + (255 - asrc) * gdst / 255
  let bdst := bsrc + (255 - asrc) * bdst / 255
  (((rdst <<< f.redShift) ||| (gdst <<< f.greenShift) ||| (bdst <<< f.blueShift)) % 2 ^ 32) % 2 ^ (8 * bpp)

/-- the library's built-in default cursor (`myCursor` of main.c; regenerated by the T0 extractor
tools/consts/c15.py), in effect until the application calls rfbSetCursor -/
def defaultCursor : Cursor :=
  let col (l : List Nat) : Nat × Nat × Nat := match l with | [r, g, b] => (r, g, b) | _ => (0, 0, 0)
  let f := col defCursorFore
  let b := col defCursorBack
  { w := defCursorW, h := defCursorH, xhot := defCursorXhot, yhot := defCursorYhot,
    mask := (defCursorMask.map UInt8.ofNat).toArray, source := some (defCursorSource.map UInt8.ofNat).toArray,
    rich := none, alpha := none, premult := false,
    foreR := f.1, foreG := f.2.1, foreB := f.2.2, backR := b.1, backG := b.2.1, backB := b.2.2 }

/-! ### show / hide -/

/-- what the paint loops of rfbShowCursor do for cursor pixel `(i+i1, j+j1)`:
mask path — `if ((mask[(j+j1)*w+(i+i1)/8] << ((i+i1)&7)) & 0x80) memcpy(dest, rich+…, bpp)`;
alpha path — `asrc = *aptr; if (!asrc) continue; … memcpy(dest, &val, bpp)` -/
def paintAct (f : Format) (bpp : Nat) (c : Cursor) (rich : Array Px) (X Y : Seg) (j i : Nat)
    (old : Option Px) : Option Act :=
  let u := i + X.off
  let v := j + Y.off
  match c.alpha with
  | some al =>
    match al[v * c.w + u]? with
    | none => none
    | some a =>
      if a.toNat = 0 then some .skip
      else match old, rich[v * c.w + u]? with
        | some d, some sv => some (.put (blend f bpp c.premult d sv a.toNat))
        | _, _ => none
  | none =>
    match maskBit c.mask c.w u v with
    | none => none
    | some false => some .skip
    | some true => (rich[v * c.w + u]?).map .put

/-- the `if (underCursorBufferLen < bufSize) { free; malloc(bufSize) }` step -/
def growUnder (s : Screen) (c : Cursor) : Screen :=
  if s.underLen < c.w * c.h * s.bpp then { s with under := Array.replicate (c.w * c.h) 0 } else s

/-- rfbShowCursor(cl) with `cl->cursorX/Y = (cx, cy)`.  `none` = an access outside a buffer. -/
def showCursor (v : Variant) (s : Screen) (cx cy : Nat) : Option Screen :=
  match s.cursor with
  | none => some s
  | some c =>
    let s1 := growUnder s c
    match clipAxis cx c.xhot c.w (effLimit v.clipFixed s.w) with
    | none => some s1
    | some X =>
      match clipAxis cy c.yhot c.h (effLimit v.clipFixed s.h) with
      | none => some s1
      | some Y =>
        -- save: memcpy(underCursorBuffer + j*x2*bpp, frameBuffer + (y1+j)*rowstride + x1*bpp, x2*bpp)
        (writeBox (ucIdx X.len) (fun j i _ => (s1.fb[fbIdx s.w X.start Y.start j i]?).map .put)
            Y.len X.len s1.under).bind fun under =>
        (richOf v s.fmt s.bpp c).bind fun rich =>
        let c' := { c with rich := some rich }
        (writeBox (fbIdx s.w X.start Y.start) (paintAct s.fmt s.bpp c' rich X Y) Y.len X.len s1.fb).bind fun fb =>
        some { s1 with under := under, fb := fb, cursor := some c' }

/-- rfbHideCursor(cl): memcpy the saved rows back -/
def hideCursor (v : Variant) (s : Screen) (cx cy : Nat) : Option Screen :=
  match s.cursor with
  | none => some s
  | some c =>
    match clipAxis cx c.xhot c.w (effLimit v.clipFixed s.w) with
    | none => some s
    | some X =>
      match clipAxis cy c.yhot c.h (effLimit v.clipFixed s.h) with
      | none => some s
      | some Y =>
        (writeBox (fbIdx s.w X.start Y.start) (fun j i _ => (s.under[ucIdx X.len j i]?).map .put)
            Y.len X.len s.fb).map fun fb => { s with fb := fb }

/-! ### the rectangle marked for redraw -/

/-- sraClipRect2(&x,&y,&x2,&y2, cx,cy,cx2,cy2) -/
def clipRect2 (x y x2 y2 cx cy cx2 cy2 : Int) : Bool × Int × Int × Int × Int :=
  let x := if x < cx then cx else x
  let y := if y < cy then cy else y
  let x := if x ≥ cx2 then cx2 - 1 else x
  let y := if y ≥ cy2 then cy2 - 1 else y
  let x2 := if x2 ≤ cx then cx + 1 else x2
  let y2 := if y2 ≤ cy then cy + 1 else y2
  let x2 := if x2 > cx2 then cx2 else x2
  let y2 := if y2 > cy2 then cy2 else y2
  (decide (x2 > x) && decide (y2 > y), x, y, x2, y2)

/-- a rectangle `[x1,x2) × [y1,y2)` -/
structure Rect where
  x1 : Nat
  y1 : Nat
  x2 : Nat
  y2 : Nat
  deriving Repr, DecidableEq

/-- the rectangle rfbRedrawAfterHideCursor adds for a client whose `cursorX/Y` is `(cx,cy)` -/
def cursorBox (s : Screen) (cx cy : Nat) : Option Rect :=
  match s.cursor with
  | none => none
  | some c =>
    let x : Int := (cx : Int) - c.xhot
    let y : Int := (cy : Int) - c.yhot
    match clipRect2 x y (x + c.w) (y + c.h) 0 0 s.w s.h with
    | (true, x, y, x2, y2) => some ⟨x.toNat, y.toNat, x2.toNat, y2.toNat⟩
    | (false, _, _, _, _) => none

/-! ### pixel translation to a client's format -/

/-- the RFB colour-scaling rule of the translation tables: `(c*outMax + inMax/2) / inMax` -/
def scaleRfb (c inMax outMax : Nat) : Nat := (c * outMax + inMax / 2) / inMax

/-- what `cl->translateFn` makes of one pixel.  `none`: the client uses the server's format
(`PF_EQ`, rfbTranslateNone: the bytes are copied).  `some (cf, cb)`: a true-colour client format
`cf` of `cb` bytes per pixel in the server's byte order, each channel of which fits the pixel: every
table variant of translate.c (single table / three tables; the table machinery itself is
property C10) yields the three rescaled channels at the client's shifts. -/
def transPx (sf : Format) (t : Option (Format × Nat)) (p : Px) : Px :=
  match t with
  | none => p
  | some (cf, cb) =>
    ((scaleRfb ((p >>> sf.redShift) &&& sf.redMax) sf.redMax cf.redMax <<< cf.redShift) |||
     (scaleRfb ((p >>> sf.greenShift) &&& sf.greenMax) sf.greenMax cf.greenMax <<< cf.greenShift) |||
     (scaleRfb ((p >>> sf.blueShift) &&& sf.blueMax) sf.blueMax cf.blueMax <<< cf.blueShift)) % 2 ^ (8 * cb)

/-- how pixels go to one client: the translation of a pixel and the client's bytes per pixel -/
structure Wire where
  tr : Px → Px
  bpp : Nat

/-! ### cursor pseudo-rectangles -/

def be16 (n : Nat) : List UInt8 := [UInt8.ofNat (n / 256), UInt8.ofNat n]
def be32 (n : Nat) : List UInt8 :=
  [UInt8.ofNat (n / 16777216), UInt8.ofNat (n / 65536), UInt8.ofNat (n / 256), UInt8.ofNat n]

/-- rfbFramebufferUpdateRectHeader on the wire -/
def rectHeader (x y w h enc : Nat) : List UInt8 := be16 x ++ be16 y ++ be16 w ++ be16 h ++ be32 enc

/-- the `bpp` bytes of a pixel in the (little-endian) server format; with the client using the
server's format `cl->translateFn` is rfbTranslateNone, i.e. these bytes are sent as they are -/
def pxBytes (bpp : Nat) (p : Px) : List UInt8 :=
  (List.range bpp).map fun k => UInt8.ofNat (p / 2 ^ (8 * k))

/-- the on-demand conversion at the top of rfbSendCursorShape (it mutates the cursor):
RichCursor clients need `richSource`, XCursor clients need `source` -/
def convertFor (v : Variant) (f : Format) (bpp : Nat) (useRich : Bool) (c0 : Cursor) : Option Cursor :=
  if useRich then
    match c0.rich with
    | some _ => some c0
    | none => (makeRichPixels v f bpp c0).map fun r => { c0 with rich := some r }
  else
    match c0.source with
    | some _ => some c0
    | none => makeXFromRich f bpp c0

/-- `width == 1 && height == 1 && mask[0] == 0`: "no cursor" -/
def isEmptyCursor (c : Cursor) : Option Bool :=
  if c.w = 1 ∧ c.h = 1 then (c.mask[0]?).map (· == 0) else some false

/-- the payload after the rectangle header: XCursor — colours, bitmap, mask; RichCursor — the
pixels row by row (input row stride `width*bpp1`: consecutive in `richSource`), each translated by
`cl->translateFn` into the client's `bpp2` bytes, then the mask -/
def shapePayload (w : Wire) (useRich : Bool) (c : Cursor) : Option (List UInt8) :=
  let maskBytes := rowBytes c.w * c.h
  (tabulate? maskBytes fun k => c.mask[k]?).bind fun (mk : Array UInt8) =>
  if useRich then
    match c.rich with
    | none => none
    | some rich =>
      (tabulate? (c.w * c.h) fun k => rich[k]?).map fun (px : Array Px) =>
        (px.toList.map w.tr).flatMap (pxBytes w.bpp) ++ mk.toList
  else
    match c.source with
    | none => none
    | some src =>
      (tabulate? maskBytes fun k => src[k]?).map fun (sb : Array UInt8) =>
        [UInt8.ofNat (c.foreR / 256), UInt8.ofNat (c.foreG / 256), UInt8.ofNat (c.foreB / 256),
         UInt8.ofNat (c.backR / 256), UInt8.ofNat (c.backG / 256), UInt8.ofNat (c.backB / 256)]
        ++ sb.toList ++ mk.toList

/-- `sz_rfbFramebufferUpdateRectHeader + sz_rfbXCursorColors + maskBytes + dataBytes` -/
def shapeBytes (w : Wire) (useRich : Bool) (c : Cursor) : Nat :=
  let maskBytes := rowBytes c.w * c.h
  let dataBytes := if useRich then c.w * c.h * w.bpp else maskBytes
  sz_rfbFramebufferUpdateRectHeader + sz_rfbXCursorColors + maskBytes + dataBytes

/-- the rule of rfbSendCursorShape (since f43cbce): a cursor whose rectangle does not fit the
(empty) update buffer cannot be sent in one piece and is replaced by the empty cursor -/
def shapeFits (w : Wire) (useRich : Bool) (c : Cursor) : Bool :=
  shapeBytes w useRich c ≤ UPDATE_BUF_SIZE

/-- is the update buffer flushed before the cursor rectangle is assembled?  (`ublen` is
`sz_rfbFramebufferUpdateMsg` when rfbSendCursorShape runs: it is the first rectangle.)  The flush is
one more `write`; the bytes on the wire are the same. -/
def shapeFlushesFirst (w : Wire) (useRich : Bool) (c : Cursor) : Bool :=
  sz_rfbFramebufferUpdateMsg + shapeBytes w useRich c > UPDATE_BUF_SIZE

/-- rfbSendCursorShape on the screen's cursor: the (possibly converted) cursor and the bytes
appended to the update buffer.  `none`: a conversion failed (NULL bitmap).  A 1×1 cursor with
empty mask and a cursor that does not fit (`shapeFits`) are sent as the empty cursor. -/
def shapeCore (v : Variant) (f : Format) (bpp : Nat) (w : Wire) (cur : Option Cursor) (useRich : Bool) :
    Option (Option Cursor × List UInt8) :=
  let enc := if useRich then encRichCursor else encXCursor
  match cur with
  | none => some (none, rectHeader 0 0 0 0 enc)
  | some c0 =>
    (convertFor v f bpp useRich c0).bind fun c =>
    (isEmptyCursor c).bind fun isEmpty =>
      if isEmpty || !shapeFits w useRich c then some (some c, rectHeader 0 0 0 0 enc)
      else (shapePayload w useRich c).map fun pl =>
        (some c, rectHeader c.xhot c.yhot c.w c.h enc ++ pl)

def cursorShapeRect (v : Variant) (s : Screen) (w : Wire) (useRich : Bool) : Option (Screen × List UInt8) :=
  (shapeCore v s.fmt s.bpp w s.cursor useRich).map fun (c', m) => ({ s with cursor := c' }, m)

/-- rfbSendCursorPos -/
def cursorPosRect (s : Screen) : List UInt8 := rectHeader s.curX s.curY 0 0 encPointerPos

/-! ### reference composition (specification side of `painted_eq_overlay`) -/

/-- cursor pixel `(u,v)` laid over the framebuffer pixel `old`: the mask decides (alpha cursors:
the alpha value decides and blends) -/
def cursorPixel (f : Format) (bpp : Nat) (c : Cursor) (rich : Array Px) (u v : Nat) (old : Px) : Option Px :=
  match c.alpha with
  | some al =>
    (al[v * c.w + u]?).bind fun a =>
      if a.toNat = 0 then some old
      else (rich[v * c.w + u]?).map fun sv => blend f bpp c.premult old sv a.toNat
  | none =>
    (maskBit c.mask c.w u v).bind fun b => if b then rich[v * c.w + u]? else some old

/-- pixel `(x,y)` of "the framebuffer with the cursor laid over it", the cursor's hot-spot at the
pointer position `(cx,cy)`, restricted to screen coordinates `x < limX`, `y < limY` -/
def overlayAt (f : Format) (bpp : Nat) (c : Cursor) (rich : Array Px) (limX limY : Int)
    (cx cy x y : Nat) (old : Px) : Option Px :=
  let u : Int := (x : Int) - ((cx : Int) - c.xhot)
  let w : Int := (y : Int) - ((cy : Int) - c.yhot)
  if 0 ≤ u ∧ u < c.w ∧ (x : Int) < limX ∧ 0 ≤ w ∧ w < c.h ∧ (y : Int) < limY then
    cursorPixel f bpp c rich u.toNat w.toNat old
  else some old

end VncModel.Cursor
