import VncModel.Cursor.ShapeLemmas
/-
The whole-history invariant of C15: what every client's picture shows, pixel by pixel, and that
every operation of a session preserves it.
-/
namespace VncModel.Cursor

/-! ### what a client should see -/

/-- what pixel `(x,y)` of client `c`'s picture must show once it is up to date: the framebuffer
pixel, for a soft-cursor client with the cursor laid over it at the client's `cursorX/Y` -/
def expectedPx (v : Variant) (scr : Screen) (c : Client) (x y : Nat) : Option Px :=
  (scr.fb[y * scr.w + x]?).bind fun old =>
    if c.shape then some old else
    match scr.cursor with
    | none => some old
    | some cur =>
      (richOf v scr.fmt scr.bpp cur).bind fun rich =>
        overlayAt scr.fmt scr.bpp cur rich (effLimit v.clipFixed scr.w) (effLimit v.clipFixed scr.h)
          c.curX c.curY x y old

/-- per client: the picture has the screen's size and every pixel is either still pending in
`modifiedRegion` or shows what it should -/
def ClientInv (v : Variant) (scr : Screen) (c : Client) : Prop :=
  c.pic.size = scr.w * scr.h ∧
  ∀ x y, x < scr.w → y < scr.h →
    c.modified.mem scr.w x y = true ∨
    c.pic[y * scr.w + x]? = (expectedPx v scr c x y).map (transPx scr.fmt c.tfmt)

/-- well-formed session: well-formed screen, distinct client ids -/
def SessWF (s : Sess) : Prop := s.scr.WF ∧ (s.clients.map (·.id)).Nodup

def SessInv (v : Variant) (s : Sess) : Prop := SessWF s ∧ ∀ c ∈ s.clients, ClientInv v s.scr c

/-- no CopyRect is scheduled for the client (histories without rfbDoCopyRect / rfbScheduleCopyRect:
`Op` has no such operation; CopyRect scheduling is covered by `copy_never_drags_cursor` and the
correspondence run, the general convergence with CopyRect by property C02) -/
def NoCopy (scr : Screen) (c : Client) : Prop :=
  ∀ x y, x < scr.w → y < scr.h → c.copy.mem scr.w x y = false

def SessNoCopy (s : Sess) : Prop := ∀ c ∈ s.clients, NoCopy s.scr c

/-- two cursors that paint the same: same geometry, mask, alpha data and pixels -/
def SameLook (v : Variant) (f : Format) (bpp : Nat) : Option Cursor → Option Cursor → Prop
  | none, none => True
  | some a, some b =>
    a.w = b.w ∧ a.h = b.h ∧ a.xhot = b.xhot ∧ a.yhot = b.yhot ∧ a.mask = b.mask ∧ a.alpha = b.alpha ∧
    a.premult = b.premult ∧ richOf v f bpp a = richOf v f bpp b
  | _, _ => False

theorem SameLook.refl (v : Variant) (f : Format) (bpp : Nat) (c : Option Cursor) : SameLook v f bpp c c := by
  cases c <;> simp [SameLook]

theorem cursorPixel_congr {f : Format} {bpp : Nat} {a b : Cursor} (rich : Array Px) (hw : a.w = b.w)
    (hm : a.mask = b.mask) (ha : a.alpha = b.alpha) (hp : a.premult = b.premult) (u w : Nat) (old : Px) :
    cursorPixel f bpp a rich u w old = cursorPixel f bpp b rich u w old := by
  unfold cursorPixel; rw [hw, hm, ha, hp]

theorem overlayAt_congr {f : Format} {bpp : Nat} {a b : Cursor} (rich : Array Px) (hw : a.w = b.w) (hh : a.h = b.h)
    (hx : a.xhot = b.xhot) (hy : a.yhot = b.yhot)
    (hm : a.mask = b.mask) (ha : a.alpha = b.alpha) (hp : a.premult = b.premult)
    (lx ly : Int) (cx cy x y : Nat) (old : Px) :
    overlayAt f bpp a rich lx ly cx cy x y old = overlayAt f bpp b rich lx ly cx cy x y old := by
  unfold overlayAt; simp only [hw, hh, hx, hy, cursorPixel_congr rich hw hm ha hp]

/-- `expectedPx` only looks at the framebuffer pixel itself, the geometry, the cursor's look and
the client's mode and position -/
theorem expectedPx_congr {v : Variant} {scr scr' : Screen} {c c' : Client} {x y : Nat}
    (hfb : scr'.fb[y * scr.w + x]? = scr.fb[y * scr.w + x]?) (hw : scr'.w = scr.w) (hh : scr'.h = scr.h)
    (hf : scr'.fmt = scr.fmt) (hb : scr'.bpp = scr.bpp)
    (hl : SameLook v scr.fmt scr.bpp scr'.cursor scr.cursor)
    (hs : c'.shape = c.shape) (hx : c'.curX = c.curX) (hy : c'.curY = c.curY) :
    expectedPx v scr' c' x y = expectedPx v scr c x y := by
  unfold expectedPx
  rw [hw, hh, hf, hb, hfb, hs, hx, hy]
  cases hc' : scr'.cursor with
  | none =>
    cases hc : scr.cursor with
    | none => rfl
    | some b => rw [hc', hc] at hl; simp [SameLook] at hl
  | some a =>
    cases hc : scr.cursor with
    | none => rw [hc', hc] at hl; simp [SameLook] at hl
    | some b =>
      rw [hc', hc] at hl
      obtain ⟨l1, l2, l3, l4, l5, l6, l7, l8⟩ := hl
      simp only []
      rw [l8]
      congr 1
      funext old
      split
      · rfl
      · congr 1
        funext rich
        exact overlayAt_congr rich l1 l2 l3 l4 l5 l6 l7 _ _ _ _ _ _ old

/-- outside the cursor bitmap the overlay is the framebuffer -/
theorem overlayAt_outside {f : Format} {bpp : Nat} {cur : Cursor} {rich : Array Px} {lx ly : Int}
    {cx cy x y : Nat} {old : Px} (h : ¬ inCursorBox cur cx cy x y) :
    overlayAt f bpp cur rich lx ly cx cy x y old = some old := by
  unfold overlayAt
  simp only []
  rw [if_neg]
  intro h'
  exact h ⟨h'.1, h'.2.1, h'.2.2.2.1, h'.2.2.2.2.1⟩

/-- where no cursor is laid over it, a client should simply see the framebuffer -/
theorem expectedPx_plain {v : Variant} {scr : Screen} {c : Client} {x y : Nat} (hs : scr.WF)
    (h : c.shape = true ∨ scr.cursor = none ∨ ∀ cur, scr.cursor = some cur → ¬ inCursorBox cur c.curX c.curY x y) :
    expectedPx v scr c x y = scr.fb[y * scr.w + x]? := by
  unfold expectedPx
  cases hold : scr.fb[y * scr.w + x]? with
  | none => rfl
  | some old =>
    simp only [Option.bind_some]
    cases hsh : c.shape with
    | true => simp
    | false =>
      simp only [Bool.false_eq_true, if_false]
      cases hc : scr.cursor with
      | none => rfl
      | some cur =>
        simp only []
        obtain ⟨rich, hr⟩ := richOf_ok v scr.fmt scr.bpp (hs.cur cur hc)
        rw [hr, Option.bind_some]
        rcases h with h | h | h
        · rw [hsh] at h; simp at h
        · rw [hc] at h; simp at h
        · exact overlayAt_outside (h cur hc)

/-! ### the bracket keeps the cursor's look and well-formedness -/

theorem convertFor_richOf {v : Variant} {f : Format} {bpp : Nat} {r : Bool} {c0 c : Cursor}
    (h : convertFor v f bpp r c0 = some c) : richOf v f bpp c = richOf v f bpp c0 := by
  unfold convertFor at h
  cases r with
  | true =>
    simp only [if_true] at h
    cases hr : c0.rich with
    | some rr => simp only [hr, Option.some.injEq] at h; subst h; rfl
    | none =>
      simp only [hr] at h
      obtain ⟨rr, hrr, e⟩ := Option.map_eq_some_iff.mp h
      subst e
      simp [richOf, hr, hrr]
  | false =>
    simp only [Bool.false_eq_true, if_false] at h
    cases hsrc : c0.source with
    | some sr => simp only [hsrc, Option.some.injEq] at h; subst h; rfl
    | none =>
      simp only [hsrc] at h
      have := (convertFor_geom (v := v) (f := f) (bpp := bpp) (r := false) (c0 := c0) (c := c)
        (by unfold convertFor; simp [hsrc, h])).2.2.2.2.2.2.2.2 rfl
      unfold richOf
      rw [this.1]
      unfold makeXFromRich at h
      cases hr : c0.rich with
      | none => simp [hr] at h
      | some rich => rfl

theorem cursorShapeRect_look {v : Variant} {s s' : Screen} {w : Wire} {r : Bool} {m : List UInt8} (hs : s.WF)
    (h : cursorShapeRect v s w r = some (s', m)) :
    s'.WF ∧ SameLook v s.fmt s.bpp s'.cursor s.cursor := by
  unfold cursorShapeRect at h
  obtain ⟨⟨c', m'⟩, hcore, e⟩ := Option.map_eq_some_iff.mp h
  simp only [Prod.mk.injEq] at e
  obtain ⟨rfl, rfl⟩ := e
  cases hc : s.cursor with
  | none =>
    rw [hc, shapeCore_none] at hcore
    simp only [Option.some.injEq, Prod.mk.injEq] at hcore
    obtain ⟨rfl, _⟩ := hcore
    exact ⟨⟨hs.fbSz, hs.bppPos, by intro c h; simp at h⟩, by simp [SameLook]⟩
  | some c0 =>
    rw [hc] at hcore
    obtain ⟨c, rfl, hconv, _⟩ := shapeCore_some hcore
    obtain ⟨g1, g2, g3, g4, g5, g6, g7, _, _⟩ := convertFor_geom hconv
    refine ⟨⟨hs.fbSz, hs.bppPos, ?_⟩, ?_⟩
    · intro c1 h1
      simp only [Option.some.injEq] at h1
      subst h1
      exact convertFor_wf (hs.cur c0 hc) hconv
    · exact ⟨g1, g2, g3, g4, g5, g6, g7, convertFor_richOf hconv⟩

theorem show_look {v : Variant} {s s1 : Screen} {cx cy : Nat} (h : showCursor v s cx cy = some s1) :
    SameLook v s.fmt s.bpp s1.cursor s.cursor := by
  cases showCursor_cases h with
  | noCursor _ e => subst e; exact SameLook.refl _ _ _ _
  | offScreen c _ _ e => subst e; rw [(growUnder_fields s c).2.2.2.2.2.1]; exact SameLook.refl _ _ _ _
  | painted c X Y under rich fb hc _ _ _ hrich _ e =>
    subst e
    rw [hc]
    refine ⟨rfl, rfl, rfl, rfl, rfl, rfl, rfl, ?_⟩
    rw [hrich]; rfl

/-- after the bracket the screen is well-formed again and its cursor paints as before -/
theorem bracket_look {v : Variant} {s : Sess} {c : Client} {scr2 scr3 : Screen} {m : Option (List UInt8)}
    (hs : s.scr.WF) (h : bracket v s c = some (scr2, scr3, m)) :
    scr3.WF ∧ SameLook v s.scr.fmt s.scr.bpp scr3.cursor s.scr.cursor := by
  have hgeo := bracket_restores hs h
  unfold bracket at h
  obtain ⟨scr1, h1, h⟩ := Option.bind_eq_some_iff.mp h
  obtain ⟨⟨scr2', m'⟩, h2, h⟩ := Option.bind_eq_some_iff.mp h
  obtain ⟨scr3', h3, h⟩ := Option.map_eq_some_iff.mp h
  simp only [Prod.mk.injEq] at h
  obtain ⟨rfl, rfl, rfl⟩ := h
  cases hsh : c.shape with
  | true =>
    simp only [hsh, if_true, Option.some.injEq] at h1 h3
    subst h1; subst h3
    split at h2
    · obtain ⟨⟨sc, mm⟩, hh, e⟩ := Option.map_eq_some_iff.mp h2
      simp only [Prod.mk.injEq] at e
      obtain ⟨rfl, _⟩ := e
      exact cursorShapeRect_look hs hh
    · simp only [Option.some.injEq, Prod.mk.injEq] at h2
      obtain ⟨rfl, _⟩ := h2
      exact ⟨hs, SameLook.refl _ _ _ _⟩
  | false =>
    simp only [hsh, Bool.false_and, Bool.false_eq_true, if_false, Option.some.injEq, Prod.mk.injEq] at h1 h2 h3
    obtain ⟨rfl, _⟩ := h2
    obtain ⟨s2, hh, e⟩ := hide_after_show hs h1
    rw [hh] at h3
    simp only [Option.some.injEq] at h3
    subst h3; subst e
    obtain ⟨hwf1, g1, g2, _⟩ := show_wf hs h1
    refine ⟨⟨?_, hwf1.bppPos, hwf1.cur⟩, (show_look h1 : SameLook v s.scr.fmt s.scr.bpp scr1.cursor s.scr.cursor)⟩
    show s.scr.fb.size = scr1.w * scr1.h
    rw [g1, g2]; exact hs.fbSz

/-! ### an update establishes the invariant for its client and keeps it for the others -/

theorem picUpdate_size (W H : Nat) (upd : Rgn) (tr : Px → Px) (fb pic : Array Px) :
    (picUpdate W H upd tr fb pic).size = W * H := by
  simp [picUpdate]

theorem picUpdate_get {W H : Nat} {upd : Rgn} {tr : Px → Px} {fb pic : Array Px} {x y : Nat} (hx : x < W) (hy : y < H)
    (hfb : fb.size = W * H) (hp : pic.size = W * H) :
    (picUpdate W H upd tr fb pic)[y * W + x]? =
      if upd.mem W x y then (fb[y * W + x]?).map tr else pic[y * W + x]? := by
  have hlt : y * W + x < W * H := by rw [Nat.mul_comm W H]; exact lin_lt hy hx
  unfold picUpdate
  rw [Array.getElem?_ofFn]
  simp only [hlt, dite_true, lin_mod W y x hx, lin_div W y x hx]
  split
  · rw [Array.getElem?_eq_getElem (by rw [hfb]; exact hlt)]; rfl
  · rw [Array.getElem?_eq_getElem (by rw [hp]; exact hlt)]; rfl

theorem picCopy_size (W H : Nat) (rc : Rgn) (dx dy : Int) (pic : Array Px) : (picCopy W H rc dx dy pic).size = W * H := by
  simp [picCopy]

theorem picCopy_get_out {W H : Nat} {rc : Rgn} {dx dy : Int} {pic : Array Px} {x y : Nat} (hx : x < W) (hy : y < H)
    (hp : pic.size = W * H) (hrc : rc.mem W x y = false) :
    (picCopy W H rc dx dy pic)[y * W + x]? = pic[y * W + x]? := by
  have hlt : y * W + x < W * H := by rw [Nat.mul_comm W H]; exact lin_lt hy hx
  unfold picCopy
  rw [Array.getElem?_ofFn]
  simp only [hlt, dite_true, lin_mod W y x hx, lin_div W y x hx, hrc, Bool.false_eq_true, if_false]
  rw [Array.getElem?_eq_getElem (by rw [hp]; exact hlt)]; rfl

/-- without a scheduled copy the region arithmetic of rfbSendFramebufferUpdate reduces to
`modified ∩ requested` -/
theorem noCopy_mems {s : Sess} {c : Client} (hn : NoCopy s.scr c) {x y : Nat} (hx : x < s.scr.w) (hy : y < s.scr.h) :
    (copyLeft s c).mem s.scr.w x y = false ∧ (updCopyRegion s c).mem s.scr.w x y = false ∧
    (upd0 s c).mem s.scr.w x y = (c.modified.mem s.scr.w x y && c.requested.mem s.scr.w x y) := by
  have h1 : (copyLeft s c).mem s.scr.w x y = false := by
    unfold copyLeft; rw [Rgn.mem_sub _ _ hx hy, hn x y hx hy]; rfl
  refine ⟨h1, ?_, ?_⟩
  · unfold updCopyRegion; rw [Rgn.mem_and _ _ hx hy, Rgn.mem_and _ _ hx hy, h1]; rfl
  · unfold upd0; rw [Rgn.mem_and _ _ hx hy, Rgn.mem_or _ _ hx hy, h1]; simp

/-- moving only the client's `cursorX/Y` -/
def Client.at (c : Client) (x y : Nat) : Client := { c with curX := x, curY := y }

theorem expectedPx_soft_show {v : Variant} {scr scr2 : Screen} {c : Client} {ux uy x y : Nat} (hs : scr.WF)
    (hsh : c.shape = false) (h : showCursor v scr ux uy = some scr2) (hx : x < scr.w) (hy : y < scr.h) :
    scr2.fb[y * scr.w + x]? = expectedPx v scr (c.at ux uy) x y := by
  unfold expectedPx
  simp only [Client.at, hsh, Bool.false_eq_true, if_false]
  cases hc : scr.cursor with
  | none =>
    rw [show_noCursor h hc]
    cases scr.fb[y * scr.w + x]? <;> rfl
  | some cur =>
    obtain ⟨rich, hr⟩ := richOf_ok v scr.fmt scr.bpp (hs.cur cur hc)
    rw [show_overlay hs h hc hr hx hy]
    simp only [hr, Option.bind_some]

theorem clientAfter_inv {v : Variant} {s : Sess} {c : Client} {scr2 scr3 : Screen} {m : Option (List UInt8)}
    (hs : s.scr.WF) (hci : ClientInv v s.scr c) (hn : NoCopy s.scr c)
    (hb : bracket v s c = some (scr2, scr3, m)) :
    ClientInv v scr3 (clientAfter s c scr2.fb) := by
  obtain ⟨hfb3, hw3, hh3, hbpp3, hfmt3, _, _⟩ := bracket_restores hs hb
  obtain ⟨hwf3, hlook⟩ := bracket_look hs hb
  obtain ⟨hpsz, hpix⟩ := hci
  have hfb2sz : scr2.fb.size = s.scr.w * s.scr.h := by
    cases hsh : c.shape with
    | true => rw [bracket_shape_unpainted hsh hb]; exact hs.fbSz
    | false =>
      obtain ⟨h1, _⟩ := bracket_soft_painted hsh hb
      obtain ⟨hwf, g1, g2, _⟩ := show_wf hs h1
      rw [hwf.fbSz, g1, g2]
  refine ⟨by rw [hw3, hh3]; exact picUpdate_size _ _ _ _ _ _, ?_⟩
  intro x y hx hy
  rw [hw3] at hx ⊢; rw [hh3] at hy
  rw [hfmt3]
  have htf : (clientAfter s c scr2.fb).tfmt = c.tfmt := rfl
  rw [htf]
  -- the expectation after the update, in terms of the screen before it
  have hexp : expectedPx v scr3 (clientAfter s c scr2.fb) x y =
      expectedPx v s.scr (c.at (updCurX s c) (updCurY s c)) x y :=
    expectedPx_congr (by rw [hfb3]) hw3 hh3 hfmt3 hbpp3 hlook rfl rfl rfl
  obtain ⟨hcl0, huc0, hu0⟩ := noCopy_mems hn hx hy
  show (Rgn.sub s.scr.w s.scr.h
        (Rgn.sub s.scr.w s.scr.h (Rgn.or s.scr.w s.scr.h c.modified (copyLeft s c))
          (Rgn.sub s.scr.w s.scr.h (upd0 s c) (updCopyRegion s c))) (updCopyRegion s c)).mem s.scr.w x y = true ∨
    (picUpdate s.scr.w s.scr.h (updRegion s c) (transPx s.scr.fmt c.tfmt) scr2.fb
      (picCopy s.scr.w s.scr.h (updCopyRegion s c) c.copyDX c.copyDY c.pic))[y * s.scr.w + x]? = _
  rw [hexp, picUpdate_get hx hy hfb2sz (picCopy_size _ _ _ _ _ _), picCopy_get_out hx hy hpsz huc0,
    Rgn.mem_sub _ _ hx hy, Rgn.mem_sub _ _ hx hy, Rgn.mem_or _ _ hx hy, Rgn.mem_sub _ _ hx hy, hcl0, huc0, hu0]
  by_cases hu : (updRegion s c).mem s.scr.w x y = true
  · right
    rw [if_pos hu]
    cases hsh : c.shape with
    | true =>
      rw [bracket_shape_unpainted hsh hb,
        expectedPx_plain (c := c.at (updCurX s c) (updCurY s c)) hs (Or.inl (show (c.at _ _).shape = true from hsh))]
    | false =>
      obtain ⟨h1, _⟩ := bracket_soft_painted hsh hb
      rw [expectedPx_soft_show hs hsh h1 hx hy]
  · rw [if_neg hu]
    cases hmod : c.modified.mem s.scr.w x y with
    | true =>
      cases hreq : c.requested.mem s.scr.w x y with
      | true => exact absurd (updRegion_covers_modified hx hy hmod hreq) hu
      | false => left; simp [hmod, hreq]
    | false =>
      right
      rcases hpix x y hx hy with h | h
      · rw [hmod] at h; simp at h
      · rw [h]
        cases hmv : softMoved s c with
        | false =>
          have e1 : updCurX s c = c.curX := by simp [updCurX, hmv]
          have e2 : updCurY s c = c.curY := by simp [updCurY, hmv]
          rw [e1, e2]; rfl
        | true =>
          have hno : ∀ cur, s.scr.cursor = some cur →
              ¬ inCursorBox cur c.curX c.curY x y ∧ ¬ inCursorBox cur s.scr.curX s.scr.curY x y := by
            intro cur hcur
            constructor
            · intro hin; exact hu (updRegion_covers_boxes hcur hmv hx hy (Or.inl hin))
            · intro hin; exact hu (updRegion_covers_boxes hcur hmv hx hy (Or.inr hin))
          have e1 : updCurX s c = s.scr.curX := by simp [updCurX, hmv]
          have e2 : updCurY s c = s.scr.curY := by simp [updCurY, hmv]
          rw [expectedPx_plain hs (Or.inr (Or.inr fun cur hcur => (hno cur hcur).1)),
            expectedPx_plain hs (Or.inr (Or.inr fun cur hcur => by
              simp only [Client.at, e1, e2]; exact (hno cur hcur).2))]

/-- a bystander's invariant survives another client's update -/
theorem bystander_inv {v : Variant} {s : Sess} {c d : Client} {scr2 scr3 : Screen} {m : Option (List UInt8)}
    (hs : s.scr.WF) (hdi : ClientInv v s.scr d) (hb : bracket v s c = some (scr2, scr3, m)) :
    ClientInv v scr3 d := by
  obtain ⟨hfb3, hw3, hh3, hbpp3, hfmt3, _, _⟩ := bracket_restores hs hb
  obtain ⟨_, hlook⟩ := bracket_look hs hb
  obtain ⟨hpsz, hpix⟩ := hdi
  refine ⟨by rw [hw3, hh3]; exact hpsz, ?_⟩
  intro x y hx hy
  rw [hw3] at hx ⊢; rw [hh3] at hy
  rw [hfmt3, expectedPx_congr (c' := d) (c := d) (by rw [hfb3]) hw3 hh3 hfmt3 hbpp3 hlook rfl rfl rfl]
  exact hpix x y hx hy

/-! ### `sendUpdate` and `pump` preserve the invariant -/

theorem ids_map_replace (l : List Client) (cid : Nat) (c' : Client) (hc : c'.id = cid) :
    (l.map fun d => if d.id == cid then c' else d).map (·.id) = l.map (·.id) := by
  rw [List.map_map]
  apply List.map_congr_left
  intro d _
  by_cases h : d.id = cid
  · simp [h, hc]
  · simp [h]

theorem sendUpdate_wf {v : Variant} {s s' : Sess} {c : Client} {o : Option UpdObs} (hs : SessWF s)
    (h : sendUpdate v s c = some (s', o)) : SessWF s' ∧ s'.scr.fb = s.scr.fb := by
  refine ⟨?_, sendUpdate_fb hs.1 h⟩
  rcases sendUpdate_cases h with ⟨_, rfl, _⟩ | ⟨_, _, _, rfl⟩ |
    ⟨_, scr2, scr3, m, obs, hb, hscr, _, _, _, _, _, _, _, _, _, hcl⟩
  · exact hs
  · refine ⟨hs.1, ?_⟩
    have e := ids_map_replace s.clients c.id { c with copy := copyLeft s c } rfl
    exact e ▸ hs.2
  · refine ⟨by rw [hscr]; exact (bracket_look hs.1 hb).1, ?_⟩
    rw [hcl]
    split
    · exact List.Nodup.sublist (List.Sublist.map _ List.filter_sublist) hs.2
    · rw [ids_map_replace s.clients c.id (clientAfter s c scr2.fb) rfl]; exact hs.2

/-- changing only `copyRegion` does not touch the picture invariant -/
theorem ClientInv.copy_irrelevant {v : Variant} {scr : Screen} {c : Client} (h : ClientInv v scr c) (r : Rgn) :
    ClientInv v scr { c with copy := r } := h

theorem sendUpdate_inv {v : Variant} {s s' : Sess} {c : Client} {o : Option UpdObs} (hi : SessInv v s)
    (hn : SessNoCopy s) (hc : c ∈ s.clients) (h : sendUpdate v s c = some (s', o)) : SessInv v s' := by
  refine ⟨(sendUpdate_wf hi.1 h).1, ?_⟩
  rcases sendUpdate_cases h with ⟨_, rfl, _⟩ | ⟨_, _, _, rfl⟩ |
    ⟨_, scr2, scr3, m, obs, hb, hscr, _, _, _, _, _, _, _, _, _, hcl⟩
  · exact hi.2
  · intro d' hd'
    obtain ⟨d, hd, rfl⟩ := List.mem_map.mp hd'
    by_cases hid : d.id = c.id
    · simp only [hid, beq_self_eq_true, if_true]
      exact (hi.2 c hc).copy_irrelevant _
    · have : (d.id == c.id) = false := by simp [hid]
      simp only [this, Bool.false_eq_true, if_false]
      exact hi.2 d hd
  · intro d' hd'
    rw [hscr]
    rw [hcl] at hd'
    split at hd'
    · exact bystander_inv hi.1.1 (hi.2 d' (List.mem_filter.mp hd').1) hb
    · obtain ⟨d, hd, rfl⟩ := List.mem_map.mp hd'
      by_cases hid : d.id = c.id
      · simp only [hid, beq_self_eq_true, if_true]
        exact clientAfter_inv hi.1.1 (hi.2 c hc) (hn c hc) hb
      · have : (d.id == c.id) = false := by simp [hid]
        simp only [this, Bool.false_eq_true, if_false]
        exact bystander_inv hi.1.1 (hi.2 d hd) hb

theorem sendUpdate_nocopy {v : Variant} {s s' : Sess} {c : Client} {o : Option UpdObs} (hs : s.scr.WF)
    (hn : SessNoCopy s) (hc : c ∈ s.clients) (h : sendUpdate v s c = some (s', o)) : SessNoCopy s' := by
  rcases sendUpdate_cases h with ⟨_, rfl, _⟩ | ⟨_, _, _, rfl⟩ |
    ⟨_, scr2, scr3, m, obs, hb, hscr, _, _, _, _, _, _, _, _, _, hcl⟩
  · exact hn
  · intro d' hd'
    obtain ⟨d, hd, rfl⟩ := List.mem_map.mp hd'
    by_cases hid : d.id = c.id
    · simp only [hid, beq_self_eq_true, if_true]
      intro x y hx hy
      exact (noCopy_mems (hn c hc) hx hy).1
    · have : (d.id == c.id) = false := by simp [hid]
      simp only [this, Bool.false_eq_true, if_false]
      exact hn d hd
  · obtain ⟨_, hw3, hh3, _⟩ := bracket_restores hs hb
    intro d' hd'
    rw [hscr]
    rw [hcl] at hd'
    have keep : ∀ d, NoCopy s.scr d → NoCopy scr3 d := by
      intro d hd x y hx hy; rw [hw3] at hx ⊢; rw [hh3] at hy; exact hd x y hx hy
    split at hd'
    · exact keep _ (hn d' (List.mem_filter.mp hd').1)
    · obtain ⟨d, hd, rfl⟩ := List.mem_map.mp hd'
      by_cases hid : d.id = c.id
      · simp only [hid, beq_self_eq_true, if_true]
        intro x y hx hy
        rw [hw3] at hx ⊢; rw [hh3] at hy
        exact Rgn.mem_empty hx hy
      · have : (d.id == c.id) = false := by simp [hid]
        simp only [this, Bool.false_eq_true, if_false]
        exact keep _ (hn d hd)

/-- `s'` is reached from `s` by updates of clients of the respective current state -/
inductive Steps (v : Variant) : Sess → Sess → Prop where
  | refl (s : Sess) : Steps v s s
  | head {s s1 s' : Sess} (c : Client) (o : Option UpdObs) (hc : c ∈ s.clients)
      (h : sendUpdate v s c = some (s1, o)) (t : Steps v s1 s') : Steps v s s'

theorem pump_fold_steps {v : Variant} (L : List Client) :
    ∀ (acc : Option (Sess × List UpdObs)) (s' : Sess) (obs : List UpdObs),
      L.foldl (fun acc c0 =>
        acc.bind fun (s, obs) =>
          match s.clients.find? (fun d => d.id == c0.id) with
          | none => some (s, obs)
          | some c => (sendUpdate v s c).map fun (s', o) =>
              (s', match o with | some o => obs ++ [o] | none => obs)) acc = some (s', obs) →
      ∃ s0 obs0, acc = some (s0, obs0) ∧ Steps v s0 s' := by
  induction L with
  | nil => intro acc s' obs h; exact ⟨s', obs, h, Steps.refl _⟩
  | cons c0 L ih =>
    intro acc s' obs h
    rw [List.foldl_cons] at h
    obtain ⟨s1, obs1, hstep, hsteps⟩ := ih _ s' obs h
    obtain ⟨⟨s0, obs0⟩, hacc, hstep⟩ := Option.bind_eq_some_iff.mp hstep
    refine ⟨s0, obs0, hacc, ?_⟩
    simp only [] at hstep
    cases hf : s0.clients.find? (fun d => d.id == c0.id) with
    | none =>
      simp only [hf, Option.some.injEq, Prod.mk.injEq] at hstep
      obtain ⟨rfl, _⟩ := hstep
      exact hsteps
    | some c =>
      simp only [hf] at hstep
      obtain ⟨⟨s1', o⟩, hsu, e⟩ := Option.map_eq_some_iff.mp hstep
      simp only [Prod.mk.injEq] at e
      obtain ⟨rfl, _⟩ := e
      exact Steps.head c o (List.mem_of_find?_eq_some hf) hsu hsteps

theorem pump_steps {v : Variant} {s s' : Sess} {obs : List UpdObs} (h : pump v s = some (s', obs)) :
    Steps v s s' := by
  unfold pump at h
  obtain ⟨s0, obs0, hacc, hst⟩ := pump_fold_steps s.clients _ s' obs h
  simp only [Option.some.injEq, Prod.mk.injEq] at hacc
  obtain ⟨rfl, _⟩ := hacc
  exact hst

theorem steps_wf {v : Variant} {s s' : Sess} (h : Steps v s s') (hs : SessWF s) :
    SessWF s' ∧ s'.scr.fb = s.scr.fb := by
  induction h with
  | refl s => exact ⟨hs, rfl⟩
  | head c o _ h _ ih =>
    obtain ⟨h1, h2⟩ := sendUpdate_wf hs h
    obtain ⟨h3, h4⟩ := ih h1
    exact ⟨h3, by rw [h4, h2]⟩

theorem steps_inv {v : Variant} {s s' : Sess} (h : Steps v s s') (hs : SessInv v s) (hn : SessNoCopy s) :
    SessInv v s' ∧ SessNoCopy s' := by
  induction h with
  | refl s => exact ⟨hs, hn⟩
  | head c o hc h _ ih => exact ih (sendUpdate_inv hs hn hc h) (sendUpdate_nocopy hs.1.1 hn hc h)

/-- one event-loop round: the framebuffer is untouched, the session stays well-formed -/
theorem pump_fb {v : Variant} {s s' : Sess} {obs : List UpdObs} (hs : SessWF s)
    (h : pump v s = some (s', obs)) : s'.scr.fb = s.scr.fb ∧ SessWF s' :=
  let ⟨h1, h2⟩ := steps_wf (pump_steps h) hs
  ⟨h2, h1⟩

theorem pump_inv {v : Variant} {s s' : Sess} {obs : List UpdObs} (hs : SessInv v s) (hn : SessNoCopy s)
    (h : pump v s = some (s', obs)) : SessInv v s' ∧ SessNoCopy s' :=
  steps_inv (pump_steps h) hs hn

/-! ### the other operations preserve the invariant -/

/-- monotonicity: the screen keeps framebuffer, geometry and the cursor's look, the client keeps
mode, position and picture, its `modifiedRegion` can only grow -/
theorem ClientInv.mono {v : Variant} {scr scr' : Screen} {c c' : Client} (h : ClientInv v scr c)
    (hfb : scr'.fb = scr.fb) (hw : scr'.w = scr.w) (hh : scr'.h = scr.h) (hf : scr'.fmt = scr.fmt)
    (hb : scr'.bpp = scr.bpp) (hl : SameLook v scr.fmt scr.bpp scr'.cursor scr.cursor)
    (hs : c'.shape = c.shape) (hx : c'.curX = c.curX) (hy : c'.curY = c.curY) (hp : c'.pic = c.pic)
    (ht : c'.tfmt = c.tfmt)
    (hm : ∀ x y, x < scr.w → y < scr.h → c.modified.mem scr.w x y = true → c'.modified.mem scr.w x y = true) :
    ClientInv v scr' c' := by
  obtain ⟨hsz, hpix⟩ := h
  refine ⟨by rw [hp, hw, hh]; exact hsz, ?_⟩
  intro x y hx' hy'
  rw [hw] at hx' ⊢; rw [hh] at hy'
  rw [expectedPx_congr (by rw [hfb]) hw hh hf hb hl hs hx hy, hp, hf, ht]
  rcases hpix x y hx' hy' with h | h
  · exact Or.inl (hm x y hx' hy' h)
  · exact Or.inr h

theorem nodup_map_clients {l : List Client} (f : Client → Client) (hf : ∀ c, (f c).id = c.id)
    (h : (l.map (fun c : Client => c.id)).Nodup) : ((l.map f).map (fun c : Client => c.id)).Nodup := by
  have : (l.map f).map (fun c : Client => c.id) = l.map (fun c : Client => c.id) := by
    rw [List.map_map]; apply List.map_congr_left; intro c _; exact hf c
  rw [this]; exact h

theorem ptrEvent_inv {v : Variant} {s : Sess} {id x y b : Nat} (hi : SessInv v s) :
    SessInv v (ptrEvent s id x y b) := by
  have hgo : SessInv v (ptrEvent.go s id x y b) := by
    unfold ptrEvent.go
    simp only []
    split
    · refine ⟨⟨⟨hi.1.1.fbSz, hi.1.1.bppPos, hi.1.1.cur⟩, ?_⟩, ?_⟩
      · exact nodup_map_clients _ (by intro c; split <;> split <;> rfl) hi.1.2
      · intro c hc
        obtain ⟨d, hd, rfl⟩ := List.mem_map.mp hc
        refine (hi.2 d hd).mono rfl rfl rfl rfl rfl (SameLook.refl _ _ _ _) ?_ ?_ ?_ ?_ ?_ ?_ <;>
          (split <;> split <;> first | rfl | (intro x y _ _ h; exact h))
    · exact ⟨⟨hi.1.1, hi.1.2⟩, hi.2⟩
  unfold ptrEvent
  split
  · split
    · exact hi
    · exact hgo
  · exact hgo

theorem request_inv {v : Variant} {s : Sess} {id : Nat} {incr : Bool} {r : Rect} (hi : SessInv v s) :
    SessInv v (request s id incr r) := by
  unfold request
  refine ⟨⟨hi.1.1, ?_⟩, ?_⟩
  · exact nodup_map_clients _ (by intro c; split <;> rfl) hi.1.2
  · intro c hc
    obtain ⟨d, hd, rfl⟩ := List.mem_map.mp hc
    refine (hi.2 d hd).mono rfl rfl rfl rfl rfl (SameLook.refl _ _ _ _) ?_ ?_ ?_ ?_ ?_ ?_
    · split <;> rfl
    · split <;> rfl
    · split <;> rfl
    · split <;> rfl
    · split <;> rfl
    · intro x y hx hy h
      split
      · simp only []
        split
        · exact h
        · rw [Rgn.mem_or _ _ hx hy, h]; rfl
      · exact h

theorem ids_map_same (l : List Client) (f : Client → Client) (hf : ∀ c, (f c).id = c.id) :
    (l.map f).map (·.id) = l.map (·.id) := by
  rw [List.map_map]; apply List.map_congr_left; intro c _; exact hf c

/-- the application paints a rectangle and marks it modified -/
theorem ClientInv.draw {v : Variant} {scr scr' : Screen} {d d' : Client} {r : Rect}
    {g : Nat → Nat → Option Px → Option Act} (h : ClientInv v scr d)
    (hw : scr'.w = scr.w) (hh : scr'.h = scr.h) (hf : scr'.fmt = scr.fmt) (hb : scr'.bpp = scr.bpp)
    (hcur : scr'.cursor = scr.cursor) (hr1 : r.x1 < r.x2) (hr3 : r.x2 ≤ scr.w)
    (hfb : writeBox (fbIdx scr.w r.x1 r.y1) g (r.y2 - r.y1) (r.x2 - r.x1) scr.fb = some scr'.fb)
    (hs : d'.shape = d.shape) (hx : d'.curX = d.curX) (hy : d'.curY = d.curY) (hp : d'.pic = d.pic)
    (ht : d'.tfmt = d.tfmt)
    (hm : d'.modified = Rgn.or scr.w scr.h d.modified (Rgn.ofRect scr.w scr.h (some r))) :
    ClientInv v scr' d' := by
  obtain ⟨hpsz, hpix⟩ := h
  have hxW : r.x1 + (r.x2 - r.x1) ≤ scr.w := by omega
  refine ⟨by rw [hp, hw, hh]; exact hpsz, ?_⟩
  intro x y hx' hy'
  rw [hw] at hx' ⊢; rw [hh] at hy'
  rw [hm, hp, hf, ht, Rgn.mem_or _ _ hx' hy', Rgn.mem_ofRect _ hx' hy']
  by_cases hin : r.has x y = true
  · left; simp [hin]
  · have hno : ∀ j, j < r.y2 - r.y1 → ∀ i, i < r.x2 - r.x1 → fbIdx scr.w r.x1 r.y1 j i ≠ y * scr.w + x := by
      intro j hj i hi' e
      obtain ⟨e1, e2⟩ := (fbIdx_eq_iff hxW hi' hx').mp e
      apply hin
      simp only [Rect.has, Bool.and_eq_true, decide_eq_true_eq]
      omega
    have hsame := (writeBox_frame hfb).2 _ hno
    rw [expectedPx_congr hsame hw hh hf hb (by rw [hcur]; exact SameLook.refl _ _ _ _) hs hx hy]
    rcases hpix x y hx' hy' with h | h
    · left; simp [h]
    · right; exact h

theorem draw_inv {v : Variant} {s s' : Sess} {r : Rect} {val : Nat → Nat → Px} (hi : SessInv v s)
    (hr : r.inside s.scr.w s.scr.h = true) (h : draw s r val = some s') : SessInv v s' := by
  unfold Rect.inside at hr
  simp only [Bool.and_eq_true, decide_eq_true_eq] at hr
  obtain ⟨⟨⟨hr1, hr2⟩, hr3⟩, hr4⟩ := hr
  unfold draw at h
  obtain ⟨fb, hfb, e⟩ := Option.map_eq_some_iff.mp h
  subst e
  have hsz : fb.size = s.scr.w * s.scr.h := by rw [(writeBox_frame hfb).1]; exact hi.1.1.fbSz
  refine ⟨⟨⟨hsz, hi.1.1.bppPos, hi.1.1.cur⟩, ?_⟩, ?_⟩
  · exact nodup_map_clients _ (fun _ => rfl) hi.1.2
  · intro c hc
    obtain ⟨d, hd, rfl⟩ := List.mem_map.mp hc
    exact (hi.2 d hd).draw (scr' := { s.scr with fb := fb }) rfl rfl rfl rfl rfl hr1 hr3 hfb rfl rfl rfl rfl rfl rfl

theorem Cursor.wfb_WF {c : Cursor} (h : c.wfb = true) : c.WF := by
  unfold Cursor.wfb at h
  simp only [Bool.and_eq_true, beq_iff_eq, Bool.or_eq_true] at h
  obtain ⟨⟨⟨⟨h1, h2⟩, h3⟩, h4⟩, h5⟩ := h
  refine ⟨h1, ?_, ?_, ?_, ?_⟩
  · intro r hr; rw [hr] at h2; simpa using h2
  · intro r hr; rw [hr] at h3; simpa using h3
  · intro r hr; rw [hr] at h4; simpa using h4
  · rcases h5 with h | h
    · left; intro e; rw [e] at h; simp at h
    · right; intro e; rw [e] at h; simp at h

/-- contrapositive of `cursorBox_covers` -/
theorem not_inBox_of_not_mem {scr : Screen} {cur : Cursor} (hc : scr.cursor = some cur) {cx cy x y : Nat}
    (hx : x < scr.w) (hy : y < scr.h)
    (h : (Rgn.ofRect scr.w scr.h (cursorBox scr cx cy)).mem scr.w x y = false) :
    ¬ inCursorBox cur cx cy x y := by
  intro hin
  rw [cursorBox_covers hc hx hy hin] at h
  simp at h

/-- the cursor is replaced (same framebuffer): every pixel that is not marked modified afterwards
was not marked before and lies under neither the old nor the new cursor -/
theorem ClientInv.setCursor {v : Variant} {scr scr' : Screen} {d d' : Client} (h : ClientInv v scr d)
    (hwf : scr.WF) (hwf' : scr'.WF) (hfb : scr'.fb = scr.fb) (hw : scr'.w = scr.w) (hh : scr'.h = scr.h)
    (hf : scr'.fmt = scr.fmt)
    (hs : d'.shape = d.shape) (hx : d'.curX = d.curX) (hy : d'.curY = d.curY) (hp : d'.pic = d.pic)
    (ht : d'.tfmt = d.tfmt)
    (hm : ∀ x y, x < scr.w → y < scr.h → d'.modified.mem scr.w x y = false →
      d.modified.mem scr.w x y = false ∧
      (d.shape = false →
        (Rgn.ofRect scr.w scr.h (cursorBox scr d.curX d.curY)).mem scr.w x y = false ∧
        (Rgn.ofRect scr'.w scr'.h (cursorBox scr' d.curX d.curY)).mem scr'.w x y = false)) :
    ClientInv v scr' d' := by
  obtain ⟨hpsz, hpix⟩ := h
  refine ⟨by rw [hp, hw, hh]; exact hpsz, ?_⟩
  intro x y hx' hy'
  rw [hw] at hx' ⊢; rw [hh] at hy'
  cases hmod : d'.modified.mem scr.w x y with
  | true => left; rfl
  | false =>
    right
    obtain ⟨h1, h2⟩ := hm x y hx' hy' hmod
    rcases hpix x y hx' hy' with h | h
    · rw [h1] at h; simp at h
    · rw [hp, h, hf, ht]
      have hidx : scr'.fb[y * scr'.w + x]? = scr.fb[y * scr.w + x]? := by rw [hfb, hw]
      cases hsh : d.shape with
      | true =>
        rw [expectedPx_plain hwf (Or.inl hsh)]
        have := expectedPx_plain (v := v) (c := d') (x := x) (y := y) hwf' (Or.inl (by rw [hs]; exact hsh))
        rw [this, hidx]
      | false =>
        obtain ⟨h3, h4⟩ := h2 hsh
        rw [expectedPx_plain hwf (Or.inr (Or.inr fun cur hcur => not_inBox_of_not_mem hcur hx' hy' h3))]
        have := expectedPx_plain (v := v) (c := d') (x := x) (y := y) hwf'
          (Or.inr (Or.inr fun cur hcur => by
            rw [hx, hy]
            exact not_inBox_of_not_mem hcur (by rw [hw]; exact hx') (by rw [hh]; exact hy') h4))
        rw [this, hidx]

theorem setCursor_inv {v : Variant} {s : Sess} {c : Option Cursor} (hi : SessInv v s)
    (hc : ∀ cur, c = some cur → cur.WF) : SessInv v (setCursor s c) := by
  have hwf' : ({ s.scr with cursor := c } : Screen).WF := ⟨hi.1.1.fbSz, hi.1.1.bppPos, hc⟩
  unfold setCursor
  simp only [redrawSoft]
  refine ⟨⟨hwf', ?_⟩, ?_⟩
  · refine nodup_map_clients _ (by intro d; split <;> rfl) (nodup_map_clients _ (fun _ => rfl)
      (nodup_map_clients _ (by intro d; split <;> rfl) hi.1.2))
  · intro d' hd'
    simp only [List.map_map] at hd'
    obtain ⟨d, hd, rfl⟩ := List.mem_map.mp hd'
    simp only [Function.comp]
    refine (hi.2 d hd).setCursor (scr' := { s.scr with cursor := c }) hi.1.1 hwf' rfl rfl rfl rfl ?_ ?_ ?_ ?_ ?_ ?_
    · cases hsh : d.shape <;> simp [hsh]
    · cases hsh : d.shape <;> simp [hsh]
    · cases hsh : d.shape <;> simp [hsh]
    · cases hsh : d.shape <;> simp [hsh]
    · cases hsh : d.shape <;> simp [hsh]
    · intro x y hx hy hmod
      cases hsh : d.shape with
      | true =>
        simp only [hsh, if_true] at hmod
        exact ⟨hmod, fun h => by simp at h⟩
      | false =>
        simp only [hsh, Bool.false_eq_true, if_false] at hmod
        rw [Rgn.mem_or _ _ hx hy, Rgn.mem_or _ _ hx hy] at hmod
        simp only [Bool.or_eq_false_iff] at hmod
        exact ⟨hmod.1.1, fun _ => ⟨hmod.1.2, hmod.2⟩⟩

/-- SetEncodings (repaired code), for one client: whichever way the cursor capability changes —
and in whatever order the encodings are listed — every pixel whose expectation changes is marked
modified -/
theorem clientSetEncodings_inv {v : Variant} {scr : Screen} {c : Client} {l : List Enc}
    (hv : v.setencFixed = true) (hs : scr.WF) (h : ClientInv v scr c) :
    ClientInv v scr (clientSetEncodings v scr c l) := by
  obtain ⟨hpsz, hpix⟩ := h
  unfold clientSetEncodings
  simp only [encFlags_closed, hv, Bool.true_and]
  refine ⟨hpsz, fun x y hx hy => ?_⟩
  simp only []
  -- a pixel that is not modified afterwards was not modified before, and (when the box was marked)
  -- does not lie under the cursor
  have hplain : ∀ c' : Client, c'.curX = c.curX → c'.curY = c.curY →
      (c'.shape = true ∨ (Rgn.ofRect scr.w scr.h (cursorBox scr c.curX c.curY)).mem scr.w x y = false) →
      expectedPx v scr c' x y = scr.fb[y * scr.w + x]? := by
    intro c' e1 e2 h
    rcases h with h | h
    · exact expectedPx_plain hs (Or.inl h)
    · exact expectedPx_plain hs (Or.inr (Or.inr fun cur hcur => by
        rw [e1, e2]; exact not_inBox_of_not_mem hcur hx hy h))
  -- membership in the new modifiedRegion implies-or-is membership in m1
  generalize hm1 : (if (hasShape l || c.shape && !hasShape l) = true then
      Rgn.or scr.w scr.h c.modified (Rgn.ofRect scr.w scr.h (cursorBox scr c.curX c.curY)) else c.modified) = m1
  have hsup : (if (!l.contains Enc.copyRect && c.copy.nonempty) = true then Rgn.or scr.w scr.h m1 c.copy else m1).mem scr.w x y = false →
      m1.mem scr.w x y = false := by
    intro h
    split at h
    · rw [Rgn.mem_or _ _ hx hy] at h
      simp only [Bool.or_eq_false_iff] at h; exact h.1
    · exact h
  cases hnew : (if (!l.contains Enc.copyRect && c.copy.nonempty) = true then Rgn.or scr.w scr.h m1 c.copy else m1).mem scr.w x y with
  | true => left; rfl
  | false =>
    right
    have hm1f := hsup hnew
    cases hmark : (hasShape l || c.shape && !hasShape l) with
    | false =>
      rw [hmark] at hm1; simp only [Bool.false_eq_true, if_false] at hm1
      simp only [Bool.or_eq_false_iff, Bool.and_eq_false_iff, Bool.not_eq_false'] at hmark
      have hsl : hasShape l = false := hmark.1
      have hcs : c.shape = false := by rcases hmark.2 with h | h; exact h; rw [hsl] at h; simp at h
      subst hm1
      rcases hpix x y hx hy with h | h
      · rw [hm1f] at h; simp at h
      · rw [h]
        congr 1
        symm
        exact expectedPx_congr rfl rfl rfl rfl rfl (SameLook.refl _ _ _ _) (by simp [hsl, hcs]) rfl rfl
    | true =>
      rw [hmark] at hm1; simp only [if_true] at hm1
      subst hm1
      rw [Rgn.mem_or _ _ hx hy] at hm1f
      simp only [Bool.or_eq_false_iff] at hm1f
      rcases hpix x y hx hy with h | h
      · rw [hm1f.1] at h; simp at h
      · rw [h, hplain c rfl rfl (Or.inr hm1f.2)]
        congr 1
        symm
        apply hplain
        · rfl
        · rfl
        · exact Or.inr hm1f.2

theorem clientSetEncodings_nocopy {v : Variant} {scr : Screen} {c : Client} {l : List Enc} (h : NoCopy scr c) :
    NoCopy scr (clientSetEncodings v scr c l) := by
  intro x y hx hy
  unfold clientSetEncodings
  simp only []
  split
  · exact Rgn.mem_empty hx hy
  · exact h x y hx hy

theorem clientSetEncodings_id (v : Variant) (scr : Screen) (c : Client) (l : List Enc) :
    (clientSetEncodings v scr c l).id = c.id := rfl

theorem setEncodings_inv {v : Variant} {s : Sess} {id : Nat} {l : List Enc} (hv : v.setencFixed = true)
    (hi : SessInv v s) : SessInv v (setEncodings v s id l) := by
  unfold setEncodings
  refine ⟨⟨hi.1.1, nodup_map_clients _ (by intro c; split <;> rfl) hi.1.2⟩, ?_⟩
  intro d' hd'
  obtain ⟨d, hd, rfl⟩ := List.mem_map.mp hd'
  split
  · exact clientSetEncodings_inv hv hi.1.1 (hi.2 d hd)
  · exact hi.2 d hd

theorem newClient_inv {v : Variant} {s : Sess} {id : Nat} {l : List Enc} {t : Option (Format × Nat)}
    (hv : v.setencFixed = true) (hi : SessInv v s)
    (hfresh : s.clients.any (fun c => c.id == id) = false) : SessInv v (newClient v s id l t) := by
  unfold newClient
  refine ⟨⟨hi.1.1, ?_⟩, ?_⟩
  · simp only [List.map_cons, List.nodup_cons, clientSetEncodings_id]
    refine ⟨?_, hi.1.2⟩
    intro hmem
    obtain ⟨d, hd, hid⟩ := List.mem_map.mp hmem
    have := List.any_eq_false.mp hfresh d hd
    simp [hid] at this
  · intro c hc
    simp only [List.mem_cons] at hc
    rcases hc with rfl | hc
    · exact clientSetEncodings_inv hv hi.1.1 ⟨by simp, fun x y hx hy => Or.inl (Rgn.mem_full hx hy)⟩
    · exact hi.2 c hc

/-! ### whole histories -/

theorem NoCopy.of_eq {scr scr' : Screen} {d d' : Client} (h : NoCopy scr d) (hw : scr'.w = scr.w)
    (hh : scr'.h = scr.h) (hc : d'.copy = d.copy) : NoCopy scr' d' := by
  intro x y hx hy
  rw [hw] at hx ⊢; rw [hh] at hy; rw [hc]
  exact h x y hx hy

theorem steps_nocopy {v : Variant} {a b : Sess} (h : Steps v a b) (hw : SessWF a) (hn : SessNoCopy a) :
    SessNoCopy b := by
  induction h with
  | refl _ => exact hn
  | head c o hc hsu _ ih => exact ih (sendUpdate_wf hw hsu).1 (sendUpdate_nocopy hw.1 hn hc hsu)

/-- every operation other than a scheduled copy keeps "no copy scheduled" -/
theorem applyOp_nocopy {v : Variant} {s s' : Sess} {op : Op} (hs : SessWF s) (hn : SessNoCopy s)
    (h : applyOp v s op = some s') : SessNoCopy s' := by
  cases op with
  | client id l t =>
    simp only [applyOp] at h
    split at h
    · simp at h; subst h; exact hn
    · simp at h; subst h
      intro c hc
      simp only [newClient, List.mem_cons] at hc
      rcases hc with rfl | hc
      · exact clientSetEncodings_nocopy (fun x y hx hy => Rgn.mem_empty hx hy)
      · exact hn c hc
  | setenc id l =>
    simp only [applyOp] at h
    simp at h; subst h
    intro c hc
    obtain ⟨d, hd, rfl⟩ := List.mem_map.mp hc
    split
    · exact clientSetEncodings_nocopy (hn d hd)
    · exact hn d hd
  | ptr id x y b =>
    simp only [applyOp] at h
    split at h <;> (simp at h; subst h)
    · have hgo : SessNoCopy (ptrEvent.go s id x y b) := by
        unfold ptrEvent.go
        simp only []
        split
        · intro c hc
          obtain ⟨d, hd, rfl⟩ := List.mem_map.mp hc
          refine (hn d hd).of_eq rfl rfl ?_
          split <;> split <;> rfl
        · exact hn
      unfold ptrEvent
      split
      · split
        · exact hn
        · exact hgo
      · exact hgo
    · exact hn
  | req id incr r =>
    simp only [applyOp] at h
    split at h <;> (simp at h; subst h)
    · intro c hc
      simp only [request] at hc
      obtain ⟨d, hd, rfl⟩ := List.mem_map.mp hc
      split
      · intro x y hx hy
        show (if incr then d.copy else Rgn.sub s.scr.w s.scr.h d.copy _).mem s.scr.w x y = false
        split
        · exact hn d hd x y hx hy
        · have hx' : x < s.scr.w := hx
          have hy' : y < s.scr.h := hy
          rw [Rgn.mem_sub _ _ hx' hy', hn d hd x y hx' hy']; rfl
      · exact hn d hd
    · exact hn
  | draw r val =>
    simp only [applyOp] at h
    split at h
    · unfold draw at h
      obtain ⟨fb, _, e⟩ := Option.map_eq_some_iff.mp h
      subst e
      intro c hc
      simp only [markModified] at hc
      obtain ⟨d, hd, rfl⟩ := List.mem_map.mp hc
      exact (hn d hd).of_eq rfl rfl rfl
    · simp at h; subst h; exact hn
  | cursor c =>
    have key : ∀ c, SessNoCopy (setCursor s c) := by
      intro c d' hd'
      simp only [setCursor, redrawSoft, List.map_map] at hd'
      obtain ⟨d, hd, rfl⟩ := List.mem_map.mp hd'
      refine (hn d hd).of_eq rfl rfl ?_
      simp only [Function.comp]
      cases hsh : d.shape <;> simp [hsh]
    simp only [applyOp] at h
    cases c with
    | none => simp at h; subst h; exact key none
    | some c =>
      simp only [] at h
      split at h
      · simp at h; subst h; exact key (some c)
      · simp at h; subst h; exact hn
  | failnext id =>
    simp only [applyOp] at h
    simp at h; subst h
    exact fun c hc => (hn c hc).of_eq rfl rfl rfl
  | pump =>
    simp only [applyOp] at h
    obtain ⟨⟨s1, obs⟩, hp, e⟩ := Option.map_eq_some_iff.mp h
    simp only [] at e; subst e
    exact steps_nocopy (pump_steps hp) hs hn

theorem applyOp_inv {v : Variant} {s s' : Sess} {op : Op} (hv : v.setencFixed = true) (hi : SessInv v s)
    (hn : SessNoCopy s) (h : applyOp v s op = some s') : SessInv v s' := by
  cases op with
  | client id k t =>
    simp only [applyOp] at h
    split at h
    · simp at h; subst h; exact hi
    · rename_i hf
      simp at h; subst h
      exact newClient_inv hv hi (by simpa using hf)
  | setenc id k =>
    simp only [applyOp] at h
    simp at h; subst h
    exact setEncodings_inv hv hi
  | ptr id x y b =>
    simp only [applyOp] at h
    split at h <;> (simp at h; subst h)
    · exact ptrEvent_inv hi
    · exact hi
  | req id incr r =>
    simp only [applyOp] at h
    split at h <;> (simp at h; subst h)
    · exact request_inv hi
    · exact hi
  | draw r val =>
    simp only [applyOp] at h
    split at h
    · rename_i hr; exact draw_inv hi hr h
    · simp at h; subst h; exact hi
  | cursor c =>
    simp only [applyOp] at h
    cases c with
    | none => simp at h; subst h; exact setCursor_inv hi (by intro cur h; simp at h)
    | some c =>
      simp only [] at h
      split at h
      · rename_i hw
        simp at h; subst h
        exact setCursor_inv hi (by intro cur h; simp at h; subst h; exact Cursor.wfb_WF hw)
      · simp at h; subst h; exact hi
  | failnext id =>
    simp only [applyOp] at h
    simp at h; subst h
    exact ⟨⟨hi.1.1, hi.1.2⟩, hi.2⟩
  | pump =>
    simp only [applyOp] at h
    obtain ⟨⟨s1, obs⟩, hp, e⟩ := Option.map_eq_some_iff.mp h
    simp only [] at e; subst e
    exact (pump_inv hi hn hp).1

theorem runOps_inv {v : Variant} {s s' : Sess} {ops : List Op} (hv : v.setencFixed = true) (hi : SessInv v s)
    (hn : SessNoCopy s) (h : runOps v s ops = some s') : SessInv v s' ∧ SessNoCopy s' := by
  induction ops generalizing s with
  | nil => simp [runOps] at h; subst h; exact ⟨hi, hn⟩
  | cons op ops ih =>
    simp only [runOps] at h
    obtain ⟨s1, h1, h2⟩ := Option.bind_eq_some_iff.mp h
    exact ih (applyOp_inv hv hi hn h1) (applyOp_nocopy hi.1 hn h1) h2

theorem sessInv_init {v : Variant} {s : Sess} (hs : s.scr.WF) (hc : s.clients = []) : SessInv v s :=
  ⟨⟨hs, by rw [hc]; exact List.nodup_nil⟩, by rw [hc]; intro c h; simp at h⟩

/-! ### a concrete witness used by the counterexample theorems and non-vacuity examples -/

/-- a 1×1 cursor with its only mask bit set, pixel value 9, on a 3×2 screen -/
def witnessScreen : Screen :=
  { w := 3, h := 2, bpp := 4, fmt := ⟨255, 255, 255, 0, 8, 16⟩, fb := #[0, 0, 0, 0, 0, 0], under := #[],
    cursor := some { w := 1, h := 1, xhot := 0, yhot := 0, mask := #[0x80], source := none,
                     rich := some #[9], alpha := none, premult := false, foreR := 0, foreG := 0,
                     foreB := 0, backR := 0, backG := 0, backB := 0 },
    curX := 0, curY := 0 }


end VncModel.Cursor
