import VncModel.Cursor.ShapeLemmas
/-
Independent statements about the pixel arithmetic and the bitmap conversions of cursor.c (C15):
channel laws of the alpha blend and of the X-cursor colours for packed true-colour formats, bit
laws of the bitmap conversions.
-/
namespace VncModel.Cursor

/-! ### packed true-colour formats -/

/-- red in the low `kr` bits, green in the next `kg`, blue in the next `kb` — the formats
rfbInitServerFormat gives a little-endian server: 3/3/2 (8 bpp), 5/5/5 (16 bpp), 8/8/8 (24, 32 bpp) -/
structure Format.Packed (f : Format) (kr kg kb : Nat) : Prop where
  rs : f.redShift = 0
  gs : f.greenShift = kr
  bs : f.blueShift = kr + kg
  rm : f.redMax = 2 ^ kr - 1
  gm : f.greenMax = 2 ^ kg - 1
  bm : f.blueMax = 2 ^ kb - 1

/-- colour channel of a pixel, the way every RFB implementation reads it: `(p >> shift) & max` -/
def chanOf (max shift p : Nat) : Nat := (p >>> shift) &&& max

theorem two_pow_pos' (k : Nat) : 0 < 2 ^ k := Nat.pos_of_ne_zero (by simp)

/-- the code's `(p & (max << shift)) >> shift` is that channel, and for `max = 2^k-1` it is
`(p / 2^shift) % 2^k` -/
theorem maskShift_eq (k sh p : Nat) :
    ((p &&& ((2 ^ k - 1) <<< sh)) >>> sh) = (p / 2 ^ sh) % 2 ^ k ∧
    chanOf (2 ^ k - 1) sh p = (p / 2 ^ sh) % 2 ^ k := by
  unfold chanOf
  rw [Nat.shiftRight_and_distrib, Nat.shiftLeft_shiftRight, Nat.and_two_pow_sub_one_eq_mod,
    Nat.shiftRight_eq_div_pow]
  exact ⟨rfl, rfl⟩

/-- three fields OR-ed together are their weighted sum -/
theorem pack3 {kr kg : Nat} {r g b : Nat} (hr : r < 2 ^ kr) (hg : g < 2 ^ kg) :
    (r <<< 0 ||| g <<< kr ||| b <<< (kr + kg)) = r + g * 2 ^ kr + b * (2 ^ kr * 2 ^ kg) := by
  have h1 : g <<< kr + r = g <<< kr ||| r := Nat.shiftLeft_add_eq_or_of_lt hr g
  have hlt : g <<< kr + r < 2 ^ (kr + kg) := by
    rw [Nat.shiftLeft_eq, Nat.pow_add]
    have : g * 2 ^ kr + 2 ^ kr ≤ 2 ^ kg * 2 ^ kr := by
      have := Nat.mul_le_mul_right (2 ^ kr) (Nat.succ_le_of_lt hg)
      rw [Nat.succ_mul] at this; exact this
    rw [Nat.mul_comm (2 ^ kr)]; omega
  have h2 : b <<< (kr + kg) + (g <<< kr + r) = b <<< (kr + kg) ||| (g <<< kr + r) :=
    Nat.shiftLeft_add_eq_or_of_lt hlt b
  rw [Nat.shiftLeft_zero, Nat.or_comm r, ← h1, Nat.or_comm, ← h2]
  simp only [Nat.shiftLeft_eq, Nat.pow_add]
  omega

/-- … and each field is recovered by divide-and-mod -/
theorem unpack3 {A B C r g b : Nat} (hr : r < A) (hg : g < B) (hb : b < C) :
    (r + g * A + b * (A * B)) % A = r ∧ ((r + g * A + b * (A * B)) / A) % B = g ∧
    ((r + g * A + b * (A * B)) / (A * B)) % C = b ∧ r + g * A + b * (A * B) < A * B * C := by
  have hA : 0 < A := by omega
  have hB : 0 < B := by omega
  have e1 : r + g * A + b * (A * B) = (g + b * B) * A + r := by
    rw [Nat.add_mul, Nat.mul_assoc, Nat.mul_comm B A]; omega
  have e2 : r + g * A + b * (A * B) = b * (A * B) + (g * A + r) := by omega
  have hlt : g * A + r < A * B := by
    have := lin_lt (j := g) (rows := B) (n := A) (i := r) hg hr
    rw [Nat.mul_comm A B]; exact this
  refine ⟨?_, ?_, ?_, ?_⟩
  · rw [e1]; exact lin_mod A _ r hr
  · rw [e1, lin_div A _ r hr, Nat.add_mul_mod_self_right, Nat.mod_eq_of_lt hg]
  · rw [e2, lin_div (A * B) b _ hlt, Nat.mod_eq_of_lt hb]
  · have := lin_lt (j := b) (rows := C) (n := A * B) (i := g * A + r) hb hlt
    rw [Nat.mul_comm (A * B) C]; omega

/-! ### the alpha blend -/

/-- one blended channel, with the code's rounding (two truncating divisions by 255) -/
def blendChan (a src dst : Nat) : Nat := a * src / 255 + (255 - a) * dst / 255

/-- a blended channel never exceeds the channel maximum -/
theorem blendChan_le {a src dst M : Nat} (ha : a ≤ 255) (hs : src ≤ M) (hd : dst ≤ M) :
    blendChan a src dst ≤ M := by
  unfold blendChan
  have h1 : a * src ≤ a * M := Nat.mul_le_mul_left a hs
  have h2 : (255 - a) * dst ≤ (255 - a) * M := Nat.mul_le_mul_left _ hd
  have h3 : a * M + (255 - a) * M = 255 * M := by rw [← Nat.add_mul]; congr 1; omega
  omega

/-- **blend_spec**: for a packed server format (channels `kr/kg/kb` bits, all inside the pixel) and
a non-premultiplied alpha cursor, the pixel rfbShowCursor stores is, channel by channel,
`a*src/255 + (255-a)*dst/255` (the code's rounding), every channel stays within its maximum, and the
pixel has no bit outside the format's `kr+kg+kb` bits.  `a = 255` gives the cursor's colour,
`a = 0` is skipped by the loop before the blend. -/
theorem blend_spec {f : Format} {kr kg kb bpp : Nat} (hp : f.Packed kr kg kb) (hbits : kr + kg + kb ≤ 8 * bpp)
    (hbpp : bpp ≤ 4) (d s a : Nat) (ha : a ≤ 255) :
    let out := blend f bpp false d s a
    chanOf f.redMax f.redShift out = blendChan a (chanOf f.redMax f.redShift s) (chanOf f.redMax f.redShift d) ∧
    chanOf f.greenMax f.greenShift out = blendChan a (chanOf f.greenMax f.greenShift s) (chanOf f.greenMax f.greenShift d) ∧
    chanOf f.blueMax f.blueShift out = blendChan a (chanOf f.blueMax f.blueShift s) (chanOf f.blueMax f.blueShift d) ∧
    chanOf f.redMax f.redShift out ≤ f.redMax ∧ chanOf f.greenMax f.greenShift out ≤ f.greenMax ∧
    chanOf f.blueMax f.blueShift out ≤ f.blueMax ∧
    out < 2 ^ (kr + kg + kb) := by
  obtain ⟨rs, gs, bs, rm, gm, bm⟩ := hp
  have hA := two_pow_pos' kr
  have hB := two_pow_pos' kg
  have hC := two_pow_pos' kb
  -- the three blended channels
  have mle : ∀ x k, x % 2 ^ k ≤ 2 ^ k - 1 := fun x k => Nat.le_sub_one_of_lt (Nat.mod_lt _ (two_pow_pos' k))
  have plt : ∀ k, 2 ^ k - 1 < 2 ^ k := fun k => Nat.sub_lt (two_pow_pos' k) (by decide)
  have bR : blendChan a ((s / 2 ^ 0) % 2 ^ kr) ((d / 2 ^ 0) % 2 ^ kr) < 2 ^ kr :=
    Nat.lt_of_le_of_lt (blendChan_le ha (mle _ _) (mle _ _)) (plt kr)
  have bG : blendChan a ((s / 2 ^ kr) % 2 ^ kg) ((d / 2 ^ kr) % 2 ^ kg) < 2 ^ kg :=
    Nat.lt_of_le_of_lt (blendChan_le ha (mle _ _) (mle _ _)) (plt kg)
  have bB : blendChan a ((s / 2 ^ (kr + kg)) % 2 ^ kb) ((d / 2 ^ (kr + kg)) % 2 ^ kb) < 2 ^ kb :=
    Nat.lt_of_le_of_lt (blendChan_le ha (mle _ _) (mle _ _)) (plt kb)
  -- the value the code assembles
  have hout : blend f bpp false d s a =
      blendChan a ((s / 2 ^ 0) % 2 ^ kr) ((d / 2 ^ 0) % 2 ^ kr) +
      blendChan a ((s / 2 ^ kr) % 2 ^ kg) ((d / 2 ^ kr) % 2 ^ kg) * 2 ^ kr +
      blendChan a ((s / 2 ^ (kr + kg)) % 2 ^ kb) ((d / 2 ^ (kr + kg)) % 2 ^ kb) * (2 ^ kr * 2 ^ kg) := by
    unfold blend
    simp only [rs, gs, bs, rm, gm, bm, Bool.false_eq_true, if_false, (maskShift_eq _ _ _).1]
    rw [← pack3 bR bG]
    have hlt := (unpack3 bR bG bB).2.2.2
    rw [← pack3 bR bG] at hlt
    have h32 : 2 ^ kr * 2 ^ kg * 2 ^ kb ≤ 2 ^ 32 := by
      rw [← Nat.pow_add, ← Nat.pow_add]; exact Nat.pow_le_pow_right (by omega) (by omega)
    have h8 : 2 ^ kr * 2 ^ kg * 2 ^ kb ≤ 2 ^ (8 * bpp) := by
      rw [← Nat.pow_add, ← Nat.pow_add]; exact Nat.pow_le_pow_right (by omega) hbits
    unfold blendChan at hlt ⊢
    rw [Nat.mod_eq_of_lt (by omega), Nat.mod_eq_of_lt (by omega)]
  obtain ⟨u1, u2, u3, u4⟩ := unpack3 bR bG bB
  simp only []
  rw [hout]
  simp only [rs, gs, bs, rm, gm, bm, (maskShift_eq _ _ _).2]
  rw [Nat.pow_add] at *
  refine ⟨?_, u2, u3, ?_, ?_, ?_, ?_⟩
  · simp only [Nat.pow_zero, Nat.div_one]; simp only [Nat.pow_zero, Nat.div_one] at u1; exact u1
  · simp only [Nat.pow_zero, Nat.div_one]; simp only [Nat.pow_zero, Nat.div_one] at u1 bR; rw [u1]; omega
  · rw [u2]; omega
  · rw [u3]; omega
  · rw [Nat.pow_add, Nat.pow_add]; exact u4

/-! ### X-cursor colours and rfbMakeRichCursorFromXCursor -/

/-- a pixel assembled from three in-range channels of a packed format: the channels are read back,
nothing lies outside the format's bits, and the truncations to 32 bits / to the pixel size are
no-ops -/
theorem packed_value {f : Format} {kr kg kb bpp : Nat} (hp : f.Packed kr kg kb) (hbits : kr + kg + kb ≤ 8 * bpp)
    (hbpp : bpp ≤ 4) {r g b : Nat} (hr : r < 2 ^ kr) (hg : g < 2 ^ kg) (hb : b < 2 ^ kb) :
    let p := (((r <<< f.redShift) ||| (g <<< f.greenShift) ||| (b <<< f.blueShift)) % 2 ^ 32) % 2 ^ (8 * bpp)
    chanOf f.redMax f.redShift p = r ∧ chanOf f.greenMax f.greenShift p = g ∧
    chanOf f.blueMax f.blueShift p = b ∧ p < 2 ^ (kr + kg + kb) := by
  obtain ⟨rs, gs, bs, rm, gm, bm⟩ := hp
  obtain ⟨u1, u2, u3, u4⟩ := unpack3 hr hg hb
  have h32 : 2 ^ kr * 2 ^ kg * 2 ^ kb ≤ 2 ^ 32 := by
    rw [← Nat.pow_add, ← Nat.pow_add]; exact Nat.pow_le_pow_right (by omega) (by omega)
  have h8 : 2 ^ kr * 2 ^ kg * 2 ^ kb ≤ 2 ^ (8 * bpp) := by
    rw [← Nat.pow_add, ← Nat.pow_add]; exact Nat.pow_le_pow_right (by omega) hbits
  simp only [rs, gs, bs, rm, gm, bm, (maskShift_eq _ _ _).2]
  rw [pack3 hr hg, Nat.mod_eq_of_lt (Nat.lt_of_lt_of_le u4 h32), Nat.mod_eq_of_lt (Nat.lt_of_lt_of_le u4 h8)]
  refine ⟨?_, u2, ?_, ?_⟩
  · simp only [Nat.pow_zero, Nat.div_one]; exact u1
  · rw [Nat.pow_add]; exact u3
  · rw [Nat.pow_add, Nat.pow_add]; exact u4

theorem scaled_lt {k c : Nat} (hc : c ≤ 0xffff) : (2 ^ k - 1) * c / 0xffff < 2 ^ k := by
  have h1 : (2 ^ k - 1) * c ≤ (2 ^ k - 1) * 0xffff := Nat.mul_le_mul_left _ hc
  have h2 : (2 ^ k - 1) * c / 0xffff ≤ 2 ^ k - 1 := by
    have := Nat.div_le_div_right (c := 0xffff) h1
    rwa [Nat.mul_div_cancel _ (by decide)] at this
  have := two_pow_pos' k
  omega

/-- **xcolour_spec** (repaired conversion, 231917e): in a packed server format the pixel that stands
for a 16-bit X-cursor colour has, in every channel, the colour scaled to the channel's maximum
(`max*c/0xffff`), and no bit outside the format -/
theorem xcolour_spec {f : Format} {kr kg kb bpp : Nat} (hp : f.Packed kr kg kb) (hbits : kr + kg + kb ≤ 8 * bpp)
    (hbpp : bpp ≤ 4) {r g b : Nat} (hr : r ≤ 0xffff) (hg : g ≤ 0xffff) (hb : b ≤ 0xffff) :
    let p := xColour Variant.fixed f bpp r g b
    chanOf f.redMax f.redShift p = f.redMax * r / 0xffff ∧
    chanOf f.greenMax f.greenShift p = f.greenMax * g / 0xffff ∧
    chanOf f.blueMax f.blueShift p = f.blueMax * b / 0xffff ∧ p < 2 ^ (kr + kg + kb) := by
  have := packed_value hp hbits hbpp (r := f.redMax * r / 0xffff) (g := f.greenMax * g / 0xffff)
    (b := f.blueMax * b / 0xffff) (by rw [hp.rm]; exact scaled_lt hr) (by rw [hp.gm]; exact scaled_lt hg)
    (by rw [hp.bm]; exact scaled_lt hb)
  simpa [xColour, scale16, Variant.fixed] using this

/-- **make_rich_law**: rfbMakeRichCursorFromXCursor paints pixel `(u,v)` with the foreground colour
where the source bitmap has its bit set (row stride `(w+7)/8`, most significant bit first), with the
background colour elsewhere -/
theorem make_rich_law {v : Variant} {f : Format} {bpp : Nat} {c : Cursor} {src : Array UInt8} {rich : Array Px}
    (hsrc : c.source = some src) (h : makeRichPixels v f bpp c = some rich) {u w : Nat}
    (hu : u < c.w) (hw : w < c.h) :
    ∃ bit, maskBit src c.w u w = some bit ∧
      rich[w * c.w + u]? = some (if bit then xColour v f bpp c.foreR c.foreG c.foreB
                                  else xColour v f bpp c.backR c.backG c.backB) := by
  unfold makeRichPixels at h
  simp only [hsrc] at h
  obtain ⟨hsz, hel⟩ := tabulate?_spec h
  have hlt : w * c.w + u < c.w * c.h := by rw [Nat.mul_comm c.w c.h]; exact lin_lt hw hu
  have := hel _ hlt
  rw [lin_mod c.w w u hu, lin_div c.w w u hu] at this
  cases hm : maskBit src c.w u w with
  | none => rw [hm] at this; simp at this; omega
  | some bit => rw [hm] at this; exact ⟨bit, rfl, this⟩

/-- every configured server format of the harness is packed -/
example : (⟨7, 7, 3, 0, 3, 6⟩ : Format).Packed 3 3 2 ∧ (⟨31, 31, 31, 0, 5, 10⟩ : Format).Packed 5 5 5 ∧
    (⟨255, 255, 255, 0, 8, 16⟩ : Format).Packed 8 8 8 :=
  ⟨⟨rfl, rfl, rfl, rfl, rfl, rfl⟩, ⟨rfl, rfl, rfl, rfl, rfl, rfl⟩, ⟨rfl, rfl, rfl, rfl, rfl, rfl⟩⟩

/-! ### bits of bitmap bytes (most significant bit first) -/

theorem and_two_pow_ne_zero (x i : Nat) : ((x &&& 2 ^ i) != 0) = x.testBit i := by
  cases h : x.testBit i with
  | true =>
    have : (x &&& 2 ^ i).testBit i = true := by rw [Nat.testBit_and, h, Nat.testBit_two_pow_self]; rfl
    have hne : x &&& 2 ^ i ≠ 0 := by
      intro e; rw [e, Nat.zero_testBit] at this; exact Bool.noConfusion this
    simp [hne]
  | false =>
    have : x &&& 2 ^ i = 0 := by
      apply Nat.eq_of_testBit_eq
      intro j
      rw [Nat.testBit_and, Nat.testBit_two_pow, Nat.zero_testBit]
      by_cases hj : i = j
      · subst hj; simp [h]
      · simp [hj]
    simp [this]

/-- bit `k` (0 = leftmost pixel of the byte) of a bitmap byte: `(b << k) & 0x80` -/
def bitOf (b : UInt8) (k : Nat) : Bool := ((b.toNat <<< k) &&& 0x80) != 0

theorem maskBit_eq (bits : Array UInt8) (w u v : Nat) :
    maskBit bits w u v = (bits[v * rowBytes w + u / 8]?).map fun b => bitOf b (u % 8) := rfl

/-- MSB first: bit `k` of the byte is binary digit `7-k` -/
theorem bitOf_eq_testBit (b : UInt8) (k : Nat) (hk : k < 8) : bitOf b k = b.toNat.testBit (7 - k) := by
  unfold bitOf
  have : (0x80 : Nat) = 2 ^ 7 := rfl
  rw [this, and_two_pow_ne_zero, Nat.testBit_shiftLeft]
  have : decide (7 ≥ k) = true := by simp; omega
  rw [this, Bool.true_and]

theorem bitOf_or (a b : UInt8) (k : Nat) (hk : k < 8) : bitOf (a ||| b) k = (bitOf a k || bitOf b k) := by
  rw [bitOf_eq_testBit _ _ hk, bitOf_eq_testBit _ _ hk, bitOf_eq_testBit _ _ hk, UInt8.toNat_or, Nat.testBit_or]

theorem bitOf_and (a b : UInt8) (k : Nat) (hk : k < 8) : bitOf (a &&& b) k = (bitOf a k && bitOf b k) := by
  rw [bitOf_eq_testBit _ _ hk, bitOf_eq_testBit _ _ hk, bitOf_eq_testBit _ _ hk, UInt8.toNat_and, Nat.testBit_and]

theorem bitOf_zero (k : Nat) : bitOf 0 k = false := by
  unfold bitOf; simp

/-- the byte `0x80 >> i` has exactly bit `i` -/
theorem bitOf_single : ∀ i : Fin 8, ∀ j : Fin 8, bitOf (UInt8.ofNat (0x80 >>> i.val)) j.val = decide (i = j) := by
  decide

/-- rfbMakeMaskFromAlphaSource's `0x100 >> ((i&7)+1)` is the same byte -/
theorem bitOf_single' : ∀ i : Fin 8, ∀ j : Fin 8, bitOf (UInt8.ofNat (0x100 >>> (i.val + 1))) j.val = decide (i = j) := by
  decide

/-- the mask that keeps the `r` leftmost bits -/
theorem bitOf_padmask : ∀ r : Fin 8, ∀ j : Fin 8, 0 < r.val →
    bitOf (UInt8.ofNat (0xff - (0xff >>> r.val))) j.val = decide (j.val < r.val) := by
  decide

/-! ### rfbMakeXCursor: bitmaps from strings -/

/-- **make_xcursor_bits**: the bitmap built from a string (given as a bitmap whose padding is
irrelevant) has, with row stride `(w+7)/8` and the most significant bit first, exactly the string's
bit at every pixel `(u,v)` of the cursor and zero in every padding position -/
theorem make_xcursor_bits {width height : Nat} {bits : Array UInt8} (hsz : bits.size = rowBytes width * height)
    {u v : Nat} (hv : v < height) (hu : u < rowBytes width * 8) :
    maskBit (clearPadding width height bits) width u v =
      (maskBit bits width u v).map fun b => b && decide (u < width) := by
  have hcol : u / 8 < rowBytes width := by omega
  have hidx : v * rowBytes width + u / 8 < rowBytes width * height := by
    rw [Nat.mul_comm (rowBytes width) height]; exact lin_lt hv hcol
  rw [maskBit_eq, maskBit_eq]
  unfold clearPadding
  simp only []
  rw [Array.getElem?_ofFn]
  simp only [hidx, dite_true, lin_mod (rowBytes width) v (u / 8) hcol]
  rw [Array.getElem?_eq_getElem (by rw [hsz]; exact hidx)]
  simp only [Option.getD_some, Option.map_some]
  have hk : u % 8 < 8 := Nat.mod_lt _ (by decide)
  split
  · rename_i hfull
    have : u < width := by omega
    simp [this]
  · rename_i hpart
    rw [bitOf_and _ _ _ hk]
    by_cases hz : width - u / 8 * 8 = 0
    · -- the whole byte is padding
      have hm : UInt8.ofNat (0xff - (0xff >>> (width - u / 8 * 8))) = 0 := by rw [hz]; rfl
      have : ¬ u < width := by omega
      rw [hm, bitOf_zero]; simp [this]
    · have hr : width - u / 8 * 8 < 8 := by omega
      have := bitOf_padmask ⟨width - u / 8 * 8, hr⟩ ⟨u % 8, hk⟩ (by simp; omega)
      simp only [] at this
      rw [this]
      congr 2
      simp only [decide_eq_decide]
      omega

/-! ### loops that only OR bits into a bitmap -/

/-- `m'` has the size of `m` and every bit set in `m` is set in `m'` -/
def BMono (m m' : Array UInt8) : Prop :=
  m'.size = m.size ∧ ∀ (idx : Nat) (b : UInt8), m[idx]? = some b →
    ∃ b' : UInt8, m'[idx]? = some b' ∧ ∀ k, k < 8 → bitOf b k = true → bitOf b' k = true

theorem BMono.refl (m : Array UInt8) : BMono m m := ⟨rfl, fun _ b h => ⟨b, h, fun _ _ hb => hb⟩⟩

theorem BMono.trans {a b c : Array UInt8} (h1 : BMono a b) (h2 : BMono b c) : BMono a c := by
  refine ⟨h2.1.trans h1.1, fun idx x hx => ?_⟩
  obtain ⟨y, hy, hxy⟩ := h1.2 idx x hx
  obtain ⟨z, hz, hyz⟩ := h2.2 idx y hy
  exact ⟨z, hz, fun k hk hb => hyz k hk (hxy k hk hb)⟩

/-- `mask[i] |= x` -/
theorem orByte_spec {a a' : Array UInt8} {i : Nat} {x : UInt8} (h : orByte a i x = some a') :
    BMono a a' ∧ (∃ b, a[i]? = some b ∧ a'[i]? = some (b ||| x)) ∧ ∀ idx, idx ≠ i → a'[idx]? = a[idx]? := by
  unfold orByte at h
  split at h
  · rename_i hlt
    simp only [Option.some.injEq] at h; subst h
    refine ⟨⟨Array.size_set _, fun idx b hb => ?_⟩, ⟨a[i], Array.getElem?_eq_getElem hlt, by simp⟩,
      fun idx hne => Array.getElem?_set_ne _ (Ne.symm hne)⟩
    by_cases hidx : idx = i
    · subst hidx
      rw [Array.getElem?_eq_getElem hlt] at hb
      simp only [Option.some.injEq] at hb; subst hb
      exact ⟨a[idx] ||| x, by simp, fun k hk hbit => by rw [bitOf_or _ _ _ hk, hbit]; rfl⟩
    · exact ⟨b, by rw [Array.getElem?_set_ne _ (Ne.symm hidx)]; exact hb, fun _ _ h => h⟩
  · simp at h

theorem ite_orByte_mono {p : Prop} [Decidable p] {a a' : Array UInt8} {i : Nat} {x : UInt8}
    (h : (if p then orByte a i x else some a) = some a') : BMono a a' := by
  split at h
  · exact (orByte_spec h).1
  · simp at h; subst h; exact BMono.refl _

theorem forM?_mono {n : Nat} {f : Nat → Array UInt8 → Option (Array UInt8)} {s s' : Array UInt8}
    (hf : ∀ k, k < n → ∀ a b, f k a = some b → BMono a b) (h : forM? n f s = some s') : BMono s s' :=
  forM?_ind (fun _ a => BMono s a) (BMono.refl s) (fun k hk a b ha hab => ha.trans (hf k hk a b hab)) h

/-! ### rfbMakeMaskForXCursor: the mask covers the source -/

/-- bits of the source byte at `idx` are set in the mask byte at `idx` -/
def CoversAt (src m : Array UInt8) (idx : Nat) : Prop :=
  ∀ bs, src[idx]? = some bs → ∃ bm, m[idx]? = some bm ∧ ∀ k, k < 8 → bitOf bs k = true → bitOf bm k = true

theorem CoversAt.mono {src m m' : Array UInt8} {idx : Nat} (h : CoversAt src m idx) (hm : BMono m m') :
    CoversAt src m' idx := by
  intro bs hbs
  obtain ⟨bm, hbm, hb⟩ := h bs hbs
  obtain ⟨bm', hbm', hb'⟩ := hm.2 idx bm hbm
  exact ⟨bm', hbm', fun k hk hbit => hb' k hk (hb k hk hbit)⟩

theorem maskForXStep_spec {w height : Nat} {src m m' : Array UInt8} {j k : Nat}
    (h : maskForXStep w height src j k m = some m') :
    BMono m m' ∧ CoversAt src m' (j * w + (w - 1 - k)) := by
  unfold maskForXStep at h
  simp only [] at h
  obtain ⟨c0, hc0, h⟩ := Option.bind_eq_some_iff.mp h
  obtain ⟨c1, _, h⟩ := Option.bind_eq_some_iff.mp h
  obtain ⟨c2, _, h⟩ := Option.bind_eq_some_iff.mp h
  obtain ⟨m1, h1, h⟩ := Option.bind_eq_some_iff.mp h
  obtain ⟨m2, h2, h⟩ := Option.bind_eq_some_iff.mp h
  obtain ⟨hm3, ⟨b, _, hb'⟩, _⟩ := orByte_spec h
  refine ⟨(ite_orByte_mono h1).trans ((ite_orByte_mono h2).trans hm3), ?_⟩
  intro bs hbs
  rw [hc0] at hbs
  simp only [Option.some.injEq] at hbs; subst hbs
  refine ⟨_, hb', fun k hk hbit => ?_⟩
  have hc : bitOf (c0 ||| c1 ||| c2) k = true := by
    rw [bitOf_or _ _ _ hk, bitOf_or _ _ _ hk, hbit]; rfl
  rw [bitOf_or _ _ _ hk, bitOf_or _ _ _ hk, bitOf_or _ _ _ hk, hc]
  simp

/-- **mask_covers_source**: the mask rfbMakeMaskForXCursor derives (the source dilated by one
pixel) has every source pixel set — the cursor's own pixels are never transparent -/
theorem mask_covers_source {width height : Nat} {src mask : Array UInt8}
    (h : makeMaskForXCursor width height src = some mask) {u v : Nat} (hu : u < width) (hv : v < height)
    (hbit : maskBit src width u v = some true) : maskBit mask width u v = some true := by
  unfold makeMaskForXCursor at h
  simp only [] at h
  have hcol : u / 8 < rowBytes width := rowByte_lt hu
  -- after the outer loop every byte of every row is covered
  have key := forM?_ind
    (fun J (m : Array UInt8) => ∀ j, j < J → ∀ i, i < rowBytes width → CoversAt src m (j * rowBytes width + i))
    (n := height) (s := Array.replicate (rowBytes width * height) 0) (s' := mask)
    (fun j hj => by omega)
    (by
      intro J hJ a b ha hab
      -- the row loop: monotone, and covers the columns it has visited
      have hrow := forM?_ind
        (fun K (m : Array UInt8) => BMono a m ∧ ∀ k, k < K → CoversAt src m (J * rowBytes width + (rowBytes width - 1 - k)))
        (n := rowBytes width) (s := a) (s' := b) ⟨BMono.refl a, fun k hk => by omega⟩
        (by
          intro K hK x y ⟨hax, hcov⟩ hxy
          obtain ⟨hmono, hc⟩ := maskForXStep_spec hxy
          refine ⟨hax.trans hmono, fun k hk => ?_⟩
          by_cases hkK : k = K
          · subst hkK; exact hc
          · exact (hcov k (by omega)).mono hmono) hab
      intro j hj i hi
      by_cases hjJ : j = J
      · subst hjJ
        have := hrow.2 (rowBytes width - 1 - i) (by omega)
        have e : rowBytes width - 1 - (rowBytes width - 1 - i) = i := by omega
        rw [e] at this; exact this
      · exact (ha j (by omega) i hi).mono hrow.1) h
  have hcov := key v hv (u / 8) hcol
  rw [maskBit_eq] at hbit ⊢
  cases hs : src[v * rowBytes width + u / 8]? with
  | none => rw [hs] at hbit; simp at hbit
  | some bs =>
    rw [hs] at hbit
    simp only [Option.map_some, Option.some.injEq] at hbit
    obtain ⟨bm, hbm, hb⟩ := hcov bs hs
    rw [hbm]
    simp only [Option.map_some, Option.some.injEq]
    exact hb _ (Nat.mod_lt _ (by decide)) hbit

/-! ### rfbMakeXCursorFromRichCursor: the bitmap it builds, and rich → X → rich -/

/-- is rich pixel `(u,v)` turned into a set bit? -/
def xSetAt (f : Format) (bpp : Nat) (c : Cursor) (rich : Array Px) (v u : Nat) : Bool :=
  match rich[v * c.w + u]? with
  | some p => xBitSet f bpp c p
  | none => false

theorem xStep_bits {f : Format} {bpp : Nat} {c : Cursor} {rich : Array Px} {j i : Nat} {m m' : Array UInt8}
    (hstep : xFromRichStep f bpp c rich j i m = some m') (hi : i < c.w) :
    m'.size = m.size ∧ ∀ u, u < c.w → ∀ v,
      maskBit m' c.w u v =
        if v = j ∧ u = i then (maskBit m c.w u v).map (· || xSetAt f bpp c rich j i) else maskBit m c.w u v := by
  unfold xFromRichStep at hstep
  obtain ⟨p, hp, hstep⟩ := Option.bind_eq_some_iff.mp hstep
  have hset : xSetAt f bpp c rich j i = xBitSet f bpp c p := by unfold xSetAt; rw [hp]
  cases hb : xBitSet f bpp c p with
  | false =>
    simp only [hb, Bool.false_eq_true, if_false, Option.some.injEq] at hstep
    subst hstep
    refine ⟨rfl, fun u _ v => ?_⟩
    split
    · rw [hset, hb]; cases maskBit m c.w u v <;> simp
    · rfl
  | true =>
    simp only [hb, if_true] at hstep
    obtain ⟨hmono, ⟨b, hb0, hb1⟩, hframe⟩ := orByte_spec hstep
    refine ⟨hmono.1, fun u hu v => ?_⟩
    have hk : u % 8 < 8 := Nat.mod_lt _ (by decide)
    have hki : i % 8 < 8 := Nat.mod_lt _ (by decide)
    rw [maskBit_eq, maskBit_eq]
    by_cases hidx : v * rowBytes c.w + u / 8 = j * rowBytes c.w + i / 8
    · obtain ⟨hv, hu8⟩ := lin_inj (rowByte_lt hu) (rowByte_lt hi) hidx
      rw [hidx, hb0, hb1]
      simp only [Option.map_some]
      have hs := bitOf_single ⟨i % 8, hki⟩ ⟨u % 8, hk⟩
      simp only [] at hs
      rw [bitOf_or _ _ _ hk, hs]
      by_cases hui : u = i
      · subst hui
        simp [hv, hset, hb]
      · have hne : ¬ (i % 8 = u % 8) := by omega
        have : ¬ (v = j ∧ u = i) := fun h => hui h.2
        simp [hne, this, Fin.ext_iff]
    · rw [hframe _ hidx]
      have : ¬ (v = j ∧ u = i) := by
        rintro ⟨rfl, rfl⟩; exact hidx rfl
      simp [this]

/-- **x_from_rich_bits**: the bitmap rfbMakeXCursorFromRichCursor builds has (row stride `(w+7)/8`,
MSB first) bit `(u,v)` set exactly when rich pixel `(u,v)` differs from the background colour
(interpolating mode: when its grey level is at least 128); padding bits stay clear -/
theorem x_from_rich_bits {f : Format} {bpp : Nat} {c c' : Cursor} {rich : Array Px}
    (hr : c.rich = some rich) (h : makeXFromRich f bpp c = some c') :
    ∃ src, c'.source = some src ∧ src.size = rowBytes c.w * c.h ∧
      ∀ u, u < c.w → ∀ v, v < c.h → maskBit src c.w u v = some (xSetAt f bpp c rich v u) := by
  unfold makeXFromRich at h
  simp only [hr] at h
  obtain ⟨src, hloop, e⟩ := Option.map_eq_some_iff.mp h
  refine ⟨src, by rw [← e], ?_⟩
  have hzero : ∀ u, u < c.w → ∀ v, v < c.h →
      maskBit (Array.replicate (rowBytes c.w * c.h) (0 : UInt8)) c.w u v = some false := by
    intro u hu v hv
    rw [maskBit_eq]
    have : v * rowBytes c.w + u / 8 < rowBytes c.w * c.h := by
      rw [Nat.mul_comm (rowBytes c.w) c.h]; exact lin_lt hv (rowByte_lt hu)
    simp [this, bitOf_zero]
  have key := forM?_ind
    (fun J (m : Array UInt8) => m.size = rowBytes c.w * c.h ∧ ∀ u, u < c.w → ∀ v, v < c.h →
      maskBit m c.w u v = some (decide (v < J) && xSetAt f bpp c rich v u))
    (n := c.h) (s := Array.replicate (rowBytes c.w * c.h) 0) (s' := src)
    ⟨by simp, fun u hu v hv => by rw [hzero u hu v hv]; simp⟩
    (by
      intro J hJ a b ⟨hasz, ha⟩ hab
      have hrow := forM?_ind
        (fun I (m : Array UInt8) => m.size = rowBytes c.w * c.h ∧ ∀ u, u < c.w → ∀ v, v < c.h →
          maskBit m c.w u v = some ((decide (v < J) || (decide (v = J) && decide (u < I))) && xSetAt f bpp c rich v u))
        (n := c.w) (s := a) (s' := b)
        ⟨hasz, fun u hu v hv => by rw [ha u hu v hv]; simp⟩
        (by
          intro I hI x y ⟨hxsz, hx⟩ hxy
          obtain ⟨hsz, hbits⟩ := xStep_bits hxy hI
          refine ⟨by rw [hsz, hxsz], fun u hu v hv => ?_⟩
          rw [hbits u hu v, hx u hu v hv]
          by_cases hcell : v = J ∧ u = I
          · obtain ⟨rfl, rfl⟩ := hcell
            simp
          · rw [if_neg hcell]
            congr 2
            have : (decide (v = J) && decide (u < I + 1)) = (decide (v = J) && decide (u < I)) := by
              by_cases hv' : v = J
              · have : u ≠ I := fun h => hcell ⟨hv', h⟩
                simp [hv']; omega
              · simp [hv']
            rw [this]) hab
      refine ⟨hrow.1, fun u hu v hv => ?_⟩
      rw [hrow.2 u hu v hv]
      congr 2
      by_cases hv' : v = J
      · subst hv'; simp [hu]
      · simp [hv']; omega) hloop
  refine ⟨key.1, fun u hu v hv => ?_⟩
  rw [key.2 u hu v hv]; simp [hv]

/-- **rich_x_rich**: a two-colour rich cursor — every pixel is the foreground or the background
colour of the (repaired) X-cursor conversion, the two being different, colours not all zero —
survives rich → X (rfbMakeXCursorFromRichCursor) → rich (rfbMakeRichCursorFromXCursor) unchanged -/
theorem rich_x_rich {f : Format} {bpp : Nat} {c c' : Cursor} {rich rich' : Array Px}
    (hr : c.rich = some rich) (hsz : rich.size = c.w * c.h) (hni : xInterp bpp c = false)
    (hne : xColour Variant.fixed f bpp c.foreR c.foreG c.foreB ≠ xColour Variant.fixed f bpp c.backR c.backG c.backB)
    (h2 : ∀ t, t < c.w * c.h → rich[t]? = some (xColour Variant.fixed f bpp c.foreR c.foreG c.foreB) ∨
                                 rich[t]? = some (xColour Variant.fixed f bpp c.backR c.backG c.backB))
    (hx : makeXFromRich f bpp c = some c')
    (hback : makeRichPixels Variant.fixed f bpp { c' with rich := none } = some rich') : rich' = rich := by
  obtain ⟨src, hsrc, _, hbits⟩ := x_from_rich_bits hr hx
  have hc' : c'.w = c.w ∧ c'.h = c.h ∧ c'.foreR = c.foreR ∧ c'.foreG = c.foreG ∧ c'.foreB = c.foreB ∧
      c'.backR = c.backR ∧ c'.backG = c.backG ∧ c'.backB = c.backB := by
    unfold makeXFromRich at hx
    simp only [hr, hni, Bool.false_eq_true, if_false] at hx
    obtain ⟨s0, _, e⟩ := Option.map_eq_some_iff.mp hx
    subst e
    exact ⟨rfl, rfl, rfl, rfl, rfl, rfl, rfl, rfl⟩
  obtain ⟨e1, e2, e3, e4, e5, e6, e7, e8⟩ := hc'
  have hbg : xBackground f bpp c = xColour Variant.fixed f bpp c.backR c.backG c.backB := rfl
  have hsz' : rich'.size = c.w * c.h := by rw [makeRichPixels_size hback]; show c'.w * c'.h = _; rw [e1, e2]
  apply Array.ext_getElem?
  intro t
  by_cases ht : t < c.w * c.h
  · have hw : 0 < c.w := by
      rcases Nat.eq_zero_or_pos c.w with h0 | h0
      · rw [h0] at ht; simp at ht
      · exact h0
    have hu : t % c.w < c.w := Nat.mod_lt _ hw
    have hv : t / c.w < c.h := (Nat.div_lt_iff_lt_mul hw).mpr (by rw [Nat.mul_comm]; exact ht)
    have ht' : t / c.w * c.w + t % c.w = t := by rw [Nat.mul_comm]; exact Nat.div_add_mod t c.w
    obtain ⟨bit, hbit, hpix⟩ := make_rich_law (c := { c' with rich := none }) (src := src) (v := Variant.fixed)
      (f := f) (bpp := bpp) hsrc hback (u := t % c.w) (w := t / c.w) (by show _ < c'.w; rw [e1]; exact hu)
      (by show _ < c'.h; rw [e2]; exact hv)
    simp only [e1, e3, e4, e5, e6, e7, e8] at hbit hpix
    rw [ht'] at hpix
    rw [hbits _ hu _ hv] at hbit
    simp only [Option.some.injEq] at hbit
    rw [hpix, ← hbit]
    unfold xSetAt
    rw [ht']
    rcases h2 t ht with hp | hp
    · rw [hp]; simp only [xBitSet, hni, Bool.false_eq_true, if_false, hbg]
      have : (xColour Variant.fixed f bpp c.foreR c.foreG c.foreB != xColour Variant.fixed f bpp c.backR c.backG c.backB) = true := by
        simp [hne]
      rw [this]; rfl
    · rw [hp]; simp only [xBitSet, hni, Bool.false_eq_true, if_false, hbg]
      simp
  · rw [Array.getElem?_eq_none (by omega), Array.getElem?_eq_none (by omega)]

/-! ### rfbMakeMaskFromAlphaSource: the dithering threshold -/

/-- OR-ing the single-bit byte of pixel `u0` into byte `v0*rb + u0/8` sets bit `(u0,v0)` and leaves
every other pixel's bit alone -/
theorem orBit_bits {w u0 v0 : Nat} {x : UInt8} {m m' : Array UInt8} (hu0 : u0 < w)
    (hx : ∀ k : Fin 8, bitOf x k.val = decide (u0 % 8 = k.val))
    (h : orByte m (v0 * rowBytes w + u0 / 8) x = some m') :
    m'.size = m.size ∧ maskBit m' w u0 v0 = some true ∧
    ∀ u, u < w → ∀ v, ¬ (v = v0 ∧ u = u0) → maskBit m' w u v = maskBit m w u v := by
  obtain ⟨hmono, ⟨b, hb0, hb1⟩, hframe⟩ := orByte_spec h
  have hk0 : u0 % 8 < 8 := Nat.mod_lt _ (by decide)
  refine ⟨hmono.1, ?_, fun u hu v hne => ?_⟩
  · rw [maskBit_eq, hb1]
    simp only [Option.map_some, Option.some.injEq]
    rw [bitOf_or _ _ _ hk0, hx ⟨u0 % 8, hk0⟩]; simp
  · have hk : u % 8 < 8 := Nat.mod_lt _ (by decide)
    rw [maskBit_eq, maskBit_eq]
    by_cases hidx : v * rowBytes w + u / 8 = v0 * rowBytes w + u0 / 8
    · obtain ⟨hv, hu8⟩ := lin_inj (rowByte_lt hu) (rowByte_lt hu0) hidx
      rw [hidx, hb0, hb1]
      simp only [Option.map_some, Option.some.injEq]
      rw [bitOf_or _ _ _ hk, hx ⟨u % 8, hk⟩]
      have : ¬ (u0 % 8 = u % 8) := by
        intro e; apply hne; exact ⟨hv, by omega⟩
      simp [this]
    · rw [hframe _ hidx]

/-- what one pixel of the Floyd–Steinberg loop does: the accumulated value `cur + alpha + err[i]`
is compared with 0x80; at or above it the pixel's mask bit is set (and 0xff is subtracted) -/
theorem fsStep_spec {width stride : Nat} {alpha : Array UInt8} {j i : Nat} {st st' : FsState}
    (h : fsStep width stride alpha j i st = some st') :
    ∃ a e, alpha[i + width * j]? = some a ∧ st.err[i]? = some e ∧
      st'.err.size = st.err.size ∧
      (st.cur + (a.toNat : Int) + e < 0x80 → st'.res = st.res) ∧
      (¬ st.cur + (a.toNat : Int) + e < 0x80 →
        orByte st.res (i / 8 + j * stride) (UInt8.ofNat (0x100 >>> ((i % 8) + 1))) = some st'.res) := by
  unfold fsStep at h
  obtain ⟨a, ha, h⟩ := Option.bind_eq_some_iff.mp h
  obtain ⟨e, he, h⟩ := Option.bind_eq_some_iff.mp h
  simp only [] at h
  obtain ⟨⟨cur1, res⟩, hres, h⟩ := Option.bind_eq_some_iff.mp h
  simp only [] at h
  obtain ⟨e1, h1, h⟩ := Option.bind_eq_some_iff.mp h
  obtain ⟨e2, h2, h⟩ := Option.bind_eq_some_iff.mp h
  obtain ⟨e3, h3, h⟩ := Option.bind_eq_some_iff.mp h
  simp only [Option.some.injEq] at h
  subst h
  have sz : ∀ {x y : Array Int} {k : Nat} {z : Int}, setErr x k z = some y → y.size = x.size := by
    intro x y k z hs; unfold setErr at hs; split at hs
    · simp at hs; subst hs; simp
    · simp at hs
  have s1 := sz h1
  have s2 : e2.size = e1.size := by
    split at h2
    · exact sz h2
    · simp at h2; subst h2; rfl
  have s3 : e3.size = e2.size := by
    split at h3
    · exact sz h3
    · simp at h3; subst h3; rfl
  refine ⟨a, e, ha, he, by simp only []; rw [s3, s2, s1], ?_, ?_⟩
  · intro hlt
    rw [if_pos hlt] at hres
    simp only [Option.some.injEq, Prod.mk.injEq] at hres
    exact hres.2.symm
  · intro hge
    rw [if_neg hge] at hres
    obtain ⟨r, hr, e⟩ := Option.map_eq_some_iff.mp hres
    simp only [Prod.mk.injEq] at e
    rw [← e.2]; exact hr

/-- **alpha_threshold**: the very first pixel of the mask is set exactly when its alpha value is
at least 0x80 — the dithering threshold; no later step touches that bit -/
theorem alpha_threshold {width height : Nat} {alpha mask : Array UInt8} (hw : 0 < width) (hh : 0 < height)
    (h : makeMaskFromAlpha width height alpha = some mask) :
    ∃ a0, alpha[0]? = some a0 ∧ maskBit mask width 0 0 = some (decide (a0.toNat ≥ 0x80)) := by
  unfold makeMaskFromAlpha at h
  simp only [] at h
  obtain ⟨stf, hloop, e⟩ := Option.map_eq_some_iff.mp h
  subst e
  have hpos : 0 < rowBytes width * height := Nat.mul_pos (by unfold rowBytes; omega) hh
  have hz : maskBit (Array.replicate (rowBytes width * height) (0 : UInt8)) width 0 0 = some false := by
    rw [maskBit_eq]
    simp only [Nat.zero_mul, Nat.zero_div, Nat.add_zero]
    rw [Array.getElem?_replicate, if_pos hpos]
    simp [bitOf_zero]
  -- generic step: a pixel other than (0,0) leaves bit (0,0) alone
  have other : ∀ {j i : Nat} {st st' : FsState}, i < width → ¬ (j = 0 ∧ i = 0) →
      fsStep width (rowBytes width) alpha j i st = some st' →
      maskBit st'.res width 0 0 = maskBit st.res width 0 0 := by
    intro j i st st' hi hne hs
    obtain ⟨a, e, _, _, _, hlo, hhi⟩ := fsStep_spec hs
    by_cases hc : st.cur + (a.toNat : Int) + e < 0x80
    · rw [hlo hc]
    · have hor := hhi hc
      rw [Nat.add_comm (i / 8)] at hor
      have := (orBit_bits (w := width) (u0 := i) (v0 := j) hi
        (fun k => by have := bitOf_single' ⟨i % 8, Nat.mod_lt _ (by decide)⟩ k; simpa [Fin.ext_iff] using this) hor).2.2
        0 hw 0 (by intro h'; exact hne ⟨h'.1.symm, h'.2.symm⟩)
      exact this
  -- "pixel (0,0) has been processed" / "not yet"
  let Pst : Bool → FsState → Prop := fun done st =>
    if done then ∃ a0, alpha[0]? = some a0 ∧ maskBit st.res width 0 0 = some (decide (a0.toNat ≥ 0x80))
    else st.cur = 0 ∧ st.err[0]? = some 0 ∧ maskBit st.res width 0 0 = some false
  have first : ∀ {st st' : FsState}, Pst false st → fsStep width (rowBytes width) alpha 0 0 st = some st' →
      Pst true st' := by
    intro st st' ⟨hcur, herr, hbit⟩ hs
    obtain ⟨a, e, ha, he, _, hlo, hhi⟩ := fsStep_spec hs
    simp only [Nat.mul_zero, Nat.add_zero] at ha
    rw [herr] at he
    simp only [Option.some.injEq] at he
    subst he
    refine ⟨a, ha, ?_⟩
    by_cases hc : st.cur + (a.toNat : Int) + 0 < 0x80
    · rw [hlo hc, hbit]
      have : ¬ a.toNat ≥ 0x80 := by omega
      simp [this]
    · have hor := hhi hc
      have hb := (orBit_bits (w := width) (u0 := 0) (v0 := 0) hw
        (fun k => by have := bitOf_single' ⟨0, by decide⟩ k; simpa [Fin.ext_iff] using this)
        (by simpa using hor)).2.1
      rw [hb]
      have : a.toNat ≥ 0x80 := by omega
      simp [this]
  have step : ∀ {j i : Nat} {st st' : FsState}, i < width →
      Pst (decide (0 < j ∨ 0 < i)) st → fsStep width (rowBytes width) alpha j i st = some st' → Pst true st' := by
    intro j i st st' hi hp hs
    by_cases h00 : j = 0 ∧ i = 0
    · obtain ⟨rfl, rfl⟩ := h00
      exact first (by simpa using hp) hs
    · have hd : decide (0 < j ∨ 0 < i) = true := by simp; omega
      rw [hd] at hp
      obtain ⟨a0, ha0, hb⟩ := hp
      exact ⟨a0, ha0, by rw [other hi h00 hs]; exact hb⟩
  have key := forM?_ind (fun J st => Pst (decide (0 < J)) st) (n := height)
    (s := ({ err := Array.replicate width 0, cur := 0, res := Array.replicate (rowBytes width * height) 0 } : FsState))
    (s' := stf)
    (by
      show Pst (decide (0 < 0)) _
      simp only [Nat.lt_irrefl, decide_false]
      exact ⟨rfl, by simp [hw], hz⟩)
    (by
      intro J _ a b ha hab
      have hrow := forM?_ind (fun I st => Pst (decide (0 < J ∨ 0 < I)) st) (n := width) (s := a) (s' := b)
        (by simpa using ha)
        (by
          intro I hI x y hx hxy
          have := step hI hx hxy
          have hd : decide (0 < J ∨ 0 < I + 1) = true := by simp
          rw [hd]; exact this) hab
      have hd : decide (0 < J ∨ 0 < width) = true := by simp [hw]
      rw [hd] at hrow
      have hd2 : decide (0 < J + 1) = true := by simp
      rw [hd2]; exact hrow) hloop
  have hd : decide (0 < height) = true := by simp [hh]
  rw [hd] at key
  exact key

/-- error row of all zeros -/
def ZeroErr (width : Nat) (e : Array Int) : Prop := e.size = width ∧ ∀ k, k < width → e[k]? = some 0

theorem setErr_zero {width : Nat} {e e' : Array Int} {i : Nat} (hz : ZeroErr width e)
    (h : setErr e i 0 = some e') : ZeroErr width e' := by
  unfold setErr at h
  split at h
  · rename_i hlt
    simp only [Option.some.injEq] at h; subst h
    refine ⟨by rw [Array.size_set]; exact hz.1, fun k hk => ?_⟩
    rw [Array.getElem?_set]
    split
    · rfl
    · exact hz.2 k hk
  · simp at h

theorem ite_setErr_zero {width : Nat} {p : Prop} [Decidable p] {e e' : Array Int} {i : Nat} (hz : ZeroErr width e)
    (h : (if p then setErr e i 0 else some e) = some e') : ZeroErr width e' := by
  split at h
  · exact setErr_zero hz h
  · simp at h; subst h; exact hz

/-- a fully transparent or fully opaque pixel leaves no error behind -/
theorem fsStep_flat {width stride : Nat} {alpha : Array UInt8} {j i : Nat} {st st' : FsState} {a : UInt8}
    (hi : i < width) (hcur : st.cur = 0) (hz : ZeroErr width st.err) (ha : alpha[i + width * j]? = some a)
    (ha2 : a.toNat = 0 ∨ a.toNat = 255) (h : fsStep width stride alpha j i st = some st') :
    st'.cur = 0 ∧ ZeroErr width st'.err ∧ (a.toNat = 0 → st'.res = st.res) ∧
    (a.toNat = 255 → orByte st.res (i / 8 + j * stride) (UInt8.ofNat (0x100 >>> ((i % 8) + 1))) = some st'.res) := by
  unfold fsStep at h
  obtain ⟨a', ha', h⟩ := Option.bind_eq_some_iff.mp h
  rw [ha] at ha'; simp only [Option.some.injEq] at ha'; subst ha'
  obtain ⟨e, he, h⟩ := Option.bind_eq_some_iff.mp h
  rw [hz.2 i hi] at he; simp only [Option.some.injEq] at he; subst he
  simp only [] at h
  obtain ⟨⟨cur1, res⟩, hres, h⟩ := Option.bind_eq_some_iff.mp h
  simp only [] at h
  -- the accumulated value is the alpha value itself; after the decision nothing is left over
  have hdec : cur1 = 0 ∧ (a.toNat = 0 → res = st.res) ∧
      (a.toNat = 255 → orByte st.res (i / 8 + j * stride) (UInt8.ofNat (0x100 >>> ((i % 8) + 1))) = some res) := by
    rw [hcur] at hres
    split at hres
    · rename_i hlt
      simp only [Option.some.injEq, Prod.mk.injEq] at hres
      have h0 : a.toNat = 0 := by omega
      exact ⟨by rw [← hres.1, h0]; rfl, fun _ => hres.2.symm, fun h' => by omega⟩
    · rename_i hge
      obtain ⟨r, hr, e⟩ := Option.map_eq_some_iff.mp hres
      simp only [Prod.mk.injEq] at e
      have h255 : a.toNat = 255 := by omega
      exact ⟨by rw [← e.1, h255]; rfl, fun h' => by omega, fun _ => by rw [← e.2]; exact hr⟩
  obtain ⟨hc1, hr0, hr1⟩ := hdec
  subst hc1
  have t0 : Int.tdiv (0 : Int) 16 = 0 := by decide
  have t5 : Int.tdiv ((0 : Int) * 5) 16 = 0 := by decide
  have t3 : Int.tdiv ((0 : Int) * 3) 16 = 0 := by decide
  rw [t0, t5, t3] at h
  obtain ⟨e1, h1, h⟩ := Option.bind_eq_some_iff.mp h
  obtain ⟨e2, h2, h⟩ := Option.bind_eq_some_iff.mp h
  obtain ⟨e3, h3, h⟩ := Option.bind_eq_some_iff.mp h
  simp only [Option.some.injEq] at h; subst h
  have z1 := setErr_zero hz h1
  have z2 := ite_setErr_zero z1 h2
  have z3 := ite_setErr_zero z2 h3
  exact ⟨by show (0 : Int) - (0 + 0 + 0) = 0; decide, z3, hr0, hr1⟩

theorem alphaIdx_lt {width height i j : Nat} (hi : i < width) (hj : j < height) : i + width * j < width * height := by
  have := lin_lt (j := j) (rows := height) (n := width) (i := i) hj hi
  rw [Nat.mul_comm width j, Nat.mul_comm width height]; omega

theorem maskBit_mono {m m' : Array UInt8} {w u v : Nat} (hm : BMono m m') (h : maskBit m w u v = some true) :
    maskBit m' w u v = some true := by
  rw [maskBit_eq] at h ⊢
  cases hb : m[v * rowBytes w + u / 8]? with
  | none => rw [hb] at h; simp at h
  | some b =>
    rw [hb] at h
    simp only [Option.map_some, Option.some.injEq] at h
    obtain ⟨b', hb', hbits⟩ := hm.2 _ b hb
    rw [hb']
    simp only [Option.map_some, Option.some.injEq]
    exact hbits _ (Nat.mod_lt _ (by decide)) h

/-- **alpha_mask_clear / alpha_mask_full**: a fully transparent alpha source gives the all-zero
mask; a fully opaque one gives a mask with every pixel of the cursor set -/
theorem alpha_mask_clear {width height : Nat} {alpha mask : Array UInt8}
    (hall : ∀ t, t < width * height → alpha[t]? = some 0)
    (h : makeMaskFromAlpha width height alpha = some mask) :
    mask = Array.replicate (rowBytes width * height) 0 := by
  unfold makeMaskFromAlpha at h
  simp only [] at h
  obtain ⟨stf, hloop, e⟩ := Option.map_eq_some_iff.mp h
  subst e
  have key := forM?_ind
    (fun (_ : Nat) (st : FsState) => st.cur = 0 ∧ ZeroErr width st.err ∧ st.res = Array.replicate (rowBytes width * height) 0)
    (n := height)
    (s := ({ err := Array.replicate width 0, cur := 0, res := Array.replicate (rowBytes width * height) 0 } : FsState))
    (s' := stf) ⟨rfl, ⟨by simp, fun k hk => by simp [hk]⟩, rfl⟩
    (by
      intro J hJ a b ha hab
      exact forM?_ind
        (fun (_ : Nat) (st : FsState) => st.cur = 0 ∧ ZeroErr width st.err ∧ st.res = Array.replicate (rowBytes width * height) 0)
        (n := width) (s := a) (s' := b) ha
        (by
          intro I hI x y ⟨hc, hz, hr⟩ hxy
          obtain ⟨c1, z1, r0, _⟩ := fsStep_flat hI hc hz (hall _ (alphaIdx_lt hI hJ)) (Or.inl rfl) hxy
          exact ⟨c1, z1, by rw [r0 rfl, hr]⟩) hab) hloop
  exact key.2.2

theorem alpha_mask_full {width height : Nat} {alpha mask : Array UInt8}
    (hall : ∀ t, t < width * height → alpha[t]? = some 255)
    (h : makeMaskFromAlpha width height alpha = some mask) {u v : Nat} (hu : u < width) (hv : v < height) :
    maskBit mask width u v = some true := by
  unfold makeMaskFromAlpha at h
  simp only [] at h
  obtain ⟨stf, hloop, e⟩ := Option.map_eq_some_iff.mp h
  subst e
  -- one pixel: sets its own bit, keeps all set bits
  have step : ∀ {J I : Nat} {x y : FsState}, I < width → J < height → x.cur = 0 → ZeroErr width x.err →
      fsStep width (rowBytes width) alpha J I x = some y →
      y.cur = 0 ∧ ZeroErr width y.err ∧ BMono x.res y.res ∧ maskBit y.res width I J = some true := by
    intro J I x y hI hJ hc hz hxy
    obtain ⟨c1, z1, _, r1⟩ := fsStep_flat hI hc hz (hall _ (alphaIdx_lt hI hJ)) (Or.inr rfl) hxy
    have hor := r1 rfl
    rw [Nat.add_comm (I / 8)] at hor
    have hb := orBit_bits (w := width) (u0 := I) (v0 := J) hI
      (fun k => by have := bitOf_single' ⟨I % 8, Nat.mod_lt _ (by decide)⟩ k; simpa [Fin.ext_iff] using this) hor
    exact ⟨c1, z1, (orByte_spec hor).1, hb.2.1⟩
  have key := forM?_ind
    (fun (J : Nat) (st : FsState) => st.cur = 0 ∧ ZeroErr width st.err ∧
      ∀ j, j < J → ∀ i, i < width → maskBit st.res width i j = some true)
    (n := height)
    (s := ({ err := Array.replicate width 0, cur := 0, res := Array.replicate (rowBytes width * height) 0 } : FsState))
    (s' := stf) ⟨rfl, ⟨by simp, fun k hk => by simp [hk]⟩, fun j hj => by omega⟩
    (by
      intro J hJ a b ⟨hac, haz, hab'⟩ hab
      have hrow := forM?_ind
        (fun (I : Nat) (st : FsState) => st.cur = 0 ∧ ZeroErr width st.err ∧ BMono a.res st.res ∧
          ∀ i, i < I → maskBit st.res width i J = some true)
        (n := width) (s := a) (s' := b) ⟨hac, haz, BMono.refl _, fun i hi => by omega⟩
        (by
          intro I hI x y ⟨hc, hz, hm, hbits⟩ hxy
          obtain ⟨c1, z1, m1, b1⟩ := step hI hJ hc hz hxy
          refine ⟨c1, z1, hm.trans m1, fun i hi => ?_⟩
          by_cases hiI : i = I
          · subst hiI; exact b1
          · exact maskBit_mono m1 (hbits i (by omega))) hab
      refine ⟨hrow.1, hrow.2.1, fun j hj i hi => ?_⟩
      by_cases hjJ : j = J
      · subst hjJ; exact hrow.2.2.2 i hi
      · exact maskBit_mono hrow.2.2.1 (hab' j (by omega) i hi)) hloop
  exact key.2.2 v hv u hu

end VncModel.Cursor
