import VncModel.Cursor.SessionLemmas
/-
Lemmas about the cursor pseudo-rectangles (rfbSendCursorShape / rfbSendCursorPos).
-/
namespace VncModel.Cursor
open VncModel.Gen.C15

/-- the conversions keep size, hot-spot, mask, alpha data and an already present representation -/
theorem convertFor_geom {v : Variant} {f : Format} {bpp : Nat} {r : Bool} {c0 c : Cursor}
    (h : convertFor v f bpp r c0 = some c) :
    c.w = c0.w ∧ c.h = c0.h ∧ c.xhot = c0.xhot ∧ c.yhot = c0.yhot ∧ c.mask = c0.mask ∧
    c.alpha = c0.alpha ∧ c.premult = c0.premult ∧
    (r = true → c.rich = richOf v f bpp c0 ∧ c.source = c0.source) ∧
    (r = false → c.rich = c0.rich ∧ c.source ≠ none) := by
  unfold convertFor at h
  cases r with
  | true =>
    simp only [if_true] at h
    cases hr : c0.rich with
    | some rr =>
      simp only [hr, Option.some.injEq] at h; subst h
      refine ⟨rfl, rfl, rfl, rfl, rfl, rfl, rfl, fun _ => ⟨?_, rfl⟩, fun h => by simp at h⟩
      simp [richOf, hr]
    | none =>
      simp only [hr] at h
      obtain ⟨rr, hrr, e⟩ := Option.map_eq_some_iff.mp h
      subst e
      refine ⟨rfl, rfl, rfl, rfl, rfl, rfl, rfl, fun _ => ⟨?_, rfl⟩, fun h => by simp at h⟩
      simp [richOf, hr, hrr]
  | false =>
    simp only [Bool.false_eq_true, if_false] at h
    cases hsrc : c0.source with
    | some sr =>
      simp only [hsrc, Option.some.injEq] at h; subst h
      exact ⟨rfl, rfl, rfl, rfl, rfl, rfl, rfl, fun h => by simp at h, fun _ => ⟨rfl, by simp [hsrc]⟩⟩
    | none =>
      simp only [hsrc] at h
      unfold makeXFromRich at h
      cases hr : c0.rich with
      | none => simp [hr] at h
      | some rich =>
        simp only [hr] at h
        obtain ⟨src, _, e⟩ := Option.map_eq_some_iff.mp h
        subst e
        refine ⟨?_, ?_, ?_, ?_, ?_, ?_, ?_, fun h => by simp at h, fun _ => ⟨?_, by simp⟩⟩ <;>
          (simp only []; split <;> simp [hr])

theorem flatMap_pxBytes_length (bpp : Nat) (l : List Px) : (l.flatMap (pxBytes bpp)).length = l.length * bpp := by
  induction l with
  | nil => simp
  | cons a t ih => simp [List.flatMap_cons, ih, pxBytes, Nat.add_mul, Nat.add_comm]

/-- **payload of the cursor rectangle**: RichCursor — the cursor's pixels in order, then its mask
bytes; XCursor — the six colour bytes (high bytes of the 16-bit colours), the source bitmap, the
mask; with the sizes the protocol prescribes -/
theorem shapePayload_exact {w : Wire} {r : Bool} {c : Cursor} {pl : List UInt8} (hc : c.WF)
    (h : shapePayload w r c = some pl) :
    (r = true → ∃ rich, c.rich = some rich ∧
        pl = (rich.toList.map w.tr).flatMap (pxBytes w.bpp) ++ c.mask.toList ∧
        pl.length = c.w * c.h * w.bpp + rowBytes c.w * c.h) ∧
    (r = false → ∃ src, c.source = some src ∧
        pl = [UInt8.ofNat (c.foreR / 256), UInt8.ofNat (c.foreG / 256), UInt8.ofNat (c.foreB / 256),
              UInt8.ofNat (c.backR / 256), UInt8.ofNat (c.backG / 256), UInt8.ofNat (c.backB / 256)]
             ++ src.toList ++ c.mask.toList ∧
        pl.length = sz_rfbXCursorColors + 2 * (rowBytes c.w * c.h)) := by
  unfold shapePayload at h
  simp only [] at h
  obtain ⟨mk, hmk, h⟩ := Option.bind_eq_some_iff.mp h
  rw [← hc.maskSz] at hmk
  have hmk' := tabulate?_getElem hmk
  subst hmk'
  cases r with
  | true =>
    simp only [if_true] at h
    refine ⟨fun _ => ?_, fun h => by simp at h⟩
    cases hr : c.rich with
    | none => simp [hr] at h
    | some rich =>
      simp only [hr] at h
      obtain ⟨px, hpx, e⟩ := Option.map_eq_some_iff.mp h
      rw [← hc.richSz rich hr] at hpx
      have := tabulate?_getElem hpx
      subst this
      refine ⟨px, rfl, e.symm, ?_⟩
      rw [← e, List.length_append, flatMap_pxBytes_length, List.length_map, Array.length_toList, Array.length_toList,
        hc.richSz px hr, hc.maskSz]
  | false =>
    simp only [Bool.false_eq_true, if_false] at h
    refine ⟨fun h => by simp at h, fun _ => ?_⟩
    cases hsrc : c.source with
    | none => simp [hsrc] at h
    | some src =>
      simp only [hsrc] at h
      obtain ⟨sb, hsb, e⟩ := Option.map_eq_some_iff.mp h
      rw [← hc.srcSz src hsrc] at hsb
      have := tabulate?_getElem hsb
      subst this
      refine ⟨sb, rfl, e.symm, ?_⟩
      rw [← e]
      simp [hc.srcSz sb hsrc, hc.maskSz, sz_rfbXCursorColors]
      omega

/-- the cases of rfbSendCursorShape for an installed cursor -/
theorem shapeCore_some {v : Variant} {f : Format} {bpp : Nat} {w : Wire} {c0 : Cursor} {r : Bool}
    {c' : Option Cursor} {m : List UInt8} (h : shapeCore v f bpp w (some c0) r = some (c', m)) :
    ∃ c, c' = some c ∧ convertFor v f bpp r c0 = some c ∧
      (((isEmptyCursor c = some true ∨ shapeFits w r c = false) ∧
          m = rectHeader 0 0 0 0 (if r then encRichCursor else encXCursor)) ∨
       (isEmptyCursor c = some false ∧ shapeFits w r c = true ∧ ∃ pl, shapePayload w r c = some pl ∧
          m = rectHeader c.xhot c.yhot c.w c.h (if r then encRichCursor else encXCursor) ++ pl)) := by
  unfold shapeCore at h
  simp only [] at h
  obtain ⟨c, hconv, h⟩ := Option.bind_eq_some_iff.mp h
  obtain ⟨e, hemp, h⟩ := Option.bind_eq_some_iff.mp h
  cases e with
  | true =>
    simp only [Bool.true_or, if_true, Option.some.injEq, Prod.mk.injEq] at h
    exact ⟨c, h.1.symm, hconv, Or.inl ⟨Or.inl hemp, h.2.symm⟩⟩
  | false =>
    cases hfit : shapeFits w r c with
    | false =>
      simp only [hfit, Bool.not_false, Bool.or_true, if_true, Option.some.injEq, Prod.mk.injEq] at h
      exact ⟨c, h.1.symm, hconv, Or.inl ⟨Or.inr hfit, h.2.symm⟩⟩
    | true =>
      simp only [hfit, Bool.not_true, Bool.or_self, Bool.false_eq_true, if_false] at h
      obtain ⟨pl, hpl, e⟩ := Option.map_eq_some_iff.mp h
      simp only [Prod.mk.injEq] at e
      exact ⟨c, e.1.symm, hconv, Or.inr ⟨hemp, hfit, pl, hpl, e.2.symm⟩⟩

/-- without an installed cursor an empty cursor rectangle is sent -/
theorem shapeCore_none (v : Variant) (f : Format) (bpp : Nat) (w : Wire) (r : Bool) :
    shapeCore v f bpp w none r = some (none, rectHeader 0 0 0 0 (if r then encRichCursor else encXCursor)) := rfl

/-- cursors up to 64×64 at up to 4 bytes per pixel always fit the update buffer (so the
`return FALSE; /* FIXME */` path of rfbSendCursorShape is not reachable for them).  Depends on the
regenerated `UPDATE_BUF_SIZE` and header sizes. -/
theorem shapeFits_of_le {w : Wire} {r : Bool} {c : Cursor} (hw : c.w ≤ 64) (hh : c.h ≤ 64) (hb : w.bpp ≤ 4) :
    shapeFits w r c = true := by
  unfold shapeFits shapeBytes
  have h1 : rowBytes c.w ≤ 8 := by unfold rowBytes; omega
  have h2 : rowBytes c.w * c.h ≤ 8 * 64 := Nat.mul_le_mul h1 hh
  have h3 : c.w * c.h ≤ 64 * 64 := Nat.mul_le_mul hw hh
  have h4 : c.w * c.h * w.bpp ≤ 64 * 64 * 4 := Nat.mul_le_mul h3 hb
  simp only [UPDATE_BUF_SIZE, sz_rfbFramebufferUpdateRectHeader, sz_rfbXCursorColors]
  apply decide_eq_true
  cases r <;> simp only [Bool.false_eq_true, if_true, if_false] <;> omega

/-- ... and is assembled without a preliminary flush -/
theorem shapeNoFlush_of_le {w : Wire} {r : Bool} {c : Cursor} (hw : c.w ≤ 64) (hh : c.h ≤ 64) (hb : w.bpp ≤ 4) :
    shapeFlushesFirst w r c = false := by
  unfold shapeFlushesFirst shapeBytes
  have h1 : rowBytes c.w ≤ 8 := by unfold rowBytes; omega
  have h2 : rowBytes c.w * c.h ≤ 8 * 64 := Nat.mul_le_mul h1 hh
  have h3 : c.w * c.h ≤ 64 * 64 := Nat.mul_le_mul hw hh
  have h4 : c.w * c.h * w.bpp ≤ 64 * 64 * 4 := Nat.mul_le_mul h3 hb
  simp only [UPDATE_BUF_SIZE, sz_rfbFramebufferUpdateMsg, sz_rfbFramebufferUpdateRectHeader, sz_rfbXCursorColors]
  apply decide_eq_false
  cases r <;> simp only [Bool.false_eq_true, if_true, if_false] <;> omega

/-- the pseudo-rectangles emitted after the cursor shape find an (almost) empty buffer: their own
flush tests (`ublen + sz_rfbFramebufferUpdateRectHeader > UPDATE_BUF_SIZE` in rfbSendCursorPos and in
the empty-cursor branch) cannot fire, because `ublen ≤ sz_rfbFramebufferUpdateMsg` there -/
theorem header_always_fits :
    sz_rfbFramebufferUpdateMsg + sz_rfbFramebufferUpdateRectHeader ≤ UPDATE_BUF_SIZE := by decide

end VncModel.Cursor

namespace VncModel.Cursor

theorem orByte_size {a a' : Array UInt8} {i : Nat} {b : UInt8} (h : orByte a i b = some a') : a'.size = a.size := by
  unfold orByte at h
  split at h
  · simp at h; subst h; simp
  · simp at h

theorem ite_orByte_size {p : Prop} [Decidable p] {x y : Array UInt8} {i : Nat} {b : UInt8}
    (h : (if p then orByte x i b else some x) = some y) : y.size = x.size := by
  split at h
  · exact orByte_size h
  · simp at h; subst h; rfl

/-- rfbMakeXCursorFromRichCursor yields a bitmap of the right size, so the converted cursor is
well-formed -/
theorem makeXFromRich_wf {f : Format} {bpp : Nat} {c c' : Cursor} (hc : c.WF)
    (h : makeXFromRich f bpp c = some c') : c'.WF := by
  unfold makeXFromRich at h
  cases hr : c.rich with
  | none => simp [hr] at h
  | some rich =>
    simp only [hr] at h
    obtain ⟨src, hsrc, e⟩ := Option.map_eq_some_iff.mp h
    have hsz : src.size = rowBytes c.w * c.h := by
      have := forM?_ind (fun _ (a : Array UInt8) => a.size = rowBytes c.w * c.h) (by simp)
        (by
          intro j _ a b ha hb
          exact forM?_ind (fun _ (x : Array UInt8) => x.size = rowBytes c.w * c.h) ha
            (by
              intro i _ x y hx hy
              unfold xFromRichStep at hy
              obtain ⟨p, _, hy⟩ := Option.bind_eq_some_iff.mp hy
              rw [ite_orByte_size hy, hx]) hb) hsrc
      exact this
    subst e
    have key : ∀ c1 : Cursor, c1.w = c.w → c1.h = c.h → c1.mask = c.mask → c1.rich = c.rich →
        c1.alpha = c.alpha → ({ c1 with source := some src } : Cursor).WF := by
      intro c1 e1 e2 e3 e4 e5
      refine ⟨?_, ?_, ?_, ?_, Or.inr (by simp)⟩
      · show c1.mask.size = rowBytes c1.w * c1.h
        rw [e1, e2, e3]; exact hc.maskSz
      · intro r hr'
        show r.size = c1.w * c1.h
        rw [e1, e2]; exact hc.richSz r (by rw [← e4]; exact hr')
      · intro sr hsr
        simp only [Option.some.injEq] at hsr
        subst hsr
        show src.size = rowBytes c1.w * c1.h
        rw [e1, e2]; exact hsz
      · intro a ha
        show a.size = c1.w * c1.h
        rw [e1, e2]; exact hc.alphaSz a (by rw [← e5]; exact ha)
    apply key <;> (split <;> simp [hr])

theorem convertFor_wf {v : Variant} {f : Format} {bpp : Nat} {r : Bool} {c0 c : Cursor} (hc : c0.WF)
    (h : convertFor v f bpp r c0 = some c) : c.WF := by
  unfold convertFor at h
  cases r with
  | true =>
    simp only [if_true] at h
    cases hr : c0.rich with
    | some rr => simp only [hr, Option.some.injEq] at h; subst h; exact hc
    | none =>
      simp only [hr] at h
      obtain ⟨rr, hrr, e⟩ := Option.map_eq_some_iff.mp h
      subst e
      exact hc.withRich (makeRichPixels_size hrr)
  | false =>
    simp only [Bool.false_eq_true, if_false] at h
    cases hsrc : c0.source with
    | some sr => simp only [hsrc, Option.some.injEq] at h; subst h; exact hc
    | none => simp only [hsrc] at h; exact makeXFromRich_wf hc h

end VncModel.Cursor
