import VncModel.Cursor.ShowHide
/-
Session-level lemmas for C15: pixel-set regions, the rectangle marked for redraw, the cursor
bracket of rfbSendFramebufferUpdate, cursor pseudo-rectangles, pointer events.
-/
namespace VncModel.Cursor
open VncModel.Gen.C15

/-! ### regions -/

theorem Rgn.mem_ofFn {W H x y : Nat} (f : Nat → Nat → Bool) (hx : x < W) (hy : y < H) :
    (Rgn.ofFn W H f).mem W x y = f x y := by
  unfold Rgn.mem Rgn.ofFn
  have hlt : y * W + x < W * H := by rw [Nat.mul_comm W H]; exact lin_lt hy hx
  simp [hx, hlt, lin_mod W y x hx, lin_div W y x hx]

theorem Rgn.mem_or {W H x y : Nat} (a b : Rgn) (hx : x < W) (hy : y < H) :
    (Rgn.or W H a b).mem W x y = (a.mem W x y || b.mem W x y) := Rgn.mem_ofFn _ hx hy
theorem Rgn.mem_and {W H x y : Nat} (a b : Rgn) (hx : x < W) (hy : y < H) :
    (Rgn.and W H a b).mem W x y = (a.mem W x y && b.mem W x y) := Rgn.mem_ofFn _ hx hy
theorem Rgn.mem_sub {W H x y : Nat} (a b : Rgn) (hx : x < W) (hy : y < H) :
    (Rgn.sub W H a b).mem W x y = (a.mem W x y && !b.mem W x y) := Rgn.mem_ofFn _ hx hy
theorem Rgn.mem_empty {W H x y : Nat} (hx : x < W) (hy : y < H) :
    (Rgn.empty W H).mem W x y = false := Rgn.mem_ofFn _ hx hy
theorem Rgn.mem_full {W H x y : Nat} (hx : x < W) (hy : y < H) :
    (Rgn.full W H).mem W x y = true := Rgn.mem_ofFn _ hx hy
theorem Rgn.mem_ofRect {W H x y : Nat} (r : Option Rect) (hx : x < W) (hy : y < H) :
    (Rgn.ofRect W H r).mem W x y = (match r with | none => false | some r => r.has x y) :=
  Rgn.mem_ofFn _ hx hy

/-! ### the rectangle rfbRedrawAfterHideCursor marks -/

theorem clipRect2_covers (x y x2 y2 : Int) (W H : Nat) (px py : Nat)
    (h1 : x ≤ px) (h2 : (px:Int) < x2) (h3 : y ≤ py) (h4 : (py:Int) < y2) (hpx : px < W) (hpy : py < H) :
    let r := clipRect2 x y x2 y2 0 0 W H
    r.1 = true ∧ 0 ≤ r.2.1 ∧ 0 ≤ r.2.2.1 ∧ r.2.1 ≤ px ∧ (px:Int) < r.2.2.2.1 ∧ r.2.2.1 ≤ py ∧ (py:Int) < r.2.2.2.2 := by
  unfold clipRect2
  simp only [Bool.and_eq_true, decide_eq_true_eq]
  refine ⟨⟨?_, ?_⟩, ?_, ?_, ?_, ?_, ?_, ?_⟩ <;> (repeat' split) <;> omega

/-- pixel `(x,y)` of the screen lies inside the (unclipped) cursor bitmap placed with its hot-spot
at `(cx,cy)` -/
def inCursorBox (c : Cursor) (cx cy x y : Nat) : Prop :=
  0 ≤ (x:Int) - ((cx:Int) - c.xhot) ∧ (x:Int) - ((cx:Int) - c.xhot) < c.w ∧
  0 ≤ (y:Int) - ((cy:Int) - c.yhot) ∧ (y:Int) - ((cy:Int) - c.yhot) < c.h

instance (c : Cursor) (cx cy x y : Nat) : Decidable (inCursorBox c cx cy x y) := by
  unfold inCursorBox; infer_instance

/-- the marked rectangle contains every screen pixel under the cursor bitmap -/
theorem cursorBox_covers {s : Screen} {c : Cursor} (hc : s.cursor = some c) {cx cy x y : Nat}
    (hx : x < s.w) (hy : y < s.h) (hin : inCursorBox c cx cy x y) :
    (Rgn.ofRect s.w s.h (cursorBox s cx cy)).mem s.w x y = true := by
  rw [Rgn.mem_ofRect _ hx hy]
  obtain ⟨h1, h2, h3, h4⟩ := hin
  have := clipRect2_covers ((cx:Int) - c.xhot) ((cy:Int) - c.yhot) ((cx:Int) - c.xhot + c.w)
    ((cy:Int) - c.yhot + c.h) s.w s.h x y (by omega) (by omega) (by omega) (by omega) hx hy
  simp only [] at this
  obtain ⟨r1, r2, r3, r4, r5, r6, r7⟩ := this
  unfold cursorBox
  simp only [hc]
  generalize clipRect2 ((cx:Int) - c.xhot) ((cy:Int) - c.yhot) ((cx:Int) - c.xhot + c.w)
    ((cy:Int) - c.yhot + c.h) 0 0 s.w s.h = r at *
  obtain ⟨ok, a, b, c2, d⟩ := r
  simp only [] at r1 r2 r3 r4 r5 r6 r7
  subst r1
  simp only [Rect.has, Bool.and_eq_true, decide_eq_true_eq]
  omega

/-! ### cursor pseudo-rectangles -/

theorem cursorShapeRect_scr {v : Variant} {s s' : Screen} {w : Wire} {r : Bool} {m : List UInt8}
    (h : cursorShapeRect v s w r = some (s', m)) :
    s'.fb = s.fb ∧ s'.under = s.under ∧ s'.w = s.w ∧ s'.h = s.h ∧ s'.bpp = s.bpp ∧ s'.fmt = s.fmt ∧
    s'.curX = s.curX ∧ s'.curY = s.curY := by
  unfold cursorShapeRect at h
  obtain ⟨⟨c', m'⟩, _, h2⟩ := Option.map_eq_some_iff.mp h
  simp only [Prod.mk.injEq] at h2
  obtain ⟨rfl, _⟩ := h2
  exact ⟨rfl, rfl, rfl, rfl, rfl, rfl, rfl, rfl⟩

theorem tabulate?_getElem {α : Type} {a b : Array α} (h : tabulate? a.size (fun k => a[k]?) = some b) :
    b = a := by
  obtain ⟨hsz, hel⟩ := tabulate?_spec h
  apply Array.ext_getElem?
  intro i
  by_cases hi : i < a.size
  · exact hel i hi
  · rw [Array.getElem?_eq_none (by omega), Array.getElem?_eq_none (by omega)]

theorem rectHeader_length (x y w h enc : Nat) : (rectHeader x y w h enc).length = 12 := by
  simp [rectHeader, be16, be32]

/-! ### the bracket -/

/-- well-formed session: well-formed screen -/
def Sess.WF (s : Sess) : Prop := s.scr.WF

/-- **the framebuffer after the bracket is the framebuffer before it**, whatever was sent in
between; the screen geometry is untouched -/
theorem bracket_restores {v : Variant} {s : Sess} {c : Client} {scr2 scr3 : Screen} {m : Option (List UInt8)}
    (hs : s.scr.WF) (h : bracket v s c = some (scr2, scr3, m)) :
    scr3.fb = s.scr.fb ∧ scr3.w = s.scr.w ∧ scr3.h = s.scr.h ∧ scr3.bpp = s.scr.bpp ∧
    scr3.fmt = s.scr.fmt ∧ scr3.curX = s.scr.curX ∧ scr3.curY = s.scr.curY := by
  unfold bracket at h
  obtain ⟨scr1, h1, h⟩ := Option.bind_eq_some_iff.mp h
  obtain ⟨⟨scr2', m'⟩, h2, h⟩ := Option.bind_eq_some_iff.mp h
  obtain ⟨scr3', h3, h⟩ := Option.map_eq_some_iff.mp h
  simp only [Prod.mk.injEq] at h
  obtain ⟨rfl, rfl, rfl⟩ := h
  cases hsh : c.shape with
  | true =>
    simp only [hsh, if_true, Option.some.injEq] at h1 h3
    subst h1; subst h3
    split at h2
    · obtain ⟨⟨sc, mm⟩, hh, e⟩ := Option.map_eq_some_iff.mp h2
      simp only [Prod.mk.injEq] at e
      obtain ⟨rfl, _⟩ := e
      obtain ⟨f1, _, f3, f4, f5, f6, f7, f8⟩ := cursorShapeRect_scr hh
      exact ⟨f1, f3, f4, f5, f6, f7, f8⟩
    · simp only [Option.some.injEq, Prod.mk.injEq] at h2
      obtain ⟨rfl, _⟩ := h2
      exact ⟨rfl, rfl, rfl, rfl, rfl, rfl, rfl⟩
  | false =>
    simp only [hsh, Bool.false_and, Bool.false_eq_true, if_false, Option.some.injEq, Prod.mk.injEq] at h1 h2 h3
    obtain ⟨rfl, _⟩ := h2
    obtain ⟨s2, hh, e⟩ := hide_after_show hs h1
    rw [hh] at h3
    simp only [Option.some.injEq] at h3
    subst h3; subst e
    obtain ⟨_, g1, g2, g3, g4, g5, g6⟩ := show_wf hs h1
    exact ⟨rfl, g1, g2, g3, g4, g5, g6⟩

/-- for a client without cursor-shape support the bracket never fails (no out-of-bounds access,
show and hide), for every cursor, hot-spot, position and screen size -/
theorem bracket_soft_ok (v : Variant) {s : Sess} {c : Client} (hs : s.scr.WF) (hsh : c.shape = false) :
    ∃ r, bracket v s c = some r := by
  unfold bracket
  simp only [hsh, Bool.false_and, Bool.false_eq_true, if_false]
  obtain ⟨s1, h1⟩ := show_ok v hs (updCurX s c) (updCurY s c)
  obtain ⟨s2, h2, _⟩ := hide_after_show hs h1
  rw [h1]; simp only [Option.bind_some]
  rw [h2]; exact ⟨_, rfl⟩

/-- what is encoded for a soft-cursor client is the screen as rfbShowCursor left it -/
theorem bracket_soft_painted {v : Variant} {s : Sess} {c : Client} {scr2 scr3 : Screen}
    {m : Option (List UInt8)} (hsh : c.shape = false) (h : bracket v s c = some (scr2, scr3, m)) :
    showCursor v s.scr (updCurX s c) (updCurY s c) = some scr2 ∧ m = none := by
  unfold bracket at h
  simp only [hsh, Bool.false_and, Bool.false_eq_true, if_false] at h
  obtain ⟨scr1, h1, h⟩ := Option.bind_eq_some_iff.mp h
  simp only [Option.bind_some] at h
  obtain ⟨scr3', _, h⟩ := Option.map_eq_some_iff.mp h
  simp only [Prod.mk.injEq] at h
  obtain ⟨rfl, _, rfl⟩ := h
  exact ⟨h1, rfl⟩

/-- for a cursor-shape client nothing is painted -/
theorem bracket_shape_unpainted {v : Variant} {s : Sess} {c : Client} {scr2 scr3 : Screen}
    {m : Option (List UInt8)} (hsh : c.shape = true) (h : bracket v s c = some (scr2, scr3, m)) :
    scr2.fb = s.scr.fb := by
  unfold bracket at h
  simp only [hsh, if_true, Bool.true_and, Option.bind_some] at h
  obtain ⟨⟨scr2', m'⟩, h2, h⟩ := Option.bind_eq_some_iff.mp h
  simp only [Option.map_some, Option.some.injEq, Prod.mk.injEq] at h
  obtain ⟨rfl, _, _⟩ := h
  split at h2
  · obtain ⟨⟨sc, mm⟩, hh, e⟩ := Option.map_eq_some_iff.mp h2
    simp only [Prod.mk.injEq] at e
    obtain ⟨rfl, _⟩ := e
    exact (cursorShapeRect_scr hh).1
  · simp only [Option.some.injEq, Prod.mk.injEq] at h2
    obtain ⟨rfl, _⟩ := h2
    rfl

/-- geometry and pointer position of the screen the update is encoded from -/
theorem bracket_scr2 {v : Variant} {s : Sess} {c : Client} {scr2 scr3 : Screen} {m : Option (List UInt8)}
    (hs : s.scr.WF) (h : bracket v s c = some (scr2, scr3, m)) :
    scr2.w = s.scr.w ∧ scr2.h = s.scr.h ∧ scr2.curX = s.scr.curX ∧ scr2.curY = s.scr.curY := by
  cases hsh : c.shape with
  | false =>
    obtain ⟨h1, _⟩ := bracket_soft_painted hsh h
    obtain ⟨_, g1, g2, _, _, g5, g6⟩ := show_wf hs h1
    exact ⟨g1, g2, g5, g6⟩
  | true =>
    unfold bracket at h
    simp only [hsh, if_true, Bool.true_and, Option.bind_some] at h
    obtain ⟨⟨scr2', m'⟩, h2, h⟩ := Option.bind_eq_some_iff.mp h
    simp only [Option.map_some, Option.some.injEq, Prod.mk.injEq] at h
    obtain ⟨rfl, _, _⟩ := h
    split at h2
    · obtain ⟨⟨sc, mm⟩, hh, e⟩ := Option.map_eq_some_iff.mp h2
      simp only [Prod.mk.injEq] at e
      obtain ⟨rfl, _⟩ := e
      obtain ⟨_, _, f3, f4, _, _, f7, f8⟩ := cursorShapeRect_scr hh
      exact ⟨f3, f4, f7, f8⟩
    · simp only [Option.some.injEq, Prod.mk.injEq] at h2
      obtain ⟨rfl, _⟩ := h2
      exact ⟨rfl, rfl, rfl, rfl⟩

/-! ### `sendUpdate` -/

/-- the three ways rfbUpdateClient/rfbSendFramebufferUpdate can go: not called; called but
"nothing to send" (only `copyRegion` has been reduced by `modifiedRegion`); an update is sent -/
theorem sendUpdate_cases {v : Variant} {s s' : Sess} {c : Client} {o : Option UpdObs}
    (h : sendUpdate v s c = some (s', o)) :
    (updCalled s c = false ∧ s' = s ∧ o = none) ∨
    (updCalled s c = true ∧ updProceeds s c = false ∧ o = none ∧
      s' = { s with clients := s.clients.map fun d => if d.id == c.id then { c with copy := copyLeft s c } else d }) ∨
    (willSend s c = true ∧ ∃ scr2 scr3 m obs, bracket v s c = some (scr2, scr3, m) ∧ s'.scr = scr3 ∧
      o = some obs ∧ obs.upd = updRegion s c ∧ obs.painted = scr2.fb ∧ obs.before = s.scr.fb ∧
      obs.after = scr3.fb ∧ obs.shape = m ∧ obs.res = !(s.failArmed == some c.id) ∧
      obs.pos = (if c.posUpd && c.wasMoved then some (cursorPosRect scr2) else none) ∧
      obs.copyRgn = updCopyRegion s c ∧
      s'.clients = (if s.failArmed == some c.id then s.clients.filter (fun d => d.id != c.id)
                    else s.clients.map fun d => if d.id == c.id then clientAfter s c scr2.fb else d)) := by
  unfold sendUpdate at h
  cases hc : updCalled s c with
  | false =>
    simp only [hc, Bool.not_false, if_true, Option.some.injEq, Prod.mk.injEq] at h
    exact Or.inl ⟨rfl, h.1.symm, h.2.symm⟩
  | true =>
    simp only [hc, Bool.not_true, Bool.false_eq_true, if_false] at h
    cases hp : updProceeds s c with
    | false =>
      simp only [hp, Bool.not_false, if_true, Option.some.injEq, Prod.mk.injEq] at h
      exact Or.inr (Or.inl ⟨rfl, rfl, h.2.symm, h.1.symm⟩)
    | true =>
      simp only [hp, Bool.not_true, Bool.false_eq_true, if_false] at h
      obtain ⟨⟨scr2, scr3, m⟩, hb, h⟩ := Option.map_eq_some_iff.mp h
      refine Or.inr (Or.inr ⟨by simp [willSend, hc, hp], scr2, scr3, m, ?_⟩)
      cases hf : (s.failArmed == some c.id) with
      | true =>
        simp only [hf, if_true, Prod.mk.injEq] at h
        obtain ⟨rfl, rfl⟩ := h
        exact ⟨_, hb, rfl, rfl, rfl, rfl, rfl, rfl, rfl, by simp, rfl, rfl, by simp [removeClient]⟩
      | false =>
        simp only [hf, Bool.false_eq_true, if_false, Prod.mk.injEq] at h
        obtain ⟨rfl, rfl⟩ := h
        exact ⟨_, hb, rfl, rfl, rfl, rfl, rfl, rfl, rfl, by simp, rfl, rfl, by simp⟩

/-- **the application's framebuffer after an update — sent, not needed, or failed — is
bit-identical to what it was before** -/
theorem sendUpdate_fb {v : Variant} {s s' : Sess} {c : Client} {o : Option UpdObs} (hs : s.scr.WF)
    (h : sendUpdate v s c = some (s', o)) : s'.scr.fb = s.scr.fb := by
  rcases sendUpdate_cases h with ⟨_, rfl, _⟩ | ⟨_, _, _, rfl⟩ | ⟨_, scr2, scr3, m, obs, hb, hscr, _⟩
  · rfl
  · rfl
  · rw [hscr]; exact (bracket_restores hs hb).1

/-- an update for a soft-cursor client never makes an out-of-bounds access -/
theorem sendUpdate_soft_ok (v : Variant) {s : Sess} {c : Client} (hs : s.scr.WF) (hsh : c.shape = false) :
    ∃ r, sendUpdate v s c = some r := by
  unfold sendUpdate
  split
  · exact ⟨_, rfl⟩
  · split
    · exact ⟨_, rfl⟩
    · obtain ⟨r, hr⟩ := bracket_soft_ok v (s := s) (c := c) hs hsh
      rw [hr]; exact ⟨_, rfl⟩

theorem Rgn.mem_offset {W H x y : Nat} (r : Rgn) (dx dy : Int) (hx : x < W) (hy : y < H) :
    (Rgn.offset W H r dx dy).mem W x y =
      (decide (0 ≤ (x : Int) - dx) && decide (0 ≤ (y : Int) - dy) &&
        r.mem W ((x : Int) - dx).toNat ((y : Int) - dy).toNat) := Rgn.mem_ofFn _ hx hy

/-- **the region sent covers the old and the new cursor box**: when the pointer has moved since
this soft-cursor client's last update, every screen pixel under the cursor bitmap at the client's
old position and at the pointer's current position is part of the update -/
theorem updRegion_covers_boxes {s : Sess} {c : Client} {cur : Cursor} (hcur : s.scr.cursor = some cur)
    (hm : softMoved s c = true) {x y : Nat} (hx : x < s.scr.w) (hy : y < s.scr.h)
    (hin : inCursorBox cur c.curX c.curY x y ∨ inCursorBox cur s.scr.curX s.scr.curY x y) :
    (updRegion s c).mem s.scr.w x y = true := by
  unfold updRegion
  simp only [hm, if_true]
  rw [Rgn.mem_or _ _ hx hy, Rgn.mem_or _ _ hx hy]
  rcases hin with h | h
  · rw [cursorBox_covers hcur hx hy h]; simp
  · rw [cursorBox_covers hcur hx hy h]; simp

/-- everything modified and requested is part of the update -/
theorem updRegion_covers_modified {s : Sess} {c : Client} {x y : Nat} (hx : x < s.scr.w) (hy : y < s.scr.h)
    (h1 : c.modified.mem s.scr.w x y = true) (h2 : c.requested.mem s.scr.w x y = true) :
    (updRegion s c).mem s.scr.w x y = true := by
  have hsub : (Rgn.sub s.scr.w s.scr.h (upd0 s c) (updCopyRegion s c)).mem s.scr.w x y = true := by
    unfold upd0 updCopyRegion copyLeft
    rw [Rgn.mem_sub _ _ hx hy, Rgn.mem_and _ _ hx hy, Rgn.mem_or _ _ hx hy, Rgn.mem_and _ _ hx hy,
      Rgn.mem_and _ _ hx hy, Rgn.mem_sub _ _ hx hy, h1, h2]
    simp
  unfold updRegion
  simp only []
  split
  · rw [Rgn.mem_or _ _ hx hy, Rgn.mem_or _ _ hx hy, hsub]; rfl
  · exact hsub

/-! ### pointer events -/

/-- an accepted PointerEvent that changes the position: the screen's pointer is the new position,
every *other* client with PointerPos support is flagged, the sender is not -/
theorem ptrEvent_moves {s : Sess} {id x y b : Nat}
    (hacc : s.pointerClient = none ∨ s.pointerClient = some id)
    (hmv : x ≠ s.scr.curX ∨ y ≠ s.scr.curY) :
    (ptrEvent s id x y b).scr.curX = x ∧ (ptrEvent s id x y b).scr.curY = y ∧
    (ptrEvent s id x y b).clients = s.clients.map (fun c =>
      if c.id == id then (if c.posUpd then { c with wasMoved := false } else c)
      else (if c.posUpd then { c with wasMoved := true } else c)) := by
  have hcond : (x != s.scr.curX || y != s.scr.curY) = true := by
    rcases hmv with h | h <;> simp [h]
  have hgo : ptrEvent s id x y b = ptrEvent.go s id x y b := by
    unfold ptrEvent
    rcases hacc with h | h <;> simp [h]
  rw [hgo]
  unfold ptrEvent.go
  simp [hcond]

/-- a PointerEvent of a client other than the one holding a button down is ignored -/
theorem ptrEvent_ignored {s : Sess} {id p x y b : Nat} (h : s.pointerClient = some p) (hne : p ≠ id) :
    ptrEvent s id x y b = s := by
  unfold ptrEvent
  simp [h, hne]

/-! ### SetEncodings: the cursor flags depend only on the SET of encodings listed -/

/-- is a cursor-shape encoding listed? -/
def hasShape (l : List Enc) : Bool := l.contains .xCursor || l.contains .richCursor

/-- reading a list from arbitrary flags: every flag only depends on which encodings occur -/
theorem foldl_encStep (l : List Enc) (f : EncFlags) :
    l.foldl encStep f =
      { shape := f.shape || hasShape l, useRich := f.useRich || l.contains .richCursor,
        posUpd := f.posUpd || l.contains .pointerPos,
        wasMoved := f.wasMoved || (!f.posUpd && l.contains .pointerPos),
        wasChanged := f.wasChanged || hasShape l, useCopyRect := f.useCopyRect || l.contains .copyRect,
        marked := f.marked || (!f.shape && hasShape l) } := by
  induction l generalizing f with
  | nil => simp [hasShape]
  | cons e l ih =>
    rw [List.foldl_cons, ih]
    obtain ⟨a, b, c, d, e', g, m⟩ := f
    cases e <;> cases a <;> cases c <;> simp [encStep, hasShape, Bool.or_comm]

/-- the flags after a SetEncodings message, in closed form: cursor-shape updates iff XCursor or
RichCursor is listed, rich iff RichCursor is, position updates iff PointerPos is listed TOGETHER
with a cursor-shape encoding — wherever in the list each of them stands -/
theorem encFlags_closed (w0 : Bool) (l : List Enc) :
    encFlags w0 l =
      { shape := hasShape l, useRich := l.contains .richCursor,
        posUpd := l.contains .pointerPos && hasShape l,
        wasMoved := w0 || l.contains .pointerPos, wasChanged := hasShape l,
        useCopyRect := l.contains .copyRect, marked := hasShape l } := by
  unfold encFlags
  rw [foldl_encStep]
  simp

theorem contains_perm {l l' : List Enc} (h : l.Perm l') (e : Enc) : l.contains e = l'.contains e := by
  rw [Bool.eq_iff_iff]
  simp only [List.contains_iff_mem]
  exact h.mem_iff

theorem encFlags_perm {l l' : List Enc} (h : l.Perm l') (w0 : Bool) : encFlags w0 l = encFlags w0 l' := by
  rw [encFlags_closed, encFlags_closed]
  simp only [hasShape, contains_perm h]

theorem clientSetEncodings_perm {l l' : List Enc} (h : l.Perm l') (v : Variant) (scr : Screen) (c : Client) :
    clientSetEncodings v scr c l = clientSetEncodings v scr c l' := by
  unfold clientSetEncodings
  rw [encFlags_perm h]

theorem setEncodings_perm {l l' : List Enc} (h : l.Perm l') (v : Variant) (s : Sess) (id : Nat) :
    setEncodings v s id l = setEncodings v s id l' := by
  unfold setEncodings
  simp only [clientSetEncodings_perm h]

/-! ### CopyRect and the painted soft cursor -/

/-- what goes out as CopyRect is scheduled as a copy and not modified -/
theorem updCopyRegion_subset {s : Sess} {c : Client} {x y : Nat} (hx : x < s.scr.w) (hy : y < s.scr.h)
    (h : (updCopyRegion s c).mem s.scr.w x y = true) :
    c.copy.mem s.scr.w x y = true ∧ c.modified.mem s.scr.w x y = false := by
  unfold updCopyRegion copyLeft at h
  rw [Rgn.mem_and _ _ hx hy, Rgn.mem_and _ _ hx hy, Rgn.mem_sub _ _ hx hy] at h
  simp only [Bool.and_eq_true, Bool.not_eq_true'] at h
  exact ⟨h.1.1.1, h.1.1.2⟩

/-- rfbScheduleCopyRegion for a soft-cursor client that accepts CopyRect: every pixel of the
scheduled copy whose DESTINATION or whose SOURCE lies under the cursor as painted in the client's
picture (the unclipped cursor bitmap at `cl->cursorX/Y`) is marked modified — it will be sent as
pixels, not copied -/
theorem scheduleCopy_marks_cursor {scr : Screen} {c : Client} {dst : Rgn} {dx dy : Int} {cur : Cursor}
    (hcr : c.useCopyRect = true) (hsh : c.shape = false) (hcur : scr.cursor = some cur)
    {x y : Nat} (hx : x < scr.w) (hy : y < scr.h)
    (hcopy : (clientScheduleCopy scr c dst dx dy).copy.mem scr.w x y = true)
    (hbox : rawBox cur c.curX c.curY x y = true ∨
            rawBox cur c.curX c.curY ((x : Int) - dx) ((y : Int) - dy) = true) :
    (clientScheduleCopy scr c dst dx dy).modified.mem scr.w x y = true := by
  unfold clientScheduleCopy at hcopy ⊢
  simp only [hcr, hsh, hcur, Bool.not_true, Bool.false_eq_true, if_false] at hcopy ⊢
  generalize (if c.copy.nonempty = true then
      if (c.copyDX != dx || c.copyDY != dy) = true then (Rgn.or scr.w scr.h c.modified c.copy, Rgn.empty scr.w scr.h)
      else (Rgn.or scr.w scr.h c.modified (Rgn.and scr.w scr.h (Rgn.offset scr.w scr.h dst (-dx) (-dy)) c.copy), c.copy)
    else (c.modified, c.copy)) = pr at hcopy ⊢
  obtain ⟨m1, cp1⟩ := pr
  simp only [] at hcopy ⊢
  rw [Rgn.mem_or _ _ hx hy, Rgn.mem_or _ _ hx hy, Rgn.mem_ofFn _ hx hy, Rgn.mem_ofFn _ hx hy, hcopy]
  rcases hbox with h | h <;> simp [h]

end VncModel.Cursor
