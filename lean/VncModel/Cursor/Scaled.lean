import VncModel.Cursor.ShowHide
/-
Server-side scaled copies of the framebuffer and the soft cursor (C15 × C17).

rfbShowCursor and rfbHideCursor both end with `rfbScaledScreenUpdate(s, x1, y1, x1+x2, y1+y2)`:
every scaled copy is re-rendered from the framebuffer over the cursor box.  The scaling filter
itself is property C17; here it is a parameter `Renderer` of which only two structural facts are
used — re-rendering a box writes destination pixels that depend on the source framebuffer and the
box only (so a second re-rendering of the same box overwrites the first), and a copy that is in
sync with the framebuffer on a box is not changed by re-rendering it.
-/
namespace VncModel.Cursor

/-- `rfbScaledScreenUpdateRect(screen, ptr, box)` for one scaled copy of type `α` -/
structure Renderer (α : Type) where
  render : Array Px → Rect → α → α
  /-- the destination pixels of a box are recomputed from the source alone -/
  overwrite : ∀ (fb fb' : Array Px) (b : Rect) (c : α), render fb b (render fb' b c) = render fb b c

/-- rfbScaledScreenUpdate: every scaled copy of the chain -/
def renderAll {α : Type} (r : Renderer α) (fb : Array Px) (b : Rect) (copies : List α) : List α :=
  copies.map (r.render fb b)

/-- the change seeded as C15-7: hide re-renders only the copy with index `own` (the updating
client's), the others keep what show rendered into them -/
def renderOwn {α : Type} (r : Renderer α) (fb : Array Px) (b : Rect) (own : Nat) (copies : List α) : List α :=
  copies.mapIdx fun i c => if i = own then r.render fb b c else c

/-- show then hide on the scaled copies: all copies that were in sync with the framebuffer on the
cursor box are exactly what they were -/
theorem renderAll_restores {α : Type} (r : Renderer α) (fb fbPainted : Array Px) (b : Rect) (copies : List α)
    (hsync : ∀ c ∈ copies, r.render fb b c = c) :
    renderAll r fb b (renderAll r fbPainted b copies) = copies := by
  unfold renderAll
  rw [List.map_map]
  conv => rhs; rw [← List.map_id copies]
  apply List.map_congr_left
  intro c hc
  simp only [Function.comp, id]
  rw [r.overwrite, hsync c hc]

end VncModel.Cursor
