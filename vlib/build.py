"""Build of the code under test (from /repo's *current working tree*) and of the C harnesses.

Nothing here uses /repo/_build's libraries: every library source is compiled directly, with the
verification guard and the sanitizers, into two static archives (server, client).  Objects are
cached under /verif/.cache/obj keyed by a hash of (flags, preprocessed-independent inputs: the
source file text + the text of every header under /repo/include and /repo/src).  A changed source
or header therefore always leads to a rebuild of exactly what depends on it (conservatively: any
header change rebuilds everything).
"""
import hashlib, os, subprocess, sys, fcntl, glob, shutil, time
from concurrent.futures import ThreadPoolExecutor

VERIF = os.path.dirname(os.path.dirname(os.path.abspath(__file__)))
REPO = os.environ.get("VERIF_REPO", "/repo")
CACHE = os.path.join(VERIF, ".cache")
GUARD = "LIBVNC_LIBVNCSERVER_VERIF"

SERVER_SRCS = """src/libvncserver/main.c src/libvncserver/rfbserver.c src/libvncserver/rfbregion.c
src/libvncserver/auth.c src/libvncserver/sockets.c src/libvncserver/stats.c src/libvncserver/corre.c
src/libvncserver/hextile.c src/libvncserver/rre.c src/libvncserver/translate.c src/libvncserver/cutpaste.c
src/libvncserver/httpd.c src/libvncserver/cursor.c src/libvncserver/font.c src/libvncserver/draw.c
src/libvncserver/selbox.c src/common/vncauth.c src/common/sockets.c src/libvncserver/cargs.c
src/libvncserver/ultra.c src/libvncserver/scale.c src/common/crypto_libgcrypt.c
src/libvncserver/rfbssl_gnutls.c src/libvncserver/zlib.c src/libvncserver/zrle.c
src/libvncserver/zrleoutstream.c src/libvncserver/zrlepalettehelper.c src/common/minilzo.c
src/libvncserver/tight.c src/common/turbojpeg.c src/libvncserver/tightvnc-filetransfer/rfbtightserver.c
src/libvncserver/tightvnc-filetransfer/handlefiletransferrequest.c
src/libvncserver/tightvnc-filetransfer/filetransfermsg.c
src/libvncserver/tightvnc-filetransfer/filelistinfo.c src/libvncserver/websockets.c
src/libvncserver/ws_decode.c src/common/base64.c""".split()

CLIENT_SRCS = """src/libvncclient/cursor.c src/libvncclient/listen.c src/libvncclient/rfbclient.c
src/libvncclient/sockets.c src/libvncclient/vncviewer.c src/common/sockets.c
src/common/crypto_libgcrypt.c src/common/turbojpeg.c src/libvncclient/tls_gnutls.c
src/libvncclient/sasl.c src/common/minilzo.c""".split()

DEFS = ["-DLIBVNCSERVER_HAVE_LIBJPEG", "-DLIBVNCSERVER_HAVE_LIBPNG", "-DLIBVNCSERVER_HAVE_LIBZ",
        "-DLIBVNCSERVER_WITH_WEBSOCKETS", "-D" + GUARD]
SAN = ["-fsanitize=address,undefined", "-fno-sanitize-recover=all", "-fno-omit-frame-pointer"]
LIBS = ["-lsasl2", "-lz", "-ljpeg", "-lpng", "-lgcrypt", "-lgnutls", "-lssl", "-lcrypto",
        "-lpthread", "-lm"]


def config_dir():
    """rfbconfig.h: prefer the one cmake generated for this tree, else the committed copy."""
    p = os.path.join(REPO, "_build", "include")
    if os.path.exists(os.path.join(p, "rfb", "rfbconfig.h")):
        return p
    return os.path.join(VERIF, "harness", "config")


def incs():
    return ["-I" + os.path.join(REPO, "include"), "-I" + config_dir(),
            "-I" + os.path.join(REPO, "src", "libvncserver"),
            "-I" + os.path.join(REPO, "src", "libvncclient"),
            "-I" + os.path.join(REPO, "src", "common"),
            "-I" + os.path.join(VERIF, "harness", "common")]


def _sha(*parts):
    h = hashlib.sha256()
    for p in parts:
        h.update(p if isinstance(p, bytes) else p.encode())
        h.update(b"\0")
    return h.hexdigest()[:24]


_hdr_cache = {}


def headers_hash():
    """hash of every header / template (.h, .c templates are #included too) in the tree."""
    if "h" in _hdr_cache:
        return _hdr_cache["h"]
    h = hashlib.sha256()
    files = []
    for root in ("include", "src"):
        for dp, dn, fn in os.walk(os.path.join(REPO, root)):
            for f in fn:
                if f.endswith((".h", ".c", ".inc")):
                    files.append(os.path.join(dp, f))
    files.append(os.path.join(config_dir(), "rfb", "rfbconfig.h"))
    for f in sorted(files):
        h.update(f.encode())
        with open(f, "rb") as fh:
            h.update(fh.read())
    _hdr_cache["h"] = h.hexdigest()[:24]
    return _hdr_cache["h"]


class Lock:
    def __init__(self, name):
        os.makedirs(CACHE, exist_ok=True)
        self.path = os.path.join(CACHE, name + ".lock")

    def __enter__(self):
        self.f = open(self.path, "w")
        fcntl.flock(self.f, fcntl.LOCK_EX)
        return self

    def __exit__(self, *a):
        fcntl.flock(self.f, fcntl.LOCK_UN)
        self.f.close()


def run(cmd, **kw):
    r = subprocess.run(cmd, stdout=subprocess.PIPE, stderr=subprocess.STDOUT, text=True, **kw)
    return r.returncode, r.stdout


def _compile_one(src, flags, objdir):
    # keyed by the PREPROCESSED text of the translation unit (-P: no line markers) and the flags,
    # with the tree's location normalised (-ffile-prefix-map maps __FILE__ and debug paths to /repo):
    # an object is reused exactly when the compiler would see the same input, wherever the tree
    # lives, so a one-file change in a scratch worktree recompiles one file
    pmap = ["-ffile-prefix-map=%s=/repo" % REPO.rstrip("/")]
    r = subprocess.run(["gcc", "-std=gnu90", "-E", "-P", os.path.join(REPO, src)] + flags + pmap,
                       stdout=subprocess.PIPE, stderr=subprocess.PIPE)
    if r.returncode != 0:
        return None, "preprocess failed: %s\n%s" % (src, r.stderr.decode(errors="replace")[-3000:])
    # include paths are subsumed by the preprocessed text
    key = _sha(src, " ".join(f for f in flags if not f.startswith("-I")), r.stdout)
    obj = os.path.join(objdir, key + ".o")
    if os.path.exists(obj):
        try:
            os.utime(obj, None)
        except OSError:
            pass
        return obj, None
    tmp = obj + ".tmp%d" % os.getpid()
    flags = flags + pmap
    rc, out = run(["gcc", "-std=gnu90", "-c", os.path.join(REPO, src), "-o", tmp] + flags)
    if rc != 0:
        return None, "compile failed: %s\n%s" % (src, out)
    os.replace(tmp, obj)
    return obj, None


def build_libs(san=True, extra=()):
    """-> (server.a, client.a).  Raises RuntimeError with the compiler output on failure."""
    flags = ["-O1", "-g", "-w", "-fPIC"] + DEFS + incs() + (SAN if san else []) + list(extra)
    tag = _sha(" ".join(flags), headers_hash())
    outdir = os.path.join(CACHE, "lib", tag)
    sa, ca = os.path.join(outdir, "libvs.a"), os.path.join(outdir, "libvc.a")
    with Lock("cbuild"):
        if os.path.exists(sa) and os.path.exists(ca):
            os.utime(outdir, None)
            return sa, ca
        objdir = os.path.join(CACHE, "obj")
        os.makedirs(objdir, exist_ok=True)
        os.makedirs(outdir, exist_ok=True)
        srcs = list(dict.fromkeys(SERVER_SRCS + CLIENT_SRCS))
        with ThreadPoolExecutor(max_workers=16) as ex:
            res = list(ex.map(lambda s: _compile_one(s, flags, objdir), srcs))
        errs = [e for (_, e) in res if e]
        if errs:
            raise RuntimeError("\n".join(errs))
        objs = dict(zip(srcs, [o for (o, _) in res]))
        for arch, lst in ((sa, SERVER_SRCS), (ca, CLIENT_SRCS)):
            tmp = arch + ".tmp"
            if os.path.exists(tmp):
                os.remove(tmp)
            rc, out = run(["ar", "rcs", tmp] + [objs[s] for s in lst])
            if rc != 0:
                raise RuntimeError(out)
            os.replace(tmp, arch)
        _gc()
    return sa, ca


def _gc(keep=16):
    """keep the cache small: only the most recent library sets / objects of the last sets."""
    libroot = os.path.join(CACHE, "lib")
    ds = sorted(glob.glob(os.path.join(libroot, "*")), key=os.path.getmtime, reverse=True)
    for d in ds[keep:]:
        shutil.rmtree(d, ignore_errors=True)
    objs = glob.glob(os.path.join(CACHE, "obj", "*.o"))
    if len(objs) > 600:
        objs.sort(key=os.path.getmtime)
        for o in objs[:len(objs) - 400]:
            try:
                os.remove(o)
            except OSError:
                pass
    bins = sorted(glob.glob(os.path.join(CACHE, "bin", "*")), key=os.path.getmtime, reverse=True)
    for b in bins[120:]:
        try:
            os.remove(b)
        except OSError:
            pass


def build_harness(name, san=True, extra=(), libs=("server",), cxx=False):
    """compile harness/<name>.c against the freshly built archives -> path of the executable.
    The harness may #include library .c files directly (to reach static functions); in that case
    pass libs without the clashing archive member or rely on archive semantics."""
    sa, ca = build_libs(san=san, extra=extra)
    src = os.path.join(VERIF, "harness", name + (".cc" if cxx else ".c"))
    with open(src, "rb") as f:
        stext = f.read()
    common = b""
    for f in sorted(glob.glob(os.path.join(VERIF, "harness", "common", "*"))):
        with open(f, "rb") as fh:
            common += fh.read()
    flags = ["-O1", "-g", "-w"] + DEFS + incs() + (SAN if san else []) + list(extra)
    key = _sha(name, stext, common, " ".join(flags), headers_hash(), ",".join(libs))
    bindir = os.path.join(CACHE, "bin")
    os.makedirs(bindir, exist_ok=True)
    exe = os.path.join(bindir, name + "-" + key)
    with Lock("hbuild-" + name):
        if os.path.exists(exe):
            os.utime(exe, None)      # keep binaries in use away from _gc
            return exe
        archives = []
        if "server" in libs:
            archives.append(sa)
        if "client" in libs:
            archives.append(ca)
        tmp = exe + ".tmp%d" % os.getpid()
        cmd = (["g++" if cxx else "gcc"] + ([] if cxx else ["-std=gnu99"]) + [src, "-o", tmp]
               + flags + archives + LIBS)
        rc, out = run(cmd)
        if rc != 0:
            raise RuntimeError("harness build failed: %s\n%s" % (name, out))
        os.replace(tmp, exe)
    return exe


if __name__ == "__main__":
    t = time.time()
    print(build_libs())
    print("libs %.1fs" % (time.time() - t))
