"""Orchestration shared by all property checks.

  ./check Cxx --tier quick|thorough [--replay file]

Steps (DESIGN.md section 2): regenerate Gen/ from /repo, re-check the proofs (lake build + axiom
audit + forbidden-token scan), build the code under test from the working tree with sanitizers,
run the property module's correspondence / oracle run, decide, write evidence.
"""
import json, os, re, subprocess, sys, time, random, hashlib, glob
from . import build

VERIF = build.VERIF
REPO = build.REPO
LEAN = os.path.join(VERIF, "lean")
ALLOWED_AXIOMS = {"propext", "Classical.choice", "Quot.sound"}
FORBIDDEN = re.compile(r"\bsorry\b|\badmit\b|^\s*axiom\s|native_decide|bv_decide|implemented_by|"
                       r"\bunsafe\s|maxHeartbeats\s+0\b", re.M)
TRUSTED_BASE = [
    "Lean 4.33.0 kernel (axioms allowed: propext, Classical.choice, Quot.sound; audited per theorem by #print axioms on every run)",
    "T0 translator tools/gen_consts.py (constants/tables regenerated from /repo on every run) and the gcc front end it runs",
    "correspondence run: C harness + generators + canonicaliser + compiled Lean driver (Lean compiler and C toolchain trusted to implement the kernel-checked definitions); this part is testing, its reach is the measured distribution",
]


def sh(cmd, cwd=None, timeout=None, env=None, input=None):
    try:
        r = subprocess.run(cmd, cwd=cwd, stdout=subprocess.PIPE, stderr=subprocess.STDOUT,
                           text=True, timeout=timeout, env=env, input=input)
        return r.returncode, r.stdout
    except subprocess.TimeoutExpired as e:
        return 124, (e.stdout or "") if isinstance(e.stdout, str) else "timeout"


def strip_comments(text):
    """remove Lean comments (nested block comments and line comments) for the forbidden scan"""
    out, i, depth, n = [], 0, 0, len(text)
    while i < n:
        if text.startswith("/-", i):
            depth += 1
            i += 2
        elif depth and text.startswith("-/", i):
            depth -= 1
            i += 2
        elif depth:
            if text[i] == "\n":
                out.append("\n")
            i += 1
        elif text.startswith("--", i):
            while i < n and text[i] != "\n":
                i += 1
        else:
            out.append(text[i])
            i += 1
    return "".join(out)


def lean_closure(mods):
    """transitive imports of the given modules inside /verif/lean -> list of files"""
    seen, todo = {}, list(mods)
    while todo:
        m = todo.pop()
        if m in seen:
            continue
        p = os.path.join(LEAN, m.replace(".", "/") + ".lean")
        if not os.path.exists(p):
            continue
        seen[m] = p
        with open(p) as f:
            for line in f:
                mm = re.match(r"\s*(?:public\s+)?import\s+(\S+)", line)
                if mm:
                    todo.append(mm.group(1))
    return seen


def theorems_of(path):
    """[(fully qualified name)] of every `theorem` in a Props file (namespace aware)"""
    ns, out = [], []
    text = strip_comments(open(path).read())
    for line in text.splitlines():
        m = re.match(r"\s*namespace\s+(\S+)", line)
        if m:
            ns.append(m.group(1))
            continue
        m = re.match(r"\s*end\s+(\S+)", line)
        if m and ns and ns[-1] == m.group(1):
            ns.pop()
            continue
        m = re.match(r"\s*(?:@\[[^\]]*\]\s*)?(?:private\s+|protected\s+)?theorem\s+(\S+)", line)
        if m:
            out.append(".".join(ns + [m.group(1)]))
    return out


class Ctx:
    def __init__(self, pid, tier, seed, replay=None):
        self.pid, self.tier, self.seed, self.replay = pid, tier, seed, replay
        self.rng = random.Random(seed * 1000003 + int(pid[1:]))
        self.t0 = time.time()
        self.log = []
        self.proof = {"obligations": 0, "discharged": 0, "axioms": {}, "broken": []}
        self.driver_ok = False
        self.known = [k for k in load_known() if k["property"] == pid]

    # ---------------------------------------------------------------- T0
    def regen(self, names=()):
        """T0: regenerate Gen/<Name>.lean for this property's probes (tools/consts/<name>.{c,py})"""
        names = [self.pid.lower()] + [n.lower() for n in names]
        rc, out = sh([sys.executable, os.path.join(VERIF, "tools", "gen_consts.py")] + names, timeout=300)
        if rc != 0:
            self.proof["broken"].append({"what": "T0 regeneration failed", "detail": out[-2000:]})
            return False
        return True

    # ---------------------------------------------------------------- proofs
    def lean_build(self, targets):
        with build.Lock("lean"):
            rc, out = sh(["lake", "build"] + targets, cwd=LEAN, timeout=3000)
        if rc != 0:
            errs = [l for l in out.splitlines() if "error" in l][:20]
            self.proof["broken"].append({"what": "lake build failed: " + " ".join(targets),
                                         "detail": "\n".join(errs) or out[-2000:]})
        return rc == 0

    def prove(self, props_mod, extra_targets=()):
        """rebuild Props module, audit axioms of each theorem in it, scan for forbidden tokens"""
        pfile = os.path.join(LEAN, props_mod.replace(".", "/") + ".lean")
        thms = theorems_of(pfile)
        self.proof["obligations"] = len(thms)
        self.proof["theorems"] = thms
        ok = self.lean_build([props_mod])
        files = lean_closure([props_mod])
        for m, p in files.items():
            hit = FORBIDDEN.search(strip_comments(open(p).read()))
            if hit:
                self.proof["broken"].append({"what": "forbidden token %r in %s" % (hit.group(0), m)})
                ok = False
        if ok:
            adir = os.path.join(build.CACHE, "audit")
            os.makedirs(adir, exist_ok=True)
            af = os.path.join(adir, self.pid + ".lean")
            with open(af, "w") as f:
                f.write("import %s\n" % props_mod)
                for t in thms:
                    f.write("#print axioms %s\n" % t)
            rc, out = sh(["lake", "env", "lean", af], cwd=LEAN, timeout=1200)
            out = out.replace("\n  ", " ")
            for t in thms:
                m = re.search(r"'%s' depends on axioms: \[([^\]]*)\]" % re.escape(t), out)
                if m:
                    ax = [a.strip() for a in m.group(1).replace("\n", " ").split(",") if a.strip()]
                elif re.search(r"'%s' does not depend on any axioms" % re.escape(t), out):
                    ax = []
                else:
                    self.proof["broken"].append({"what": "axiom audit: no report for " + t,
                                                 "detail": out[-1500:]})
                    continue
                self.proof["axioms"][t] = ax
                if set(ax) <= ALLOWED_AXIOMS:
                    self.proof["discharged"] += 1
                else:
                    self.proof["broken"].append({"what": "theorem %s uses axioms %s" % (t, ax)})
        if extra_targets:
            self.driver_ok = self.lean_build(list(extra_targets))
        if self.tier == "thorough" and ok:
            rc, out = sh(["lake", "env", "leanchecker", props_mod], cwd=LEAN, timeout=3000)
            self.proof["leanchecker"] = "ok" if rc == 0 else out[-500:]
            if rc != 0:
                self.proof["broken"].append({"what": "leanchecker rejected " + props_mod,
                                             "detail": out[-1500:]})
        return ok and not self.proof["broken"]

    def driver(self, name):
        return os.path.join(LEAN, ".lake", "build", "bin", name)

    # ---------------------------------------------------------------- code under test
    def harness(self, name, **kw):
        return build.build_harness(name, **kw)

    def run_lines(self, exe, script, timeout=None, env=None, args=()):
        """run a line-protocol program on a script -> (rc, stdout lines, stderr tail).
        A run that exceeds its time limit, and does so again when repeated alone with three times the
        limit, is a result (rc 124, reported as a hang by the callers); after the first confirmed one the limit for the remaining runs of this check drops to 30 s, so a change
        that makes the code spin costs minutes, not hours."""
        if timeout is None:
            timeout = 180 if getattr(self, "tier", "quick") == "quick" else 600
        if getattr(self, "_timeouts", 0) >= 1:
            timeout = min(timeout, 30)
        e = dict(os.environ)
        e.setdefault("ASAN_OPTIONS", "detect_leaks=1:abort_on_error=0:allocator_may_return_null=1")
        e.setdefault("UBSAN_OPTIONS", "print_stacktrace=1")
        if env:
            e.update(env)
        def once(limit):
            r = subprocess.run([exe] + list(args), input=script, stdout=subprocess.PIPE,
                               stderr=subprocess.PIPE, text=True, timeout=limit, env=e,
                               errors="replace")
            return r.returncode, r.stdout.splitlines(), r.stderr[-3000:]
        try:
            return once(timeout)
        except subprocess.TimeoutExpired:
            pass
        # A loaded machine can make a healthy run look like a hang (seen at load average 126: a 1 s
        # script took > 300 s next to 13 others).  A hang is only reported after the same run, alone
        # (one confirmation at a time across all checks of this tree), exceeded three times the limit.
        try:
            with build.Lock("confirm-hang"):
                if getattr(self, "_timeouts", 0) >= 1:
                    # a hang of this check has already been confirmed: the run is a violation anyway,
                    # further expiries are reported without spending another confirmation on each
                    self._timeouts += 1
                    return 124, [], "TIMEOUT after %ss (a hang was already confirmed in this run)" % timeout
                return once(3 * timeout)
        except subprocess.TimeoutExpired as ex:
            so = ex.stdout.decode(errors="replace") if isinstance(ex.stdout, bytes) else (ex.stdout or "")
            self._timeouts = getattr(self, "_timeouts", 0) + 1
            return 124, so.splitlines(), "TIMEOUT after %ss (confirmed alone with %ss)" % (timeout, 3 * timeout)


def pmap(fn, items, workers=14):
    """parallel map preserving order (harness/driver runs are subprocess-bound)"""
    from concurrent.futures import ThreadPoolExecutor
    with ThreadPoolExecutor(max_workers=workers) as ex:
        return list(ex.map(fn, items))


def load_known():
    p = os.path.join(VERIF, "known_findings.json")
    if not os.path.exists(p):
        return []
    return json.load(open(p))["findings"]


def first_diff(a, b):
    for i, (x, y) in enumerate(zip(a, b)):
        if x != y:
            return i
    if len(a) != len(b):
        return min(len(a), len(b))
    return None


def _shrink(o, max_str=1200, max_list=40, depth=0):
    """keep evidence / replay files readable and small: long strings and long lists are cut"""
    if isinstance(o, str):
        return o if len(o) <= max_str else o[:max_str] + "...(%d chars)" % len(o)
    if isinstance(o, (list, tuple)):
        l = [_shrink(x, max_str, max_list, depth + 1) for x in list(o)[:max_list]]
        if len(o) > max_list:
            l.append("...(%d items)" % len(o))
        return l
    if isinstance(o, dict):
        items = list(o.items())
        d = {str(k): _shrink(v, max_str, max_list, depth + 1) for k, v in items[:400]}
        if len(items) > 400:
            d["..."] = "%d keys" % len(items)
        return d
    return o


def finish(ctx, res):
    """decide, write evidence + replay, print VIOLATION / KNOWN-FINDING lines, return exit code.

    res: dict(evaluations, distinct_nontrivial, rule, samples, distribution, failures=[...],
              partial=[...], notes)
    failure: dict(kind='oracle'|'crash'|'exact'|'semantic', what, script, impl, model, detail,
                  finding=<id or None>)
    """
    os.makedirs(os.path.join(VERIF, "evidence"), exist_ok=True)
    os.makedirs(os.path.join(VERIF, "replays"), exist_ok=True)
    known_ids = {k["id"]: k for k in ctx.known if k.get("status") == "known"}
    fails = res.get("failures", [])
    real, knownhit = [], {}
    for f in fails:
        fid = f.get("finding")
        if fid and fid in known_ids:
            knownhit.setdefault(fid, f)
        else:
            real.append(f)
    for fid, f in knownhit.items():
        print("KNOWN-FINDING: property=%s %s [%s]" % (ctx.pid, known_ids[fid]["what"], fid))
    counter = [f for f in real if f["kind"] in ("oracle", "crash")]
    drift = [f for f in real if f["kind"] in ("exact", "semantic")]
    broken = ctx.proof["broken"]
    rc, n = 0, 0

    def emit(kind, f, suffix):
        nonlocal n
        path = os.path.join(VERIF, "replays", "%s-%d-%d.json" % (ctx.pid, ctx.seed, n))
        n += 1
        rec = {"property": ctx.pid, "seed": ctx.seed, "tier": ctx.tier}
        rec.update(f)
        rec["failure_kind"] = f.get("kind")
        rec["kind"] = kind
        with open(path, "w") as fh:
            json.dump(rec, fh, indent=1)
        print("VIOLATION property=%s replay=%s%s" % (ctx.pid, path, suffix))

    if counter:
        for f in counter[:3]:
            emit("counterexample", f, "")
        rc = 1
    elif drift or broken:
        f = {"broken": [b["what"] for b in broken] +
             ["correspondence:%s (%s)" % (d.get("what", "?"), d["kind"]) for d in drift[:5]],
             "detail": broken[:3], "first_disagreement": drift[0] if drift else None,
             "searched": res.get("search_note", "direct oracle run over corpus + generated cases of this tier: no failing input")}
        emit("broken-obligation", f, " no-failing-input-found")
        rc = 1
    ev = {
        "property_id": ctx.pid, "tier": ctx.tier, "seed": ctx.seed, "level": "proof",
        "coverage": {
            "obligations": ctx.proof["obligations"], "discharged": ctx.proof["discharged"],
            "checker_cmd": "cd /verif/lean && lake build %s && lake env lean <generated '#print axioms' file>%s"
                           % (res.get("props_mod", "VncModel.Props." + ctx.pid),
                              " && lake env leanchecker" if ctx.tier == "thorough" else ""),
            "trusted_base": TRUSTED_BASE + res.get("trusted_extra", []),
            "theorems": ctx.proof.get("theorems", []),
            "axioms": ctx.proof["axioms"],
            "partial": res.get("partial", []),
            "broken_obligations": broken,
            "evaluations": res.get("evaluations", 0),
            "distinct_nontrivial": res.get("distinct_nontrivial", 0),
            "rule": res.get("rule", ""),
            "samples": res.get("samples", [])[:8],
            "distribution": res.get("distribution", {}),
            "exhaustive": bool(res.get("exhaustive", False)),
            "correspondence": res.get("correspondence", {}),
            "known_findings_replayed": sorted(knownhit.keys()),
            "gen_hash": gen_hash(),
        },
        "assumptions": res.get("assumptions", []),
        "wall_s": round(time.time() - ctx.t0, 2),
        "violations": len(counter) + (1 if (not counter and (drift or broken)) else 0),
    }
    if "leanchecker" in ctx.proof:
        ev["coverage"]["leanchecker"] = ctx.proof["leanchecker"]
    ev = json.loads(json.dumps(ev, default=str))
    ev["coverage"] = _shrink(ev["coverage"])
    txt = json.dumps(ev, indent=1)
    if len(txt) > 400000:
        ev["coverage"] = _shrink(ev["coverage"], max_str=300, max_list=12)
        ev["coverage"]["samples"] = ev["coverage"].get("samples", [])[:2]
        txt = json.dumps(ev, indent=1)
    tmp = os.path.join(VERIF, "evidence", ctx.pid + ".json.tmp%d" % os.getpid())
    with open(tmp, "w") as fh:
        fh.write(txt)
    os.replace(tmp, os.path.join(VERIF, "evidence", ctx.pid + ".json"))
    if rc == 0:
        print("OK property=%s tier=%s seed=%d obligations=%d discharged=%d evaluations=%d wall=%.1fs"
              % (ctx.pid, ctx.tier, ctx.seed, ctx.proof["obligations"], ctx.proof["discharged"],
                 res.get("evaluations", 0), time.time() - ctx.t0))
    return rc


def gen_hash():
    h = hashlib.sha256()
    for f in sorted(glob.glob(os.path.join(LEAN, "VncModel", "Gen", "*.lean"))):
        h.update(open(f, "rb").read())
    return h.hexdigest()[:16]


def compare_streams(ctx, script, harness_exe, driver_exe, what, timeout=600, env=None,
                    hargs=(), dargs=()):
    """run script on both sides; -> (impl_lines, model_lines, failure or None)"""
    rc1, impl, err1 = ctx.run_lines(harness_exe, script, timeout=timeout, env=env, args=hargs)
    if rc1 != 0:
        return impl, [], {"kind": "crash", "what": what + ": harness exit %d" % rc1,
                          "script": script.splitlines()[:400], "impl": impl[-20:], "detail": err1}
    if not ctx.driver_ok:
        return impl, [], None
    rc2, model, err2 = ctx.run_lines(driver_exe, script, timeout=timeout, args=dargs)
    if rc2 != 0:
        return impl, model, {"kind": "exact", "what": what + ": model driver exit %d" % rc2,
                             "script": script.splitlines()[:400], "detail": err2}
    d = first_diff(impl, model)
    if d is not None:
        return impl, model, {"kind": "exact", "what": what, "line": d,
                             "script": script.splitlines()[:400],
                             "impl": impl[max(0, d - 2):d + 3], "model": model[max(0, d - 2):d + 3]}
    return impl, model, None
