"""C03 — server output is a well-formed RFB stream within negotiated capabilities.

Proof: lean/VncModel/Props/C03.lean (count = emission for every splitting encoder, announced count
= rectangles that follow below 65535, parse∘serialise = id for the strict parser, split rectangles
stay inside, capability state machine facts).
Tie (correspondence + oracle in one): harness/c03.c runs scripted sessions on the REAL server and
prints the complete byte stream per connection plus the regions the pre-encode hook sees; the
compiled Lean driver (Driver/C03.lean) runs the *strict parser of the theorems* on those bytes with
the capability state derived from the script:
  !PARSE / !ORACLE lines  -> the property fails on a concrete input   (kind 'oracle')
  !EXACT lines            -> the planning model predicted other rectangle headers (kind 'exact')
Python never interprets server bytes.
"""
import json, os, glob
from .. import common

PROPS_MOD = "VncModel.Props.C03"
EXTRA_TARGETS = ["drv_c03"]
GEN = ["leaf"]      # T1: count expressions regenerated from the C source (Props.C03.T1)

# protocol numbers used by the generators only (the model takes them from T0)
RAW, COPYRECT, RRE, CORRE, HEXTILE, ZLIB, TIGHT, ULTRA, ZRLE, ZYWRLE = 0, 1, 2, 4, 5, 6, 7, 9, 16, 17
TIGHTPNG = 0xFFFFFEFC
XCURSOR, RICHCURSOR, POINTERPOS = 0xFFFFFF10, 0xFFFFFF11, 0xFFFFFF18
LASTRECT, NEWFBSIZE, EXTDESKTOPSIZE = 0xFFFFFF20, 0xFFFFFF21, 0xFFFFFECC
LED, SUPMSGS, SUPENCS, IDENTITY = 0xFFFE0000, 0xFFFE0001, 0xFFFE0002, 0xFFFE0003
XVP, EXTCLIP = 0xFFFFFECB, 0xC0A1E5CE
COMPRESS0, QUALITY0, FINEQ0, SUBSAMP0 = 0xFFFFFF00, 0xFFFFFFE0, 0xFFFFFE00, 0xFFFFFD00
PIXEL_ENCS = [RAW, RRE, CORRE, HEXTILE, ZLIB, TIGHT, TIGHTPNG, ULTRA, ZRLE, ZYWRLE]
PSEUDO = [XCURSOR, RICHCURSOR, POINTERPOS, LASTRECT, NEWFBSIZE, EXTDESKTOPSIZE, LED, SUPMSGS, SUPENCS,
          IDENTITY, XVP, EXTCLIP]
ENC_NAME = {RAW: "raw", RRE: "rre", CORRE: "corre", HEXTILE: "hextile", ZLIB: "zlib", TIGHT: "tight",
            TIGHTPNG: "tightpng", ULTRA: "ultra", ZRLE: "zrle", ZYWRLE: "zywrle"}

# minilzo (vendored LZO1X) loads/stores 32-bit words at unaligned addresses by design; UBSan's
# alignment check aborts inside lzo1x_1_compress on the unchanged tree for most Ultra rectangles.
# That is unrelated to the wire format, so this harness is built without the alignment check
# (everything else of ASan/UBSan stays on).  Reported in docs/C03.md.
HARNESS_EXTRA = ("-fno-sanitize=alignment",)

PIXFMTS = [  # bpp depth be tc rmax gmax bmax rs gs bs
    (32, 24, 0, 1, 255, 255, 255, 16, 8, 0),
    (32, 24, 0, 1, 255, 255, 255, 0, 8, 16),
    (32, 32, 0, 1, 255, 255, 255, 0, 8, 16),
    (32, 24, 1, 1, 255, 255, 255, 16, 8, 0),
    (16, 16, 0, 1, 31, 63, 31, 11, 5, 0),
    (16, 15, 0, 1, 31, 31, 31, 10, 5, 0),
    (16, 16, 1, 1, 31, 63, 31, 11, 5, 0),
    (8, 8, 0, 1, 7, 7, 3, 0, 3, 6),
    (8, 6, 0, 1, 3, 3, 3, 4, 2, 0),
]


# ------------------------------------------------------------------------------------------ running
def merge(script, obs):
    """interleave ops with the harness' observations (prefixed '@') for the Lean driver"""
    ops = [l for l in script.splitlines() if l.strip() and not l.startswith("#")]
    out, i = [], 0
    for op in ops:
        out.append(op)
        while i < len(obs):
            out.append("@" + obs[i])
            i += 1
            if obs[i - 1] == ".":
                break
    return "\n".join(out) + "\n", i >= len(obs)


# Leak detection stays on (the SetDesktopSize iterator leak seen earlier was fixed in /repo by 932e6b9).
HENV = {"ASAN_OPTIONS": "detect_leaks=1:abort_on_error=0:allocator_may_return_null=1"}


def run_case(ctx, h, d, script, what):
    """-> (harness lines, driver lines, [failures])"""
    rc, impl, err = ctx.run_lines(h, script, env=HENV)      # default limit + hang confirmation of Ctx.run_lines
    lines = script.splitlines()
    if rc != 0:
        return impl, [], [{"kind": "crash", "what": what + ": harness exit %d" % rc, "script": lines[:600],
                           "impl": [l[:300] for l in impl[-12:]], "detail": err}]
    merged, _ = merge(script, impl)
    if not ctx.driver_ok and not os.path.exists(d):
        return impl, [], []
    # ctx.driver_ok false but a driver binary exists: it is the last good build of the strict parser.
    # Driver/C03.lean imports only the Wire model (no Props, no Leaf, no proofs), so a broken theorem
    # never removes it; using it keeps the search for a concrete failing input alive.
    rc2, model, err2 = ctx.run_lines(d, merged)
    if rc2 != 0:
        return impl, model, [{"kind": "exact", "what": what + ": model driver exit %d" % rc2,
                              "script": lines[:600], "detail": err2}]
    fails = []
    orc = [l for l in model if l.startswith("!PARSE") or l.startswith("!ORACLE")]
    exa = [l for l in model if l.startswith("!EXACT")]
    if orc:
        fails.append({"kind": "oracle", "what": what + ": " + orc[0][:200], "script": lines[:600],
                      "detail": [l[:400] for l in orc[:6]], "model": [l[:300] for l in model[-8:]]})
    elif exa:
        fails.append({"kind": "exact", "what": what + ": " + exa[0][:200], "script": lines[:600],
                      "detail": [l[:400] for l in exa[:6]], "model": [l[:300] for l in model[-8:]]})
    return impl, model, fails


# --------------------------------------------------------------------------------------- generators
class Gen:
    """builds one script and keeps the generator's own bookkeeping (never used as an oracle)"""

    def __init__(self, rng):
        self.rng = rng
        self.lines = []
        self.normal = []          # ids of connections in the normal phase
        self.hs = []              # ids still in the handshake
        self.nextid = 0
        self.caps = {}            # id -> set of advertised numbers (latest list)
        self.scaled = {}
        self.known = {}           # id -> framebuffer size the client has been told (generator's estimate)
        self.pending = {}         # id -> a size change the server still owes this client
        self.safe = {}            # id -> box inside every size the client may have been told so far
        self.conservative = False # request only inside `safe` (sessions whose capabilities change)
        self.cbpp = {}            # id -> bits per pixel of the client's current format
        self.pref = {}            # id -> preferred pixel encoding (sticky like in the server)
        self.tags = set()

    def op(self, s):
        self.lines.append(s)

    def screen(self, w, h, bpp, **opts):
        self.w, self.h, self.bpp = w, h, bpp
        self.op("screen %d %d %d" % (w, h, bpp))
        for k, v in opts.items():
            self.op("opt %s %s" % (k, v))
        self.opts = opts

    def connect(self, minor, passwd=False, good=True, stop_at=None):
        """full handshake; stop_at in (None,'version','sectype','auth') leaves the client mid-handshake"""
        i = self.nextid
        self.nextid += 1
        self.op("conn %d %d" % (i, minor))
        self.hs.append(i)
        if stop_at == "version":
            return i
        m = minor % 1000
        if m >= 7:
            self.op("sectype %d %d" % (i, 2 if passwd else 1))
            if stop_at == "sectype":
                return i
        if passwd:
            if stop_at == "auth":
                return i
            self.op("auth %d %s" % (i, "good" if good else "bad"))
            if not good:
                self.hs.remove(i)
                return i
        if not (m == 889 and not passwd):
            self.op("cinit %d 1" % i)
        self.hs.remove(i)
        self.normal.append(i)
        self.caps[i] = set()
        self.known[i] = (self.w, self.h)
        self.safe[i] = (self.w, self.h)
        self.cbpp[i] = 8 * self.bpp
        self.pref[i] = RAW
        return i

    def png_unsafe(self, pref, cbpp):
        """(was: TightPng + 16bpp client + big rectangles overflowed cl->afterEncBuf in pngWriteData;
        fixed in /repo by 58494c2, nothing is excluded any more)"""
        return False

    def setpf(self, i, fmt):
        if self.png_unsafe(self.pref[i], fmt[0]):
            return
        self.op("setpf %d %s" % (i, " ".join(str(v) for v in fmt)))
        self.cbpp[i] = fmt[0]

    def req(self, i, inc, partial=False):
        """a conforming client never asks for more than the framebuffer it has been told about"""
        kw, kh = self.safe[i] if self.conservative else self.known[i]
        if partial:
            w = self.rng.randint(1, kw)
            h = self.rng.randint(1, kh)
            self.op("fbur %d %d %d %d %d %d" % (i, inc, self.rng.randint(0, kw - w), self.rng.randint(0, kh - h), w, h))
        else:
            self.op("fbur %d %d 0 0 %d %d" % (i, inc, kw, kh))
            # the server answers a pending size change (and nothing else) to a client that can be told
            if self.pending.get(i) and self.caps[i] & {NEWFBSIZE, EXTDESKTOPSIZE}:
                self.known[i] = self.pending.pop(i)

    def resize(self, nw, nh, via=None):
        if via is None:
            self.op("resize %d %d" % (nw, nh))
        else:
            self.op("setds %d %d %d" % (via, nw, nh))
        self.w, self.h = nw, nh
        for i in self.normal:
            self.safe[i] = (min(self.safe[i][0], nw), min(self.safe[i][1], nh))
            if self.caps[i] & {NEWFBSIZE, EXTDESKTOPSIZE}:
                self.pending[i] = (nw, nh)

    def setscale(self, i, k, palm=False):
        self.op("%s %d %d" % ("palmscale" if palm else "setscale", i, k))
        self.safe[i] = (min(self.safe[i][0], self.w // k), min(self.safe[i][1], self.h // k))
        if self.caps[i] & {NEWFBSIZE, EXTDESKTOPSIZE}:
            self.pending[i] = (self.w // k, self.h // k)     # told by a NewFBSize rectangle, later
        else:
            self.known[i] = (self.w // k, self.h // k)       # told at once by ResizeFrameBuffer
        if k > 1:
            self.scaled[i] = k
        else:
            self.scaled.pop(i, None)

    def setenc(self, i, encs):
        pix = [e for e in encs if e in PIXEL_ENCS]
        if pix and self.png_unsafe(pix[0], self.cbpp[i]):
            encs = [TIGHT if e == TIGHTPNG else e for e in encs]
            pix = [e for e in encs if e in PIXEL_ENCS]
        self.op("setenc %d %s" % (i, " ".join(str(e) for e in encs)))
        self.caps[i] = set(encs)
        if pix:
            self.pref[i] = pix[0]

    def rect_in_screen(self, maxw=None, maxh=None):
        r = self.rng
        w = r.randint(1, min(self.w, maxw or self.w))
        h = r.randint(1, min(self.h, maxh or self.h))
        return r.randint(0, self.w - w), r.randint(0, self.h - h), w, h

    def draw(self, x, y, w, h, mode=None):
        self.op("draw %d %d %d %d %d %d" % (self.rng.randint(0, 5) if mode is None else mode, x, y, w, h,
                                            self.rng.randint(1, 10 ** 6)))

    def text(self):
        return "\n".join(self.lines) + "\n"


def hexs(rng, n):
    return "".join("%02x" % rng.randint(32, 126) for _ in range(n)) or "-"


SCREENS = [(37, 23), (64, 48), (200, 150), (320, 200), (400, 300), (2500, 30), (40, 1500), (130, 260),
           (512, 64), (97, 97), (48, 48), (49, 96), (4200, 20), (256, 257)]


def gen_session(rng):
    g = Gen(rng)
    g.conservative = True
    r = rng
    w, h = r.choice(SCREENS)
    bpp = r.choice([1, 2, 4, 4])
    opts = {}
    opts["maxrects"] = r.choice([0, 1, 50, 50, 3])
    if r.random() < 0.7:
        opts["name"] = hexs(r, r.choice([0, 1, 5, 20, 126, 127, 128, 200, 255, 300]))
    if r.random() < 0.4:
        opts["xvp"] = r.choice([1, 2])
    if r.random() < 0.4:
        opts["utf8"] = 1
    if r.random() < 0.5:
        opts["ledhook"] = 1
    if r.random() < 0.15:
        opts["norichx"] = 1
    if r.random() < 0.2:
        opts["identity"] = hexs(r, r.randint(1, 60))
    if r.random() < 0.15:
        opts["protominor"] = r.choice([3, 7, 8])
    passwd = r.random() < 0.15
    if passwd:
        opts["passwd"] = 1
    if r.random() < 0.3:
        opts["setds"] = r.choice([0, 1, 2, 3])
    g.screen(w, h, bpp, **opts)
    nclients = r.choice([1, 1, 2, 3])
    for _ in range(nclients):
        minor = r.choice([3, 7, 8, 8, 889, 5, 6, 9, 100])
        i = g.connect(minor, passwd=passwd, good=(r.random() < 0.85))
        if i in g.normal:
            if r.random() < 0.6:
                g.setpf(i, r.choice(PIXFMTS))
            if r.random() < 0.9:
                g.setenc(i, rand_enc_list(r))
            g.req(i, 0)
    nact = r.choice([5, 10, 20, 35])
    resized = False
    for _ in range(nact):
        if not g.normal:
            break
        i = r.choice(g.normal)
        a = r.random()
        if a < 0.22:
            for _k in range(r.choice([1, 1, 2, 3, 6])):
                x, y, ww, hh = g.rect_in_screen(maxw=r.choice([None, 20, 60]), maxh=r.choice([None, 10, 50]))
                g.draw(x, y, ww, hh)
        elif a < 0.42:
            g.req(i, 1 if r.random() < 0.7 else 0, partial=(r.random() < 0.3))
        elif a < 0.50:
            x, y, ww, hh = g.rect_in_screen(maxw=max(1, g.w // 2), maxh=max(1, g.h // 2))
            dx = r.randint(x + ww - g.w, x)      # source = destination - (dx, dy) must be on the screen
            dy = r.randint(y + hh - g.h, y)
            # rfbDoCopyRect takes the destination rectangle and the displacement from the source
            if 0 <= x - dx and x - dx + ww <= g.w and 0 <= y - dy and y - dy + hh <= g.h and (dx or dy):
                g.op("copy %d %d %d %d %d %d" % (x, y, ww, hh, dx, dy))
        elif a < 0.56:
            cw, ch = r.choice([(1, 1), (8, 8), (16, 16), (17, 9), (32, 32), (5, 40), (8, 8), (16, 16),
                               (90, 90), (91, 91), (100, 100), (512, 255), (512, 256), (128, 64)])
            g.op("cursor %d %d %d %d %d %d" % (cw, ch, r.randint(0, cw - 1), r.randint(0, ch - 1),
                                                 r.randint(0, 1), r.randint(1, 10 ** 6)))
        elif a < 0.62:
            # pointer positions stay inside every client's known framebuffer: the soft cursor is painted
            # (and sent) wherever the pointer is - see finding c03-softcursor-outside-announced
            pw = min([g.w] + [g.known[j][0] * g.scaled.get(j, 1) for j in g.normal])
            ph = min([g.h] + [g.known[j][1] * g.scaled.get(j, 1) for j in g.normal])
            k = g.scaled.get(i, 1)
            g.op("ptr %d %d %d %d" % (i, r.choice([0, 0, 1]), r.randint(0, pw - 1) // k, r.randint(0, ph - 1) // k))
        elif a < 0.66:
            g.op("bell")
        elif a < 0.70:
            g.op("scut %s" % hexs(r, r.choice([0, 1, 7, 100, 3000])))
        elif a < 0.73 and opts.get("utf8"):
            g.op("scututf8 %s %s" % (hexs(r, r.choice([1, 10, 200])), hexs(r, r.choice([0, 5, 50]))))
        elif a < 0.76:
            g.op("led %d" % r.randint(0, 7))
        elif a < 0.82:
            g.setenc(i, rand_enc_list(r))
        elif a < 0.86:
            g.setpf(i, r.choice(PIXFMTS))
        elif a < 0.90 and not g.scaled:
            nw, nh = r.choice(SCREENS[:9])
            g.resize(nw, nh)
            resized = True
            g.tags.add("resize")
        elif a < 0.93 and not resized:
            k = r.choice([1, 2, 3, 2])
            if k <= min(g.w, g.h):
                g.setscale(i, k, palm=(r.random() < 0.3))
                g.tags.add("scaled")
        elif a < 0.95 and "setds" in opts and not g.scaled:
            nw, nh = r.choice(SCREENS[:5])
            if opts["setds"] == 0:
                g.resize(nw, nh, via=i)
                resized = True
            else:
                g.op("setds %d %d %d" % (i, nw, nh))
        elif a < 0.97 and opts.get("xvp"):
            g.op("xvpc %d %d %d" % (i, r.choice([1, 1, 2]), r.choice([2, 3, 4])))
        elif a < 0.985:
            g.op("chat %d %d %s" % (i, r.choice([4294967295, 4294967294, 4294967293]), "-"))
        else:
            n = r.choice([1, 10, 300, 4095, 4096, 4097, 5000])
            g.op("chat %d %d %s" % (i, n, hexs(r, n)))
    for i in g.normal:
        g.req(i, 1)
        g.req(i, 1)
    return g.text(), g.tags | {"session"}


def rand_enc_list(r, prefer=None):
    pix = ([prefer] if prefer is not None else []) + r.sample(PIXEL_ENCS, r.randint(0, 3))
    rest = []
    if r.random() < 0.5:
        rest.append(COPYRECT)
    rest += [e for e in PSEUDO if r.random() < 0.4]
    if r.random() < 0.5:
        rest.append(COMPRESS0 + r.randint(0, 9))
    if r.random() < 0.4:
        rest.append(QUALITY0 + r.randint(0, 9))
    if r.random() < 0.1:
        rest.append(FINEQ0 + r.randint(1, 100))
    if r.random() < 0.1:
        rest.append(SUBSAMP0 + r.randint(0, 3))
    if r.random() < 0.1:
        rest.append(r.choice([8, 15, 0x48323634, 0xFFFF0009, 12345]))
    # pseudo-encodings may precede the preferred encoding, other pixel encodings may not
    r.shuffle(rest)
    k = r.randint(0, len(rest))
    tail = pix[1:] + rest[k:]
    r.shuffle(tail)
    return rest[:k] + pix[:1] + tail


def boundary_dims(r, enc):
    """(w, h) of one region rectangle at / around the splitting boundaries of `enc`"""
    if enc == CORRE:
        return r.choice([47, 48, 49, 95, 96, 97, 1, 144, 145]), r.choice([47, 48, 49, 95, 96, 97, 1, 143, 144])
    if enc in (ZLIB, ULTRA):
        w = r.choice([1, 7, 64, 100, 128, 255, 256, 257, 512, 1000, 4096, 16383, 16384, 16385, 20000])
        ml = (2 * w if 2 * w > 32768 else 32768) // w
        k = r.choice([1, 1, 2, 3])
        h = max(1, k * ml + r.choice([-1, 0, 1]))
        while w * h > 600000 and k > 1:
            k -= 1
            h = max(1, k * ml + r.choice([-1, 0, 1]))
        if w * h > 1200000:
            h = max(1, 1200000 // w)
        return w, min(h, 60000)
    if enc in (TIGHT, TIGHTPNG):
        w = r.choice([1, 16, 63, 64, 255, 256, 257, 1024, 2047, 2048, 2049, 4095, 4096, 4097, 6200])
        smw = min(w, 2048)
        smh = 65536 // smw
        k = r.choice([1, 1, 2, 3])
        h = max(1, k * smh + r.choice([-1, 0, 1]))
        if r.random() < 0.3:
            h = max(1, (4096 // w) + r.choice([-1, 0, 1]))      # around MIN_SPLIT_RECT_SIZE
        if w * h > 900000:
            h = max(1, 900000 // w)
        return w, min(h, 60000)
    return r.randint(1, 300), r.randint(1, 300)


def gen_boundary(rng):
    """one client, one preferred encoding, non-incremental requests for rectangles whose size sits on a
    splitting boundary; exact multiples are the point"""
    r = rng
    g = Gen(r)
    enc = r.choice([CORRE, ZLIB, ULTRA, TIGHT, TIGHTPNG, CORRE, ZLIB, ULTRA, TIGHT])
    dims = [boundary_dims(r, enc)]
    for _ in range(r.choice([0, 1, 2])):
        d2 = boundary_dims(r, enc)
        if max(d2[0], *(w for w, _ in dims)) * max(d2[1], *(h for _, h in dims)) <= 1500000:
            dims.append(d2)
    W = max(w for w, _ in dims) + r.randint(0, 3)
    H = max(h for _, h in dims) + r.randint(0, 3)
    bpp = r.choice([1, 2, 4]) if W * H < 400000 else 1
    g.screen(W, H, bpp, maxrects=r.choice([0, 1, 50]))
    i = g.connect(r.choice([3, 7, 8]))
    if r.random() < 0.4:
        g.setpf(i, r.choice(PIXFMTS))
    encs = [enc]
    if r.random() < 0.5:
        encs.append(LASTRECT)
    if r.random() < 0.3:
        encs += [r.choice(PSEUDO)]
    if r.random() < 0.5:
        encs.append(QUALITY0 + r.randint(0, 9))
    if r.random() < 0.5:
        encs.append(COMPRESS0 + r.randint(0, 9))
    r.shuffle(encs)
    g.setenc(i, encs)
    mode = r.choice([0, 1, 2, 3, 4, 5])
    g.draw(0, 0, W, H, mode=mode)
    for (w, h) in dims:
        x, y = r.randint(0, W - w), r.randint(0, H - h)
        g.op("fbur %d 0 %d %d %d %d" % (i, x, y, w, h))
    return g.text(), {"boundary", "enc:" + ENC_NAME[enc]}


def gen_multirect(rng):
    """update histories producing multi-rectangle regions: L-shapes, many small rectangles,
    checkerboards; maxRectsPerUpdate in {0,1,50}; every encoding"""
    r = rng
    g = Gen(r)
    w, h = r.choice([(200, 150), (320, 200), (97, 97), (400, 300), (130, 260)])
    mr = r.choice([0, 1, 50])
    g.screen(w, h, r.choice([1, 2, 4]), maxrects=mr)
    i = g.connect(r.choice([3, 8]))
    enc = r.choice(PIXEL_ENCS)
    g.setenc(i, rand_enc_list(r, prefer=enc))
    if r.random() < 0.4:
        g.setpf(i, r.choice(PIXFMTS))
    g.op("fbur %d 0 0 0 %d %d" % (i, w, h))
    for _ in range(r.choice([1, 2, 4])):
        shape = r.choice(["L", "small", "checker", "stripes", "copy", "copychk"])
        if shape == "L":
            x, y = r.randint(0, w // 2), r.randint(0, h // 2)
            a, b = r.randint(10, w // 2), r.randint(10, h // 2)
            g.draw(x, y, a, 5)
            g.draw(x, y, 5, b)
        elif shape == "small":
            for _k in range(r.choice([3, 10, 40, 60])):
                x, y, ww, hh = g.rect_in_screen(maxw=6, maxh=6)
                g.draw(x, y, ww, hh)
        elif shape == "checker":
            cs = r.choice([1, 2, 5])
            cw, ch = r.choice([(8, 8), (20, 10), (40, 12)])
            cw, ch = min(cw, w // cs), min(ch, h // cs)
            x, y = r.randint(0, w - cw * cs), r.randint(0, h - ch * cs)
            g.op("markchk %d %d %d %d %d" % (x, y, cw * cs, ch * cs, cs))
        elif shape == "stripes":
            for k in range(r.choice([3, 8, 55])):
                if 2 * k + 1 < h:
                    g.op("mark %d %d %d %d" % (0, 2 * k, r.randint(1, w), 1))
        elif shape == "copychk":
            # a copy region of many rectangles (rfbScheduleCopyRegion takes any region)
            cw, ch = r.choice([(10, 4), (64, 33), (90, 46), (96, 43), (97, 64)])
            cw, ch = min(cw, w), min(ch, h // 2)
            x, y = r.randint(0, w - cw), r.randint(ch, h - ch)
            g.op("copychk %d %d %d %d 1 0 %d" % (x, y, cw, ch, r.randint(1, min(ch, y))))
        else:
            x, y, ww, hh = g.rect_in_screen(maxw=w // 2, maxh=h // 2)
            dx = r.randint(x + ww - w, x)        # source = destination - (dx, dy) must be on the screen
            dy = r.randint(y + hh - h, y)
            if dx or dy:
                g.op("copy %d %d %d %d %d %d" % (x, y, ww, hh, dx, dy))
        g.op("fbur %d 1 0 0 %d %d" % (i, w, h))
    return g.text(), {"multirect", "enc:" + ENC_NAME[enc], "maxrects:%d" % mr}


def gen_scaled(rng):
    r = rng
    g = Gen(r)
    w, h = r.choice([(200, 150), (97, 97), (64, 48), (37, 23), (321, 201)])
    g.screen(w, h, r.choice([1, 2, 4]), maxrects=r.choice([0, 50]))
    i = g.connect(8)
    enc = r.choice(PIXEL_ENCS)
    encs = rand_enc_list(r, prefer=enc)
    encs = [e for e in encs if e != COPYRECT]
    g.setenc(i, encs)
    k = r.choice([2, 3, 2, 4])
    g.op("%s %d %d" % (r.choice(["setscale", "palmscale"]), i, k))
    sw, sh = w // k, h // k
    g.op("fbur %d 0 0 0 %d %d" % (i, sw, sh))
    for _ in range(r.choice([2, 5, 10])):
        for _k in range(r.choice([1, 2, 5])):
            x, y, ww, hh = g.rect_in_screen(maxw=r.choice([None, 9, 30]), maxh=r.choice([None, 9, 30]))
            g.draw(x, y, ww, hh)
        g.op("fbur %d 1 0 0 %d %d" % (i, sw, sh))
        if r.random() < 0.2:
            k = r.choice([1, 2, 3])
            g.op("setscale %d %d" % (i, k))
            sw, sh = w // k, h // k
            g.op("fbur %d 0 0 0 %d %d" % (i, sw, sh))
    return g.text(), {"scaled", "enc:" + ENC_NAME[enc]}


def gen_resize(rng):
    """resize mid-session with / without NewFBSize / ExtDesktopSize support; a client that cannot be told
    keeps requesting only the area it knows"""
    r = rng
    g = Gen(r)
    w, h = r.choice([(64, 48), (200, 150), (97, 97)])
    g.screen(w, h, r.choice([1, 2, 4]), maxrects=r.choice([0, 50]), setds=r.choice([0, 1, 3]))
    ids = []
    for _ in range(r.choice([1, 2, 3])):
        i = g.connect(r.choice([3, 7, 8]))
        enc = r.choice(PIXEL_ENCS)
        extra = r.choice([[], [NEWFBSIZE], [EXTDESKTOPSIZE], [NEWFBSIZE, EXTDESKTOPSIZE]])
        encs = [enc] + extra + ([COPYRECT] if r.random() < 0.4 else []) + ([LASTRECT] if r.random() < 0.3 else [])
        r.shuffle(encs)
        g.setenc(i, encs)
        ids.append(i)
        g.req(i, 0)
    for _ in range(r.choice([2, 4, 8])):
        a = r.random()
        if a < 0.4:
            nw, nh = r.choice([(64, 48), (200, 150), (97, 97), (37, 23), (320, 200)])
            if r.random() < 0.3 and g.opts.get("setds") == 0:
                g.resize(nw, nh, via=r.choice(ids))
            else:
                g.resize(nw, nh)
        elif a < 0.7:
            x, y, ww, hh = g.rect_in_screen()
            g.draw(x, y, ww, hh)
        for i in ids:
            g.req(i, r.choice([0, 1, 1]))
            g.req(i, 1)
    return g.text(), {"resize"}


def gen_handshake(rng):
    """all protocol versions x security None / VncAuth (good, bad) x stop points, with application
    actions in between"""
    r = rng
    g = Gen(r)
    passwd = r.random() < 0.5
    opts = {"name": hexs(r, r.choice([0, 3, 127, 128, 250]))}
    if passwd:
        opts["passwd"] = 1
    if r.random() < 0.3:
        opts["protominor"] = r.choice([3, 7, 8])
    g.screen(r.choice([37, 64]), r.choice([23, 48]), r.choice([1, 2, 4]), **opts)
    for _ in range(r.choice([1, 2, 4])):
        minor = r.choice([3, 7, 8, 889, 0, 4, 6, 9, 14, 16, 100, 999])
        stop = r.choice([None, None, None, "version", "sectype", "auth"])
        i = g.connect(minor, passwd=passwd, good=(r.random() < 0.6), stop_at=stop)
        if r.random() < 0.15 and i in g.hs and minor % 1000 >= 7 and stop == "version":
            g.op("sectype %d %d" % (i, r.choice([0, 2 if not passwd else 1, 5, 255])))   # not offered
            g.hs.remove(i)
        if i in g.normal and r.random() < 0.5:
            g.op("fbur %d 0 0 0 %d %d" % (i, g.w, g.h))
        if r.random() < 0.35:
            # application broadcasts while other clients may still be in the handshake
            g.op(r.choice(["bell", "scut %s" % hexs(r, r.choice([0, 3, 40]))]))
    return g.text(), {"handshake"}


# ---------------------------------------------------------------- deterministic cases (every run)
def t0_consts():
    """constants of the code under test as regenerated by T0 (lean/VncModel/Gen/C03.lean)"""
    d = {}
    for l in open(os.path.join(common.LEAN, "VncModel", "Gen", "C03.lean")):
        m = re.match(r"def (\w+) : Nat := (\w+)", l)
        if m:
            d[m.group(1)] = int(m.group(2), 0)
    return d


def det_tight_boundary(rng):
    """Tight / TightPng with and without LastRect, update rectangles whose area is exactly
    MIN_SPLIT_RECT_SIZE, one row/column less or more, and at TIGHT_MAX_RECT_SIZE / _WIDTH; contents
    half solid / half noise so that the solid-area search of SendRectEncodingTight really splits"""
    k = t0_consts()
    ms, mx, mw = k["MIN_SPLIT_RECT_SIZE"], k["TIGHT_MAX_RECT_SIZE"], k["TIGHT_MAX_RECT_WIDTH"]
    shapes = []
    for w in (64, 128, 32, 16):
        if ms % w == 0:
            h = ms // w
            shapes += [(w, h), (w, h - 1), (w, h + 1), (w - 1, h), (w + 1, h)]
    shapes += [(mw, mx // mw), (mw, mx // mw + 1), (mw + 1, mx // mw), (mw - 1, mx // mw + 1),
               (256, mx // 256), (256, mx // 256 + 1), (mw, 2), (mw + 1, 2), (ms, 1)]
    out = []
    for n, (w, h) in enumerate(shapes):
        for enc in (TIGHT, TIGHTPNG):
            for lr in (True, False):
                if not lr and (n + (enc == TIGHT)) % 3:      # the LastRect side is the delicate one
                    continue
                g = Gen(rng)
                g.screen(w + 8, h + 6, 4, maxrects=0)
                i = g.connect(8)
                encs = [enc] + ([LASTRECT] if lr else []) + ([QUALITY0 + 5] if n % 4 == 0 else [])
                g.setenc(i, encs)
                g.draw(0, 0, w + 8, h + 6, mode=3)
                g.req(i, 0)
                x, y = 3, 2
                if n % 2 == 0 and w >= 4:        # left part solid, right part noise
                    ws = (3 * w) // 4
                    g.draw(x, y, ws, h, mode=0)
                    g.draw(x + ws, y, w - ws, h, mode=3)
                elif h >= 4:                     # top part solid, bottom part noise
                    hs = (3 * h) // 4
                    g.draw(x, y, w, hs, mode=0)
                    g.draw(x, y + hs, w, h - hs, mode=3)
                else:
                    g.draw(x, y, w, h, mode=1)
                g.op("fbur %d 0 %d %d %d %d" % (i, x, y, w, h))
                g.op("fbur %d 1 0 0 %d %d" % (i, w + 8, h + 6))
                out.append((g.text(), {"det-tight", "enc:" + ENC_NAME[enc]}, "det_tight_boundary"))
    return out


def det_dropcap(rng):
    """for every capability flag: advertise -> use -> SetEncodings WITHOUT it -> provoke the situation in
    which it would be used again (flags must be judged by the client's current list)"""
    out = []
    W, H = 64, 48
    for cap in (COPYRECT, XCURSOR, RICHCURSOR, POINTERPOS, LASTRECT, NEWFBSIZE, EXTDESKTOPSIZE, LED,
                SUPMSGS, SUPENCS, IDENTITY, XVP):
        for variant in (0, 1):
            g = Gen(rng)
            g.conservative = True
            g.screen(W, H, rng.choice([2, 4]), maxrects=rng.choice([0, 50]), xvp=1, utf8=1, ledhook=1,
                     setds=rng.choice([0, 1]))
            i = g.connect(8)
            j = g.connect(rng.choice([3, 8]))          # a bystander that moves the pointer
            g.setenc(j, [RAW])
            base = [TIGHT] if cap == LASTRECT else [rng.choice([RAW, HEXTILE, ZRLE, TIGHT, CORRE])]
            helper = {POINTERPOS: [RICHCURSOR], EXTDESKTOPSIZE: [], NEWFBSIZE: []}.get(cap, [])
            # what stays advertised after the drop (sibling capabilities must not be confused)
            keep = {EXTDESKTOPSIZE: [NEWFBSIZE], NEWFBSIZE: [], RICHCURSOR: [XCURSOR], XCURSOR: [RICHCURSOR],
                    POINTERPOS: [RICHCURSOR]}.get(cap, [])

            def provoke():
                if cap == COPYRECT:
                    g.op("copy 10 10 20 15 5 3")
                elif cap in (XCURSOR, RICHCURSOR):
                    g.op("cursor 16 16 3 4 %d %d" % (variant, rng.randint(1, 10 ** 6)))
                elif cap == POINTERPOS:
                    g.op("ptr %d 0 %d %d" % (j, rng.randint(0, 30), rng.randint(0, 20)))
                elif cap == LASTRECT:
                    g.draw(0, 0, 20, 40, mode=0)
                    g.draw(20, 0, 44, 40, mode=3)
                elif cap in (NEWFBSIZE, EXTDESKTOPSIZE):
                    g.resize(*rng.choice([(97, 97), (64, 48), (200, 150)]))
                elif cap == LED:
                    g.op("led %d" % rng.randint(1, 7))
                g.draw(1, 1, 9, 9)
                g.req(i, 0 if cap == EXTDESKTOPSIZE and variant else 1)
                g.req(i, 1)

            first = base + helper + [cap]
            rng.shuffle(first)
            g.setenc(i, first)
            g.req(i, 0)
            if variant == 0 or cap in (SUPMSGS, SUPENCS, IDENTITY, XVP):
                provoke()                             # use it while advertised
            if cap == COPYRECT and variant == 1:
                g.op("copy 30 20 20 15 -7 2")         # scheduled while advertised, still pending at the drop
            if cap in (SUPMSGS, SUPENCS, IDENTITY) and variant == 1:
                g.setenc(i, first)                    # one-shot armed again, then dropped before any update
            second = base + keep + ([LASTRECT] if cap != LASTRECT and variant else [])
            rng.shuffle(second)
            g.setenc(i, second)                       # ... without `cap`
            provoke()
            provoke()
            out.append((g.text(), {"det-dropcap", "cap:%d" % cap}, "det_dropcap"))
    return out


def det_handshake(rng):
    """every protocol version x None/VncAuth x good/bad password, failure reason strings, desktop names of
    length 0/127/128/255/300 (strncpy 127), a protocol extension with an init hook, peers that vanish
    before / right after ClientInit"""
    out = []
    names = [0, 127, 128, 255, 300]
    n = 0
    for minor in (3, 7, 8, 889):
        for passwd, good in ((False, True), (True, True), (True, False)):
            g = Gen(rng)
            opts = {"name": hexs(rng, names[n % len(names)])}
            if passwd:
                opts["passwd"] = 1
            if n % 3 == 0:
                # (init hook returning FALSE is not used: rfbDisableExtension unlinks the client's
                # rfbExtensionData node without freeing it - a leak that belongs to C12)
                opts["ext"] = 1
            g.screen(37, 23, rng.choice([1, 2, 4]), **opts)
            i = g.connect(minor, passwd=passwd, good=good)
            if i in g.normal:
                g.req(i, 0)
            j = g.connect(minor, passwd=passwd, good=True, stop_at="auth" if passwd else ("sectype" if minor >= 7 else "version"))
            if j in g.hs and not (minor == 889 and not passwd):
                if passwd:
                    g.op("auth %d good" % j)
                g.op("cinitclose %d" % j if n % 2 else "close %d" % j)      # peer gone around ClientInit
                g.hs.remove(j)
            if minor >= 7:
                q = g.connect(minor, passwd=passwd, stop_at="version")
                g.op("sectype %d %d" % (q, 1 if passwd else 2))      # not offered: the server just hangs up
                g.hs.remove(q)
            g.op("bell")
            out.append((g.text(), {"det-handshake"}, "det_handshake"))
            n += 1
    return out


def det_flush(rng):
    """updates in which an emitter starts with cl->ublen close to UPDATE_BUF_SIZE, so that its
    `ublen + header (+ payload) > UPDATE_BUF_SIZE` flush decides (sizes from T0)"""
    k = t0_consts()
    UB, hdr = k["UPDATE_BUF_SIZE"], k["sz_rfbFramebufferUpdateRectHeader"]
    cr = hdr + k["sz_rfbCopyRect"]
    out = []

    def session(bpp, encs, w=200, h=150, **opts):
        g = Gen(rng)
        g.screen(w, h, bpp, maxrects=0, **opts)
        i = g.connect(8)
        g.setenc(i, encs)
        g.draw(0, 0, w, h, mode=3)
        g.req(i, 0)                    # first update: cursor shape and full screen are out of the way
        return g, i

    # (1) LastRect marker after a Tight rectangle that leaves the buffer within 12 bytes of its end:
    #     compression level 0 without JPEG sends raw pixels, 4 bytes each for a 32-bit depth-32 format
    for npix_w, npix_h in ((90, 91), (91, 90), (130, 63), (89, 92)):
        g, i = session(4, [TIGHT, LASTRECT, COMPRESS0, RICHCURSOR])
        g.draw(5, 3, npix_w, npix_h, mode=3)
        g.op("fbur %d 1 0 0 200 150" % i)
        out.append((g.text(), {"det-flush", "lastrect"}, "det_flush"))
    # (2) first-rectangle flush of RRE / CoRRE / Zlib / ZRLE / Ultra after exactly as many CopyRect
    #     rectangles as fit: (UB - 4) // 16 of them leave ublen = UB - 12
    ncopy = (UB - k["sz_rfbFramebufferUpdateMsg"]) // cr           # 2047
    rows = 23
    cols = ncopy // rows                                            # 89 cells per row
    for enc in (RRE, CORRE, ZLIB, ZRLE, ULTRA, HEXTILE, TIGHT):
        for extra in (0, -1):
            g, i = session(4, [enc, COPYRECT, RICHCURSOR])
            if cols * rows == ncopy:
                g.op("copychk 0 40 %d %d 1 0 30" % (2 * cols, rows + extra))
            g.draw(2, 100, 10, 10, mode=0)
            g.draw(30, 100, 12, 9, mode=3)
            g.req(i, 1)
            out.append((g.text(), {"det-flush", "copy+" + ENC_NAME[enc]}, "det_flush"))
    # (2b) CoRRE data that ends exactly at the end of the buffer (`if (cl->ublen == UPDATE_BUF_SIZE)` in
    #      the copy loop): 2046 CopyRects, then a rectangle with background + exactly one sub-rectangle
    g, i = session(4, [CORRE, COPYRECT, RICHCURSOR])
    g.op("copychk 0 40 132 31 1 0 30")
    g.draw(2, 100, 10, 10, mode=0)
    g.draw(4, 102, 2, 2, mode=0)
    g.req(i, 1)
    out.append((g.text(), {"det-flush", "corre-exact-fill"}, "det_flush"))
    # (3) Hextile: 1978 CopyRects, four solid 4x4 tiles (17 bytes each at 32 bpp) and one raw 16x16 tile
    #     bring ublen to UB - 11 when the next rectangle's header is written
    g, i = session(4, [HEXTILE, COPYRECT, RICHCURSOR])
    g.op("copychk 0 40 92 43 1 0 30")
    for q in range(4):
        g.draw(10 * q, 100, 4, 4, mode=0)
    g.draw(0, 110, 16, 16, mode=3)
    g.draw(0, 130, 5, 5, mode=0)
    g.req(i, 1)
    out.append((g.text(), {"det-flush", "hextile"}, "det_flush"))
    # (4) a rich cursor whose rectangle is exactly UPDATE_BUF_SIZE bytes for a 16-bit client (fits the
    #     empty buffer, not the buffer holding the 4-byte update header), one byte more, one less
    for cw, ch in ((123, 125), (308, 50), (67, 229), (124, 125), (122, 125), (1, 1)):
        g = Gen(rng)
        g.screen(64, 48, 2, maxrects=0)
        i = g.connect(8)
        g.setenc(i, [RAW, RICHCURSOR, POINTERPOS])
        g.req(i, 0)
        g.op("cursor %d %d 0 0 %d %d" % (cw, ch, 2 if cw == 1 else 1, rng.randint(1, 10 ** 6)))
        g.req(i, 1)
        g.op("cursor %d %d 0 0 %d %d" % (cw, ch, 2 if cw == 1 else 0, rng.randint(1, 10 ** 6)))
        g.setenc(i, [RAW, XCURSOR])
        g.req(i, 1)
        out.append((g.text(), {"det-flush", "cursor"}, "det_flush"))
    return out


def det_compact_length(rng):
    """Tight with CompressLevel0 and no JPEG sends the data uncompressed, so the compact length field
    equals the raw size: rectangles whose data is exactly 127/128/129 and 16383/16384/16385 bytes
    (1/2/3 length bytes), as indexed (1 byte per pixel), mono (1 bit per pixel) and full-colour data"""
    k = t0_consts()
    two, three = k["compactTwoFrom"], k["compactThreeFrom"]
    out = []
    cases = []
    for n in (two - 1, two, two + 1, three - 1, three, three + 1):
        # indexed: n pixels, 4 colours
        for w in (128, 127, 129, 145, 64, 16):
            if n % w == 0 and n // w <= 300:
                cases.append((4, 6, w, n // w))
                break
        else:
            cases.append((4, 6, n, 1))
        # mono: (w+7)/8*h bytes
        for rb in (128, 127, 129, 8):
            if n % rb == 0 and n // rb <= 300:
                cases.append((4, 7, rb * 8, n // rb))
                break
    # full colour: 4 bytes per pixel (32-bit, depth 32) / 2 bytes per pixel (16-bit screen)
    cases += [(4, 3, 8, 4), (4, 3, 64, 64), (4, 3, 63, 65), (4, 3, 241, 17), (2, 3, 128, 64), (2, 3, 64, 1),
              (2, 3, 8191, 1), (2, 3, 8193, 1)]
    for bpp, mode, w, h in cases:
        g = Gen(rng)
        g.screen(w + 8, h + 6, bpp, maxrects=0)
        i = g.connect(8)
        g.setenc(i, [TIGHT, COMPRESS0])
        g.draw(0, 0, w + 8, h + 6, mode=mode)
        g.req(i, 0)
        g.op("fbur %d 0 3 2 %d %d" % (i, w, h))
        g.op("bell")
        out.append((g.text(), {"det-compact"}, "det_compact_length"))
    return out


def det_colourmap(rng):
    """colour-mapped server (8 bpp, palette of `count` cells): the automatic SetColourMapEntries on the
    first update request and the public rfbSetClientColourMaps(first, n) with n <, =, > count and
    first + n beyond the map; a client that keeps the server's format and one that sets a true-colour one"""
    out = []
    for count, calls in ((16, [(0, 0), (0, 8), (0, 16), (0, 17), (0, 256), (4, 16), (10, 300)]),
                         (256, [(0, 256), (0, 255), (250, 10), (0, 257)]),
                         (1, [(0, 1), (0, 2), (0, 0)]),
                         (200, [(0, 100), (100, 200), (0, 1000)])):
        for truecolour_client in (False, True):
            g = Gen(rng)
            g.screen(37, 23, 1, maxrects=50, cmap=count)
            i = g.connect(rng.choice([3, 8]))
            if truecolour_client:
                g.setpf(i, (8, 8, 0, 1, 7, 7, 3, 0, 3, 6))
            g.setenc(i, [rng.choice([RAW, HEXTILE, RRE, ZRLE])])
            g.req(i, 0)                      # colour-map client: SetColourMapEntries(0, count) precedes the update
            for first, n in calls:
                g.op("setcmaps %d %d" % (first, n))
                g.op("bell")
                g.draw(1, 1, 9, 9, mode=3)
                g.req(i, 1)
            out.append((g.text(), {"det-colourmap"}, "det_colourmap"))
    return out


def det_copy_then_shrink(rng):
    """a copy is scheduled and the framebuffer is replaced by a SMALLER one before the copy was sent, while
    the client's incremental request for the old geometry is still unserved: no CopyRect (source or
    destination) may lie outside the size announced by NewFBSize / ExtDesktopSize"""
    out = []
    for (w, h), (nw, nh), sizecap in (((64, 48), (32, 24), NEWFBSIZE), ((200, 150), (97, 97), EXTDESKTOPSIZE),
                                       ((97, 97), (64, 48), NEWFBSIZE), ((64, 48), (64, 24), NEWFBSIZE),
                                       ((64, 48), (200, 150), NEWFBSIZE)):
        for enc in (RAW, HEXTILE):
            g = Gen(rng)
            g.screen(w, h, rng.choice([1, 2, 4]), maxrects=rng.choice([0, 50]))
            i = g.connect(8)
            g.setenc(i, [enc, COPYRECT, sizecap, RICHCURSOR])
            g.req(i, 0)
            g.req(i, 1)                       # stays unserved: nothing is pending
            cw, ch = w // 3, h // 3
            x, y = w - cw - 2, h - ch - 2     # destination in the bottom right corner, source 10 px up-left
            g.op("copyresize %d %d %d %d %d %d %d %d" % (x, y, cw, ch, 10, 8, nw, nh))
            g.w, g.h = nw, nh
            g.known[i] = (nw, nh)
            g.safe[i] = (min(w, nw), min(h, nh))
            g.op("pump")
            g.req(i, 1)
            g.draw(0, 0, 5, 5)
            g.req(i, 1)
            out.append((g.text(), {"det-copyshrink"}, "det_copy_then_shrink"))
    return out


def det_scaled_copy(rng):
    """scaled clients that list CopyRect: copies in all four directions on screens whose width and height
    reduce by different ratios (6x29 -> 3x14, 37x23 -> 12x7, ...): destination AND source of every CopyRect
    must lie inside the scaled framebuffer announced to the client"""
    out = []
    for (w, h), k in (((6, 29), 2), ((37, 23), 3), ((64, 49), 2), ((97, 97), 4), ((200, 151), 3), ((31, 64), 2)):
        g = Gen(rng)
        g.screen(w, h, rng.choice([1, 2, 4]), maxrects=0)
        i = g.connect(8)
        g.setenc(i, [rng.choice([RAW, HEXTILE, ZRLE]), COPYRECT, RICHCURSOR])
        g.setscale(i, k)
        sw, sh = w // k, h // k
        g.op("fbur %d 0 0 0 %d %d" % (i, sw, sh))
        moves = [(0, h // 5), (0, -(h // 5)), (w // 5, 0), (-(w // 5), 0), (w // 4, h // 4), (-(w // 6), h // 3),
                 (0, 1), (1, 0), (0, h - 1), (w - 1, 0)]
        for dx, dy in moves:
            # destination = as much of the screen as has its source on the screen
            x1, y1 = max(0, dx), max(0, dy)
            x2, y2 = min(w, w + dx), min(h, h + dy)
            if x2 > x1 and y2 > y1 and (dx or dy):
                g.op("copy %d %d %d %d %d %d" % (x1, y1, x2 - x1, y2 - y1, dx, dy))
                g.op("fbur %d 1 0 0 %d %d" % (i, sw, sh))
        for _ in range(4):
            x, y, ww, hh = g.rect_in_screen(maxw=max(1, w // 2), maxh=max(1, h // 2))
            dx = rng.randint(x + ww - w, x)
            dy = rng.randint(y + hh - h, y)
            if dx or dy:
                g.op("copy %d %d %d %d %d %d" % (x, y, ww, hh, dx, dy))
                g.op("fbur %d 1 0 0 %d %d" % (i, sw, sh))
        out.append((g.text(), {"det-scaled-copy"}, "det_scaled_copy"))
    return out


def det_extdesktop(rng):
    """ExtDesktopSize with 0, 1, many screens, a failing screen hook, every SetDesktopSize result code"""
    out = []
    for nscreens, fail, setds in ((0, -1, 1), (1, -1, 3), (5, -1, 2), (255, -1, 7), (3, 1, 1), (2, 0, 0), (1, -1, 0)):
        g = Gen(rng)
        g.conservative = True
        opts = {"extscreens": nscreens, "setds": setds}
        if fail >= 0:
            opts["extfail"] = fail
        g.screen(64, 48, rng.choice([1, 2, 4]), maxrects=50, **opts)
        i = g.connect(8)
        g.setenc(i, [rng.choice([RAW, HEXTILE, ZRLE]), EXTDESKTOPSIZE, LED])
        g.req(i, 0)
        g.req(i, 1)
        if setds == 0:
            g.resize(97, 97, via=i)
        else:
            g.op("setds %d 100 80" % i)
        g.req(i, 1)
        g.req(i, 0)
        g.resize(37, 23)
        g.req(i, 1)
        g.req(i, 1)
        out.append((g.text(), {"det-extdesktop"}, "det_extdesktop"))
    return out


def det_scaled_count(rng):
    """scaled clients with the counting encodings: the rectangle count is taken in the scaled screen"""
    out = []
    for enc, (w, h), kf in ((CORRE, (300, 200), 2), (CORRE, (291, 147), 3), (ZLIB, (800, 600), 2), (ULTRA, (800, 600), 2),
                            (TIGHT, (4200, 200), 2), (TIGHTPNG, (600, 500), 2), (ZLIB, (1030, 260), 2), (TIGHT, (700, 400), 3)):
        for lr in (False, True):
            if lr and enc not in (TIGHT, TIGHTPNG):
                continue
            g = Gen(rng)
            g.screen(w, h, 1 if w * h > 400000 else rng.choice([1, 2, 4]), maxrects=0)
            i = g.connect(8)
            g.setenc(i, [enc] + ([LASTRECT] if lr else []))
            g.draw(0, 0, w, h, mode=rng.choice([2, 3, 5]))
            g.setscale(i, kf)
            sw, sh = w // kf, h // kf
            g.op("fbur %d 0 0 0 %d %d" % (i, sw, sh))
            g.draw(3, 5, w - 7, h - 9, mode=rng.choice([1, 3]))
            g.draw(0, 0, 2 * 48 * kf, 48 * kf, mode=3)
            g.op("fbur %d 1 0 0 %d %d" % (i, sw, sh))
            out.append((g.text(), {"det-scaled", "enc:" + ENC_NAME[enc]}, "det_scaled_count"))
    return out


GENS = [(gen_session, 0.34), (gen_boundary, 0.26), (gen_multirect, 0.18), (gen_scaled, 0.08),
        (gen_resize, 0.08), (gen_handshake, 0.06)]


def pick_gen(rng):
    x, acc = rng.random(), 0.0
    for f, p in GENS:
        acc += p
        if x < acc:
            return f
    return GENS[0][0]


# ------------------------------------------------------------------------------------- known findings
import re
RE_OUT = re.compile(r"!ORACLE (\d+) rect \d+: (\d+),(\d+),(\d+),(\d+) outside the announced framebuffer "
                    r"\(announced (\d+)x(\d+)\) \[op (\d+)\]")
RE_HS = re.compile(r"!PARSE (\d+) unexpected bytes during the handshake: (\w\w).* \[op (\d+)\]")


def script_ops(script):
    return [l for l in script.splitlines() if l.strip() and not l.startswith("#")]


def softcursor_pred(ops, line):
    """finding c03-softcursor-outside-announced: the rectangle leaves the announced framebuffer only
    within the extent of a soft-cursor rectangle (some pointer position x some cursor shape of the
    script so far) and the client has no cursor-shape capability"""
    m = RE_OUT.match(line)
    if not m:
        return False
    c, x, y, w, h, aw, ah, opn = (int(v) for v in m.groups())
    # every pointer position and every cursor shape of the script so far (a client keeps its own
    # last-seen pointer position until its next update)
    pos, shapes = {(0, 0)}, {(8, 7, 3, 3)}
    caps, norichx = set(), False
    for l in ops[:opn + 1]:
        t = l.split()
        if t[0] == "opt" and t[1] == "norichx":
            norichx = t[2] != "0"
        elif t[0] == "ptr":
            pos.add((int(t[3]), int(t[4])))
        elif t[0] == "cursor":
            shapes.add((int(t[1]), int(t[2]), int(t[3]), int(t[4])))
        elif t[0] == "setenc" and int(t[1]) == c:
            caps = set(int(v) for v in t[2:])
    max_r = max(px - xh + cw for (px, _) in pos for (cw, _, xh, _) in shapes)
    max_b = max(py - yh + ch for (_, py) in pos for (_, ch, _, yh) in shapes)
    has_shape = RICHCURSOR in caps or (XCURSOR in caps and not norichx)
    return (not has_shape) and x + w <= max(aw, max_r) and y + h <= max(ah, max_b)


RE_COPY = re.compile(r"!ORACLE (\d+) rect \d+: encoding copy was never advertised by the client .*\[op (\d+)\]")


def copydrop_pred(ops, line):
    """finding c03-copyrect-after-drop: a CopyRect rectangle for a client whose current list lacks
    CopyRect, where a copy was scheduled while an earlier list of that client had CopyRect"""
    m = RE_COPY.match(line)
    if not m:
        return False
    c, opn = int(m.group(1)), int(m.group(2))
    has, scheduled_while_has, dropped_after = False, False, False
    for l in ops[:opn + 1]:
        t = l.split()
        if t[0] == "setenc" and int(t[1]) == c:
            now = COPYRECT in [int(v) for v in t[2:]]
            if has and not now and scheduled_while_has:
                dropped_after = True
            if now:
                dropped_after = False
            has = now
        elif t[0] in ("copy", "copychk") and has:
            scheduled_while_has = True
    return dropped_after and not has


RE_CSRC = re.compile(r"!ORACLE (\d+) rect \d+: CopyRect source (\d+),(\d+),(\d+),(\d+) outside the announced framebuffer "
                     r"\(announced (\d+)x(\d+)\) \[op (\d+)\]")


def scaledcopy_pred(ops, line):
    """finding c03-scaled-copyrect-dy: CopyRect SOURCE outside the announced size, only in y, for a client
    that has sent SetScale / PalmVNCSetScaleFactor with a factor > 1"""
    m = RE_CSRC.match(line)
    if not m:
        return False
    c, sx, sy, w, h, aw, ah, opn = (int(v) for v in m.groups())
    scaled = False
    for l in ops[:opn + 1]:
        t = l.split()
        if t[0] in ("setscale", "palmscale") and int(t[1]) == c:
            scaled = int(t[2]) > 1
    return scaled and sx + w <= aw and sy + h > ah


def classify_finding(script, impl, fail):
    """precise predicates on the failing input for defects of the unchanged tree (docs/C03.md)"""
    ops = script_ops(script)
    det = fail.get("detail")
    lines = det if isinstance(det, list) else []
    # c03-nrects-16bit: some planned update has >= 65535 rectangles (up to 6 pseudo-rectangles)
    for l in impl:
        if l.startswith("hook "):
            t = l.split()
            try:
                nu = int(t[5])
                nc = int(t[t.index("C") + 1])
            except (ValueError, IndexError):
                continue
            if nu + nc >= 65529 and fail["kind"] in ("oracle", "exact"):
                return "c03-nrects-16bit"
    if fail["kind"] == "oracle" and lines:
        if all(softcursor_pred(ops, l) for l in lines):
            return "c03-softcursor-outside-announced"
        if all(copydrop_pred(ops, l) for l in lines):
            return "c03-copyrect-after-drop"
        if all(scaledcopy_pred(ops, l) for l in lines):
            return "c03-scaled-copyrect-dy"
        # defects with a proposed fix (fixes/C03-*.diff); not suppressed, only labelled
        m = RE_HS.match(lines[0])
        if m and int(m.group(3)) < len(ops) and ops[int(m.group(3))].split()[0] in ("bell", "scut", "scututf8") \
                and m.group(2) in ("02", "03"):
            return "c03-broadcast-during-handshake"
    return None


# ---------------------------------------------------------------------------------------------- run
def summarize(model, dist):
    for l in model:
        if not l.startswith("rx "):
            continue
        t = l.split(" ", 3)
        kind = t[2] if len(t) > 2 else "?"
        dist["msgs"][kind] = dist["msgs"].get(kind, 0) + 1
        if kind == "FBU" and len(t) > 3:
            body = t[3]
            lb = body.find("[")
            if lb >= 0:
                for tok in body[lb + 1:].rstrip("]").split():
                    e = tok.split("@")[0]
                    dist["rect_encodings"][e] = dist["rect_encodings"].get(e, 0) + 1
            try:
                n = int(body.split("rects=")[1].split()[0])
                b = "1" if n == 1 else "2-9" if n < 10 else "10-99" if n < 100 else "100-999" if n < 1000 else ">=1000"
                dist["rects_per_update"][b] = dist["rects_per_update"].get(b, 0) + 1
            except Exception:
                pass


def run(ctx):
    if os.environ.get("VERIF_C03_ACCEPT_PROPOSED"):
        # testing aid only: behave as if the proposed known_findings.json entries were registered
        pp = os.path.join(common.VERIF, "corpus", "C03", "known_findings.proposed.json")
        have = {k["id"] for k in ctx.known}
        ctx.known += [k for k in json.load(open(pp))["findings"] if k["id"] not in have]
    h = ctx.harness("c03", extra=HARNESS_EXTRA)
    d = ctx.driver("drv_c03")
    fails, samples = [], []
    dist = {"generators": {}, "msgs": {}, "rect_encodings": {}, "rects_per_update": {}, "tags": {},
            "ops": {}}
    cases = []
    if ctx.replay:
        rec = json.load(open(ctx.replay))
        cases.append(("\n".join(rec.get("script", [])) + "\n", {"replay"}, "replay"))
    else:
        for p in sorted(glob.glob(os.path.join(common.VERIF, "corpus", "C03", "*.ops"))):
            cases.append((open(p).read(), {"corpus"}, "corpus:" + os.path.basename(p)))
        cases += det_tight_boundary(ctx.rng) + det_dropcap(ctx.rng) + det_handshake(ctx.rng) + \
            det_flush(ctx.rng) + det_extdesktop(ctx.rng) + det_scaled_count(ctx.rng) + det_compact_length(ctx.rng) + \
            det_colourmap(ctx.rng) + det_copy_then_shrink(ctx.rng) + det_scaled_copy(ctx.rng)
        n = 200 if ctx.tier == "quick" else 3000
        for _ in range(n):
            f = pick_gen(ctx.rng)
            s, tags = f(ctx.rng)
            cases.append((s, tags, f.__name__))
    results = common.pmap(lambda c: run_case(ctx, h, d, c[0], c[2]), cases)
    nontrivial = set()
    evals = 0
    for (script, tags, name), (impl, model, fs) in zip(cases, results):
        evals += 1
        dist["generators"][name.split(":")[0]] = dist["generators"].get(name.split(":")[0], 0) + 1
        for t in tags:
            dist["tags"][t] = dist["tags"].get(t, 0) + 1
        for l in script.splitlines():
            k = l.split()[0] if l.split() else ""
            dist["ops"][k] = dist["ops"].get(k, 0) + 1
        summarize(model, dist)
        for f in fs:
            fid = classify_finding(script, impl, f)
            if fid:
                f["finding"] = fid
            fails.append(f)
        nfbu = sum(1 for l in model if l.startswith("rx ") and " FBU " in l)
        if nfbu >= 1 or any(" HS ServerInit" in l for l in model):
            nontrivial.add(script)
        if len(samples) < 4 and name != "gen_handshake":
            samples.append({"generator": name, "script": script.splitlines()[:60],
                            "model": [l[:200] for l in model[:30]]})
    return {
        "evaluations": evals, "distinct_nontrivial": len(nontrivial),
        "rule": "distinct scripted sessions whose captured server stream contained at least one complete "
                "ServerInit or FramebufferUpdate that the strict Lean parser had to accept",
        "samples": samples, "distribution": dist, "failures": fails[:12],
        "partial": PARTIAL, "assumptions": ASSUMPTIONS,
    }


PARTIAL = [
    "announced_eq_following holds below 65535 rectangles only: nrects_wraps_counterexample / "
    "sentinel_collision_counterexample prove the excluded region really fails (finding c03-nrects-16bit, "
    "replayed on the real code from corpus/C03/known-nrects-*.ops)",
    "rects_inside_scaled_partial: for scaled clients only the integer clamp of rfbScaledCorrection is proved; its "
    "floating-point head is executed (Lean Float) and compared with the real code on every run",
    "Tight with solid-area search (client enabled LastRect, w*h >= 4096): number/geometry of rectangles depend on "
    "the pixels; covered by announced_open_form (0xFFFF + LastRect, only for LastRect clients) and by the strict "
    "parser at run time, not by a count theorem",
    "lengths_match covers Hextile and Tight payloads through the generic RectWF (the parser's own walk); explicit "
    "well-formedness constructors are proved for Raw, CopyRect, RRE, CoRRE, Zlib/ZRLE/ZYWRLE/Ultra, cursors, "
    "payload-free pseudo-encodings, Tight-fill",
    "payload CONTENTS (pixels, compressed streams) are C01's subject; ServerCutText extended-clipboard contents C18; "
    "FileTransfer messages C19 (never generated here); colour-mapped (non true-colour) screens and TLS/WebSocket "
    "transports are not exercised",
    "only_advertised is the history reading of the statement (encoding listed in SOME SetEncodings message): the code "
    "keeps the previous preferred encoding when a new list names none, and never resets enableExtendedClipboard",
]
ASSUMPTIONS = [
    "single-threaded application-driven event loop; one client message per op, event loop pumped to idle after each op",
    "generators act as conforming clients: FramebufferUpdateRequests stay inside the framebuffer size the client "
    "can know, pixel formats are valid true-colour 8/16/32 bpp formats, client messages only in the normal phase",
    "region contents of each update (rectangle lists, order) are taken from the pre-encode hook; region algebra "
    "itself is C11/C02",
    "harness is built with -fno-sanitize=alignment (vendored minilzo does unaligned 32-bit accesses by design and "
    "aborts under UBSan's alignment check for most Ultra rectangles); every other ASan/UBSan/LSan check is on",
    "ServerInit name: the code copies at most 127 bytes of desktopName (strncpy); the oracle accepts exactly that prefix",
]

META = {
    "technique": "Lean 4 theorems about the planning model of rfbSendFramebufferUpdate and a strict RFB server-stream "
                 "parser (count = emission per splitting encoder, announced count = rectangles that follow, "
                 "parse∘serialise = id, capability invariant) + correspondence run: the real server's complete byte "
                 "stream is parsed by that same Lean parser and compared with the model's predicted rectangle headers",
    "level_text": "Proof about a hand-written model; tied to the code by constants regenerated from /repo (T0) and by an "
                  "exact differential run on every check.",
    "level_note": "Trusted: Lean kernel (axioms propext/Classical.choice/Quot.sound only), T0 probe tools/consts/c03.{c,py} "
                  "and T1 translator (count expressions regenerated from the C text, Props.C03.T1), the C harness / "
                  "generators / compiled Lean driver (testing; distribution in evidence). Modelled: wire grammar of every "
                  "server message and rectangle encoding (lengths only for compressed payloads), planning half of "
                  "rfbSendFramebufferUpdate, emission splitters of CoRRE/Zlib/Ultra/Tight-simple, SetEncodings state machine, "
                  "handshake for 3.3/3.7/3.8/3.889 with None and VncAuth, ServerInit. Partial: >= 65535 rectangles (proved to "
                  "fail, known finding), Tight solid-area search, floating-point part of scaling, payload contents (C01). "
                  "See docs/C03.md.",
    "design_ref": "DESIGN.md section 7, C03",
}
