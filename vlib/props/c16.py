"""C16 — replacing the framebuffer is safe and every client resynchronises.

Proof: lean/VncModel/Props/C16.lean about the executable model lean/VncModel/Resize/Model.lean
(built on the C02 update model and the C11 region model).
Tie: harness/c16.c drives the REAL server (rfbNewFramebuffer with the old buffer freed at once,
SetEncodings / SetPixelFormat / SetScale / PointerEvent / SetDesktopSize / FramebufferUpdateRequest
over socketpairs, rfbUpdateClient) and prints after every operation each client's region state,
flags, reason/status fields, cursor positions, translation kind, scaled geometry, and every message
each client receives (size / ext / rsz / fbu with rectangle geometry); Driver/C16.lean predicts all
of that exactly.  Direct oracles (model independent):
  ASan/UBSan/LSan            old buffer freed immediately after rfbNewFramebuffer returns
  !order  size message precedes any pixel rectangle for clients that announced resize support
  !rect   every rectangle inside the size the client was told / inside the new size
  !pix    every raw rectangle carries the reference translation of the framebuffer snapshot
  !inv    convergence invariant on the implementation's own regions + decoded client picture
  !ss     a scaled client's scaled version is the reduced CURRENT framebuffer
  !size / !sds / python: no size change without the application, SetDesktopSize answered with the
          hook's code (reason requester / other client), reason+status reset after being sent,
          every client idle and converged after a final full request.
"""
import json, os, glob, re
from .. import common

PROPS_MOD = "VncModel.Props.C16"
EXTRA_TARGETS = ["drv_c16"]

SIZES = [(4, 3), (8, 6), (13, 9), (16, 8), (20, 12), (31, 17), (40, 24), (1, 1), (2, 5), (64, 2)]


# threaded scenarios `thr W H B caps W2 H2 B2 mx my`: the framebuffer is replaced (and the old one freed)
# while the client's output thread sits in its deferUpdateTime sleep with a modification pending
THR_SCENARIOS = [
    "thr 16 8 4 0 8 4 4 12 6",     # shrink, client without resize support, modification outside the new area
    "thr 20 12 4 0 20 5 4 3 9",    # height only
    "thr 16 8 4 0 5 3 2 14 7",     # shrink + depth change
    "thr 16 8 1 0 5 3 4 14 7",     # 8 -> 32 bpp
    "thr 12 6 2 0 20 10 4 1 1",    # grow + depth
    "thr 16 8 4 1 8 4 4 12 6",     # NewFBSize client: size message first
    "thr 16 8 4 2 8 4 2 12 6",     # ExtendedDesktopSize client
    "thr 16 8 4 0 1 1 4 15 7",     # down to 1x1
]


def rect_in(rng, W, H, lo=1):
    x1 = rng.randint(0, W - lo)
    y1 = rng.randint(0, H - lo)
    return x1, y1, rng.randint(x1 + lo, W), rng.randint(y1 + lo, H)


class Gen:
    """generator-side bookkeeping of what the application / the clients know (not an oracle)"""

    def __init__(self, rng, nops, allow_scaled=True):
        self.rng, self.lines = rng, []
        r = rng
        self.W, self.H = r.choice(SIZES[:7])
        self.B = r.choice([1, 2, 3, 4, 4])
        self.nc = r.choice([1, 2, 2, 3])
        self.cl = {}
        self.hook = (0, 0)
        self.emit("screen %d %d %d" % (self.W, self.H, self.B))
        self.emit("cursor %d %d %d %d" % (r.randint(1, 5), r.randint(1, 5), r.randint(0, 2), r.randint(0, 2)))
        self.nscr, self.extfail, self.hookbroken = -1, -1, False
        if r.random() < 0.3:
            self.emit("dfhook 1")
        for c in range(self.nc):
            self.emit("client %d" % c)
            scaled = allow_scaled and r.random() < 0.25
            self.cl[c] = dict(sw=self.W, sh=self.H, scaled=False, know=(self.W, self.H), cs=1, cr=0, sz=0, gone=False, closed=False)
            self.setenc(c, scaled)
            if self.B == 3 or r.random() < 0.3:
                # RFB allows 8/16/32 bits per pixel only: a conforming client of a 24 bpp server picks its own format
                self.emit("setpf %d %d" % (c, r.choice([0, 1, 2, 4, 4])))
            if scaled:
                self.setscale(c, r.choice([2, 2, 3, 4]))
        for _ in range(nops):
            self.op()
            self.states()
        self.drain()

    def emit(self, l):
        self.lines.append(l)

    def states(self):
        for c in range(self.nc):
            self.emit("state %d" % c)

    def setenc(self, c, will_scale=False):
        r, d = self.rng, self.cl[c]
        scaledish = will_scale or d["scaled"]
        d["cr"] = 0 if scaledish else r.randint(0, 1)
        d["cs"] = 1 if (scaledish or r.random() < 0.65) else 0
        d["sz"] = r.choice([0, 1, 1, 2, 2, 3])
        self.emit("setenc %d %d %d %d" % (c, d["cr"], d["cs"], d["sz"]))

    def setscale(self, c, k):
        d = self.cl[c]
        if k >= 2 and (d["cr"] or not d["cs"]):
            self.emit("setenc %d 0 1 %d" % (c, d["sz"]))
            d["cr"], d["cs"] = 0, 1
        self.emit("setscale %d %d%s" % (c, k, " 0" if self.rng.random() < 0.3 else ""))
        tw, th = self.W // k, self.H // k
        if (tw, th) == (self.W, self.H):
            d.update(scaled=False, sw=tw, sh=th)
        elif tw and th:
            d.update(scaled=True, sw=tw, sh=th)
        d["know"] = (d["sw"], d["sh"])

    def resized(self, w, h, b):
        for d in self.cl.values():
            if d["scaled"]:
                d["sw"], d["sh"] = max(1, d["sw"] * w // self.W), max(1, d["sh"] * h // self.H)
            else:
                d["sw"], d["sh"] = w, h
        self.W, self.H, self.B = w, h, b

    def newfb(self):
        r = self.rng
        q = r.random()
        if q < 0.30:
            w, h = r.choice(SIZES)
        elif q < 0.55:   # shrink
            w, h = r.randint(1, self.W), r.randint(1, self.H)
        elif q < 0.80:   # grow
            w, h = r.randint(self.W, min(64, self.W + 20)), r.randint(self.H, min(48, self.H + 12))
        else:            # same size, other depth / other buffer only
            w, h = self.W, self.H
        b = self.B if r.random() < 0.5 else r.choice([1, 2, 3, 4])
        if r.random() < 0.35:
            # pointer at / just outside the edge of the area to come (unscaled client's coordinates)
            c = r.randrange(self.nc)
            if not self.cl[c]["scaled"]:
                self.emit("ptr %d %d %d" % (c, max(0, w + r.choice([-1, 0, 0, 1])), max(0, h + r.choice([-1, 0, 0, 1]))))
                self.states()
        self.emit("newfb %d %d %d %d" % (w, h, b, r.randint(1, 30000)))
        self.resized(w, h, b)

    def req(self, c, full=False, incr=None):
        r, d = self.rng, self.cl[c]
        if incr is None:
            incr = 1 if r.random() < 0.6 else 0
        q = 0.0 if full else r.random()
        kw, kh = d["know"] if r.random() < 0.5 else (d["sw"], d["sh"])   # what the client believes / the truth
        if q < 0.55:
            x, y, w, h = 0, 0, kw, kh
        elif q < 0.9:
            x1, y1, x2, y2 = rect_in(r, kw, kh)
            x, y, w, h = x1, y1, x2 - x1, y2 - y1
        else:
            x, y = r.choice([0, kw - 1, kw, kw + 1, 65535]), r.choice([0, kh - 1, kh, kh + 1])
            w, h = r.choice([0, 1, kw, kw + 3, 65535]), r.choice([0, 1, kh, kh + 3, 65535])
        self.emit("req %d %d %d %d %d %d" % (c, incr, x, y, w, h))

    def op(self):
        r = self.rng
        W, H = self.W, self.H
        q = r.random()
        c = r.randrange(self.nc)
        d = self.cl[c]
        if d["gone"]:
            # the viewer is gone: only the server side acts on this connection
            if d["closed"]:
                if r.random() < 0.5:
                    self.emit("reap %d" % c)
                return
            if r.random() < 0.25:
                # the emitters with a viewer that is gone (their flush, or the caller's, fails)
                kind = r.randint(0, 1)
                n = 1 if self.nscr < 0 else self.nscr
                lim = 32768 - (12 + 4 + 16 * n if kind else 12)
                self.emit("emit %d %d %d" % (c, kind, max(0, r.choice([4, lim, lim + 1, 32768]))))
                d["closed"] = True
                return
            self.emit("update %d" % c)
            if r.random() < 0.5:
                self.emit("reap %d" % c)       # bad-op while the server has not noticed
            return
        if q > 0.985 and self.nc > 1 and sum(1 for x in self.cl.values() if not x["gone"]) > 1:
            # teardown: the viewer disappears (plainly, or in the middle of a SetDesktopSize)
            if r.random() < 0.6:
                self.emit("close %d" % c)
            else:
                ns = r.choice([0, 1, 3, 255])
                self.emit("sdstrunc %d %d %d%s" % (c, r.choice([0, 1, 7] + ([8, 9, 8 + 16 * ns - 1] if ns else [])), ns,
                                                    " 1" if r.random() < 0.4 else ""))
                d["closed"] = True
            d["gone"] = True
            if r.random() < 0.6:
                self.newfb()                    # a replacement right after
            return
        if q > 0.965:
            k = r.random()
            if k < 0.45:
                self.nscr = r.choice([-1, 0, 1, 2, 3, 255, 255, 2047])
                self.emit("nscr %d" % self.nscr)
                # (a failing hook together with a count that needs the flush, >= 2047, would leave a bare
                # FramebufferUpdate header on the wire: application misconfiguration twice over, not generated)
                if self.extfail >= 0 and (self.nscr <= self.extfail or self.nscr > 255):
                    self.extfail = -1
                    self.emit("extfail -1")
            elif k < 0.55 and 1 <= self.nscr <= 255:
                self.extfail = r.choice([0, self.nscr - 1])
                self.hookbroken = True
                self.emit("extfail %d" % self.extfail)
            elif k < 0.6 and self.extfail >= 0:
                self.extfail = -1
                self.emit("extfail -1")
            else:
                kind = r.randint(0, 1)
                n = 1 if self.nscr < 0 else self.nscr
                need = 12 + 4 + 16 * n if kind else 12
                lim = 32768 - need
                self.emit("emit %d %d %d" % (c, kind, max(0, r.choice([4, lim - 1, lim, lim + 1, 32768, r.randint(0, 32768)]))))
            return
        if q < 0.14:
            if r.random() < 0.25:
                x1, x2 = r.randint(-6, W + 6), r.randint(-6, W + 6)
                y1, y2 = r.randint(-6, H + 6), r.randint(-6, H + 6)
            else:
                x1, y1, x2, y2 = rect_in(r, W, H)
            if r.random() < 0.85:
                self.emit("draw %d %d %d %d %d" % (x1, y1, x2, y2, r.randint(1, 30000)))
            else:
                self.emit("mark %d %d %d %d" % (x1, y1, x2, y2))
        elif q < 0.24:
            if any(x["scaled"] for x in self.cl.values()):
                return   # rfbDoCopyRegion does not refresh scaled versions (C17's subject): no copies while a client is scaled
            dx = r.choice([0, 1, -1, 2, -3, r.randint(-(W // 2), W // 2)])
            dy = r.choice([0, 1, -1, 2, -2, r.randint(-(H // 2), H // 2)])
            lox, hix = max(0, dx), min(W, W + dx)
            loy, hiy = max(0, dy), min(H, H + dy)
            if hix - lox < 1 or hiy - loy < 1:
                return
            rs = []
            for _k in range(r.choice([1, 1, 2])):
                x1 = r.randint(lox, hix - 1)
                y1 = r.randint(loy, hiy - 1)
                rs += [x1, y1, r.randint(x1 + 1, hix), r.randint(y1 + 1, hiy)]
            self.emit("copyrgn %d %d %s" % (dx, dy, " ".join(map(str, rs))))
        elif q < 0.42:
            self.req(c)
        elif q < 0.62:
            self.emit("update %d" % c)
            d["know"] = (d["sw"], d["sh"]) if d["sz"] else d["know"]
        elif q < 0.76:
            self.newfb()
        elif q < 0.83:
            x = r.choice([0, r.randint(0, max(0, d["sw"] - 1)), d["sw"] - 1, d["sw"], d["sw"] + 7, 65535])
            y = r.choice([0, r.randint(0, max(0, d["sh"] - 1)), d["sh"] - 1, d["sh"], d["sh"] + 7, 65535])
            self.emit("ptr %d %d %d" % (c, max(0, x), max(0, y)))
        elif q < 0.91:
            if r.random() < 0.5:
                self.hook = (r.choice([0, 1, 1, 2, 2]), r.choice([0, 0, 1, 2, 3, 3, 7]))
                self.emit("hook %d %d" % self.hook)
            w, h = r.choice(SIZES + [(0, 5), (65, 3), (40, 24)])
            ns = r.choice([0, 1, 1, 1, 2, 16, 255, r.randint(0, 255)])
            self.emit("sds %d %d %d %d" % (c, w, h, ns))
            if self.hook == (2, 0) and ns and 0 < w <= 64 and 0 < h <= 64:
                self.resized(w, h, self.B)
        elif q < 0.935:
            self.setenc(c)
        elif q < 0.95:
            self.emit("setpf %d %d" % (c, r.choice([0, 1, 2, 4])))
        else:
            self.setscale(c, r.choice([1, 2, 2, 3, 5, 200]))

    def drain(self):
        for c in range(self.nc):
            d = self.cl[c]
            if d["gone"]:
                self.emit("update %d" % c)
                self.emit("reap %d" % c)
                continue
            for _ in range(3):
                self.emit("req %d 0 0 0 %d %d" % (c, d["sw"], d["sh"]))
                self.emit("update %d" % c)
                self.emit("update %d" % c)
            self.emit("state %d" % c)


def gen_script(rng, nops, allow_scaled=True):
    g = Gen(rng, nops, allow_scaled)
    return "\n".join(g.lines) + "\n"


def meta_of(script):
    """facts about a script (also for corpus / replay files): is any client scaled when a framebuffer
    replacement happens; does a SetDesktopSize succeed (hook code 0, >= 1 screen)"""
    scaled, hook, m = set(), (0, 0), dict(scaled_at_newfb=False, sds_success=False, nclients=0, newfbs=0, sds=0)
    for l in script.splitlines():
        t = l.split()
        if not t:
            continue
        if t[0] == "client":
            m["nclients"] += 1
        elif t[0] == "setscale":
            if int(t[2]) >= 2:
                scaled.add(t[1])
            else:
                scaled.discard(t[1])
        elif t[0] == "hook":
            hook = (int(t[1]), int(t[2]))
        elif t[0] == "newfb":
            m["newfbs"] += 1
            if scaled:
                m["scaled_at_newfb"] = True
        elif t[0] == "sds":
            m["sds"] += 1
            if hook[0] and hook[1] == 0 and int(t[4]) > 0:
                m["sds_success"] = True
                if hook[0] == 2 and scaled:
                    m["scaled_at_newfb"] = True
    return m


def split_oracle(lines):
    plain, orc = [], []
    for l in lines:
        (orc if l.startswith("!") else plain).append(l)
    return plain, orc


KV = re.compile(r"(\w+)=(\S+)")


def parse_state(ob):
    d = dict(KV.findall(ob))
    return d


def parse_msgs(ob):
    """'size 8 4 | fbu cs=0 copies=[] raws=[...]' -> list of dicts"""
    out = []
    if ob == "none":
        return out
    for part in ob.split(" | "):
        t = part.split()
        if t[0] == "size":
            out.append(dict(k="size", w=int(t[1]), h=int(t[2])))
        elif t[0] == "rsz":
            out.append(dict(k="rsz", w=int(t[1]), h=int(t[2])))
        elif t[0] == "cmap":
            out.append(dict(k="cmap", first=int(t[1]), n=int(t[2])))
        elif t[0] == "ext":
            out.append(dict(k="ext", r=int(t[1][2:]), s=int(t[2][2:]), w=int(t[3]), h=int(t[4]), screens=t[5]))
        elif t[0] == "fbu":
            kv = dict(p.split("=", 1) for p in t[1:])
            out.append(dict(k="fbu", pixels=(kv["raws"] != "[]" or kv["copies"] != "[]"), raws=kv["raws"], copies=kv["copies"]))
        else:
            out.append(dict(k="?", raw=part))
    return out


def py_oracle(script, plain, orc):
    """model-independent checks in the property's own words, on the implementation's observations"""
    for l in orc:
        if "FAIL" in l or l.startswith("!wire"):
            return l
    ops = [l for l in script.splitlines() if l.strip() and not l.startswith("#")]
    if len(ops) != len(plain):
        return "observation count %d != ops %d" % (len(plain), len(ops))
    hook = (0, 0)
    cap = {}            # client -> sz of the last SetEncodings
    need_size = {}      # client -> True: framebuffer replaced, resize-capable, size message outstanding
    answer = {}         # client -> (status) its own SetDesktopSize not yet answered
    other_ok = {}       # client -> another client's request succeeded since this client's last ext message
    size = None         # (W, H) the application installed
    last_state = {}
    final = {}
    nscr, extfail, hookbroken = -1, -1, False   # the application's screen-layout hooks
    gone = set()
    fresh = {}          # client -> its last state line was printed after the last operation (so it is current)
    rescaled = {}       # client -> SetScale accepted, announcement by size message outstanding
    owed = {}           # client -> refusal code of its own SetDesktopSize, sent while it used ExtendedDesktopSize and
                        #           not yet answered (dropped on anything that legitimately consumes / redirects it)
    for op, ob in zip(ops, plain):
        t = op.split()
        k = t[0]
        if k != "state":
            was_fresh, fresh = fresh, {}
        if ob == "bad-op":
            continue
        if k == "screen":
            size = (int(t[1]), int(t[2]))
        elif k == "setenc":
            cap[t[1]] = int(t[4])
            owed.pop(t[1], None)
            if not int(t[4]):
                need_size.pop(t[1], None)
                rescaled.pop(t[1], None)
        elif k == "hook":
            hook = (int(t[1]), int(t[2]))
        elif k == "nscr":
            nscr = int(t[1])
        elif k == "extfail":
            extfail = int(t[1])
            if extfail >= 0:
                hookbroken = True      # the application's own hook fails: size messages may be dropped from here on
        elif k in ("close", "sdstrunc"):
            gone.add(t[1])
            final.pop(t[1], None)
            need_size.pop(t[1], None)
            if k == "sdstrunc" and ob != "closed":
                return "client %s survived a truncated SetDesktopSize: %s" % (t[1], ob)
        elif k == "emit":
            owed.pop(t[1], None)
            if ob.endswith("closed"):
                final.pop(t[1], None)
            if int(t[2]):
                answer.pop(t[1], None)
                other_ok.pop(t[1], None)
        elif k == "reap":
            final.pop(t[1], None)
        elif k == "newfb":
            size = (int(t[1]), int(t[2]))
            for c, sz in cap.items():
                if sz:
                    need_size[c] = True
        elif k == "sds":
            c, w, h, ns = t[1], int(t[2]), int(t[3]), int(t[4])
            if ns > 0:
                code = hook[1] if hook[0] else None      # None: library default = refusal
                answer[c] = code
                if code != 0 and cap.get(c, 0) & 2:
                    owed[c] = code
                else:
                    owed.pop(c, None)
                if code == 0:
                    for o in cap:
                        if o != c:
                            other_ok[o] = True
                    if hook[0] == 2 and 0 < w <= 64 and 0 < h <= 64:
                        size = (w, h)
                        for o, sz in cap.items():
                            if sz:
                                need_size[o] = True
        elif k in ("update", "setscale", "setpf"):
            c = t[1]
            if ob == "closed":
                if c not in gone:
                    return "client %s was closed by the server although its viewer is alive" % c
                final.pop(c, None)
                continue
            if hookbroken and k == "update":
                need_size.pop(c, None)
                answer.pop(c, None)
                other_ok.pop(c, None)
                rescaled.pop(c, None)
                owed.pop(c, None)
            if k == "update" and c not in gone and not hookbroken and was_fresh.get(c):
                # liveness, on an IDLE screen too: with an update request outstanding (the implementation's own
                # requestedRegion, dumped right before this update) a refused SetDesktopSize of an
                # ExtendedDesktopSize client is answered NOW, and an accepted SetScale / pending size change
                # is announced NOW to a client with resize support - no pixel change is needed for that
                st0 = last_state.get(c, {})
                outstanding = st0.get("R", "[]") != "[]"
                kinds = [m["k"] for m in parse_msgs(ob)]
                if outstanding and c in owed and cap.get(c, 0) & 2 and "ext" not in kinds:
                    return ("client %s: its refused SetDesktopSize (status %s) is not answered although an update request is outstanding: update gave %r"
                            % (c, "refusal by default" if owed[c] is None else owed[c], ob))
                if outstanding and rescaled.get(c) and cap.get(c, 0) and not ("size" in kinds or "ext" in kinds):
                    return "client %s: its accepted SetScale is not announced although an update request is outstanding: update gave %r" % (c, ob)
                if outstanding and need_size.get(c) and not ("size" in kinds or "ext" in kinds):
                    return "client %s: the new framebuffer size is not announced although an update request is outstanding: update gave %r" % (c, ob)
            if k == "setscale":
                owed.pop(c, None)      # (for a client without resize support SetScale consumes the pending flag)
                # accepted = the scaled geometry the implementation reports afterwards differs, or the viewer got no
                # ResizeFrameBuffer although it has resize support (then the size message is owed)
                if cap.get(c, 0) and "rsz" not in [m["k"] for m in parse_msgs(ob)] and ob != "closed":
                    rescaled[c] = "?"      # confirmed by the pending flag in the next state line
            for m in parse_msgs(ob):
                if m["k"] == "?":
                    return "undecodable message summary %r" % m["raw"]
                if c in gone:
                    return "client %s received %s after its viewer had gone" % (c, m["k"])
                if m["k"] == "ext" and not hookbroken:
                    want_n = 1 if nscr < 0 else nscr
                    sc = m["screens"].strip("[]")
                    got_n = int(sc.split(";")[0][2:]) if sc.startswith("n=") else (len(sc.split(";")) if sc else 0)
                    if got_n != want_n:
                        return "client %s: ExtendedDesktopSize lists %d screens, the application reports %d" % (c, got_n, want_n)
                if m["k"] == "fbu" and m["pixels"] and need_size.get(c):
                    return "client %s announced resize support but received pixel data before the size message: %s" % (c, ob)
                if m["k"] in ("size", "ext"):
                    need_size.pop(c, None)
                    rescaled.pop(c, None)
                    owed.pop(c, None)
                if m["k"] == "size" and cap.get(c, 0) & 2:
                    return "client %s uses ExtendedDesktopSize but was sent a plain NewFBSize" % c
                if m["k"] == "ext" and hookbroken:
                    # the application's screen hook failed at some point: size messages (and with them
                    # reason / status) may have been dropped by the library, the bookkeeping check is off
                    answer.pop(c, None)
                    other_ok.pop(c, None)
                elif m["k"] == "ext":
                    if c in answer:
                        want = answer.pop(c)
                        if want is None:
                            if m["s"] == 0:
                                return "client %s: SetDesktopSize without an application hook answered with success" % c
                        elif m["s"] != want:
                            return "client %s: SetDesktopSize answered with status %d, the application returned %d" % (c, m["s"], want)
                        if m["r"] != 1 and not (m["r"] == 2 and other_ok.get(c)):
                            return "client %s: answer to its own SetDesktopSize carries reason %d" % (c, m["r"])
                    elif other_ok.get(c):
                        if (m["r"], m["s"]) != (2, 0):
                            return "client %s: size change requested by another client announced with reason %d status %d" % (c, m["r"], m["s"])
                    elif (m["r"], m["s"]) != (0, 0):
                        return "client %s: ExtendedDesktopSize with stale reason %d / status %d (nothing was requested)" % (c, m["r"], m["s"])
                    other_ok.pop(c, None)
        elif k == "state":
            d = parse_state(ob)
            sc = tuple(int(v) for v in d["scr"].split(","))
            if size and (sc[0], sc[1]) != size:
                return "screen is %dx%d but the application installed %dx%d" % (sc[0], sc[1], size[0], size[1])
            last_state[t[1]] = d
            fresh[t[1]] = True
            if rescaled.get(t[1]) == "?":
                # a refused scale factor (reduces a dimension to 0) raises nothing: only an accepted one is owed
                if d.get("p") == "1":
                    rescaled[t[1]] = True
                else:
                    rescaled.pop(t[1], None)
            if t[1] not in gone:
                final[t[1]] = ob
    # after the final full requests every client must be idle (and `!inv` said its picture is the framebuffer)
    for c, ob in final.items():
        if not ob.startswith("M=[] C=[] "):
            return "client %s is not idle after the final full requests: %s" % (c, ob[:80])
    seen_idle = set()
    for l in orc:
        m = re.match(r"!inv (\d+) ok idle=1", l)
        if m:
            seen_idle.add(m.group(1))
    for c in final:
        if c not in seen_idle:
            return "client %s never reached a verified converged state" % c
    return None


def run(ctx):
    # one script takes 0.05-0.5 s; the limit is generous for a machine at load 100, a hang is a result (rc 124)
    TMO = 90 if ctx.tier == "quick" else 300
    h = ctx.harness("c16")
    d = ctx.driver("drv_c16")
    fails, samples = [], []
    dist = {"ops": {}, "newfb_kinds": {"grow": 0, "shrink": 0, "depth": 0, "same": 0, "mixed": 0},
            "clients_scaled_at_newfb": 0, "size_msgs": 0, "ext_msgs": 0, "ext_answers_nonzero": 0,
            "ext_reason_other": 0, "rsz_msgs": 0, "fbu": 0, "idle_checks": 0, "sds_screens": {}}
    scripts = []
    for f in sorted(glob.glob(os.path.join(common.VERIF, "corpus", "C16", "*.ops"))):
        scripts.append((open(f).read(), os.path.basename(f)))
    if ctx.replay:
        rec = json.load(open(ctx.replay))
        scripts = [("\n".join(rec.get("script", [])) + "\n", "replay")]
    else:
        n = 1200 if ctx.tier == "quick" else 50000
        if os.environ.get("VERIF_C16_N"):        # private runs (mutant triage): fewer generated scripts
            n = int(os.environ["VERIF_C16_N"])
        for i in range(n):
            scripts.append((gen_script(ctx.rng, ctx.rng.choice([6, 12, 25, 45]), allow_scaled=(i % 3 != 0)), None))

    def one(sc):
        script, name = sc
        meta = meta_of(script)
        rc, impl, err = ctx.run_lines(h, script, timeout=TMO)
        f = None
        if rc != 0:
            f = {"kind": "crash", "what": "resize: harness exit %d" % rc, "script": script.splitlines(),
                 "impl": impl[-12:], "detail": err[-2500:]}
            return impl, [], [f]
        out = []
        plain, orc = split_oracle(impl)
        o = py_oracle(script, plain, orc)
        if o:
            f = {"kind": "oracle", "what": "C16 resize oracle", "detail": o, "script": script.splitlines(),
                 "impl": impl[-40:]}
        model = []
        if ctx.driver_ok:
            rc2, model, err2 = ctx.run_lines(d, script, timeout=TMO)
            i = common.first_diff(plain, model)
            if f is None and (rc2 != 0 or i is not None):
                ops = [l for l in script.splitlines() if l.strip() and not l.startswith("#")]
                f = {"kind": "exact", "what": "resize.model (state / messages differ)", "line": i,
                     "op": ops[i] if i is not None and i < len(ops) else None,
                     "script": script.splitlines(),
                     "impl": plain[max(0, (i or 0) - 1):(i or 0) + 2], "model": model[max(0, (i or 0) - 1):(i or 0) + 2]}
        if f:
            out.append(f)
        return impl, model, out

    # in chunks, corpus first: a change that makes the code crash or hang on most inputs is reported
    # after the first chunk instead of after thousands of (timed-out) runs
    results = []
    nbad = 0
    bounds = [0, min(70, len(scripts))] + list(range(70 + 400, len(scripts), 400)) + [len(scripts)]
    for a, b in zip(bounds, bounds[1:]):
        if b <= a:
            continue
        part = common.pmap(one, scripts[a:b])
        results += part
        nbad += sum(1 for (_i, _m, fl) in part for f in fl if f["kind"] in ("crash", "oracle"))
        if nbad >= 8:
            break
    scripts = scripts[:len(results)]
    # --- threaded variant: replacement INSIDE the output thread's deferral (harness/c16_thr.c); direct oracle only
    thr_runs = []
    if not ctx.replay or True:
        ht = ctx.harness("c16_thr")
        thr_sc = THR_SCENARIOS if not ctx.replay else []
        if ctx.replay:
            thr_sc = [l for l in json.load(open(ctx.replay)).get("script", []) if l.startswith("thr ")]

        def one_thr(sc):
            rc, out, err = ctx.run_lines(ht, sc + "\n", timeout=TMO + 60)
            bad = [l for l in out if l.startswith("!")]
            f = None
            if rc != 0:
                f = {"kind": "crash", "what": "threaded resize: harness exit %d" % rc, "script": [sc],
                     "impl": out[-6:], "detail": err[-2500:]}
            elif bad:
                f = {"kind": "oracle", "what": "C16 threaded resize oracle", "detail": bad[0], "script": [sc], "impl": out}
            elif not any(l.startswith("thr msgs=") for l in out):
                f = {"kind": "oracle", "what": "C16 threaded resize oracle", "detail": "no result line", "script": [sc], "impl": out}
            return out, f
        for sc, (out, f) in zip(thr_sc, common.pmap(one_thr, thr_sc, workers=4)):
            thr_runs.append({"scenario": sc, "out": out[-1] if out else ""})
            if f:
                fails.append(f)
    dist["threaded_scenarios"] = len(thr_runs)
    seen = set()
    for (script, name), (impl, model, fl) in zip(scripts, results):
        for f in fl:
            if name:
                f["corpus"] = name
            fails.append(f)
        meta = meta_of(script)
        prev = None
        for l in script.splitlines():
            t = l.split()
            if not t or t[0].startswith("#"):
                continue
            dist["ops"][t[0]] = dist["ops"].get(t[0], 0) + 1
            if t[0] in ("screen",):
                prev = (int(t[1]), int(t[2]), int(t[3]))
            elif t[0] == "newfb" and prev:
                w, hh, b = int(t[1]), int(t[2]), int(t[3])
                g = (w > prev[0] or hh > prev[1]); s = (w < prev[0] or hh < prev[1]); dd = b != prev[2]
                kind = "mixed" if (g and s) else "grow" if g else "shrink" if s else "depth" if dd else "same"
                dist["newfb_kinds"][kind] += 1
                if dd and kind != "depth":
                    dist["newfb_kinds"]["depth"] += 1
                prev = (w, hh, b)
            elif t[0] == "sds":
                ns = int(t[4])
                kk = "0" if ns == 0 else "1" if ns == 1 else "255" if ns == 255 else "2..254"
                dist["sds_screens"][kk] = dist["sds_screens"].get(kk, 0) + 1
        if meta["scaled_at_newfb"]:
            dist["clients_scaled_at_newfb"] += 1
        nt = 0
        for l in impl:
            if l.startswith("!inv") and "idle=1" in l:
                dist["idle_checks"] += 1
            if l.startswith("!"):
                continue
            if l == "closed":
                dist["closed_by_failed_write_or_read"] = dist.get("closed_by_failed_write_or_read", 0) + 1
            elif l.startswith("emit "):
                dist["emit_calls"] = dist.get("emit_calls", 0) + 1
            for m in (parse_msgs(l) if (l.startswith(("size", "ext", "rsz", "fbu", "cmap"))) else []):
                if m["k"] == "size":
                    dist["size_msgs"] += 1; nt += 1
                elif m["k"] == "ext":
                    dist["ext_msgs"] += 1; nt += 1
                    if m["s"]:
                        dist["ext_answers_nonzero"] += 1
                    if m["r"] == 2:
                        dist["ext_reason_other"] += 1
                elif m["k"] == "rsz":
                    dist["rsz_msgs"] += 1
                elif m["k"] == "cmap":
                    dist["cmap_msgs"] = dist.get("cmap_msgs", 0) + 1
                elif m["k"] == "fbu":
                    dist["fbu"] += 1
        if nt >= 1 and meta["newfbs"] + meta["sds"] >= 1:
            seen.add(script)
        if len(samples) < 2 and not name:
            samples.append({"script": script.splitlines()[:70], "impl": impl[:70]})
    return {
        "evaluations": len(scripts) + len(thr_runs), "distinct_nontrivial": len(seen),
        "rule": "random histories over 1..3 clients (NewFBSize / ExtendedDesktopSize / both / neither, soft or X cursor, CopyRect, own true-colour pixel format 8/16/32 bpp or 8-bit colour map, scaled by 2..5) of draw/mark, multi-rectangle copies, incremental / non-incremental requests in old and new geometry (incl. out of range), updates, pointer events inside / outside the area, framebuffer replacements (grow / shrink / 1x1 / depth 8/16/24/32 / same size) with the old buffer freed at once, viewers that disappear (before their next update, or inside a truncated SetDesktopSize) and are reaped, application screen-layout hooks reporting 0..2047 screens or failing, the size-message emitters at every update-buffer boundary, SetDesktopSize with 0..255 screens and hook absent / returning 0..7 / resizing synchronously; non-trivial = distinct script with >= 1 replacement or SetDesktopSize in which a client received >= 1 size message",
        "samples": samples + thr_runs[:2], "distribution": dist, "failures": fails[:8],
        "partial": ["threads: rfbNewFramebuffer's locking (sendMutex of every client, cursorMutex) is not modelled; the harness is single-threaded (C13 covers the lock discipline)",
                    "encodings other than Raw / CopyRect: region arithmetic and the size short-circuit precede encoding; per-encoding pixel exactness is C01",
                    "clients that keep a 24 bpp pixel format (not allowed by RFB; known C10 item) are not generated; colour-map clients are (BGR233 palette)",
                    "the contents of a scaled version are checked against a reference box filter by the harness (!ss); the filter itself is C17's theorem",
                    "rich cursor source data must be converted by the caller after a depth change (documented API requirement); the harness does so"],
        "assumptions": ["the application frees the old buffer only after rfbNewFramebuffer returned and installs a buffer of w*h*bytesPerPixel bytes",
                        "the application converts the cursor's rich source after a depth change (API note at rfbNewFramebuffer)",
                        "copy sources lie inside the current framebuffer",
                        "the model follows the code with fixes/C16-newfb-scaled-screens.diff and fixes/C16-sds-iterator-leak.diff (both applied to /repo; witnesses in corpus/C16 replayed first on every run)"],
        "trusted_extra": ["lean/VncModel/Scale/Model.lean (C17) `corr` / `clipReq`: software model of the double arithmetic of rfbScaledCorrection, used only for scaled clients' rectangle geometry in the executable driver"],
    }


META = {
    "technique": "Lean 4: invariants proved by induction over all operation histories of an executable model of rfbNewFramebuffer / size short-circuit / ExtendedDesktopSize bookkeeping / SetDesktopSize (buffer and pixel-format tokens; region level on the C11/C02 models), tied by an exact differential run of every client's state and every message against the real server, with the old framebuffer freed immediately (ASan) and model-independent wire / picture oracles",
    "level_text": "Proof: Props/C16.lean proves for every history of the model: no access to a replaced buffer token (old_buffer_never_read), size message before pixel data and full-screen rescheduling for resize-capable clients (size_then_contents), all emitted rectangles inside the current size (rects_inside_new_size), installed translation = (current server format, client format) (translation_follows_depth), SetDesktopSize answer = hook code / refusal without hook (setdesktopsize_answer), geometry changes only by the application's call (no_spontaneous_resize). The model is compared exactly with the implementation's per-client state and wire messages after every operation on generated histories; independent oracles check the property's words on the implementation (ASan with freed old buffer, order, bounds, translated pixels, convergence).",
    "level_note": "Trusted: Lean kernel; harness / driver / generators (testing, distribution in evidence); C17's software double arithmetic for scaled rectangle geometry. Modelled: regions, flags, reason/status, cursor position clamp, format tokens, scaled geometry, buffer tokens. Not modelled: threads/locks (C13), encoders (C01), filter arithmetic (C17), colour maps.",
    "design_ref": "DESIGN.md section 7, C16; section 11-m",
}
