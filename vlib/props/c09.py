"""C09 — WebSocket transport is transparent and strict.

Proof: lean/VncModel/Props/C09.lean over the model lean/VncModel/Ws/*.lean (decoder state machine
with read oracle, codec, handshake).
Tie (every run):
  T0   tools/consts/c09.{c,py}: buffer sizes, header lengths, opcodes, state enum, encoder length
       thresholds, GUID, handshake templates  -> Gen/C09.lean (the theorems are re-checked against them)
  CC1  harness/c09.c drives the REAL webSocketsDecodeHybi through its read callback with scripted
       schedules; Driver/C09.lean runs the same script through the model; every call's result,
       every read request (offset,size,outcome) and the complete decoder state are compared exactly.
       Same for webSocketsEncode, rfbWriteExact chunking, base64.c, hash_sha1, the upgrade handshake.
  CC2  end to end: one RFB client script over plain TCP and over WebSocket (real rfbNewClient /
       rfbProcessEvents over socketpairs, deterministic segmentation through interposed
       select/read): same callbacks, same server byte stream after de-framing.
Direct oracle: an independent RFC 6455 framer/parser below (no model involved).
"""
import base64, hashlib, json, os, struct
from .. import common

GEN = ["leaf"]
PROPS_MOD = "VncModel.Props.C09"
EXTRA_TARGETS = ["drv_c09"]
BUF = 2062
GUID = b"258EAFA5-E914-47DA-95CA-C5AB0DC85B11"


# ------------------------------------------------------------------ independent RFC 6455 codec
def mk_frame(opcode, payload, fin=1, mask=b"\0\0\0\0", masked=True, form=None, rsv=0):
    n = len(payload)
    if form is None:
        form = 0 if n < 126 else (1 if n < 65536 else 2)
    b0 = (fin << 7) | (rsv << 4) | opcode
    mb = 0x80 if masked else 0
    if form == 0:
        h = bytes([b0, mb | n])
    elif form == 1:
        h = bytes([b0, mb | 126]) + struct.pack(">H", n)
    else:
        h = bytes([b0, mb | 127]) + struct.pack(">Q", n)
    if masked:
        h += mask
        payload = bytes(b ^ mask[i & 3] for i, b in enumerate(payload))
    return h + payload


def parse_client_wire(wire):
    """-> list of dict(b0, fin, op, masked, form, n, mask, payload(unmasked, possibly short), complete)"""
    out, i = [], 0
    while i < len(wire):
        if len(wire) - i < 2:
            out.append({"partial_header": True}); break
        b0, b1 = wire[i], wire[i + 1]
        l7 = b1 & 0x7f
        form = 0 if l7 < 126 else (1 if l7 == 126 else 2)
        hl = 2 + (0, 2, 8)[form]
        masked = bool(b1 & 0x80)
        fr = {"b0": b0, "fin": b0 >> 7, "op": b0 & 15, "masked": masked, "form": form}
        if not masked:
            fr["n"] = None; out.append(fr); break          # decoder must stop here
        if len(wire) - i < hl + 4:
            fr["partial_header"] = True; out.append(fr); break
        n = l7 if form == 0 else int.from_bytes(wire[i + 2:i + hl], "big")
        mask = wire[i + hl:i + hl + 4]
        body = wire[i + hl + 4:i + hl + 4 + n]
        fr.update(n=n, mask=mask, payload=bytes(b ^ mask[k & 3] for k, b in enumerate(body)),
                  complete=len(body) == n)
        out.append(fr)
        i += hl + 4 + n
    return out


def expected_stream(frames):
    """what the RFB layer must see: (bytes delivered by complete valid frames, bytes available of a
    trailing incomplete data frame, kind of end: None | 'proto' | 'close' | 'trunc', is_text_tail)"""
    out, cont = b"", None
    for fr in frames:
        if fr.get("partial_header") and "op" not in fr:
            return out, b"", "trunc", False
        op, fin = fr["op"], fr["fin"]
        if 3 <= op <= 7 or op >= 0x0b:
            return out, b"", "proto", False                  # reserved opcode (RFC 6455 5.2)
        if op & 8 and not fin:
            return out, b"", "proto", False                  # fragmented control frame
        if not (op & 8) and op == 0 and cont is None:
            return out, b"", "proto", False                  # continuation without start
        if op & 8 and fr["form"] >= 1:
            return out, b"", "proto", False                  # control frame > 125 bytes (RFC 6455 5.5)
        if not fr["masked"]:
            return out, b"", "proto", False
        if fr.get("partial_header"):
            return out, b"", "trunc", False
        n, form = fr["n"], fr["form"]
        if (form >= 1 and n < 126) or (form == 2 and n < 65536):
            return out, b"", "proto", False                  # non-minimal length
        if op & 8:
            eff = op
        elif op == 0:
            eff = cont
        else:
            eff = op
            cont = None if fin else op
        if not (op & 8) and op == 0 and fin:
            cont = None                                      # final fragment: the message is over
        if not fr["complete"]:
            if eff == 2:
                return out, fr["payload"], "trunc", False
            if eff == 1:
                return out, fr["payload"], "trunc", True
            return out, b"", "trunc", False
        if eff == 8:
            return out, b"", "close", False
        if eff == 2:
            out += fr["payload"]
        elif eff == 1:
            out += base64.b64decode(fr["payload"], validate=True)
    return out, b"", None, False


def parse_server_wire(wire):
    """server-to-client stream -> [(opcode, payload)]; raises ValueError when not a sequence of
    complete, unmasked, final, minimally encoded frames"""
    out, i = [], 0
    while i < len(wire):
        if len(wire) - i < 2:
            raise ValueError("truncated header at %d" % i)
        b0, b1 = wire[i], wire[i + 1]
        if b1 & 0x80:
            raise ValueError("masked server frame at %d" % i)
        if not b0 & 0x80 or b0 & 0x70:
            raise ValueError("FIN clear or RSV set at %d" % i)
        l7 = b1 & 0x7f
        if l7 < 126:
            n, hl = l7, 2
        elif l7 == 126:
            if len(wire) - i < 4: raise ValueError("truncated")
            n, hl = int.from_bytes(wire[i + 2:i + 4], "big"), 4
            if n < 126: raise ValueError("non-minimal 16-bit length %d at %d" % (n, i))
        else:
            if len(wire) - i < 10: raise ValueError("truncated")
            n, hl = int.from_bytes(wire[i + 2:i + 10], "big"), 10
            if n < 65536: raise ValueError("non-minimal 64-bit length %d at %d" % (n, i))
        if len(wire) - i - hl < n:
            raise ValueError("truncated payload at %d (need %d)" % (i, n))
        out.append((b0 & 15, wire[i + hl:i + hl + n]))
        i += hl + n
    return out


def deframe_server(wire, b64):
    data = b""
    for op, p in parse_server_wire(wire):
        if op != (1 if b64 else 2):
            raise ValueError("opcode %d in %s mode" % (op, "base64" if b64 else "binary"))
        data += base64.b64decode(p, validate=True) if b64 else p
    return data


# ------------------------------------------------------------------ decoder cases
LENS_B = [0, 1, 2, 3, 4, 5, 7, 8, 124, 125, 126, 127, 128, 200, 2040, 2044, 2047, 2048, 2049, 2053, 2054,
          2055, 2056, 2060, 2061, 2062, 2063, 4094, 4096, 4111, 6000]
LENS_BIG = [65535, 65536, 65537, 70001]


def rnd_bytes(rng, n):
    return rng.getrandbits(8 * n).to_bytes(n, "little") if n else b""


def rnd_mask(rng):
    r = rng.random()
    if r < 0.15: return b"\0\0\0\0"
    if r < 0.25: return b"\xff\xff\xff\xff"
    if r < 0.35: return bytes([0, 0, 0, rng.randrange(256)])
    return rnd_bytes(rng, 4)


def rnd_sched(rng, style=None):
    style = style or rng.choice(["all", "ones", "small", "mixed", "mixedE", "fixed", "fixedE"])
    if style == "all":
        return []
    if style == "ones":
        return ["1", "*"]
    if style == "fixed":
        return [str(rng.choice([2, 3, 4, 5, 6, 7, 8, 13, 100, 1000, 2047, 2048, 2055])), "*"]
    if style == "fixedE":
        return [str(rng.choice([1, 2, 3, 4, 5, 7])), "E", "*"] if rng.random() < .5 else ["E", str(rng.choice([1, 2, 3, 5, 9, 500])), "*"]
    n = rng.randrange(3, 40)
    pool = ["1", "1", "2", "3", "4", "5", "6", "7", "8", "9", "14", "100", "2047", "2048", "2049", "2055", "5000"]
    if style == "small":
        pool = ["1", "2", "3", "4", "5"]
    toks = [rng.choice(pool) for _ in range(n)]
    if style == "mixedE":
        for _ in range(rng.randrange(1, 6)):
            toks.insert(rng.randrange(len(toks) + 1), "E")
    if rng.random() < 0.6:
        toks.append("*")
    return toks


def rnd_lens(rng):
    return [str(rng.choice([1, 1, 2, 3, 4, 5, 8, 12, 100, 1000, 2048, 2055, 4096, 100000]))
            for _ in range(rng.randrange(1, 5))]


def case_script(wire, sched, lens, maxcalls):
    ls = ["new", "frames " + (wire.hex() or "-")]
    if sched:
        ls.append("sched " + " ".join(sched))
    ls.append("drain %d %s" % (maxcalls, " ".join(lens)))
    return ls


def budget(wire, sched, lens):
    """enough decode calls to finish: every call either consumes input, hands out data or burns
    one schedule token"""
    minlen = min(int(x) for x in lens)
    per_read = 1
    if sched:
        nums = [int(t) for t in sched if t.isdigit()]
        per_read = min(nums) if nums else 1
    es = sum(1 for t in sched if t == "E")
    frac = (len(sched) / max(1, len(sched) - es - (1 if "*" in sched else 0))) if sched else 1
    calls = (len(wire) // max(1, min(per_read, 2047)) + len(wire) // max(1, minlen)) * frac + 64 + 2 * len(sched)
    return int(min(calls, 400000))


def compositions(n, maxparts=None):
    """all ordered ways to write n as a sum of positive parts"""
    def rec(left, acc):
        if left == 0:
            yield list(acc); return
        if maxparts and len(acc) >= maxparts:
            return
        for k in range(1, left + 1):
            acc.append(k); yield from rec(left - k, acc); acc.pop()
    yield from rec(n, [])


def header_split_cases(rng, tier):
    """EXHAUSTIVE: every way of splitting each header form over successive reads, with EAGAIN
    nowhere / once at every position / between all reads; payload short (truncated for the
    16/64-bit forms where only the header matters, plus complete frames)."""
    cases = []
    forms = [("short", mk_frame(2, b"hello", mask=b"\x11\x22\x33\x44"), 6),
             ("short0", mk_frame(2, b"", mask=b"\x01\x02\x03\x04") + mk_frame(2, b"x", mask=b"\x05\x06\x07\x08"), 6),
             ("ext", mk_frame(2, bytes(range(130)), mask=b"\xa1\xb2\xc3\xd4"), 8),
             ("exttxt", mk_frame(1, base64.b64encode(bytes(range(96))), mask=b"\x0a\x0b\x0c\x0d"), 8),
             ("long", mk_frame(2, bytes(i & 255 for i in range(65536)), mask=b"\xde\xad\xbe\xef")[:14 + 40], 14)]
    for name, wire, hl in forms:
        maxparts = None
        if hl == 14 and tier == "quick":
            maxparts = 4
        comps = list(compositions(hl, maxparts))
        if hl == 14 and tier == "quick":
            comps += [[1] * 14] + [rng.choice(list(compositions(14, 9))) for _ in range(0)]
            for _ in range(300):       # random deeper compositions
                left, c = 14, []
                while left:
                    k = rng.randrange(1, min(left, 6) + 1); c.append(k); left -= k
                comps.append(c)
        for comp in comps:
            toks = [str(k) for k in comp]
            variants = [toks, [t for k in toks for t in (k, "E")]]
            for pos in range(len(toks) + 1):
                variants.append(toks[:pos] + ["E"] + toks[pos:])
            if hl == 14:
                variants = variants[:2] + ([variants[2 + rng.randrange(len(toks) + 1)]] if tier == "quick" else variants[2:])
            for v in variants:
                cases.append({"kind": "hsplit-" + name, "wire": wire, "sched": v, "lens": ["100000"],
                              "max": 80})
    return cases


def mk_message(rng, text, total, nfrag, ctl_prob):
    """one data message of `total` payload bytes in `nfrag` fragments (+ interleaved control frames)"""
    data = rnd_bytes(rng, total)
    cuts = sorted(rng.randrange(0, total + 1) for _ in range(nfrag - 1))
    parts = [data[a:b] for a, b in zip([0] + cuts, cuts + [total])]
    frames = []
    for i, p in enumerate(parts):
        op = (1 if text else 2) if i == 0 else 0
        fin = 1 if i == len(parts) - 1 else 0
        pl = base64.b64encode(p) if text else p
        frames.append(mk_frame(op, pl, fin=fin, mask=rnd_mask(rng)))
        if rng.random() < ctl_prob:
            frames.append(mk_frame(rng.choice([9, 10]), rnd_bytes(rng, rng.choice([0, 1, 3, 4, 5, 17, 125])),
                                   mask=rnd_mask(rng)))
    return frames


def valid_cases(rng, n, big):
    cases = []
    for _ in range(n):
        text = rng.random() < 0.4
        frames = []
        if rng.random() < 0.15:
            frames.append(mk_frame(rng.choice([9, 10]), rnd_bytes(rng, rng.choice([0, 2, 125])), mask=rnd_mask(rng)))
        nmsg = rng.choice([1, 1, 1, 2, 3])
        for _m in range(nmsg):
            if big and _m == 0:
                total = rng.choice(LENS_BIG)
                if text: total = total * 3 // 4 - rng.randrange(0, 3)
            else:
                total = rng.choice(LENS_B) if rng.random() < 0.7 else rng.randrange(0, 300)
                if text and rng.random() < 0.5:
                    total = max(0, rng.choice([93, 94, 95, 1533, 1536, 1539, 1545, 3072]) + rng.randrange(-2, 3))
            nfrag = rng.choice([1, 1, 1, 2, 3, 4])
            frames += mk_message(rng, text, total, nfrag, 0.25)
        wire = b"".join(frames)
        sched = rnd_sched(rng, "all" if big and rng.random() < 0.3 else (rng.choice(["fixed", "mixed", "mixedE"]) if big else None))
        if big and sched[:1] == ["1"]:
            sched = ["1000", "*"]
        lens = rnd_lens(rng)
        if big:
            lens = [str(max(int(x), 512)) for x in lens]
        cases.append({"kind": "valid-big" if big else "valid", "wire": wire, "sched": sched, "lens": lens})
    return cases


def huge_cases():
    """deterministic, every run: single frames around and above 1 MiB of payload (64-bit length form)
    between two small frames -- every frame length is legal for a data frame (RFC 6455 5.2), and an RFB
    client may put a maximum-size ClientCutText (8 + 2^20 bytes) into one frame"""
    cases = []
    for i, (n, text) in enumerate([(2 ** 20 - 1, False), (2 ** 20, False), (2 ** 20 + 1, False), (2 ** 20 + 8, False),
                                   (2 ** 20 + 9, False), (2 ** 21 + 5, False), (786432 + 6, True), (2 ** 20 + 8, True)]):
        data = hashlib.sha256(b"huge-%d" % i).digest() * (n // 32 + 1)
        data = data[:n]
        op = 1 if text else 2
        enc = (lambda x: base64.b64encode(x)) if text else (lambda x: x)
        wire = (mk_frame(op, enc(b"before"), mask=b"\x01\x02\x03\x04") +
                mk_frame(op, enc(data), mask=bytes([0x5a, i, 0xc3, 0x0f])) +
                mk_frame(op, enc(b"after"), mask=b"\x00\x00\x00\x00"))
        sched = [[], ["2055", "*"], ["1448", "*"], ["65536", "*"]][i % 4]
        cases.append({"kind": "valid-huge", "wire": wire, "sched": sched, "lens": ["1048584" if i % 2 else "100000"]})
    return cases


def strict_cases(rng, n):
    cases = []
    for _ in range(n):
        pre = []
        if rng.random() < 0.6:
            pre = mk_message(rng, False, rng.choice([0, 1, 5, 130, 2100]), rng.choice([1, 2]), 0.2)
        kind = rng.choice(["unmasked", "nonmin16", "nonmin64", "nonmin64b", "fragctl", "contnostart", "close",
                           "closereason", "closemid", "unmasked-ext", "reserved", "bigctl", "bigctl"])
        if kind == "unmasked":
            bad = mk_frame(rng.choice([1, 2, 9]), rnd_bytes(rng, rng.choice([0, 5, 100])), masked=False)
        elif kind == "unmasked-ext":
            bad = mk_frame(2, rnd_bytes(rng, 300), masked=False)
        elif kind == "reserved":
            bad = mk_frame(rng.choice([3, 4, 5, 6, 7, 11, 12, 13, 14, 15]), rnd_bytes(rng, rng.choice([0, 3, 10, 200, 2100, 3000])),
                           fin=rng.choice([0, 1]), mask=rnd_mask(rng))
        elif kind == "bigctl":
            n = rng.choice([126, 127, 300, 2040, 2047, 2048, 2049, 2100, 3000, 65536])
            bad = mk_frame(rng.choice([8, 9, 10]), rnd_bytes(rng, n), mask=rnd_mask(rng),
                           form=2 if (n >= 65536 or rng.random() < 0.2) else 1)
        elif kind == "nonmin16":
            bad = mk_frame(2, rnd_bytes(rng, rng.choice([0, 1, 125])), form=1, mask=rnd_mask(rng))
        elif kind == "nonmin64":
            bad = mk_frame(2, rnd_bytes(rng, rng.choice([0, 125, 126, 4000])), form=2, mask=rnd_mask(rng))
        elif kind == "nonmin64b":
            bad = mk_frame(1, base64.b64encode(rnd_bytes(rng, 3000)), form=2, mask=rnd_mask(rng))[:14 + 4000]
            bad = mk_frame(2, rnd_bytes(rng, 65535), form=2, mask=rnd_mask(rng)) if rng.random() < 0.3 else bad
        elif kind == "fragctl":
            bad = mk_frame(rng.choice([8, 9, 10]), rnd_bytes(rng, rng.choice([0, 4, 9])), fin=0, mask=rnd_mask(rng))
        elif kind == "contnostart":
            bad = mk_frame(0, rnd_bytes(rng, rng.choice([0, 3, 50])), fin=rng.choice([0, 1]), mask=rnd_mask(rng))
        elif kind == "close":
            bad = mk_frame(8, b"", mask=rnd_mask(rng))
        elif kind == "closereason":
            bad = mk_frame(8, struct.pack(">H", 1003) + rnd_bytes(rng, rng.choice([0, 1, 20, 123])), mask=rnd_mask(rng))
        else:  # close in the middle of a fragmented message
            pre = pre + [mk_frame(2, rnd_bytes(rng, 9), fin=0, mask=rnd_mask(rng))]
            bad = mk_frame(8, struct.pack(">H", 1000), mask=rnd_mask(rng))
        post = mk_frame(2, b"AFTER-THE-END", mask=rnd_mask(rng))
        wire = b"".join(pre) + bad + post
        cases.append({"kind": "strict-" + kind, "wire": wire, "sched": rnd_sched(rng), "lens": rnd_lens(rng)})
    return cases


def fault_cases(rng, n):
    """end of stream / hard error at a random read; truncated input"""
    cases = []
    for _ in range(n):
        frames = mk_message(rng, rng.random() < 0.3, rng.choice([0, 5, 126, 300, 2100, 5000]), rng.choice([1, 2, 3]), 0.3)
        wire = b"".join(frames)
        sched = [t for t in rnd_sched(rng, rng.choice(["small", "mixed", "mixedE"])) if t != "*"]
        r = rng.random()
        if r < 0.7:
            sched.insert(rng.randrange(len(sched) + 1), rng.choice(["X", "F"]))
        else:
            wire = wire[:rng.randrange(0, len(wire) + 1)]
        cases.append({"kind": "fault", "wire": wire, "sched": sched, "lens": rnd_lens(rng)})
    return cases


def misc_cases(rng, n):
    """inputs on which the property's words say nothing precise (RSV bits, invalid base64, text
    fragmented inside a base64 quantum, absurd 64-bit lengths, random bytes): exact model comparison + memory
    safety of every read request only"""
    cases = []
    for _ in range(n):
        r = rng.random()
        if r < 0.35:
            wire = mk_frame(rng.choice([1, 2, 9]), rnd_bytes(rng, rng.choice([0, 4, 10])), rsv=rng.randrange(1, 8), mask=rnd_mask(rng)) \
                + mk_frame(2, b"tail", mask=rnd_mask(rng))
        elif r < 0.7:
            p = bytearray(base64.b64encode(rnd_bytes(rng, rng.choice([3, 30, 300, 3000]))))
            for _k in range(rng.randrange(1, 4)):
                p[rng.randrange(len(p))] = rng.choice([0, 10, 32, 61, 33, 200, 65])
            wire = mk_frame(1, bytes(p), mask=rnd_mask(rng)) + mk_frame(2, b"tail", mask=rnd_mask(rng))
        elif r < 0.8:
            # text message fragmented at a position that is not a multiple of four characters
            p = base64.b64encode(rnd_bytes(rng, 60)); k = rng.choice([1, 2, 3, 5, 6, 7, 41])
            wire = mk_frame(1, p[:k], fin=0, mask=rnd_mask(rng)) + mk_frame(0, p[k:], mask=rnd_mask(rng))
        elif r < 0.9:
            wire = mk_frame(2, b"", form=2, mask=rnd_mask(rng))[:2] + struct.pack(">Q", rng.choice([2 ** 63, 2 ** 64 - 1, 2 ** 32, 2 ** 31 - 1])) + rnd_bytes(rng, 4 + 3000)
        else:
            wire = rnd_bytes(rng, rng.randrange(1, 400))
        cases.append({"kind": "misc", "wire": wire, "sched": rnd_sched(rng), "lens": rnd_lens(rng)})
    return cases


# ------------------------------------------------------------------ records and the direct oracle
def parse_record(rec):
    d = {}
    for t in rec.split():
        if "=" in t:
            k, v = t.split("=", 1); d[k] = v
    reqs = []
    body = d.get("R", "[]")[1:-1]
    for r in body.split(",") if body else []:
        p = r.split(":")
        reqs.append((int(p[0]), int(p[1]), p[2:]))
    d["reqs"] = reqs
    return d


def oracle_case(case, line):
    """property oracle for one decoder case on the implementation's observation line.
    -> None or (what, finding_tag_or_None)"""
    if "CANARY" in line:
        return ("decoder wrote behind its %d-byte decode buffer (guard bytes after codeBufDecode changed)" % BUF, None)
    recs = [parse_record(r) for r in line.split(" ; ")] if line else []
    delivered = b""
    saw_E_inside, end = False, None
    for i, r in enumerate(recs):
        for off, n, out in r["reqs"]:
            if "BAD" in out or n <= 0 or off + n > BUF:
                tag = "ws-header-split" if off >= 6 else None
                return ("call %d: read request of %d bytes at offset %d of the %d-byte decode buffer" % (i, n, off, BUF), tag)
            if out == ["E"]:
                saw_E_inside = True
        if r.get("ret") == "UB":
            return ("model marker in implementation output", None)
        ret = int(r["ret"])
        if ret > 0:
            delivered += bytes.fromhex(r["d"])
        elif ret == 0:
            end = "closed"
        elif r["e"] != "EAGAIN":
            end = r["e"]
    if case["kind"] == "misc":
        return None
    tag = "ws-header-split" if saw_E_inside else None
    try:
        frames = parse_client_wire(case["wire"])
        exp, tail, kind, tail_text = expected_stream(frames)
    except Exception as ex:   # generator produced something the oracle cannot judge
        return ("oracle cannot evaluate the generated case: %r" % ex, None)
    has_fault = any(t in ("X", "F") for t in case["sched"])
    full = exp + (tail if not tail_text else b"")
    if not full.startswith(delivered) and not (tail_text and delivered.startswith(exp)):
        return ("delivered bytes are not a prefix of the payload stream: got %s.. expected %s.." %
                (delivered[:24].hex(), full[:24].hex()), tag)
    if tail_text and not delivered.startswith(exp[:len(delivered)]):
        return ("delivered bytes differ from the payload stream", tag)
    if has_fault:
        if end in ("EPROTO",) and kind != "proto":
            return ("protocol error reported on a valid stream", tag)
        if end not in (None, "closed", "EIO", "EPROTO", "ECONNRESET"):
            return ("failed transport read (EIO) reported to the caller with errno %s (errno not preserved across the error log)" % end, tag)
        return None
    last = recs[-1] if recs else None
    finished = last is not None and (end is not None or (last["ret"] == "-1" and last["e"] == "EAGAIN"))
    if kind in ("proto", "close"):
        want = "EPROTO" if kind == "proto" else "ECONNRESET"
        if end != want:
            return ("%s frame: connection not ended with %s (end=%r, delivered %d bytes)" %
                    (kind, want, end, len(delivered)), tag)
        if delivered != exp:
            return ("bytes delivered before the %s frame differ: %d vs %d expected" % (kind, len(delivered), len(exp)), tag)
        return None
    if end is not None:
        return ("valid stream ended with %s after %d of %d bytes" % (end, len(delivered), len(exp)), tag)
    if not finished:
        return ("run did not finish within its call budget (%d calls)" % len(recs), None)
    if kind is None and delivered != exp:
        return ("only %d of %d payload bytes delivered although all input was consumed" % (len(delivered), len(exp)), tag)
    if kind == "trunc":
        if len(delivered) < len(exp):
            return ("complete frames not delivered before a truncated one", tag)
        if not tail_text and len(delivered) < len(exp) + len(tail) - 3:
            return ("available payload of the incomplete frame withheld: %d of %d" % (len(delivered) - len(exp), len(tail)), tag)
    return None


# ------------------------------------------------------------------ function-level cases
def func_lines(rng, tier):
    ls = []
    sizes = [0, 1, 2, 3, 4, 5, 92, 93, 94, 95, 96, 124, 125, 126, 127, 128, 300, 32767, 32768, 32769, 40000]
    for n in sizes + [rng.randrange(0, 600) for _ in range(20)]:
        d = rnd_bytes(rng, n).hex() or "-"
        ls += ["enc 0 " + d, "enc 1 " + d]
    for n in list(range(0, 14)) + [rng.randrange(0, 400) for _ in range(30)]:
        ls.append("b64e " + (rnd_bytes(rng, n).hex() or "-"))
    for _ in range(120 if tier == "quick" else 600):
        n = rng.randrange(0, 40)
        s = bytearray(base64.b64encode(rnd_bytes(rng, n)))
        r = rng.random()
        if r < 0.5 and s:
            for _k in range(rng.randrange(1, 3)):
                pos = rng.randrange(len(s) + 1)
                s[pos:pos] = bytes([rng.choice([32, 10, 9, 13, 61, 0, 45, 95, 200, 65, 47, 43])])
        elif r < 0.6 and s:
            del s[rng.randrange(len(s))]
        ts = rng.choice([0, 1, 2, 3, n - 1 if n else 0, n, n + 1, n + 2, 100])
        ls.append("b64d %s %d" % (bytes(s).hex() or "-", max(0, ts)))
    for v in [b"", b"abc", b"abcdbcdecdefdefgefghfghighijhijkijkljklmklmnlmnomnopnopq",
              b"dGhlIHNhbXBsZSBub25jZQ==" + GUID] + [rnd_bytes(rng, n) for n in (54, 55, 56, 57, 63, 64, 65, 119, 120, 200)]:
        ls.append("sha1 " + (v.hex() or "-"))
    wx = [0, 1, 125, 126, 127, 32767, 32768, 32769, 65535, 65536, 65537, 98304, 98305]
    if tier != "quick":
        wx += [131072, 131073, 200000]
    for n in wx:
        for b in (0, 1):
            ls.append("wx %d %d %d" % (b, n, rng.randrange(1, 1 << 30)))
    return ls


def vh_bytes(seed, n):
    """splitmix64 stream of harness/common/vh.h (vh_srand + vh_rand & 0xff)"""
    M = (1 << 64) - 1
    st = (seed * 0x9E3779B97F4A7C15 + 1) & M
    out = bytearray()
    for _ in range(n):
        st = (st + 0x9E3779B97F4A7C15) & M
        z = st
        z = ((z ^ (z >> 30)) * 0xBF58476D1CE4E5B9) & M
        z = ((z ^ (z >> 27)) * 0x94D049BB133111EB) & M
        z ^= z >> 31
        out.append(z & 0xff)
    return bytes(out)


KNOWN_SHA1 = {b"abc": "a9993e364706816aba3e25717850c26c9cd0d89d",
              b"": "da39a3ee5e6b4b0d3255bfef95601890afd80709"}


def oracle_func(op, ob):
    """direct checks of function-level observations against Python's own base64/hashlib/parser"""
    t = op.split()
    if t[0] == "sha1":
        d = bytes.fromhex(t[1]) if t[1] != "-" else b""
        if ob != hashlib.sha1(d).hexdigest():
            return "hash_sha1 differs from SHA-1 of %d bytes" % len(d)
    elif t[0] == "b64e":
        d = bytes.fromhex(t[1]) if t[1] != "-" else b""
        r = ob.split()
        got = bytes.fromhex(r[1]) if r[1] != "-" else b""
        if got != base64.b64encode(d) or int(r[0]) != len(got):
            return "rfbBase64NtoP differs from RFC 4648 for %d bytes" % len(d)
    elif t[0] == "enc":
        d = bytes.fromhex(t[2]) if t[2] != "-" else b""
        r = ob.split()
        if len(d) > 32768:
            return None if r[0] == "-1" else "encoder accepted %d bytes (> UPDATE_BUF_SIZE)" % len(d)
        got = bytes.fromhex(r[1]) if r[1] != "-" else b""
        try:
            if deframe_server(got, t[1] == "1") != d:
                return "encoder output does not carry the input (%d bytes)" % len(d)
        except ValueError as ex:
            return "encoder output is not a valid unmasked frame sequence: %s" % ex
    elif t[0] == "wx":
        r = ob.split()
        if r[1] != "1":
            return "rfbWriteExact failed on a WebSocket connection for %s bytes" % t[2]
        got = bytes.fromhex(r[2]) if r[2] != "-" else b""
        n = int(t[2])
        try:
            data = deframe_server(got, t[1] == "1")
        except ValueError as ex:
            return "rfbWriteExact(%d) output is not a valid unmasked frame sequence: %s" % (n, ex)
        if len(data) != n:
            return "rfbWriteExact(%d): frames carry %d bytes" % (n, len(data))
        if data != vh_bytes(int(t[3]), n):
            return "rfbWriteExact(%d): frames do not carry the bytes written" % n
    elif t[0] == "hs":
        return oracle_hs(bytes.fromhex(t[1]), ob)
    return None


# ------------------------------------------------------------------ handshake cases
def mk_request(rng, valid=True):
    key = base64.b64encode(rnd_bytes(rng, 16)).decode()
    protos = rng.choice([None, "binary", "base64", "binary, base64", "base64, binary", "chat", "chat, binary",
                         "superbase64x", "BINARY", "binary, chat", "mqtt,binary,chat", "chat, base64, mqtt",
                         ", ".join(rng.sample(["binary", "chat", "mqtt", "soap", "base64", "wamp"], rng.randrange(1, 5)))])
    path = rng.choice(["/", "/websockify", "/a/b?token=xyz", "/" + "p" * rng.randrange(1, 200)])
    def cs(s):
        r = rng.random()
        return s if r < 0.5 else (s.lower() if r < 0.75 else s.upper())
    hdrs = [cs("Host") + ": example.org:5900", cs("Upgrade") + ": websocket", cs("Connection") + ": Upgrade",
            cs("Sec-WebSocket-Key") + ": " + key, cs("Sec-WebSocket-Version") + ": 13"]
    hdrs.append(rng.choice([cs("Origin") + ": http://example.org", cs("Sec-WebSocket-Origin") + ": http://o"]))
    if protos is not None:
        hdrs.append(cs("Sec-WebSocket-Protocol") + ": " + protos)
    if rng.random() < 0.4:
        hdrs.append("X-Extra: " + "v" * rng.randrange(0, 60))
    rng.shuffle(hdrs)
    defect = None
    if not valid:
        defect = rng.choice(["nokey", "noversion", "version0", "version256", "noorigin", "nohost", "post", "noblank"])
        if defect == "nokey": hdrs = [h for h in hdrs if not h.lower().startswith("sec-websocket-key")]
        if defect == "noversion": hdrs = [h for h in hdrs if not h.lower().startswith("sec-websocket-version")]
        if defect == "version0": hdrs = [h if not h.lower().startswith("sec-websocket-version") else h.split(":")[0] + ": 0" for h in hdrs]
        if defect == "version256": hdrs = [h if not h.lower().startswith("sec-websocket-version") else h.split(":")[0] + ": 256" for h in hdrs]
        if defect == "noorigin": hdrs = [h for h in hdrs if "origin" not in h.lower()]
        if defect == "nohost": hdrs = [h for h in hdrs if not h.lower().startswith("host")]
    first = ("POST " if defect == "post" else "GET ") + path + " HTTP/1.1"
    req = "\r\n".join([first] + hdrs) + "\r\n" + ("" if defect == "noblank" else "\r\n")
    return req.encode(), {"key": key, "protos": protos, "path": path, "defect": defect}


def mk_exotic_request(rng):
    """requests outside the well-formed class: compared exactly with the scanner model (and run
    under ASan): duplicates, folded lines, bare LF, empty values, NUL bytes, over-long lines and
    requests, Hixie key1/key2 leftovers, no empty line, early close"""
    key = base64.b64encode(rnd_bytes(rng, 16)).decode()
    hdrs = ["Host: example.org", "Origin: http://o", "Sec-WebSocket-Key: " + key, "Sec-WebSocket-Version: 13",
            "Sec-WebSocket-Protocol: " + rng.choice(["binary", "base64", "binary, base64", "x"])]
    first = ["GET /p HTTP/1.1"]
    eol = "\r\n"
    tail = "\r\n"
    closed = False
    k = rng.choice(["dup", "fold", "lf", "lfempty", "nul", "longline", "longreq", "longreq-keylate", "hixie", "hixie-short",
                    "noblank", "closed", "twoget", "shortget", "space", "version", "lfempty-last", "mixed"])
    if k == "dup":
        hdrs.insert(rng.randrange(len(hdrs) + 1), rng.choice(["Sec-WebSocket-Key: AAAAAAAAAAAAAAAAAAAAAA==", "Sec-WebSocket-Protocol: base64",
                                                               "Host: other", "Sec-WebSocket-Version: 0", "sec-websocket-origin: q"]))
    elif k == "fold":
        i = rng.randrange(len(hdrs)); hdrs[i] = hdrs[i] + "\r\n" + rng.choice([" ", "\t"]) + "folded, base64"
    elif k == "lf":
        eol = "\n"; tail = rng.choice(["\n", "\r\n"])
    elif k in ("lfempty", "lfempty-last"):
        name = rng.choice(["Sec-WebSocket-Key: ", "Sec-WebSocket-Protocol: ", "Host: ", "Origin: ", "Sec-WebSocket-Version: "])
        hdrs = [h for h in hdrs if not h.startswith(name.strip())]
        if k == "lfempty":
            hdrs.insert(rng.randrange(len(hdrs) + 1), name + "\n" + rng.choice(["X: y", "Sec-WebSocket-Key: " + key, "base64"]))
        else:
            hdrs.append(name[:-1] + " \n"[0:0] + "")
            hdrs[-1] = name
            tail = rng.choice(["", "\r\n"]); eol = "\r\n"
            return ("\r\n".join(first + hdrs[:-1]) + "\r\n" + name + "\n" + tail).encode("latin-1"), False
    elif k == "nul":
        i = rng.randrange(len(hdrs)); pos = rng.randrange(len(hdrs[i]) + 1); hdrs[i] = hdrs[i][:pos] + "\0" + hdrs[i][pos:]
    elif k == "longline":
        hdrs.insert(rng.randrange(len(hdrs) + 1), "X-Long: " + "a" * rng.choice([3000, 4070, 4090, 4100, 5000]))
    elif k == "longreq":
        for j in range(rng.choice([30, 40, 60])):
            hdrs.insert(rng.randrange(len(hdrs) + 1), "X-%d: %s" % (j, "b" * rng.randrange(60, 130)))
    elif k == "longreq-keylate":
        keyh = [h for h in hdrs if h.startswith("Sec-WebSocket-Key")]
        hdrs = [h for h in hdrs if not h.startswith("Sec-WebSocket-Key")]
        pad = rng.choice([3950, 3990, 4000, 4010, 4020, 4030, 4060])
        hdrs = hdrs + ["X-Pad: " + "c" * max(0, pad - sum(len(h) + 2 for h in hdrs) - 30)] + keyh
    elif k in ("hixie", "hixie-short"):
        hdrs += ["Sec-WebSocket-Key1: 1 2", "Sec-WebSocket-Key2: 3 4"]
        tail = "\r\n" + ("12345678rest" if k == "hixie" else "123")
    elif k == "noblank":
        tail = ""
    elif k == "closed":
        closed = True; tail = rng.choice(["", "\r\n"])
    elif k == "twoget":
        hdrs.insert(rng.randrange(len(hdrs) + 1), "GET /second/path?x=1 HTTP/1.1")
    elif k == "shortget":
        first = [rng.choice(["GET / HTTP/1.", "GET /", "GET  HTTP/1.1", "GET /abcdefghijk"])]
    elif k == "space":
        hdrs = [h.replace(": ", rng.choice([":", ":  ", " : "]), 1) if rng.random() < 0.5 else h for h in hdrs]
    elif k == "version":
        hdrs = [h if not h.startswith("Sec-WebSocket-Version") else "Sec-WebSocket-Version: " +
                rng.choice(["0", "256", "-256", "+13", " 13", "13abc", "abc", "", "99999999999999999999", "-99999999999999999999", "512", "257"]) for h in hdrs]
    else:
        rng.shuffle(hdrs); hdrs = [h.upper() if rng.random() < 0.3 else h for h in hdrs]
        eol = rng.choice(["\r\n", "\n"])
    rng.shuffle(hdrs) if k in ("dup", "nul", "version") else None
    return (eol.join(first + hdrs) + eol + tail).encode("latin-1"), closed


DET_OFFERS = [
    None, [""], ["binary"], ["base64"], ["binary, base64"], ["base64, binary"], ["binary,base64"], ["base64,binary"],
    ["binary, chat"], ["chat, binary"], ["binary,chat"], ["chat,binary"], ["mqtt, binary, chat"], ["chat,binary,mqtt"],
    ["mqtt , binary , chat"], [" binary"], ["binary "], ["chat ,binary"], ["binary,  chat"],
    ["base64, chat"], ["chat, base64"], ["base64,chat"], ["mqtt, base64, chat"], ["chat,base64,mqtt"],
    ["chat, binary, base64"], ["base64, chat, binary"], ["binary, mqtt, base64, chat"],
    ["chat"], ["chat, mqtt"], ["mqtt,chat"], ["BINARY"], ["Binary, chat"], ["chat, BASE64"], ["Base64"], ["binary, BASE64"],
    ["chat, v1.mqtt"], ["chat", "binary"], ["binary", "chat"], ["binary, chat", "mqtt"], ["mqtt", "binary, chat"],
    ["chat", "mqtt, binary, soap"], ["base64", "binary"], ["binary", "base64"], ["chat, mqtt", "soap"],
    # the words inside longer tokens: nothing of that is an offer of binary / base64
    ["superbase64x"], ["xbinary"], ["binaryx, chat"], ["chat, notbase64"], ["v.binary.k"], ["base64url, binary"],
    ["binary2,base64"], ["base64-binary"], ["chat,binary.v2 ,mqtt"], ["binary base64"], ["xbase64, ybinary"],
    ["binary;q=1"], ["base64\t,\tbinary"], ["\tbinary\t"], ["chat,,binary"], [","], ["binary,"], [",base64"],
]


def det_offer_requests():
    """deterministic upgrade requests, one per offer in DET_OFFERS (a list = one header line per
    element, None = no Sec-WebSocket-Protocol header), in two header orders / name spellings"""
    out = []
    for n, offer in enumerate(DET_OFFERS):
        key = base64.b64encode(hashlib.sha1(b"det-offer-%d" % n).digest()[:16]).decode()
        pl = [] if offer is None else [("Sec-WebSocket-Protocol" if n % 3 else "sec-websocket-protocol") + ": " + o for o in offer]
        hdrs = ["Host: example.org:5900", "Upgrade: websocket", "Connection: Upgrade", "Sec-WebSocket-Key: " + key,
                "Origin: http://example.org", "Sec-WebSocket-Version: 13"]
        if n % 2:
            hdrs = pl + hdrs
        else:
            hdrs = hdrs[:4] + pl + hdrs[4:]
        out.append(("\r\n".join(["GET /websockify HTTP/1.1"] + hdrs) + "\r\n\r\n").encode())
    return out


def det_classification_requests():
    """deterministic: (a) first bytes that are NOT `GET ` (nor `RFB `): not an upgrade request, the
    connection is refused (no 101, no WebSocket context); (b) complete valid upgrade requests after which the
    client half-closes its side: still answered with 101"""
    key = base64.b64encode(hashlib.sha1(b"classify").digest()[:16]).decode()
    tail = (" /websockify HTTP/1.1\r\nHost: example.org\r\nUpgrade: websocket\r\nConnection: Upgrade\r\nSec-WebSocket-Key: " + key +
            "\r\nOrigin: http://example.org\r\nSec-WebSocket-Protocol: binary\r\nSec-WebSocket-Version: 13\r\n\r\n")
    out = ["hs " + (first + tail).encode().hex() for first in ("GETX", "GET\t", "GETS", "GET/", "get ", "Get ", "GE T", "PUT ", "HEAD")]
    for proto in ("binary", "base64", "chat, binary"):
        out.append("hs " + ("GET" + tail.replace("Protocol: binary", "Protocol: " + proto)).encode().hex() + " closed")
    return out


def offer_tokens(value):
    return [t.strip(" \t") for t in value.split(",") if t.strip(" \t")]


def oracle_hs(req, ob):
    """RFC 6455 4.2.2 on a well-formed request, from the wire only (no model): status 101, header
    syntax, Sec-WebSocket-Accept = base64(sha1(key+GUID)), and the Sec-WebSocket-Protocol value of the
    answer, if present, is exactly ONE token of the client's comma-separated offer and is binary or
    base64; framing mode = answered sub-protocol"""
    text = req.decode("latin-1")
    lines = text.split("\r\n")
    hd, offers = {}, []
    for l in lines[1:]:
        if ": " in l:
            k, v = l.split(": ", 1); hd[k.lower()] = v
            if k.lower() == "sec-websocket-protocol":
                offers.append(v)
    if not text.startswith("GET "):
        if not ob.startswith("hs fail"):     # neither `RFB ` nor `GET `: webSocketsCheck refuses the connection
            return "first bytes %r are neither `RFB ` nor `GET `, yet the connection was accepted: %s" % (text[:4], ob[:80])
        return None
    ok_expected = (lines[0].startswith("GET ") and "sec-websocket-key" in hd and "host" in hd and
                   hd.get("sec-websocket-version") == "13" and ("origin" in hd or "sec-websocket-origin" in hd))
    if ob.startswith("hs fail"):
        return "valid upgrade request refused" if (ok_expected and text.endswith("\r\n\r\n")) else None
    if not ok_expected:
        # leniency towards incomplete requests is not what the property is about
        return None
    f = dict(x.split("=", 1) for x in ob.split()[2:])
    resp = bytes.fromhex(f["resp"]).decode("latin-1")
    acc = base64.b64encode(hashlib.sha1(hd["sec-websocket-key"].encode() + GUID).digest()).decode()
    if not resp.endswith("\r\n\r\n"):
        return "response not terminated by an empty line"
    rl = resp[:-4].split("\r\n")
    if not rl[0].startswith("HTTP/1.1 101 "):
        return "status line %r" % rl[0]
    rh = {}
    for l in rl[1:]:
        if ": " not in l or l != l.strip() or not l.split(": ", 1)[0].replace("-", "").isalnum():
            return "malformed response header line %r" % l
        k, v = l.split(": ", 1)
        if k.lower() in rh:
            return "response header %r repeated" % k
        rh[k.lower()] = v
    if rh.get("upgrade", "").lower() != "websocket" or rh.get("connection", "").lower() != "upgrade":
        return "Upgrade/Connection headers of the 101 answer: %r / %r" % (rh.get("upgrade"), rh.get("connection"))
    if rh.get("sec-websocket-accept") != acc:
        return "accept key %r, expected %r" % (rh.get("sec-websocket-accept"), acc)
    offered = [t for o in offers for t in offer_tokens(o)]
    got = rh.get("sec-websocket-protocol")
    if got is not None:
        if got not in ("binary", "base64"):
            return "sub-protocol %r answered: not a single sub-protocol this server speaks (offer %r)" % (got, offers)
        if got not in offered:
            return "sub-protocol %r answered, which is not one of the offered tokens %r" % (got, offered)
    if len(offers) <= 1:
        want = "base64" if "base64" in offered else ("binary" if "binary" in offered else None)
        if got != want:
            return "sub-protocol %r chosen, offered %r (expected %r)" % (got, offered, want)
    if (f["b64"] == "1") != (got == "base64"):
        return "base64 flag %s with sub-protocol %r" % (f["b64"], got)
    rest = bytes.fromhex(f["rest"]) if f["rest"] != "-" else b""
    try:
        if deframe_server(rest, f["b64"] == "1") != b"RFB 003.008\n":
            return "first frames after the handshake do not carry the protocol version"
    except ValueError as ex:
        return "bytes after the handshake are not valid frames: %s" % ex
    return None


# ------------------------------------------------------------------ end to end
def rfb_client_stream(rng):
    """client bytes after the 12-byte version string + expected callback log"""
    s = bytes([1]) + bytes([1])          # security type None, ClientInit shared
    ev = []
    s += bytes([2, 0]) + struct.pack(">H", 1) + struct.pack(">i", 0)     # SetEncodings raw
    for _ in range(rng.randrange(2, 30)):
        r = rng.random()
        if r < 0.4:
            down, key = rng.randrange(2), rng.choice([0x61, 0xff0d, 0x20ac, rng.randrange(1, 1 << 32)])
            s += struct.pack(">BBHI", 4, down, 0, key); ev.append("k%d:%d" % (down, key))
        elif r < 0.8:
            m, x, y = rng.randrange(256), rng.randrange(64), rng.randrange(48)
            s += struct.pack(">BBHH", 5, m, x, y); ev.append("p%d:%d:%d" % (m, x, y))
        else:
            n = rng.choice([0, 1, 5, 100, 126, 2048, 2100, 5000, 70000])
            t = bytes(0x20 + rng.randrange(95) for _ in range(n))
            s += struct.pack(">BBHI", 6, 0, 0, n) + t
            h = 1469598103934665603
            for b in t:
                h = ((h ^ b) * 1099511628211) & (2 ** 64 - 1)
            ev.append("c%d:%016x" % (n, h))
    s += struct.pack(">BBHHHH", 3, 0, 0, 0, 64, 48)                         # full update request
    return s, ev


def e2e_script(rng):
    stream, ev = rfb_client_stream(rng)
    b64 = rng.random() < 0.4
    req = ("GET /vnc HTTP/1.1\r\nHost: h\r\nOrigin: http://h\r\nSec-WebSocket-Key: %s\r\n"
           "Sec-WebSocket-Version: 13\r\nSec-WebSocket-Protocol: %s\r\n\r\n"
           % (base64.b64encode(rnd_bytes(rng, 16)).decode(), "base64" if b64 else "binary")).encode()
    full = b"RFB 003.008\n" + stream
    # frame the client stream: random message boundaries, fragmentation, interleaved ping/pong
    frames, i = [], 0
    while i < len(full):
        n = rng.choice([1, 2, 3, 7, 8, 20, 125, 126, 500, 2047, 2048, 2049, 3000, 66000])
        chunk = full[i:i + n]; i += n
        nfrag = rng.choice([1, 1, 2, 3])
        cuts = sorted(rng.randrange(0, len(chunk) + 1) for _ in range(nfrag - 1))
        parts = [chunk[a:b] for a, b in zip([0] + cuts, cuts + [len(chunk)])]
        last_chunk = i >= len(full)
        if last_chunk and not parts[-1]:
            parts = [chunk]        # the stream must not end in an empty frame (see LONE_CONTROL below)
        for k, p in enumerate(parts):
            op = (1 if b64 else 2) if k == 0 else 0
            frames.append(mk_frame(op, base64.b64encode(p) if b64 else p, fin=int(k == len(parts) - 1), mask=rnd_mask(rng)))
            if rng.random() < 0.15 and not (last_chunk and k == len(parts) - 1):
                frames.append(mk_frame(rng.choice([9, 10]), rnd_bytes(rng, rng.choice([0, 4, 125])), mask=rnd_mask(rng)))
    wire = b"".join(frames)
    segs, i = [], 0
    style = rng.choice(["one", "small", "mixed", "mixed"])
    while i < len(wire):
        n = len(wire) if style == "one" else (rng.randrange(1, 9) if style == "small" else
                                                rng.choice([1, 2, 3, 5, 6, 7, 8, 13, 14, 100, 1448, 4000, 70000]))
        segs.append(wire[i:i + n]); i += n
    if len(segs) > 3000:      # keep single-byte segmentation for short streams only
        segs = segs[:200] + [b"".join(segs[200:])]
    rs = rng.choice([None, "1 *", "2 *", "3 E *", "1 1 5 *", "6 2 1 *", "2047 *", "E 100 *"])
    ls = ["conn 0 tcp", "seg 0 " + stream.hex(), "pump 0", "scut 40000 7", "pump 0", "close 0",
          "conn 1 ws " + req.hex()]
    ls += ["seg 1 " + s.hex() for s in segs]
    if rs:
        ls.append("rs 1 " + rs)
    ls += ["pump 1", "scut 40000 7", "pump 1", "close 1"]
    return "\n".join(ls) + "\n", {"b64": b64, "ev": ev, "nseg": len(segs), "rs": rs, "nframes": len(frames),
                                   "stream_len": len(full)}


def ws_request(b64, tag):
    key = base64.b64encode(hashlib.sha1(tag).digest()[:16]).decode()
    return ("GET /vnc HTTP/1.1\r\nHost: h\r\nOrigin: http://h\r\nSec-WebSocket-Key: %s\r\n"
            "Sec-WebSocket-Version: 13\r\nSec-WebSocket-Protocol: %s\r\n\r\n" % (key, "base64" if b64 else "binary")).encode()


def fnv(t):
    h = 1469598103934665603
    for b in t:
        h = ((h ^ b) * 1099511628211) & (2 ** 64 - 1)
    return h


def e2e_bigcut_scripts():
    """deterministic, every run: a ClientCutText of the maximum size rfbserver.c accepts (2^20 bytes,
    message = 8 + 2^20 bytes) and its neighbours, the whole RFB message in ONE WebSocket frame"""
    out = []
    for i, (n, b64) in enumerate([(2 ** 20, False), (2 ** 20 - 7, False), (2 ** 20 - 8, False), (2 ** 20, True)]):
        t = (hashlib.sha256(b"cut-%d" % i).hexdigest().encode() * (n // 64 + 1))[:n]
        pre = bytes([1, 1]) + bytes([2, 0]) + struct.pack(">H", 1) + struct.pack(">i", 0)
        cut = struct.pack(">BBHI", 6, 0, 0, n) + t
        post = struct.pack(">BBHI", 4, 1, 0, 0x61) + struct.pack(">BBHHHH", 3, 0, 0, 0, 64, 48)
        stream = pre + cut + post
        ev = ["c%d:%016x" % (n, fnv(t)), "k1:97"]
        enc = (lambda x: base64.b64encode(x)) if b64 else (lambda x: x)
        op = 1 if b64 else 2
        frames = [mk_frame(op, enc(b"RFB 003.008\n"), mask=b"\1\2\3\4"), mk_frame(op, enc(pre), mask=b"\x11\x22\x33\x44"),
                  mk_frame(op, enc(cut), mask=bytes([0xa5, i, 0x3c, 0x99])), mk_frame(op, enc(post), mask=b"\0\0\0\0")]
        wire = b"".join(frames)
        segs = [wire[j:j + 60000] for j in range(0, len(wire), 60000)]
        tsegs = [stream[j:j + 60000] for j in range(0, len(stream), 60000)]
        ls = ["conn 0 tcp"] + ["seg 0 " + x.hex() for x in tsegs] + ["pump 0", "scut 40000 7", "pump 0", "close 0",
              "conn 1 ws " + ws_request(b64, b"bigcut-%d" % i).hex()]
        ls += ["seg 1 " + x.hex() for x in segs]
        ls += ["pump 1", "scut 40000 7", "pump 1", "close 1"]
        out.append(("\n".join(ls) + "\n", {"b64": b64, "ev": ev, "nseg": len(segs), "rs": None, "nframes": len(frames),
                                            "stream_len": len(stream) + 12, "det": "bigcut %d bytes in one %s frame" % (n, "text" if b64 else "binary")}))
    return out


def hostile_first_scripts():
    """deterministic, every run: a context created by the REAL upgrade handshake, and the first
    non-control frame of the connection is a CONTINUATION frame (RFC 6455 5.4: nothing to continue):
    the connection must end there and nothing the client sends may reach the RFB layer.  Control group:
    control frames first, then a proper data frame -- the session works."""
    conv = b"RFB 003.008\n" + bytes([1, 1]) + struct.pack(">BBHI", 4, 1, 0, 0x61) + struct.pack(">BBHI", 4, 0, 0, 0x61)
    out = []
    for b64 in (False, True):
        enc = (lambda x: base64.b64encode(x)) if b64 else (lambda x: x)
        op = 1 if b64 else 2
        ping, pong, ping125 = mk_frame(9, b"hi", mask=b"\5\6\7\x08"), mk_frame(10, b"", mask=b"\x09\x08\x07\x06"), mk_frame(9, bytes(range(125)), mask=b"\xff\0\xff\0")
        good = [mk_frame(op, enc(conv), mask=b"\x31\x41\x59\x26")]
        good2 = [mk_frame(op, enc(conv[:12]), mask=b"\1\2\3\4"), mk_frame(op, enc(conv[12:]), mask=b"\4\3\2\1")]
        variants = [
            ("cont-fin-first", [mk_frame(0, enc(conv[:12]), fin=1, mask=b"\x10\x20\x30\x40")], good, False),
            ("cont-empty-first", [mk_frame(0, b"", fin=1, mask=b"\1\1\1\1")], good, False),
            ("cont-nofin-first", [mk_frame(0, enc(conv[:12]), fin=0, mask=b"\7\7\7\7"), mk_frame(0, enc(conv[12:14]), fin=1, mask=b"\x08\x08\x08\x08")], good2, False),
            ("cont-whole-conversation", [mk_frame(0, enc(conv), fin=1, mask=b"\x0a\x0b\x0c\x0d")], good, False),
            ("ping-then-cont", [ping, mk_frame(0, enc(conv[:12]), fin=1, mask=b"\x10\x20\x30\x40")], good, False),
            ("pong-ping-then-cont", [pong, ping125, mk_frame(0, enc(conv[:12]), fin=0, mask=b"\x10\x20\x30\x40")], good2, False),
            ("ping-then-data", [ping], good, True),
            ("pong-ping-then-data", [pong, ping125], good2, True),
        ]
        for name, bad, rest, ok in variants:
            wire = b"".join(bad + rest)
            for segstyle in ("one", "frames"):
                segs = [wire] if segstyle == "one" else [b"".join(bad)] + [b"".join(rest)]
                ls = ["conn 1 ws " + ws_request(b64, b"hostile-" + name.encode()).hex()] + ["seg 1 " + x.hex() for x in segs] + ["pump 1", "close 1"]
                out.append(("\n".join(ls) + "\n", {"b64": b64, "name": name, "ok": ok, "seg": segstyle}))
    return out


def oracle_hostile(script, impl, meta):
    ops = script.splitlines()
    if len(impl) != len(ops):
        return "hostile-first: %d observations for %d ops" % (len(impl), len(ops))
    if not impl[0].startswith("conn ok") or ("ws=1 b64=%d" % int(meta["b64"])) not in impl[0]:
        return "hostile-first: WebSocket handshake result %r" % impl[0]
    pl = [l for l in impl if l.startswith("pump ")]
    f = dict(x.split("=", 1) for x in pl[0].split()[1:])
    raw = bytes.fromhex(f["out"]) if f["out"] != "-" else b""
    he = raw.find(b"\r\n\r\n")
    try:
        data = deframe_server(raw[he + 4:], meta["b64"]) if he >= 0 else None
    except ValueError as ex:
        return "hostile-first: server output is not a valid frame sequence: %s" % ex
    if meta["ok"]:
        if f["alive"] != "1" or f["ev"] != "k1:97,k0:97":
            return ("control frames before the first data frame (%s): session did not work (alive=%s, events %s)"
                    % (meta["name"], f["alive"], f["ev"]))
        return None
    if f["ev"] != "-":
        return ("CONTINUATION frame before any data frame (%s, on the context the real handshake created): bytes of the "
                "client reached the RFB layer afterwards (events %s)" % (meta["name"], f["ev"]))
    if f["alive"] != "0":
        return ("CONTINUATION frame before any data frame (%s, on the context the real handshake created): the connection "
                "was not ended (the frame was swallowed)" % meta["name"])
    if data is not None and data != b"RFB 003.008\n":
        return ("CONTINUATION frame before any data frame (%s): the server went on with the RFB handshake (%d bytes sent "
                "after its version string)" % (meta["name"], len(data) - 12))
    return None


THR_MARK = 0xfffe


def thr_cases(rng):
    """the same RFB conversation over plain TCP and over WebSocket, served by the THREADED loop, with
    frame boundaries chosen so that in every protocol state (version, security type, authentication,
    initialisation, normal) one frame carries the end of that state's message and what follows.
    Two conversations per authentication flavour: a short one (every frame fits the decode buffer;
    deterministic groupings, sent back to back and by an interactive client that lets the server
    catch up between frames) and a longer random one (random groupings)."""
    out = []
    for auth in (0, 1):
        for conv in ("short", "long"):
            msgs = [b"RFB 003.008\n", bytes([2 if auth else 1])]
            if auth:
                msgs.append(b"0123456789abcdef")
            msgs.append(bytes([1]))
            ev = []
            msgs.append(bytes([2, 0]) + struct.pack(">H", 1) + struct.pack(">i", 0))
            for j in range(5 if conv == "short" else 12):
                r = rng.random()
                if r < 0.4:
                    down, key = rng.randrange(2), rng.choice([0x61, 0xff0d, 0x20ac])
                    msgs.append(struct.pack(">BBHI", 4, down, 0, key)); ev.append("k%d:%d" % (down, key))
                elif r < 0.8:
                    m, x, y = rng.randrange(256), rng.randrange(64), rng.randrange(48)
                    msgs.append(struct.pack(">BBHH", 5, m, x, y)); ev.append("p%d:%d:%d" % (m, x, y))
                else:
                    n = rng.choice([0, 5, 40] if conv == "short" else [0, 5, 126, 2100, 5000])
                    t = bytes(0x20 + rng.randrange(95) for _ in range(n))
                    msgs.append(struct.pack(">BBHI", 6, 0, 0, n) + t); ev.append("c%d:%016x" % (n, fnv(t)))
            msgs.append(struct.pack(">BBHI", 4, 0, 0, THR_MARK)); ev.append("k0:%d" % THR_MARK)
            full = b"".join(msgs)
            offs = [0]
            for m in msgs:
                offs.append(offs[-1] + len(m))
            hs = 4 if auth else 3            # number of handshake-phase messages

            def at(idxs):                    # frame boundaries in front of the messages idxs
                cuts = sorted(set(offs[i] for i in idxs if 0 < i < len(msgs)))
                return [full[a:b] for a, b in zip([0] + cuts, cuts + [len(full)])]
            if conv == "short":
                groupings = [
                    ("all-in-one", [full]),                                   # last frame begins in state VERSION
                    ("version|rest", at([1])),                                # ... SECURITY_TYPE
                    ("version|sectype|rest", at([1, 2])),                     # ... AUTHENTICATION / INITIALISATION
                    ("handshake|rest", at([hs])),                             # ... NORMAL
                    ("per-message", at(range(1, len(msgs)))),
                    ("sectype+%sinit" % ("auth+" if auth else ""), at([1, hs])),
                    ("version+sectype", at([2])),
                    ("handshake-joint", at([hs] + list(range(hs + 2, len(msgs), 2)))),
                    ("init+messages", at([1, 2] + ([3] if auth else []) + [hs + 3])),
                    ("mid-message", [full[:5], full[5:offs[hs] + 3], full[offs[hs] + 3:]]),
                ]
                if auth:
                    groupings.append(("version|sectype|auth|rest", at([1, 2, 3])))
                    groupings.append(("auth+init", at([1, 2, 4])))
                    groupings.append(("sectype+auth", at([1, 3])))
                groupings = [(n, c, False) for n, c in groupings] + [(n + ", client waits for the answers", c, True) for n, c in groupings[1:]]
            else:
                groupings = [("all-in-one", [full], False), ("per-message", at(range(1, len(msgs))), False)]
                for _ in range(2):
                    groupings.append(("random-boundaries", at(sorted(rng.sample(range(1, len(msgs)), rng.randrange(1, 5)))), rng.random() < .5))
                cuts = sorted(rng.sample(range(1, len(full)), 3))
                groupings.append(("random-bytes", [full[a:b] for a, b in zip([0] + cuts, cuts + [len(full)])], False))
            tcp = "thr tcp %d %d 6000 %s %s" % (auth, THR_MARK, full[:12].hex(), full[12:].hex())
            for gi, (name, chunks, inter) in enumerate(groupings):
                b64 = (gi + auth) % 3 == 1
                enc = (lambda x: base64.b64encode(x)) if b64 else (lambda x: x)
                frames = [mk_frame(1 if b64 else 2, enc(c), mask=rnd_mask(rng)) for c in chunks if c]
                toks, pos = [], 0
                # answers (RFB bytes) the server owes once the handshake messages up to a boundary are in:
                # its version (12), security types (2), result (4) or challenge (16) + result (4), ServerInit (>= 24)
                owed = [12, 14, 18, 18 + 24] if not auth else [12, 14, 30, 34, 34 + 24]
                for c, f in zip([c for c in chunks if c], frames):
                    pos += len(c)
                    toks.append(f.hex())
                    if inter:
                        k = max(i for i in range(len(offs)) if offs[i] <= pos)       # messages complete so far
                        toks.append("R%d" % owed[min(k, hs)] if k >= 1 else "W")
                wsop = "thr ws %d %d 6000 %s %s" % (auth, THR_MARK, ws_request(b64, b"thr-%d-%d" % (auth, gi)).hex(), " ".join(toks))
                out.append({"tcp": tcp, "ws": wsop, "auth": auth, "b64": b64, "name": conv + " conversation, " + name, "ev": ev,
                            "frames": [len(c) for c in chunks if c]})
    return out


def thr_fields(ob):
    return dict(x.split("=", 1) for x in ob.split()[1:] if "=" in x)


def oracle_thr(case, ws_ob, tcp_ob):
    what = "threaded loop, %s, frames of %s RFB bytes (%s, %s)" % (case["name"], case["frames"], "VNC auth" if case["auth"] else "no auth",
                                                                  "base64" if case["b64"] else "binary")
    t, w = thr_fields(tcp_ob), thr_fields(ws_ob)
    want = ",".join(case["ev"])
    if t.get("conn") != "ok" or t.get("done") != "1" or t.get("ev") != want:
        return "%s: the reference run over plain TCP did not complete (%s)" % (what, tcp_ob[:200])
    if w.get("conn") != "ok" or w.get("ws") != "1" or w.get("b64") != str(int(case["b64"])):
        return "%s: WebSocket handshake result %r" % (what, ws_ob[:200])
    if w.get("noanswer", "0") != "0":
        return ("%s: over WebSocket the server did not answer the handshake messages up to frame %s within 3 s (%s RFB bytes sent; "
                "plain TCP: complete) -- RFB bytes of an already decoded frame were left in the decode buffer" % (what, w["noanswer"], w.get("got")))
    if w.get("done") != "1":
        got = w.get("ev", "-")
        return ("%s: over WebSocket the conversation %s after %d of %d events (plain TCP: complete) -- RFB bytes of an already "
                "decoded frame were left in the decode buffer" % (what, "was closed" if w.get("closed") == "1" else "stalled (6 s)",
                                                                0 if got == "-" else len(got.split(",")), len(case["ev"])))
    if w.get("ev") != want:
        return "%s: RFB layer saw different events over WebSocket than were sent" % what
    raw = bytes.fromhex(w["out"]) if w.get("out", "-") != "-" else b""
    he = raw.find(b"\r\n\r\n")
    if he < 0:
        return "%s: no handshake response" % what
    try:
        data = deframe_server(raw[he + 4:], case["b64"])
    except ValueError as ex:
        return "%s: server output is not a valid unmasked frame sequence: %s" % (what, ex)
    ref = bytes.fromhex(t["out"]) if t.get("out", "-") != "-" else b""
    if case["auth"]:            # the 16 challenge bytes are random per connection
        data, ref = data[:14] + data[30:], ref[:14] + ref[30:]
    if data != ref:
        return "%s: server stream over WebSocket (%d bytes) differs from plain TCP (%d bytes)" % (what, len(data), len(ref))
    return None


def peek_cases():
    """webSocketsCheck / rfbPeekExactTimeout when only 1-3 bytes of the greeting have arrived, for
    the stale errno values the call can inherit; with and without the rest arriving 30 ms later"""
    rfb = b"RFB 003.008\n"
    get = (b"GET / HTTP/1.1\r\nHost: h\r\nOrigin: o\r\nSec-WebSocket-Key: dGhlIHNhbXBsZSBub25jZQ==\r\n"
           b"Sec-WebSocket-Version: 13\r\nSec-WebSocket-Protocol: binary\r\n\r\n")
    out = []
    for full, ws in ((rfb, 0), (get, 1)):
        for k in (1, 2, 3):
            for en in ("0", "EAGAIN", "EINTR"):
                out.append(("peek %s %s - 0" % (full[:k].hex(), en), "ok", 0))
            out.append(("peek %s EAGAIN %s 30" % (full[:k].hex(), full[k:].hex()), "ok", ws))
    # first byte of a TLS / SSLv2 hello on a server without TLS credentials: refused, not handed to the
    # RFB layer as a plain client
    for hello in ("16030100", "16030300", "80460103"):
        out.append(("peek %s 0 - 0" % hello, "tls", 0))
    return out


def oracle_peek(op, ob, want_ws, kind="ok"):
    if kind == "tls":
        if "client=null" not in ob:
            return ("connection whose first byte is a TLS hello (0x16 / 0x80) on a server without TLS credentials was not "
                    "refused: %s" % ob)
        return None
    if "hung" in ob:
        return "rfbNewClient did not return within 1.5 s with 1-3 greeting bytes pending (busy loop in rfbPeekExactTimeout: no time-out while a partial message is readable)"
    if "client=ok" not in ob:
        return "connection dropped although the client had sent a proper prefix of its greeting (partial peek treated as a complete one)"
    if ("ws=%d" % want_ws) not in ob:
        return "transport misclassified: %s" % ob
    return None


LONE_CONTROL = "ws-lone-control-frame-timeout"


def lone_control_script(kind):
    """a session in which a control frame (or an empty data frame) is the last thing the client
    sends for longer than maxClientWait, then a key event"""
    req = (b"GET /vnc HTTP/1.1\r\nHost: h\r\nOrigin: http://h\r\nSec-WebSocket-Key: dGhlIHNhbXBsZSBub25jZQ==\r\n"
           b"Sec-WebSocket-Version: 13\r\nSec-WebSocket-Protocol: binary\r\n\r\n")
    stream = b"RFB 003.008\n" + bytes([1, 1]) + struct.pack(">BBHI", 4, 1, 0, 0x61)
    lone = {"ping": mk_frame(9, b"hi", mask=b"\5\6\7\x08"), "pong": mk_frame(10, b"", mask=b"\5\6\7\x08"),
            "empty": mk_frame(2, b"", mask=b"\5\6\7\x08")}[kind]
    key2 = mk_frame(2, struct.pack(">BBHI", 4, 0, 0, 0x61), mask=b"\1\2\3\4")
    return "\n".join(["conn 1 ws " + req.hex(), "seg 1 " + mk_frame(2, stream, mask=b"\1\2\3\4").hex(), "pump 1",
                      "seg 1 " + lone.hex(), "pump 1", "seg 1 " + key2.hex(), "pump 1", "close 1"]) + "\n"


def oracle_lone_control(impl):
    pumps = [dict(x.split("=", 1) for x in l.split()[1:]) for l in impl if l.startswith("pump ")]
    if len(pumps) != 3:
        return "missing observations"
    if pumps[0]["alive"] != "1" or pumps[0]["ev"] != "k1:97":
        return "session did not start"
    if pumps[1]["alive"] != "1":
        return "connection closed after a control/empty frame that was followed by %d ms of silence" % 100
    if pumps[2]["alive"] != "1" or pumps[2]["ev"] != "k0:97":
        return "key event after the control/empty frame not delivered"
    return None


def oracle_e2e(script, impl, meta):
    """meta = None (replay): the expectations are taken from the script itself (sub-protocol from the
    request, events from the plain TCP session)"""
    ops = script.splitlines()
    if len(impl) != len(ops):
        return "e2e: %d observations for %d ops" % (len(impl), len(ops))
    pumps = {0: [], 1: []}
    if meta is None:
        meta = {"b64": any(o.startswith("conn 1 ws") and b"Sec-WebSocket-Protocol: base64" in bytes.fromhex(o.split()[3])
                           for o in ops), "ev": None}
    for op, ob in zip(ops, impl):
        t = op.split()
        if t[0] == "conn":
            if not ob.startswith("conn ok"):
                return "e2e: %s -> %s" % (" ".join(t[:3]), ob)
            if t[2] == "ws" and ("ws=1 b64=%d" % int(meta["b64"])) not in ob:
                return "e2e: WebSocket handshake result %r" % ob
        elif t[0] == "pump":
            f = dict(x.split("=", 1) for x in ob.split()[1:])
            pumps[int(t[1])].append(f)
    for k in (0, 1):
        if len(pumps[k]) != 2:
            return "e2e: missing pump observations"
    want_ev = (",".join(meta["ev"]) or "-") if meta["ev"] is not None else pumps[0][0]["ev"]
    for k, name in ((0, "TCP"), (1, "WebSocket")):
        f = pumps[k][0]
        if f["alive"] != "1" or f["left"] != "0":
            return "e2e: %s session ended early (alive=%s, %s input bytes unsent)" % (name, f["alive"], f["left"])
        if f["ev"] != want_ev:
            return "e2e: %s session: RFB layer saw different events than were sent" % name
    tcp_out = [bytes.fromhex(p["out"]) if p["out"] != "-" else b"" for p in pumps[0]]
    ws_raw = [bytes.fromhex(p["out"]) if p["out"] != "-" else b"" for p in pumps[1]]
    he = ws_raw[0].find(b"\r\n\r\n")
    if he < 0:
        return "e2e: no handshake response"
    ws_raw[0] = ws_raw[0][he + 4:]
    for i in (0, 1):
        try:
            data = deframe_server(ws_raw[i], meta["b64"])
        except ValueError as ex:
            return "e2e: server output is not a valid unmasked frame sequence: %s" % ex
        if data != tcp_out[i]:
            return "e2e: server stream over WebSocket (%d bytes) differs from plain TCP (%d bytes)" % (len(data), len(tcp_out[i]))
    return None


# ------------------------------------------------------------------ driver of the check
def batch(cases, size):
    return [cases[i:i + size] for i in range(0, len(cases), size)]


def load_corpus():
    d = os.path.join(common.VERIF, "corpus", "C09")
    out = []
    if os.path.isdir(d):
        for f in sorted(os.listdir(d)):
            if f.endswith(".json"):
                rec = json.load(open(os.path.join(d, f)))
                for c in rec["cases"]:
                    out.append({"kind": c.get("kind", "corpus"), "wire": bytes.fromhex(c["wire"]),
                                "sched": c["sched"], "lens": c["lens"], "max": c.get("max"), "corpus": f})
    return out


def load_corpus_ops():
    """corpus/C09/*.ops with function-level witnesses: `hs ...` lines (compared with the model, run
    under ASan) and `peek ...` lines"""
    d = os.path.join(common.VERIF, "corpus", "C09")
    hs, pk, wf = [], [], set()
    if os.path.isdir(d):
        for f in sorted(os.listdir(d)):
            if f.endswith(".ops"):
                text = open(os.path.join(d, f)).read()
                for l in text.splitlines():
                    if l.startswith("hs "):
                        hs.append(l)
                        if "# well-formed request" in text:
                            wf.add(l)       # the wire oracle applies as well
                    elif l.startswith("peek "):
                        pk.append((l, "ok", 0))
    return hs, pk, wf


def run(ctx):
    h = ctx.harness("c09")
    d = ctx.driver("drv_c09")
    rng = ctx.rng
    quick = ctx.tier == "quick"
    fails, samples = [], []
    n_exact = [0]

    def add_exact(f):
        n_exact[0] += 1
        if n_exact[0] <= 4:
            fails.append(f)

    def n_counter():
        return sum(1 for f in fails if f["kind"] in ("oracle", "crash"))
    dist = {"kinds": {}, "payload_len_class": {}, "sched_style": {}, "ends": {}, "states_seen": {},
            "read_requests": 0, "decode_calls": 0, "eagain_reads": 0, "e2e": {}, "func_ops": {}}
    evals, nontrivial = 0, set()

    if ctx.replay:
        rec = json.load(open(ctx.replay))
        lines = rec.get("script", [])
        script = "\n".join(lines) + "\n"
        if any(l.startswith("peek ") for l in lines):
            rc, impl, err = ctx.run_lines(h, script, timeout=120)
            tls = lines[0].split()[1][:2] in ("16", "80")
            o = ("harness exit %d" % rc) if rc != 0 else oracle_peek(lines[0], impl[0] if impl else "", 0, "tls" if tls else "ok")
            if o:
                fails.append({"kind": "oracle", "what": "C09 connection-time peek oracle (replay)", "detail": o,
                              "script": lines, "impl": impl[:2]})
            return {"evaluations": 1, "failures": fails, "samples": [{"script": lines[:3], "impl": impl[:3]}]}
        if any(l.startswith("thr ") for l in lines):
            obs = []
            for l in lines[:2]:
                rc, impl, err = ctx.run_lines(h, l + "\n", timeout=120)
                obs.append(impl[0] if (rc == 0 and impl) else "thr harness-exit=%d" % rc)
            o = oracle_thr(rec["thr_case"], obs[1], obs[0]) if len(obs) == 2 else "bad replay record"
            if o:
                fails.append({"kind": "oracle", "what": "C09 threaded-loop transparency oracle (replay)", "detail": o,
                              "script": lines, "impl": [x[:600] for x in obs], "thr_case": rec["thr_case"]})
            return {"evaluations": 1, "failures": fails, "samples": [{"script": [l[:200] for l in lines]}]}
        if rec.get("hostile_meta"):
            rc, impl, err = ctx.run_lines(h, script, timeout=120)
            o = ("harness exit %d" % rc) if rc != 0 else oracle_hostile(script, impl, rec["hostile_meta"])
            if o:
                fails.append({"kind": "oracle", "what": "C09 first-frame strictness oracle (real handshake) (replay)", "detail": o,
                              "script": lines, "impl": [x[:400] for x in impl], "hostile_meta": rec["hostile_meta"]})
            return {"evaluations": 1, "failures": fails, "samples": [{"script": [l[:200] for l in lines]}]}
        if any(l.startswith("conn ") for l in lines):          # end-to-end script: harness + oracle only
            rc, impl, err = ctx.run_lines(h, script, timeout=900)
            if rc != 0:
                fails.append({"kind": "crash", "what": "ws.e2e replay: harness exit %d" % rc, "script": lines, "detail": err})
            else:
                two = any(l.startswith("conn 0 tcp") for l in lines)
                o = oracle_e2e(script, impl, None) if two else oracle_lone_control(impl)
                if o:
                    fails.append({"kind": "oracle", "what": "C09 end-to-end oracle (replay)", "detail": o,
                                  "script": lines, "impl": [x[:400] for x in impl],
                                  "finding": None if two else LONE_CONTROL})
            return {"evaluations": 1, "failures": fails, "samples": [{"script": [l[:200] for l in lines[:10]]}]}
        impl, model, f = common.compare_streams(ctx, script, h, d, "ws.replay")
        if f:
            fails.append(f)
        # re-run the direct oracles on what the script contains
        cur = {}
        for op, ob in zip(lines, impl):
            t = op.split()
            if t[0] == "new":
                cur = {"wire": b"", "sched": [], "lens": [], "kind": rec.get("case_kind", "replay")}
            elif t[0] == "frames":
                cur["wire"] = cur.get("wire", b"") + (bytes.fromhex(t[1]) if t[1] != "-" else b"")
            elif t[0] == "sched":
                cur["sched"] = cur.get("sched", []) + t[1:]
            elif t[0] == "drain":
                cur["lens"] = t[2:]
                cur.setdefault("kind", "replay"); cur.setdefault("wire", b""); cur.setdefault("sched", [])
                o = oracle_case(cur, ob)
                if o:
                    fails.append({"kind": "oracle", "what": "C09 decoder oracle (replay)", "detail": o[0],
                                  "script": lines, "impl": [ob[:3000]], "finding": o[1]})
            elif t[0] == "peek":
                o = oracle_peek(op, ob, 0)
                if o:
                    fails.append({"kind": "oracle", "what": "C09 connection-time peek oracle (replay)", "detail": o,
                                  "script": [op], "impl": [ob]})
            elif t[0] in ("enc", "b64e", "sha1", "wx", "hs"):
                o = oracle_func(op, ob)
                if o:
                    fails.append({"kind": "oracle", "what": "C09 %s oracle (replay)" % t[0], "detail": o,
                                  "script": [op[:4000]], "impl": [ob[:4000]]})
        return {"evaluations": 1, "failures": fails, "samples": [{"script": [l[:200] for l in lines[:10]], "impl": [x[:200] for x in impl[:10]]}]}

    # ---- decoder cases: corpus first, then exhaustive header splits, then random
    cases = load_corpus()
    cases += header_split_cases(rng, ctx.tier)
    cases += valid_cases(rng, 700 if quick else 6000, big=False)
    cases += valid_cases(rng, 24 if quick else 250, big=True)
    cases += huge_cases()
    cases += strict_cases(rng, 300 if quick else 2500)
    cases += fault_cases(rng, 150 if quick else 1500)
    cases += misc_cases(rng, 200 if quick else 2000)
    for c in cases:
        c["script"] = case_script(c["wire"], c["sched"], c["lens"], c.get("max") or budget(c["wire"], c["sched"], c["lens"]))
    small = [c for c in cases if len(c["wire"]) < 20000]
    bigs = [c for c in cases if len(c["wire"]) >= 20000]
    groups = batch(small, 60) + batch(bigs, 2)

    def hung():
        """a hang has been confirmed in this run: the run is a violation, what is left is skipped"""
        return getattr(ctx, "_timeouts", 0) >= 1

    SKIP = ([], [], {"kind": "skipped"})

    def run_group(g):
        script = "\n".join(l for c in g for l in c["script"]) + "\n"
        if hung():
            return script, SKIP
        return script, common.compare_streams(ctx, script, h, d, "ws.decoder", timeout=(100 if quick else 450))

    for g, (script, (impl, model, f)) in zip(groups, common.pmap(run_group, groups)):
        if f and f["kind"] == "skipped":
            continue
        if f and f["kind"] == "crash":
            fails.append(f)
            continue
        pos = 0
        for c in g:
            nl = len(c["script"])
            obs = impl[pos:pos + nl]
            mobs = model[pos:pos + nl] if model else None
            pos += nl
            evals += 1
            line = obs[-1] if len(obs) == nl else ""
            o = oracle_case(c, line)
            k = c["kind"]
            dist["kinds"][k] = dist["kinds"].get(k, 0) + 1
            if o:
                what, tag = o
                fails.append({"kind": "oracle", "what": "C09 decoder oracle (%s)" % k, "detail": what, "case_kind": k,
                              "script": c["script"], "impl": [x[:3000] for x in obs], "finding": tag})
            elif mobs is not None and obs != mobs:
                di = common.first_diff(obs, mobs)
                a, b = (obs[di] if di < len(obs) else ""), (mobs[di] if di < len(mobs) else "")
                ra, rb = a.split(" ; "), b.split(" ; ")
                j = common.first_diff(ra, rb)
                add_exact({"kind": "exact", "what": "ws.decoder (%s)" % k, "script": c["script"],
                           "impl": ra[max(0, (j or 0) - 1):(j or 0) + 2], "model": rb[max(0, (j or 0) - 1):(j or 0) + 2],
                           "call": j})
            recs = line.split(" ; ") if line else []
            dist["decode_calls"] += len(recs)
            for r in recs:
                pr = parse_record(r)
                dist["read_requests"] += len(pr["reqs"])
                dist["eagain_reads"] += sum(1 for q in pr["reqs"] if q[2] == ["E"])
                dist["states_seen"][pr.get("S", "?")] = dist["states_seen"].get(pr.get("S", "?"), 0) + 1
            if recs:
                last = parse_record(recs[-1])
                endk = last["e"] if last["ret"] == "-1" else ("closed" if last["ret"] == "0" else "data")
                dist["ends"][endk] = dist["ends"].get(endk, 0) + 1
            n = len(c["wire"])
            cls = "0-125" if n <= 131 else ("126-2061" if n < 2062 else ("2062-65535" if n < 65536 else ">=65536"))
            dist["payload_len_class"][cls] = dist["payload_len_class"].get(cls, 0) + 1
            st = "all" if not c["sched"] else ("cyclic" if "*" in c["sched"] else "list") + ("+E" if "E" in c["sched"] else "")
            dist["sched_style"][st] = dist["sched_style"].get(st, 0) + 1
            if len(recs) >= 2:
                nontrivial.add((c["wire"], tuple(c["sched"]), tuple(c["lens"])))
            if len(samples) < 4 and k.startswith(("valid", "strict")) and len(c["wire"]) < 200:
                samples.append({"script": c["script"], "impl": [x[:600] for x in obs]})
        if n_counter() >= 8:
            break

    # ---- function-level ops (encoder, chunked write, base64, sha1) and handshakes
    corpus_hs, corpus_pk, corpus_wf = load_corpus_ops()
    flines = corpus_hs + ["hs " + r.hex() for r in det_offer_requests()] + det_classification_requests() + func_lines(rng, ctx.tier)
    exotic = set(corpus_hs) - corpus_wf      # handshake requests outside the oracle's well-formed class: exact comparison only
    hs_meta = []
    for i in range(60 if quick else 400):
        req, m = mk_request(rng, valid=(i % 4 != 3))
        flines.append("hs " + req.hex())
    for i in range(120 if quick else 1500):
        req, closed = mk_exotic_request(rng)
        flines.append("hs " + req.hex() + (" closed" if closed else ""))
        exotic.add(flines[-1])
    fgroups = batch(flines, 40)

    def run_f(g):
        script = "\n".join(g) + "\n"
        if hung():
            return SKIP
        return common.compare_streams(ctx, script, h, d, "ws.functions", timeout=(100 if quick else 360))

    def result():
        return {
            "evaluations": evals, "distinct_nontrivial": len(nontrivial),
            "rule": "decoder case = (wire bytes, read schedule, caller lengths) with >= 2 decode calls; function op = distinct input; e2e = distinct RFB script x framing x segmentation",
            "samples": samples, "distribution": dist, "failures": fails[:16],
            "exhaustive": True,
            "partial": ["the error of strict_run is shown to occur per call for the valid part (decoder_progress), not as a liveness theorem",
                        "wss (TLS) transport not modelled",
                        "threaded loop: covered by the end-to-end run (TCP vs WebSocket through rfbRunEventLoop(...,TRUE)) only, not by the model",
                        "timing is outside the decoder model: a lone control/empty frame followed by silence lets rfbReadExact time out (finding ws-lone-control-frame-timeout, probed end to end)"],
            "assumptions": ["read callback returns a non-empty prefix of the pending bytes, EAGAIN, 0 or a hard error",
                            "the caller passes len > 0 and a buffer of at least len bytes",
                            "valid client frames: control frames <= 125 bytes (RFC 6455 5.5), text frames carry the base64 encoding of their data"],
            "trusted_extra": ["independent RFC 6455 framer/parser + Python base64/hashlib as direct oracle"],
        }

    if hung() and n_counter():
        return result()

    for g, (impl, model, f) in zip(fgroups, common.pmap(run_f, fgroups)):
        if f and f["kind"] == "skipped":
            continue
        if f and f["kind"] == "crash":
            fails.append(f)
            continue
        for i, op in enumerate(g):
            evals += 1
            k = op.split()[0]
            dist["func_ops"][k] = dist["func_ops"].get(k, 0) + 1
            ob = impl[i] if i < len(impl) else ""
            o = oracle_func(op, ob) if op not in exotic else None
            if o:
                fails.append({"kind": "oracle", "what": "C09 %s oracle" % k, "detail": o, "script": [op[:4000]], "impl": [ob[:4000]]})
            elif model and i < len(model) and model[i] != ob:
                add_exact({"kind": "exact", "what": "ws.%s" % k, "script": [op[:4000]], "impl": [ob[:2000]], "model": [model[i][:2000]]})
            nontrivial.add(op[:200])

    if hung() and n_counter():
        return result()

    # ---- end to end: same RFB script over TCP and over WebSocket
    e2e = e2e_bigcut_scripts() + [e2e_script(rng) for _ in range(30 if quick else 300)]

    def run_e(sm):
        if hung():
            return -99, [], "skipped"
        rc, impl, err = ctx.run_lines(h, sm[0], timeout=(100 if quick else 450))
        return rc, impl, err

    for (script, meta), (rc, impl, err) in zip(e2e, common.pmap(run_e, e2e)):
        if rc == -99:
            continue
        evals += 1
        if rc != 0:
            fails.append({"kind": "crash", "what": "ws.e2e: harness exit %d" % rc, "script": [l[:300] for l in script.splitlines()][:60],
                          "impl": [x[:300] for x in impl[-5:]], "detail": err})
            continue
        o = oracle_e2e(script, impl, meta)
        if o:
            fails.append({"kind": "oracle", "what": "C09 end-to-end oracle", "detail": o,
                          "script": script.splitlines(), "impl": [x[:400] for x in impl],
                          "finding": "ws-header-split" if ((meta["nseg"] > 1 or meta["rs"]) and "det" not in meta) else None})
        key = "%s/%s" % ("base64" if meta["b64"] else "binary", "bigcut" if "det" in meta else ("rs" if meta["rs"] else "nors"))
        dist["e2e"][key] = dist["e2e"].get(key, 0) + 1
        nontrivial.add(script[:300])
        if len(samples) < 6:
            samples.append({"script": [l[:200] for l in script.splitlines()][:12], "impl": [x[:200] for x in impl][:12]})

    if hung() and n_counter():
        return result()

    # ---- hostile first frames on the context the real handshake created
    hostile = hostile_first_scripts()
    dist["e2e"]["hostile-first"] = 0
    for (script, meta), (rc, impl, err) in zip(hostile, common.pmap(run_e, hostile)):
        if rc == -99:
            continue
        evals += 1
        dist["e2e"]["hostile-first"] += 1
        if rc != 0:
            fails.append({"kind": "crash", "what": "ws.hostile-first: harness exit %d" % rc, "script": script.splitlines(),
                          "impl": [x[:300] for x in impl[-5:]], "detail": err})
            continue
        o = oracle_hostile(script, impl, meta)
        if o and sum(1 for f in fails if f.get("what", "").startswith("C09 first-frame")) < 3:
            fails.append({"kind": "oracle", "what": "C09 first-frame strictness oracle (real handshake)", "detail": o,
                          "script": script.splitlines(), "impl": [x[:400] for x in impl], "hostile_meta": meta})
        nontrivial.add(script[:400])

    if hung() and n_counter():
        return result()

    # ---- threaded loop: TCP vs WebSocket, several messages per frame in every protocol state
    thr = thr_cases(rng)
    tcp_ref = {}

    def run_t(op):
        if hung():
            return -99, [], "skipped"
        return ctx.run_lines(h, op + "\n", timeout=120)

    tcp_ops = sorted(set(c["tcp"] for c in thr))
    for op, (rc, impl, err) in zip(tcp_ops, common.pmap(run_t, tcp_ops, workers=2)):
        tcp_ref[op] = (rc, impl[0] if impl else "", err)
    dist["e2e"]["threaded"] = 0
    for c, (rc, impl, err) in zip(thr, common.pmap(run_t, [c["ws"] for c in thr], workers=4)):
        trc, tob, terr = tcp_ref[c["tcp"]]
        if rc == -99 or trc == -99:
            continue
        evals += 1
        dist["e2e"]["threaded"] += 1
        if rc != 0 or trc != 0:
            fails.append({"kind": "crash", "what": "ws.threaded: harness exit %d/%d" % (rc, trc), "script": [c["tcp"][:2000], c["ws"][:4000]],
                          "detail": err or terr})
            continue
        o = oracle_thr(c, impl[0] if impl else "", tob)
        if o and sum(1 for f in fails if f.get("what", "").startswith("C09 threaded")) < 3:
            fails.append({"kind": "oracle", "what": "C09 threaded-loop transparency oracle", "detail": o,
                          "script": [c["tcp"], c["ws"]], "impl": [tob[:600], (impl[0] if impl else "")[:600]],
                          "thr_case": {k: c[k] for k in ("auth", "b64", "name", "ev", "frames")}})
        nontrivial.add(c["ws"][:400])

    if hung() and n_counter():
        return result()

    # ---- partial greeting at connection time (webSocketsCheck / rfbPeekExactTimeout)
    pk = corpus_pk + peek_cases()

    def run_pk(c):
        return ctx.run_lines(h, c[0] + "\n", timeout=120)

    dist["peek"] = {"ok": 0, "fail": 0}
    for (op, pkind, ws), (rc, impl, err) in zip(pk, common.pmap(run_pk, pk, workers=8)):
        evals += 1
        o = ("harness exit %d" % rc) if rc != 0 else oracle_peek(op, impl[0] if impl else "", ws, pkind)
        dist["peek"]["fail" if o else "ok"] += 1
        if o and sum(1 for f in fails if f.get("what", "").startswith("C09 connection-time peek")) < 2:
            fails.append({"kind": "oracle", "what": "C09 connection-time peek oracle", "detail": o,
                          "script": [op], "impl": impl[:2]})

    # ---- a lone control frame / empty frame followed by silence (finding, see docs/C09.md)
    for kind in ("ping", "pong", "empty"):
        script = lone_control_script(kind)
        rc, impl, err = ctx.run_lines(h, script, timeout=120)
        evals += 1
        o = "harness exit %d" % rc if rc != 0 else oracle_lone_control(impl)
        dist["e2e"]["lone-" + kind] = "fails" if o else "ok"
        if o:
            fails.append({"kind": "oracle", "what": "C09 end-to-end oracle (lone %s frame)" % kind, "detail": o,
                          "script": script.splitlines(), "impl": [x[:300] for x in impl], "finding": LONE_CONTROL})

    return result()


META = {
    "technique": "Lean 4 theorems about an executable model of the hybi decoder as a state machine over an arbitrary read oracle (schedule independence by an inductive invariant), codec round trips, encoder validity; exact correspondence run of the model against the real decoder through its read callback, end-to-end differential run TCP vs WebSocket",
    "level_text": "Proof: see lean/VncModel/Props/C09.lean. Tie: T0 constants + exact differential run (every decode call: result, read requests, full decoder state) + independent RFC 6455 oracle + end-to-end run.",
    "level_note": "Trusted: Lean kernel, harness/driver/generators (testing, distribution in evidence). The base64 round-trip law is proved for the model of base64.c, which is compared with the C routines. TLS not modelled.",
    "design_ref": "DESIGN.md section 7, C09; section 11 item b",
}
