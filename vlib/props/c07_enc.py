"""Independent reference RFB *server-side encoder* (C07/C08), written from the RFB specification
(RFC 6143 + community rfbproto for Tight/Ultra/TRLE).  It shares no code with LibVNCClient, with
libvncserver's encoders or with the Lean decoders.

It is driven by random *choice sequences*: the choices first fix the sub-encoding of every
rectangle/tile, the pixel content is then generated to fit the choice (so every sub-encoding is
reachable with certainty, not only when random content happens to suit it), and the encoder keeps
the framebuffer it has thereby transmitted (`Session.fb`): the direct oracle of C07 is
"client->frameBuffer == Session.fb" (pixels compared on the colour bits of the format).

Pixels are `bytes` of length bytespp in the client's wire order.
"""
import struct, zlib

ENC = {"raw": 0, "copyrect": 1, "rre": 2, "corre": 4, "hextile": 5, "zlib": 6, "tight": 7,
       "ultra": 9, "trle": 15, "zrle": 16,
       "xcursor": 0xFFFFFF10, "richcursor": 0xFFFFFF11, "pointerpos": 0xFFFFFF18,
       "lastrect": 0xFFFFFF20, "newfbsize": 0xFFFFFF21, "extdesktopsize": 0xFFFFFECC,
       "ledstate": 0xFFFE0000, "ultrazip": 0xFFFF0009}


class Fmt:
    def __init__(self, bpp, depth, be, tc, rmax, gmax, bmax, rs, gs, bs, name=""):
        self.bpp, self.depth, self.be, self.tc = bpp, depth, be, tc
        self.rmax, self.gmax, self.bmax, self.rs, self.gs, self.bs = rmax, gmax, bmax, rs, gs, bs
        self.bytespp = bpp // 8
        self.name = name

    def tuple(self):
        return (self.bpp, self.depth, self.be, self.tc, self.rmax, self.gmax, self.bmax, self.rs, self.gs, self.bs)

    def wire(self):
        return struct.pack(">BBBBHHHBBBxxx", *self.tuple())

    def mask(self):
        return (self.rmax << self.rs) | (self.gmax << self.gs) | (self.bmax << self.bs)

    def of_value(self, v):
        return v.to_bytes(self.bytespp, "big" if self.be else "little")

    def value(self, pb):
        return int.from_bytes(pb, "big" if self.be else "little")

    def of_rgb(self, r, g, b):
        return self.of_value(((r & self.rmax) << self.rs) | ((g & self.gmax) << self.gs) | ((b & self.bmax) << self.bs))

    def rgb(self, pb):
        v = self.value(pb)
        return ((v >> self.rs) & self.rmax, (v >> self.gs) & self.gmax, (v >> self.bs) & self.bmax)

    def rand_pixel(self, rng):
        return self.of_rgb(rng.getrandbits(16), rng.getrandbits(16), rng.getrandbits(16))

    def mask_bytes(self, data):
        """zero every bit that is not a colour bit (padding is unspecified by RFB)"""
        m = self.of_value(self.mask())
        if all(x == 0xFF for x in m):
            return bytes(data)
        n = len(data) // self.bytespp
        mm = int.from_bytes(m * n, "big")
        return (int.from_bytes(data, "big") & mm).to_bytes(len(data), "big")

    # --- CPIXEL (ZRLE/TRLE) and TPIXEL (Tight) ---------------------------------------------
    def cpixel_mode(self):
        if self.bpp == 32 and self.tc and self.depth <= 24:
            ls = self.mask() < (1 << 24)
            ms = (self.mask() & 0xFF) == 0
            if (ls and not self.be) or (ms and self.be):
                return "lo3"          # first three wire bytes
            if (ls and self.be) or (ms and not self.be):
                return "hi3"          # last three wire bytes
        return "full"

    def cpixel(self, pb):
        m = self.cpixel_mode()
        return pb[:3] if m == "lo3" else pb[1:] if m == "hi3" else pb

    def cpixel_size(self):
        return 3 if self.cpixel_mode() != "full" else self.bytespp

    def tpixel_rgb(self):
        return self.bpp == 32 and self.depth == 24 and self.rmax == 255 and self.gmax == 255 and self.bmax == 255

    def tpixel(self, pb):
        if self.tpixel_rgb():
            return bytes(self.rgb(pb))
        return pb

    def tpixel_size(self):
        return 3 if self.tpixel_rgb() else self.bytespp


FORMATS = [
    Fmt(8, 8, 0, 1, 7, 7, 3, 0, 3, 6, "bgr233"),
    Fmt(8, 6, 0, 1, 3, 3, 3, 4, 2, 0, "rgb222"),
    Fmt(16, 16, 0, 1, 31, 63, 31, 11, 5, 0, "rgb565le"),
    Fmt(16, 16, 1, 1, 31, 63, 31, 11, 5, 0, "rgb565be"),
    Fmt(16, 15, 0, 1, 31, 31, 31, 10, 5, 0, "rgb555le"),
    Fmt(16, 15, 1, 1, 31, 31, 31, 10, 5, 0, "rgb555be"),
    Fmt(32, 24, 0, 1, 255, 255, 255, 16, 8, 0, "rgb888le"),
    Fmt(32, 24, 0, 1, 255, 255, 255, 0, 8, 16, "bgr888le"),
    Fmt(32, 24, 1, 1, 255, 255, 255, 16, 8, 0, "rgb888be"),
    Fmt(32, 24, 0, 1, 255, 255, 255, 24, 16, 8, "rgb888le-hi"),
    Fmt(32, 24, 1, 1, 255, 255, 255, 24, 16, 8, "rgb888be-hi"),
    Fmt(32, 30, 0, 1, 1023, 1023, 1023, 20, 10, 0, "rgb101010le"),
    Fmt(32, 32, 0, 1, 255, 255, 255, 16, 8, 0, "rgb888le-d32"),
    Fmt(32, 18, 0, 1, 63, 63, 63, 12, 6, 0, "rgb666le"),
]
FMT_BY_NAME = {f.name: f for f in FORMATS}


def compact_len(n):
    assert 0 <= n < (1 << 22)
    if n < 128:
        return bytes([n])
    if n < 16384:
        return bytes([(n & 0x7F) | 0x80, n >> 7])
    return bytes([(n & 0x7F) | 0x80, ((n >> 7) & 0x7F) | 0x80, n >> 14])


class ZStream:
    """persistent deflate stream; every chunk ends with a sync flush"""
    def __init__(self, rng):
        self.rng = rng
        self.reset()

    def reset(self):
        self.level = self.rng.choice([0, 1, 6, 9])
        self.co = zlib.compressobj(self.level)
        self.fresh = True

    def feed(self, data):
        out = self.co.compress(data) + self.co.flush(zlib.Z_SYNC_FLUSH)
        self.fresh = False
        return out


# ------------------------------------------------------------------------------------------
# pixel content helpers
# ------------------------------------------------------------------------------------------
def palette(rng, fmt, n):
    """n distinct pixels"""
    seen, out = set(), []
    guard = 0
    while len(out) < n:
        p = fmt.rand_pixel(rng)
        guard += 1
        if p not in seen or guard > 50 * n:
            seen.add(p)
            out.append(p)
    return out


def paint_into(cv, W, bpp, x, y, w, h, pix):
    row = pix * w
    for yy in range(y, y + h):
        o = (yy * W + x) * bpp
        cv[o:o + w * bpp] = row


def rand_subrects(rng, tw, th, n, maxdim=None):
    out = []
    for _ in range(n):
        w = rng.randint(1, min(tw, maxdim or tw))
        h = rng.randint(1, min(th, maxdim or th))
        if rng.random() < 0.5:
            w = min(w, rng.randint(1, 4))
        if rng.random() < 0.5:
            h = min(h, rng.randint(1, 4))
        x = rng.randint(0, tw - w)
        y = rng.randint(0, th - h)
        out.append((x, y, w, h))
    return out


def run_lengths(rng, total):
    """run lengths summing to `total`, deliberately visiting the 255/256 boundaries"""
    out = []
    left = total
    special = [1, 2, 3, 254, 255, 256, 257, 509, 510, 511, 512, 765, 766, 1020, 1021]
    while left > 0:
        r = rng.random()
        if r < 0.35:
            n = rng.choice(special)
        elif r < 0.7:
            n = rng.randint(1, 8)
        elif r < 0.9:
            n = rng.randint(1, 300)
        else:
            n = left
        n = min(n, left)
        out.append(n)
        left -= n
    return out


def runlen_bytes(n):
    """n >= 1: (n-1) as a sum of bytes, all but the last being 255"""
    n -= 1
    return b"\xff" * (n // 255) + bytes([n % 255])


# ------------------------------------------------------------------------------------------
# rectangle encoders: each returns (payload bytes, pixel bytes row-major, z entries, tags)
# z entries: (stream id, compressed chunk, plain) consumed by the Lean model in order
# ------------------------------------------------------------------------------------------
class Session:
    """one connection: client format, framebuffer the client must end up with, codec state"""
    Z_ZLIB, Z_ZRLE, Z_LZO = 4, 6, 5

    def __init__(self, rng, fmt, W, H, lzo=None):
        self.rng, self.fmt, self.W, self.H = rng, fmt, W, H
        self.fb = bytearray(W * H * fmt.bytespp)
        self.zs = {i: ZStream(rng) for i in (0, 1, 2, 3, self.Z_ZLIB, self.Z_ZRLE)}
        self.tags = []
        self.z = []
        self.lzo = lzo            # function bytes -> LZO1X compressed bytes
        self.some_colours = palette(rng, fmt, 6)

    # -- framebuffer bookkeeping ----------------------------------------------------------
    def put(self, x, y, w, h, px):
        b = self.fmt.bytespp
        for r in range(h):
            o = ((y + r) * self.W + x) * b
            self.fb[o:o + w * b] = px[r * w * b:(r + 1) * w * b]

    def get(self, x, y, w, h):
        b = self.fmt.bytespp
        return b"".join(bytes(self.fb[((y + r) * self.W + x) * b:((y + r) * self.W + x + w) * b]) for r in range(h))

    def resize(self, W, H):
        self.W, self.H = W, H
        self.fb = bytearray(W * H * self.fmt.bytespp)

    def tag(self, t):
        self.tags.append(t)

    def colour(self):
        r = self.rng.random()
        if r < 0.5:
            return self.rng.choice(self.some_colours)
        return self.fmt.rand_pixel(self.rng)

    def content(self, w, h, kind=None):
        """pixel content of a w*h area"""
        rng, fmt = self.rng, self.fmt
        kind = kind or getattr(self, "force_content", None) or rng.choice(["noise", "few", "runs", "flat", "grad"])
        n = w * h
        if kind == "noisefast":      # incompressible, generated in one go
            return fmt.mask_bytes(rng.randbytes(n * fmt.bytespp))
        if kind == "flat":
            return self.colour() * n
        if kind == "few":
            pal = palette(rng, fmt, rng.choice([2, 2, 3, 4, 5, 16]))
            return b"".join(rng.choice(pal) for _ in range(n))
        if kind == "runs":
            out = []
            for k in run_lengths(rng, n):
                out.append(self.colour() * k)
            return b"".join(out)
        if kind == "grad":
            out = []
            r0, g0, b0 = rng.getrandbits(8), rng.getrandbits(8), rng.getrandbits(8)
            for y in range(h):
                for x in range(w):
                    out.append(fmt.of_rgb((r0 + x) * fmt.rmax // 255 if fmt.rmax > 255 else (r0 + x),
                                          (g0 + y), (b0 + x + y) >> 1))
            return b"".join(out)
        return b"".join(fmt.rand_pixel(rng) for _ in range(n))

    # -- Raw ------------------------------------------------------------------------------
    def enc_raw(self, w, h):
        px = self.content(w, h)
        self.tag("raw")
        return px, px

    # -- RRE / CoRRE ----------------------------------------------------------------------
    def enc_rre(self, w, h, corre=False):
        rng, fmt, b = self.rng, self.fmt, self.fmt.bytespp
        bg = self.colour()
        n = rng.choice([0, 1, 2, 5, 20, 100]) if w * h > 0 else 0
        cv = bytearray(bg * (w * h))
        body = []
        for (x, y, sw, sh) in rand_subrects(rng, w, h, n, 255 if corre else None) if n else []:
            c = self.colour()
            paint_into(cv, w, b, x, y, sw, sh, c)
            body.append(c + (bytes([x, y, sw, sh]) if corre else struct.pack(">HHHH", x, y, sw, sh)))
        self.tag(("corre" if corre else "rre") + ":n=%d" % (0 if n == 0 else 1 if n == 1 else 2 if n < 50 else 3))
        return struct.pack(">I", len(body)) + bg + b"".join(body), bytes(cv)

    # -- Hextile --------------------------------------------------------------------------
    def enc_hextile(self, w, h):
        rng, fmt, b = self.rng, self.fmt, self.fmt.bytespp
        out = []
        cv = bytearray(w * h * b)
        bg = fg = None          # what a strict decoder knows (fg is unknown after a coloured tile)
        for ty in range(0, h, 16):
            for tx in range(0, w, 16):
                tw, th = min(16, w - tx), min(16, h - ty)
                mode = rng.choice(["raw", "bg", "bgonly", "mono", "mono", "col", "col", "keep"])
                tile = None
                if mode == "raw":
                    tile = self.content(tw, th, rng.choice(["noise", "few"]))
                    out.append(b"\x01" + tile)
                    if rng.random() < 0.3:
                        out[-1] = bytes([1 | rng.choice([2, 4, 8, 16, 30])]) + tile   # other bits irrelevant
                        # (a Raw tile carries nothing but pixels whatever the other bits say)
                    self.tag("hex:raw")
                else:
                    flags = 0
                    rec = b""
                    newbg = bg
                    if bg is None or mode in ("bg", "bgonly") or rng.random() < 0.3:
                        newbg = self.colour() if rng.random() < 0.8 or bg is None else bg
                        flags |= 2
                        rec += newbg
                    t = bytearray(newbg * (tw * th))
                    if mode in ("bgonly", "keep", "bg") and rng.random() < 0.6:
                        nsub = 0
                        # optionally a foreground that no subrect of this tile uses (kept for later)
                        if rng.random() < 0.3:
                            fg = self.colour()
                            flags |= 4
                            rec += fg
                        self.tag("hex:flags=%d" % flags)
                        out.append(bytes([flags]) + rec)
                    elif mode in ("mono", "keep", "bg", "bgonly"):
                        if fg is None or rng.random() < 0.5:
                            fg = self.colour()
                            flags |= 4
                            rec += fg
                        nsub = rng.choice([0, 1, 2, 7, 40, 255])
                        flags |= 8
                        subs = rand_subrects(rng, tw, th, nsub)
                        body = bytearray([nsub])
                        for (x, y, sw, sh) in subs:
                            paint_into(t, tw, b, x, y, sw, sh, fg)
                            body += bytes([x * 16 + y, (sw - 1) * 16 + (sh - 1)])
                        self.tag("hex:flags=%d" % flags)
                        self.tag("hex:fg-inherited" if not flags & 4 else "hex:fg-given")
                        out.append(bytes([flags]) + rec + bytes(body))
                    else:   # coloured subrects
                        nsub = rng.choice([0, 1, 3, 20, 255])
                        flags |= 8 | 16
                        body = bytearray([nsub])
                        for (x, y, sw, sh) in rand_subrects(rng, tw, th, nsub):
                            c = self.colour()
                            paint_into(t, tw, b, x, y, sw, sh, c)
                            body += c + bytes([x * 16 + y, (sw - 1) * 16 + (sh - 1)])
                        self.tag("hex:flags=%d" % flags)
                        out.append(bytes([flags]) + rec + bytes(body))
                        fg = None       # RFC is silent; decoders in the field clobber fg here
                    bg = newbg
                    tile = bytes(t)
                for r in range(th):
                    o = ((ty + r) * w + tx) * b
                    cv[o:o + tw * b] = tile[r * tw * b:(r + 1) * tw * b]
        return b"".join(out), bytes(cv)

    # -- ZRLE / TRLE tiles ----------------------------------------------------------------
    def _packed(self, tw, th, pal, idx):
        n = len(pal)
        bits = 1 if n <= 2 else 2 if n <= 4 else 4
        out = bytearray()
        for r in range(th):
            acc, nb = 0, 0
            for c in range(tw):
                acc = (acc << bits) | idx[r * tw + c]
                nb += bits
                if nb == 8:
                    out.append(acc)
                    acc, nb = 0, 0
            if nb:
                out.append(acc << (8 - nb))     # rows are padded to a whole byte
        return bytes(out)

    def enc_tile(self, tw, th, trle_state=None):
        """one ZRLE tile (trle_state None) or TRLE tile (dict with 'pal'); -> (bytes, pixels)"""
        rng, fmt = self.rng, self.fmt
        n = tw * th
        modes = ["raw", "solid", "packed", "packed", "rle", "rle", "prle", "prle"]
        if trle_state is not None and trle_state.get("pal"):
            modes += ["reuse-packed", "reuse-prle"] * 2
        mode = rng.choice(modes)
        if getattr(self, "small_only", False):
            mode = rng.choice(["raw", "solid", "rle"])
        fk = None
        if getattr(self, "force_tile", None):        # deterministic sub-encoding coverage
            ft = self.force_tile.pop(0)
            fmode, fk = ft[0], (ft[1] if len(ft) > 1 else None)
            if fmode.startswith("reuse") and not (trle_state is not None and trle_state.get("pal")):
                fmode, fk = "packed", 4
            mode = fmode
        cp = fmt.cpixel
        if mode == "reuse-packed" and not (2 <= len(trle_state["pal"]) <= 16):
            mode = "reuse-prle"
        if mode == "raw":
            px = [fmt.rand_pixel(rng) if rng.random() < 0.7 else self.colour() for _ in range(n)]
            self.tag("tile:raw")
            return b"\x00" + b"".join(cp(p) for p in px), b"".join(px)
        if mode == "solid":
            c = self.colour()
            self.tag("tile:solid")
            if trle_state is not None:
                trle_state["pal"] = None      # 'previous tile' has no palette: strict encoders do not reuse
            return b"\x01" + cp(c), c * n
        if mode in ("packed", "reuse-packed"):
            if mode == "packed":
                k = fk or rng.choice([2, 2, 3, 4, 5, 7, 16, 16])
                pal = palette(rng, fmt, k)
                head = bytes([k]) + b"".join(cp(p) for p in pal)
                if trle_state is not None:
                    trle_state["pal"] = pal
            else:
                pal = trle_state["pal"]
                k = len(pal)
                head = b"\x7f"
            idx = [rng.randrange(k) for _ in range(n)]
            self.tag("tile:%s:k=%d:w%%8=%d" % (mode, k, tw % 8))
            return head + self._packed(tw, th, pal, idx), b"".join(pal[i] for i in idx)
        if mode == "rle":
            out, px = [b"\x80"], []
            for k in run_lengths(rng, n):
                c = self.colour()
                out.append(cp(c) + runlen_bytes(k))
                px.append(c * k)
                self.tag("tile:rle:len%s" % ("<255" if k < 255 else "=255" if k == 255 else "=256" if k == 256 else ">256"))
            return b"".join(out), b"".join(px)
        # palette RLE
        if mode == "prle":
            k = fk or rng.choice([2, 3, 16, 17, 64, 126, 127])
            pal = palette(rng, fmt, k)
            head = bytes([128 + k]) + b"".join(cp(p) for p in pal)
            if trle_state is not None:
                trle_state["pal"] = pal
        else:
            pal = trle_state["pal"]
            k = len(pal)
            head = b"\x81"
        out, px = [head], []
        for rl in run_lengths(rng, n):
            i = rng.randrange(k)
            if rl == 1 and rng.random() < 0.7:
                out.append(bytes([i]))
            else:
                out.append(bytes([128 + i]) + runlen_bytes(rl))
            px.append(pal[i] * rl)
            self.tag("tile:%s:len%s" % (mode, "=1" if rl == 1 else "<255" if rl < 255 else "=255" if rl == 255 else "=256" if rl == 256 else ">256"))
        self.tag("tile:%s:k=%d" % (mode, k))
        return b"".join(out), b"".join(px)

    def _tiles(self, w, h, T, trle):
        b = self.fmt.bytespp
        cv = bytearray(w * h * b)
        out = []
        st = {"pal": None} if trle else None
        for ty in range(0, h, T):
            for tx in range(0, w, T):
                tw, th = min(T, w - tx), min(T, h - ty)
                data, tile = self.enc_tile(tw, th, st)
                out.append(data)
                for r in range(th):
                    o = ((ty + r) * w + tx) * b
                    cv[o:o + tw * b] = tile[r * tw * b:(r + 1) * tw * b]
        return b"".join(out), bytes(cv)

    def enc_trle(self, w, h):
        return self._tiles(w, h, 16, True)

    def enc_zrle(self, w, h):
        data, px = self._tiles(w, h, 64, False)
        # LibVNCClient inflates into a buffer of twice the raw CPIXEL size of the rectangle; tile
        # data of a sensible encoder never exceeds raw size + 1 byte per tile.  Perverse (though
        # RFC-valid) tiles, e.g. a 64-colour palette for 4 pixels, are kept out of the *valid*
        # stream generator (stated as hypothesis in Props/C07.lean, documented in docs/C07.md).
        tries = 0
        while len(data) > 2 * w * h * self.fmt.cpixel_size() and tries < 20:
            tries += 1
            self.small_only = True
            try:
                data, px = self._tiles(w, h, 64, False)
            finally:
                self.small_only = False
        z = self.zs[self.Z_ZRLE].feed(data)
        self.z.append((self.Z_ZRLE, z, data))
        return struct.pack(">I", len(z)) + z, px

    # -- Zlib / Ultra ---------------------------------------------------------------------
    def enc_zlib(self, w, h):
        px = self.content(w, h)
        z = self.zs[self.Z_ZLIB].feed(px)
        self.z.append((self.Z_ZLIB, z, px))
        self.tag("zlib")
        return struct.pack(">I", len(z)) + z, px

    def enc_ultra(self, w, h):
        px = self.content(w, h)
        z = self.lzo(px)
        self.z.append((self.Z_LZO, z, px))
        self.tag("ultra")
        return struct.pack(">I", len(z)) + z, px

    # -- Tight ----------------------------------------------------------------------------
    def tight_data(self, sid, data, ctl_hi):
        """-> (control byte with reset bits, data block)"""
        rng = self.rng
        resets = 0
        forced = getattr(self, "force_resets", None)
        for i in range(4):
            if (forced is None and rng.random() < 0.12) or (forced is not None and forced >> i & 1):
                resets |= 1 << i
                self.zs[i].reset()
                self.tag("tight:reset")
        ctl = bytes([(ctl_hi << 4) | resets])
        if len(data) < 12:
            self.tag("tight:short")
            return ctl, data, None
        z = self.zs[sid].feed(data)
        self.z.append((sid, z, data))
        L = len(z)
        self.tag("tight:clen%s" % ("<128" if L < 128 else "<16384" if L < 16384 else ">=16384"))
        if L in (127, 128, 16383, 16384):
            self.tag("tight:clen=%d" % L)
        return ctl, compact_len(L) + z, None

    def enc_tight(self, w, h, force=None):
        rng, fmt, b = self.rng, self.fmt, self.fmt.bytespp
        n = w * h
        tp = fmt.tpixel
        modes = ["fill", "copy", "copy-x", "pal2", "pal2", "paln", "paln"]
        if fmt.bpp != 8:
            modes += ["grad", "grad"]
        mode = force or rng.choice(modes)
        sid = rng.randrange(4) if getattr(self, "force_sid", None) is None else self.force_sid
        if mode == "fill":
            c = self.colour()
            resets = 0
            forced = getattr(self, "force_resets", None)
            for i in range(4):
                if (forced is None and rng.random() < 0.1) or (forced is not None and forced >> i & 1):
                    resets |= 1 << i
                    self.zs[i].reset()
                    self.tag("tight:fill-reset")
            self.tag("tight:fill")
            return bytes([0x80 | resets]) + tp(c), c * n
        if mode in ("copy", "copy-x"):
            px = self.content(w, h)
            data = b"".join(tp(px[i:i + b]) for i in range(0, len(px), b))
            hi = sid | (4 if mode == "copy-x" else 0)
            ctl, blk, _ = self.tight_data(sid, data, hi)
            self.tag("tight:" + mode)
            return ctl + (b"\x00" if mode == "copy-x" else b"") + blk, px
        if mode in ("pal2", "paln"):
            k = 2 if mode == "pal2" else (getattr(self, "force_k", None) or rng.choice([3, 4, 16, 255, 256]))
            pal = palette(rng, fmt, k)
            idx = [rng.randrange(k) for _ in range(n)]
            if k == 2:
                data = bytearray()
                for r in range(h):
                    acc, nb = 0, 0
                    for c in range(w):
                        acc = (acc << 1) | idx[r * w + c]
                        nb += 1
                        if nb == 8:
                            data.append(acc)
                            acc, nb = 0, 0
                    if nb:
                        data.append(acc << (8 - nb))
                data = bytes(data)
            else:
                data = bytes(idx)
            ctl, blk, _ = self.tight_data(sid, data, sid | 4)
            self.tag("tight:pal:k=%d" % k)
            if k == 2:
                self.tag("tight:pal2:w%%8=%d" % (w % 8))
            return ctl + b"\x01" + bytes([k - 1]) + b"".join(tp(p) for p in pal) + blk, b"".join(pal[i] for i in idx)
        # gradient
        px = self.content(w, h, rng.choice(["grad", "noise", "few"]))
        mx = (fmt.rmax, fmt.gmax, fmt.bmax)
        comps = [fmt.rgb(px[i:i + b]) for i in range(0, len(px), b)]
        diffs = []
        for y in range(h):
            for x in range(w):
                cur = comps[y * w + x]
                d = []
                for c in range(3):
                    left = comps[y * w + x - 1][c] if x > 0 else 0
                    up = comps[(y - 1) * w + x][c] if y > 0 else 0
                    ul = comps[(y - 1) * w + x - 1][c] if (x > 0 and y > 0) else 0
                    est = left + up - ul
                    est = 0 if est < 0 else mx[c] if est > mx[c] else est
                    d.append((cur[c] - est) & mx[c] if (mx[c] & (mx[c] + 1)) == 0 else (cur[c] - est) % (mx[c] + 1))
                diffs.append(fmt.of_rgb(*d))
        data = b"".join(tp(p) for p in diffs)
        ctl, blk, _ = self.tight_data(sid, data, sid | 4)
        self.tag("tight:grad")
        return ctl + b"\x02" + blk, px

    # -- dispatcher -------------------------------------------------------------------------
    def enc_rect(self, enc, x, y, w, h, **kw):
        """-> full rectangle bytes (header + payload); updates self.fb"""
        f = {"raw": self.enc_raw, "rre": self.enc_rre, "hextile": self.enc_hextile,
             "trle": self.enc_trle, "zrle": self.enc_zrle, "zlib": self.enc_zlib,
             "ultra": self.enc_ultra, "tight": self.enc_tight}
        if enc == "corre":
            payload, px = self.enc_rre(w, h, corre=True)
        else:
            payload, px = f[enc](w, h, **kw)
        self.put(x, y, w, h, px)
        return struct.pack(">HHHHI", x, y, w, h, ENC[enc]) + payload

    def enc_copyrect(self, x, y, w, h, sx, sy):
        px = self.get(sx, sy, w, h)
        self.put(x, y, w, h, px)
        dx, dy = x - sx, y - sy
        self.tag("copyrect:dx%s:dy%s%s" % ("<0" if dx < 0 else ">0" if dx > 0 else "=0",
                                           "<0" if dy < 0 else ">0" if dy > 0 else "=0",
                                           ":overlap" if abs(dx) < w and abs(dy) < h else ""))
        return struct.pack(">HHHHI", x, y, w, h, 1) + struct.pack(">HH", sx, sy)


def fbu(rects):
    return struct.pack(">BxH", 0, len(rects)) + b"".join(rects)


def handshake(fmt_server, W, H, name=b"verif", version=b"RFB 003.008\n"):
    """server bytes up to and including ServerInit, security type None"""
    if version >= b"RFB 003.007\n":
        sec = bytes([1, 1]) + (struct.pack(">I", 0) if version >= b"RFB 003.008\n" else b"")
    else:
        sec = struct.pack(">I", 1)
    return version + sec + struct.pack(">HH", W, H) + fmt_server.wire() + struct.pack(">I", len(name)) + name
